#!/bin/sh
# Offline setup after a fresh restore: pre-build the harness binaries against /repo (every check rebuilds
# incrementally anyway) and self-check the TLA+ oracle libraries.  Pre-building is best effort.
cd "$(dirname "$0")"
export CARGO_NET_OFFLINE=true
mkdir -p run evidence
python3 - <<'PY'
import sys, os, glob
sys.path.insert(0, "checks")
import framework as fw
bins = sorted(os.path.basename(p)[:-3] for p in glob.glob(os.path.join(fw.HARNESS, "src", "bin", "*.rs")))
plan = [("std64", b) for b in bins] + [(v, b) for v in ("release", "w32", "nostd") for b in ("c01", "c02", "c09", "c19")]
plan += [("release", b) for b in ("c12", "c13", "c16", "c17", "c17g", "c07")] + [("nostd", "c12"), ("nostd", "c07"), ("w32", "c07")]
for v, b in plan:
    try:
        fw.build(v, b)
    except Exception as ex:
        print("setup: pre-build of %s/%s failed (the check will report it): %s" % (v, b, ex))
d = os.path.join(fw.RUN, "setup"); os.makedirs(d, exist_ok=True)
print(fw.lib_selfcheck(d))
PY
