#!/bin/sh
# Offline setup after a fresh restore: build the harness against /repo and self-check the TLA+ oracle libraries.
set -e
cd "$(dirname "$0")"
export CARGO_NET_OFFLINE=true
mkdir -p run evidence
python3 - <<'PY'
import sys, os
sys.path.insert(0, "checks")
import framework as fw
fw.build("std64", "c01")
d = os.path.join(fw.RUN, "setup"); os.makedirs(d, exist_ok=True)
print(fw.lib_selfcheck(d))
PY
