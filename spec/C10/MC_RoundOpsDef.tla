--------------------------- MODULE MC_RoundOpsDef ---------------------------
(* Ties the BigInt definitions of the trace monitor (RoundOpsDef!NearestInt, ExpectedAdjust, QTrunc, QFloor,
   QCeil) to the native brute-force definitions used by the algorithm-layer models (RoundNative!NearestIntN,
   ExpectedAdjustN, TLC's floor division) on every fraction n / d of the scope.  A disagreement is a tool
   error, not a verdict. *)
EXTENDS RoundOpsDef, TLC
N == INSTANCE RoundNative
CONSTANTS NMax, DMax, IMax
VARIABLES d, n
Init == d \in 1..DMax /\ n = NMax + 1
Pick == n = NMax + 1 /\ n' \in -NMax..NMax /\ UNCHANGED d
Spec == Init /\ [][Pick]_<<d, n>>
X == Q(IFromNative(n), FromNat(d))
Agree ==
  n <= NMax =>
    /\ \A mode \in N!AllModes : IToNative(NearestInt(mode, X)) = N!NearestIntN(mode, n, d)
    /\ IToNative(QFloor(X)) = n \div d /\ IToNative(QCeil(X)) = -((-n) \div d) /\ IToNative(QTrunc(X)) = N!TDivN(n, d)
    /\ (N!NAbs(n) < d =>
          \A mode \in N!AllModes, i \in -IMax..IMax :
             ExpectedAdjust(mode, IFromNative(i), IFromNative(n), FromNat(d)) = N!ExpectedAdjustN(mode, i, n, d))
=============================================================================
