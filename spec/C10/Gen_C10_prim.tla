---------------------------- MODULE Gen_C10_prim ----------------------------
(* Behaviour generator for the two rounding primitives: every (integer, fraction) pair of the
   MC_RoundTables scope is printed once, with the adjustment the transcribed tables predict for each of the
   six modes; the harness calls the primitive in all six modes. *)
EXTENDS MC_RoundTables, Json
Pred == [Zero |-> FlagOf(IF kind = "fract" THEN RoundFract("Zero", b, i, f, prec) ELSE RoundRatio("Zero", i, f, den)),
         Away |-> FlagOf(IF kind = "fract" THEN RoundFract("Away", b, i, f, prec) ELSE RoundRatio("Away", i, f, den)),
         Up |-> FlagOf(IF kind = "fract" THEN RoundFract("Up", b, i, f, prec) ELSE RoundRatio("Up", i, f, den)),
         Down |-> FlagOf(IF kind = "fract" THEN RoundFract("Down", b, i, f, prec) ELSE RoundRatio("Down", i, f, den)),
         HalfEven |-> FlagOf(IF kind = "fract" THEN RoundFract("HalfEven", b, i, f, prec) ELSE RoundRatio("HalfEven", i, f, den)),
         HalfAway |-> FlagOf(IF kind = "fract" THEN RoundFract("HalfAway", b, i, f, prec) ELSE RoundRatio("HalfAway", i, f, den))]
Class == IF f = 0 THEN "zero-fraction" ELSE IF 2 * NAbs(f) = NAbs(den) THEN "tie" ELSE "plain"
Case == IF kind = "fract"
        THEN [op |-> "round_fract", base |-> b, i |-> i, f |-> f, prec |-> prec, pred |-> Pred, class |-> Class]
        ELSE [op |-> "round_ratio", base |-> 0, i |-> i, num |-> f, den |-> den, pred |-> Pred, class |-> Class]
\* one case per operand tuple: the state of mode Zero (which carries no estimate bounds)
Emit == (pc = "done" /\ mode = "Zero") => PrintT(<<"GEN", ToJson(Case)>>)
=============================================================================
