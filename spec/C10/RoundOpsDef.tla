----------------------------- MODULE RoundOpsDef -----------------------------
(* Definition layer of C10: which neighbour of the exact value each rounding operation names.
   The only formulas that can raise a C10 violation.

     trunc: toward zero        floor: toward -inf        ceil: toward +inf
     round: nearest integer, ties away from zero          fract(x) = x - trunc(x)
     to_int: the integer N_mode(x) of the rounding mode of the type, flagged Exact iff x is an integer
     Repr::to_int: trunc(x), flagged Exact iff x is an integer
     with_precision(q): FloatDef!Rounded at q digits under the mode of the type (kept exactly when q is
                        0 = unlimited or not below the current precision)
     primitives: adjustment = N_mode(integer + fraction) - integer, as NoOp / AddOne / SubOne.

   N_mode is the brute-force "which of the two neighbouring integers" definition of the six modes. *)
EXTENDS FloatDef

IntQ(i) == Q(i, One)
QIsInt(x) == Mod(x.n.m, x.d) = <<>>
IOdd(i) == Bit(i.m, 0) = 1
\* nearest integer to the rational x under a mode
NearestInt(mode, x) ==
  LET lo == QFloor(x)
      hi == IAdd(lo, IOne)
      h == QCmp(QMulInt(QSub(x, IntQ(lo)), IFromNative(2)), IntQ(IOne))     \* cmp(2 * (x - lo), 1)
      pos == QSign(x) > 0
  IN IF QIsInt(x) THEN lo
     ELSE CASE mode = "Zero" -> IF pos THEN lo ELSE hi
            [] mode = "Away" -> IF pos THEN hi ELSE lo
            [] mode = "Up" -> hi
            [] mode = "Down" -> lo
            [] mode = "HalfAway" -> IF h < 0 THEN lo ELSE IF h > 0 THEN hi ELSE IF pos THEN hi ELSE lo
            [] mode = "HalfEven" -> IF h < 0 THEN lo ELSE IF h > 0 THEN hi ELSE IF IOdd(lo) THEN hi ELSE lo
RoundHalfAway(x) == NearestInt("HalfAway", x)
FractOf(x) == QSub(x, IntQ(QTrunc(x)))

(* The primitives: value = i + n / d with d > 0 and |n| < d.  The two neighbours are known without a
   division (i and i + 1 for a positive fraction, i - 1 and i for a negative one), so the definition
   stays cheap for operands of tens of thousands of digits. *)
AdjustName(k) == IF k = 0 THEN "NoOp" ELSE IF k = 1 THEN "AddOne" ELSE "SubOne"
ExpectedAdjust(mode, i, n, d) ==
  IF IIsZero(n) THEN "NoOp" ELSE
  LET neg == n.s = 1
      lo == IF neg THEN ISub(i, IOne) ELSE i
      pos == IF IIsZero(i) THEN ~neg ELSE i.s = 0                            \* sign of i + n/d
      \* cmp(2 * (value - lo), 1): value - lo = n/d (n > 0) or 1 - |n|/d (n < 0)
      h == IF neg THEN Cmp(d, MulSmall(n.m, 2)) ELSE Cmp(MulSmall(n.m, 2), d)
      pickHi == CASE mode = "Zero" -> ~pos
                  [] mode = "Away" -> pos
                  [] mode = "Up" -> TRUE
                  [] mode = "Down" -> FALSE
                  [] mode = "HalfAway" -> h > 0 \/ (h = 0 /\ pos)
                  [] mode = "HalfEven" -> h > 0 \/ (h = 0 /\ IOdd(lo))
  IN IF neg THEN (IF pickHi THEN "NoOp" ELSE "SubOne") ELSE (IF pickHi THEN "AddOne" ELSE "NoOp")

\* B^k as a natural; a shift when the base is a power of two
Log2Of(B) == CASE B = 2 -> 1 [] B = 4 -> 2 [] B = 8 -> 3 [] B = 16 -> 4 [] B = 32 -> 5 [] OTHER -> 0
PowNat(B, k) == IF Log2Of(B) > 0 THEN Shl(One, Log2Of(B) * k) ELSE Pow(FromNat(B), k)

Shift(f, k) == [sig |-> f.sig, exp |-> f.exp - k, inf |-> f.inf]
FloatOK(f) == f.inf = 0 /\ IsInt(f.sig)
\* a float result equals the rational / integer the definition names
FloatIsQ(B, f, x) == FloatOK(f) /\ QEq(FVal(B, f), x)
=============================================================================
