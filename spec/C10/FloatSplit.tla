------------------------------ MODULE FloatSplit ------------------------------
(* Algorithm layer of C10 for the FBig rounding operations: float/src/round_ops.rs (trunc, fract,
   split_at_point, ceil, floor, round and the helper split_at_point_internal with its "smaller than one"
   shortcut through Repr::smaller_than_one / digits_ub), FBig::to_int and Repr::to_int
   (float/src/convert.rs), FBig::with_precision (convert.rs -> Context::repr_round), transcribed branch by
   branch over native integers in a small scope and checked against the definition of each operation.

   SplitFix = FALSE is the pinned tree (finding F04: the shortcut of split_at_point_internal returns the
   context precision as the number of fraction digits instead of -exponent); TRUE is the repaired code.
   WPFix = FALSE is the pinned tree (finding F90: with_precision compares the precisions numerically, so a
   source of unlimited precision, encoded as 0, is never rounded); TRUE is the repaired code.
   `unl`: the float carries unlimited precision (context precision 0); its significand still has <= p digits. *)
EXTENDS RoundTables, Sequences
CONSTANTS Scope,       \* set of 100 * base + max precision
          Modes, Ops, ExpLow,     \* exponents -(p + ExpLow) .. 2
          SplitFix, WPFix

VARIABLES pc, b, p, mode, op, sg, ex, dub, unl, q, \* float sg * b^ex at context precision p; q: target of with_precision
          ri, rfs, rfe, flag, branch                \* integer result (or hi part), float result rfs * b^rfe, flag
vars == <<pc, b, p, mode, op, sg, ex, dub, unl, q, ri, rfs, rfe, flag, branch>>
inputs == <<b, p, mode, op, sg, ex, dub, unl, q>>
ModeDependent == {"to_int", "with_precision"}

Sigs(bb, pp) == {s \in -(NPow(bb, pp) - 1) .. (NPow(bb, pp) - 1) : s # 0 /\ s % bb # 0}
SplitHi(v, n) == TDivN(v, NPow(b, n))
SplitLo(v, n) == TRemN(v, NPow(b, n))

Init ==
  /\ pc = "pick"
  /\ \E sc \in Scope : b = sc \div 100 /\ p \in 1..(sc % 100)
  /\ op \in Ops
  /\ mode \in (IF op \in ModeDependent THEN Modes ELSE {"Zero"})
  /\ sg = 0 /\ ex = 0 /\ dub = 0 /\ unl = FALSE /\ q = 0 /\ ri = 0 /\ rfs = 0 /\ rfe = 0 /\ flag = "" /\ branch = ""

Pick ==
  /\ pc = "pick"
  /\ sg' \in Sigs(b, p)
  /\ ex' \in -(p + ExpLow)..2
  /\ dub' \in {0, 1}
  /\ unl' \in BOOLEAN
  /\ q' \in (IF op = "with_precision" THEN 0..(p + 1) ELSE {0})
  /\ pc' = "run"
  /\ UNCHANGED <<b, p, mode, op, ri, rfs, rfe, flag, branch>>

(* ---------------- repr.rs ---------------- *)
CP == IF unl THEN 0 ELSE p                            \* self.context.precision
DigitsUb == DigitsN(sg, b) + dub                      \* Repr::digits_ub(): an over-estimate
SmallerThanOne == ex + DigitsUb < -1                  \* Repr::smaller_than_one()
\* round_ops.rs split_at_point_internal: (integral part, fractional part, fraction precision)
SplitInternal ==
  IF SmallerThanOne THEN <<0, sg, IF SplitFix THEN -ex ELSE CP>>
  ELSE <<SplitHi(sg, -ex), SplitLo(sg, -ex), -ex>>
NormF(s, e) == IF s = 0 THEN <<0, 0>> ELSE <<NormSigN(s, b), e + TrailN(s, b)>>      \* Repr::new

Finish(name, i, f, fl) ==
  /\ ri' = i /\ rfs' = f[1] /\ rfe' = f[2] /\ flag' = fl /\ branch' = name
  /\ pc' = "done"
  /\ UNCHANGED inputs

\* exponent >= 0: the value is an integer; every operation returns early
RunInteger ==
  /\ pc = "run" /\ ex >= 0 /\ op # "with_precision"
  /\ Finish("integer", sg * NPow(b, ex), <<0, 0>>, IF op \in {"to_int", "repr_to_int"} THEN "Exact" ELSE "")
\* |x| known to be below one (below one half for round): constant answers
RunTiny ==
  /\ pc = "run" /\ ex < 0
  /\ \/ op \in {"trunc", "repr_to_int"} /\ SmallerThanOne
        /\ Finish("tiny", 0, <<0, 0>>, IF op = "repr_to_int" THEN "NoOp" ELSE "")
     \/ op = "split" /\ SmallerThanOne /\ Finish("tiny", 0, NormF(sg, ex), "")
     \/ op = "ceil" /\ SmallerThanOne /\ Finish("tiny", IF sg > 0 THEN 1 ELSE 0, <<0, 0>>, "")
     \/ op = "floor" /\ SmallerThanOne /\ Finish("tiny", IF sg > 0 THEN 0 ELSE -1, <<0, 0>>, "")
     \/ op = "round" /\ ex + DigitsUb < -2 /\ Finish("tiny", 0, <<0, 0>>, "")
\* the general path through split_at_point_internal (or an explicit split / shift)
RunSplit ==
  /\ pc = "run" /\ ex < 0
  /\ LET s == SplitInternal
         nm == IF SmallerThanOne THEN "split-tiny" ELSE "split"
     IN \/ op = "trunc" /\ ~SmallerThanOne /\ Finish("shift", TDivN(sg, NPow(b, -ex)), <<0, 0>>, "")
        \/ op = "repr_to_int" /\ ~SmallerThanOne /\ Finish("shift", TDivN(sg, NPow(b, -ex)), <<0, 0>>, "NoOp")
        \/ op = "split" /\ ~SmallerThanOne
             /\ Finish("split", SplitHi(sg, -ex), NormF(SplitLo(sg, -ex), ex), "")
        \/ op = "fract" /\ Finish(nm, 0, NormF(s[2], ex), "")
        \/ op = "ceil" /\ ~SmallerThanOne /\ Finish(nm, s[1] + RoundFract("Up", b, s[1], s[2], s[3]), <<0, 0>>, "")
        \/ op = "floor" /\ ~SmallerThanOne /\ Finish(nm, s[1] + RoundFract("Down", b, s[1], s[2], s[3]), <<0, 0>>, "")
        \* round_fract debug-asserts |fract| < B^precision (the harness is built with debug assertions)
        \/ op = "round" /\ ~(ex + DigitsUb < -2) /\ NAbs(s[2]) >= NPow(b, s[3]) /\ Finish(nm, 0, <<0, 0>>, "PANIC")
        \/ op = "round" /\ ~(ex + DigitsUb < -2) /\ NAbs(s[2]) < NPow(b, s[3])
             /\ Finish(nm, s[1] + RoundFract("HalfAway", b, s[1], s[2], s[3]), <<0, 0>>, "")
        \/ op = "to_int" /\ NAbs(s[2]) >= NPow(b, s[3]) /\ Finish(nm, 0, <<0, 0>>, "PANIC")
        \/ op = "to_int" /\ NAbs(s[2]) < NPow(b, s[3])
             /\ LET a == RoundFract(mode, b, s[1], s[2], s[3]) IN Finish(nm, s[1] + a, <<0, 0>>, FlagOf(a))
\* with_precision: repr_round when the precision shrinks (0 = unlimited: never rounds)
RunWithPrecision ==
  /\ pc = "run" /\ op = "with_precision"
  /\ IF (IF WPFix THEN unl \/ CP > q ELSE CP > q) /\ q # 0 /\ DigitsN(sg, b) > q
     THEN LET shift == DigitsN(sg, b) - q
              hi == SplitHi(sg, shift)  lo == SplitLo(sg, shift)
              a == RoundFract(mode, b, hi, lo, shift)
          IN Finish("shrink", 0, NormF(hi + a, ex + shift), FlagOf(a))
     ELSE Finish("keep", 0, <<sg, ex>>, "Exact")

Next == Pick \/ RunInteger \/ RunTiny \/ RunSplit \/ RunWithPrecision
Spec == Init /\ [][Next]_vars

(* ---------------- definition layer (native): which neighbour each operation names ---------------- *)
Nn == sg * NPow(b, IF ex > 0 THEN ex ELSE 0)         \* x = Nn / Dd
Dd == NPow(b, IF ex < 0 THEN -ex ELSE 0)
TruncX == TDivN(Nn, Dd)
\* the float result rfs * b^rfe equals the fractional part (Nn - TruncX * Dd) / Dd
FractOK == IF ex >= 0 THEN rfs = 0
           ELSE IF rfs = 0 THEN Nn - TruncX * Dd = 0
           ELSE rfe >= ex /\ rfs * NPow(b, rfe - ex) = Nn - TruncX * Dd
Why ==
  IF flag = "PANIC" THEN "unexpected-panic" ELSE
  CASE op = "trunc" -> IF ri = TruncX THEN "" ELSE "wrong-value"
    [] op = "floor" -> IF ri = Nn \div Dd THEN "" ELSE "wrong-value"
    [] op = "ceil" -> IF ri = -((-Nn) \div Dd) THEN "" ELSE "wrong-value"
    [] op = "round" -> IF ri = NearestIntN("HalfAway", Nn, Dd) THEN "" ELSE "wrong-value"
    [] op = "fract" -> IF FractOK THEN "" ELSE "wrong-value"
    [] op = "split" -> IF ri = TruncX /\ FractOK THEN "" ELSE "wrong-value"
    [] op = "to_int" -> IF ri # NearestIntN(mode, Nn, Dd) THEN "wrong-value"
                        ELSE IF (flag = "Exact") # (ri * Dd = Nn) THEN "exact-flag-untruthful" ELSE ""
    [] op = "repr_to_int" -> IF ri # TruncX THEN "wrong-value"
                             ELSE IF (flag = "Exact") # (ri * Dd = Nn) THEN "exact-flag-untruthful" ELSE ""
    [] op = "with_precision" ->
         LET k == IF NMin(ex, rfe) < 0 THEN -NMin(ex, rfe) ELSE 0 IN
         IF q = 0 \/ (~unl /\ q >= p)               \* unlimited target, or not below the current precision
         THEN (IF rfs * NPow(b, rfe + k) = sg * NPow(b, ex + k) /\ flag = "Exact" THEN "" ELSE "not-kept-exactly")
         ELSE RoundedNatWhy(b, q, mode, sg * NPow(b, ex + k), rfs * NPow(b, rfe + k), flag)
\* Finding F04 (open while SplitFix = FALSE): round / to_int of a number that takes the shortcut of
\* split_at_point_internal while its precision differs from the number of fraction digits
KnownF04 == ~SplitFix /\ op \in {"round", "to_int"} /\ ex < 0 /\ SmallerThanOne /\ CP # -ex
\* Finding F90 (open while WPFix = FALSE): with_precision(q) of a float of unlimited precision with more than q digits
KnownF90 == ~WPFix /\ op = "with_precision" /\ unl /\ q # 0 /\ DigitsN(sg, b) > q
Correct == pc = "done" => (Why = "" \/ KnownF04 \/ KnownF90)
F90Absent == ~(pc = "done" /\ KnownF90 /\ Why # "")
F04Absent == ~(pc = "done" /\ KnownF04 /\ Why # "")
=============================================================================
