----------------------------- MODULE Trace_C10 -----------------------------
(* Trace monitor for C10.  Event kinds (field `op`):
     trunc floor ceil round fract split to_int repr_to_int with_precision   on an FBig
         [base, mode, a |-> [sig, exp, inf, prec], q, out |-> [k, v]]
     r_trunc r_floor r_ceil r_round r_fract r_split                         on an RBig / Relaxed
         [x |-> [num, den], out |-> [k, v]]
     round_fract [base, i, f, prec, res]   round_ratio [i, num, den, res]   res: mode name |-> returned flag
   The monitor never blocks: a failing event is recorded in `bad` and validation continues. *)
EXTENDS RoundOpsDef, Json, IOUtils
Rec == ndJsonDeserialize(IOEnv.TRACE)
ModeSeq == <<"Zero", "Away", "Up", "Down", "HalfEven", "HalfAway">>

FloatOpWhy(e) ==
  LET B == e.base
      v == e.out.v
      \* the contract is invariant under scaling by a power of the base: shift so that the operand is sig * B^min(exp, 0)
      x == FVal(B, e.a)
      t == QTrunc(x)
  IN IF ~(e.a.inf = 0 /\ IsInt(e.a.sig) /\ (e.a.prec = 0 \/ SigDigits(B, e.a.sig.m) <= e.a.prec))      \* precision 0 = unlimited
     THEN "operand-outside-precondition"
     ELSE IF e.out.k # "ok" THEN "unexpected-panic"
     ELSE CASE e.op = "trunc" -> IF FloatIsQ(B, v, IntQ(t)) THEN "" ELSE "wrong-value"
            [] e.op = "floor" -> IF FloatIsQ(B, v, IntQ(QFloor(x))) THEN "" ELSE "wrong-value"
            [] e.op = "ceil" -> IF FloatIsQ(B, v, IntQ(QCeil(x))) THEN "" ELSE "wrong-value"
            [] e.op = "round" -> IF FloatIsQ(B, v, IntQ(RoundHalfAway(x))) THEN "" ELSE "wrong-value"
            [] e.op = "fract" -> IF FloatIsQ(B, v, FractOf(x)) THEN "" ELSE "wrong-value"
            [] e.op = "split" -> IF ~FloatIsQ(B, v.t, IntQ(t)) THEN "wrong-integral-part"
                                 ELSE IF ~FloatIsQ(B, v.f, FractOf(x)) THEN "wrong-fractional-part"
                                 ELSE IF ~QEq(QAdd(FVal(B, v.t), FVal(B, v.f)), x) THEN "parts-do-not-sum" ELSE ""
            [] e.op = "to_int" -> IF ~(IsInt(v.i) /\ IEq(v.i, NearestInt(e.mode, x))) THEN "wrong-value"
                                  ELSE IF (v.flag = "Exact") # QIsInt(x) THEN "exact-flag-untruthful" ELSE ""
            [] e.op = "repr_to_int" -> IF ~(IsInt(v.i) /\ IEq(v.i, t)) THEN "wrong-value"
                                       ELSE IF (v.flag = "Exact") # QIsInt(x) THEN "exact-flag-untruthful" ELSE ""
            [] e.op = "with_precision" ->
                 LET x0 == IntQ(e.a.sig)                     \* operand and result shifted by the operand's exponent
                     r0 == Shift(v.v, e.a.exp)
                 IN IF ~FloatOK(v.v) THEN "malformed-result"
                    ELSE IF e.q = 0 \/ (e.a.prec # 0 /\ e.q >= e.a.prec)        \* not below the current precision (0 = unlimited)
                    THEN (IF QEq(FVal(B, r0), x0) /\ v.flag = "Exact" THEN "" ELSE "not-kept-exactly")
                    ELSE RoundedWhy(B, e.q, e.mode, x0, r0, v.flag)

RatioOpWhy(e) ==
  LET x == Q(e.x.num, e.x.den.m)
      v == e.out.v
      t == QTrunc(x)
      RatIs(r, y) == IsInt(r.num) /\ IsNat(r.den.m) /\ r.den.m # <<>> /\ r.den.s = 0 /\ QEq(Q(r.num, r.den.m), y)
  IN IF ~(IsInt(e.x.num) /\ IsNat(e.x.den.m) /\ e.x.den.m # <<>>) THEN "operand-outside-precondition"
     ELSE IF e.out.k # "ok" THEN "unexpected-panic"
     ELSE CASE e.op = "r_trunc" -> IF IsInt(v) /\ IEq(v, t) THEN "" ELSE "wrong-value"
            [] e.op = "r_floor" -> IF IsInt(v) /\ IEq(v, QFloor(x)) THEN "" ELSE "wrong-value"
            [] e.op = "r_ceil" -> IF IsInt(v) /\ IEq(v, QCeil(x)) THEN "" ELSE "wrong-value"
            [] e.op = "r_round" -> IF IsInt(v) /\ IEq(v, RoundHalfAway(x)) THEN "" ELSE "wrong-value"
            [] e.op = "r_fract" -> IF RatIs(v, FractOf(x)) THEN "" ELSE "wrong-value"
            [] e.op = "r_split" -> IF ~(IsInt(v.t) /\ IEq(v.t, t)) THEN "wrong-integral-part"
                                   ELSE IF ~RatIs(v.f, FractOf(x)) THEN "wrong-fractional-part" ELSE ""

PrimWhy(e) ==
  LET fr == e.op = "round_fract"
      n0 == IF fr THEN e.f ELSE e.num
      dm == IF fr THEN PowNat(e.base, e.prec) ELSE e.den.m
      \* num / den with a negative den is (-num) / |den|
      n == IF fr \/ e.den.s = 0 THEN n0 ELSE INeg(n0)
      bad == {j \in 1..6 : e.res[ModeSeq[j]] # ExpectedAdjust(ModeSeq[j], e.i, n, dm)}
  IN IF ~(IsInt(e.i) /\ IsInt(n0) /\ dm # <<>> /\ Cmp(n0.m, dm) < 0) THEN "operand-outside-precondition"
     ELSE IF bad = {} THEN ""
     ELSE "wrong-adjustment-" \o ModeSeq[CHOOSE j \in bad : \A k \in bad : j <= k]

Why(e) == IF e.op \in {"round_fract", "round_ratio"} THEN PrimWhy(e)
          ELSE IF e.op \in {"r_trunc", "r_floor", "r_ceil", "r_round", "r_fract", "r_split"} THEN RatioOpWhy(e)
          ELSE FloatOpWhy(e)

VARIABLES l, bad
Init == l = 1 /\ bad = <<>>
Next == /\ l <= Len(Rec)
        /\ LET w == Why(Rec[l]) IN bad' = IF w = "" THEN bad ELSE Append(bad, [i |-> l, why |-> w])
        /\ l' = l + 1
Spec == Init /\ [][Next]_<<l, bad>>
Verdict == l > Len(Rec) => PrintT(<<"VERDICT", ToJson([total |-> Len(Rec), bad |-> bad])>>)
Complete == IF TLCGet("stats").diameter - 1 = Len(Rec) THEN TRUE
            ELSE PrintT(<<"TRUNCATED", TLCGet("stats").diameter>>) /\ FALSE
=============================================================================
