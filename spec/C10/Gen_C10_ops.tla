---------------------------- MODULE Gen_C10_ops ----------------------------
(* Behaviour generator for the FBig rounding operations of C10: the FloatSplit model is run over its
   scope (invariant Correct checked in the same pass); the sampled `done` states print one case each with
   the predicted result and branch.  Operations that do not depend on the rounding mode of the type get a
   mode by rotation, so that all six instantiations of the generic code are exercised. *)
EXTENDS FloatSplit, Json, TLC
CONSTANTS Stride, Seed

ModeSeq == <<"Zero", "Away", "Up", "Down", "HalfEven", "HalfAway">>
Salt == NAbs(sg) * 31 + (IF sg < 0 THEN 3 ELSE 0) + (ex + 40) * 7 + p * 11 + b * 23 + q * 5 + (IF unl THEN 13 ELSE 0) + Seed
CaseMode == IF op \in ModeDependent THEN mode ELSE ModeSeq[1 + (Salt % 6)]
Class ==
  IF ex >= 0 THEN "integer"
  ELSE IF 2 * NAbs(Nn - TruncX * Dd) = Dd THEN "half"
  ELSE IF TruncX = 0 /\ NAbs(Nn) * b < Dd THEN "below-1/B"
  ELSE IF TruncX = 0 THEN "below-one"
  ELSE "mixed"
Sampled == dub = 0 /\ \/ Salt % (IF op = "with_precision" THEN 4 * Stride ELSE Stride) = 0
                      \/ (branch = "split-tiny" /\ op \in {"round", "to_int"} /\ Salt % 2 = 0)
                      \/ (Class = "half" /\ op # "with_precision" /\ Salt % 3 = 0)
Case ==
  [op |-> op, base |-> b, mode |-> CaseMode, q |-> q, a |-> [sig |-> sg, exp |-> ex, prec |-> CP],
   pred |-> [i |-> ri, fs |-> rfs, fe |-> rfe, flag |-> flag], branch |-> <<branch>>, class |-> Class, known |-> KnownF04 \/ KnownF90]
Emit == (pc = "done" /\ Sampled) => PrintT(<<"GEN", ToJson(Case)>>)
=============================================================================
