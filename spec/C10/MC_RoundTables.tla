--------------------------- MODULE MC_RoundTables ---------------------------
(* Algorithm layer of C10 for the two public rounding primitives: Round::round_fract (with its
   estimated-log2 pre-filter) and Round::round_ratio of float/src/round.rs, as transcribed in
   RoundTables, model checked for all six modes against the brute-force "which neighbour" definition
   RoundNative!ExpectedAdjustN:  adjustment = N_mode(integer + fraction) - integer.

   kind = "fract": integer i, fraction f / B^prec with |f| < B^prec;
   kind = "ratio": integer i, fraction num / den with |num| < |den|, den of either sign.
   The f32 estimates of round_fract are abstracted as any valid bounds on a grid of quarters
   (L/4 <= log2 |f| <= U/4, BL/4 <= log2 B <= BU/4): the tightest ones and one step of slack. *)
EXTENDS RoundTables, TLC
CONSTANTS Scope,      \* set of 100 * base + max number of fraction digits
          Modes, IMax, DenMax

VARIABLES pc, kind, b, prec, mode, i, f, den, L, U, BL, BU, adj
vars == <<pc, kind, b, prec, mode, i, f, den, L, U, BL, BU, adj>>

\* floor(4 log2 n) and ceil(4 log2 n) for 1 <= n <= 215, by integer comparison of 2^j with n^4
P4(n) == n * n * n * n
LogLo(n) == CHOOSE j \in 0..30 : NPow(2, j) <= P4(n) /\ (j = 30 \/ NPow(2, j + 1) > P4(n))
LogHi(n) == IF NPow(2, LogLo(n)) = P4(n) THEN LogLo(n) ELSE LogLo(n) + 1

Init ==
  /\ pc = "pick" /\ kind \in {"fract", "ratio"}
  /\ \E sc \in Scope : b = sc \div 100 /\ prec \in 1..(sc % 100)
  /\ kind = "ratio" => (prec = 1 /\ \A sc \in Scope : b <= sc \div 100)       \* the ratio primitive has no base
  /\ mode \in Modes
  /\ i = 0 /\ f = 0 /\ den = 1 /\ L = 0 /\ U = 0 /\ BL = 0 /\ BU = 0 /\ adj = 0
PickFract ==
  /\ pc = "pick" /\ kind = "fract"
  /\ i' \in -IMax..IMax
  /\ f' \in -(NPow(b, prec) - 1)..(NPow(b, prec) - 1)
  /\ den' = NPow(b, prec)
  /\ IF NHalfMode(mode) /\ f' # 0
     THEN /\ L' \in {LogLo(NAbs(f')) - 1, LogLo(NAbs(f'))} /\ U' \in {LogHi(NAbs(f')), LogHi(NAbs(f')) + 1}
          /\ BL' \in {LogLo(b) - 1, LogLo(b)} /\ BU' \in {LogHi(b), LogHi(b) + 1}
     ELSE L' = 0 /\ U' = 0 /\ BL' = 0 /\ BU' = 0
  /\ pc' = "run"
  /\ UNCHANGED <<kind, b, prec, mode, adj>>
PickRatio ==
  /\ pc = "pick" /\ kind = "ratio"
  /\ i' \in -IMax..IMax
  /\ den' \in (-DenMax..DenMax) \ {0}
  /\ f' \in -(NAbs(den') - 1)..(NAbs(den') - 1)
  /\ pc' = "run"
  /\ UNCHANGED <<kind, b, prec, mode, L, U, BL, BU, adj>>
RunFract ==
  /\ pc = "run" /\ kind = "fract"
  /\ adj' = RoundFractEst(mode, b, i, f, prec, L, U, BL, BU)
  /\ pc' = "done"
  /\ UNCHANGED <<kind, b, prec, mode, i, f, den, L, U, BL, BU>>
RunRatio ==
  /\ pc = "run" /\ kind = "ratio"
  /\ adj' = RoundRatio(mode, i, f, den)
  /\ pc' = "done"
  /\ UNCHANGED <<kind, b, prec, mode, i, f, den, L, U, BL, BU>>
Next == PickFract \/ PickRatio \/ RunFract \/ RunRatio
Spec == Init /\ [][Next]_vars

\* definition: fraction f / den with den possibly negative -> numerator / positive denominator
Expected == ExpectedAdjustN(mode, i, f * NSgn(den), NAbs(den))
Correct == pc = "done" => FlagOf(adj) = Expected
\* the exact comparison and the estimated one never disagree (the pre-filter is only a shortcut)
FilterSound == (pc = "done" /\ kind = "fract") => adj = RoundFract(mode, b, i, f, prec)
=============================================================================
