----------------------------- MODULE ExpLogDef -----------------------------
(* Definition layer of C11: what exp, exp_m1, ln, ln_1p, powi, powf must return.  The only
   formulas that can raise a C11 violation.

   Statement: for every finite argument in the mathematical domain and every limited precision
   p the result is within 1 ulp (at precision p, ulp taken at the true value) of the true real
   result, and is flagged Exact only if it is exact; unlimited precision (p = 0) is refused by
   panic rather than answered inexactly.

   The true value is described by `Truth`:
     kind "exact"  : a rational, known exactly (exp 0, ln 1, every powi, x^0, x^1, 1^y, 0^y, small
                     integer exponents of powf)
     kind "encl"   : an interval [lo, hi] from Enclosure.tla containing it; `irr` says the true
                     value is known to be irrational (Lindemann: e^x for rational x # 0 and ln x for
                     rational x # 1 are transcendental), so that an Exact flag is untruthful
     kind "domain" : the argument is outside the quantifier of the property (ln of x <= 0,
                     ln_1p of x <= -1, negative base of powf, 0 to a negative power): no demand
                     here - domain errors belong to C16.
   Nothing is demanded of the rounding flags NoOp / AddOne / SubOne, of the digit count of the
   result, or of the direction of the error: the statement does not mention them. *)
EXTENDS Enclosure

Ex(q) == [kind |-> "exact", lo |-> q, hi |-> q, irr |-> FALSE]
En(en, irr) == [kind |-> "encl", lo |-> en[1], hi |-> en[2], irr |-> irr]
Dom == [kind |-> "domain", lo |-> QZero, hi |-> QZero, irr |-> FALSE]

IsIntegerQ(q) == FDivMod(q.n.m, q.d)[2] = <<>>
\* integer exponents of powf that are cheap to evaluate exactly: |y| <= 64, total size bounded
NativeOfIntQ(q) == Let(ToNat(FDivFloor(q.n.m, q.d)), LAMBDA m : IF q.n.s = 1 THEN -m ELSE m)
SmallIntPower(xq, yq) ==
  /\ FQLe(QAbs(yq), Q(IFromNative(64), One))
  /\ IsIntegerQ(yq)
  /\ (Len(xq.n.m) + Len(xq.d)) * ToNat(FDivFloor(yq.n.m, yq.d)) <= 600
ShiftEn(en, c, irr) == En(<<FQSub(en[1], c), FQSub(en[2], c)>>, irr)

\* xq, yq: rational arguments; n: native exponent of powi; nb: working bytes of the enclosure
Truth(op, xq, yq, n, nb) ==
  CASE op = "exp" ->
         IF QIsZero(xq) THEN Ex(QOne) ELSE En(ExpEncl(xq, xq, nb), TRUE)
    [] op = "exp_m1" ->
         IF QIsZero(xq) THEN Ex(QZero) ELSE ShiftEn(ExpEncl(xq, xq, nb), QOne, TRUE)
    [] op = "ln" ->
         IF QSign(xq) <= 0 THEN Dom
         ELSE IF FQCmp(xq, QOne) = 0 THEN Ex(QZero) ELSE En(LnEncl(xq, nb), TRUE)
    [] op = "ln_1p" ->
         IF QSign(FQAdd(xq, QOne)) <= 0 THEN Dom
         ELSE IF QIsZero(xq) THEN Ex(QZero) ELSE En(LnEncl(FQAdd(xq, QOne), nb), TRUE)
    [] op = "powi" ->
         IF QIsZero(xq) /\ n < 0 THEN Dom ELSE Ex(QPowInt(xq, n))
    [] op = "powf" ->
         IF QSign(xq) < 0 THEN Dom
         ELSE IF QIsZero(yq) THEN Ex(QOne)
         ELSE IF QIsZero(xq) THEN (IF QSign(yq) > 0 THEN Ex(QZero) ELSE Dom)
         ELSE IF FQCmp(xq, QOne) = 0 THEN Ex(QOne)
         ELSE IF FQCmp(yq, QOne) = 0 THEN Ex(xq)
         ELSE IF SmallIntPower(xq, yq) THEN Ex(QPowInt(xq, NativeOfIntQ(yq)))
         ELSE En(PowEncl(xq, yq, nb), FALSE)

(* Judgement of one outcome o against the truth T, for base B and precision p:
     ""   the property holds for this outcome
     "U"  not decidable from this enclosure (the caller retries with a tighter one; `last` says
          there is no tighter one, then whatever *is* decided is reported)
     else the violated clause: the accuracy clause first (with the bracket of the error, and the
          suffix "-pow1" when the returned significand is a power of the base plus one - the shape
          of a result pushed across a power of the base), then the Exact-flag clause.
   o = [k |-> "ok", v |-> [v |-> float, flag |-> string]] | [k |-> "panic", ...] | [k |-> "timeout"] *)
\* the significand is B^k + 1, k >= 0 (trailing zero digits ignored): one unit above a power of the base
IsPowPlusOne(B, m) ==
  IF m = <<>> THEN FALSE
  ELSE Let(ToRadix(Sub(FDivFloor(m, FPow(FromNat(B), TrailingZeroDigits(B, m))), One), B),
           LAMBDA ds : Len(ds) >= 1 /\ ds[1] = 1 /\ \A i \in 2..Len(ds) : ds[i] = 0)
JudgeD(ef, T, r, d, last, pow1) ==
  IF d.v = "FAILS" THEN (IF pow1 /\ d.cls # "nonzero-for-zero" THEN d.cls \o "-pow1" ELSE d.cls)
  ELSE IF d.v = "UNDECIDED" /\ ~last THEN "U"
  ELSE IF ef /\ (T.irr \/ ~(FQLe(T.lo, r) /\ FQLe(r, T.hi))) THEN "exact-flag-untruthful"
  ELSE IF d.v = "UNDECIDED" THEN "U"
  \* a real power that may be rational: equality with r is not decidable by intervals
  ELSE IF ef /\ T.kind = "encl" THEN "U"
  ELSE ""
JudgeR(B, p, ef, T, r, last, m) == JudgeD(ef, T, r, Decide3(B, p, r, T.lo, T.hi), last, IsPowPlusOne(B, m))
Judge(B, p, o, T, last) ==
  IF T.kind = "domain" THEN ""
  ELSE IF o.k = "timeout" THEN "no-result-timeout"
  ELSE IF p = 0 THEN
    (IF o.k = "panic" THEN ""
     ELSE IF T.kind = "exact" /\ o.v.v.inf = 0 /\ IsInt(o.v.v.sig) /\ FQCmp(FFVal(B, o.v.v), T.lo) = 0 THEN ""
     ELSE "unlimited-precision-not-refused")
  ELSE IF o.k = "panic" THEN "unexpected-panic"
  ELSE IF o.v.v.inf # 0 THEN "not-finite"
  ELSE IF ~IsInt(o.v.v.sig) THEN "malformed-significand"
  ELSE JudgeR(B, p, o.v.flag = "Exact", T, FFVal(B, o.v.v), last, o.v.v.sig.m)

(* A real power x^(a/b) can be rational, and then an interval never decides an error of exactly one
   ulp or a value exactly on a power of the base.  When the first enclosure leaves powf undecided,
   the neighbours r - s, r, r + s of the returned value on its p-digit grid are tested *exactly*:
   v = x^(a/b) iff v^b = x^a (for y < 0: v^b * x^a = 1).  A hit replaces the enclosure by the
   exact value; no hit changes nothing. *)
YFracG(num, den, g) == <<FDivFloor(num, g), FDivFloor(den, g)>>
YFracND(num, den) == YFracG(num, den, Gcd(num, den))
YFrac(B, y) == IF y.exp >= 0 THEN <<FMul(y.sig.m, FPow(FromNat(B), y.exp)), One>>
               ELSE YFracND(y.sig.m, FPow(FromNat(B), -y.exp))
IsRatPower(xq, yneg, a, b, v) ==
  /\ QSign(v) > 0
  /\ (Len(v.n.m) + Len(v.d)) * b <= 800 /\ (Len(xq.n.m) + Len(xq.d)) * a <= 800
  /\ IF yneg THEN FQCmp(FQMul(QPowInt(v, b), QPowInt(xq, a)), QOne) = 0
     ELSE FQCmp(QPowInt(v, b), QPowInt(xq, a)) = 0
RatPowerPick(T, xq, yneg, ab, cands) ==
  IF Len(ab[1]) > 1 \/ Len(ab[2]) > 1 \/ ab[1] = <<>> THEN T
  ELSE Let({v \in cands : FQLe(T.lo, v) /\ FQLe(v, T.hi) /\ IsRatPower(xq, yneg, ab[1][1], ab[2][1], v)},
           LAMBDA hits : IF hits = {} THEN T ELSE Ex(CHOOSE v \in hits : TRUE))
RatPowerStep(B, p, T, xq, y, r, s) == RatPowerPick(T, xq, y.sig.s = 1, YFrac(B, y), {FQSub(r, s), r, FQAdd(r, s)})
RefinePowf(B, p, T, xq, y, r) ==
  IF T.kind # "encl" \/ QSign(r) <= 0 \/ p = 0 THEN T
  ELSE RatPowerStep(B, p, T, xq, y, r, FQPowBase(B, FastFloorLog(B, r) - p + 1))

\* working bytes of the first enclosure: the digits of the result plus five guard bytes
BitsPerDigit(B) == IF B <= 2 THEN 1 ELSE IF B <= 4 THEN 2 ELSE IF B <= 8 THEN 3 ELSE IF B <= 16 THEN 4
                   ELSE IF B <= 32 THEN 5 ELSE 6
FirstBytes(B, p) == (p * BitsPerDigit(B)) \div 8 + 6
=============================================================================
