----------------------------- MODULE ExpLogAlg -----------------------------
(***************************************************************************)
(* Algorithm layer of C11, discrete part only: the special-case dispatch   *)
(* and argument reduction of float/src/exp.rs (powi, powf, exp_internal)   *)
(* and float/src/log.rs (ln_internal) as a small action system, one named  *)
(* action per branch of the Rust code as it is in /repo now.  The series   *)
(* and guard-digit heuristics are not modelled (DESIGN 5.C11): a series    *)
(* evaluation is one abstract step whose accuracy is judged on real runs   *)
(* by Trace_C11.                                                           *)
(*                                                                         *)
(* An input is a class: operation, limited / unlimited precision, class of *)
(* the argument relative to the thresholds the code tests, class of the    *)
(* exponent.  TLC explores every class; the invariants say that every      *)
(* class of the mathematical domain ends in a branch that returns a        *)
(* documented special value, a rounded copy of the argument, or a series / *)
(* product evaluation; that the special values are the right ones; that    *)
(* unlimited precision is refused by panic unless the result is exact; and *)
(* that a result that can carry the Exact flag is exact.  The last one     *)
(* does NOT hold for the code as it is: the flag of a series result is the *)
(* flag of its final rounding alone (finding F32b), and a negative integer  *)
(* power drops the flag of the intermediate power (finding F32c).  The      *)
(* invariant is therefore `ExactFlagTruthful \/ Known_F32b \/ Known_F32c`    *)
(* with the same predicates the trace findings use.                        *)
(***************************************************************************)
EXTENDS Integers, Sequences, TLC
\* FALSE: Context::powi with a negative exponent drops the flag of the intermediate power with `.value()`
\* (the code as it is: finding F32c); TRUE: the flag is chained with and_then (fixes/F32c-C11.patch)
CONSTANT PowiNegKeepsFlag

Ops == {"exp", "exp_m1", "ln", "ln_1p", "powi", "powf"}
(* argument classes: x <= -1 | -1 < x <= -1/B | -1/B < x < 0 | 0 | 0 < x < 1/B | 1/B <= x < 1 | 1 |
   1 < x < 2 | x >= 2.  (The code tests log2_est(x) < -log2_est(B) for "tiny"; the estimate is
   within a fraction of a bit, the classes stand for arguments well inside.) *)
XClasses == {"neg-big", "neg-small", "neg-tiny", "zero", "pos-tiny", "pos-small", "one", "pos-mid", "pos-big"}
Negative(xc) == xc \in {"neg-big", "neg-small", "neg-tiny"}
Tiny(xc) == xc \in {"neg-tiny", "pos-tiny"}
\* exponent classes: powi n = ... ; powf y = 0 | 1 | other negative | other positive ; "-" otherwise
NClasses == {"le-2", "-1", "0", "1", "ge2"}
YClasses == {"zero", "one", "neg", "pos"}
EClasses(op) == IF op = "powi" THEN NClasses ELSE IF op = "powf" THEN YClasses ELSE {"-"}

\* the quantifier of the property (properties.jsonl C11): ln x > 0, ln_1p x > -1, powf base >= 0;
\* 0 to a negative power has no finite value
InDomain(op, xc, ec) ==
  CASE op = "ln" -> ~Negative(xc) /\ xc # "zero"
    [] op = "ln_1p" -> xc # "neg-big"
    [] op = "powi" -> ~(xc = "zero" /\ ec \in {"le-2", "-1"})
    [] op = "powf" -> ~Negative(xc) /\ ~(xc = "zero" /\ ec = "neg")
    [] OTHER -> TRUE

VARIABLES op, plim, xc, ec, pc, path, ret
vars == <<op, plim, xc, ec, pc, path, ret>>

NoRet == [kind |-> "none", val |-> "-", exact |-> FALSE, flag |-> "-"]
(* ret.kind : "special" (a constant), "rounded-arg" (the argument rounded to the context),
              "series" (Maclaurin / atanh evaluation, possibly followed by the powering),
              "product" (repeated squaring), "quotient" (1 / product), "panic"
   ret.val  : "one" | "zero" | "x" | "approx" | the panic class
   ret.exact: the returned value is the true value by construction
   ret.flag : "Exact" always | "Maybe" (Exact when the last rounding happens to be exact) | "-" *)
Ret(k, v, ex, fl) == [kind |-> k, val |-> v, exact |-> ex, flag |-> fl]

Init == /\ op \in Ops /\ plim \in BOOLEAN /\ xc \in XClasses /\ ec \in {"-"} \cup NClasses \cup YClasses
        /\ ec \in EClasses(op)
        /\ pc = "start" /\ path = <<>> /\ ret = NoRet

Go(name, to) == /\ pc' = to /\ path' = Append(path, name) /\ UNCHANGED <<op, plim, xc, ec>>
Finish(name, r) == Go(name, "done") /\ ret' = r
Panic(name, cls) == Finish(name, Ret("panic", cls, FALSE, "-"))

\* ------------------------------------------------------------------ Context::powi
PowiEnter == pc = "start" /\ op = "powi" /\ Go("PowiEnter", "powi") /\ UNCHANGED ret
\* exponent negative: unlimited precision is refused ...
PowiNegUnlimited == pc = "powi" /\ ec \in {"le-2", "-1"} /\ ~plim /\ Panic("PowiNegUnlimited", "unlimited")
\* ... otherwise the power with |n| is computed in the reversed mode with guard bits (its flag is
\* dropped by `.value()`), then inverted: 1 / 0 panics inside repr_div (outside the domain)
PowiNegZero == pc = "powi" /\ ec \in {"le-2", "-1"} /\ plim /\ xc = "zero" /\ Panic("PowiNegZero", "divide-by-zero")
PowiNegInverse == /\ pc = "powi" /\ ec \in {"le-2", "-1"} /\ plim /\ xc # "zero"
                  \* 1 / (+-1)^n is exact; otherwise the quotient is exact only when the power is a power of the base
                  /\ Finish("PowiNegInverse", IF xc = "one" THEN Ret("quotient", "one", TRUE, "Exact")
                                              ELSE Ret("quotient", "approx", FALSE, "Maybe"))
PowiZero == pc = "powi" /\ ec = "0" /\ Finish("PowiZero", Ret("special", "one", TRUE, "Exact"))
\* the argument rounded to the context: exact when it fits (always, with unlimited precision)
PowiOne == pc = "powi" /\ ec = "1" /\ Finish("PowiOne", Ret("rounded-arg", "x", ~plim, IF plim THEN "Maybe" ELSE "Exact"))
\* left-to-right binary powering; unlimited precision works exactly
PowiSquaring == pc = "powi" /\ ec = "ge2"
                /\ Finish("PowiSquaring", IF plim THEN Ret("product", "approx", FALSE, "Maybe") ELSE Ret("product", "x^n", TRUE, "Exact"))

\* ------------------------------------------------------------------ Context::powf
PowfEnter == pc = "start" /\ op = "powf" /\ Go("PowfEnter", "powf") /\ UNCHANGED ret
PowfUnlimited == pc = "powf" /\ ~plim /\ Panic("PowfUnlimited", "unlimited")
PowfExpZero == pc = "powf" /\ plim /\ ec = "zero" /\ Finish("PowfExpZero", Ret("special", "one", TRUE, "Exact"))
PowfExpOne == pc = "powf" /\ plim /\ ec = "one" /\ Finish("PowfExpOne", Ret("rounded-arg", "x", FALSE, "Maybe"))
PowfBaseZero == pc = "powf" /\ plim /\ ec \in {"neg", "pos"} /\ xc = "zero" /\ Finish("PowfBaseZero", Ret("special", "zero", TRUE, "Exact"))
PowfNegBase == pc = "powf" /\ plim /\ ec \in {"neg", "pos"} /\ Negative(xc) /\ Panic("PowfNegBase", "negative-base")
\* x^y = exp(y ln x) in a context with guard digits: ln ...
PowfLnShortcut == pc = "powf" /\ plim /\ ec \in {"neg", "pos"} /\ xc = "one" /\ Go("PowfLnShortcut", "powf-ln-zero") /\ UNCHANGED ret
PowfLnSeries == pc = "powf" /\ plim /\ ec \in {"neg", "pos"} /\ ~Negative(xc) /\ xc \notin {"zero", "one"}
                /\ Go("PowfLnSeries", "powf-ln-approx") /\ UNCHANGED ret
\* ... times y, then exp: exp(0) is the exact constant one
PowfExpOfZero == pc = "powf-ln-zero" /\ Finish("PowfExpOfZero", Ret("special", "one", TRUE, "Exact"))
PowfExpSeries == pc = "powf-ln-approx" /\ Finish("PowfExpSeries", Ret("series", "approx", FALSE, "Maybe"))

\* ------------------------------------------------------------------ Context::exp_internal
ExpEnter == pc = "start" /\ op \in {"exp", "exp_m1"} /\ Go("ExpEnter", "exp") /\ UNCHANGED ret
ExpUnlimited == pc = "exp" /\ ~plim /\ Panic("ExpUnlimited", "unlimited")
ExpZero == pc = "exp" /\ plim /\ xc = "zero"
           /\ Finish("ExpZero", Ret("special", IF op = "exp" THEN "one" ELSE "zero", TRUE, "Exact"))
\* exp_m1 of |x| < 1/B: the series of exp(x) - 1 on x itself; a negative x doubles the guard digits
ExpM1NoScalingNeg == pc = "exp" /\ plim /\ op = "exp_m1" /\ xc = "neg-tiny" /\ Go("ExpM1NoScalingNeg", "exp-series-direct") /\ UNCHANGED ret
ExpM1NoScalingPos == pc = "exp" /\ plim /\ op = "exp_m1" /\ xc = "pos-tiny" /\ Go("ExpM1NoScalingPos", "exp-series-direct") /\ UNCHANGED ret
\* otherwise x = s ln B + r, r scaled down by B^n, n = 2^(bit_len(p) / 2)
ExpScaling == pc = "exp" /\ plim /\ xc # "zero" /\ ~(op = "exp_m1" /\ Tiny(xc)) /\ Go("ExpScaling", "exp-series-scaled") /\ UNCHANGED ret
ExpSeriesDirect == pc = "exp-series-direct" /\ Finish("ExpSeriesDirect", Ret("series", "approx", FALSE, "Maybe"))
\* exp: (series)^(B^n) by powi, shifted by s;  exp_m1: the same in a wider context, minus one, rounded
ExpPowering == pc = "exp-series-scaled" /\ op = "exp" /\ Finish("ExpPowering", Ret("series", "approx", FALSE, "Maybe"))
ExpM1Powering == pc = "exp-series-scaled" /\ op = "exp_m1" /\ Finish("ExpM1Powering", Ret("series", "approx", FALSE, "Maybe"))

\* ------------------------------------------------------------------ Context::ln_internal
LnEnter == pc = "start" /\ op \in {"ln", "ln_1p"} /\ Go("LnEnter", "ln") /\ UNCHANGED ret
LnUnlimited == pc = "ln" /\ ~plim /\ Panic("LnUnlimited", "unlimited")
LnShortcut == pc = "ln" /\ plim /\ ((op = "ln_1p" /\ xc = "zero") \/ (op = "ln" /\ xc = "one"))
              /\ Finish("LnShortcut", Ret("special", "zero", TRUE, "Exact"))
\* no domain test in the code: ln of x <= 0 and ln_1p of x <= -1 run into an assertion / overflow
\* (finding F25, property C16); they are outside the quantifier of C11
LnOutOfDomain == pc = "ln" /\ plim /\ ~InDomain(op, xc, ec) /\ Panic("LnOutOfDomain", "domain-unguarded")
\* ln_1p of |x| < 1/B: atanh series on x / (x + 2) without scaling; negative x doubles the precision
LnNoScalingNeg == pc = "ln" /\ plim /\ op = "ln_1p" /\ xc = "neg-tiny" /\ Go("LnNoScalingNeg", "ln-double") /\ UNCHANGED ret
LnNoScalingPos == pc = "ln" /\ plim /\ op = "ln_1p" /\ xc = "pos-tiny" /\ Go("LnNoScalingPos", "ln-series") /\ UNCHANGED ret
\* otherwise v = x (or 1 + x), s = floor(log2 v), v / 2^s in [1, 2)
LnArg == IF op = "ln" THEN xc
         ELSE CASE xc = "neg-small" -> "pos-small" [] xc = "pos-small" -> "pos-mid" [] xc = "one" -> "pos-big"
                [] xc = "pos-mid" -> "pos-big" [] OTHER -> xc
LnScalingBelowOne == /\ pc = "ln" /\ plim /\ InDomain(op, xc, ec) /\ ~(op = "ln_1p" /\ (Tiny(xc) \/ xc = "zero")) /\ ~(op = "ln" /\ xc = "one")
                     /\ LnArg \in {"pos-tiny", "pos-small"}          \* s < 0: the final sum cancels, precision doubled
                     /\ Go("LnScalingBelowOne", "ln-double") /\ UNCHANGED ret
LnScalingAboveOne == /\ pc = "ln" /\ plim /\ InDomain(op, xc, ec) /\ ~(op = "ln_1p" /\ (Tiny(xc) \/ xc = "zero")) /\ ~(op = "ln" /\ xc = "one")
                     /\ LnArg \in {"pos-mid", "pos-big"}             \* s >= 0
                     /\ Go("LnScalingAboveOne", "ln-series") /\ UNCHANGED ret
LnDoublePrecision == pc = "ln-double" /\ Go("LnDoublePrecision", "ln-series") /\ UNCHANGED ret
LnSeries == pc = "ln-series" /\ Finish("LnSeries", Ret("series", "approx", FALSE, "Maybe"))

Next == \/ PowiEnter \/ PowiNegUnlimited \/ PowiNegZero \/ PowiNegInverse \/ PowiZero \/ PowiOne \/ PowiSquaring
        \/ PowfEnter \/ PowfUnlimited \/ PowfExpZero \/ PowfExpOne \/ PowfBaseZero \/ PowfNegBase
        \/ PowfLnShortcut \/ PowfLnSeries \/ PowfExpOfZero \/ PowfExpSeries
        \/ ExpEnter \/ ExpUnlimited \/ ExpZero \/ ExpM1NoScalingNeg \/ ExpM1NoScalingPos \/ ExpScaling
        \/ ExpSeriesDirect \/ ExpPowering \/ ExpM1Powering
        \/ LnEnter \/ LnUnlimited \/ LnShortcut \/ LnOutOfDomain \/ LnNoScalingNeg \/ LnNoScalingPos
        \/ LnScalingBelowOne \/ LnScalingAboveOne \/ LnDoublePrecision \/ LnSeries
Spec == Init /\ [][Next]_vars

\* ------------------------------------------------------------------ definition side
Done == pc = "done"
\* the documented special values (properties.jsonl C11: exp(0), ln(1), x^0, x^1; plus 0^y, 1^y)
SpecialVal ==
  CASE op = "exp" /\ xc = "zero" -> "one"
    [] op = "exp_m1" /\ xc = "zero" -> "zero"
    [] op = "ln" /\ xc = "one" -> "zero"
    [] op = "ln_1p" /\ xc = "zero" -> "zero"
    [] op = "powi" /\ ec = "0" -> "one"
    [] op = "powi" /\ ec = "1" -> "x"
    [] op = "powf" /\ ec = "zero" -> "one"
    [] op = "powf" /\ ec = "one" -> "x"
    [] op = "powf" /\ xc = "zero" -> "zero"
    [] op = "powf" /\ xc = "one" -> "one"
    [] op = "powi" /\ xc = "one" /\ ec \in {"le-2", "-1"} -> "one"
    [] OTHER -> "none"
\* every class is decided by exactly one branch: none is missing (the run would stop before "done"),
\* none is handled twice (the transcription would be ambiguous)
Cnt(b) == IF b THEN 1 ELSE 0
BranchesEnabled ==
  0
  + Cnt(ENABLED PowiEnter) + Cnt(ENABLED PowiNegUnlimited) + Cnt(ENABLED PowiNegZero) + Cnt(ENABLED PowiNegInverse)
  + Cnt(ENABLED PowiZero) + Cnt(ENABLED PowiOne) + Cnt(ENABLED PowiSquaring) + Cnt(ENABLED PowfEnter)
  + Cnt(ENABLED PowfUnlimited) + Cnt(ENABLED PowfExpZero) + Cnt(ENABLED PowfExpOne) + Cnt(ENABLED PowfBaseZero)
  + Cnt(ENABLED PowfNegBase) + Cnt(ENABLED PowfLnShortcut) + Cnt(ENABLED PowfLnSeries) + Cnt(ENABLED PowfExpOfZero)
  + Cnt(ENABLED PowfExpSeries) + Cnt(ENABLED ExpEnter) + Cnt(ENABLED ExpUnlimited) + Cnt(ENABLED ExpZero)
  + Cnt(ENABLED ExpM1NoScalingNeg) + Cnt(ENABLED ExpM1NoScalingPos) + Cnt(ENABLED ExpScaling) + Cnt(ENABLED ExpSeriesDirect)
  + Cnt(ENABLED ExpPowering) + Cnt(ENABLED ExpM1Powering) + Cnt(ENABLED LnEnter) + Cnt(ENABLED LnUnlimited)
  + Cnt(ENABLED LnShortcut) + Cnt(ENABLED LnOutOfDomain) + Cnt(ENABLED LnNoScalingNeg) + Cnt(ENABLED LnNoScalingPos)
  + Cnt(ENABLED LnScalingBelowOne) + Cnt(ENABLED LnScalingAboveOne) + Cnt(ENABLED LnDoublePrecision) + Cnt(ENABLED LnSeries)
OneBranch == (~Done) => BranchesEnabled = 1
\* limited precision, argument in the domain: a value comes back, never a panic
NoPanicInDomain == (Done /\ plim /\ InDomain(op, xc, ec)) => ret.kind # "panic"
\* unlimited precision is refused by panic rather than answered inexactly
UnlimitedRefused == (Done /\ ~plim /\ InDomain(op, xc, ec)) => (ret.kind = "panic" /\ ret.val = "unlimited") \/ ret.exact
\* the documented special values come back as such
SpecialsRight == (Done /\ plim /\ InDomain(op, xc, ec) /\ SpecialVal # "none") => ret.val = SpecialVal
\* everything else is a series / product / quotient evaluation
OtherwiseEvaluated == (Done /\ plim /\ InDomain(op, xc, ec) /\ SpecialVal = "none") => ret.kind \in {"series", "product", "quotient"}
\* a result that can be flagged Exact is exact
\* (a rounded argument and a product of rounded squarings carry the conjunction of their step flags: truthful)
ExactFlagTruthful == (Done /\ InDomain(op, xc, ec) /\ ret.flag \in {"Exact", "Maybe"})
                        => (ret.exact \/ ret.kind \in {"rounded-arg", "product"} \/ (PowiNegKeepsFlag /\ ret.kind = "quotient"))
\* F32b: the flag of a series result is the flag of its last rounding
Known_F32b == Done /\ ret.kind = "series" /\ ret.flag = "Maybe"
\* F32c: Context::powi with a negative exponent drops the flag of the intermediate power
Known_F32c == ~PowiNegKeepsFlag /\ Done /\ op = "powi" /\ ret.kind = "quotient" /\ ret.flag = "Maybe"
ExactFlagOrKnown == ExactFlagTruthful \/ Known_F32b \/ Known_F32c
=============================================================================
