SPECIFICATION Spec
INVARIANT OneBranch
INVARIANT NoPanicInDomain
INVARIANT UnlimitedRefused
INVARIANT SpecialsRight
INVARIANT OtherwiseEvaluated
INVARIANT ExactFlagOrKnown
CHECK_DEADLOCK FALSE
