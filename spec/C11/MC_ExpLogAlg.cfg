SPECIFICATION Spec
INVARIANT OneBranch
INVARIANT NoPanicInDomain
INVARIANT UnlimitedRefused
INVARIANT SpecialsRight
INVARIANT OtherwiseEvaluated
INVARIANT ExactFlagOrKnown
CONSTANTS
  PowiNegKeepsFlag = FALSE
CHECK_DEADLOCK FALSE
