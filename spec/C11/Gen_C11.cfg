SPECIFICATION Spec
INVARIANT Emit
CONSTANTS
  Bases = {2, 3, 10, 16, 36}
  Precs = {0, 1, 2, 3, 4, 5, 6, 7, 8, 9, 10, 11, 12, 20, 40}
  Seed = 1
  Thin = 2
  ThinBig = 2
  AllModes = FALSE
CHECK_DEADLOCK FALSE
