------------------------------ MODULE Enclosure ------------------------------
(***************************************************************************)
(* Rigorous enclosures of exp, ln and real powers in pure TLA+.            *)
(*                                                                         *)
(* Numbers are binary fixed point: an integer numerator (BigNat / BigInt)  *)
(* at scale 2^(8*nb), nb = number of fractional bytes, so that rescaling   *)
(* is a byte shift.  Every operation rounds in a stated direction: the     *)
(* ...Lo operators never exceed the real value, the ...Hi operators are    *)
(* never below it.  All iteration is by folds with a `done` flag; nothing  *)
(* here depends on the stop criterion for soundness - the remainder of a   *)
(* series is bounded by its last computed term wherever the fold stops.    *)
(*                                                                         *)
(*   exp(x)  : x = k ln 2 + r, 0 <= r <= 1, Maclaurin series of exp(r)     *)
(*             with positive terms, result 2^k * [lo, hi]                  *)
(*   ln(x)   : x = 2^s m, 2/3 <= m < 4/3, ln m = 2 atanh((m-1)/(m+1)),     *)
(*             |z| <= 1/5; ln 2 = 2 atanh(1/3) (not the formula of the     *)
(*             library); the scale is enlarged when ln x = 2 atanh z with  *)
(*             tiny z, so that the enclosure is tight *relative* to ln x   *)
(*   x^n     : exact rational                                              *)
(*   x^y     : exp(y ln x) by interval composition                         *)
(*                                                                         *)
(* Decide3 answers "is |r - x| < ulp_p(x) for the true x" from an interval *)
(* known to contain x: HOLDS / FAILS / UNDECIDED.  The module is checked   *)
(* by MC_Enclosure (literal constants to 60 digits, exp(ln x) round trips, *)
(* width monotonicity) before any monitor verdict is believed.             *)
(***************************************************************************)
EXTENDS FloatDef

FxOne(nb) == ShlBytes(One, nb)
QOne == Q(IOne, One)

\* ---------------------------------------------------------------- directed primitives (naturals)
NShrCeil(a, n) == IF LowBytes(a, n) = <<>> THEN ShrBytes(a, n) ELSE Add(ShrBytes(a, n), One)
NMulLo(a, b, nb) == ShrBytes(Mul(a, b), nb)
NMulHi(a, b, nb) == NShrCeil(Mul(a, b), nb)
NDivLo(a, k) == DivSmall(a, k)
NDivHi(a, k) == LET qr == DivModSmall(a, k) IN IF qr[2] = 0 THEN qr[1] ELSE Add(qr[1], One)

\* rational -> fixed point (BigInt numerator at scale 2^(8 nb)), and back
QFxFloor(q, nb) == IFloorDivMod(I(q.n.s, ShlBytes(q.n.m, nb)), q.d)[1]
QFxCeil(q, nb) == INeg(QFxFloor(QNeg(q), nb))
FxQ(x, nb) == Q(x, FxOne(nb))

QMin(a, b) == IF QLe(a, b) THEN a ELSE b
QMax(a, b) == IF QLe(a, b) THEN b ELSE a
QPowInt(q, n) ==       \* q^n for a native integer n (q # 0 when n < 0)
  IF n >= 0 THEN Q(IPow(q.n, n), Pow(q.d, n))
  ELSE QInv(Q(IPow(q.n, -n), Pow(q.d, -n)))

\* floor(log2(n / d)) for naturals n, d # 0
FloorLog2N(n, d) ==
  LET e0 == BitLen(n) - BitLen(d)           \* 2^(e0-1) < n/d < 2^(e0+1)
      ge == IF e0 >= 0 THEN Cmp(n, Shl(d, e0)) >= 0 ELSE Cmp(Shl(n, -e0), d) >= 0
  IN IF ge THEN e0 ELSE e0 - 1

\* floor(log_B |q|), q # 0: estimate from the binary logarithm, then decide by comparison.
\* (FloatDef!FloorLog counts digits by repeated division, cubic in the length.)
LogB2e5(B) == CASE B = 2 -> 100000 [] B = 3 -> 63093 [] B = 8 -> 33333 [] B = 10 -> 30103
                [] B = 16 -> 25000 [] B = 36 -> 19343 [] OTHER -> 0
FastFloorLog(B, q) ==
  LET l2 == FloorLog2N(q.n.m, q.d)
      c == LogB2e5(B)
  IN IF c = 0 \/ l2 > 20000 \/ l2 < -20000 THEN FloorLog(B, q)
     ELSE LET e0 == (l2 * c) \div 100000
              aq == QAbs(q)
              cands == (e0 - 2)..(e0 + 2)
              S == {e \in cands : QLe(QPowBase(B, e), aq)}
          IN IF S = {} \/ S = cands THEN FloorLog(B, q) ELSE Max(S)

\* ---------------------------------------------------------------- series
(* exp(t / 2^w) * 2^w for a natural 0 <= t <= 2^w.  All terms are positive.
   Lo: every term rounded down, any truncation is a lower bound.
   Hi: every term rounded up; after term N >= 1 the tail t^(N+1)/(N+1)! + ... is at most
       term N * (u + u^2 + ...) with u = t/(N+1) <= 1/2, i.e. at most term N. *)
ExpSeriesLo(t, nb) ==
  LET one == FxOne(nb)
      r == FoldLeftDomain(LAMBDA acc, i :
             IF acc[3] THEN acc
             ELSE LET term == NDivLo(NMulLo(acc[1], t, nb), i)
                  IN <<term, Add(acc[2], term), term = <<>> >>,
           <<one, one, FALSE>>, Zeros(8 * nb + 16))
  IN r[2]
ExpSeriesHi(t, nb) ==
  LET one == FxOne(nb)
      r == FoldLeftDomain(LAMBDA acc, i :
             IF acc[3] THEN acc
             ELSE LET term == NDivHi(NMulHi(acc[1], t, nb), i)
                  IN <<term, Add(acc[2], term), Len(term) <= 1>>,
           <<one, one, FALSE>>, Zeros(8 * nb + 16))
  IN Add(r[2], r[1])

(* atanh(1/n) * 2^w for a native 2 <= n <= 2047: sum of 1 / (n^(2i+1) (2i+1)), divisions only.
   Tail after the term with power P = n^-(2N+1): at most P * z^2/(1-z^2) <= P (z <= 1/2). *)
AtanhInv(n, nb) ==
  LET one == FxOne(nb)
      n2 == n * n
      plo0 == NDivLo(one, n)
      phi0 == NDivHi(one, n)
      r == FoldLeftDomain(LAMBDA acc, i :
             IF acc[5] THEN acc
             ELSE LET plo == NDivLo(acc[1], n2)
                      phi == NDivHi(acc[2], n2)
                  IN <<plo, phi, Add(acc[3], NDivLo(plo, 2 * i + 1)), Add(acc[4], NDivHi(phi, 2 * i + 1)),
                       Len(phi) <= 1>>,
           <<plo0, phi0, plo0, phi0, FALSE>>, Zeros(4 * nb + 8))
  IN <<r[3], Add(r[4], r[2])>>

\* ln 2 = 2 atanh(1/3)
Ln2Encl(nb) == LET a == AtanhInv(3, nb) IN <<MulSmall(a[1], 2), MulSmall(a[2], 2)>>

(* atanh(z / 2^w) * 2^w for a natural 0 <= z <= 2^w / 4: sum of z^(2i+1) / (2i+1).
   Tail after the term with power P = z^(2N+1): at most P * z^2/(1-z^2) <= P / 15. *)
AtanhLo(z, nb) ==
  LET z2 == NMulLo(z, z, nb)
      r == FoldLeftDomain(LAMBDA acc, i :
             IF acc[3] THEN acc
             ELSE LET pw == NMulLo(acc[1], z2, nb)
                  IN <<pw, Add(acc[2], NDivLo(pw, 2 * i + 1)), pw = <<>> >>,
           <<z, z, z = <<>> >>, Zeros(2 * nb + 8))
  IN r[2]
AtanhHi(z, nb) ==
  LET z2 == NMulHi(z, z, nb)
      r == FoldLeftDomain(LAMBDA acc, i :
             IF acc[3] THEN acc
             ELSE LET pw == NMulHi(acc[1], z2, nb)
                  IN <<pw, Add(acc[2], NDivHi(pw, 2 * i + 1)), Len(pw) <= 1>>,
           <<z, z, z = <<>> >>, Zeros(2 * nb + 8))
  IN IF z = <<>> THEN <<>> ELSE Add(r[2], r[1])

\* ---------------------------------------------------------------- exp
(* a rational bound of exp(q): below it (upper = FALSE) or above it (upper = TRUE).
   k is chosen so that r = x - k ln 2 lies in [0, 1] for the chosen direction; any integer k
   would be sound, the Assert only guards the precondition of the series. *)
ExpBound(q, nb, upper) ==
  LET xf == IF upper THEN QFxCeil(q, nb) ELSE QFxFloor(q, nb)
      l2 == Ln2Encl(nb)
      kk == IF xf.s = 0 THEN IFloorDivMod(xf, l2[2])[1] ELSE IFloorDivMod(xf, l2[1])[1]
      k == IF Len(kk.m) <= 2 THEN IToNative(kk) ELSE Assert(FALSE, <<"Enclosure!ExpBound argument too large", q>>)
      \* subtract the largest k ln 2 for a lower bound of r, the smallest for an upper bound
      lsub == IF (k >= 0) = upper THEN l2[1] ELSE l2[2]
      r == ISub(xf, IMulSmall(I(0, lsub), k))
      ok == r.s = 0 /\ Cmp(r.m, FxOne(nb)) <= 0
      e == IF upper THEN ExpSeriesHi(r.m, nb) ELSE ExpSeriesLo(r.m, nb)
  IN IF ~ok THEN Assert(FALSE, <<"Enclosure!ExpBound reduction out of range", q, nb>>)
     ELSE IF k >= 0 THEN Q(I(0, Shl(e, k)), FxOne(nb)) ELSE Q(I(0, e), Shl(FxOne(nb), -k))
(* exp is increasing: exp([a, b]) is inside [ExpBound(a, lower), ExpBound(b, upper)].
   For an argument of tiny magnitude the result is 1 + x + ...: the scale is enlarged by the
   leading zero bytes of x so that exp(x) - 1 is still known to about 8 nb bits (tightness only). *)
TinyExtra(qlo, qhi) ==
  IF QSign(qlo) * QSign(qhi) <= 0 THEN 0
  ELSE LET m == IF QSign(qlo) > 0 THEN qlo ELSE qhi
           l2 == FloorLog2N(m.n.m, m.d)
       IN IF l2 < 0 THEN (-l2) \div 8 + 1 ELSE 0
ExpEncl(qlo, qhi, nb) ==
  LET nbe == nb + TinyExtra(qlo, qhi) IN <<ExpBound(qlo, nbe, FALSE), ExpBound(qhi, nbe, TRUE)>>

\* ---------------------------------------------------------------- ln
\* rational interval containing ln(q) for a rational q > 0
LnEncl(q, nb) ==
  LET n == q.n.m
      d == q.d
      s == FloorLog2N(MulSmall(n, 3), MulSmall(d, 2))       \* 2/3 <= q / 2^s < 4/3
      nn == IF s >= 0 THEN n ELSE Shl(n, -s)
      dd == IF s >= 0 THEN Shl(d, s) ELSE d
      znum == ISub(IFromNat(nn), IFromNat(dd))                \* z = (m - 1) / (m + 1), |z| <= 1/5
      zden == Add(nn, dd)
      az == Q(IAbs(znum), zden)
      \* without the s ln 2 term the result is about 2 z: keep nb bytes *below* the leading bit of z
      eb == IF s = 0 /\ znum.m # <<>> THEN Max2(0, (-FloorLog2N(znum.m, zden)) \div 8) ELSE 0
      nbb == nb + eb
      zlo == QFxFloor(az, nbb).m
      zhi == QFxCeil(az, nbb).m
      alo == MulSmall(AtanhLo(zlo, nbb), 2)
      ahi == MulSmall(AtanhHi(zhi, nbb), 2)
      mlo == IF znum.s = 1 THEN I(1, ahi) ELSE I(0, alo)
      mhi == IF znum.s = 1 THEN I(1, alo) ELSE I(0, ahi)
      l2 == Ln2Encl(nbb)
      slo == IF s = 0 THEN IZero ELSE IF s > 0 THEN I(0, MulSmall(l2[1], s)) ELSE I(1, MulSmall(l2[2], -s))
      shi == IF s = 0 THEN IZero ELSE IF s > 0 THEN I(0, MulSmall(l2[2], s)) ELSE I(1, MulSmall(l2[1], -s))
  IN IF q.n.s = 1 \/ n = <<>> THEN Assert(FALSE, <<"Enclosure!LnEncl argument not positive", q>>)
     ELSE IF Cmp(MulSmall(zhi, 4), FxOne(nbb)) > 0 THEN Assert(FALSE, <<"Enclosure!LnEncl reduction out of range", q>>)
     ELSE IF s = 0 /\ znum.m = <<>> THEN <<QZero, QZero>>
     ELSE <<FxQ(IAdd(slo, mlo), nbb), FxQ(IAdd(shi, mhi), nbb)>>

\* ---------------------------------------------------------------- real power
\* x^y = exp(y ln x) for rationals x > 0, y
PowEncl(x, y, nb) ==
  LET l == LnEncl(x, nb)
      a == IF QSign(y) >= 0 THEN <<QMul(l[1], y), QMul(l[2], y)>> ELSE <<QMul(l[2], y), QMul(l[1], y)>>
  IN ExpEncl(a[1], a[2], nb)

\* ---------------------------------------------------------------- the 1-ulp decision
(* r: returned value; [lo, hi]: rationals with lo <= true value <= hi; p >= 1 digits in base B.
   The ulp is taken at the true value x (FloatDef!Ulp: B^(floor(log_B |x|) - p + 1)), which is only
   known to lie in the interval, so both candidates are considered.
     HOLDS     : for every x in [lo, hi]: |r - x| <  ulp(x)
     FAILS     : for every x in [lo, hi]: |r - x| >= ulp(x)
     UNDECIDED : otherwise - the caller must enclose more tightly, never raise an alarm.
   For FAILS, `cls` brackets the error: at least L ulp, less than U ulp (powers of two). *)
ErrClass(dmin, dmax, umin, umax) ==
  LET up == FoldLeftDomain(LAMBDA acc, j : IF acc[2] THEN acc
                               ELSE IF QLt(dmax, QMulInt(umin, IFromNat(Shl(One, j)))) THEN <<j, TRUE>> ELSE <<j, FALSE>>,
                           <<0, FALSE>>, Zeros(20))
      lw == FoldLeftDomain(LAMBDA acc, j : IF QLe(QMulInt(umax, IFromNat(Shl(One, j))), dmin) THEN j ELSE acc,
                           0, Zeros(20))
      P2(j) == ToNat(Shl(One, j))
  IN "error-ge" \o ToString(P2(lw)) \o "ulp-lt" \o (IF up[2] THEN ToString(P2(up[1])) ELSE "INF") \o "ulp"

Decide3(B, p, r, lo, hi) ==
  IF QIsZero(lo) /\ QIsZero(hi) THEN
     (IF QIsZero(r) THEN [v |-> "HOLDS", cls |-> ""] ELSE [v |-> "FAILS", cls |-> "nonzero-for-zero"])
  ELSE IF QSign(lo) * QSign(hi) <= 0 THEN [v |-> "UNDECIDED", cls |-> ""]
  ELSE
  LET elo == FastFloorLog(B, lo)
      ehi == FastFloorLog(B, hi)
      umin == QPowBase(B, Min2(elo, ehi) - p + 1)
      umax == QPowBase(B, Max2(elo, ehi) - p + 1)
      dlo == QAbs(QSub(r, lo))
      dhi == QAbs(QSub(r, hi))
      dmax == QMax(dlo, dhi)
      dmin == IF QLe(lo, r) /\ QLe(r, hi) THEN QZero ELSE QMin(dlo, dhi)
  IN IF QLt(dmax, umin) THEN [v |-> "HOLDS", cls |-> ""]
     ELSE IF QLe(umax, dmin) THEN [v |-> "FAILS", cls |-> ErrClass(dmin, dmax, umin, umax)]
     ELSE [v |-> "UNDECIDED", cls |-> ""]
=============================================================================
