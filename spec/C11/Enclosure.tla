------------------------------ MODULE Enclosure ------------------------------
(***************************************************************************)
(* Rigorous enclosures of exp, ln and real powers in pure TLA+.            *)
(*                                                                         *)
(* Numbers are binary fixed point: an integer numerator (BigNat / BigInt)  *)
(* at scale 2^(8*nb), nb = number of fractional bytes, so that rescaling   *)
(* is a byte shift.  Every operation rounds in a stated direction: the     *)
(* ...Lo operators never exceed the real value, the ...Hi operators are    *)
(* never below it.  All iteration is by folds with a `done` flag; nothing  *)
(* here depends on the stop criterion for soundness - the remainder of a   *)
(* series is bounded by its last computed term wherever the fold stops.    *)
(*                                                                         *)
(*   exp(x)  : x = k ln 2 + r, 0 <= r <= 1, Maclaurin series of exp(r)     *)
(*             with positive terms, result 2^k * [lo, hi]                  *)
(*   ln(x)   : x = 2^s m, 2/3 <= m < 4/3, ln m = 2 atanh((m-1)/(m+1)),     *)
(*             |z| <= 1/5; ln 2 = 2 atanh(1/3) (not the formula of the     *)
(*             library); the scale is enlarged when ln x = 2 atanh z with  *)
(*             tiny z, so that the enclosure is tight *relative* to ln x   *)
(*   x^n     : exact rational                                              *)
(*   x^y     : exp(y ln x) by interval composition                         *)
(*                                                                         *)
(* Decide3 answers "is |r - x| < ulp_p(x) for the true x" from an interval *)
(* known to contain x: HOLDS / FAILS / UNDECIDED.  The module is checked   *)
(* by MC_Enclosure (literal constants to 60 digits, exp(ln x) round trips, *)
(* width monotonicity, the kernels against BigNat) before any monitor      *)
(* verdict is believed.                                                    *)
(*                                                                         *)
(* Evaluation discipline.  TLC re-evaluates a LET definition at every use  *)
(* but evaluates an operator *argument* at most once (lazily).  Everything *)
(* costly that is used twice is therefore passed as an argument: the       *)
(* operators below come in chains  F(x) == F1(x, G(x)),  and the           *)
(* arithmetic kernels FAdd / FMul / FMulSmall / FDivModSmall / FDivMod     *)
(* restate the schoolbook algorithms of BigNat in that style (2-60 times   *)
(* faster under TLC; same values - checked in MC_Enclosure).               *)
(***************************************************************************)
EXTENDS FloatDef

\* call-by-need binding: Let(e, LAMBDA t : body) evaluates e once
Let(v, Body(_)) == Body(v)

\* ---------------------------------------------------------------- arithmetic kernels (naturals)
CarryOut(t, out) == <<t \div LB, Append(out, t % LB)>>
FinCarry(r) == IF r[1] = 0 THEN r[2] ELSE Append(r[2], r[1])
FAdd(a, b) ==
  FinCarry(FoldLeftDomain(LAMBDA acc, i : CarryOut(Limb(a, i) + Limb(b, i) + acc[1], acc[2]),
                          <<0, <<>> >>, Zeros(Max2(Len(a), Len(b)))))

FMulCol(a, b, la, lb, k) == FoldSet(LAMBDA i, acc : acc + a[i] * b[k + 1 - i], 0, Max2(1, k + 1 - lb)..Min2(k, la))
FMul(a, b) ==
  IF a = <<>> \/ b = <<>> THEN <<>>
  ELSE Norm(FoldLeftDomain(LAMBDA acc, k : CarryOut(FMulCol(a, b, Len(a), Len(b), k) + acc[1], acc[2]),
                           <<0, <<>> >>, Zeros(Len(a) + Len(b)))[2])

\* a * k, native 0 <= k < 2^22
FlushCarry(out, c) == IF c = 0 THEN out ELSE IF c < LB THEN Append(out, c)
                      ELSE IF c < LB * LB THEN out \o <<c % LB, c \div LB>>
                      ELSE out \o <<c % LB, (c \div LB) % LB, c \div (LB * LB)>>
FMulSmallFin(r) == FlushCarry(r[2], r[1])
FMulSmall(a, k) ==
  IF k = 0 \/ a = <<>> THEN <<>>
  ELSE FMulSmallFin(FoldLeftDomain(LAMBDA acc, i : CarryOut(a[i] * k + acc[1], acc[2]), <<0, <<>> >>, a))

\* <<quotient, native remainder>> by a native 1 <= k < 2^22
DivStepSmall(t, k, out) == <<t % k, <<t \div k>> \o out>>
FDivModSmallFin(r) == <<Norm(r[2]), r[1]>>
FDivModSmall(a, k) ==
  FDivModSmallFin(FoldRight(LAMBDA d, acc : DivStepSmall(acc[1] * LB + d, k, acc[2]), a, <<0, <<>> >>))

(* General division, Knuth D on byte limbs.  The trial digit from the top three limbs of the
   running remainder and the top two of the divisor is never below the true digit and at most
   two above; it is corrected downwards.  Asserts guard both facts: a flaw here is a tool error. *)
RECURSIVE KCorr(_, _, _, _, _)
KCorr(b, rem, q, p, tries) ==
  IF Cmp(p, rem) <= 0 THEN <<q, p>>
  ELSE IF tries = 0 THEN Assert(FALSE, <<"Enclosure!FDivMod digit correction failed", rem, b>>)
  ELSE KCorr(b, rem, q - 1, Sub(p, b), tries - 1)
KTrial(rem, n, dt) == Min2(255, (((Limb(rem, n + 1) * LB + Limb(rem, n)) * LB + Limb(rem, n - 1)) + 1) \div dt)
KDigit2(b, rem, q0) == KCorr(b, rem, q0, FMulSmall(b, q0), 3)
KStep3(nr, b, q, quo) == IF Cmp(nr, b) < 0 THEN <<nr, <<q>> \o quo>>
                         ELSE Assert(FALSE, <<"Enclosure!FDivMod remainder not reduced", nr, b>>)
KStep2(qp, rem, b, quo) == KStep3(Sub(rem, qp[2]), b, qp[1], quo)
KStep1(b, n, dt, rem, quo) == KStep2(KDigit2(b, rem, KTrial(rem, n, dt)), rem, b, quo)
KStep(b, n, dt, acc, d) ==
  KStep1(b, n, dt, IF acc[1] = <<>> THEN (IF d = 0 THEN <<>> ELSE <<d>>) ELSE <<d>> \o acc[1], acc[2])
FDivModFin(r) == <<Norm(r[2]), r[1]>>
FDivModSmallNat(qr) == <<qr[1], FromNat(qr[2])>>
\* <<quotient, remainder>>, b # 0
FDivMod(a, b) ==
  IF Cmp(a, b) < 0 THEN <<(<<>>), a>>
  ELSE IF Len(b) = 1 THEN FDivModSmallNat(FDivModSmall(a, b[1]))
  ELSE FDivModFin(FoldRight(LAMBDA d, acc : KStep(b, Len(b), b[Len(b)] * LB + b[Len(b) - 1], acc, d),
                            a, <<(<<>>), (<<>>)>>))
FDivFloor(a, b) == FDivMod(a, b)[1]
FDivCeilFin(qr) == IF qr[2] = <<>> THEN qr[1] ELSE FAdd(qr[1], One)
FDivCeil(a, b) == FDivCeilFin(FDivMod(a, b))

\* a * 2^k, native k >= 0
FShl(a, k) == ShlBytes(FMulSmall(a, Pow2Small(k % 8)), k \div 8)
\* a^n by binary powering, native n >= 0
FPowFin(r) == r[1]
FPowStep(acc, bit, last) == <<IF bit = 1 THEN FMul(acc[1], acc[2]) ELSE acc[1], IF last THEN acc[2] ELSE FMul(acc[2], acc[2])>>
FPowBits(a, bits) == FPowFin(FoldLeftDomain(LAMBDA acc, i : FPowStep(acc, bits[i], i = Len(bits)), <<One, a>>, bits))
FPow(a, n) == FPowBits(a, NatBits(n))

\* ---------------------------------------------------------------- signed integers and rationals
FIAddC(x, y, c) == IF c = 0 THEN IZero ELSE IF c > 0 THEN I(x.s, Sub(x.m, y.m)) ELSE I(y.s, Sub(y.m, x.m))
FIAdd(x, y) == IF x.s = y.s THEN I(x.s, FAdd(x.m, y.m)) ELSE FIAddC(x, y, Cmp(x.m, y.m))
FISub(x, y) == FIAdd(x, INeg(y))
FIMul(x, y) == I((x.s + y.s) % 2, FMul(x.m, y.m))
FIMulSmall(x, k) == IF k < 0 THEN I(1 - x.s, FMulSmall(x.m, -k)) ELSE I(x.s, FMulSmall(x.m, k))
FICmp(x, y) == IF x.s # y.s THEN (IF x.s = 1 THEN -1 ELSE 1) ELSE IF x.s = 0 THEN Cmp(x.m, y.m) ELSE Cmp(y.m, x.m)

QOne == Q(IOne, One)
FQAdd(p, q) == IF p.d = q.d THEN Q(FIAdd(p.n, q.n), p.d)
               ELSE Q(FIAdd(FIMul(p.n, IFromNat(q.d)), FIMul(q.n, IFromNat(p.d))), FMul(p.d, q.d))
FQSub(p, q) == FQAdd(p, QNeg(q))
FQMul(p, q) == Q(FIMul(p.n, q.n), FMul(p.d, q.d))
FQCmp(p, q) == IF p.n.s # q.n.s THEN (IF p.n.s = 1 THEN -1 ELSE 1)
               ELSE IF p.d = q.d THEN FICmp(p.n, q.n)
               ELSE FICmp(FIMul(p.n, IFromNat(q.d)), FIMul(q.n, IFromNat(p.d)))
FQLt(p, q) == FQCmp(p, q) < 0
FQLe(p, q) == FQCmp(p, q) <= 0
FQMulNat(q, m) == Q(I(q.n.s, FMul(q.n.m, m)), q.d)
QMin(a, b) == IF FQLe(a, b) THEN a ELSE b
QMax(a, b) == IF FQLe(a, b) THEN b ELSE a
\* B^k as a rational, any native k
FQPowBase(B, k) == IF k >= 0 THEN Q(I(0, FPow(FromNat(B), k)), One) ELSE Q(IOne, FPow(FromNat(B), -k))
\* q^n for a native integer n (q # 0 when n < 0)
QPowPos(q, n) == Q(I(IF n % 2 = 1 THEN q.n.s ELSE 0, FPow(q.n.m, n)), FPow(q.d, n))
QPowInt(q, n) == IF n >= 0 THEN QPowPos(q, n) ELSE QInv(QPowPos(q, -n))
\* value of a float [sig, exp] in base B
FFVal(B, f) == IF f.exp >= 0 THEN Q(I(f.sig.s, FMul(f.sig.m, FPow(FromNat(B), f.exp))), One)
               ELSE Q(f.sig, FPow(FromNat(B), -f.exp))

\* ---------------------------------------------------------------- directed primitives (naturals)
NShrCeil(a, n) == IF LowBytes(a, n) = <<>> THEN ShrBytes(a, n) ELSE FAdd(ShrBytes(a, n), One)
NMulLo(a, b, nb) == ShrBytes(FMul(a, b), nb)
NMulHi(a, b, nb) == NShrCeil(FMul(a, b), nb)
NDivLo(a, k) == FDivModSmall(a, k)[1]
NDivHiFin(qr) == IF qr[2] = 0 THEN qr[1] ELSE FAdd(qr[1], One)
NDivHi(a, k) == NDivHiFin(FDivModSmall(a, k))

\* rational -> fixed point (BigInt numerator at scale 2^(8 nb)), and back
QFxFloorFin(q, qr) == IF q.n.s = 0 \/ qr[2] = <<>> THEN I(q.n.s, qr[1]) ELSE I(1, FAdd(qr[1], One))
QFxFloor(q, nb) == QFxFloorFin(q, FDivMod(ShlBytes(q.n.m, nb), q.d))
QFxCeil(q, nb) == INeg(QFxFloor(QNeg(q), nb))
FxOne(nb) == ShlBytes(One, nb)
FxQ(x, nb) == Q(x, FxOne(nb))

\* floor(log2(n / d)) for naturals n, d # 0
FloorLog2E(n, d, e0) ==        \* 2^(e0-1) < n/d < 2^(e0+1)
  IF (IF e0 >= 0 THEN Cmp(n, FShl(d, e0)) >= 0 ELSE Cmp(FShl(n, -e0), d) >= 0) THEN e0 ELSE e0 - 1
FloorLog2N(n, d) == FloorLog2E(n, d, BitLen(n) - BitLen(d))

\* floor(log_B |q|), q # 0: estimate from the binary logarithm, then decide by comparison.
\* (FloatDef!FloorLog counts digits by repeated division, cubic in the length.)
LogB2e5(B) == CASE B = 2 -> 100000 [] B = 3 -> 63093 [] B = 8 -> 33333 [] B = 10 -> 30103
                [] B = 16 -> 25000 [] B = 36 -> 19343 [] OTHER -> 0
\* candidates e0-2 .. e0+2 around the estimate; the answer is the largest with B^e <= |q|
FFLPick(B, q, e0, S) == IF S = {} \/ S = (e0 - 2)..(e0 + 2) THEN FloorLog(B, q) ELSE Max(S)
FFLCands(B, q, aq, e0) == FFLPick(B, q, e0, {e \in (e0 - 2)..(e0 + 2) : FQLe(FQPowBase(B, e), aq)})
FFLEst(B, q, l2, c) == IF c = 0 \/ l2 > 20000 \/ l2 < -20000 THEN FloorLog(B, q)
                       ELSE FFLCands(B, q, QAbs(q), (l2 * c) \div 100000)
FastFloorLog(B, q) == FFLEst(B, q, FloorLog2N(q.n.m, q.d), LogB2e5(B))

\* ---------------------------------------------------------------- series
(* exp(t / 2^w) * 2^w for a natural 0 <= t <= 2^w.  All terms are positive.
   Lo: every term rounded down, any truncation is a lower bound.
   Hi: every term rounded up; after term N >= 1 the tail t^(N+1)/(N+1)! + ... is at most
       term N * (u + u^2 + ...) with u = t/(N+1) <= 1/2, i.e. at most term N. *)
ExpLoStep(sum, term) == <<term, FAdd(sum, term), term = <<>> >>
ExpSeriesLo(t, nb) ==
  FoldLeftDomain(LAMBDA acc, i : IF acc[3] THEN acc ELSE ExpLoStep(acc[2], NDivLo(NMulLo(acc[1], t, nb), i)),
                 <<FxOne(nb), FxOne(nb), FALSE>>, Zeros(8 * nb + 16))[2]
ExpHiStep(sum, term) == <<term, FAdd(sum, term), Len(term) <= 1>>
ExpHiFin(r) == FAdd(r[2], r[1])
ExpSeriesHi(t, nb) ==
  ExpHiFin(FoldLeftDomain(LAMBDA acc, i : IF acc[3] THEN acc ELSE ExpHiStep(acc[2], NDivHi(NMulHi(acc[1], t, nb), i)),
                          <<FxOne(nb), FxOne(nb), FALSE>>, Zeros(8 * nb + 16)))

(* atanh(1/n) * 2^w for a native 2 <= n <= 2047: sum of 1 / (n^(2i+1) (2i+1)), divisions only.
   Tail after the term with power P = n^-(2N+1): at most P * z^2/(1-z^2) <= P (z <= 1/2). *)
AtanhInvStep(acc, plo, phi, i) ==
  <<plo, phi, FAdd(acc[3], NDivLo(plo, 2 * i + 1)), FAdd(acc[4], NDivHi(phi, 2 * i + 1)), Len(phi) <= 1>>
AtanhInvFin(r) == <<r[3], FAdd(r[4], r[2])>>
AtanhInvFrom(n, nb, plo0, phi0) ==
  AtanhInvFin(FoldLeftDomain(LAMBDA acc, i : IF acc[5] THEN acc
                                            ELSE AtanhInvStep(acc, NDivLo(acc[1], n * n), NDivHi(acc[2], n * n), i),
                             <<plo0, phi0, plo0, phi0, FALSE>>, Zeros(4 * nb + 8)))
AtanhInv(n, nb) == AtanhInvFrom(n, nb, NDivLo(FxOne(nb), n), NDivHi(FxOne(nb), n))

\* ln 2 = 2 atanh(1/3)
Ln2Fin(a) == <<FMulSmall(a[1], 2), FMulSmall(a[2], 2)>>
Ln2Encl(nb) == Ln2Fin(AtanhInv(3, nb))

(* atanh(z / 2^w) * 2^w for a natural 0 <= z <= 2^w / 4: sum of z^(2i+1) / (2i+1).
   Tail after the term with power P = z^(2N+1): at most P * z^2/(1-z^2) <= P / 15. *)
AtanhLoStep(sum, pw, i) == <<pw, FAdd(sum, NDivLo(pw, 2 * i + 1)), pw = <<>> >>
AtanhLoSq(z, z2, nb) ==
  FoldLeftDomain(LAMBDA acc, i : IF acc[3] THEN acc ELSE AtanhLoStep(acc[2], NMulLo(acc[1], z2, nb), i),
                 <<z, z, z = <<>> >>, Zeros(2 * nb + 8))[2]
AtanhLo(z, nb) == AtanhLoSq(z, NMulLo(z, z, nb), nb)
AtanhHiStep(sum, pw, i) == <<pw, FAdd(sum, NDivHi(pw, 2 * i + 1)), Len(pw) <= 1>>
AtanhHiFin(r) == FAdd(r[2], r[1])
AtanhHiSq(z, z2, nb) ==
  AtanhHiFin(FoldLeftDomain(LAMBDA acc, i : IF acc[3] THEN acc ELSE AtanhHiStep(acc[2], NMulHi(acc[1], z2, nb), i),
                            <<z, z, FALSE>>, Zeros(2 * nb + 8)))
AtanhHi(z, nb) == IF z = <<>> THEN <<>> ELSE AtanhHiSq(z, NMulHi(z, z, nb), nb)

\* ---------------------------------------------------------------- exp
(* a rational bound of exp(q): below it (upper = FALSE) or above it (upper = TRUE).
   With x the fixed-point image of q (rounded in the wanted direction) and [l2lo, l2hi] ln 2:
   k is the largest integer with r = x - k ln 2 >= 0 for the chosen bound of ln 2, found from a
   native estimate; then 0 <= r <= ln 2 + |k| width <= 1.  Any integer k would be sound: the Assert
   only guards the precondition of the series. *)
ExpResult(e, k, nb) == IF k >= 0 THEN Q(I(0, FShl(e, k)), FxOne(nb)) ELSE Q(I(0, e), FShl(FxOne(nb), -k))
ExpReduced(r, k, nb, upper) ==
  IF r.s = 0 /\ Cmp(r.m, FxOne(nb)) <= 0
  THEN ExpResult(IF upper THEN ExpSeriesHi(r.m, nb) ELSE ExpSeriesLo(r.m, nb), k, nb)
  ELSE Assert(FALSE, <<"Enclosure!ExpBound reduction out of range", r, k, nb>>)
\* r = x - k * (the bound of ln 2 that makes r a bound in the wanted direction)
ExpRem(xf, l2, k, upper) == FISub(xf, FIMulSmall(I(0, IF (k >= 0) = upper THEN l2[1] ELSE l2[2]), k))
\* the bound of ln 2 that decides the sign of r for this k: r >= 0 must hold for both directions
ExpRemSign(xf, l2, k) == FISub(xf, FIMulSmall(I(0, IF k >= 0 THEN l2[2] ELSE l2[1]), k)).s = 0
ExpWithK(xf, l2, k, nb, upper) == ExpReduced(ExpRem(xf, l2, k, upper), k, nb, upper)
ExpPickK(xf, l2, k0, nb, upper) ==
  ExpWithK(xf, l2, IF ExpRemSign(xf, l2, k0 + 1) THEN k0 + 1 ELSE IF ExpRemSign(xf, l2, k0) THEN k0
                   ELSE IF ExpRemSign(xf, l2, k0 - 1) THEN k0 - 1 ELSE k0 - 2, nb, upper)
\* native estimate of floor(x / ln 2) from t = floor(|x| * 256) (|x| below 4096): 256 ln 2 = 177.4457
ExpEstT(neg, t) == IF t >= 1048576 THEN Assert(FALSE, <<"Enclosure!ExpBound argument too large", t>>)
                   ELSE IF neg THEN -((t * 1000) \div 177446) - 1 ELSE (t * 1000) \div 177446
ExpEstK(xf, nb) == IF Len(xf.m) > nb + 2 THEN Assert(FALSE, <<"Enclosure!ExpBound argument too large", xf>>)
                   ELSE ExpEstT(xf.s = 1, ToNat(ShrBytes(xf.m, nb - 1)))
ExpBoundFx(xf, l2, nb, upper) == ExpPickK(xf, l2, ExpEstK(xf, nb), nb, upper)
ExpBound(q, nb, upper) == ExpBoundFx(IF upper THEN QFxCeil(q, nb) ELSE QFxFloor(q, nb), Ln2Encl(nb), nb, upper)

(* exp is increasing: exp([a, b]) is inside [ExpBound(a, lower), ExpBound(b, upper)].
   For an argument of tiny magnitude the result is 1 + x + ...: the scale is enlarged by the
   leading zero bytes of x so that exp(x) - 1 is still known to about 8 nb bits (tightness only). *)
TinyExtraOf(m) == Let(FloorLog2N(m.n.m, m.d), LAMBDA l2 : IF l2 < 0 THEN (-l2) \div 8 + 1 ELSE 0)
TinyExtra(qlo, qhi) ==
  IF QSign(qlo) * QSign(qhi) <= 0 THEN 0 ELSE TinyExtraOf(IF QSign(qlo) > 0 THEN qlo ELSE qhi)
ExpEnclAt(qlo, qhi, nbe) == <<ExpBound(qlo, nbe, FALSE), ExpBound(qhi, nbe, TRUE)>>
ExpEncl(qlo, qhi, nb) == ExpEnclAt(qlo, qhi, nb + TinyExtra(qlo, qhi))

\* ---------------------------------------------------------------- ln
(* rational interval containing ln(q) for a rational q > 0.
   s = floor(log2(3q/2)), m = q / 2^s in [2/3, 4/3), z = (m - 1)/(m + 1) = (nn - dd)/(nn + dd), |z| <= 1/5.
   Without the s ln 2 term the result is about 2 z: the scale keeps nb bytes below the leading bit of z. *)
LnSum(s, l2, mlo, mhi, nbb) ==
  LET slo == IF s = 0 THEN IZero ELSE IF s > 0 THEN I(0, FMulSmall(l2[1], s)) ELSE I(1, FMulSmall(l2[2], -s))
      shi == IF s = 0 THEN IZero ELSE IF s > 0 THEN I(0, FMulSmall(l2[2], s)) ELSE I(1, FMulSmall(l2[1], -s))
  IN <<FxQ(FIAdd(slo, mlo), nbb), FxQ(FIAdd(shi, mhi), nbb)>>
LnAtanh(s, zneg, alo, ahi, nbb) ==
  LnSum(s, IF s = 0 THEN <<(<<>>), (<<>>)>> ELSE Ln2Encl(nbb),
        IF zneg THEN I(1, ahi) ELSE I(0, alo), IF zneg THEN I(1, alo) ELSE I(0, ahi), nbb)
LnFx(s, zneg, zlo, zhi, nbb) ==
  IF Cmp(FMulSmall(zhi, 4), FxOne(nbb)) > 0 THEN Assert(FALSE, <<"Enclosure!LnEncl reduction out of range", zhi, nbb>>)
  ELSE LnAtanh(s, zneg, FMulSmall(AtanhLo(zlo, nbb), 2), FMulSmall(AtanhHi(zhi, nbb), 2), nbb)
LnZq(s, zneg, qr, nbb) == LnFx(s, zneg, qr[1], IF qr[2] = <<>> THEN qr[1] ELSE FAdd(qr[1], One), nbb)
LnZ(s, znum, zden, nbb) == LnZq(s, znum.s = 1, FDivMod(ShlBytes(znum.m, nbb), zden), nbb)
LnScaled(s, znum, zden, nb) ==
  IF s = 0 /\ znum.m = <<>> THEN <<QZero, QZero>>
  ELSE LnZ(s, znum, zden, nb + (IF s = 0 THEN Max2(0, (-FloorLog2N(znum.m, zden)) \div 8) ELSE 0))
LnParts(s, nn, dd, nb) == LnScaled(s, FISub(IFromNat(nn), IFromNat(dd)), FAdd(nn, dd), nb)
LnShift(n, d, s, nb) == LnParts(s, IF s >= 0 THEN n ELSE FShl(n, -s), IF s >= 0 THEN FShl(d, s) ELSE d, nb)
LnEncl(q, nb) ==
  IF q.n.s = 1 \/ q.n.m = <<>> THEN Assert(FALSE, <<"Enclosure!LnEncl argument not positive", q>>)
  ELSE LnShift(q.n.m, q.d, FloorLog2N(FMulSmall(q.n.m, 3), FMulSmall(q.d, 2)), nb)

\* ---------------------------------------------------------------- real power
\* x^y = exp(y ln x) for rationals x > 0, y
PowFromLn(l, y, nb) ==
  IF QSign(y) >= 0 THEN ExpEncl(FQMul(l[1], y), FQMul(l[2], y), nb) ELSE ExpEncl(FQMul(l[2], y), FQMul(l[1], y), nb)
PowEncl(x, y, nb) == PowFromLn(LnEncl(x, nb), y, nb)

\* ---------------------------------------------------------------- the 1-ulp decision
(* r: returned value; [lo, hi]: rationals with lo <= true value <= hi; p >= 1 digits in base B.
   The ulp is taken at the true value x (FloatDef!Ulp: B^(floor(log_B |x|) - p + 1)), which is only
   known to lie in the interval, so both candidates are considered.
     HOLDS     : for every x in [lo, hi]: |r - x| <  ulp(x)
     FAILS     : for every x in [lo, hi]: |r - x| >= ulp(x)
     UNDECIDED : otherwise - the caller must enclose more tightly, never raise an alarm.
   For FAILS, `cls` brackets the error: "marginal" = below (1 + 2^-10) ulp, otherwise at least L ulp
   and less than U ulp with powers of two L, U. *)
ErrUpper(dmax, umin) ==
  FoldLeftDomain(LAMBDA acc, j : IF acc[2] THEN acc
                                 ELSE IF FQLt(dmax, FQMulNat(umin, FShl(One, j))) THEN <<j, TRUE>> ELSE <<j, FALSE>>,
                 <<0, FALSE>>, Zeros(20))
ErrLower(dmin, umax) ==
  FoldLeftDomain(LAMBDA acc, j : IF FQLe(FQMulNat(umax, FShl(One, j)), dmin) THEN j ELSE acc, 0, Zeros(20))
P2Str(j) == ToString(ToNat(Shl(One, j)))
ErrName(lw, up) == "error-ge" \o P2Str(lw) \o "ulp-lt" \o (IF up[2] THEN P2Str(up[1]) ELSE "INF") \o "ulp"
ErrClass(dmin, dmax, umin, umax) ==
  IF FQLt(FQMulNat(dmax, FromNat(1024)), FQMulNat(umin, FromNat(1025))) THEN "error-ge1ulp-marginal"
  ELSE ErrName(ErrLower(dmin, umax), ErrUpper(dmax, umin))

DecideD(dmin, dmax, umin, umax) ==
  IF FQLt(dmax, umin) THEN [v |-> "HOLDS", cls |-> ""]
  ELSE IF FQLe(umax, dmin) THEN [v |-> "FAILS", cls |-> ErrClass(dmin, dmax, umin, umax)]
  ELSE [v |-> "UNDECIDED", cls |-> ""]
DecideU(r, lo, hi, dlo, dhi, umin, umax) ==
  DecideD(IF FQLe(lo, r) /\ FQLe(r, hi) THEN QZero ELSE QMin(dlo, dhi), QMax(dlo, dhi), umin, umax)
DecideE(B, p, r, lo, hi, elo, ehi) ==
  DecideU(r, lo, hi, QAbs(FQSub(r, lo)), QAbs(FQSub(r, hi)),
          FQPowBase(B, Min2(elo, ehi) - p + 1), FQPowBase(B, Max2(elo, ehi) - p + 1))
Decide3(B, p, r, lo, hi) ==
  IF QIsZero(lo) /\ QIsZero(hi) THEN
     (IF QIsZero(r) THEN [v |-> "HOLDS", cls |-> ""] ELSE [v |-> "FAILS", cls |-> "nonzero-for-zero"])
  ELSE IF QSign(lo) * QSign(hi) <= 0 THEN [v |-> "UNDECIDED", cls |-> ""]
  ELSE IF lo = hi THEN Let(FastFloorLog(B, lo), LAMBDA e : DecideE(B, p, r, lo, hi, e, e))
  ELSE DecideE(B, p, r, lo, hi, FastFloorLog(B, lo), FastFloorLog(B, hi))
=============================================================================
