---------------------------- MODULE MC_ExpLogDef ----------------------------
(* Self-check of the definition layer on hand-computed cases (run by checks/C11.py before the
   monitors; a failing ASSUME is a tool error).  Includes the three witnesses of F32 from DESIGN 8. *)
EXTENDS ExpLogDef
VARIABLE x
Init == x = 0
Next == x' = x

qi(a, b) == Q(IFromNative(a), FromNat(b))
fl(s, e) == [sig |-> IFromNative(s), exp |-> e, inf |-> 0, prec |-> 0]
Ok(s, e, flag) == [k |-> "ok", v |-> [v |-> fl(s, e), flag |-> flag]]
OkBig(sig, e, flag) == [k |-> "ok", v |-> [v |-> [sig |-> sig, exp |-> e, inf |-> 0, prec |-> 0], flag |-> flag]]
Pn == [k |-> "panic", msg |-> "precision cannot be 0 (unlimited) for this operation!"]
J(op, B, p, xq, yq, n, o) == Judge(B, p, o, Truth(op, xq, yq, n, FirstBytes(B, p)), TRUE)

\* F32: exp(3) at 3 bits, mode Zero, returns 16 (e^3 = 20.09, ulp 4); ln(3.5) at 3 bits returns 1 (1.2528, ulp 1/4);
\* exp(-4e-6) at 1 decimal digit, mode Up, returns 2 (0.999996, ulp 0.1)
ASSUME J("exp", 2, 3, qi(3, 1), QZero, 0, Ok(1, 4, "NoOp")) = "error-ge1ulp-lt2ulp"
ASSUME J("exp", 2, 3, qi(3, 1), QZero, 0, Ok(5, 2, "NoOp")) = ""
ASSUME J("ln", 2, 3, qi(7, 2), QZero, 0, Ok(1, 0, "NoOp")) = "error-ge1ulp-lt2ulp"
ASSUME J("ln", 2, 3, qi(7, 2), QZero, 0, Ok(5, -2, "NoOp")) = ""
ASSUME J("exp", 10, 1, qi(-4, 1000000), QZero, 0, Ok(2, 0, "AddOne")) = "error-ge8ulp-lt16ulp-pow1"
ASSUME J("exp", 10, 1, qi(-4, 1000000), QZero, 0, Ok(1, 0, "AddOne")) = ""
ASSUME J("exp", 10, 1, qi(-4, 1000000), QZero, 0, Ok(9, -1, "NoOp")) = ""
\* special values and the Exact flag
ASSUME J("exp", 10, 5, QZero, QZero, 0, Ok(1, 0, "Exact")) = ""
ASSUME J("exp", 10, 5, QZero, QZero, 0, Ok(100001, -5, "Exact")) = "exact-flag-untruthful"
ASSUME J("exp", 10, 5, QZero, QZero, 0, Ok(10001, -4, "Exact")) = "error-ge1ulp-marginal-pow1"        \* the accuracy clause comes first
ASSUME J("exp", 10, 5, QZero, QZero, 0, Ok(10001, -4, "NoOp")) = "error-ge1ulp-marginal-pow1"
ASSUME J("exp", 10, 5, QZero, QZero, 0, Ok(100001, -5, "NoOp")) = ""           \* within one ulp, not flagged exact
ASSUME J("exp_m1", 10, 5, QZero, QZero, 0, Ok(0, 0, "Exact")) = ""
ASSUME J("exp_m1", 10, 5, QZero, QZero, 0, Ok(1, -30, "NoOp")) = "nonzero-for-zero"
ASSUME J("ln", 10, 5, QOne, QZero, 0, Ok(0, 0, "Exact")) = ""
ASSUME J("ln_1p", 10, 5, QZero, QZero, 0, Ok(0, 0, "NoOp")) = ""
ASSUME J("exp_m1", 10, 5, qi(1, 100000000), QZero, 0, Ok(1, -8, "Exact")) = "exact-flag-untruthful"
ASSUME J("exp_m1", 10, 5, qi(1, 100000000), QZero, 0, Ok(1, -8, "NoOp")) = ""
ASSUME J("exp", 10, 5, qi(1, 1), QZero, 0, Ok(27183, -4, "Exact")) = "exact-flag-untruthful"
ASSUME J("exp", 10, 5, qi(1, 1), QZero, 0, Ok(27183, -4, "AddOne")) = ""
ASSUME J("exp", 10, 5, qi(1, 1), QZero, 0, Ok(27184, -4, "AddOne")) = "error-ge1ulp-lt2ulp"
ASSUME J("exp", 10, 5, qi(1, 1), QZero, 0, Pn) = "unexpected-panic"
ASSUME J("exp", 10, 5, qi(1, 1), QZero, 0, [k |-> "timeout"]) = "no-result-timeout"
ASSUME J("exp", 10, 5, qi(1, 1), QZero, 0, [k |-> "ok", v |-> [v |-> [sig |-> IZero, exp |-> 0, inf |-> 1, prec |-> 5], flag |-> "NoOp"]]) = "not-finite"
\* integer powers are exact rationals
ASSUME J("powi", 10, 3, qi(-3, 2), QZero, 3, Ok(-337, -2, "NoOp")) = ""          \* -3.375
ASSUME J("powi", 10, 3, qi(-3, 2), QZero, 3, Ok(-3375, -3, "Exact")) = ""
ASSUME J("powi", 10, 3, qi(-3, 2), QZero, 3, Ok(-338, -2, "Exact")) = "exact-flag-untruthful"
ASSUME J("powi", 10, 3, qi(-3, 2), QZero, 3, Ok(-339, -2, "NoOp")) = "error-ge1ulp-lt2ulp"
ASSUME J("powi", 10, 3, qi(3, 1), QZero, -1, Ok(333, -3, "NoOp")) = ""
ASSUME J("powi", 10, 3, qi(3, 1), QZero, -1, Ok(335, -3, "NoOp")) = "error-ge1ulp-lt2ulp"
ASSUME J("powi", 10, 3, qi(7, 1), QZero, 0, Ok(1, 0, "Exact")) = ""
ASSUME J("powi", 10, 3, QZero, QZero, 0, Ok(1, 0, "Exact")) = ""
ASSUME J("powi", 10, 3, QZero, QZero, -2, Pn) = ""                                 \* outside the domain: no demand
\* unlimited precision: refused, or answered exactly
ASSUME J("exp", 10, 0, qi(1, 1), QZero, 0, Pn) = ""
ASSUME J("exp", 10, 0, qi(1, 1), QZero, 0, Ok(27183, -4, "NoOp")) = "unlimited-precision-not-refused"
ASSUME J("exp", 10, 0, QZero, QZero, 0, Ok(1, 0, "Exact")) = ""
ASSUME J("powi", 10, 0, qi(3, 2), QZero, 2, Ok(225, -2, "Exact")) = ""
ASSUME J("powi", 10, 0, qi(3, 2), QZero, 2, Ok(22, -1, "NoOp")) = "unlimited-precision-not-refused"
ASSUME J("powi", 10, 0, qi(3, 2), QZero, -2, Pn) = ""
\* outside the domain: nothing is demanded here (C16)
ASSUME J("ln", 10, 5, qi(-2, 1), QZero, 0, Pn) = "" /\ J("ln", 10, 5, QZero, QZero, 0, Ok(1, 0, "NoOp")) = ""
ASSUME J("ln_1p", 10, 5, qi(-1, 1), QZero, 0, Pn) = "" /\ J("powf", 10, 5, qi(-2, 1), qi(1, 2), 0, Pn) = ""
ASSUME J("powf", 10, 5, QZero, qi(-1, 2), 0, Ok(0, 0, "Exact")) = ""
\* real powers: documented specials, small integer exponents exactly, the rest by enclosure
ASSUME J("powf", 10, 5, qi(7, 2), QZero, 0, Ok(1, 0, "Exact")) = ""
ASSUME J("powf", 10, 2, qi(1234, 1000), QOne, 0, Ok(12, -1, "NoOp")) = ""
ASSUME J("powf", 10, 5, QZero, qi(3, 2), 0, Ok(0, 0, "Exact")) = ""
ASSUME J("powf", 10, 5, QOne, qi(-3, 2), 0, Ok(1, 0, "Exact")) = ""
ASSUME J("powf", 10, 3, qi(123, 100), qi(-456, 100), 0, Ok(389, -3, "NoOp")) = ""          \* 1.23^-4.56 = 0.38907
ASSUME J("powf", 10, 3, qi(123, 100), qi(-456, 100), 0, Ok(391, -3, "NoOp")) = "error-ge1ulp-lt2ulp"
ASSUME J("powf", 10, 3, qi(3, 1), qi(2, 1), 0, Ok(9, 0, "Exact")) = ""
ASSUME J("powf", 10, 3, qi(3, 1), qi(2, 1), 0, Ok(899, -2, "NoOp")) = "error-ge1ulp-marginal"
\* a rational power with a fractional exponent is recognised exactly: 9^(3/2) = 27, (1/16)^(1/2) = 1/4
R(B, p, xq, y, r) == RefinePowf(B, p, Truth("powf", xq, FFVal(B, y), 0, FirstBytes(B, p)), xq, y, r)
ASSUME R(2, 10, qi(9, 1), fl(3, -1), qi(27, 1)) = Ex(qi(27, 1))
ASSUME R(2, 10, qi(9, 1), fl(3, -1), Q(IFromNative(863), FromNat(32))).kind = "exact"       \* 27 - 1/32: one grid step below
ASSUME R(2, 10, qi(9, 1), fl(3, -1), qi(26, 1)).kind = "encl"
ASSUME QEq(R(2, 20, qi(1, 16), fl(1, -1), QAdd(qi(1, 4), qi(1, 2097152))).lo, qi(1, 4))         \* 1/4 + 2^-21: one step above
ASSUME R(2, 20, qi(1, 16), fl(-1, -1), qi(4, 1)) = Ex(qi(4, 1))
ASSUME R(10, 5, qi(2, 1), fl(5, -1), Q(IFromNative(14142), FromNat(10000))).kind = "encl"     \* sqrt 2 is not rational
\* the suffix for a significand of the form B^k + 1
ASSUME IsPowPlusOne(10, FromNat(1001)) /\ IsPowPlusOne(10, FromNat(11)) /\ IsPowPlusOne(10, FromNat(10010)) /\ IsPowPlusOne(2, FromNat(3))
ASSUME ~IsPowPlusOne(10, FromNat(1002)) /\ IsPowPlusOne(10, FromNat(2)) /\ ~IsPowPlusOne(10, FromNat(1)) /\ ~IsPowPlusOne(10, <<>>) /\ ~IsPowPlusOne(10, FromNat(1011))
ASSUME PrintT("explogdef ok")
=============================================================================
