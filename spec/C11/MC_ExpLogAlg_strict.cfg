SPECIFICATION Spec
INVARIANT ExactFlagTruthful
CONSTANTS
  PowiNegKeepsFlag = FALSE
CHECK_DEADLOCK FALSE
