SPECIFICATION Spec
INVARIANT ExactFlagTruthful
CHECK_DEADLOCK FALSE
