----------------------------- MODULE Trace_C11 -----------------------------
(* Trace monitor for C11.  Every recorded call of exp / exp_m1 / ln / ln_1p / powi / powf (Context
   form and FBig form, grouped by outcome) is judged by ExpLogDef against a rigorous enclosure of
   the true value.  An outcome the first enclosure cannot decide is judged again with an enclosure
   of twice, then four times the working size; what is still undecided is *counted*, never alarmed.
   The monitor never blocks: a failing event goes to `bad` and validation continues. *)
EXTENDS ExpLogDef, Json, IOUtils
Rec == ndJsonDeserialize(IOEnv.TRACE)

JudgeLevels(B, p, o, T1, T2, T3) ==
  Let(Judge(B, p, o, T1, FALSE), LAMBDA j1 : IF j1 # "U" THEN <<j1, 1>> ELSE
  Let(Judge(B, p, o, T2, FALSE), LAMBDA j2 : IF j2 # "U" THEN <<j2, 2>> ELSE <<Judge(B, p, o, T3, TRUE), 3>>))
\* the forms return the same number (not a demand of C11: reported as drift)
Same(a, b) == a.k = b.k /\ (a.k = "ok" => a.v.v.sig = b.v.v.sig /\ a.v.v.exp = b.v.v.exp /\ a.v.v.inf = b.v.v.inf)
EvalJ(e, js, kind) ==
  [why |-> IF ~(IsInt(e.x.sig) /\ IsInt(e.y.sig)) THEN "malformed-operand"
           ELSE FoldLeft(LAMBDA acc, j : IF acc = "" /\ j[1] # "U" THEN j[1] ELSE acc, "", js),
   und |-> \E i \in 1..Len(js) : js[i][1] = "U",
   lvl |-> FoldLeft(LAMBDA acc, j : Max2(acc, j[2]), 1, js),
   dis |-> \E i \in 1..Len(e.outs) : ~Same(e.outs[i].out, e.outs[1].out),
   dom |-> kind = "domain", exact |-> kind = "exact"]
EvalT(e, B, p, T1, T2, T3) ==
  EvalJ(e, [i \in 1..Len(e.outs) |-> JudgeLevels(B, p, e.outs[i].out, T1, T2, T3)], T1.kind)
\* second truth: for powf first try to recognise a rational power near the returned value
FirstOk(e) == FoldLeft(LAMBDA acc, g : IF acc = 0 /\ g[2].out.k = "ok" THEN (IF g[2].out.v.v.inf = 0 /\ IsInt(g[2].out.v.v.sig) THEN g[1] ELSE acc) ELSE acc,
                       0, [i \in 1..Len(e.outs) |-> <<i, e.outs[i]>>])
Second(e, B, p, xq, yq, nb2, T1, i) ==
  IF e.op = "powf" /\ i # 0 /\ T1.kind = "encl"
  THEN Let(RefinePowf(B, p, T1, xq, e.y, FFVal(B, e.outs[i].out.v.v)),
           LAMBDA T : IF T.kind = "exact" THEN T ELSE Truth(e.op, xq, yq, e.n, nb2))
  ELSE Truth(e.op, xq, yq, e.n, nb2)
EvalQ1(e, B, p, xq, yq, nb1, T1) ==
  EvalT(e, B, p, T1, Second(e, B, p, xq, yq, 2 * nb1 + 8, T1, FirstOk(e)), Truth(e.op, xq, yq, e.n, 4 * nb1 + 24))
EvalQ(e, B, p, xq, yq, nb1) == EvalQ1(e, B, p, xq, yq, nb1, Truth(e.op, xq, yq, e.n, nb1))
Eval(e) == EvalQ(e, e.base, e.prec, FFVal(e.base, e.x), FFVal(e.base, e.y), FirstBytes(e.base, e.prec))

VARIABLES l, bad, und, dis, cnt
vars == <<l, bad, und, dis, cnt>>
Init == l = 1 /\ bad = <<>> /\ und = <<>> /\ dis = <<>> /\ cnt = [lvl2 |-> 0, lvl3 |-> 0, dom |-> 0, exact |-> 0]
Record(r) ==
  /\ bad' = IF r.why = "" THEN bad ELSE Append(bad, [i |-> l, why |-> r.why])
  /\ und' = IF r.und /\ r.why = "" THEN Append(und, l) ELSE und
  /\ dis' = IF r.dis THEN Append(dis, l) ELSE dis
  /\ cnt' = [lvl2 |-> cnt.lvl2 + (IF r.lvl = 2 THEN 1 ELSE 0), lvl3 |-> cnt.lvl3 + (IF r.lvl = 3 THEN 1 ELSE 0),
             dom |-> cnt.dom + (IF r.dom THEN 1 ELSE 0), exact |-> cnt.exact + (IF r.exact THEN 1 ELSE 0)]
Next == /\ l <= Len(Rec)
        /\ Record(Eval(Rec[l]))      \* an argument is evaluated once; a LET would be re-evaluated at every use
        /\ l' = l + 1
Spec == Init /\ [][Next]_vars
Verdict == l > Len(Rec) => PrintT(<<"VERDICT", ToJson([total |-> Len(Rec), bad |-> bad, undecided |-> und,
                                                        disagree |-> dis, stats |-> cnt])>>)
Complete == IF TLCGet("stats").diameter - 1 = Len(Rec) THEN TRUE
            ELSE PrintT(<<"TRUNCATED", TLCGet("stats").diameter>>) /\ FALSE
=============================================================================
