---------------------------- MODULE MC_Enclosure ----------------------------
(* Self-check of Enclosure.tla, run by checks/C11.py before any verdict is believed.
   A failing ASSUME is a tool error (exit 2), never a statement about dashu.
   - literal constants to 60 decimal digits (floor(c * 10^60), from an independent calculator):
     e, 1/e, ln 2, ln 10, sqrt 2 must lie in the computed intervals, which must be tight;
   - x is in exp(LnEncl(x)) for arguments near 0, near 1, and large;
   - ln(1 +- eps) against the elementary bounds eps - eps^2/2 < ln(1 + eps) < eps;
   - the interval width shrinks with the working precision;
   - the three-valued decision and its error classes on hand-computed cases;
   - FastFloorLog against FloatDef!FloorLog. *)
EXTENDS Enclosure
VARIABLE x
Init == x = 0
Next == x' = x

Dec(ds) == FromRadix(ds, 10)
P60 == Pow(FromNat(10), 60)
E60 == Dec(<<2,7,1,8,2,8,1,8,2,8,4,5,9,0,4,5,2,3,5,3,6,0,2,8,7,4,7,1,3,5,2,6,6,2,4,9,7,7,5,7,2,4,7,0,9,3,6,9,9,9,5,9,5,7,4,9,6,6,9,6,7>>)
EINV60 == Dec(<<3,6,7,8,7,9,4,4,1,1,7,1,4,4,2,3,2,1,5,9,5,5,2,3,7,7,0,1,6,1,4,6,0,8,6,7,4,4,5,8,1,1,1,3,1,0,3,1,7,6,7,8,3,4,5,0,7,8,3,6>>)
LN2_60 == Dec(<<6,9,3,1,4,7,1,8,0,5,5,9,9,4,5,3,0,9,4,1,7,2,3,2,1,2,1,4,5,8,1,7,6,5,6,8,0,7,5,5,0,0,1,3,4,3,6,0,2,5,5,2,5,4,1,2,0,6,8,0>>)
LN10_60 == Dec(<<2,3,0,2,5,8,5,0,9,2,9,9,4,0,4,5,6,8,4,0,1,7,9,9,1,4,5,4,6,8,4,3,6,4,2,0,7,6,0,1,1,0,1,4,8,8,6,2,8,7,7,2,9,7,6,0,3,3,3,2,7>>)
SQRT2_60 == Dec(<<1,4,1,4,2,1,3,5,6,2,3,7,3,0,9,5,0,4,8,8,0,1,6,8,8,7,2,4,2,0,9,6,9,8,0,7,8,5,6,9,6,7,1,8,7,5,3,7,6,9,4,8,0,7,3,1,7,6,6,7,9>>)

qi(a, b) == Q(IFromNative(a), FromNat(b))
Ten(k) == QPowBase(10, k)
\* the literal says: v / 10^60 <= c < (v + 1) / 10^60; a sound enclosure must meet that interval
Meets(en, v) == /\ QLe(en[1], en[2])
                /\ QLe(en[1], Q(IFromNat(Add(v, One)), P60))
                /\ QLe(Q(IFromNat(v), P60), en[2])
\* c is *inside* a tight enclosure: width * 2^(8 nb - slack) < |lo|
Tight(en, nb, slack) == QLt(QMulInt(QSub(en[2], en[1]), IFromNat(Shl(One, 8 * nb - slack))), QAbs(en[1]))
Inside(q, en) == QLe(en[1], q) /\ QLe(q, en[2])
Width(en) == QSub(en[2], en[1])

NB == 28          \* 224 bits: about 67 decimal digits
ASSUME LET en == ExpEncl(qi(1, 1), qi(1, 1), NB) IN Meets(en, E60) /\ Tight(en, NB, 16)
ASSUME LET en == ExpEncl(qi(-1, 1), qi(-1, 1), NB) IN Meets(en, EINV60) /\ Tight(en, NB, 16)
ASSUME LET l == Ln2Encl(NB) en == <<FxQ(I(0, l[1]), NB), FxQ(I(0, l[2]), NB)>> IN Meets(en, LN2_60) /\ Tight(en, NB, 16)
ASSUME LET en == LnEncl(qi(2, 1), NB) IN Meets(en, LN2_60) /\ Tight(en, NB, 16)
ASSUME LET en == LnEncl(qi(10, 1), NB) IN Meets(en, LN10_60) /\ Tight(en, NB, 16)
ASSUME LET en == LnEncl(qi(1, 10), NB) IN Meets(<<QNeg(en[2]), QNeg(en[1])>>, LN10_60)
ASSUME LET en == PowEncl(qi(2, 1), qi(1, 2), NB) IN Meets(en, SQRT2_60) /\ Tight(en, NB, 16)
                                                 /\ QLe(QMul(en[1], en[1]), qi(2, 1)) /\ QLe(qi(2, 1), QMul(en[2], en[2]))
\* e * (1/e) = 1 and e^200 * e^-200 = 1 through independent reductions (k > 0 and k < 0)
ASSUME LET a == ExpEncl(qi(200, 1), qi(200, 1), NB) b == ExpEncl(qi(-200, 1), qi(-200, 1), NB)
       IN Tight(a, NB, 24) /\ Tight(b, NB, 24) /\ QLe(QMul(a[1], b[1]), QOne) /\ QLe(QOne, QMul(a[2], b[2]))
ASSUME PrintT("enclosure: constants ok")

\* x in exp(ln x): arguments near zero, near one on both sides, ordinary, large
RoundTrip(q, nb) == LET l == LnEncl(q, nb) en == ExpEncl(l[1], l[2], nb) IN Inside(q, en) /\ Tight(en, nb, 24)
ASSUME \A q \in {qi(3, 7), qi(200, 1), qi(4, 3), qi(2, 3), qi(1000001, 1000000), qi(999999, 1000000), qi(1, 1000000), qi(123457, 7)} :
          RoundTrip(q, 12) /\ RoundTrip(q, NB)
ASSUME RoundTrip(Ten(-30), NB) /\ RoundTrip(QAdd(QOne, Ten(-20)), NB) /\ RoundTrip(QSub(QOne, Ten(-20)), NB)
\* ln x in LnEncl(exp-interval): ln is increasing, so the ln of both ends of an exp enclosure bracket x
ASSUME \A q \in {qi(3, 7), qi(-5, 2), qi(40, 1)} :
          LET en == ExpEncl(q, q, NB) IN QLe(LnEncl(en[1], NB)[1], q) /\ QLe(q, LnEncl(en[2], NB)[2])
\* elementary bounds next to one, where the scale adapts: eps - eps^2/2 < ln(1+eps) < eps
ASSUME \A k \in {1, 5, 20, 45} :
          LET eps == Ten(-k)
              en == LnEncl(QAdd(QOne, eps), 12)
              em == LnEncl(QSub(QOne, eps), 12)
          IN /\ QLt(en[1], eps) /\ QLt(QSub(eps, QMul(eps, eps)), en[2]) /\ Tight(en, 12, 16) /\ QSign(en[1]) > 0
             /\ QLt(em[1], QNeg(eps)) /\ QLt(QNeg(QAdd(eps, QMul(eps, eps))), em[2]) /\ Tight(em, 12, 16) /\ QSign(em[2]) < 0
ASSUME LnEncl(QOne, 12) = <<QZero, QZero>>
ASSUME PrintT("enclosure: round trips ok")

\* widths shrink with the working precision, and enclosures at different precisions meet
Overlap(a, b) == QLe(a[1], b[2]) /\ QLe(b[1], a[2])
ASSUME \A q \in {qi(3, 7), qi(-17, 3), qi(55, 1)} :
          LET a == ExpEncl(q, q, 8) b == ExpEncl(q, q, 16) c == ExpEncl(q, q, 32)
          IN QLt(Width(c), Width(b)) /\ QLt(Width(b), Width(a)) /\ Overlap(a, b) /\ Overlap(b, c) /\ Overlap(a, c)
             /\ Tight(a, 8, 20) /\ Tight(b, 16, 20) /\ Tight(c, 32, 20)
ASSUME \A q \in {qi(3, 7), qi(17, 3), qi(55, 1)} :
          LET a == LnEncl(q, 8) b == LnEncl(q, 16) c == LnEncl(q, 32)
          IN QLt(Width(c), Width(b)) /\ QLt(Width(b), Width(a)) /\ Overlap(a, b) /\ Overlap(b, c) /\ Overlap(a, c)
             /\ Tight(a, 8, 20) /\ Tight(b, 16, 20) /\ Tight(c, 32, 20)
ASSUME LET a == PowEncl(qi(7, 2), qi(-9, 4), 8) c == PowEncl(qi(7, 2), qi(-9, 4), 24)
       IN QLt(Width(c), Width(a)) /\ Overlap(a, c) /\ Tight(c, 24, 24)
ASSUME PrintT("enclosure: widths ok")

\* the decision: e = 2.718281828..., base 10, 3 digits: ulp = 0.01
EE == ExpEncl(qi(1, 1), qi(1, 1), 8)
ASSUME Decide3(10, 3, qi(272, 100), EE[1], EE[2]).v = "HOLDS"
ASSUME Decide3(10, 3, qi(271, 100), EE[1], EE[2]).v = "HOLDS"
ASSUME Decide3(10, 3, qi(273, 100), EE[1], EE[2]) = [v |-> "FAILS", cls |-> "error-ge1ulp-lt2ulp"]
ASSUME Decide3(10, 3, qi(275, 100), EE[1], EE[2]) = [v |-> "FAILS", cls |-> "error-ge2ulp-lt4ulp"]
ASSUME Decide3(10, 3, qi(2, 1), EE[1], EE[2]) = [v |-> "FAILS", cls |-> "error-ge64ulp-lt128ulp"]
ASSUME Decide3(10, 3, qi(0, 1), EE[1], EE[2]).v = "FAILS"
ASSUME Decide3(10, 3, qi(272, 100), qi(270, 100), qi(273, 100)).v = "UNDECIDED"
ASSUME Decide3(10, 3, qi(275, 100), qi(270, 100), qi(273, 100)).v = "FAILS"
ASSUME Decide3(10, 3, qi(2745, 1000), qi(2715, 1000), qi(2725, 1000)) = [v |-> "FAILS", cls |-> "error-ge2ulp-lt4ulp"]
\* the ulp changes inside the interval: only what holds for both candidates is claimed
ASSUME Decide3(10, 2, qi(1, 1), qi(99, 100), qi(101, 100)).v = "UNDECIDED"
ASSUME Decide3(10, 2, qi(1, 1), qi(9999, 10000), qi(10001, 10000)).v = "HOLDS"
ASSUME Decide3(10, 2, qi(12, 10), qi(9999, 10000), qi(10001, 10000)).v = "FAILS"
ASSUME Decide3(10, 2, qi(105, 100), qi(9999, 10000), qi(10001, 10000)).v = "UNDECIDED"
\* exact true values, zero, sign straddling, negative results
ASSUME Decide3(10, 2, qi(12, 100), qi(1, 8), qi(1, 8)).v = "HOLDS"
ASSUME Decide3(10, 2, qi(14, 100), qi(1, 8), qi(1, 8)) = [v |-> "FAILS", cls |-> "error-ge1ulp-lt2ulp"]
ASSUME Decide3(10, 2, qi(135, 1000), qi(1, 8), qi(1, 8)).v = "FAILS"        \* exactly one ulp is not "less than"
ASSUME Decide3(2, 4, qi(0, 1), qi(0, 1), qi(0, 1)).v = "HOLDS"
ASSUME Decide3(2, 4, qi(1, 1024), qi(0, 1), qi(0, 1)) = [v |-> "FAILS", cls |-> "nonzero-for-zero"]
ASSUME Decide3(2, 4, qi(0, 1), qi(-1, 1000), qi(1, 1000)).v = "UNDECIDED"
ASSUME Decide3(10, 3, qi(-272, 100), QNeg(EE[2]), QNeg(EE[1])).v = "HOLDS"
ASSUME Decide3(10, 3, qi(-273, 100), QNeg(EE[2]), QNeg(EE[1])) = [v |-> "FAILS", cls |-> "error-ge1ulp-lt2ulp"]
ASSUME Decide3(10, 3, qi(272, 100), QNeg(EE[2]), QNeg(EE[1])).v = "FAILS"
ASSUME PrintT("enclosure: decision ok")

ASSUME \A B \in {2, 3, 8, 10, 16, 36} : \A n \in 1..40 : \A d \in {1, 7, 1000, 46656} :
          FastFloorLog(B, qi(n, d)) = FloorLog(B, qi(n, d)) /\ FastFloorLog(B, qi(-n, d)) = FloorLog(B, qi(n, d))
ASSUME \A B \in {2, 3, 8, 10, 16, 36} : \A k \in -6..6 :
          /\ FastFloorLog(B, QPowBase(B, k)) = k
          /\ FastFloorLog(B, QSub(QPowBase(B, k), QPowBase(B, k - 30))) = k - 1
          /\ FastFloorLog(B, QAdd(QPowBase(B, k), QPowBase(B, k - 30))) = k
\* the arithmetic kernels restate BigNat: same values on patterned and pseudo-random operands
Lcg(i, salt) == ((((i + salt * 31) % 4093) * 1277 + 911 * (salt % 1000) + 13) % 4099) % 256
Pat(kind, n, salt) ==
  IF n = 0 THEN <<>> ELSE
  CASE kind = 0 -> [i \in 1..n |-> IF i = n THEN 1 + (Lcg(i, salt) % 255) ELSE Lcg(i, salt)]
    [] kind = 1 -> [i \in 1..n |-> 255]
    [] kind = 2 -> [i \in 1..n |-> IF i = n THEN 1 ELSE 0]
    [] kind = 3 -> [i \in 1..n |-> IF i = n THEN 255 ELSE IF i = n - 1 THEN 0 ELSE 255]
    [] kind = 4 -> [i \in 1..n |-> IF i = n THEN 1 ELSE IF i = 1 THEN 1 ELSE 0]
Lens == {0, 1, 2, 3, 5, 9, 17}
Operands == {Pat(kd, n, sl) : kd \in 0..4, n \in Lens, sl \in {1, 2}}
ASSUME \A a \in Operands, b \in Operands :
          /\ FAdd(a, b) = Add(a, b)
          /\ FMul(a, b) = Mul(a, b)
          /\ (b # <<>> => LET qr == FDivMod(a, b) IN
                            /\ qr = DivMod(a, b)
                            /\ Add(Mul(qr[1], b), qr[2]) = a /\ Cmp(qr[2], b) < 0 /\ IsNat(qr[1]) /\ IsNat(qr[2])
                            /\ FDivFloor(a, b) = qr[1]
                            /\ FDivCeil(a, b) = (IF qr[2] = <<>> THEN qr[1] ELSE Add(qr[1], One)))
ASSUME \A a \in Operands, k \in {0, 1, 2, 255, 256, 65537, 4194303} :
          /\ FMulSmall(a, k) = MulSmall(a, k)
          /\ (k # 0 => FDivModSmall(a, k) = DivModSmall(a, k) /\ NDivLo(a, k) = DivSmall(a, k)
                       /\ NDivHi(a, k) = (IF DivModSmall(a, k)[2] = 0 THEN DivSmall(a, k) ELSE Add(DivSmall(a, k), One)))
ASSUME \A a \in {Pat(kd, n, 1) : kd \in 0..4, n \in {0, 1, 2, 5}}, n \in {0, 1, 2, 3, 7, 16, 21} : FPow(a, n) = Pow(a, n)
ASSUME \A a \in Operands, k \in {0, 1, 7, 8, 9, 31} : FShl(a, k) = Shl(a, k)
ASSUME \A n1 \in {-7, 0, 3, 12345}, d1 \in {1, 7, 1000}, n2 \in {-5, 0, 2, 99999}, d2 \in {1, 7, 256} :
          LET p == qi(n1, d1) q == qi(n2, d2) IN
          /\ FQCmp(p, q) = QCmp(p, q)
          /\ QEq(FQAdd(p, q), QAdd(p, q)) /\ QEq(FQSub(p, q), QSub(p, q)) /\ QEq(FQMul(p, q), QMul(p, q))
          /\ QFxFloor(p, 2) = QFloor(QMulInt(p, IFromNative(65536))) /\ QFxCeil(p, 2) = QCeil(QMulInt(p, IFromNative(65536)))
ASSUME \A B \in {2, 3, 10, 36}, sg \in {-12345, 0, 7}, ex \in {-9, 0, 4} :
          QEq(FFVal(B, [sig |-> IFromNative(sg), exp |-> ex]), FVal(B, F(IFromNative(sg), ex)))
          /\ QEq(FQPowBase(B, ex), QPowBase(B, ex))
ASSUME PrintT("enclosure: kernels ok")
ASSUME FastFloorLog(10, QPowBase(10, 300)) = 300 /\ FastFloorLog(36, QPowBase(36, -250)) = -250
ASSUME QPowInt(qi(-3, 2), 3) = qi(-27, 8) /\ QEq(QPowInt(qi(-3, 2), -3), qi(-8, 27)) /\ QEq(QPowInt(qi(0, 1), 0), QOne)
ASSUME PrintT("enclosure: floorlog ok")
=============================================================================
