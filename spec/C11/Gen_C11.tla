------------------------------ MODULE Gen_C11 ------------------------------
(* Behaviour generator for C11: TLC enumerates the partition
      operation x argument family x sign x exponent class x base x precision (x mode)
   and prints one concrete case per state.  The families are the places where the algorithms of
   exp.rs / log.rs change branch or lose digits: B^-k (k up to 2p+3), 1 +- B^-k around and beyond
   the precision, neighbours of 0 and 1, small integers, magnitudes up to 200, p-digit significands;
   integer exponents of both signs, fractional exponents of both signs.  Every dispatch class of
   ExpLogAlg (argument class x exponent class, limited and unlimited precision) has a family here;
   checks/C11.py verifies that from the replayed events.
   `Thin` keeps one case in Thin (selected by a hash with the seed; one in Thin * ThinBig for the costly
   precisions above 12); the mode rotates with the same hash unless AllModes. *)
EXTENDS FloatDef, Json
CONSTANTS Bases, Precs, Seed, Thin, ThinBig, AllModes

Modes == <<"Zero", "Away", "Up", "Down", "HalfEven", "HalfAway">>
Ops == {"exp", "exp_m1", "ln", "ln_1p", "powi", "powf"}
Fams == {"zero", "one", "pow-neg", "one-plus", "one-minus", "near-zero", "near-one", "small-int", "large", "dense", "small-wide"}
FamNo(f) == CASE f = "zero" -> 1 [] f = "one" -> 2 [] f = "pow-neg" -> 3 [] f = "one-plus" -> 4 [] f = "one-minus" -> 5
              [] f = "near-zero" -> 6 [] f = "near-one" -> 7 [] f = "small-int" -> 8 [] f = "large" -> 9 [] f = "dense" -> 10
              [] f = "small-wide" -> 11
OpNo(o) == CASE o = "exp" -> 1 [] o = "exp_m1" -> 2 [] o = "ln" -> 3 [] o = "ln_1p" -> 4 [] o = "powi" -> 5 [] o = "powf" -> 6
NCls == {"le-2", "-1", "0", "1", "ge2"}
YCls == {"zero", "one", "int-pos", "int-neg", "frac-pos", "frac-neg", "frac-tiny"}
ENo(e) == CASE e = "-" -> 0 [] e = "le-2" -> 1 [] e = "-1" -> 2 [] e = "0" -> 3 [] e = "1" -> 4 [] e = "ge2" -> 5
            [] e = "zero" -> 6 [] e = "one" -> 7 [] e = "int-pos" -> 8 [] e = "int-neg" -> 9 [] e = "frac-pos" -> 10
            [] e = "frac-neg" -> 11 [] e = "frac-tiny" -> 12

\* the argument classes of one operation: [fam, sg (1 = negative), ec]
Shapes(o) ==
  CASE o \in {"exp", "exp_m1"} -> {[fam |-> f, sg |-> s, ec |-> "-"] : f \in Fams, s \in {0, 1}} \ {[fam |-> "zero", sg |-> 1, ec |-> "-"]}
    [] o = "ln" -> {[fam |-> f, sg |-> 0, ec |-> "-"] : f \in Fams \ {"zero"}}
    [] o = "ln_1p" -> {[fam |-> f, sg |-> 0, ec |-> "-"] : f \in Fams}
                      \cup {[fam |-> f, sg |-> 1, ec |-> "-"] : f \in {"pow-neg", "one-minus", "near-zero"}}
    [] o = "powi" -> {[fam |-> f, sg |-> s, ec |-> e] : f \in Fams \ {"near-one"}, s \in {0, 1}, e \in NCls}
                     \ ({[fam |-> "zero", sg |-> s, ec |-> e] : s \in {0, 1}, e \in {"le-2", "-1"}}
                        \cup {[fam |-> "zero", sg |-> 1, ec |-> e] : e \in NCls}
                        \cup {[fam |-> f, sg |-> 1, ec |-> e] : f \in {"pow-neg", "one-minus", "near-zero", "large"}, e \in NCls})
    [] o = "powf" -> {[fam |-> f, sg |-> 0, ec |-> e] : f \in Fams, e \in YCls}
                     \ {[fam |-> "zero", sg |-> 0, ec |-> e] : e \in {"int-neg", "frac-neg"}}

VARIABLES phase, op, sh, base, prec, mode
vars == <<phase, op, sh, base, prec, mode>>

Abs(z) == IF z < 0 THEN -z ELSE z
NPow(B, t) == FoldLeft(LAMBDA a, z : a * B, 1, Zeros(t))
Hash == OpNo(op) * 131 + FamNo(sh.fam) * 31 + sh.sg * 17 + ENo(sh.ec) * 7 + base * 13 + prec * 3 + Seed
Init == /\ phase = "pick" /\ op \in Ops /\ sh \in UNION {Shapes(o) : o \in Ops}
        /\ sh \in Shapes(op) /\ base = 0 /\ prec = 0 /\ mode = 0
Pick == /\ phase = "pick"
        /\ base' \in Bases /\ prec' \in Precs
        /\ mode' \in 1..6
        /\ phase' = "done"
        /\ UNCHANGED <<op, sh>>
Spec == Init /\ [][Pick]_vars

\* ------------------------------------------------------------------ concrete operands
PowB(B, j) == Pow(FromNat(B), j)
Pick1(seq, v) == seq[1 + (v % Len(seq))]
Lcg(i, salt) == ((((i + salt * 31) % 4093) * 1277 + 911 * (salt % 1000) + 13) % 4099)
\* p-digit magnitude with pseudo-random digits, leading digit non-zero
DenseMag(B, nd, salt) == FromRadix([i \in 1..nd |-> IF i = 1 THEN 1 + (Lcg(i, salt) % (B - 1)) ELSE Lcg(i, salt) % B], B)

\* magnitude [m, e] of the family member: value m * B^e
XMag(f, B, p, v) ==
  LET pp == Max2(p, 1) IN
  CASE f = "zero" -> [m |-> <<>>, e |-> 0]
    [] f = "one" -> [m |-> One, e |-> 0]
    [] f = "pow-neg" -> [m |-> One, e |-> -Pick1(<<1, 2, pp, pp + 1, 2 * pp + 3>>, v)]
    [] f = "one-plus" -> LET j == Pick1(<<1, Max2(1, pp - 1), pp, pp + 3>>, v) IN [m |-> Add(PowB(B, j), One), e |-> -j]
    [] f = "one-minus" -> LET j == Pick1(<<1, Max2(1, pp - 1), pp, pp + 3>>, v) IN [m |-> Sub(PowB(B, j), One), e |-> -j]
    [] f = "near-zero" -> [m |-> FromNat(B + 2), e |-> -Pick1(<<3, pp + 2, 2 * pp>>, v)]
    [] f = "near-one" -> LET j == Pick1(<<2, pp, pp + 2>>, v)
                             d == FromNat(Pick1(<<2, B - 1>>, v \div 3))
                         IN [m |-> IF (v \div 6) % 2 = 0 THEN Add(PowB(B, j), d) ELSE Sub(PowB(B, j), d), e |-> -j]
    [] f = "small-int" -> [m |-> FromNat(Pick1(<<2, 3, 5, 7, 10, 20>>, v)), e |-> 0]
    [] f = "large" -> LET w == Pick1(<<37, 100, 163, 200>>, v)
                      IN IF (v \div 4) % 2 = 0 THEN [m |-> FromNat(w), e |-> 0] ELSE [m |-> FromNat(w * B + 1), e |-> -1]
    [] f = "dense" -> LET nd == Min2(pp, 45) IN [m |-> DenseMag(B, nd, v + 7 * B), e |-> -nd + Pick1(<<-1, 0, 1>>, v)]
    \* more digits than the precision AND a magnitude below 1/B (the branch of exp_m1 / ln_1p without scaling): the rounding
    \* of the argument on entry must happen at the working precision, not at the target precision
    \* (dense digits, or 1000...01: just above a power of the base, where a directed rounding of the ARGUMENT to the target
    \* precision moves the result across that power)
    [] f = "small-wide" -> LET nd == Min2(2 * pp + 3, 48) IN
                           [m |-> IF (v \div 3) % 2 = 0 THEN DenseMag(B, nd, v + 5 * B) ELSE Add(PowB(B, nd - 1), One),
                            e |-> -nd - Pick1(<<1, 2, pp>>, v)]

\* integer exponent of powi, bounded so that the exact power stays below about 300 digits
NOf(ec, v, weight) ==
  LET cap == Max2(2, 300 \div Max2(1, weight)) IN
  CASE ec = "le-2" -> -Min2(Pick1(<<2, 3, 7, 31>>, v), cap)
    [] ec = "-1" -> -1
    [] ec = "0" -> 0
    [] ec = "1" -> 1
    [] ec = "ge2" -> Min2(Pick1(<<2, 3, 7, 10, 31, 64>>, v), cap)
    [] OTHER -> 0
\* exponent of powf as [s, m, e]; shifted down by digits t so that |y ln x| stays below about 250
YRaw(ec, B, v) ==
  CASE ec = "zero" -> [s |-> 0, m |-> 0, e |-> 0]
    [] ec = "one" -> [s |-> 0, m |-> 1, e |-> 0]
    [] ec = "int-pos" -> [s |-> 0, m |-> Pick1(<<2, 3, 5>>, v), e |-> 0]
    [] ec = "int-neg" -> [s |-> 1, m |-> Pick1(<<1, 2, 3>>, v), e |-> 0]
    [] ec = "frac-pos" -> [s |-> 0, m |-> Pick1(<<B + 1, 1, 2 * B * B + 1>>, v), e |-> -Pick1(<<1, 1, 2>>, v)]
    [] ec = "frac-neg" -> [s |-> 1, m |-> Pick1(<<B + 1, 1, 2 * B * B + 1>>, v), e |-> -Pick1(<<1, 1, 2>>, v)]
    [] ec = "frac-tiny" -> [s |-> 0, m |-> 3, e |-> -Pick1(<<2, 5>>, v)]
    [] OTHER -> [s |-> 0, m |-> 0, e |-> 0]
\* |ln x| is at most (|digits(x) + e| + 1) * ln 36 < 4 * (...); |y| < 8 * B^t' for the raw exponents
YShift(B, lnw) == FoldLeft(LAMBDA acc, t : IF acc >= 0 THEN acc ELSE IF 8 * 4 * lnw <= 250 * NPow(B, t) THEN t ELSE acc,
                           -1, <<0, 1, 2, 3, 4, 5, 6, 7, 8, 9, 10, 11, 12>>)

Case ==
  LET v == Hash \div 2
      xm == XMag(sh.fam, base, prec, v)
      xd == NDigits(base, xm.m)
      weight == IF Abs(xd + xm.e) > xd THEN Abs(xd + xm.e) ELSE xd
      yr == YRaw(sh.ec, base, v)
      lnw == Abs(xd + xm.e) + 1
      ysh == IF op = "powf" /\ yr.m # 0 /\ sh.ec \notin {"one"} THEN Max2(0, YShift(base, lnw)) ELSE 0
  IN [op |-> op, base |-> base, mode |-> Modes[mode], prec |-> prec,
      x |-> [sig |-> I(sh.sg, xm.m), exp |-> xm.e],
      y |-> [sig |-> I(yr.s, FromNat(yr.m)), exp |-> yr.e - ysh],
      n |-> IF op = "powi" THEN NOf(sh.ec, v, weight) ELSE 0,
      cls |-> op \o ":" \o sh.fam \o ":" \o (IF sh.sg = 1 THEN "neg" ELSE "pos") \o ":" \o sh.ec,
      src |-> "gen"]

Mix == Lcg(Hash, Seed)
\* unlimited precision (0) is never thinned: those cases are cheap and each one is a required class
Selected == /\ (prec = 0 \/ Mix % (IF prec > 12 THEN Thin * ThinBig ELSE Thin) = 0)
            /\ (AllModes \/ mode = 1 + ((Mix \div Thin) % 6))
Emit == (phase = "done" /\ Selected) => PrintT(<<"GEN", ToJson(Case)>>)
=============================================================================
