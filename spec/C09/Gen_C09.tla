------------------------------ MODULE Gen_C09 ------------------------------
(* Behaviour generator for C09: operation x type pair x magnitude class (0..4 words and a larger
   one) x bit pattern (all ones, powers of two, low words zero, alternating, dense) x sign, with bit
   positions / shift counts on and around every word boundary up to beyond the operand length. *)
EXTENDS IntPatterns, Json
CONSTANTS Classes, K, Seed

BinOps == {"and", "or", "xor"}
PosOps == {"shl", "shr", "bitn"}
UnOps == {"not", "query", "ones"}
Positions == <<0, 1, 63, 64, 65, 127, 128, 129, 191, 192, 193, 200, 256, 7, 320>>
TypePairs == << <<"U", "U">>, <<"I", "I">>, <<"U", "I">>, <<"I", "U">>, <<"I", "I">> >>

VARIABLES phase, op, ca, cb, k
vars == <<phase, op, ca, cb, k>>
Init == phase = "pick" /\ op \in BinOps \cup PosOps \cup UnOps /\ ca \in Classes /\ cb = 0 /\ k = 0
Pick == /\ phase = "pick" /\ phase' = "done"
        /\ cb' \in (IF op \in BinOps THEN Classes ELSE {0})
        /\ k' \in 1..(IF op \in PosOps \/ op = "ones" THEN Len(Positions) ELSE K)
        /\ UNCHANGED <<op, ca>>
Next == Pick
Spec == Init /\ [][Next]_vars

Salt == ca * 7 + cb * 3 + k * 11 + Seed
Case ==
  LET tp == IF op \in BinOps THEN TypePairs[1 + ((Salt + ca) % 5)]
            ELSE IF op = "not" THEN <<"I", "I">>
            ELSE IF (Salt \div 2) % 2 = 0 THEN <<"U", "U">> ELSE <<"I", "I">>
      pa == Patterns[1 + (Salt % NPat)]
      pb == Patterns[1 + ((Salt \div 2 + cb) % NPat)]
      sa == IF tp[1] = "U" THEN 0 ELSE (Salt \div 3) % 2
      sb == IF tp[2] = "U" THEN 0 ELSE (Salt \div 5) % 2
      A == I(sa, Mag(pa, ca, Salt))
      Bv == IF op \in BinOps THEN (IF ca = cb /\ Salt % 5 = 0 THEN I(sb, A.m) ELSE I(sb, Mag(pb, cb, Salt + 1))) ELSE IZero
      n == IF op \in PosOps \/ op = "ones" THEN Positions[k] ELSE 0
  IN [op |-> op, lt |-> tp[1], rt |-> tp[2], a |-> A, b |-> Bv, n |-> n]

Emit == phase = "done" => PrintT(<<"GEN", ToJson(Case)>>)
=============================================================================
