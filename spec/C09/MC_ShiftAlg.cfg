SPECIFICATION Spec
INVARIANTS ShlOK ShrOK
CONSTANTS
  W = 3
  MaxV = 4200
  MaxShift = 14
CHECK_DEADLOCK FALSE
