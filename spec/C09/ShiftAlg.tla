------------------------------ MODULE ShiftAlg ------------------------------
(* Algorithm layer of C09 for << and >> on magnitudes: integer/src/shift_ops.rs (mod repr) at word
   level, over a word of W bits.  A magnitude is Small (inline double word) or Large (>= 3 words).

     shl_dword          : fits in the double word / shl_one_spilled / shl_dword_spilled (math::shl_dword)
     shl_large(_ref)    : word shift + shl_in_place + carry word
     shr_dword          : `rhs < DWORD_BITS` else zero
     shr_large          : erase_front + shr_in_place
     shr_large_ref      : slice off whole words, then the 0 / 1 / 2 / >= 3 remaining-words arms
     Repr::from_buffer  : normalisation back to Small when at most two words remain

   TLC checks for all magnitudes below MaxV and all shift counts up to MaxShift (beyond the operand
   length and on every word boundary) that both ownership variants return x * 2^n resp. floor(x / 2^n)
   in canonical form. *)
EXTENDS Integers, Sequences, TLC
CONSTANTS W, MaxV, MaxShift,
          ShrDwordStrict    \* TRUE: shr_dword tests `rhs < DWORD_BITS` (read from the source); FALSE models `<=`

Beta == 2^W
DW == Beta * Beta
RECURSIVE WordsOf(_)
WordsOf(v) == IF v = 0 THEN <<>> ELSE <<v % Beta>> \o WordsOf(v \div Beta)
RECURSIVE ValOf(_)
ValOf(ws) == IF ws = <<>> THEN 0 ELSE ws[1] + Beta * ValOf(Tail(ws))
Small(v) == [t |-> "S", v |-> v]
Large(ws) == [t |-> "L", ws |-> ws]
Typed(v) == IF v < DW THEN Small(v) ELSE Large(WordsOf(v))
Value(r) == IF r.t = "X" THEN -1 ELSE IF r.t = "S" THEN r.v ELSE ValOf(r.ws)
RECURSIVE PopZeros(_)
PopZeros(ws) == IF ws # <<>> /\ ws[Len(ws)] = 0 THEN PopZeros(SubSeq(ws, 1, Len(ws) - 1)) ELSE ws
FromBuffer(ws) == LET n == PopZeros(ws) IN IF Len(n) <= 2 THEN Small(ValOf(n)) ELSE Large(n)
Canonical(r) == (r.t = "S" /\ r.v < DW) \/ (r.t = "L" /\ Len(r.ws) >= 3 /\ r.ws[Len(r.ws)] # 0 /\ \A i \in 1..Len(r.ws) : r.ws[i] \in 0..(Beta - 1))
Zeros(n) == [i \in 1..n |-> 0]
LeadingZerosDw(v) == CHOOSE z \in 0..(2 * W) : (z = 2 * W /\ v = 0) \/ (z < 2 * W /\ v >= 2^(2 * W - 1 - z) /\ v < 2^(2 * W - z))

\* shift helpers (as in DivWordAlg)
RECURSIVE ShlInPlace(_, _, _)
ShlInPlace(ws, sh, carry) ==
  IF ws = <<>> THEN <<(<<>>), carry>>
  ELSE LET t == ws[1] * 2^sh  r == ShlInPlace(Tail(ws), sh, t \div Beta) IN <<(<<(t % Beta) + carry>> \o r[1]), r[2]>>
Shl(ws, sh) == IF sh = 0 THEN <<ws, 0>> ELSE ShlInPlace(ws, sh, 0)
RECURSIVE Rev(_)
Rev(s) == IF s = <<>> THEN <<>> ELSE Rev(Tail(s)) \o <<s[1]>>
RECURSIVE ShrFromTop(_, _, _)
ShrFromTop(ws, sh, carry) ==
  IF ws = <<>> THEN <<>>
  ELSE <<(ws[1] \div 2^sh) + carry>> \o ShrFromTop(Tail(ws), sh, (ws[1] * 2^(W - sh)) % Beta)
ShrWords(ws, sh) == IF sh = 0 THEN ws ELSE Rev(ShrFromTop(Rev(ws), sh, 0))

\* ---- shl ----
ShlDwordSpilled(dword, rhs) ==          \* math::shl_dword gives (n0, n1, n2) = dword << shift_bits
  LET sw == rhs \div W  sb == rhs % W  t == dword * 2^sb
  IN FromBuffer(Zeros(sw) \o <<t % Beta, (t \div Beta) % Beta, t \div DW>>)
ShlOneSpilled(rhs) == FromBuffer(Zeros(rhs \div W) \o <<2^(rhs % W)>>)
ShlDword(dword, rhs) ==
  IF rhs <= LeadingZerosDw(dword) THEN Small(dword * 2^rhs)
  ELSE IF dword = 1 THEN ShlOneSpilled(rhs)
  ELSE ShlDwordSpilled(dword, rhs)
ShlLargeRef(ws, rhs) ==
  LET sw == rhs \div W  s == Shl(ws, rhs % W) IN FromBuffer(Zeros(sw) \o s[1] \o <<s[2]>>)
\* the owned variant shifts inside its buffer when the capacity allows, else falls back to the ref variant:
\* both produce the same words, in a different order of steps (carry pushed first, zero words inserted in front)
ShlLargeOwned(ws, rhs) ==
  LET s == Shl(ws, rhs % W) IN FromBuffer(Zeros(rhs \div W) \o (s[1] \o <<s[2]>>))
ShlAlg(x, rhs, owned) ==
  IF x.t = "S" THEN (IF x.v = 0 THEN Small(0) ELSE ShlDword(x.v, rhs))
  ELSE IF owned THEN ShlLargeOwned(x.ws, rhs) ELSE ShlLargeRef(x.ws, rhs)

\* ---- shr ----
\* a native shift by the full width is an overflow in Rust (panic with overflow checks, wrapped shift amount without)
Overflow == [t |-> "X"]
ShrDword(dword, rhs) == IF rhs < 2 * W THEN Small(dword \div 2^rhs)
                        ELSE IF ~ShrDwordStrict /\ rhs = 2 * W THEN Overflow
                        ELSE Small(0)
ShrLargeOwned(ws, rhs) ==
  LET sw == rhs \div W IN
  IF sw >= Len(ws) THEN Small(0)
  ELSE FromBuffer(ShrWords(SubSeq(ws, sw + 1, Len(ws)), rhs % W))
ShrLargeRef(ws, rhs) ==
  LET sw == rhs \div W  sb == rhs % W
      rest == SubSeq(ws, (IF sw < Len(ws) THEN sw ELSE Len(ws)) + 1, Len(ws))
  IN CASE Len(rest) = 0 -> Small(0)
       [] Len(rest) = 1 -> Small(rest[1] \div 2^sb)
       [] Len(rest) = 2 -> Small((rest[1] + Beta * rest[2]) \div 2^sb)
       [] OTHER -> FromBuffer(ShrWords(rest, sb))
ShrAlg(x, rhs, owned) ==
  IF x.t = "S" THEN ShrDword(x.v, rhs)
  ELSE IF owned THEN ShrLargeOwned(x.ws, rhs) ELSE ShrLargeRef(x.ws, rhs)

VARIABLES x, n, phase
vars == <<x, n, phase>>
Init == phase = "pick" /\ x \in 0..MaxV /\ n = 0
Pick == phase = "pick" /\ phase' = "done" /\ n' \in 0..MaxShift /\ UNCHANGED x
Next == Pick
Spec == Init /\ [][Next]_vars
ShlOK == phase = "done" => \A owned \in BOOLEAN :
  LET r == ShlAlg(Typed(x), n, owned) IN Value(r) = x * 2^n /\ Canonical(r)
ShrOK == phase = "done" => \A owned \in BOOLEAN :
  LET r == ShrAlg(Typed(x), n, owned) IN Value(r) = x \div 2^n /\ Canonical(r)
=============================================================================
