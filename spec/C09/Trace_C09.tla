----------------------------- MODULE Trace_C09 -----------------------------
(* Trace monitor for C09 (and the C15 form inventory of the bit operators). *)
EXTENDS BitsDef, Json, IOUtils
Rec == ndJsonDeserialize(IOEnv.TRACE)

ValOK(o, exp) == o.k = "ok" /\ IsInt(o.v) /\ IEq(o.v, exp)
FormsWhy(e, exp) ==
  LET badg == {i \in 1..Len(e.outs) : ~ValOK(e.outs[i].out, exp)}
  IN IF badg = {} THEN ""
     ELSE IF \E i \in badg : e.outs[i].out.k = "panic" THEN "unexpected-panic"
     ELSE IF Len(e.outs) > 1 THEN "forms-disagree-with-definition" ELSE "wrong-value"

QueryWhy(e) ==
  LET r == e.res.v  a == e.a IN
  IF e.res.k # "ok" THEN "unexpected-panic"
  ELSE IF r.bit_len # BitLenDef(a) THEN "bit_len"
  ELSE IF r.tz # TrailingZerosDef(a) THEN "trailing_zeros"
  ELSE IF r.to # TrailingOnesDef(a) THEN "trailing_ones"
  ELSE IF e.lt = "U" /\ r.count_ones # CountOnesDef(a) THEN "count_ones"
  ELSE IF e.lt = "U" /\ r.count_zeros # CountZerosDef(a) THEN "count_zeros"
  ELSE IF e.lt = "U" /\ r.pow2 # IsPow2Def(a) THEN "is_power_of_two"
  ELSE IF e.lt = "U" /\ ~IEq(r.npow2, NextPow2Def(a)) THEN "next_power_of_two"
  ELSE ""
BitnWhy(e) ==
  LET r == e.res.v  a == e.a  n == e.n IN
  IF e.res.k # "ok" THEN "unexpected-panic"
  ELSE IF r.bit # BitDef(a, n) THEN "bit"
  ELSE IF e.lt = "I" THEN ""
  ELSE IF ~IEq(r.set, SetBitDef(a, n)) THEN "set_bit"
  ELSE IF ~IEq(r.clear, ClearBitDef(a, n)) THEN "clear_bit"
  ELSE IF ~IEq(r.lo, LowDef(a, n)) \/ ~IEq(r.hi, HighDef(a, n)) THEN "split_bits"
  ELSE IF ~IEq(r.chb, LowDef(a, n)) THEN "clear_high_bits"
  ELSE ""

Why(e) ==
  IF ~(IsInt(e.a) /\ IsInt(e.b)) THEN "malformed-operand"
  ELSE CASE e.op \in {"and", "or", "xor"} -> FormsWhy(e, BinResult(e.op, e.a, e.b))
         [] e.op \in {"shl", "shr"} -> FormsWhy(e, ShiftResult(e.op, e.a, e.n))
         [] e.op = "not" -> FormsWhy(e, INot(e.a))
         [] e.op = "query" -> QueryWhy(e)
         [] e.op = "bitn" -> BitnWhy(e)
         [] e.op = "ones" -> IF ValOK(e.res, OnesDef(e.n)) THEN "" ELSE "ones"

VARIABLES l, bad
Init == l = 1 /\ bad = <<>>
\* (a LET directly inside an action is re-evaluated by TLC at every reference; inside an operator it is cached)
Step(b, i) == LET w == Why(Rec[i]) IN IF w = "" THEN b ELSE Append(b, [i |-> i, why |-> w])
Next == /\ l <= Len(Rec)
        /\ bad' = Step(bad, l)
        /\ l' = l + 1
Spec == Init /\ [][Next]_<<l, bad>>
Verdict == l > Len(Rec) => PrintT(<<"VERDICT", ToJson([total |-> Len(Rec), bad |-> bad])>>)
Complete == IF TLCGet("stats").diameter - 1 = Len(Rec) THEN TRUE
            ELSE PrintT(<<"TRUNCATED", TLCGet("stats").diameter>>) /\ FALSE
=============================================================================
