------------------------------- MODULE BitsDef -------------------------------
(* Definition layer of C09: integers as infinite two's-complement bit strings.
   Binary operations are digit-wise on sign-extended windows (BigInt!IAnd/IOr/IXor), shifts are
   multiplication / floor division by 2^n, queries are stated on the bit string. *)
EXTENDS BigInt

BinResult(op, a, b) ==
  CASE op = "and" -> IAnd(a, b)
    [] op = "or"  -> IOr(a, b)
    [] op = "xor" -> IXor(a, b)
ShiftResult(op, a, n) == IF op = "shl" THEN IShl(a, n) ELSE IShrFloor(a, n)

\* Option<usize> is sent as -1 for None
BitLenDef(a) == BitLen(a.m)                                  \* documented: of the magnitude
CountOnesDef(a) == CountOnes(a.m)                            \* UBig only
CountZerosDef(a) == IF a.m = <<>> THEN -1 ELSE BitLen(a.m) - CountOnes(a.m)
TrailingZerosDef(a) == IF a.m = <<>> THEN -1 ELSE TrailingZeros(a.m)   \* same bit string low part for -x
\* trailing ones of x are the trailing zeros of ~x = -x - 1; all ones (x = -1) has no end
TrailingOnesDef(a) == LET na == INot(a) IN IF na.m = <<>> THEN -1 ELSE TrailingZeros(na.m)
IsPow2Def(a) == a.s = 0 /\ CountOnes(a.m) = 1
NextPow2Def(a) == IF a.m = <<>> THEN IOne
                  ELSE IF CountOnes(a.m) = 1 THEN a ELSE I(0, PowerOfTwo(BitLen(a.m)))
BitDef(a, n) == IBit(a, n) = 1
SetBitDef(a, n) == IOr(a, I(0, PowerOfTwo(n)))
ClearBitDef(a, n) == IAnd(a, INot(I(0, PowerOfTwo(n))))
LowDef(a, n) == I(0, LowBits(a.m, n))                         \* UBig: a mod 2^n
HighDef(a, n) == I(0, Shr(a.m, n))
OnesDef(n) == I(0, Sub(PowerOfTwo(n), One))
=============================================================================
