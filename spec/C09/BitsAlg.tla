------------------------------ MODULE BitsAlg ------------------------------
(* Algorithm layer of C09: the sign-case tables of integer/src/bits.rs (impl_ibig_bitand / bitor /
   bitxor, the mixed UBig/IBig AND, Not) and the floor correction of `IBig >> n` in shift_ops.rs
   with are_low_bits_nonzero in its double-word and slice variants, over a word of W bits
   ("dword" = 2W bits is the inline representation).  Checked against infinite two's-complement
   definitions for all |x|, |y| <= MaxV and shifts up to MaxShift. *)
EXTENDS Integers, Bitwise, FiniteSetsExt, TLC
CONSTANTS W, MaxV, MaxShift, Win,
          LowCap      \* bits examined by are_dword_low_bits_nonzero: 2 * W in the code (W before the F19 repair)

Abs(x) == IF x < 0 THEN -x ELSE x
Pow2(n) == 2^n
\* ---- definition: bit i of x is floor(x / 2^i) mod 2; operations bit by bit on a window of Win bits
BitOf(x, i) == (x \div Pow2(i)) % 2
DefOp(op(_, _), x, y) ==
  LET v == FoldSet(LAMBDA i, acc : acc + op(BitOf(x, i), BitOf(y, i)) * Pow2(i), 0, 0..(Win - 1))
      s == op(IF x < 0 THEN 1 ELSE 0, IF y < 0 THEN 1 ELSE 0)
  IN IF s = 1 THEN v - Pow2(Win) ELSE v
AndB(p, q) == p * q
OrB(p, q) == IF p + q > 0 THEN 1 ELSE 0
XorB(p, q) == (p + q) % 2
DefAnd(x, y) == DefOp(AndB, x, y)
DefOr(x, y) == DefOp(OrB, x, y)
DefXor(x, y) == DefOp(XorB, x, y)
DefNot(x) == -x - 1
DefShr(x, n) == x \div Pow2(n)

\* ---- algorithm layer (unsigned primitives on magnitudes) ----
UAndNot(p, q) == p - (p & q)
Neg(x) == x < 0
NotI(x) == IF x >= 0 THEN -(x + 1) ELSE Abs(x) - 1                \* impl Not for IBig
AlgAnd(x, y) ==                                                    \* impl_ibig_bitand
  LET m0 == Abs(x) m1 == Abs(y) IN
  CASE ~Neg(x) /\ ~Neg(y) -> m0 & m1
    [] ~Neg(x) /\ Neg(y)  -> UAndNot(m0, m1 - 1)
    [] Neg(x) /\ ~Neg(y)  -> UAndNot(m1, m0 - 1)
    [] OTHER -> NotI((m0 - 1) | (m1 - 1))
AlgOr(x, y) ==                                                     \* impl_ibig_bitor
  LET m0 == Abs(x) m1 == Abs(y) IN
  CASE ~Neg(x) /\ ~Neg(y) -> m0 | m1
    [] ~Neg(x) /\ Neg(y)  -> NotI(UAndNot(m1 - 1, m0))
    [] Neg(x) /\ ~Neg(y)  -> NotI(UAndNot(m0 - 1, m1))
    [] OTHER -> NotI((m0 - 1) & (m1 - 1))
AlgXor(x, y) ==                                                    \* impl_ibig_bitxor
  LET m0 == Abs(x) m1 == Abs(y) IN
  CASE ~Neg(x) /\ ~Neg(y) -> m0 ^^ m1
    [] ~Neg(x) /\ Neg(y)  -> NotI(m0 ^^ (m1 - 1))
    [] Neg(x) /\ ~Neg(y)  -> NotI((m0 - 1) ^^ m1)
    [] OTHER -> (m0 - 1) ^^ (m1 - 1)
\* IBig::bit: for negative x uses the trailing zeros z of the magnitude
Tz(m) == CHOOSE z \in 0..31 : m % Pow2(z) = 0 /\ m % Pow2(z + 1) # 0
AlgBit(x, n) ==
  IF x >= 0 THEN BitOf(x, n) = 1
  ELSE LET z == Tz(Abs(x)) IN IF n = z THEN TRUE ELSE IF n > z THEN BitOf(Abs(x), n) = 0 ELSE FALSE
\* Shr for IBig: magnitude >> n, minus one if any shifted-out bit is set
Small(m) == m < Pow2(2 * W)
Words(m) == CHOOSE l \in 1..16 : Pow2(W * (l - 1)) <= m /\ m < Pow2(W * l)
LowBitsNonzeroDword(m, n) ==           \* are_dword_low_bits_nonzero: n.min(LowCap)
  LET k == IF n < LowCap THEN n ELSE LowCap IN m % Pow2(k) # 0
LowBitsNonzeroSlice(m, n) ==           \* are_slice_low_bits_nonzero: true if n reaches beyond the words
  IF n \div W >= Words(m) THEN TRUE ELSE m % Pow2(n) # 0
AlgShr(x, n) ==
  IF x >= 0 THEN x \div Pow2(n)
  ELSE LET m == Abs(x)
           nz == IF Small(m) THEN LowBitsNonzeroDword(m, n) ELSE LowBitsNonzeroSlice(m, n)
       IN -(m \div Pow2(n)) - (IF nz THEN 1 ELSE 0)

VARIABLES x, y, n, phase
vars == <<x, y, n, phase>>
Init == phase = "pick" /\ x \in -MaxV..MaxV /\ y = 0 /\ n = 0
PickPair == phase = "pick" /\ phase' = "pair" /\ y' \in -MaxV..MaxV /\ UNCHANGED <<x, n>>
PickShift == phase = "pick" /\ phase' = "shift" /\ n' \in 0..MaxShift /\ UNCHANGED <<x, y>>
Next == PickPair \/ PickShift
Spec == Init /\ [][Next]_vars
AndOK == phase = "pair" => AlgAnd(x, y) = DefAnd(x, y)
OrOK  == phase = "pair" => AlgOr(x, y) = DefOr(x, y)
XorOK == phase = "pair" => AlgXor(x, y) = DefXor(x, y)
NotOK == phase = "pick" => NotI(x) = DefNot(x)
ShrOK == phase = "shift" => AlgShr(x, n) = DefShr(x, n)
BitOK == phase = "shift" => AlgBit(x, n) = (BitOf(x, n) = 1)
=============================================================================
