SPECIFICATION Spec
INVARIANTS AndOK OrOK XorOK NotOK ShrOK BitOK
CONSTANTS
  W = 3
  MaxV = 300
  MaxShift = 12
  Win = 12
  LowCap = 3
CHECK_DEADLOCK FALSE
