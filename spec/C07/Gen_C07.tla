------------------------------ MODULE Gen_C07 ------------------------------
(***************************************************************************)
(* Behaviour generator for C07.  TLC enumerates the partition               *)
(*   layout   value x formatting trait x every flag combination x widths    *)
(*   text     radix x digit-count class x digit pattern   (parse, then      *)
(*            print the result back: chain)                                  *)
(*   value    radix x word-count class x bit pattern      (print, then      *)
(*            parse the text back: chain)                                    *)
(*   grammar  radix x parse function x sign x one-edit mutations of a       *)
(*            derivation of the literal grammar                              *)
(*   bytes    +-(256^k-1), +-256^k, +-(256^k/2), +-(256^k/2 +- 1), k=1..25  *)
(*   chunks   chunk_bits x word count x pattern                             *)
(* and prints one case per state.  The digit-count classes sit on both      *)
(* sides of the thresholds of the converters (64-bit words):                *)
(*   parse/non_power_two.rs  <= dpw digits: parse_word; <= 256*dpw:         *)
(*       parse_chunk; above: divide and conquer with radix^(256*dpw << i)   *)
(*   fmt/non_power_two.rs    1 word, 2 words, <= 16*dpw digits (medium),    *)
(*       above: top chunk + radix^(16*dpw << i) chunks                       *)
(*   power-of-two radices    <= 64/log2(r) digits one word, above bit-packed *)
(* where dpw(r) = digits_per_word of radix.rs.                              *)
(***************************************************************************)
EXTENDS IntPatterns, TextDef, Json
CONSTANTS Radices,      \* set of radices for the text / value classes
          Thorough,     \* BOOLEAN
          Seed

\* digits_per_word for radix 2..36 on 64-bit words (power-of-two radices: 64 / log2 r)
Dpw == <<64, 40, 32, 27, 24, 22, 21, 20, 19, 18, 17, 17, 16, 16, 16, 15, 15, 15, 14, 14, 14, 14, 13, 13, 13, 13, 13, 13,
         13, 12, 12, 12, 12, 12, 12>>
RadSeq == SelectSeq([t \in 1..35 |-> t + 1], LAMBDA r : r \in Radices)
Classes == {"layout", "text", "value", "grammar", "bytes", "chunks", "sweep", "biglayout"}

\* ------------------------------------------------------------------ layout
LVals == << I(0, <<>>), I(0, <<7>>), I(1, <<7>>), I(0, <<184, 11>>), I(1, <<184, 11>>),
            I(0, <<21, 205, 91, 7, 0, 0, 0, 0, 64>>), I(1, <<21, 205, 91, 7, 0, 0, 0, 0, 64>>) >>
LKinds == << <<"display", 10>>, <<"binary", 2>>, <<"octal", 8>>, <<"lhex", 16>>, <<"uhex", 16>>,
             <<"inradix", 3>>, <<"inradix", 16>>, <<"inradix", 36>>, <<"inradix", 10>> >>
LWidths == IF Thorough THEN <<-1, 0, 1, 2, 3, 4, 5, 6, 9, 12, 17, 25, 33>> ELSE <<-1, 0, 4, 9, 17>>
Fills == << <<32>>, <<42>>, <<48>>, <<195, 169>> >>
Aligns == <<"n", "l", "c", "r">>
LayoutCase(i, j, k) ==
  LET f == (k - 1) % 32
      wi == (k - 1) \div 32
      al == Aligns[(f % 4) + 1]
      v == LVals[i]
  IN [op |-> "fmt", ty |-> IF v.s = 1 \/ (i + j) % 2 = 0 THEN "I" ELSE "U", v |-> v,
      kind |-> LKinds[j][1], radix |-> LKinds[j][2],
      w |-> LWidths[wi + 1], fill |-> IF al = "n" THEN <<32>> ELSE Fills[((i + j + wi) % 4) + 1], align |-> al,
      plus |-> (f \div 4) % 2 = 1, alt |-> (f \div 8) % 2 = 1, zero |-> (f \div 16) % 2 = 1, chain |-> ""]

\* ------------------------------------------------------------------ text
LenClasses(r) ==
  LET d == Dpw[r - 1] IN
  <<1, d - 1, d, d + 1, 2 * d, 2 * d + 1, 16 * d - 1, 16 * d, 16 * d + 1, 40 * d + 3, 256 * d, 256 * d + 1, 768 * d + 5>>
  \o (IF Thorough THEN <<255 * d + 1, 512 * d, 512 * d + 1, 1024 * d + 1>> ELSE <<>>)
NLen == IF Thorough THEN 17 ELSE 13
\* digit value t of an n-digit numeral, by pattern
DigitAt(p, n, r, t, salt) ==
  IF p = 2 THEN r - 1
  ELSE IF p = 3 THEN (IF t = 1 \/ t = n THEN 1 ELSE 0)
  ELSE IF t = 1 THEN 1 + (Lcg8(t, salt) % (r - 1)) ELSE Lcg8(t, salt) % r
TextCase(i, j, k) ==
  LET r == RadSeq[i]
      n == LenClasses(r)[j]
      salt == Seed + 7 * i + 13 * j + k
      upper(t) == IF k = 2 THEN TRUE ELSE IF k = 4 THEN (t % 3 = 0) ELSE FALSE
      ch(t) == DigitChar(DigitAt(k, n, r, t, salt), upper(t))
      plain == [t \in 1..n |-> ch(t)]
      \* pattern 3: a '_' after every 7 digits (never at the end)
      under == [q \in 1..(n + ((n - 1) \div 7)) |-> IF q % 8 = 0 THEN CUnder ELSE ch(q - (q \div 8))]
      text == IF k = 3 THEN under ELSE IF k = 4 THEN <<CMinus, 48, 48>> \o plain ELSE IF k = 2 THEN <<CPlus>> \o plain ELSE plain
  IN [op |-> "parse", ty |-> IF k = 4 \/ j % 2 = 0 THEN "I" ELSE "U", fn |-> IF r = 10 /\ k = 1 THEN "str" ELSE "radix",
      radix |-> r, text |-> text, chain |-> "radix"]

\* ------------------------------------------------------------------ value
WordClasses == IF Thorough THEN <<1, 2, 3, 4, 15, 16, 17, 31, 32, 33, 255, 256, 257, 511, 513>> ELSE <<1, 2, 3, 15, 16, 17, 255, 256, 257>>
VPats == <<"ones", "pow2", "dense", "lowzero">>
ValueCase(i, j, k) ==
  LET r == RadSeq[i]
      nw == WordClasses[j]
      v == I((i + j + k) % 2, Mag(VPats[k], nw, Seed + i + 3 * j))
      std == r \in {2, 8, 16} /\ k = 2
      kind == IF ~std THEN "inradix" ELSE IF r = 2 THEN "binary" ELSE IF r = 8 THEN "octal" ELSE "lhex"
  IN [op |-> "fmt", ty |-> IF v.s = 1 THEN "I" ELSE "U", v |-> v, kind |-> kind, radix |-> r,
      w |-> -1, fill |-> <<32>>, align |-> "n", plus |-> FALSE, alt |-> std \/ (k = 3), zero |-> FALSE,
      chain |-> IF std THEN "prefix" ELSE "radix"]

\* ------------------------------------------------------------------ grammar
GRadix == <<2, 8, 10, 16, 36, 7>>
GFns == <<"radix", "str", "prefix", "default">>
NMut == 34
Signs == << <<>>, <<CPlus>>, <<CMinus>> >>
\* a character that is not a digit of radix r: the digit r itself, or '@' for radix 36
BadDigit(r) == IF r < 36 THEN DigitChar(r, FALSE) ELSE 64
Ins(s, pos, x) == SubSeq(s, 1, pos) \o x \o SubSeq(s, pos + 1, Len(s))
GrammarCase(i, j, k) ==
  LET r == GRadix[i]
      fn == IF GFns[j] = "str" /\ r # 10 THEN "radix" ELSE GFns[j]
      m == ((k - 1) % NMut) + 1
      sign == Signs[(((k - 1) \div NMut) % 3) + 1]
      ty == IF ((k - 1) \div (3 * NMut)) % 2 = 0 THEN "I" ELSE "U"
      usepfx == fn \in {"prefix", "default"} /\ r \in {2, 8, 16}
      prefix == IF ~usepfx THEN <<>> ELSE IF r = 2 THEN <<48, 98>> ELSE IF r = 8 THEN <<48, 111>> ELSE <<48, 120>>
      rr == IF fn = "prefix" /\ ~usepfx THEN 10 ELSE r                       \* radix of the digits written
      ds == <<1, 0, rr - 1, rr \div 2, 1, rr - 1>>
      body == DigitChars(ds, FALSE)
      mid == 3
      bd == <<BadDigit(rr)>>
      pfx0 == IF prefix = <<>> THEN <<48, 120>> ELSE prefix
      text ==
        CASE m = 1 -> sign \o prefix \o body
          [] m = 2 -> sign \o prefix \o bd \o body
          [] m = 3 -> sign \o prefix \o Ins(body, mid, bd)
          [] m = 4 -> sign \o prefix \o body \o bd
          [] m = 5 -> (IF sign = <<>> THEN <<CPlus, CPlus>> ELSE sign \o sign) \o prefix \o body
          [] m = 6 -> <<CPlus, CMinus>> \o prefix \o body
          [] m = 7 -> <<CMinus, CPlus>> \o prefix \o body
          [] m = 8 -> sign \o (IF prefix = <<>> THEN Ins(body, 1, <<CMinus>>) ELSE prefix \o <<CMinus>> \o body)
          [] m = 9 -> sign \o body \o pfx0
          [] m = 10 -> sign \o <<pfx0[2]>> \o body
          [] m = 11 -> sign \o <<48>> \o pfx0 \o body
          [] m = 12 -> sign \o pfx0
          [] m = 13 -> sign \o prefix \o Ins(body, mid, <<195, 169>>)
          [] m = 14 -> sign \o prefix \o <<239, 188, 145>> \o Rest(body, 1)
          [] m = 15 -> sign \o prefix \o body \o <<217, 163>>
          [] m = 16 -> <<>>
          [] m = 17 -> sign
          [] m = 18 -> sign \o prefix \o <<CUnder>>
          [] m = 19 -> sign \o prefix \o <<CUnder, CUnder>>
          [] m = 20 -> sign \o prefix \o <<CUnder>> \o body
          [] m = 21 -> sign \o prefix \o body \o <<CUnder>>
          [] m = 22 -> sign \o prefix \o Ins(body, mid, <<CUnder, CUnder>>)
          [] m = 23 -> sign \o prefix \o Ins(body, mid, <<CUnder>>)
          [] m = 24 -> <<32>> \o sign \o prefix \o body
          [] m = 25 -> sign \o prefix \o body \o <<32>>
          [] m = 26 -> sign \o prefix \o body \o <<10>>
          [] m = 27 -> sign \o <<48, 88>> \o body
          [] m = 28 -> sign \o prefix \o DigitChars(ds, TRUE)
          [] m = 29 -> sign \o prefix \o [t \in 1..Len(ds) |-> DigitChar(ds[t], t % 2 = 0)]
          [] m = 30 -> sign \o prefix \o <<48, 48, 48>> \o body
          [] m = 31 -> sign \o prefix \o Ins(body, mid, <<0>>)
          [] m = 32 -> sign \o prefix \o Ins(body, mid, <<46>>)
          [] m = 33 -> sign \o prefix \o body \o <<101, 53>>
          [] m = 34 -> sign \o prefix \o body \o <<CMinus>>
  IN [op |-> "parse", ty |-> ty, fn |-> fn, radix |-> IF fn \in {"str", "prefix"} THEN 10 ELSE r, text |-> text, chain |-> ""]

\* ------------------------------------------------------------------ bytes
\* 256^n as a magnitude
P256(n) == ShlBytes(One, n)
ByteMag(n, j) ==
  CASE j = 1 -> Sub(P256(n), One)
    [] j = 2 -> P256(n)
    [] j = 3 -> Zeros(n - 1) \o <<128>>
    [] j = 4 -> Add(Zeros(n - 1) \o <<128>>, One)
    [] j = 5 -> Sub(Zeros(n - 1) \o <<128>>, One)
BytesCase(i, j, k) ==
  LET m == ByteMag(i, j)
      neg == I(1, m)
      pos == I(0, m)
  IN CASE k = 1 -> [op |-> "to_bytes", ty |-> "I", v |-> pos]
       [] k = 2 -> [op |-> "to_bytes", ty |-> "I", v |-> neg]
       [] k = 3 -> [op |-> "to_bytes", ty |-> "U", v |-> pos]
       \* two's complement images of -m and +m on windows wide enough for them, either byte order
       [] k = 4 -> [op |-> "from_bytes", ty |-> "I", endian |-> "le", bytes |-> TwosWindow(neg, Len(m) + 1)]
       [] k = 5 -> [op |-> "from_bytes", ty |-> "I", endian |-> "be", bytes |-> Reverse8(TwosWindow(neg, Len(m) + 2))]
       [] k = 6 -> [op |-> "from_bytes", ty |-> "I", endian |-> "be", bytes |-> Reverse8(TwosWindow(pos, Len(m) + 1))]
       \* the raw magnitude bytes read as signed (top bit decides) and as unsigned
       [] k = 7 -> [op |-> "from_bytes", ty |-> "I", endian |-> "le", bytes |-> m]
       [] k = 8 -> [op |-> "from_bytes", ty |-> "U", endian |-> IF j % 2 = 0 THEN "le" ELSE "be", bytes |-> m \o <<0>>]

\* ------------------------------------------------------------------ chunks
ChunkBits == <<1, 7, 63, 64, 65, 128, 129>>
CPats == <<"ones", "dense", "pow2p1">>
ChunksCase(i, j, k) ==
  LET cb == ChunkBits[i] IN
  IF k <= 3 THEN [op |-> "to_chunks", v |-> I(0, Mag(CPats[k], j, Seed + i + j)), cb |-> cb]
  ELSE \* chunks wider than chunk_bits overlap and must be added up
       [op |-> "from_chunks", cb |-> cb,
        chunks |-> [t \in 1..j |-> I(0, Mag(IF t % 2 = 0 THEN "dense" ELSE "ones", 1 + (t % 2), Seed + t))]]

\* ------------------------------------------------------------------ byte sweep
\* every ASCII byte value inserted at the start / in the middle / at the end of a digit string: exactly the digits of the
\* radix (either case) and the underscore may be accepted
SweepRadix == <<2, 10, 16, 36>>
SweepCase(i, j, k) ==
  LET r == SweepRadix[i]
      body == DigitChars(<<1, 0, r - 1, 1>>, FALSE)
      pos == CASE j = 1 -> 0 [] j = 2 -> 2 [] j = 3 -> 4
  IN [op |-> "parse", ty |-> IF k % 2 = 0 THEN "I" ELSE "U", fn |-> "radix", radix |-> r, text |-> Ins(body, pos, <<k - 1>>), chain |-> ""]

\* ------------------------------------------------------------------ layout of very long numbers
\* padding needs the digit COUNT of numbers printed by the divide-and-conquer converter (hundreds to thousands of digits)
BigWords == <<32, 45, 68, 104>>
BigLayoutCase(i, j, k) ==
  LET v == I(IF k % 2 = 0 THEN 1 ELSE 0, Mag(IF j = 1 THEN "dense" ELSE "pow2p1", BigWords[i], Seed + i))
      al == Aligns[1 + ((k - 1) % 3) + 1]
  IN [op |-> "fmt", ty |-> IF v.s = 1 THEN "I" ELSE "U", v |-> v, kind |-> "display", radix |-> 10,
      w |-> 20 * BigWords[i] + 40, fill |-> <<42>>, align |-> al, plus |-> k > 3, alt |-> FALSE, zero |-> k = 6, chain |-> ""]

\* ------------------------------------------------------------------ enumeration
NI(c) == CASE c = "layout" -> Len(LVals) [] c = "text" -> Len(RadSeq) [] c = "value" -> Len(RadSeq)
           [] c = "grammar" -> Len(GRadix) [] c = "bytes" -> 25 [] c = "chunks" -> Len(ChunkBits)
           [] c = "sweep" -> Len(SweepRadix) [] c = "biglayout" -> Len(BigWords)
NJ(c) == CASE c = "layout" -> Len(LKinds) [] c = "text" -> NLen [] c = "value" -> Len(WordClasses)
           [] c = "grammar" -> Len(GFns) [] c = "bytes" -> 5 [] c = "chunks" -> 5 [] c = "sweep" -> 3 [] c = "biglayout" -> 2
NK(c) == CASE c = "layout" -> 32 * Len(LWidths) [] c = "text" -> 4 [] c = "value" -> IF Thorough THEN 4 ELSE 3
           [] c = "grammar" -> NMut * 6 [] c = "bytes" -> 8 [] c = "chunks" -> 4 [] c = "sweep" -> 128 [] c = "biglayout" -> 6

VARIABLES phase, cls, i, j, k
vars == <<phase, cls, i, j, k>>
Init == phase = "pick" /\ cls \in Classes /\ i \in 1..35 /\ i <= NI(cls) /\ j = 0 /\ k = 0
Pick == /\ phase = "pick" /\ phase' = "done"
        /\ j' \in 1..NJ(cls) /\ k' \in 1..NK(cls)
        /\ UNCHANGED <<cls, i>>
Next == Pick
Spec == Init /\ [][Next]_vars

Case ==
  CASE cls = "layout" -> LayoutCase(i, j, k)
    [] cls = "text" -> TextCase(i, j, k)
    [] cls = "value" -> ValueCase(i, j, k)
    [] cls = "grammar" -> GrammarCase(i, j, k)
    [] cls = "bytes" -> BytesCase(i, j, k)
    [] cls = "chunks" -> ChunksCase(i, j, k)
    [] cls = "sweep" -> SweepCase(i, j, k)
    [] cls = "biglayout" -> BigLayoutCase(i, j, k)
Emit == phase = "done" => PrintT(<<"GEN", ToJson(Case @@ [class |-> cls])>>)
=============================================================================
