------------------------------- MODULE BytesAlg -------------------------------
(* Algorithm layer of C07 for the byte encodings: integer/src/convert.rs (to_le_bytes, to_be_bytes,
   to_signed_*_bytes, from_*_bytes, from_signed_*_bytes, words_to_*_bytes, from_*_bytes_large) and
   primitive.rs (the word_from_ and dword_from_ partial readers), scaled down to bytes of BB bits, words of WB bytes and an
   inline double word:

     to_*_bytes            : inline: the double word's bytes minus leading_zeros / 8 of them; large: every
                             word but the last in full, the last without its leading zero bytes
     to_signed_*_bytes     : zero -> empty; negative inline: the bytes of !x + 1, cut by the leading zeros
                             of x; negative large: the bytes of !(|x| - 1), cut by the leading zeros of
                             |x| - 1 - one byte short when |x| is a power of 256, which is put back as
                             0xff; then a sign byte when the top bit of the top byte of |x| is used
     from_*_bytes          : up to a double word of bytes: padded (with 0xff for a negative number) and
                             read at once; more: whole words, the remainder padded; negative: every word
                             complemented, plus one (the carry must be zero)

   Definition: little-endian two's complement, TwosValue.  TLC checks, for every integer of the scope and
   for every byte string of the scope: decoding is TwosValue (resp. the unsigned value), encoding decodes
   to the integer, the unsigned encoding is the shortest one, the signed encoding is the shortest one or
   one byte longer, and big-endian is the reverse of little-endian. *)
EXTENDS Integers, Sequences, TLC
CONSTANTS BB,        \* bits per byte
          WB,        \* bytes per word
          MaxBytes   \* byte strings explored
BV == 2^BB
W == BB * WB
Beta == 2^W
DB == 2 * WB
RECURSIVE BitLen(_)
BitLen(x) == IF x = 0 THEN 0 ELSE 1 + BitLen(x \div 2)
Rev(s) == [i \in 1..Len(s) |-> s[Len(s) + 1 - i]]
RECURSIVE ValLE(_)
ValLE(bs) == IF bs = <<>> THEN 0 ELSE bs[1] + BV * ValLE(Tail(bs))
TwosValue(bs) == IF bs = <<>> THEN 0 ELSE IF bs[Len(bs)] >= BV \div 2 THEN ValLE(bs) - BV^Len(bs) ELSE ValLE(bs)
\* n little-endian bytes of v
LEBytes(v, n) == [i \in 1..n |-> (v \div BV^(i - 1)) % BV]
Prefix(s, n) == SubSeq(s, 1, n)
NWords(v) == (BitLen(v) + W - 1) \div W
WordAt(v, i) == (v \div Beta^i) % Beta            \* 0-based
LzWord(w) == W - BitLen(w)
LzDword(x) == 2 * W - BitLen(x)
RECURSIVE Concat(_, _, _)
Concat(f(_), lo, hi) == IF lo > hi THEN <<>> ELSE f(lo) \o Concat(f, lo + 1, hi)

\* ---- encoding
WordsToLE(v, n, flip) ==          \* words_to_le_bytes::<FLIP> on the n words of v (the last one not zero... or zero after sub_one)
  LET last == WordAt(v, n - 1)
      skip == LzWord(last) \div BB
      Fl(w) == IF flip THEN Beta - 1 - w ELSE w
      Full(i) == LEBytes(Fl(WordAt(v, i)), WB)
  IN [bs |-> Concat(Full, 0, n - 2) \o Prefix(LEBytes(Fl(last), WB), WB - skip), ok |-> n >= 1 /\ skip <= WB]
ToLE(mag) ==
  IF mag < Beta * Beta THEN [bs |-> Prefix(LEBytes(mag, DB), DB - LzDword(mag) \div BB), ok |-> TRUE]
  ELSE WordsToLE(mag, NWords(mag), FALSE)
ToSignedLE(mag, neg) ==
  IF mag = 0 THEN [bs |-> <<>>, ok |-> TRUE]
  ELSE LET small == mag < Beta * Beta
           body == IF ~neg THEN ToLE(mag)
                   ELSE IF small THEN [bs |-> Prefix(LEBytes((Beta * Beta - mag) % (Beta * Beta), DB), DB - LzDword(mag) \div BB), ok |-> TRUE]
                   ELSE LET n == NWords(mag)
                            r == WordsToLE(mag - 1, n, TRUE)                \* sub_one_in_place keeps the length n
                            want == n * WB - LzWord(WordAt(mag, n - 1)) \div BB
                        IN [bs |-> IF Len(r.bs) < want THEN Append(r.bs, BV - 1) ELSE r.bs, ok |-> r.ok]
           lz == IF small THEN LzDword(mag) ELSE LzWord(WordAt(mag, NWords(mag) - 1))
       IN [bs |-> IF lz % BB = 0 THEN Append(body.bs, IF neg THEN BV - 1 ELSE 0) ELSE body.bs, ok |-> body.ok]

\* ---- decoding: [neg, mag, ok]
PadTo(bs, n, pad) == bs \o [i \in 1..(n - Len(bs)) |-> pad]
FromLELarge(bs, neg) ==
  LET full == Len(bs) \div WB
      rem == Len(bs) % WB
      cap == (Len(bs) - 1) \div WB + 1
      nw == full + (IF rem # 0 THEN 1 ELSE 0)
      Fl(w) == IF neg THEN Beta - 1 - w ELSE w
      WordOf(i) == IF i < full THEN ValLE(SubSeq(bs, i * WB + 1, (i + 1) * WB))
                   ELSE ValLE(PadTo(SubSeq(bs, full * WB + 1, Len(bs)), WB, IF neg THEN BV - 1 ELSE 0))
      RECURSIVE Sum(_)
      Sum(i) == IF i >= nw THEN 0 ELSE Fl(WordOf(i)) * Beta^i + Sum(i + 1)
      v == Sum(0) + (IF neg THEN 1 ELSE 0)
  IN [mag |-> v, ok |-> nw <= cap /\ v < Beta^nw /\ Len(bs) >= DB]
FromLE(bs) == IF Len(bs) <= DB THEN [mag |-> ValLE(PadTo(bs, DB, 0)), ok |-> TRUE] ELSE FromLELarge(bs, FALSE)
FromSignedLE(bs) ==
  IF bs = <<>> THEN [neg |-> FALSE, mag |-> 0, ok |-> TRUE]
  ELSE IF bs[Len(bs)] < BV \div 2 THEN LET r == FromLE(bs) IN [neg |-> FALSE, mag |-> r.mag, ok |-> r.ok]
  ELSE IF Len(bs) <= DB THEN [neg |-> TRUE, mag |-> (Beta * Beta - ValLE(PadTo(bs, DB, BV - 1))) % (Beta * Beta), ok |-> TRUE]
  ELSE LET r == FromLELarge(bs, TRUE) IN [neg |-> TRUE, mag |-> r.mag, ok |-> r.ok]

\* ---- big-endian: the same with its own slicing (skip at the front, rchunks_exact, insert(0, ..))
BEBytes(v, n) == [i \in 1..n |-> (v \div BV^(n - i)) % BV]
Suffix(s, k) == SubSeq(s, k + 1, Len(s))                  \* s[k..]
RECURSIVE ValBE(_, _)
ValBE(s, acc) == IF s = <<>> THEN acc ELSE ValBE(Tail(s), acc * BV + s[1])
RECURSIVE ConcatDown(_, _, _)
ConcatDown(f(_), hi, lo) == IF hi < lo THEN <<>> ELSE f(hi) \o ConcatDown(f, hi - 1, lo)
WordsToBE(v, n, flip) ==
  LET last == WordAt(v, n - 1)
      skip == LzWord(last) \div BB
      Fl(w) == IF flip THEN Beta - 1 - w ELSE w
      Full(i) == BEBytes(Fl(WordAt(v, i)), WB)
  IN [bs |-> Suffix(BEBytes(Fl(last), WB), skip) \o ConcatDown(Full, n - 2, 0), ok |-> n >= 1 /\ skip <= WB]
ToBE(mag) ==
  IF mag < Beta * Beta THEN [bs |-> Suffix(BEBytes(mag, DB), LzDword(mag) \div BB), ok |-> TRUE]
  ELSE WordsToBE(mag, NWords(mag), FALSE)
ToSignedBE(mag, neg) ==
  IF mag = 0 THEN [bs |-> <<>>, ok |-> TRUE]
  ELSE LET small == mag < Beta * Beta
           body == IF ~neg THEN ToBE(mag)
                   ELSE IF small THEN [bs |-> Suffix(BEBytes((Beta * Beta - mag) % (Beta * Beta), DB), LzDword(mag) \div BB), ok |-> TRUE]
                   ELSE LET n == NWords(mag)
                            r == WordsToBE(mag - 1, n, TRUE)
                            want == n * WB - LzWord(WordAt(mag, n - 1)) \div BB
                        IN [bs |-> IF Len(r.bs) < want THEN <<BV - 1>> \o r.bs ELSE r.bs, ok |-> r.ok]
           lz == IF small THEN LzDword(mag) ELSE LzWord(WordAt(mag, NWords(mag) - 1))
       IN [bs |-> IF lz % BB = 0 THEN <<IF neg THEN BV - 1 ELSE 0>> \o body.bs ELSE body.bs, ok |-> body.ok]
PadFront(s, n, pad) == [i \in 1..(n - Len(s)) |-> pad] \o s
FromBELarge(s, neg) ==
  LET full == Len(s) \div WB
      rem == Len(s) % WB
      cap == (Len(s) - 1) \div WB + 1
      nw == full + (IF rem # 0 THEN 1 ELSE 0)
      Fl(w) == IF neg THEN Beta - 1 - w ELSE w
      \* rchunks_exact: word i is the i-th group of WB bytes counted from the END; the remainder is the front
      WordOf(i) == IF i < full THEN ValBE(SubSeq(s, Len(s) - (i + 1) * WB + 1, Len(s) - i * WB), 0)
                   ELSE ValBE(PadFront(SubSeq(s, 1, rem), WB, IF neg THEN BV - 1 ELSE 0), 0)
      RECURSIVE Sum(_)
      Sum(i) == IF i >= nw THEN 0 ELSE Fl(WordOf(i)) * Beta^i + Sum(i + 1)
      v == Sum(0) + (IF neg THEN 1 ELSE 0)
  IN [mag |-> v, ok |-> nw <= cap /\ v < Beta^nw /\ Len(s) >= DB]
FromBE(s) == IF Len(s) <= DB THEN [mag |-> ValBE(PadFront(s, DB, 0), 0), ok |-> TRUE] ELSE FromBELarge(s, FALSE)
FromSignedBE(s) ==
  IF s = <<>> THEN [neg |-> FALSE, mag |-> 0, ok |-> TRUE]
  ELSE IF s[1] < BV \div 2 THEN LET r == FromBE(s) IN [neg |-> FALSE, mag |-> r.mag, ok |-> r.ok]
  ELSE IF Len(s) <= DB THEN [neg |-> TRUE, mag |-> (Beta * Beta - ValBE(PadFront(s, DB, BV - 1), 0)) % (Beta * Beta), ok |-> TRUE]
  ELSE LET r == FromBELarge(s, TRUE) IN [neg |-> TRUE, mag |-> r.mag, ok |-> r.ok]

VARIABLES mode, x, bs
vars == <<mode, x, bs>>
Seqs(S, n) == UNION {[1..k -> S] : k \in 0..n}
MaxMag == BV^(MaxBytes - 1)
Init == \/ mode = "int" /\ x \in (-MaxMag)..MaxMag /\ bs = <<>>
        \/ mode = "bytes" /\ x = 0 /\ bs \in Seqs(0..(BV - 1), MaxBytes)
Next == UNCHANGED vars
Spec == Init /\ [][Next]_vars
Abs(v) == IF v < 0 THEN -v ELSE v
MinSignedLen(v) ==      \* the shortest two's complement length
  IF v = 0 THEN 0 ELSE CHOOSE n \in 1..(MaxBytes + 2) : /\ -(BV^n \div 2) <= v /\ v < BV^n \div 2
                                                        /\ \A m \in 1..(n - 1) : ~(-(BV^m \div 2) <= v /\ v < BV^m \div 2)
EncodeOK == mode = "int" =>
  LET s == ToSignedLE(Abs(x), x < 0)
      d == FromSignedLE(s.bs)
  IN /\ s.ok /\ d.ok
     /\ TwosValue(s.bs) = x
     /\ Len(s.bs) \in {MinSignedLen(x), MinSignedLen(x) + 1}
     /\ (x >= 0 => Len(s.bs) = MinSignedLen(x))
     /\ (IF d.neg THEN -d.mag ELSE d.mag) = x
     /\ (x >= 0 => LET u == ToLE(x) du == FromLE(u.bs) IN
                   /\ u.ok /\ du.ok /\ ValLE(u.bs) = x /\ du.mag = x
                   /\ Len(u.bs) = (BitLen(x) + BB - 1) \div BB
                   /\ ToBE(x).ok /\ ToBE(x).bs = Rev(u.bs))
     /\ ToSignedBE(Abs(x), x < 0).ok /\ ToSignedBE(Abs(x), x < 0).bs = Rev(s.bs)
DecodeOK == mode = "bytes" =>
  LET d == FromSignedLE(bs)
      u == FromLE(bs)
  IN /\ d.ok /\ u.ok
     /\ (IF d.neg THEN -d.mag ELSE d.mag) = TwosValue(bs)
     /\ u.mag = ValLE(bs)
     /\ FromSignedBE(Rev(bs)) = d /\ FromBE(Rev(bs)) = u
=============================================================================
