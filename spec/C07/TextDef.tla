------------------------------ MODULE TextDef ------------------------------
(***************************************************************************)
(* Definition layer of C07: what "integer text" and "byte / chunk           *)
(* encoding" mean.  Text is a sequence of byte codes (UTF-8).  The only     *)
(* formulas that can raise a C07 violation.                                 *)
(*                                                                          *)
(*   digits     printed digits d_1..d_n in radix r denote v iff             *)
(*              Horner(d) = v and d_1 # 0 (or v = 0 and the text is "0")    *)
(*   grammar    [+|-] [0b|0o|0x] body ; body = digits of the radix and '_'  *)
(*   layout     sign, prefix, zero / fill padding exactly as                *)
(*              core::fmt::Formatter::pad_integral does for primitives;     *)
(*              a negative number is '-' followed by its magnitude          *)
(*   bytes      little endian two's complement (IBig) / magnitude (UBig)    *)
(*   chunks     v = sum C_i * 2^(i * chunk_bits), C_i < 2^chunk_bits        *)
(***************************************************************************)
EXTENDS BigInt

CPlus == 43
CMinus == 45
CUnder == 95
CZero == 48

DigitVal(c) == IF c >= 48 /\ c <= 57 THEN c - 48
               ELSE IF c >= 97 /\ c <= 122 THEN c - 87
               ELSE IF c >= 65 /\ c <= 90 THEN c - 55 ELSE 99
IsDigitOf(c, r) == DigitVal(c) < r
DigitChar(d, upper) == IF d < 10 THEN 48 + d ELSE IF upper THEN 55 + d ELSE 87 + d
Rest(t, k) == SubSeq(t, k + 1, Len(t))
\* number of characters of a UTF-8 byte string (continuation bytes 10xxxxxx do not start a character)
CharLen(t) == FoldLeft(LAMBDA acc, c : IF c >= 128 /\ c < 192 THEN acc ELSE acc + 1, 0, t)
Rep(s, n) == [i \in 1..(n * Len(s)) |-> s[((i - 1) % Len(s)) + 1]]

(***************************************************************************)
(* Digits.  Up to ExactLimit digits the value is recomputed exactly (Horner *)
(* in base r^k, r^k < 2^22); beyond that the check is SAMPLED: the value    *)
(* must agree with the digits modulo each of six primes below 2^15 and the  *)
(* digit count must be compatible with the bit length.  The sampled check   *)
(* never rejects a correct conversion.                                      *)
(***************************************************************************)
ExactLimit == 2000
Primes == <<32749, 32719, 32717, 32713, 32707, 32693>>
\* floor / ceiling of 1024 * log2(r), r = 2..36
L2Lo == <<1024, 1623, 2048, 2377, 2647, 2874, 3072, 3246, 3401, 3542, 3671, 3789, 3898, 4000, 4096, 4185, 4270, 4349,
          4425, 4497, 4566, 4632, 4695, 4755, 4813, 4869, 4922, 4974, 5024, 5073, 5120, 5165, 5209, 5252, 5294>>
L2Hi == <<1024, 1624, 2048, 2378, 2648, 2875, 3072, 3247, 3402, 3543, 3672, 3790, 3899, 4001, 4096, 4186, 4271, 4350,
          4426, 4498, 4567, 4633, 4696, 4756, 4814, 4870, 4923, 4975, 5025, 5074, 5120, 5166, 5210, 5253, 5295>>
\* <<k, r^k>> for the largest k with r^k < 2^22
ChunkK(r) == FoldLeft(LAMBDA acc, i : IF acc[2] * r < 4194304 THEN <<acc[1] + 1, acc[2] * r>> ELSE acc,
                      <<0, 1>>, [i \in 1..22 |-> i])
HornerRes(ds, r, p) == FoldLeft(LAMBDA acc, d : (acc * r + d) % p, 0, ds)
StripZeros(ds) ==
  LET first == FoldLeftDomain(LAMBDA acc, i : IF acc = 0 /\ ds[i] # 0 THEN i ELSE acc, 0, ds)
  IN IF first = 0 THEN <<>> ELSE SubSeq(ds, first, Len(ds))
\* necessary relation between the digit count n (no leading zero) and the bit length of the value
LengthPlausible(n, r, m) ==
  IF n = 0 THEN m = <<>>
  ELSE /\ (n - 1) * L2Lo[r - 1] <= 1024 * BitLen(m)
       /\ 1024 * (BitLen(m) - 1) <= n * L2Hi[r - 1]
\* the digit values ds (most significant first, leading zeros allowed) denote the natural m
ValueOfDigitsIs(ds, r, m) ==
  IF Len(ds) <= ExactLimit
  THEN LET kr == ChunkK(r) IN FromRadixChunked(ds, r, kr[1], kr[2]) = m
  ELSE /\ \A i \in 1..Len(Primes) : HornerRes(ds, r, Primes[i]) = Residue(m, Primes[i])
       /\ LengthPlausible(Len(StripZeros(ds)), r, m)
\* Digits(v, r): the positional representation -- no leading zero, "0" for zero
IsDigitsOf(ds, r, m) ==
  /\ Len(ds) >= 1
  /\ \A i \in 1..Len(ds) : ds[i] \in 0..(r - 1)
  /\ IF m = <<>> THEN ds = <<0>> ELSE ds[1] # 0
  /\ ValueOfDigitsIs(ds, r, m)

(***************************************************************************)
(* Grammar of integer literals (docs of from_str_radix /                    *)
(* from_str_with_radix_default): optional sign ('+' for UBig, '+' or '-'    *)
(* for IBig), optional prefix 0b / 0o / 0x for the prefix-aware functions,  *)
(* then digits of the radix in either case with '_' separators.             *)
(*   "wf"    at least one digit, '_' only singly between digits: must parse *)
(*   "gray"  digits present but '_' leading / trailing / doubled, or the    *)
(*           prefix letter is itself a digit of the default radix: may be   *)
(*           rejected, but if accepted the value must be right              *)
(*   "bad"   anything else (no digit at all, a byte that is neither a digit *)
(*           of the radix nor '_', second sign, non-ASCII): must be Err     *)
(***************************************************************************)
BodyScan(b, r) ==
  FoldLeft(LAMBDA acc, c :
             [ok |-> acc.ok /\ (c = CUnder \/ IsDigitOf(c, r)),
              nd |-> acc.nd + (IF IsDigitOf(c, r) THEN 1 ELSE 0),
              dbl |-> acc.dbl \/ (c = CUnder /\ acc.prev = CUnder),
              prev |-> c],
           [ok |-> TRUE, nd |-> 0, dbl |-> FALSE, prev |-> 0], b)
BodyClass(b, r) ==
  IF b = <<>> THEN "bad" ELSE
  LET s == BodyScan(b, r) IN
  IF ~s.ok \/ s.nd = 0 THEN "bad"
  ELSE IF b[1] = CUnder \/ b[Len(b)] = CUnder \/ s.dbl THEN "gray" ELSE "wf"
BodyDigits(b) == LET x == SelectSeq(b, LAMBDA c : c # CUnder) IN [i \in 1..Len(x) |-> DigitVal(x[i])]
StartsWith2(t, a, b) == Len(t) >= 2 /\ t[1] = a /\ t[2] = b

\* the ways a text can be read: sequence of [neg, radix, body]
Readings(text, ty, fn, radix) ==
  LET hasMinus == Len(text) >= 1 /\ text[1] = CMinus /\ ty = "I"
      hasPlus == Len(text) >= 1 /\ text[1] = CPlus
      t == IF hasMinus \/ hasPlus THEN Rest(text, 1) ELSE text
      pfx == fn \in {"prefix", "default"}
      pr == IF pfx /\ StartsWith2(t, 48, 98) THEN 2
            ELSE IF pfx /\ StartsWith2(t, 48, 111) THEN 8
            ELSE IF pfx /\ StartsWith2(t, 48, 120) THEN 16 ELSE 0
      plain == [neg |-> hasMinus, radix |-> radix, body |-> t]
  IN IF pr = 0 THEN <<plain>>
     ELSE LET pre == [neg |-> hasMinus, radix |-> pr, body |-> Rest(t, 2)]
          IN IF IsDigitOf(t[2], radix) THEN <<pre, plain>> ELSE <<pre>>
ReadingClass(rd) == BodyClass(rd.body, rd.radix)
Classify(rs) ==
  IF Len(rs) = 1 THEN ReadingClass(rs[1])
  ELSE IF \A i \in 1..Len(rs) : ReadingClass(rs[i]) = "bad" THEN "bad" ELSE "gray"

\* the parsed result o = [k |-> "ok", v |-> int, radix |-> r] is what reading rd denotes
MatchesReading(o, rd, ty) ==
  /\ ReadingClass(rd) # "bad"
  /\ o.radix = rd.radix
  /\ IsInt(o.v)
  /\ (ty = "U" => o.v.s = 0)
  /\ o.v.s = (IF o.v.m # <<>> /\ rd.neg THEN 1 ELSE 0)
  /\ ValueOfDigitsIs(BodyDigits(rd.body), rd.radix, o.v.m)

ParseOutWhy(text, ty, fn, radix, o) ==
  LET rs == Readings(text, ty, fn, radix)
      cls == Classify(rs)
  IN IF o.k = "panic" THEN "unexpected-panic"
     ELSE IF cls = "bad" THEN (IF o.k = "err" THEN "" ELSE "malformed-accepted")
     ELSE IF o.k = "err" THEN (IF cls = "wf" THEN "wellformed-rejected" ELSE "")
     ELSE IF \E i \in 1..Len(rs) : MatchesReading(o, rs[i], ty) THEN "" ELSE "wrong-value"

(***************************************************************************)
(* Layout: what core::fmt does for primitive integers (pad_integral).       *)
(* sign / prefix / digits / fill are byte strings, width counts characters  *)
(* (w < 0: no width), align in {"n", "l", "c", "r"}.                        *)
(***************************************************************************)
Layout(sign, prefix, digits, w, fill, align, zero) ==
  LET body == sign \o prefix \o digits
      n == Len(body)                      \* sign, prefix and digits are ASCII
  IN IF w < 0 \/ n >= w THEN body
     ELSE LET pad == w - n IN
          IF zero THEN sign \o prefix \o Rep(<<CZero>>, pad) \o digits
          ELSE IF align = "l" THEN body \o Rep(fill, pad)
          ELSE IF align = "c" THEN Rep(fill, pad \div 2) \o body \o Rep(fill, pad - (pad \div 2))
          ELSE Rep(fill, pad) \o body

SignStr(neg, plus) == IF neg THEN <<CMinus>> ELSE IF plus THEN <<CPlus>> ELSE <<>>
\* '#' adds the radix prefix for the Binary / Octal / LowerHex / UpperHex traits; for InRadix it is
\* documented to select upper-case letters instead (no prefix); Display ignores it
PrefixStr(kind, alt) ==
  IF ~alt THEN <<>>
  ELSE IF kind = "binary" THEN <<48, 98>>
  ELSE IF kind = "octal" THEN <<48, 111>>
  ELSE IF kind \in {"lhex", "uhex"} THEN <<48, 120>>
  ELSE <<>>
UpperCase(kind, alt) == kind = "uhex" \/ (kind = "inradix" /\ alt)
KindRadix(kind, radix) ==
  IF kind = "display" THEN 10 ELSE IF kind = "binary" THEN 2 ELSE IF kind = "octal" THEN 8
  ELSE IF kind \in {"lhex", "uhex"} THEN 16 ELSE radix
DigitsOrZero(m, r) == IF m = <<>> THEN <<0>> ELSE ToRadix(m, r)
DigitChars(ds, upper) == [i \in 1..Len(ds) |-> DigitChar(ds[i], upper)]

\* text is the formatting of the integer v (kind, radix, flags); "" when it is, else the violated clause
FmtTextWhy(text, v, kind, radix, w, fill, align, plus, alt, zero) ==
  LET r == KindRadix(kind, radix)
      sign == SignStr(v.s = 1, plus)
      prefix == PrefixStr(kind, alt)
      up == UpperCase(kind, alt)
      sp == sign \o prefix
  IN IF w >= 0 /\ CharLen(text) <= w
     THEN \* padded (or exactly filling the width): small by construction, compare with the full layout
          (IF text = Layout(sign, prefix, DigitChars(DigitsOrZero(v.m, r), up), w, fill, align, zero)
           THEN "" ELSE "layout-mismatch")
     ELSE \* no padding possible: sign, prefix, then exactly the digits
          IF Len(text) <= Len(sp) \/ SubSeq(text, 1, Len(sp)) # sp THEN "sign-or-prefix-mismatch"
          ELSE LET D == Rest(text, Len(sp))
                   ds == [i \in 1..Len(D) |-> DigitVal(D[i])]
               IN IF \E i \in 1..Len(D) : ds[i] >= r \/ D[i] # DigitChar(ds[i], up) THEN "bad-digit-character"
                  ELSE IF Len(ds) > 1 /\ ds[1] = 0 THEN "leading-zero"
                  ELSE IF IsDigitsOf(ds, r, v.m) THEN "" ELSE "digits-not-the-value"

(***************************************************************************)
(* Bytes.  le: little endian byte string.                                   *)
(***************************************************************************)
Reverse8(s) == [i \in 1..Len(s) |-> s[Len(s) + 1 - i]]
\* the integer a two's complement little endian byte string denotes (empty = 0)
TwosValue(le) == IF le = <<>> THEN IZero ELSE FromTwosWindow(le, le[Len(le)] >= 128)
\* the natural an unsigned little endian byte string denotes
MagValue(le) == I(0, Norm(le))
BytesValue(ty, le) == IF ty = "I" THEN TwosValue(le) ELSE MagValue(le)
IsByteSeq(s) == \A i \in 1..Len(s) : s[i] \in 0..255

(***************************************************************************)
(* Chunks.                                                                  *)
(***************************************************************************)
ChunkSum(chunks, cb) ==
  FoldLeftDomain(LAMBDA acc, i : Add(acc, Shl(chunks[i].m, (i - 1) * cb)), <<>>, chunks)
=============================================================================
