---------------------------- MODULE RadixPow2Alg ----------------------------
(* Algorithm layer of C07 for the power-of-two radices (2, 4, 8, 16, 32): the digit extraction of
   integer/src/fmt/power_two.rs and the digit packing of integer/src/parse/power_two.rs at word
   level, over a word of W bits and digits of lr bits (lr does not have to divide W: with 64-bit
   words it does not for radix 8 and 32).

     PreparedWord / PreparedDword : width = max(1, ceil(bit_len / lr)), digit idx = (x >> idx lr) & mask
     PreparedLarge                : width from the word count and the leading zeros of the top word;
                                    `bits` = number of bits of the current word still to print (it starts
                                    ABOVE the word size when the top digit reaches beyond the top word);
                                    a digit that straddles two words takes its high part from the
                                    current word and its low part from the next
     parse                        : strings of at most W / lr characters through parse_word, longer
                                    ones through parse_large (a digit that straddles a word boundary
                                    is split; the buffer is allocated from the string length)

   Obligations: every shift amount is below the word size, `bits` ends at 0 (the debug assertion of
   the printer), the parser never pushes beyond the allocated capacity.
   TLC checks: the printed digits are the base-2^lr digits of the value, most significant first,
   without a leading zero (except for 0 itself); parsing any digit string - leading zeros and
   underscores included - gives its value; parse(print(x)) = x. *)
EXTENDS Integers, Sequences, TLC
CONSTANTS W,          \* bits per word
          LogRadices, \* the digit sizes lr explored (each < W)
          MaxWords,   \* printed values have up to MaxWords words
          MaxStr      \* parsed strings have up to MaxStr characters
Beta == 2^W
US == -1              \* the underscore
RECURSIVE BitLen(_)
BitLen(x) == IF x = 0 THEN 0 ELSE 1 + BitLen(x \div 2)
RECURSIVE WordsOf(_)
WordsOf(v) == IF v = 0 THEN <<>> ELSE <<v % Beta>> \o WordsOf(v \div Beta)
CeilDiv(a, b) == (a + b - 1) \div b
Max(a, b) == IF a > b THEN a ELSE b

\* ---- definition: digits of v in base 2^lr, most significant first ("0" for zero)
RECURSIVE RefDigitsRev(_, _)
RefDigitsRev(v, lr) == IF v = 0 THEN <<>> ELSE <<v % 2^lr>> \o RefDigitsRev(v \div 2^lr, lr)
RECURSIVE Rev(_)
Rev(s) == IF s = <<>> THEN <<>> ELSE Rev(Tail(s)) \o <<s[1]>>
RefDigits(v, lr) == IF v = 0 THEN <<0>> ELSE Rev(RefDigitsRev(v, lr))
RECURSIVE DigitsValue(_, _, _)
DigitsValue(ds, lr, acc) == IF ds = <<>> THEN acc ELSE DigitsValue(Tail(ds), lr, IF ds[1] = US THEN acc ELSE acc * 2^lr + ds[1])

\* ---- printer
PrintSmall(x, lr) ==                         \* PreparedWord / PreparedDword (x below Beta^2)
  LET width == Max(1, CeilDiv(BitLen(x), lr))
  IN [ds |-> [i \in 1..width |-> (x \div 2^((width - i) * lr)) % 2^lr], ok |-> TRUE]
\* the loop of PreparedLarge::write: word index wi (1-based, from the top), bits, digits so far
RECURSIVE LargeLoop(_, _, _, _, _, _)
LargeLoop(ws, lr, wi, bits, ds, ok) ==
  IF bits < lr THEN
    IF wi = 1 THEN [ds |-> ds, ok |-> ok /\ bits = 0]                       \* it.next() = None; debug_assert_eq!(bits, 0)
    ELSE LET extra == lr - bits
             nb == W - extra
             word == ws[wi]  w == ws[wi - 1]
             digit == (((word * 2^extra) % Beta) + (w \div 2^nb)) % 2^lr      \* (word << extra | w >> bits) & mask: disjoint bits
         IN LargeLoop(ws, lr, wi - 1, nb, Append(ds, digit), ok /\ extra < W /\ nb < W /\ nb >= 0)
  ELSE LET b1 == bits - lr
       IN LargeLoop(ws, lr, wi, b1, Append(ds, (ws[wi] \div 2^b1) % 2^lr), ok /\ b1 < W)
PrintLarge(ws, lr) ==
  LET n == Len(ws)
      width == Max(1, CeilDiv(n * W - (W - BitLen(ws[n])), lr))
      bits == width * lr - (n - 1) * W
  IN LargeLoop(ws, lr, n, bits, <<>>, bits >= 0)
PrintNum(v, lr) == IF v < Beta * Beta THEN PrintSmall(v, lr) ELSE PrintLarge(WordsOf(v), lr)

\* ---- parser
RECURSIVE ParseWordLoop(_, _, _, _, _)
ParseWordLoop(rs, lr, word, bits, ok) ==         \* rs: the characters in reverse order
  IF rs = <<>> THEN [v |-> word, ok |-> ok]
  ELSE IF rs[1] = US THEN ParseWordLoop(Tail(rs), lr, word, bits, ok)
  ELSE ParseWordLoop(Tail(rs), lr, (word + ((rs[1] * 2^bits) % Beta)) % Beta, bits + lr, ok /\ bits < W)
RECURSIVE ParseLargeLoop(_, _, _, _, _, _, _)
ParseLargeLoop(rs, lr, word, bits, buf, cap, ok) ==
  IF rs = <<>> THEN LET b2 == IF bits > 0 THEN Append(buf, word) ELSE buf IN [buf |-> b2, ok |-> ok /\ Len(b2) <= cap]
  ELSE IF rs[1] = US THEN ParseLargeLoop(Tail(rs), lr, word, bits, buf, cap, ok)
  ELSE LET w1 == (word + ((rs[1] * 2^bits) % Beta)) % Beta          \* word |= digit << bits (the bits above the word are lost here...)
           nb == bits + lr
       IN IF nb >= W
          THEN ParseLargeLoop(Tail(rs), lr, rs[1] \div 2^(W - bits), nb - W, Append(buf, w1), cap,    \* ... and recovered here
                              ok /\ bits < W /\ W - bits < W /\ Len(buf) < cap)
          ELSE ParseLargeLoop(Tail(rs), lr, w1, nb, buf, cap, ok /\ bits < W)
RECURSIVE ValOf(_)
ValOf(ws) == IF ws = <<>> THEN 0 ELSE ws[1] + Beta * ValOf(Tail(ws))
Parse(s, lr) ==
  LET dpw == W \div lr IN
  IF Len(s) <= dpw THEN ParseWordLoop(Rev(s), lr, 0, 0, TRUE)
  ELSE LET cap == (Len(s) * lr - 1) \div W + 1
           r == ParseLargeLoop(Rev(s), lr, 0, 0, <<>>, cap, TRUE)
       IN [v |-> ValOf(r.buf), ok |-> r.ok]

VARIABLES lr, v, str, phase
vars == <<lr, v, str, phase>>
Init == phase = "pick" /\ lr \in LogRadices /\ v = 0 /\ str = <<>>
PickV == phase = "pick" /\ phase' = "print" /\ v' \in 0..(Beta^MaxWords - 1) /\ UNCHANGED <<lr, str>>
Alphabet == (0..(2^lr - 1)) \cup {US}
PickS == phase = "pick" /\ phase' = "parse" /\ UNCHANGED <<lr, v>>
         /\ \E n \in 1..MaxStr : str' \in [1..n -> Alphabet] /\ \E i \in 1..n : str'[i] # US
Next == PickV \/ PickS
Spec == Init /\ [][Next]_vars

PrintOK == phase = "print" => LET p == PrintNum(v, lr) IN p.ok /\ p.ds = RefDigits(v, lr)
RoundTripOK == phase = "print" => LET p == PrintNum(v, lr)  q == Parse(p.ds, lr) IN q.ok /\ q.v = v
ParseOK == phase = "parse" => LET q == Parse(str, lr) IN q.ok /\ q.v = DigitsValue(str, lr, 0)
=============================================================================
