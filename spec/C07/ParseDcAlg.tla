----------------------------- MODULE ParseDcAlg -----------------------------
(* Algorithm layer of C07 for long strings in a radix that is not a power of two:
   integer/src/parse/non_power_two.rs, the length bookkeeping of parse_large and
   parse_large_divide_conquer (which digits go where, with which power of the radix).

     parse                    : <= digits_per_word characters -> parse_word; <= CHUNK_LEN * digits_per_word ->
                                parse_chunk; longer -> parse_large
     parse_large              : radix_powers[i] = radix^(chunk << i), grown while
                                chunk <= (len - 1) >> radix_powers.len()
     parse_large_divide_conquer : with k powers left: at most chunk << (k - 1) characters -> same with k - 1
                                powers; otherwise split off the low chunk << (k - 1) characters and combine
                                hi * radix_powers[k - 1] + lo

   The model abstracts a string to its length and a parse result to the multiset of (weight, length)
   leaves it was assembled from: weight = the power of the radix the leaf ends up multiplied by, counted
   in characters.  The result is right iff the leaves tile the string: sorted by weight, each leaf's
   weight is the total length of the leaves below it, every leaf fits parse_chunk, and the debug
   assertion `len <= chunk << radix_powers.len()` holds at every call. *)
EXTENDS Integers, Sequences, TLC
CONSTANTS Chunk,     \* CHUNK_LEN * digits_per_word (scaled down)
          MaxLen
Shl(x, k) == x * 2^k

RECURSIVE NumPowers(_, _)
NumPowers(len, k) == IF Chunk <= (len - 1) \div 2^k THEN NumPowers(len, k + 1) ELSE k     \* starts from one power: k = 1

\* leaves as <<weight, length>>; ok = every assertion held
RECURSIVE Dc(_, _, _)
Dc(len, k, weight) ==
  IF k = 0 THEN [leaves |-> <<(<<weight, len>>)>>, ok |-> len <= Chunk /\ len >= 1]          \* parse_chunk
  ELSE LET lo == Shl(Chunk, k - 1) IN
       IF len <= lo THEN LET r == Dc(len, k - 1, weight) IN [leaves |-> r.leaves, ok |-> r.ok /\ len <= Shl(Chunk, k)]
       ELSE LET h == Dc(len - lo, k - 1, weight + lo)
                l == Dc(lo, k - 1, weight)
            IN [leaves |-> l.leaves \o h.leaves, ok |-> h.ok /\ l.ok /\ len <= Shl(Chunk, k)]
ParseLarge(len) == Dc(len, NumPowers(len, 1), 0)

\* the leaves tile 0..len-1 from the least significant end
RECURSIVE Tiles(_, _)
Tiles(leaves, at) == IF leaves = <<>> THEN at ELSE IF leaves[1][1] # at THEN -1 ELSE Tiles(Tail(leaves), at + leaves[1][2])

VARIABLES len
Init == len \in (Chunk + 1)..MaxLen
Next == UNCHANGED len
Spec == Init /\ [][Next]_len
TableOK == LET k == NumPowers(len, 1) IN len <= Shl(Chunk, k) /\ (k = 1 \/ len > Shl(Chunk, k - 1))
DcOK == LET r == ParseLarge(len) IN r.ok /\ Tiles(r.leaves, 0) = len
=============================================================================
