----------------------------- MODULE Trace_C07 -----------------------------
(* Trace monitor for C07: every recorded call of the text / byte / chunk API must satisfy TextDef.
   Never blocks: a failing event is recorded in `bad` with the violated clause. *)
EXTENDS TextDef, Json, IOUtils
Rec == ndJsonDeserialize(IOEnv.TRACE)

FmtWhy(e) ==
  IF e.out.k # "ok" THEN "unexpected-panic"
  ELSE IF ~IsInt(e.v) \/ ~IsByteSeq(e.out.text) THEN "malformed-event"
  ELSE LET w == FmtTextWhy(e.out.text, e.v, e.kind, e.radix, e.w, e.fill, e.align, e.plus, e.alt, e.zero)
       IN IF w # "" THEN w
          ELSE IF e.hasprim /\ e.out.text # e.prim THEN "differs-from-primitive-formatting"
          ELSE ""

ParseWhy(e) ==
  LET ws == [i \in 1..Len(e.outs) |-> ParseOutWhy(e.text, e.ty, e.fn, e.radix, e.outs[i].out)]
      badg == {i \in 1..Len(ws) : ws[i] # ""}
  IN IF badg = {} THEN "" ELSE ws[CHOOSE i \in badg : \A j \in badg : i <= j]

ToBytesWhy(e) ==
  LET o == e.out IN
  IF o.k # "ok" THEN "unexpected-panic"
  ELSE IF ~(IsByteSeq(o.le) /\ IsByteSeq(o.be)) THEN "malformed-event"
  ELSE IF ~IEq(BytesValue(e.ty, o.le), e.v) THEN "le-bytes-not-the-value"
  ELSE IF ~IEq(BytesValue(e.ty, Reverse8(o.be)), e.v) THEN "be-bytes-not-the-value"
  ELSE IF ~(IsInt(o.rle) /\ IEq(o.rle, e.v)) THEN "le-roundtrip"
  ELSE IF ~(IsInt(o.rbe) /\ IEq(o.rbe, e.v)) THEN "be-roundtrip"
  ELSE ""

FromBytesWhy(e) ==
  LET o == e.out
      le == IF e.endian = "le" THEN e.bytes ELSE Reverse8(e.bytes)
  IN IF o.k # "ok" THEN "unexpected-panic"
     ELSE IF ~IsInt(o.v) THEN "non-canonical-result"
     ELSE IF ~IEq(o.v, BytesValue(e.ty, le)) THEN "wrong-value" ELSE ""

ToChunksWhy(e) ==
  LET o == e.out IN
  IF e.cb = 0 THEN (IF o.k = "panic" THEN "" ELSE "no-panic-on-zero-chunk-bits")
  ELSE IF o.k # "ok" THEN "unexpected-panic"
  ELSE IF \E i \in 1..Len(o.chunks) : ~IsInt(o.chunks[i]) \/ BitLen(o.chunks[i].m) > e.cb THEN "chunk-wider-than-chunk-bits"
  ELSE IF ChunkSum(o.chunks, e.cb) # e.v.m THEN "chunks-do-not-sum-to-value"
  ELSE IF ~(IsInt(o.back) /\ IEq(o.back, e.v)) THEN "chunk-roundtrip"
  ELSE ""

FromChunksWhy(e) ==
  LET o == e.out IN
  IF e.cb = 0 THEN (IF o.k = "panic" THEN "" ELSE "no-panic-on-zero-chunk-bits")
  ELSE IF o.k # "ok" THEN "unexpected-panic"
  ELSE IF ~IsInt(o.v) THEN "non-canonical-result"
  ELSE IF o.v.m # ChunkSum(e.chunks, e.cb) \/ o.v.s # 0 THEN "wrong-value" ELSE ""

Why(e) ==
  CASE e.op = "fmt" -> FmtWhy(e)
    [] e.op = "parse" -> ParseWhy(e)
    [] e.op = "to_bytes" -> ToBytesWhy(e)
    [] e.op = "from_bytes" -> FromBytesWhy(e)
    [] e.op = "to_chunks" -> ToChunksWhy(e)
    [] e.op = "from_chunks" -> FromChunksWhy(e)
    [] OTHER -> "unknown-op"

VARIABLES l, bad
Init == l = 1 /\ bad = <<>>
Next == /\ l <= Len(Rec)
        /\ LET w == Why(Rec[l]) IN bad' = IF w = "" THEN bad ELSE Append(bad, [i |-> l, why |-> w])
        /\ l' = l + 1
Spec == Init /\ [][Next]_<<l, bad>>
Verdict == l > Len(Rec) => PrintT(<<"VERDICT", ToJson([total |-> Len(Rec), bad |-> bad])>>)
Complete == IF TLCGet("stats").diameter - 1 = Len(Rec) THEN TRUE
            ELSE PrintT(<<"TRUNCATED", TLCGet("stats").diameter>>) /\ FALSE
=============================================================================
