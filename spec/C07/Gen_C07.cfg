SPECIFICATION Spec
INVARIANT Emit
CONSTANTS
  Radices = {2, 3, 7, 8, 10, 16, 29, 36}
  Thorough = FALSE
  Seed = 1
CHECK_DEADLOCK FALSE
