----------------------------- MODULE PrintNp2Alg -----------------------------
(* Algorithm layer of C07 for printing in a radix that is not a power of two:
   integer/src/fmt/non_power_two.rs and radix.rs over a word of W bits and chunks of CL groups.

     radix_info            : digits_per_word = the largest k with R^k < Beta, range_per_word = R^k,
                             shift = leading zeros of the range
     fmt_non_power_two     : a word -> PreparedWord; a double word -> PreparedDword; large: by the bound
                             len * (digits_per_word + 1) <= CL * digits_per_word -> PreparedMedium, else
                             PreparedLarge
     PreparedWord          : digits by repeated division, zero-padded to min_digits, in an array of
                             MAX_WORD_DIGITS_NON_POW_2 entries
     PreparedDword         : three parts p2 p1 p0 separated by the range (two normalised 2-by-1 divisions,
                             the quotient shifted back: `double_word(q0, q1) << shift` must not overflow);
                             p0 always digits_per_word digits, p1 too unless it is the top part
     PreparedMedium        : a buffer of CL words; groups of digits_per_word digits split off by dividing
                             by the range while more than one word is left; the rest is the top group
     PreparedLarge         : radix_powers = range^CL squared repeatedly while not above the number (with a
                             shortcut on lengths); the number is divided by the powers from the largest
                             down (a power is skipped when the running quotient is below it); the
                             quotient left is the top chunk (a PreparedMedium), every remainder is
                             written as a fixed-width chunk by splitting it recursively
     width()               : must be the number of digits written (it positions the padding)
     DoubleEnd (Debug)     : the lowest digits_per_word decimal digits by a remainder, the highest through
                             the logarithm: number / 10^(exp + 1 - digits_per_word)

   Values are native integers, lengths through NWords; every array index, buffer copy and assertion of
   the code is an obligation.  TLC compares with the positional representation for every number of the
   scope x every radix. *)
EXTENDS Integers, Sequences, TLC
CONSTANTS W, CL, Radices, MaxN, MaxNear     \* every number up to MaxN, and the neighbours of powers below MaxNear (MaxNear * Beta^2 < 2^31)
Beta == 2^W
RECURSIVE BitLen(_)
BitLen(x) == IF x = 0 THEN 0 ELSE 1 + BitLen(x \div 2)
NWords(v) == IF v = 0 THEN 1 ELSE (BitLen(v) + W - 1) \div W          \* a Repr has at least one word here
RECURSIVE PowN(_, _)
PowN(b, e) == IF e = 0 THEN 1 ELSE b * PowN(b, e - 1)
RECURSIVE MaxExpFrom(_, _, _)
MaxExpFrom(base, e, p) == IF p * base < Beta THEN MaxExpFrom(base, e + 1, p * base) ELSE <<e, p>>
MaxExpInWord(base) == MaxExpFrom(base, 1, base)
RECURSIVE MaxExpFromD(_, _, _)
MaxExpFromD(base, e, p) == IF p * base < Beta * Beta THEN MaxExpFromD(base, e + 1, p * base) ELSE e
MaxWordDigits == MaxExpInWord(3)[1] + 1
MaxDwordDigits == MaxExpFromD(3, 1, 3) + 1

\* the positional representation, most significant digit first; <<>> for 0
RECURSIVE DigitsOf(_, _)
DigitsOf(v, R) == IF v = 0 THEN <<>> ELSE Append(DigitsOf(v \div R, R), v % R)
Canon(v, R) == IF v = 0 THEN <<0>> ELSE DigitsOf(v, R)
Zeros(k) == [i \in 1..k |-> 0]
Pad(ds, k) == IF Len(ds) >= k THEN ds ELSE Zeros(k - Len(ds)) \o ds
Max(a, b) == IF a > b THEN a ELSE b

P(ds, width, ok) == [ds |-> ds, width |-> width, ok |-> ok]

PreparedWord(word, R, min) ==
  LET d == Pad(DigitsOf(word, R), min) IN P(d, Len(d), Len(d) <= MaxWordDigits /\ word < Beta /\ min <= MaxWordDigits)

PreparedDword(dw, R) ==
  LET mw == MaxExpInWord(R)  dpw == mw[1]  range == mw[2]
      shift == W - BitLen(range)
      Q == dw \div range                      \* double_word(q0, q1)
      p0 == dw % range
      Qs == Q * 2^shift
      p1 == Q % range
      p2 == Q \div range
      d1 == IF p2 # 0 THEN Pad(DigitsOf(p1, R), dpw) ELSE DigitsOf(p1, R)
      ds == DigitsOf(p2, R) \o d1 \o Pad(DigitsOf(p0, R), dpw)
  IN P(ds, Len(ds), /\ dw >= Beta /\ dw < Beta * Beta
                    /\ Qs < Beta * Beta                              \* the shift back does not overflow
                    /\ Qs \div Beta < range * 2^shift                \* precondition of the last 2-by-1 division
                    /\ p2 < Beta
                    /\ Len(ds) <= MaxDwordDigits)

\* PreparedMedium::new
RECURSIVE MediumLoop(_, _, _)
MediumLoop(n, range, groups) ==      \* groups: least significant first
  IF NWords(n) > 1 THEN MediumLoop(n \div range, range, Append(groups, n % range)) ELSE <<n, groups>>
RECURSIVE GroupsDigits(_, _, _, _)
GroupsDigits(groups, i, R, dpw) == IF i = 0 THEN <<>> ELSE Pad(DigitsOf(groups[i], R), dpw) \o GroupsDigits(groups, i - 1, R, dpw)
PreparedMedium(n, R) ==
  LET mw == MaxExpInWord(R)  dpw == mw[1]  range == mw[2]
      l == MediumLoop(n, range, <<>>)
      top == PreparedWord(l[1], R, 1)
      ng == Len(l[2])
  IN P(top.ds \o GroupsDigits(l[2], ng, R, dpw), top.width + ng * dpw,
       top.ok /\ NWords(n) <= CL /\ ng <= CL)              \* the buffer copy; low_groups[num_low_groups]

\* PreparedLarge
RECURSIVE PowersLoop(_, _)
PowersLoop(ps, n) ==
  LET prev == ps[Len(ps)] IN
  IF 2 * NWords(prev) - 1 > NWords(n) THEN ps
  ELSE IF prev * prev > n THEN ps ELSE PowersLoop(Append(ps, prev * prev), n)
\* divide by the powers from the top: st = [x, chunks (in push order: <<i, r>> with i 0-based)]
RECURSIVE Decompose(_, _, _, _)
Decompose(ps, i, x, chunks) ==
  IF i = 0 THEN <<x, chunks>>
  ELSE IF i = Len(ps) \/ x >= ps[i] THEN Decompose(ps, i - 1, x \div ps[i], Append(chunks, <<i - 1, x % ps[i]>>))
  ELSE Decompose(ps, i - 1, x, chunks)
WriteChunk(x, R) ==
  LET mw == MaxExpInWord(R)  dpw == mw[1]  range == mw[2]
      gs == [k \in 1..CL |-> (x \div PowN(range, k - 1)) % range]
  IN P(GroupsDigits(gs, CL, R, dpw), CL * dpw, NWords(x) <= CL /\ x \div PowN(range, CL) = 0)      \* assert_eq!(buffer_len, 0)
RECURSIVE WriteBigChunk(_, _, _, _)
WriteBigChunk(ps, i, x, R) ==
  IF i = 0 THEN WriteChunk(x, R)
  ELSE LET a == WriteBigChunk(ps, i - 1, x \div ps[i], R)
           b == WriteBigChunk(ps, i - 1, x % ps[i], R)
       IN P(a.ds \o b.ds, a.width + b.width, a.ok /\ b.ok)
RECURSIVE WriteChunks(_, _, _, _)
WriteChunks(ps, chunks, k, R) ==      \* from the last pushed to the first
  IF k = 0 THEN P(<<>>, 0, TRUE)
  ELSE LET a == WriteBigChunk(ps, chunks[k][1], chunks[k][2], R)
           b == WriteChunks(ps, chunks, k - 1, R)
       IN P(a.ds \o b.ds, a.width + b.width, a.ok /\ b.ok)
RECURSIVE WidthSum(_, _, _)
WidthSum(chunks, k, unit) == IF k = 0 THEN 0 ELSE unit * 2^(chunks[k][1]) + WidthSum(chunks, k - 1, unit)
PreparedLarge(n, R) ==
  LET mw == MaxExpInWord(R)  dpw == mw[1]  range == mw[2]
      cp == PowN(range, CL)
  IN IF cp > n THEN PreparedMedium(n, R)
     ELSE LET ps == PowersLoop(<<cp>>, n)
              d == Decompose(ps, Len(ps), n, <<>>)
              top == PreparedMedium(d[1], R)
              rest == WriteChunks(ps, d[2], Len(d[2]), R)
          IN P(top.ds \o rest.ds, top.width + WidthSum(d[2], Len(d[2]), dpw * CL), top.ok /\ rest.ok)

FmtNp2(n, R) ==
  IF n < Beta THEN PreparedWord(n, R, 1)
  ELSE IF n < Beta * Beta THEN PreparedDword(n, R)
  ELSE LET dpw == MaxExpInWord(R)[1] IN
       IF NWords(n) * (dpw + 1) <= CL * dpw THEN PreparedMedium(n, R) ELSE PreparedLarge(n, R)

\* DoubleEnd::fmt_non_power_two on a large number: [hi, lo, digits, ok]
RECURSIVE Log10(_)
Log10(n) == IF n < 10 THEN 0 ELSE 1 + Log10(n \div 10)
DoubleEnd(n) ==
  LET mw == MaxExpInWord(10)  dpw == mw[1]  range == mw[2]
      low == PreparedWord(n % range, 10, dpw)
      exp == Log10(n)
      pow == PowN(10, exp) \div (range \div 10)
      high == PreparedWord(n \div pow, 10, dpw)
  IN [hi |-> high.ds, lo |-> low.ds, digits |-> exp + 1,
      ok |-> low.ok /\ high.ok /\ PowN(10, exp) % (range \div 10) = 0 /\ NWords(pow) > 1 /\ n \div pow < Beta]

VARIABLES n, R
RECURSIVE PowsBelow(_, _)
PowsBelow(r, p) == IF p * r >= MaxNear THEN {p} ELSE {p} \cup PowsBelow(r, p * r)
Near == UNION {{p - 1, p, p + 1} : p \in UNION {PowsBelow(r, r) : r \in Radices \cup {2}}}
Init == R \in Radices /\ n \in (0..MaxN) \cup {v \in Near : v >= 0 /\ v < MaxNear}
Next == UNCHANGED <<n, R>>
Spec == Init /\ [][Next]_<<n, R>>
PrintOK == LET r == FmtNp2(n, R) IN r.ok /\ r.ds = Canon(n, R) /\ r.width = Len(r.ds)
DoubleEndOK == (R = 10 /\ n >= Beta * Beta) =>
  LET r == DoubleEnd(n)  c == Canon(n, 10)  dpw == MaxExpInWord(10)[1] IN
  /\ r.ok /\ r.digits = Len(c)
  /\ r.hi = SubSeq(c, 1, dpw) /\ r.lo = SubSeq(c, Len(c) - dpw + 1, Len(c))
=============================================================================
