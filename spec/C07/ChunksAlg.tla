------------------------------ MODULE ChunksAlg ------------------------------
(* Algorithm layer of C07 for to_chunks / from_chunks: integer/src/convert.rs (TypedReprRef::to_chunks,
   words_to_chunks, chunks_to_words) over a word of W bits: which words a chunk of chunk_bits bits is
   copied from, how many, what is masked and shifted - for chunk sizes that are multiples of the word
   (the copy shortcut, whose last chunk may be shorter) and for those that are not.

   Every slice of the code is an obligation (its bounds must lie inside the word array / the chunk
   buffer of ceil(chunk_bits / W) + 1 words).  TLC checks: chunk i = (x >> i chunk_bits) mod
   2^chunk_bits, the number of chunks is ceil(bit_len / chunk_bits), and from_chunks (shift each chunk
   into place and add, the carry must be zero) returns x. *)
EXTENDS Integers, Sequences, TLC
CONSTANTS W, MaxWords, MaxChunkBits
Beta == 2^W
RECURSIVE BitLen(_)
BitLen(x) == IF x = 0 THEN 0 ELSE 1 + BitLen(x \div 2)
CeilDiv(a, b) == (a + b - 1) \div b
Min(a, b) == IF a < b THEN a ELSE b
NWords(v) == CeilDiv(BitLen(v), W)
\* the bits [lo, hi) of x
Bits(x, lo, hi) == (x \div 2^lo) % 2^(hi - lo)
\* the value of words[a..b] (word indices, b exclusive) = bits [a W, b W)
WordsVal(x, a, b) == Bits(x, a * W, b * W)

\* chunk i of the large path: [v |-> value left in the chunk buffer, ok |-> all slice bounds valid]
LargeChunk(x, cb, i) ==
  LET n == NWords(x)
      wpc == CeilDiv(cb, W)                    \* the chunk buffer has wpc + 1 words
  IN IF cb % W = 0
     THEN LET per == cb \div W
              sp == i * per
              ep == Min(sp + per, n)
          IN [v |-> WordsVal(x, sp, ep), ok |-> sp <= ep /\ ep - sp <= wpc + 1]
     ELSE LET bl == BitLen(x)
              start == i * cb
              end == Min(bl, start + cb)
              sp == start \div W  ep == end \div W
              eb == end % W
          IN IF eb # 0
             THEN LET len == ep - sp
                      \* words[sp..=ep] with the top word masked to eb bits, then shifted right by start mod W
                      raw == Bits(x, sp * W, ep * W + eb)
                  IN [v |-> raw \div 2^(start % W), ok |-> start < end /\ ep <= n - 1 /\ sp <= ep /\ len <= wpc]
             ELSE LET len == ep - sp - 1
                      raw == WordsVal(x, sp, ep)
                  IN [v |-> raw \div 2^(start % W), ok |-> start < end /\ ep <= n /\ sp < ep /\ len <= wpc /\ len >= 0]
\* TypedReprRef::to_chunks: the inline path (values below Beta^2) extracts with shifts and masks
ToChunks(x, cb) ==
  LET cnt == CeilDiv(BitLen(x), cb) IN
  IF x < Beta * Beta
  THEN IF cnt = 0 THEN [cs |-> <<>>, ok |-> TRUE]
       ELSE IF cnt = 1 THEN [cs |-> <<x>>, ok |-> TRUE]
       ELSE [cs |-> [i \in 1..cnt |-> Bits(x, (i - 1) * cb, i * cb)], ok |-> cb <= 2 * W]    \* `chunk_bits as u8` / ones_dword(chunk_bits)
  ELSE LET r == [i \in 1..cnt |-> LargeChunk(x, cb, i - 1)]
       IN [cs |-> [i \in 1..cnt |-> r[i].v], ok |-> \A i \in 1..cnt : r[i].ok]
\* from_chunks: words_out += chunk << (i chunk_bits)
RECURSIVE FromChunks(_, _, _, _)
FromChunks(cs, cb, i, acc) == IF i > Len(cs) THEN acc ELSE FromChunks(cs, cb, i + 1, acc + cs[i] * 2^((i - 1) * cb))

\* Repr::from_chunks on ARBITRARY chunks (they may be wider than chunk_bits: the sum overlaps):
\* result buffer of max_len + (n - 1) chunk_bits + 1 words, shift buffer of max_len + 1 words
RECURSIVE MaxLen(_, _)
MaxLen(cs, i) == IF i > Len(cs) THEN 0 ELSE LET r == MaxLen(cs, i + 1) l == NWords(cs[i]) IN IF l > r THEN l ELSE r
FromChunksOK(cs, c) ==
  LET ml == MaxLen(cs, 1)
      rl == ml + (Len(cs) - 1) * c + 1
      sum == FromChunks(cs, c, 1, 0)
  IN /\ \A i \in 1..Len(cs) :
          LET l == NWords(cs[i])  sh == (i - 1) * c IN
          /\ l + 1 <= ml + 1                               \* buffer[..=chunk.len()]
          /\ sh \div W <= rl                               \* words_out[shift / W..]
          /\ rl - sh \div W >= l + 1                       \* add_in_place: the left operand is at least as long
     /\ BitLen(sum) <= W * rl                              \* debug_assert_zero!(carry)

VARIABLES x, cb
Init == x \in 0..(Beta^MaxWords - 1) /\ cb \in 1..MaxChunkBits
Next == UNCHANGED <<x, cb>>
Spec == Init /\ [][Next]_<<x, cb>>
ChunksOK ==
  LET r == ToChunks(x, cb)
      cnt == CeilDiv(BitLen(x), cb)
  IN /\ r.ok /\ Len(r.cs) = cnt
     /\ \A i \in 1..cnt : r.cs[i] = Bits(x, (i - 1) * cb, i * cb)
     /\ FromChunks(r.cs, cb, 1, 0) = x
     /\ (cnt > 0 => FromChunksOK(r.cs, cb))
\* arbitrary chunk lists: x encodes up to three chunks of MaxWords words... (x = c1 + Beta^MaxWords c2 + ...)
ArbInit == x \in 0..(Beta^(2 * MaxWords) - 1) /\ cb \in 1..MaxChunkBits
ArbSpec == ArbInit /\ [][Next]_<<x, cb>>
ArbOK == LET M == Beta^MaxWords IN
         /\ FromChunksOK(<<x % M, x \div M>>, cb)
         /\ FromChunksOK(<<x % M, 0, x \div M>>, cb)
=============================================================================
