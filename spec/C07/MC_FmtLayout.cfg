SPECIFICATION Spec
INVARIANT Conforms
INVARIANT OneBranch
CONSTANTS
  MaxDigits = 6
  MaxWidth = 9
CHECK_DEADLOCK FALSE
