---------------------------- MODULE FmtLayoutAlg ----------------------------
(***************************************************************************)
(* Algorithm layer of C07: the padding / sign / prefix logic of             *)
(* integer/src/fmt/mod.rs transcribed branch by branch:                     *)
(*   - the trait impls (Display, Binary, Octal, LowerHex, UpperHex for UBig *)
(*     and IBig, Display for InRadix) choose radix, prefix and digit case;  *)
(*   - InRadixWriter::format_prepared lays out sign, prefix, digits and     *)
(*     padding: one action per branch (NoWidth, WideEnough, ZeroPad,        *)
(*     FillLeft, FillRight, FillCenter).                                    *)
(* Model-checked exhaustively in a small scope against TextDef!Layout:      *)
(* all kinds x sign x '+' x '#' x '0' x alignments x digit counts x widths. *)
(* The digits themselves are abstract here (distinct codes), the converters *)
(* are exercised on real operands by the conformance runs.                  *)
(***************************************************************************)
EXTENDS TextDef
CONSTANTS MaxDigits, MaxWidth

Kinds == {"display", "binary", "octal", "lhex", "uhex", "inradix"}
Fill == <<42>>
\* abstract digit string of length n: first digit '1', then distinguishable codes
D(n) == [i \in 1..n |-> IF i = 1 THEN 49 ELSE 49 + i]

VARIABLES pc, kind, neg, plus, alt, zero, align, nd, w, out, path
vars == <<pc, kind, neg, plus, alt, zero, align, nd, w, out, path>>

Init == /\ pc = "pick" /\ kind \in Kinds /\ neg \in BOOLEAN /\ plus \in BOOLEAN /\ alt \in BOOLEAN
        /\ zero = FALSE /\ align = "n" /\ nd = 1 /\ w = -1 /\ out = <<>> /\ path = ""
Pick == /\ pc = "pick" /\ pc' = "fmt"
        /\ zero' \in BOOLEAN /\ align' \in {"n", "l", "c", "r"} /\ nd' \in 1..MaxDigits /\ w' \in -1..MaxWidth
        /\ UNCHANGED <<kind, neg, plus, alt, out, path>>

\* --- the trait impls: `prefix: if f.alternate() { "0x" } else { "" }`, InRadix: no prefix
AlgPrefix == IF kind = "binary" THEN (IF alt THEN <<48, 98>> ELSE <<>>)
             ELSE IF kind = "octal" THEN (IF alt THEN <<48, 111>> ELSE <<>>)
             ELSE IF kind \in {"lhex", "uhex"} THEN (IF alt THEN <<48, 120>> ELSE <<>>)
             ELSE <<>>
\* --- format_prepared: `let sign = if self.sign == Negative {"-"} else if f.sign_plus() {"+"} else {""}`
AlgSign == IF neg THEN <<45>> ELSE IF plus THEN <<43>> ELSE <<>>
\* `width += sign.len() + self.prefix.len()` where width = prepared.width() = number of digits
AlgWidth == nd + Len(AlgSign) + Len(AlgPrefix)
Chars(c, n) == [i \in 1..n |-> c]

Finish(o, p) == pc' = "done" /\ out' = o /\ path' = p /\ UNCHANGED <<kind, neg, plus, alt, zero, align, nd, w>>

\* match f.width() { None => sign, prefix, digits
NoWidth == pc = "fmt" /\ w < 0 /\ Finish(AlgSign \o AlgPrefix \o D(nd), "NoWidth")
\* Some(min_width) => if width >= min_width { sign, prefix, digits }
WideEnough == pc = "fmt" /\ w >= 0 /\ AlgWidth >= w /\ Finish(AlgSign \o AlgPrefix \o D(nd), "WideEnough")
\* else if f.sign_aware_zero_pad() { sign, prefix, '0' * (min_width - width), digits }
ZeroPad == pc = "fmt" /\ w >= 0 /\ AlgWidth < w /\ zero
           /\ Finish(AlgSign \o AlgPrefix \o Chars(48, w - AlgWidth) \o D(nd), "ZeroPad")
\* else { left_pad = match f.align() { Left => 0, Right | None => min_width - width, Center => (min_width - width) / 2 };
\*        fill * left_pad, sign, prefix, digits, fill * (min_width - width - left_pad) }
FillWith(left, p) == Finish(Chars(Fill[1], left) \o AlgSign \o AlgPrefix \o D(nd) \o Chars(Fill[1], (w - AlgWidth) - left), p)
FillLeft == pc = "fmt" /\ w >= 0 /\ AlgWidth < w /\ ~zero /\ align = "l" /\ FillWith(0, "FillLeft")
FillRight == pc = "fmt" /\ w >= 0 /\ AlgWidth < w /\ ~zero /\ align \in {"r", "n"} /\ FillWith(w - AlgWidth, "FillRight")
FillCenter == pc = "fmt" /\ w >= 0 /\ AlgWidth < w /\ ~zero /\ align = "c" /\ FillWith((w - AlgWidth) \div 2, "FillCenter")

Next == Pick \/ NoWidth \/ WideEnough \/ ZeroPad \/ FillLeft \/ FillRight \/ FillCenter
Spec == Init /\ [][Next]_vars

\* the definition: TextDef!Layout with TextDef's own sign / prefix rules
Conforms == pc = "done" =>
  out = Layout(SignStr(neg, plus), PrefixStr(kind, alt), D(nd), w, Fill, align, zero)
\* every picked state is handled by exactly one branch
OneBranch == pc = "fmt" =>
  Cardinality({b \in {"NoWidth", "WideEnough", "ZeroPad", "FillLeft", "FillRight", "FillCenter"} :
     CASE b = "NoWidth" -> w < 0
       [] b = "WideEnough" -> w >= 0 /\ AlgWidth >= w
       [] b = "ZeroPad" -> w >= 0 /\ AlgWidth < w /\ zero
       [] b = "FillLeft" -> w >= 0 /\ AlgWidth < w /\ ~zero /\ align = "l"
       [] b = "FillRight" -> w >= 0 /\ AlgWidth < w /\ ~zero /\ align \in {"r", "n"}
       [] b = "FillCenter" -> w >= 0 /\ AlgWidth < w /\ ~zero /\ align = "c"}) = 1
=============================================================================
