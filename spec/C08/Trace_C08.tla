----------------------------- MODULE Trace_C08 -----------------------------
(* Trace monitor for C08: every recorded parse / print / base or precision change / float import is
   evaluated against FloatTextDef and FloatDef on exact rationals.  Never blocks: a failing event is
   recorded in `bad` with the violated clause. *)
EXTENDS FloatTextDef, Json, IOUtils
Rec == ndJsonDeserialize(IOEnv.TRACE)

FirstWhy(ws) ==
  LET badg == {i \in 1..Len(ws) : ws[i] # ""}
  IN IF badg = {} THEN "" ELSE ws[CHOOSE i \in badg : \A j \in badg : i <= j]

\* ---------------------------------------------------------------- parse
ParseOut(B, g, o) ==
  IF ~g.ok THEN ""                                   \* not a literal of the documented grammar: nothing is promised
  ELSE IF o.k = "panic" THEN "unexpected-panic"
  ELSE IF o.k = "err" THEN "literal-rejected"
  ELSE IF ~WellFormedFloat(o.v) THEN "malformed-result"
  ELSE IF ~FloatIs(B, o.v, g.neg, g.sig, g.exp) THEN "parsed-value-differs"
  ELSE IF o.v.prec # g.nd THEN "precision-not-digit-count"
  ELSE ""
ParseWhy(e) ==
  LET g == ParseFloat(e.text, e.base)
  IN FirstWhy([i \in 1..Len(e.outs) |-> ParseOut(e.base, g, e.outs[i].out)])

\* ---------------------------------------------------------------- print
XVal(B, x) == FVal(B, F(x.sig, x.exp))
PrintOut(e, o) ==
  LET B == e.base
      x == e.x
  IN IF o.k # "ok" THEN "unexpected-panic"
     ELSE LET g == ParseFloat(o.text, B) IN
     IF e.fprec < 0 THEN
        \* print, then parse: an equal number
        IF o.back.k # "ok" THEN "printed-text-does-not-parse"
        ELSE IF ~WellFormedFloat(o.back.v) THEN "malformed-result"
        ELSE IF ~FloatIs(B, o.back.v, x.sig.s = 1, x.sig.m, x.exp) THEN "print-parse-roundtrip-differs"
        ELSE IF g.ok /\ ~(MagEq(B, g.sig, g.exp, x.sig.m, x.exp) /\ (x.sig.m # <<>> => g.neg = (x.sig.s = 1)))
             THEN "printed-text-denotes-another-value"
        ELSE ""
     ELSE IF ~g.ok THEN "printed-text-not-a-literal"
     ELSE IF e.kind = "display" THEN
        IF g.marker THEN "unexpected-exponent-marker"
        ELSE IF g.nfrac # e.fprec THEN "wrong-number-of-fraction-digits"
        ELSE RoundIntWhy(e.mode, FVal(B, F(x.sig, x.exp + e.fprec)), I(IF g.neg THEN 1 ELSE 0, g.sig))
     ELSE IF e.kind \in {"lexp", "uexp", "binary", "octal"} \/ (e.kind \in {"lhex", "uhex"} /\ B = 16) THEN
        \* scientific: fprec fractional digits of the mantissa = fprec + 1 significant digits
        LET r == F(I(IF g.neg THEN 1 ELSE 0, g.sig), g.exp)
            xq == XVal(B, x)
        IN RoundedWhy(B, e.fprec + 1, e.mode, xq, r, IF QEq(FVal(B, r), xq) THEN "Exact" ELSE "NoOp")
     ELSE ""
PrintWhy(e) ==
  IF ~WellFormedFloat(e.x) \/ e.x.inf # 0 THEN "malformed-event"
  ELSE FirstWhy([i \in 1..Len(e.outs) |-> PrintOut(e, e.outs[i].out)])

\* ---------------------------------------------------------------- base / precision change
PowLe(a, n, b, m) == Cmp(Pow(FromNat(a), n), Pow(FromNat(b), m)) <= 0
ConvertWhy(e) ==
  LET B == e.base
      x == e.x
      o == e.out
      auto == e.fn \in {"with_base", "to_decimal", "to_binary"}
      tb == IF e.fn = "with_precision" THEN B ELSE IF e.fn = "to_decimal" THEN 10 ELSE IF e.fn = "to_binary" THEN 2 ELSE e.tbase
      mode == IF e.fn = "to_decimal" THEN "HalfAway" ELSE IF e.fn = "to_binary" THEN "Zero" ELSE e.mode
  IN IF ~WellFormedFloat(x) \/ x.inf # 0 THEN "malformed-event"
     ELSE IF o.k # "ok" THEN
        \* documented panic: the target precision is 0 (unlimited) and the conversion may be inexact.
        \* with_base chooses the largest p' with tb^p' <= B^p, which is 0 when tb > B^p
        (IF (auto /\ ~PowLe(tb, 1, B, x.prec)) \/ (~auto /\ e.tprec = 0) THEN "" ELSE "unexpected-panic")
     ELSE LET r == o.v
              rf == F(r.sig, r.exp)
              xq == XVal(B, x)
          IN IF ~WellFormedFloat(r) THEN "malformed-result"
             ELSE IF r.inf # 0 THEN "infinite-result"
             ELSE IF ~auto /\ r.prec # e.tprec THEN "wrong-result-precision"
             ELSE IF auto /\ x.prec > 0 /\ ~PowLe(tb, r.prec, B, x.prec) THEN "result-precision-exceeds-source"
             ELSE IF r.prec = 0 THEN (IF QEq(FVal(tb, rf), xq) /\ o.flag = "Exact" THEN "" ELSE "inexact-at-unlimited-precision")
             \* residual bound of the known large-exponent findings: an error of two units or more is its own clause
             ELSE IF r.exp > 6000 \/ r.exp < -6000 THEN "error-ge-2ulp"
             ELSE IF ~QIsZero(xq) /\ ~QLt(QAbs(QSub(FVal(tb, rf), xq)), QMulInt(Ulp(tb, r.prec, xq), IFromNative(2))) THEN "error-ge-2ulp"
             ELSE RoundedWhy(tb, r.prec, mode, xq, rf, o.flag)

\* ---------------------------------------------------------------- import of f32 / f64
FromFOut(d, o) ==
  IF o.k = "panic" THEN "unexpected-panic"
  ELSE IF d.cls = "nan" THEN (IF o.k = "err" THEN "" ELSE "nan-accepted")
  ELSE IF o.k # "ok" THEN "finite-or-infinite-rejected"
  ELSE IF ~WellFormedFloat(o.v) THEN "malformed-result"
  ELSE IF d.cls = "inf" THEN (IF o.v.inf = (IF d.neg THEN -1 ELSE 1) THEN "" ELSE "wrong-infinity")
  ELSE IF FloatIs(2, o.v, d.neg, d.m, d.e) THEN "" ELSE "conversion-not-exact"
FromFWhy(e) ==
  LET d == IF e.ty = "f32" THEN DecodeF32(e.bits) ELSE DecodeF64(e.bits)
  IN FirstWhy([i \in 1..Len(e.outs) |-> FromFOut(d, e.outs[i].out)])

Why(e) ==
  CASE e.op = "parse" -> ParseWhy(e)
    [] e.op = "print" -> PrintWhy(e)
    [] e.op = "convert" -> ConvertWhy(e)
    [] e.op = "from_f" -> FromFWhy(e)
    [] OTHER -> "unknown-op"

\* ---------------------------------------------------------------- beyond the statement: the layout of a padded float
\* C08 speaks about the digits; these observations are reported separately ("beyond") and never as a violation.
\* A print event may carry `pads`: the same value and precision printed with a width.  Each must be the unpadded text
\* (with '+' when asked for) laid out as core::fmt pads a number: TextDef!Layout with the sign split off.
SplitSign(t) == IF Len(t) >= 1 /\ t[1] \in {CMinus, CPlus} THEN <<SubSeq(t, 1, 1), SubSeq(t, 2, Len(t))>> ELSE <<(<<>>), t>>
PadItemWhy(pd, it) ==
  IF it.out.k # "ok" THEN "beyond:padded-print-panics"
  ELSE LET sp == SplitSign(IF it.plus THEN pd.plus ELSE pd.plain)
       IN IF it.out.text = Layout(sp[1], <<>>, sp[2], it.w, <<it.fill>>, it.align, it.zero) THEN "" ELSE "beyond:float-layout-mismatch"
HasPads(e) == e.op = "print" /\ "pads" \in DOMAIN e
BeyondWhy(e) == IF ~HasPads(e) THEN "" ELSE FirstWhy([i \in 1..Len(e.pads.items) |-> PadItemWhy(e.pads, e.pads.items[i])])

VARIABLES l, bad, byd, nbyd
Init == l = 1 /\ bad = <<>> /\ byd = <<>> /\ nbyd = 0
Next == /\ l <= Len(Rec)
        /\ LET w == Why(Rec[l]) IN bad' = IF w = "" THEN bad ELSE Append(bad, [i |-> l, why |-> w])
        /\ LET w == BeyondWhy(Rec[l]) IN byd' = IF w = "" THEN byd ELSE Append(byd, [i |-> l, why |-> w])
        /\ nbyd' = IF HasPads(Rec[l]) THEN nbyd + Len(Rec[l].pads.items) ELSE nbyd
        /\ l' = l + 1
Spec == Init /\ [][Next]_<<l, bad, byd, nbyd>>
Verdict == l > Len(Rec) => PrintT(<<"VERDICT", ToJson([total |-> Len(Rec), bad |-> bad, beyond |-> byd, beyond_checked |-> nbyd])>>)
Complete == IF TLCGet("stats").diameter - 1 = Len(Rec) THEN TRUE
            ELSE PrintT(<<"TRUNCATED", TLCGet("stats").diameter>>) /\ FALSE
=============================================================================
