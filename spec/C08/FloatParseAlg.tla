--------------------------- MODULE FloatParseAlg ---------------------------
(* Algorithm layer of C08 for parsing: float/src/parse.rs (Repr::from_str_native) after the sign and
   the scale marker have been split off, i.e. the arithmetic on digit counts and exponents, with the
   range of isize scaled down to -IMax-1 .. IMax so that every overflow is reachable:

     scale               : the number behind the marker (parse::<isize>: out of range -> Err)
     body with a point   : integral digits (hexadecimal when base 2 carries the 0x prefix: four bits per
                           digit), fractional digits; a zero fraction leaves significand and exponent
                           alone; otherwise exponent = scale - fraction digits (checked) and
                           significand = int * B^fraction_digits + fract
     body without point  : significand = the digits (hexadecimal with the prefix)
     the `p` marker      : only together with the 0x prefix (base 2)
     before Repr::new    : Repr::new moves the trailing zero digits of the significand into the
                           exponent with an unchecked addition; the parser checks that addition first
                           whenever exponent + ndigits does not fit

   Definition: the text denotes (digits as written) * B^(scale - fraction digits); the result must be
   exactly that number in normalised form with precision = number of digits written (bits for the
   hexadecimal form); Err is acceptable only when the exponent as written, or the normalised exponent,
   does not fit an isize.  Obligation: no isize operation overflows (Repr::new included). *)
EXTENDS Integers, Sequences, TLC
CONSTANTS B,        \* 2 or 10 (any base without a prefix form behaves like 10)
          IMax,     \* isize::MAX scaled down
          MaxInt, MaxFrac   \* digit counts explored
IMin == -IMax - 1
InI(v) == v >= IMin /\ v <= IMax
RECURSIVE ValOfDigits(_, _, _)
ValOfDigits(ds, base, acc) == IF ds = <<>> THEN acc ELSE ValOfDigits(Tail(ds), base, acc * base + ds[1])
RECURSIVE PowN(_, _)
PowN(b, e) == IF e = 0 THEN 1 ELSE b * PowN(b, e - 1)
RECURSIVE TrailZ(_, _)
TrailZ(n, base) == IF n = 0 THEN 0 ELSE IF n % base = 0 THEN 1 + TrailZ(n \div base, base) ELSE 0
Norm(sig, exp) == IF sig = 0 THEN <<0, 0>> ELSE LET z == TrailZ(sig, B) IN <<sig \div PowN(B, z), exp + z>>

Ok(sig, exp, nd) == [k |-> "ok", sig |-> sig, exp |-> exp, nd |-> nd, safe |-> TRUE]
Err(e) == [k |-> "err", e |-> e, safe |-> TRUE]
Unsafe == [k |-> "overflow", safe |-> FALSE]

\* the guarded normalisation and Repr::new
Finish(sig, exponent, nd) ==
  LET z == IF sig = 0 THEN 0 ELSE TrailZ(sig, B)
      guarded == ~InI(exponent + nd)                                    \* exponent.checked_add(ndigits).is_none()
  IN IF guarded /\ ~InI(exponent + z) THEN Err("InvalidDigit")
     ELSE IF ~InI(exponent + z) THEN Unsafe                             \* Repr::new would overflow unchecked
     ELSE LET n == Norm(sig, exponent) IN Ok(n[1], n[2], nd)


\* inputs: int digits, hasdot, frac digits, scale (already an isize), marker in {"none", "e", "p"}, hex (0x prefix, B = 2 only)
Parse(int, hasdot, frac, scale, marker, hex) ==
  LET pm == marker = "p"
      dbase == IF hex THEN 16 ELSE B
      per == IF hex THEN 4 ELSE 1
  IN
  IF hasdot THEN
    IF int = <<>> /\ frac = <<>> /\ ~hex THEN Err("NoDigits")
    ELSE IF B = 2 /\ pm /\ ~hex THEN Err("UnsupportedRadix")          \* covers the empty integral part too
    ELSE LET iv == ValOfDigits(int, dbase, 0)
             idig == per * Len(int)
             \* the base of the fraction is the base of the integral part; without an integral part it is B
             fbase == IF int = <<>> /\ ~hex THEN B ELSE dbase
             fdig == (IF B = 2 /\ fbase = 16 THEN 4 ELSE 1) * Len(frac)
             fv == ValOfDigits(frac, fbase, 0)
             nd == idig + fdig
         IN IF fv = 0 THEN Finish(iv, scale, nd)
            ELSE IF ~InI(scale - fdig) THEN Err("InvalidDigit")
            ELSE Finish(iv * PowN(B, fdig) + fv, scale - fdig, nd)
  ELSE IF B = 2 /\ pm /\ ~hex THEN Err("UnsupportedRadix")
  ELSE IF int = <<>> THEN Err("NoDigits")
  ELSE Finish(ValOfDigits(int, dbase, 0), scale, per * Len(int))
VARIABLES int, frac, hasdot, scale, marker, hex, phase
vars == <<int, frac, hasdot, scale, marker, hex, phase>>
Dig(base) == 0..(base - 1)
Seqs(S, n) == UNION {[1..k -> S] : k \in 0..n}
Init == /\ phase = "pick" /\ int = <<>> /\ frac = <<>> /\ hasdot = FALSE /\ scale = 0 /\ marker = "none"
        /\ hex \in (IF B = 2 THEN BOOLEAN ELSE {FALSE})
Pick == /\ phase = "pick" /\ phase' = "done" /\ UNCHANGED hex
        /\ LET base == IF hex THEN 16 ELSE B
               \* a sparse digit alphabet keeps the space small: 0, 1, the top digit, and (hex) 8
               A == IF hex THEN {0, 1, 8, 15} ELSE IF B = 2 THEN {0, 1} ELSE {0, 1, 5, B - 1}
           IN /\ int' \in Seqs(A, MaxInt) /\ frac' \in Seqs(A, MaxFrac)
        /\ hasdot' \in BOOLEAN /\ (hasdot' = FALSE => frac' = <<>>)
        /\ marker' \in (IF B = 2 THEN {"none", "e", "p"} ELSE {"none", "e"})
        /\ scale' \in (IF marker' = "none" THEN {0} ELSE IMin..IMax)
Next == Pick
Spec == Init /\ [][Next]_vars

\* ---- definition
WrittenDigits == (IF hex THEN 4 ELSE 1) * (Len(int) + Len(frac))
WrittenValue ==      \* <<significand, exponent>> of the text as written, unbounded integers
  LET base == IF hex THEN 16 ELSE B
      n == ValOfDigits(int \o frac, base, 0)
      fd == (IF hex THEN 4 ELSE 1) * Len(frac)
  IN <<n, scale - fd>>
Valid == (int # <<>> \/ frac # <<>>) /\ (marker = "p" => hex) /\ (hex => int # <<>> \/ hasdot)
ParseOK == phase = "done" =>
  LET r == Parse(int, hasdot, frac, scale, marker, hex)
      w == WrittenValue
      nw == Norm(w[1], w[2])
  IN /\ r.safe
     \* (texts outside the grammar, e.g. "0x." or a `p` scale without prefix, carry no obligation here)
     /\ (r.k = "ok" /\ Valid => <<r.sig, r.exp>> = nw /\ r.nd = WrittenDigits)
     /\ (r.k = "err" /\ Valid => ~InI(w[2]) \/ ~InI(nw[2]))
=============================================================================
