---------------------------- MODULE FloatTextDef ----------------------------
(***************************************************************************)
(* Definition layer of C08: the documented float literal grammar            *)
(* (FBig::from_str_native docs in float/src/parse.rs) as a recogniser over  *)
(* byte sequences, the value / precision a literal denotes, rounding of a   *)
(* printed number to a given number of fractional digits, the contract of   *)
(* base / precision changes (FloatDef!Rounded at the target precision) and  *)
(* the value of an IEEE bit pattern.  The only formulas that can raise a    *)
(* C08 violation.                                                           *)
(*                                                                          *)
(* Grammar in base B (2..36):   [+|-] mantissa [marker [+|-] decimal]       *)
(*   mantissa  aaa | aaa. | aaa.bbb | .bbb  with digits of base B in either *)
(*             case and single '_' between digits; for B = 2 also           *)
(*             0xaaa[.bbb] with hexadecimal digits (4 binary digits each)   *)
(*   marker    '@' in every base; e/E (B = 10); b/B (B = 2); p/P (B = 2,    *)
(*             hexadecimal mantissa, scale is a power of two); o/O (B = 8); *)
(*             h/H (B = 16)                                                 *)
(*   value     aaabbb * B^(cc - len(bbb)),  precision = number of digits    *)
(*             written in aaa and bbb (in base B digits)                    *)
(***************************************************************************)
EXTENDS FloatDef, TextDef

CDot == 46
CAt == 64
IsMarker(c, B, hex) ==
  IF c = CAt THEN TRUE
  ELSE IF B = 10 THEN c \in {101, 69}
  ELSE IF B = 2 THEN (IF hex THEN c \in {112, 80} ELSE c \in {98, 66})
  ELSE IF B = 8 THEN c \in {111, 79}
  ELSE IF B = 16 THEN c \in {104, 72}
  ELSE FALSE

\* [+|-] 1..9 decimal digits
ParseExp(s) ==
  LET neg == Len(s) >= 1 /\ s[1] = CMinus
      pos == Len(s) >= 1 /\ s[1] = CPlus
      d == IF neg \/ pos THEN Rest(s, 1) ELSE s
  IN IF Len(d) = 0 \/ Len(d) > 9 \/ (\E i \in 1..Len(d) : d[i] < 48 \/ d[i] > 57) THEN [ok |-> FALSE, v |-> 0]
     ELSE [ok |-> TRUE, v |-> (IF neg THEN -1 ELSE 1) * FoldLeft(LAMBDA a, c : a * 10 + (c - 48), 0, d)]

ParseMant(m, radix) ==
  LET dots == {i \in 1..Len(m) : m[i] = CDot}
      bad == [ok |-> FALSE, id |-> <<>>, fd |-> <<>>]
  IN IF Cardinality(dots) > 1 THEN bad
     ELSE LET dot == IF dots = {} THEN 0 ELSE CHOOSE i \in dots : TRUE
              ip == IF dot = 0 THEN m ELSE SubSeq(m, 1, dot - 1)
              fp == IF dot = 0 THEN <<>> ELSE Rest(m, dot)
              okp(p) == p = <<>> \/ BodyClass(p, radix) = "wf"
          IN IF ~(okp(ip) /\ okp(fp)) \/ (ip = <<>> /\ fp = <<>>) THEN bad
             ELSE [ok |-> TRUE, id |-> BodyDigits(ip), fd |-> BodyDigits(fp)]

NotLiteral == [ok |-> FALSE, neg |-> FALSE, sig |-> <<>>, exp |-> 0, nd |-> 0, nfrac |-> 0, marker |-> FALSE]
\* the literal's reading: value = (-1)^neg * sig * B^exp, nd = written digits (base B), nfrac = fractional characters
ParseFloat(text, B) ==
  LET neg == Len(text) >= 1 /\ text[1] = CMinus
      pos == Len(text) >= 1 /\ text[1] = CPlus
      t == IF neg \/ pos THEN Rest(text, 1) ELSE text
      hex == B = 2 /\ StartsWith2(t, 48, 120)
      mpos == FoldLeftDomain(LAMBDA acc, i : IF IsMarker(t[i], B, hex) THEN i ELSE acc, 0, t)
      mant0 == IF mpos = 0 THEN t ELSE SubSeq(t, 1, mpos - 1)
      ex == IF mpos = 0 THEN [ok |-> TRUE, v |-> 0] ELSE ParseExp(Rest(t, mpos))
      mant == IF hex THEN Rest(mant0, 2) ELSE mant0
      radix == IF hex THEN 16 ELSE B
      pm == ParseMant(mant, radix)
      w == IF hex THEN 4 ELSE 1
  IN IF ~ex.ok \/ ~pm.ok \/ (hex /\ mpos # 0 /\ t[mpos] = CAt) THEN NotLiteral
     ELSE [ok |-> TRUE, neg |-> neg, sig |-> FromRadix(pm.id \o pm.fd, radix), exp |-> ex.v - w * Len(pm.fd),
           nd |-> w * (Len(pm.id) + Len(pm.fd)), nfrac |-> Len(pm.fd), marker |-> mpos # 0]

\* s1 * B^e1 = s2 * B^e2 on naturals
MagEq(B, s1, e1, s2, e2) ==
  LET e0 == Min2(e1, e2) IN Mul(s1, Pow(FromNat(B), e1 - e0)) = Mul(s2, Pow(FromNat(B), e2 - e0))
\* wire float v = [sig |-> BigInt, exp, inf, prec]
WellFormedFloat(v) == IsInt(v.sig) /\ v.inf \in {-1, 0, 1}
\* the finite float v equals (-1)^neg * sig * B^exp
FloatIs(B, v, neg, sig, exp) ==
  /\ v.inf = 0
  /\ MagEq(B, v.sig.m, v.exp, sig, exp)
  /\ (sig # <<>> => (v.sig.s = 1) = neg)
FloatEq(B, v, u) == v.inf = u.inf /\ (v.inf = 0 => FloatIs(B, v, u.sig.s = 1, u.sig.m, u.exp))

(***************************************************************************)
(* Rounding a rational t to an integer k under a mode: what "correctly      *)
(* rounded to that many fractional digits" means (t = x * B^digits).        *)
(***************************************************************************)
RoundIntWhy(mode, t, k) ==
  LET kq == QFromInt(k)
      c == QCmp(kq, t)
      err == QAbs(QSub(kq, t))
      twice == QMulInt(err, IFromNative(2))
      one == QFromInt(IOne)
  IN IF c = 0 THEN ""
     ELSE IF ~QLt(err, one) THEN "print-error-ge-1-unit"
     ELSE IF mode = "Zero" /\ QLt(QAbs(t), QAbs(kq)) THEN "print-wrong-side-zero"
     ELSE IF mode = "Away" /\ QLt(QAbs(kq), QAbs(t)) THEN "print-wrong-side-away"
     ELSE IF mode = "Up" /\ c < 0 THEN "print-wrong-side-up"
     ELSE IF mode = "Down" /\ c > 0 THEN "print-wrong-side-down"
     ELSE IF IsHalfMode(mode) /\ QLt(one, twice) THEN "print-error-gt-half-unit"
     ELSE IF IsHalfMode(mode) /\ QEq(one, twice)
          THEN (IF mode = "HalfAway" THEN (IF QLt(QAbs(kq), QAbs(t)) THEN "print-tie-not-away" ELSE "")
                ELSE (IF Bit(k.m, 0) = 1 THEN "print-tie-not-even" ELSE ""))
     ELSE ""

(***************************************************************************)
(* IEEE 754 binary32 / binary64 bit patterns, given as 16-bit fields, most  *)
(* significant first.  Returns [cls |-> "nan" | "inf" | "fin", neg, m, e]:  *)
(* value = (-1)^neg * m * 2^e.                                              *)
(***************************************************************************)
Bytes2(w) == <<w % 256, w \div 256>>
DecodeF64(f) ==
  LET neg == f[1] >= 32768
      ef == (f[1] % 32768) \div 16
      frac == Bytes2(f[4]) \o Bytes2(f[3]) \o Bytes2(f[2]) \o <<f[1] % 16>>
      fracn == Norm(frac)
  IN IF ef = 2047 THEN [cls |-> IF fracn = <<>> THEN "inf" ELSE "nan", neg |-> neg, m |-> <<>>, e |-> 0]
     ELSE IF ef = 0 THEN [cls |-> "fin", neg |-> neg, m |-> fracn, e |-> -1074]
     ELSE [cls |-> "fin", neg |-> neg, m |-> Norm(Bytes2(f[4]) \o Bytes2(f[3]) \o Bytes2(f[2]) \o <<(f[1] % 16) + 16>>), e |-> ef - 1075]
DecodeF32(f) ==
  LET neg == f[1] >= 32768
      ef == (f[1] % 32768) \div 128
      fracn == Norm(Bytes2(f[2]) \o <<f[1] % 128>>)
  IN IF ef = 255 THEN [cls |-> IF fracn = <<>> THEN "inf" ELSE "nan", neg |-> neg, m |-> <<>>, e |-> 0]
     ELSE IF ef = 0 THEN [cls |-> "fin", neg |-> neg, m |-> fracn, e |-> -149]
     ELSE [cls |-> "fin", neg |-> neg, m |-> Norm(Bytes2(f[2]) \o <<(f[1] % 128) + 128>>), e |-> ef - 150]
=============================================================================
