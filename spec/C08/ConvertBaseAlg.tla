--------------------------- MODULE ConvertBaseAlg ---------------------------
(***************************************************************************)
(* Algorithm layer of C08: the branch structure of                          *)
(* Context::convert_base (float/src/convert.rs) and of with_precision,      *)
(* transcribed one action per branch, over native integers in a small       *)
(* scope, checked against FloatDef!Rounded at the target precision.         *)
(*                                                                          *)
(*   Same       NewB = B            Exact(repr) -- no rounding              *)
(*   PowUp      NewB = B^n          significand * B^(exp mod n), repr_round *)
(*   PowDown    B = NewB^n          Exact(significand, exp * n) -- no round *)
(*   SmallPos   0 <= exp <= TH      Exact(significand * B^exp) -- no round  *)
(*   SmallNeg   -TH <= exp < 0      repr_div(significand, B^-exp)           *)
(*              (debug_assert lhs.digits <= precision + rhs.digits)         *)
(*   Large      |exp| > TH          ln / exp at 2 * precision digits, then  *)
(*              repr_round: ABSTRACTED here (not modelled, only reached)    *)
(*   WithPrec   with_precision(p)   repr_round when the precision shrinks   *)
(* TH is THRESHOLD_SMALL_EXP (38 on 64-bit words), a parameter here.        *)
(* The model is of the code as it is: the unrounded branches violate the    *)
(* definition when the significand has more than p + 1 digits; these are    *)
(* the open findings F05/C08 (SmallPos, SmallNeg assertion) and C08.N2 (Same,  *)
(* PowDown), mirrored by the Known predicates.  `Strict` is the definition  *)
(* alone: TLC must refute it (the defects are found by model checking).     *)
(***************************************************************************)
EXTENDS FloatDef
CONSTANTS Bases, MaxSig, MaxExp, MaxPrec, TH

Modes == {"Zero", "Away", "Up", "Down", "HalfEven", "HalfAway"}
\* b^n, n >= 0  (folds only: RECURSIVE operators make TLC's -coverage start-up diverge)
Pw(b, n) == FoldLeft(LAMBDA a, i : a * b, 1, [i \in 1..n |-> i])
Abs(a) == IF a < 0 THEN -a ELSE a
Sgn(a) == IF a < 0 THEN -1 ELSE IF a > 0 THEN 1 ELSE 0
\* digit_len: number of base-b digits of |m| (0 for 0); native values are below 2^31 <= b^31
Dig(b, m) == FoldLeft(LAMBDA acc, i : IF acc[2] = 0 THEN acc ELSE <<acc[1] + 1, acc[2] \div b>>, <<0, Abs(m)>>, [i \in 1..31 |-> i])[1]
\* truncating division (IBig div_rem)
Tq(a, b) == Sgn(a) * Sgn(b) * (Abs(a) \div Abs(b))
Tr(a, b) == a - b * Tq(a, b)
Cmp3(a, b) == IF a < b THEN -1 ELSE IF a > b THEN 1 ELSE 0
\* n with big = small^n (n >= 1), 0 if big is not a power of small   (utils::ilog_exact)
PowerOf(big, small) == LET ns == {n \in 1..5 : Pw(small, n) = big} IN IF ns = {} THEN 0 ELSE CHOOSE n \in ns : TRUE

\* --- round.rs: Round::round_low_part, per mode; low_sign in {-1, 1}; half = cmp(2|low|, unit)
RLP(mode, integer, lowsign, half) ==
  CASE mode = "Zero" -> IF integer = 0 THEN 0
                        ELSE IF Sgn(integer) = lowsign THEN 0
                        ELSE IF integer > 0 THEN -1 ELSE 1
    [] mode = "Away" -> IF integer = 0 THEN lowsign
                        ELSE IF Sgn(integer) = lowsign THEN lowsign ELSE 0
    [] mode = "Down" -> IF lowsign < 0 THEN -1 ELSE 0
    [] mode = "Up" -> IF lowsign > 0 THEN 1 ELSE 0
    [] mode = "HalfAway" -> IF half < 0 THEN 0
                            ELSE IF half > 0 THEN lowsign
                            ELSE IF integer >= 0 /\ lowsign > 0 THEN 1
                            ELSE IF integer <= 0 /\ lowsign < 0 THEN -1 ELSE 0
    [] mode = "HalfEven" -> IF half < 0 THEN 0
                            ELSE IF half > 0 THEN lowsign
                            ELSE IF integer % 2 = 1 THEN lowsign ELSE 0
FlagOf(adj) == IF adj = 0 THEN "NoOp" ELSE IF adj > 0 THEN "AddOne" ELSE "SubOne"
RoundFract(mode, T, hi, lo, shift) == IF lo = 0 THEN 0 ELSE RLP(mode, hi, Sgn(lo), Cmp3(2 * Abs(lo), Pw(T, shift)))
RoundRatio(mode, q, r, den) == IF r = 0 THEN 0 ELSE RLP(mode, q, Sgn(r) * Sgn(den), Cmp3(2 * Abs(r), Abs(den)))

Res(sig, exp, flag) == [k |-> "ok", sig |-> sig, exp |-> exp, flag |-> flag]
\* Repr::new: strip trailing zero digits of the significand (zero gets exponent 0): <<sig, exp>>
Normal(T, sig, exp) ==
  IF sig = 0 THEN <<0, 0>>
  ELSE FoldLeft(LAMBDA acc, i : IF acc[1] % T = 0 THEN <<Tq(acc[1], T), acc[2] + 1>> ELSE acc, <<sig, exp>>, [i \in 1..31 |-> i])
\* Context::repr_round
ReprRound(mode, T, p, sig, exp) ==
  IF Dig(T, sig) > p
  THEN LET shift == Dig(T, sig) - p
           hi == Tq(sig, Pw(T, shift))
           lo == Tr(sig, Pw(T, shift))
           adj == RoundFract(mode, T, hi, lo, shift)
       IN Res(hi + adj, exp + shift, FlagOf(adj))          \* Inexact(.., adjust) even when adjust = NoOp
  ELSE Res(sig, exp, "Exact")
\* Context::repr_div(lhs = (num, 0), rhs = (den, 0)), den > 0, in base T
ReprDiv(mode, T, p, num, den) ==
  IF Dig(T, num) > p + Dig(T, den) THEN [k |-> "panic", sig |-> 0, exp |-> 0, flag |-> ""]
  ELSE LET q0 == Tq(num, den)
           r0 == Tr(num, den)
           dd == Dig(T, den)
       IN IF r0 = 0 THEN Res(q0, 0, "Exact")
          ELSE LET st ==
                 IF q0 = 0
                 THEN LET shift == dd + p - Dig(T, r0)
                          r1 == r0 * Pw(T, shift)
                      IN <<Tq(r1, den), Tr(r1, den), -shift>>
                 ELSE LET nd == Dig(T, q0) + dd IN
                      IF nd < dd + p
                      THEN LET shift == dd + p - nd
                               r1 == r0 * Pw(T, shift)
                           IN <<q0 * Pw(T, shift) + Tq(r1, den), Tr(r1, den), -shift>>
                      ELSE <<q0, r0, 0>>
               IN IF st[2] = 0 THEN Res(st[1], st[3], "Exact")
                  ELSE LET adj == RoundRatio(mode, st[1], st[2], den) IN Res(st[1] + adj, st[3], FlagOf(adj))
\* i.div_rem_euclid(n), n > 0
DivE(i, n) == i \div n
RemE(i, n) == i % n

VARIABLES pc, fn, B, T, mode, sig, exp, p, branch, out
vars == <<pc, fn, B, T, mode, sig, exp, p, branch, out>>
None == [k |-> "none", sig |-> 0, exp |-> 0, flag |-> ""]

Init == /\ pc = "pick" /\ fn \in {"convert", "with_precision"} /\ B \in Bases /\ T \in Bases /\ mode \in Modes
        /\ (fn = "with_precision" => T = B)
        /\ sig = 0 /\ exp = 0 /\ p = 1 /\ branch = "" /\ out = None
Pick == /\ pc = "pick" /\ pc' = "run"
        /\ sig' \in -MaxSig..MaxSig /\ exp' \in -MaxExp..MaxExp /\ p' \in 1..MaxPrec
        /\ (IF sig' = 0 THEN exp' = 0 ELSE sig' % B # 0)            \* the operand is a normalised Repr
        /\ UNCHANGED <<fn, B, T, mode, branch, out>>
Finish(b, o) == pc' = "done" /\ branch' = b /\ out' = o /\ UNCHANGED <<fn, B, T, mode, sig, exp, p>>

Conv == pc = "run" /\ fn = "convert"
General == Conv /\ T # B /\ PowerOf(T, B) <= 1 /\ PowerOf(B, T) <= 1
\* if NewB == B { return Exact(repr) }
Same == Conv /\ T = B /\ Finish("Same", Res(sig, exp, "Exact"))
\* if NewB > B { n = ilog_exact(NewB, B); if n > 1 { (exp, rem) = exponent.div_rem_euclid(n); repr_round(signif * B^rem, exp) } }
PowUp == Conv /\ T > B /\ PowerOf(T, B) > 1
         /\ LET n == PowerOf(T, B)
                r == Normal(T, sig * Pw(B, RemE(exp, n)), DivE(exp, n))          \* Repr::new(signif, exp)
            IN Finish("PowUp", ReprRound(mode, T, p, r[1], r[2]))
\* else { n = ilog_exact(B, NewB); if n > 1 { Exact(signif, exponent * n) } }
PowDown == Conv /\ T < B /\ PowerOf(B, T) > 1
           /\ Finish("PowDown", Res(sig, exp * PowerOf(B, T), "Exact"))
\* if exponent.abs() <= THRESHOLD { if exponent >= 0 { Exact(signif * B^exponent, 0) }
SmallPos == General /\ Abs(exp) <= TH /\ exp >= 0 /\ Finish("SmallPos", Res(sig * Pw(B, exp), 0, "Exact"))
\*                                  else { repr_div((signif, 0), (B^-exponent, 0)) } }
SmallNeg == General /\ Abs(exp) <= TH /\ exp < 0
            /\ LET o == ReprDiv(mode, T, p, sig, Pw(B, -exp))
               IN Finish(IF o.k = "panic" THEN "SmallNegAssert" ELSE "SmallNeg", o)
\* else { ln / exp at 2 * precision digits } -- abstracted
Large == General /\ Abs(exp) > TH /\ Finish("Large", [k |-> "abstract", sig |-> 0, exp |-> 0, flag |-> ""])
\* with_precision: if self.context.precision > precision { repr_round } else { Exact }
\* (the source context holds at least the digits of the significand)
WithPrec == pc = "run" /\ fn = "with_precision" /\ Finish("WithPrec", ReprRound(mode, B, p, sig, exp))

Next == Pick \/ Same \/ PowUp \/ PowDown \/ SmallPos \/ SmallNeg \/ Large \/ WithPrec
Spec == Init /\ [][Next]_vars

\* ------------------------------------------------------------------ against the definition
XQ == FVal(B, F(IFromNative(sig), exp))
WhyNot == IF out.k = "abstract" THEN ""
          ELSE IF out.k = "panic" THEN "unexpected-panic"
          ELSE RoundedWhy(T, p, mode, XQ, F(IFromNative(out.sig), out.exp), out.flag)
KnownF05 == \/ branch = "SmallPos" /\ WhyNot = "more-than-p+1-digits"
            \/ branch = "SmallNegAssert"
KnownN2 == branch \in {"Same", "PowDown"} /\ WhyNot = "more-than-p+1-digits"
Conforms == pc = "done" => (WhyNot = "" \/ KnownF05 \/ KnownN2)
Strict == pc = "done" => WhyNot = ""
\* the branches partition the picked states
OneBranch == pc = "run" =>
  Cardinality({b \in {"Same", "PowUp", "PowDown", "SmallPos", "SmallNeg", "Large", "WithPrec"} :
     CASE b = "Same" -> fn = "convert" /\ T = B
       [] b = "PowUp" -> fn = "convert" /\ T > B /\ PowerOf(T, B) > 1
       [] b = "PowDown" -> fn = "convert" /\ T < B /\ PowerOf(B, T) > 1
       [] b = "SmallPos" -> fn = "convert" /\ T # B /\ PowerOf(T, B) <= 1 /\ PowerOf(B, T) <= 1 /\ Abs(exp) <= TH /\ exp >= 0
       [] b = "SmallNeg" -> fn = "convert" /\ T # B /\ PowerOf(T, B) <= 1 /\ PowerOf(B, T) <= 1 /\ Abs(exp) <= TH /\ exp < 0
       [] b = "Large" -> fn = "convert" /\ T # B /\ PowerOf(T, B) <= 1 /\ PowerOf(B, T) <= 1 /\ Abs(exp) > TH
       [] b = "WithPrec" -> fn = "with_precision"}) = 1
=============================================================================
