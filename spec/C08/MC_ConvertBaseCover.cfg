SPECIFICATION Spec
INVARIANT OneBranch
CONSTANTS
  Bases = {2, 3, 4, 8, 10, 16}
  MaxSig = 12
  MaxExp = 3
  MaxPrec = 3
  TH = 2
CHECK_DEADLOCK FALSE
