------------------------------ MODULE Gen_C08 ------------------------------
(***************************************************************************)
(* Behaviour generator for C08.  TLC enumerates                             *)
(*   grammar    derivations of the documented float literal grammar for     *)
(*              bases 2, 8, 10, 16, 36: sign x integral part x fractional   *)
(*              part x exponent part (every marker of the base, either      *)
(*              case, signed exponents up to +-400) x underscores / letter  *)
(*              case, plus the hexadecimal form for base 2                  *)
(*   roundtrip  significand pattern x exponent (-400..400, both sides of    *)
(*              the 38/39 threshold) x base x every print format            *)
(*   precprint  values with ties / carries x fractional digits 0..6 x all   *)
(*              six rounding modes x Display / LowerExp                     *)
(*   convert    with_base / with_base_and_precision / to_decimal /          *)
(*              to_binary / with_precision: base pairs (same, power-related *)
(*              both ways, unrelated) x exponents on both sides of          *)
(*              THRESHOLD_SMALL_EXP = 38 x target precisions x modes        *)
(*   fromf      IEEE bit patterns: zeros, subnormals, extremes, infinities, *)
(*              NaNs, powers of two, dense mantissas                        *)
(* and prints one case per state.                                           *)
(***************************************************************************)
EXTENDS FloatTextDef, Json
CONSTANTS Thorough, Seed,
          KeepG, KeepC    \* keep one case in KeepG of the grammar / precision-print classes, one in KeepC of the conversions (by residue)

Modes == <<"Zero", "Away", "Up", "Down", "HalfEven", "HalfAway">>
GBases == <<2, 8, 10, 16, 36>>
HBases == <<2, 3, 8, 10, 16, 36>>          \* the bases compiled into the harness
Lcg(i, salt) == ((((i + salt * 31) % 4093) * 1277 + 911 * (salt % 1000) + 13) % 4099)

\* decimal text of a native integer, with an explicit '+' when plus is set
DecStr(n, plus) ==
  LET a == IF n < 0 THEN -n ELSE n
      ds == IF a >= 100 THEN <<48 + (a \div 100), 48 + ((a \div 10) % 10), 48 + (a % 10)>>
            ELSE IF a >= 10 THEN <<48 + (a \div 10), 48 + (a % 10)>> ELSE <<48 + a>>
  IN (IF n < 0 THEN <<CMinus>> ELSE IF plus THEN <<CPlus>> ELSE <<>>) \o ds
\* digit values -> characters; upper: every third letter upper-case (u = 1), all upper (u = 2)
Chars(ds, u) == [t \in 1..Len(ds) |-> DigitChar(ds[t], u = 2 \/ (u = 1 /\ t % 3 = 0))]
\* a '_' between digit t and t+1 for every even t
WithUnders(cs) == IF Len(cs) < 2 THEN cs
                  ELSE [q \in 1..(Len(cs) + ((Len(cs) - 1) \div 2)) |-> IF q % 3 = 0 THEN CUnder ELSE cs[q - (q \div 3)]]

\* ------------------------------------------------------------------ grammar
\* digit-value patterns of the integral (1..7) and fractional (1..6) part in radix r; <<>> = omitted
IntPart(v, r) ==
  CASE v = 1 -> <<>>
    [] v = 2 -> <<0>>
    [] v = 3 -> <<r - 1>>
    [] v = 4 -> <<1, 0, r \div 2>>
    [] v = 5 -> <<0, 0, 1, r - 1>>
    [] v = 6 -> <<1, r - 1, 0, r \div 2, 1, 0, r - 1, 1>>
    [] v = 7 -> <<r - 1, r - 1, r - 1, r - 1, r - 1, r - 1, r - 1, r - 1>>
\* 0: no point at all
FracPart(v, r) ==
  CASE v = 1 -> <<>>
    [] v = 2 -> <<>>
    [] v = 3 -> <<r \div 2>>
    [] v = 4 -> <<0, 1, 0>>
    [] v = 5 -> <<0, 0, 0>>
    [] v = 6 -> <<r - 1, 0, 1, r \div 2, 0, 0, r - 1, 1>>
Markers(B, hex) ==
  IF hex THEN <<112, 80>>
  ELSE IF B = 10 THEN <<101, 69, 64>>
  ELSE IF B = 2 THEN <<98, 66, 64>>
  ELSE IF B = 8 THEN <<111, 79, 64>>
  ELSE IF B = 16 THEN <<104, 72, 64>>
  ELSE <<64>>
ExpVals == <<0, 5, -5, 38, -39, 400, -400, 7>>
\* j: integral x fractional variant (7 * 6), k: sign (3) x exponent form (1 + 8 * 2) x style (3)
GrammarCase(i, j, k) ==
  LET hex == i = 6                                  \* sixth "base": base 2 written as 0x...p
      B == IF hex THEN 2 ELSE GBases[i]
      r == IF hex THEN 16 ELSE B
      iv == ((j - 1) % 7) + 1
      fv == ((j - 1) \div 7) + 1
      sg == (k - 1) % 3
      ef == ((k - 1) \div 3) % 17                   \* 0: no exponent part; 1..16: value x (marker choice)
      st == ((k - 1) \div 51) % 3                   \* 0 plain lower, 1 mixed case + underscores, 2 upper
      ip == IntPart(iv, r)
      fp == FracPart(fv, r)
      ms == Markers(B, hex)
      ic == IF st = 1 THEN WithUnders(Chars(ip, 1)) ELSE Chars(ip, st)
      fc == IF st = 1 THEN WithUnders(Chars(fp, 1)) ELSE Chars(fp, st)
      ev == ExpVals[((ef - 1) % 8) + 1]
      mk == ms[((((ef - 1) \div 8) + sg + j) % Len(ms)) + 1]
      text == (IF sg = 1 THEN <<CPlus>> ELSE IF sg = 2 THEN <<CMinus>> ELSE <<>>)
              \o (IF hex THEN <<48, 120>> ELSE <<>>) \o ic
              \o (IF fv = 1 THEN <<>> ELSE <<CDot>> \o fc)
              \o (IF ef = 0 THEN <<>> ELSE <<mk>> \o DecStr(ev, ef % 2 = 0))
  IN [op |-> "parse", base |-> B, text |-> text]
\* integral and fractional part both without a digit is not a literal
GrammarOK(i, j) == ~(((j - 1) % 7) + 1 = 1 /\ ((j - 1) \div 7) + 1 \in {1, 2})

\* ------------------------------------------------------------------ values
\* significand digit patterns in base B (most significant first)
SigDigits0(v, B) ==
  CASE v = 1 -> <<1>>
    [] v = 2 -> <<B - 1, B - 1, B - 1>>
    [] v = 3 -> <<1, 0, 0, 0, 0, 1>>
    [] v = 4 -> <<1, B \div 2>>
    [] v = 5 -> <<B - 1, B - 1, B \div 2>>
    [] v = 6 -> <<1, 2 % B, 3 % B, 4 % B, 5 % B, 6 % B, 7 % B, 1>>
    [] v = 7 -> <<B \div 2>>
    [] v = 8 -> <<1, 1, B \div 2, 0, 0, 1>>
    [] v = 9 -> <<B - 1, B \div 2 - 1, B - 1, B - 1, B - 1>>
    [] v = 10 -> [t \in 1..19 |-> IF t = 1 THEN 1 + (Lcg(t, Seed + B) % (B - 1)) ELSE IF t = 19 THEN 1 ELSE Lcg(t, Seed + B) % B]
Float(neg, ds, B, exp, extra) ==
  [sig |-> I(IF neg THEN 1 ELSE 0, FromRadix(ds, B)), exp |-> exp, inf |-> 0, prec |-> Len(ds) + extra]
RTExps == IF Thorough THEN <<-400, -120, -40, -39, -38, -20, -7, -3, -1, 0, 1, 2, 9, 38, 39, 40, 120, 400>>
          ELSE <<-400, -39, -38, -7, -1, 0, 1, 9, 38, 39, 400>>
KindsOf(B) == <<"display", "lexp", "uexp">> \o
              (IF B = 2 THEN <<"binary", "lhex", "uhex">> ELSE IF B = 8 THEN <<"octal">> ELSE IF B = 16 THEN <<"lhex", "uhex">> ELSE <<>>)
RoundtripCase(i, j, k) ==
  LET B == HBases[i]
      v == ((j - 1) % 10) + 1
      e == RTExps[((j - 1) \div 10) + 1]
      ks == KindsOf(B)
  IN [op |-> "print", base |-> B, mode |-> Modes[((i + j + k) % 6) + 1],
      x |-> Float((j + k) % 2 = 1, SigDigits0(v, B), B, e, k % 3),
      kind |-> ks[((j + k) % Len(ks)) + 1], fprec |-> -1]

\* precision option: j = value pattern (9) x exponent (-5..1), k = mode (6) x fprec (0..6) x kind (2) x sign (2)
PrecCase(i, j, k) ==
  LET B == <<10, 2, 16, 3, 8, 36>>[i]
      v == ((j - 1) % 9) + 1
      e == ((j - 1) \div 9) - 5
      m == ((k - 1) % 6) + 1
      fp == ((k - 1) \div 6) % 7
      kd == ((k - 1) \div 42) % 3
      ng == ((k - 1) \div 126) % 2 = 1
  IN [op |-> "print", base |-> B, mode |-> Modes[m], x |-> Float(ng, SigDigits0(v, B), B, e, 0),
      kind |-> IF kd = 0 THEN "display" ELSE IF kd = 1 THEN "lexp" ELSE "uexp", fprec |-> fp]

\* ------------------------------------------------------------------ convert
CFns == <<"with_base", "with_base_and_precision", "to_decimal", "to_binary", "with_precision">>
CExps == IF Thorough THEN <<-400, -120, -40, -39, -38, -37, -10, -2, -1, 0, 1, 2, 10, 37, 38, 39, 40, 120, 400>>
         ELSE <<-120, -39, -38, -2, 0, 1, 38, 39, 120>>
CPrecs == <<1, 2, 3, 7, 20>>
\* i: source base x target base (36), j: exponent x significand pattern (5), k: function (5) x precision (5)
ConvertCase(i, j, k) ==
  LET B == HBases[((i - 1) % 6) + 1]
      T == HBases[((i - 1) \div 6) + 1]
      e == CExps[((j - 1) \div 5) + 1]
      v == <<1, 2, 4, 6, 10>>[((j - 1) % 5) + 1]
      fn == CFns[((k - 1) % 5) + 1]
      tp == CPrecs[((k - 1) \div 5) + 1]
  IN [op |-> "convert", base |-> B, mode |-> Modes[((i + j + k + Seed) % 6) + 1],
      x |-> Float((i + j) % 2 = 0, SigDigits0(v, B), B, e, k % 2), fn |-> fn, tbase |-> T, tprec |-> tp]
\* the functions that ignore the target base are generated once (for T = B)
ConvertOK(i, k) == CFns[((k - 1) % 5) + 1] \in {"with_base", "with_base_and_precision"} \/ ((i - 1) % 6) = ((i - 1) \div 6)

\* ------------------------------------------------------------------ a base and its power, the root not being 2
\* i: pair, j: exponent (every residue of the power, both signs) , k: significand pattern (5) x function (2) x precision (3)
\* (and power-of-two bases that are NOT powers of each other: 4 / 8 / 32)
PowPairs == << <<3, 9>>, <<9, 3>>, <<3, 27>>, <<6, 36>>, <<36, 6>>, <<4, 32>>, <<32, 4>>, <<4, 8>>, <<8, 32>> >>
PowBaseCase(i, j, k) ==
  LET B == PowPairs[i][1]
      T == PowPairs[i][2]
      e == j - 8
      v == <<1, 2, 4, 6, 10>>[((k - 1) % 5) + 1]
      fn == <<"with_base", "with_base_and_precision">>[(((k - 1) \div 5) % 2) + 1]
      tp == <<1, 3, 20>>[((k - 1) \div 10) + 1]
  IN [op |-> "convert", base |-> B, mode |-> Modes[((i + j + k + Seed) % 6) + 1],
      x |-> Float((i + j) % 2 = 0, SigDigits0(v, B), B, e, k % 2), fn |-> fn, tbase |-> T, tprec |-> tp]

\* ------------------------------------------------------------------ odd base: a dropped part just below one half
\* In an odd base B the digit string hhh...h with h = (B - 1) / 2 is (B^k - 1) / 2 / B^k: below one half by 1 / (2 B^k), never a
\* tie.  i: kept digits (1..3), j: dropped digits (1..14), k: mode (6) x sign (2) x operation (with_precision | print {:.N})
OddHalfCase(i, j, k) ==
  LET B == 3
      h == (B - 1) \div 2
      kept == [t \in 1..i |-> IF t = 1 THEN 2 ELSE (t + j) % B]
      ds == kept \o [t \in 1..j |-> h]
      md == Modes[((k - 1) % 6) + 1]
      ng == ((k - 1) \div 6) % 2 = 1
      asprint == ((k - 1) \div 12) % 2 = 1
  IN IF asprint
     THEN [op |-> "print", base |-> B, mode |-> md, x |-> Float(ng, ds, B, -(j + i - 1), 0), kind |-> "display", fprec |-> i - 1]
     ELSE [op |-> "convert", base |-> B, mode |-> md, x |-> Float(ng, ds, B, -j, 0), fn |-> "with_precision", tbase |-> B, tprec |-> i]

\* ------------------------------------------------------------------ with_precision by one or two digits
\* significands just above a power of the base (1000...01), all-max (999...9) and dense ones, of 2..24 digits, shrunk by
\* one or two digits: a digit-count ESTIMATE that is off by one decides wrongly exactly here
WPrecCase(i, j, k) ==
  LET B == HBases[i]
      d == j + 1
      pat == ((k - 1) % 3) + 1
      drop == ((k - 1) \div 3) + 1
      ds == CASE pat = 1 -> [t \in 1..d |-> IF t = 1 \/ t = d THEN 1 ELSE 0]
              [] pat = 2 -> [t \in 1..d |-> B - 1]
              [] pat = 3 -> [t \in 1..d |-> IF t = 1 THEN 1 ELSE IF t = d THEN 1 + (Lcg(t, Seed) % (B - 1)) ELSE Lcg(t, Seed + B) % B]
  IN [op |-> "convert", base |-> B, mode |-> Modes[((i + j + k + Seed) % 6) + 1],
      x |-> Float((i + j + k) % 2 = 0, ds, B, -(j % 5), 0), fn |-> "with_precision", tbase |-> B, tprec |-> Max2(1, d - drop)]

\* ------------------------------------------------------------------ from f32 / f64
\* 16-bit fields, most significant first
F64Pats == << <<0, 0, 0, 0>>, <<32768, 0, 0, 0>>, <<0, 0, 0, 1>>, <<32768, 0, 0, 1>>, <<15, 65535, 65535, 65535>>,
              <<16, 0, 0, 0>>, <<32751, 65535, 65535, 65535>>, <<65519, 65535, 65535, 65535>>, <<32752, 0, 0, 0>>,
              <<65520, 0, 0, 0>>, <<32760, 0, 0, 0>>, <<32752, 0, 0, 1>>, <<65528, 0, 0, 0>>, <<16368, 0, 0, 0>>,
              <<49136, 0, 0, 0>>, <<16383, 65535, 65535, 65535>>, <<17200, 0, 0, 0>>, <<17200, 0, 0, 1>>,
              <<16329, 39321, 39321, 39322>>, <<1, 0, 0, 0>>, <<8, 0, 0, 0>>, <<16, 0, 0, 1>> >>
F32Pats == << <<0, 0>>, <<32768, 0>>, <<0, 1>>, <<32768, 1>>, <<127, 65535>>, <<128, 0>>, <<32639, 65535>>, <<65407, 65535>>,
              <<32640, 0>>, <<65408, 0>>, <<32704, 0>>, <<32640, 1>>, <<16256, 0>>, <<49024, 0>>, <<16255, 65535>>,
              <<19200, 0>>, <<15820, 52429>>, <<64, 0>>, <<1, 0>> >>
FromFCase(i, j, k) ==
  IF i = 1 THEN [op |-> "from_f", ty |-> "f64", bits |-> IF j <= Len(F64Pats) THEN F64Pats[j]
                   ELSE <<Lcg(j, Seed) * 16 % 65536, Lcg(j + 1, Seed) * 17 % 65536, Lcg(j + 2, Seed) * 19 % 65536, Lcg(j + 3, Seed) * 23 % 65536>>]
  ELSE [op |-> "from_f", ty |-> "f32", bits |-> IF j <= Len(F32Pats) THEN F32Pats[j]
                   ELSE <<Lcg(j, Seed + 5) * 16 % 65536, Lcg(j + 1, Seed + 5) * 17 % 65536>>]

\* ------------------------------------------------------------------ enumeration
Classes == {"grammar", "roundtrip", "precprint", "convert", "fromf", "wprec", "powbase", "oddhalf"}
NI(c) == CASE c = "grammar" -> 6 [] c = "roundtrip" -> 6 [] c = "precprint" -> IF Thorough THEN 6 ELSE 3 [] c = "convert" -> 36 [] c = "fromf" -> 2 [] c = "wprec" -> 6 [] c = "powbase" -> 9 [] c = "oddhalf" -> 3
NJ(c) == CASE c = "grammar" -> 42 [] c = "roundtrip" -> 10 * Len(RTExps) [] c = "precprint" -> 63
           [] c = "convert" -> 5 * Len(CExps) [] c = "fromf" -> 40 [] c = "wprec" -> 23 [] c = "powbase" -> 15 [] c = "oddhalf" -> 14
NK(c) == CASE c = "grammar" -> 153 [] c = "roundtrip" -> IF Thorough THEN 6 ELSE 3 [] c = "precprint" -> 252
           [] c = "convert" -> 25 [] c = "fromf" -> 1 [] c = "wprec" -> 6 [] c = "powbase" -> 30 [] c = "oddhalf" -> 24

VARIABLES phase, cls, i, j, k
vars == <<phase, cls, i, j, k>>
Init == phase = "pick" /\ cls \in Classes /\ i \in 1..36 /\ i <= NI(cls) /\ j = 0 /\ k = 0
Pick == /\ phase = "pick" /\ phase' = "done"
        /\ j' \in 1..NJ(cls) /\ k' \in 1..NK(cls)
        /\ (cls = "grammar" => GrammarOK(i, j'))
        /\ (cls = "convert" => ConvertOK(i, k'))
        \* quick tier: a fraction of the grammar derivations / print cases / conversions (by residue)
        /\ (cls \in {"grammar", "precprint"} => (i + j' + k') % KeepG = Seed % KeepG)
        /\ (cls = "convert" => (i + 2 * j' + 3 * k') % KeepC = Seed % KeepC)
        /\ UNCHANGED <<cls, i>>
Next == Pick
Spec == Init /\ [][Next]_vars

Case ==
  CASE cls = "grammar" -> GrammarCase(i, j, k)
    [] cls = "roundtrip" -> RoundtripCase(i, j, k)
    [] cls = "precprint" -> PrecCase(i, j, k)
    [] cls = "convert" -> ConvertCase(i, j, k)
    [] cls = "fromf" -> FromFCase(i, j, k)
    [] cls = "wprec" -> WPrecCase(i, j, k)
    [] cls = "powbase" -> PowBaseCase(i, j, k)
    [] cls = "oddhalf" -> OddHalfCase(i, j, k)
Emit == phase = "done" => PrintT(<<"GEN", ToJson(Case)>>)
=============================================================================
