SPECIFICATION Spec
INVARIANT Emit
CONSTANTS
  Thorough = FALSE
  Seed = 1
  KeepG = 3
  KeepC = 9
CHECK_DEADLOCK FALSE
