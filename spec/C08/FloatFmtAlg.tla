----------------------------- MODULE FloatFmtAlg -----------------------------
(* Algorithm layer for the float formatter, float/src/fmt.rs (fmt_round: Display; fmt_round_scientific:
   LowerExp / UpperExp / Binary / Octal / LowerHex / UpperHex), beyond what C08 states: C08 speaks about the
   DIGITS that are shown; this model is about the LAYOUT around them - the number of characters the code
   believes it is going to print (`width`, from which the padding is derived) against the number it does
   print, branch by branch.  Only lengths matter, so the state is:

     L       length of the digit string of the (rounded) significand without its sign: >= 1, or 0 when a
             negative number was rounded to zero (the code strips the first character of "0")
     exp     the exponent that goes with it (after the rounding)
     prec    the precision option (-1 = none)
     neg, plus, hex, elen (length of the printed exponent)

   Reachable combinations only: with a precision and exp < 0 the rounding has made -exp <= prec.
   Obligations: the debug assertions of the code (frac_digits <= exp; exp = prec where the code says so),
   no unsigned subtraction below zero, and width = the characters written between the paddings. *)
EXTENDS Integers, TLC
CONSTANTS MaxL, MaxExp, MaxPrec,
          FixPoint      \* TRUE: the repaired test `exp >= 0` (the pinned code counted a radix point for exp = 0 without a precision)
Min(a, b) == IF a < b THEN a ELSE b
Max(a, b) == IF a > b THEN a ELSE b
B01(c) == IF c THEN 1 ELSE 0

\* ---- fmt_round
PlainWidth(L, exp, prec, neg, plus) ==
  LET leading == -Min(exp + L - 1, 0)
      t0 == Max(exp, 0)
      diff == prec + Min(exp, 0)
      trailing == IF prec >= 0 /\ diff > 0 THEN t0 + diff ELSE t0
      sd == IF leading = 0 THEN Max(L, 1) ELSE L
      point == IF (IF FixPoint THEN exp >= 0 ELSE exp > 0) THEN (IF prec >= 0 THEN prec ELSE 0) > 0 ELSE prec # 0
  IN sd + B01(neg \/ plus) + B01(point) + leading + trailing
PlainPrinted(L, exp, prec, neg, plus) ==      \* [n, ok]
  LET sign == B01(neg \/ plus) IN
  IF exp < 0 THEN
    LET E == -exp
        intlen == IF L > E THEN L - E ELSE 0            \* split_at(len.saturating_sub(exp))
        fd == L - intlen
        int == IF intlen = 0 THEN 1 ELSE intlen
    IN IF prec >= 0 THEN
         IF prec # 0 THEN
           IF E >= prec THEN [n |-> sign + int + 1 + (IF prec > fd THEN prec - fd ELSE 0) + fd, ok |-> fd <= E /\ E = prec]
           ELSE [n |-> sign + int + 1 + (E - fd) + fd + (prec - E), ok |-> fd <= E]
         ELSE [n |-> sign + int, ok |-> fd <= E]
       ELSE IF fd > 0 THEN [n |-> sign + int + 1 + (E - fd) + fd, ok |-> fd <= E]
       ELSE [n |-> sign + int, ok |-> fd <= E]
  ELSE [n |-> sign + (IF L = 0 THEN 1 ELSE L) + exp + (IF prec > 0 THEN 1 + prec ELSE 0), ok |-> TRUE]

\* ---- fmt_round_scientific (L >= 1: the top digits of a non-zero significand never round to zero)
SciWidth(L, prec, neg, plus, hex, elen) ==
  LET p == IF prec >= 0 THEN prec ELSE 0
      point == L > 1 \/ p > 0
      trailing == IF p > L - 1 THEN p - (L - 1) ELSE 0
  IN L + elen + 1 + B01(neg \/ plus) + B01(point) + 2 * B01(hex) + trailing
SciPrinted(L, prec, neg, plus, hex, elen) ==
  LET p == IF prec >= 0 THEN prec ELSE 0
      fract == L - 1
  IN [n |-> B01(neg \/ plus) + 2 * B01(hex) + 1 + (IF fract > 0 THEN 1 + fract ELSE 0)
            + (IF p > 0 THEN (IF fract = 0 THEN 1 ELSE 0) + (IF p > fract THEN p - fract ELSE 0) ELSE 0) + 1 + elen,
      ok |-> L >= 1]

VARIABLES L, exp, prec, neg, plus
vars == <<L, exp, prec, neg, plus>>
Init == /\ L \in 0..MaxL /\ exp \in (-MaxExp)..MaxExp /\ prec \in (-1)..MaxPrec /\ neg \in BOOLEAN /\ plus \in BOOLEAN
        /\ (L = 0 => neg /\ prec >= 0)                      \* a negative number rounded to zero by the precision
        /\ (prec >= 0 /\ exp < 0 => -exp <= prec)           \* the rounding at the start
Next == UNCHANGED vars
Spec == Init /\ [][Next]_vars
PlainOK == LET p == PlainPrinted(L, exp, prec, neg, plus) IN p.ok /\ PlainWidth(L, exp, prec, neg, plus) = p.n
SciOK == L >= 1 => \A hex \in BOOLEAN, elen \in 1..3 :
            LET p == SciPrinted(L, prec, neg, plus, hex, elen) IN p.ok /\ SciWidth(L, prec, neg, plus, hex, elen) = p.n
=============================================================================
