SPECIFICATION Spec
INVARIANT Homomorphic
INVARIANT F23Present
INVARIANT F51Present
CONSTANTS
  W = 3
  MaxWords = 2
  FixOne = FALSE
  FixCheck = FALSE
  Strict = FALSE
CHECK_DEADLOCK FALSE
