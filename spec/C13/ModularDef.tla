----------------------------- MODULE ModularDef -----------------------------
(* Definition layer of C13: arithmetic in Z/mZ as the homomorphic image of integer arithmetic.
   m >= 1 is a natural (BigNat), a, b are integers (BigInt), e is a natural exponent.
   "reduce then operate = operate then reduce" is stated as: the residue of the result equals
   the exact integer result reduced into [0, m).  The only formulas that can raise a C13
   violation. *)
EXTENDS BigInt

\* a mod m in [0, m) as a natural (floor division: negative a are mapped into [0, m) as well)
Red(a, m) == IFloorDivMod(a, m)[2].m
OneMod(m) == IF m = One THEN <<>> ELSE One             \* 1 mod m
MulMod(x, y, m) == Mod(Mul(x, y), m)

(* b^e mod m by left-to-right square-and-multiply over the bits of e: 2 * bits(e) products, each
   reduced by BigNat!Mod; b is already reduced. *)
PowMod(b, e, m) ==
  LET n == BitLen(e) IN
  FoldLeftDomain(LAMBDA acc, i :
                   LET sq == MulMod(acc, acc, m) IN
                   IF Bit(e, n - i) = 1 THEN MulMod(sq, b, m) ELSE sq,
                 OneMod(m), Zeros(n))

\* the exact result of a ring operation on integers, reduced
RingExpected(op, m, a, b, e) ==
  CASE op = "reduce" -> Red(a, m)
    [] op = "add" -> Red(IAdd(a, b), m)
    [] op = "sub" -> Red(ISub(a, b), m)
    [] op = "mul" -> Red(IMul(a, b), m)
    [] op = "neg" -> Red(INeg(a), m)
    [] op = "dbl" -> Red(IAdd(a, a), m)
    [] op = "sqr" -> Red(IMul(a, a), m)
    [] op = "pow" -> PowMod(Red(a, m), e, m)

\* a reported residue r (an integer on the wire) against the expected natural
ResidueWhy(r, m, exp) ==
  IF ~IsInt(r) THEN "malformed-residue"
  ELSE IF r.s = 1 \/ Cmp(r.m, m) >= 0 THEN "residue-outside-0-m"
  ELSE IF r.m = exp THEN "" ELSE "not-the-homomorphic-image"

(* gcd(x, m) # 1 for a reduced x.  g is an untrusted hint (a claimed common divisor): a common
   divisor greater than one proves the claim, otherwise Euclid's algorithm decides. *)
NotCoprime(x, m, g) ==
  \/ (g # <<>> /\ g # One /\ IsNat(g) /\ Mod(m, g) = <<>> /\ Mod(x, g) = <<>>)
  \/ Gcd(x, m) # One

(* inv(a): Some(x) must satisfy x in [0, m) and a x = 1 (mod m) (which proves gcd(a, m) = 1);
   None is right exactly when gcd(a, m) # 1. *)
InvWhy(m, a, some, x, g) ==
  LET ra == Red(a, m) IN
  IF some = 1 THEN
    (IF ~IsInt(x) THEN "malformed-residue"
     ELSE IF x.s = 1 \/ Cmp(x.m, m) >= 0 THEN "residue-outside-0-m"
     ELSE IF MulMod(ra, x.m, m) = OneMod(m) THEN "" ELSE "inverse-times-a-is-not-1")
  ELSE IF NotCoprime(ra, m, g) THEN "" ELSE "none-for-an-invertible-element"

(* a / b.  binv: the inverse of b as observed from inv() in the same event (untrusted: only the
   relation b binv = 1 counts).  With an invertible b the quotient is the unique r in [0, m) with
   r b = a (mod m).  Without a verified inverse: an answer must still satisfy r b = a; a panic
   is right only if b is not invertible.  For a non-invertible b the statement demands nothing
   of a non-panicking answer beyond the range. *)
DivWhy(m, a, b, out, binv, g) ==
  LET ra == Red(a, m)
      rb == Red(b, m)
      proven == binv.some = 1 /\ IsInt(binv.x) /\ binv.x.s = 0 /\ MulMod(rb, binv.x.m, m) = OneMod(m)
  IN IF out.k = "ok" THEN
       (IF ~IsInt(out.v.r) THEN "malformed-residue"
        ELSE IF out.v.r.s = 1 \/ Cmp(out.v.r.m, m) >= 0 THEN "residue-outside-0-m"
        ELSE IF proven \/ ~NotCoprime(rb, m, g)
             THEN (IF MulMod(out.v.r.m, rb, m) = ra THEN "" ELSE "quotient-times-b-is-not-a")
        ELSE "")
     ELSE IF proven THEN "division-by-invertible-panics"
     ELSE IF NotCoprime(rb, m, g) THEN "" ELSE "division-by-invertible-panics"
=============================================================================
