SPECIFICATION Spec
INVARIANT Emit
CONSTANTS
  Seed = 1
  Big = TRUE
CHECK_DEADLOCK FALSE
