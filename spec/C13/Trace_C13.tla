----------------------------- MODULE Trace_C13 -----------------------------
(* Trace monitor for C13: every recorded ConstDivisor / Reduced call (and the num_modular::Reducer
   methods of ConstDivisor), in every call form, against ModularDef.  Never blocks: failing
   events are recorded in `bad`. *)
EXTENDS ModularDef, Json, IOUtils
Rec == ndJsonDeserialize(IOEnv.TRACE)

FirstBad(seq, F(_)) == FoldLeft(LAMBDA acc, x : IF acc # "" THEN acc ELSE F(x), "", seq)
AllPanic(seq) == \A i \in 1..Len(seq) : seq[i].out.k = "panic"

Why(e) ==
  IF ~(IsInt(e.m) /\ IsInt(e.a) /\ IsInt(e.b) /\ IsInt(e.e)) \/ e.m.m = <<>> \/ e.m.s = 1 \/ e.e.s = 1 THEN "malformed-operand"
  ELSE LET m == e.m.m IN
  CASE e.op \in {"reduce", "add", "sub", "mul", "neg", "dbl", "sqr", "pow"} ->
         LET exp == RingExpected(e.op, m, e.a, e.b, e.e.m) IN
         FirstBad(e.outs, LAMBDA o :
           IF o.out.k # "ok" THEN "unexpected-panic"
           ELSE LET w == ResidueWhy(o.out.v.r, m, exp) IN
                IF w # "" THEN w
                ELSE IF "mod" \in DOMAIN o.out.v /\ ~(IsInt(o.out.v.mod) /\ o.out.v.mod.m = m /\ o.out.v.mod.s = 0) THEN "modulus-not-preserved"
                ELSE "")
    [] e.op = "inv" ->
         FirstBad(e.outs, LAMBDA o : IF o.out.k # "ok" THEN "unexpected-panic"
                                     ELSE InvWhy(m, e.a, o.out.v.some, o.out.v.x, e.hint.g.m))
    [] e.op = "div" ->
         FirstBad(e.outs, LAMBDA o : DivWhy(m, e.a, e.b, o.out, e.hint.binv, e.hint.g.m))
    [] e.op = "mix" -> IF AllPanic(e.outs) THEN "" ELSE "no-panic-on-mixed-rings"
    \* clone_from across rings: the destination becomes the source (its residue, its modulus, a member of its ring)
    [] e.op = "clonefrom" ->
         IF ~IsInt(e.m2) \/ e.m2.m = <<>> THEN "malformed-operand"
         ELSE LET m2 == e.m2.m  exp == Red(e.b, m2)  exp1 == Red(IAdd(e.b, IOne), m2) IN
         FirstBad(e.outs, LAMBDA o :
           IF o.out.k # "ok" THEN "clone-from-panicked"
           ELSE FoldLeft(LAMBDA acc, f :
                  IF acc # "" THEN acc
                  ELSE IF f = "cf+1" THEN ResidueWhy(o.out.v.r, m2, exp1)
                  ELSE IF f = "cf==" THEN (IF o.out.v.r.m = One THEN "" ELSE "clone-not-equal-to-source")
                  ELSE LET w == ResidueWhy(o.out.v.r, m2, exp) IN
                       IF w # "" THEN w
                       ELSE IF ~(IsInt(o.out.v.mod) /\ o.out.v.mod.m = m2 /\ o.out.v.mod.s = 0) THEN "modulus-not-cloned" ELSE "",
                  "", o.forms))
    [] OTHER -> "unknown-op"

Account(st, i) ==
  LET w == Why(Rec[i]) IN [bad |-> IF w = "" THEN st.bad ELSE Append(st.bad, [i |-> i, why |-> w])]

VARIABLES l, st
Init == l = 1 /\ st = [bad |-> <<>>]
Next == /\ l <= Len(Rec)
        /\ st' = Account(st, l)
        /\ l' = l + 1
Spec == Init /\ [][Next]_<<l, st>>
Verdict == l > Len(Rec) => PrintT(<<"VERDICT", ToJson([total |-> Len(Rec), bad |-> st.bad])>>)
Complete == IF TLCGet("stats").diameter - 1 = Len(Rec) THEN TRUE
            ELSE PrintT(<<"TRUNCATED", TLCGet("stats").diameter>>) /\ FALSE
=============================================================================
