----------------------------- MODULE ModularAlg -----------------------------
(* Algorithm layer of C13: the representation and the add / sub / neg / dbl / mul / sqr / one
   branches of integer/src/modular/{repr,add,mul,pow,reducer}.rs (and of num_modular's Vanilla
   reducer, which dashu uses for one- and two-word moduli), transcribed over words of W bits.

   A ring of modulus m occupies nw words (nw = 1: ConstSingleDivisor, 2: ConstDoubleDivisor,
   >= 3: ConstLargeDivisor).  The divisor is stored normalised, M = m * 2^shift with the top bit of
   the nw-word window set, and a residue r is stored PRE-SHIFTED as raw = r * 2^shift.  All
   arithmetic below is arithmetic modulo T = 2^(nw W) with explicit carry / borrow flags, exactly
   like the word loops of the code.

   Checked for every modulus of 1..MaxWords words and every pair of residues: each branch returns
   a valid raw value (raw < M, low `shift` bits zero) whose residue is the definition
   (ra op rb) mod m, and every debug assertion of the code holds.  Known_* are the open findings
   (the model mirrors the code as it is). *)
EXTENDS Integers, TLC
CONSTANTS W,          \* bits per word
          MaxWords,   \* largest modulus: MaxWords words
          FixOne,     \* TRUE: model the repaired `one()` (F23)
          FixCheck,   \* TRUE: model the repaired Reducer::check (F51)
          Strict      \* TRUE: do not excuse the open findings (TLC must then re-find them in the unrepaired model)

P2(k) == 2 ^ k
NBits(n) == IF n = 0 THEN 0 ELSE CHOOSE k \in 1..(W * MaxWords + 1) : P2(k - 1) <= n /\ n < P2(k)
Words(n) == IF n = 0 THEN 0 ELSE (NBits(n) + W - 1) \div W
B01(c) == IF c THEN 1 ELSE 0

NW(m) == Words(m)
Width(m) == NW(m) * W
Shift(m) == Width(m) - NBits(m)
Norm(m) == m * P2(Shift(m))                    \* normalized_divisor
TT(m) == P2(Width(m))
Kind(m) == IF NW(m) = 1 THEN "single" ELSE IF NW(m) = 2 THEN "double" ELSE "large"
Raw(m, r) == r * P2(Shift(m))
Valid(m, x) == x >= 0 /\ x < Norm(m) /\ x % P2(Shift(m)) = 0          \* is_valid with `<`
Residue(m, x) == x \div P2(Shift(m))

VARIABLES m, ra, rb, op, res, asrt, flag
vars == <<m, ra, rb, op, res, asrt, flag>>

Init == /\ m \in 1..(P2(W * MaxWords) - 1)
        /\ ra = 0 /\ rb = 0 /\ op = "init" /\ res = 0 /\ asrt = TRUE /\ flag = 0
Pick == /\ op = "init"
        /\ ra' \in 0..(m - 1) /\ rb' \in 0..(m - 1)
        /\ op' = "picked" /\ UNCHANGED <<m, res, asrt, flag>>

Done(o, r, a, f) == op' = o /\ res' = r /\ asrt' = a /\ flag' = f /\ UNCHANGED <<m, ra, rb>>
x == Raw(m, ra)
y == Raw(m, rb)
M == Norm(m)
T == TT(m)

\* ---- addition: Vanilla::add (single / double words) and add_in_place (large) share the shape
\*      sum, overflow = x + y; if overflow || sum >= M { sum -= M (wrapping); assert overflow == borrow }
AddKeep == /\ op = "picked" /\ x + y < T /\ (x + y) % T < M
           /\ Done("add", x + y, TRUE, 0)
AddSubtract == /\ op = "picked" /\ x + y < T /\ x + y >= M
               /\ Done("add", x + y - M, TRUE, IF x + y = M THEN 1 ELSE 0)          \* borrow = FALSE = overflow
AddOverflow == /\ op = "picked" /\ x + y >= T
               /\ LET sum == (x + y) % T IN Done("add", (sum - M) % T, sum < M, 0)   \* assert overflow == overflow2

\* ---- subtraction
\* Vanilla::sub: if lhs >= rhs { lhs - rhs } else { m - (rhs - lhs) }
SubVanillaGe == op = "picked" /\ Kind(m) # "large" /\ x >= y /\ Done("sub", x - y, TRUE, 0)
SubVanillaLt == op = "picked" /\ Kind(m) # "large" /\ x < y /\ Done("sub", M - (y - x), TRUE, 0)
\* sub_in_place: overflow = lhs -= rhs; if overflow { overflow2 = lhs += M; debug_assert!(overflow2) }
SubLargeKeep == op = "picked" /\ Kind(m) = "large" /\ x >= y /\ Done("sub", x - y, TRUE, 0)
SubLargeBorrow == /\ op = "picked" /\ Kind(m) = "large" /\ x < y
                  /\ LET d == (x - y) % T IN Done("sub", (d + M) % T, d + M >= T, 0)

\* ---- negation: 0 stays 0, otherwise M - x (debug_assert!(!overflow))
NegZero == op = "picked" /\ ra = 0 /\ Done("neg", 0, TRUE, 0)
NegNonzero == op = "picked" /\ ra # 0 /\ Done("neg", M - x, M >= x, 0)

\* ---- doubling: Vanilla::dbl = add(x, x); dbl_in_place: overflow = shl 1, then as addition
DblKeep == op = "picked" /\ 2 * x < T /\ 2 * x < M /\ Done("dbl", 2 * x, TRUE, 0)
DblSubtract == op = "picked" /\ 2 * x < T /\ 2 * x >= M /\ Done("dbl", 2 * x - M, TRUE, 0)
DblOverflow == op = "picked" /\ 2 * x >= T /\ LET s == (2 * x) % T IN Done("dbl", (s - M) % T, s < M, 0)

\* ---- multiplication
\* single / double: div_rem(wmul(lhs >> shift, rhs)).1; the quotient must fit the window
MulSmall == /\ op = "picked" /\ Kind(m) # "large"
            /\ LET p == Residue(m, x) * y IN Done("mul", p % M, p \div M < T, 0)
\* mul_normalized: product = a * b (na + nb words); product >>= shift (exact);
\*   na + nb > n: divide;  otherwise one conditional subtraction must suffice
MulLargeDivide == /\ op = "picked" /\ Kind(m) = "large" /\ Words(x) + Words(y) > NW(m)
                  /\ LET p == (x * y) \div P2(Shift(m)) IN Done("mul", p % M, (x * y) % P2(Shift(m)) = 0, 0)
MulLargeShort == /\ op = "picked" /\ Kind(m) = "large" /\ Words(x) + Words(y) <= NW(m)
                 /\ LET p == (x * y) \div P2(Shift(m)) IN
                    Done("mul", IF p >= M THEN p - M ELSE p, (x * y) % P2(Shift(m)) = 0 /\ p < T, 0)
\* sqr: (wsqr(x) >> shift) mod M   /  sqr_normalized
SqrSmall == /\ op = "picked" /\ Kind(m) # "large" /\ ra = rb
            /\ LET p == (x * x) \div P2(Shift(m)) IN Done("sqr", p % M, (x * x) % P2(Shift(m)) = 0 /\ p \div M < T, 0)
SqrLargeDivide == /\ op = "picked" /\ Kind(m) = "large" /\ ra = rb /\ 2 * Words(x) > NW(m)
                  /\ LET p == (x * x) \div P2(Shift(m)) IN Done("sqr", p % M, TRUE, 0)
SqrLargeShort == /\ op = "picked" /\ Kind(m) = "large" /\ ra = rb /\ 2 * Words(x) <= NW(m)
                 /\ LET p == (x * x) \div P2(Shift(m)) IN Done("sqr", IF p >= M THEN p - M ELSE p, p < T, 0)

\* ---- the unit of the ring (pow(0)): ReducedWord::one = 1 << shift
One == /\ op = "picked" /\ ra = 0 /\ rb = 0
       /\ Done("one", IF FixOne /\ m = 1 THEN 0 ELSE P2(Shift(m)), TRUE, 0)

\* ---- impl Reducer<UBig> for ConstDivisor: add / dbl = reduce_once(unbounded sum)
\*      reduce_once(t) = if !check(t) { t - M } else { t };  check (large) uses cmp(..).is_le()
Check(t) == IF Kind(m) = "large" THEN (IF FixCheck THEN t < M ELSE t <= M) /\ t % P2(Shift(m)) = 0
            ELSE t < T /\ t < M /\ t % P2(Shift(m)) = 0
RAddKeep == op = "picked" /\ Check(x + y) /\ Done("radd", x + y, TRUE, IF x + y = M THEN 1 ELSE 0)
RAddReduce == op = "picked" /\ ~Check(x + y) /\ Done("radd", x + y - M, TRUE, 0)
RDblKeep == op = "picked" /\ ra = rb /\ Check(2 * x) /\ Done("rdbl", 2 * x, TRUE, IF 2 * x = M THEN 1 ELSE 0)
RDblReduce == op = "picked" /\ ra = rb /\ ~Check(2 * x) /\ Done("rdbl", 2 * x - M, TRUE, 0)

Next == \/ Pick
        \/ AddKeep \/ AddSubtract \/ AddOverflow
        \/ SubVanillaGe \/ SubVanillaLt \/ SubLargeKeep \/ SubLargeBorrow
        \/ NegZero \/ NegNonzero
        \/ DblKeep \/ DblSubtract \/ DblOverflow
        \/ MulSmall \/ MulLargeDivide \/ MulLargeShort \/ SqrSmall \/ SqrLargeDivide \/ SqrLargeShort
        \/ One
        \/ RAddKeep \/ RAddReduce \/ RDblKeep \/ RDblReduce
Spec == Init /\ [][Next]_vars

\* ------------------------------------------------------------------ the definition
Expected ==
  CASE op \in {"add", "radd"} -> (ra + rb) % m
    [] op = "sub" -> (ra - rb) % m
    [] op = "neg" -> (0 - ra) % m
    [] op \in {"dbl", "rdbl"} -> (2 * ra) % m
    [] op = "mul" -> (ra * rb) % m
    [] op = "sqr" -> (ra * ra) % m
    [] op = "one" -> 1 % m

\* open findings mirrored (the model is the code as it is)
Known_F23 == ~Strict /\ op = "one" /\ m = 1 /\ ~FixOne
Known_F51 == ~Strict /\ op \in {"radd", "rdbl"} /\ Kind(m) = "large" /\ flag = 1 /\ ~FixCheck

Homomorphic ==
  op \notin {"init", "picked"} =>
    \/ (Valid(m, res) /\ Residue(m, res) = Expected /\ asrt)
    \/ Known_F23 \/ Known_F51
\* the findings are really present in the model of the unrepaired code (guards against a stale Known_*)
F23Present == ~(op = "one" /\ m = 1 /\ ~FixOne /\ Valid(m, res))
F51Present == ~(op \in {"radd", "rdbl"} /\ Kind(m) = "large" /\ flag = 1 /\ ~FixCheck /\ Valid(m, res))
=============================================================================
