SPECIFICATION Spec
INVARIANT Homomorphic
INVARIANT F23Present
INVARIANT F51Present
CONSTANTS
  W = 2
  MaxWords = 3
  FixOne = FALSE
  FixCheck = FALSE
  Strict = FALSE
CHECK_DEADLOCK FALSE
