----------------------------- MODULE ModPowAlg -----------------------------
(* Algorithm layer of C13 for pow: the sliding-window exponentiation of
   integer/src/modular/pow.rs (large::pow_nontrivial, the same loop serves the one- and two-word
   rings), with the exponent as a sequence of W-bit words, least significant first.

     table            : raw^3, raw^5, ... raw^(2^window_len - 1)  (raw itself is entry 0)
     val = raw^2, bit = bit_len - 2
     loop             : at a set bit read a window of window_len bits (the low ones from the word
                        below when the window straddles a word boundary), strip its trailing zeros,
                        square num_bits - 1 times, multiply by the table entry; then one more
                        squaring per bit

   The model keeps `val` as a power of the base (an exponent reached so far): the loop is correct
   iff the exponent reached at the end is the exponent given, whatever the ring - and it is checked
   once more with real residues in a small ring.  window_len is left free (1 .. W - 1): the loop
   must be right for every window the chooser could return; choose_pow_window_len itself is checked
   separately (range and local optimality of its cost function).

   Obligations (debug assertions and slice bounds of the code): the window is odd, the table index is
   inside the table, `bit` never goes below zero, the double-word shift amount is below 2 W. *)
EXTENDS Integers, Sequences, TLC
CONSTANTS W,          \* bits per word
          MaxWords    \* exponent length in words
\* <<modulus, base>> pairs for the check with real residues
Ring == {<<97, 5>>, <<64, 3>>, <<1, 0>>, <<15, 14>>, <<1009, 1008>>}

Beta == 2^W
RECURSIVE BitLenN(_)
BitLenN(x) == IF x = 0 THEN 0 ELSE 1 + BitLenN(x \div 2)
RECURSIVE WordsOf(_)
WordsOf(v) == IF v = 0 THEN <<>> ELSE <<v % Beta>> \o WordsOf(v \div Beta)
RECURSIVE TrailingZeros(_)
TrailingZeros(x) == IF x % 2 = 1 THEN 0 ELSE 1 + TrailingZeros(x \div 2)
RECURSIVE PowMod(_, _, _)
PowMod(b, e, m) == IF e = 0 THEN 1 % m ELSE IF e % 2 = 0 THEN PowMod((b * b) % m, e \div 2, m) ELSE (b * PowMod(b, e - 1, m)) % m

\* one evaluation of the loop: st = [bit, acc, ok]; acc is the exponent of raw that val holds
\* returns the final record
RECURSIVE Loop(_, _, _)
Loop(ew, wl, st) ==
  LET wordIdx == st.bit \div W
      bitIdx == st.bit % W
      cur == ew[wordIdx + 1]
  IN IF (cur \div 2^bitIdx) % 2 = 1
     THEN LET next == IF wordIdx = 0 THEN 0 ELSE ew[wordIdx]                   \* exp_words[word_idx - 1]
              sh == bitIdx + 1 + W - wl                                          \* shift of the double word (next, cur)
              win0 == (((next + Beta * cur) \div 2^sh) % Beta) % 2^wl            \* low word of the shifted double word, masked
              nb == wl - TrailingZeros(win0)
              win == win0 \div 2^(wl - nb)
              acc1 == st.acc * 2^(nb - 1)                                        \* num_bits - 1 squarings
              bit1 == st.bit - (nb - 1)
              acc2 == acc1 + win                                                 \* times raw^window
              ok1 == st.ok /\ sh >= 0 /\ sh < 2 * W /\ win0 # 0 /\ win % 2 = 1
                     /\ (win \div 2) <= 2^(wl - 1) - 1                           \* entry 0 = raw, 1.. = the table
                     /\ bit1 >= 0
          IN IF bit1 <= 0 THEN [bit |-> bit1, acc |-> acc2, ok |-> ok1]
             ELSE Loop(ew, wl, [bit |-> bit1 - 1, acc |-> 2 * acc2, ok |-> ok1])
     ELSE IF st.bit = 0 THEN st
          ELSE Loop(ew, wl, [bit |-> st.bit - 1, acc |-> 2 * st.acc, ok |-> st.ok])

\* pow_nontrivial for e >= 2: val = raw^2 is the exponent 2 ... but "ignoring the lowest bit": after the first squaring
\* val = raw^(e >> (bit + 1)) with bit = bit_len - 2, i.e. the top bit alone has been consumed: acc = 1, then squared
\* once per remaining bit.  The code starts with val = raw^2 and bit = bit_len - 2, which is acc = 2 = (top bit) * 2:
\* the squaring that belongs to position `bit` has been done in advance.
Run(e, wl) == Loop(WordsOf(e), wl, [bit |-> BitLenN(e) - 2, acc |-> 2, ok |-> TRUE])

\* choose_pow_window_len(n)
Cost(n, w) == 2^(w - 1) - 1 + n \div (w + 1)
RECURSIVE Choose(_, _, _)
Choose(n, w, lim) == IF w + 1 < lim /\ Cost(n, w) > Cost(n, w + 1) THEN Choose(n, w + 1, lim) ELSE w

VARIABLES e, wl, phase
vars == <<e, wl, phase>>
Init == phase = "pick" /\ wl \in 1..(W - 1) /\ e = 0
Pick == phase = "pick" /\ phase' = "done" /\ e' \in 2..(Beta^MaxWords - 1) /\ UNCHANGED wl
Next == Pick
Spec == Init /\ [][Next]_vars

\* the loop reaches exactly the exponent, all obligations hold
ExponentOK == phase = "done" => LET r == Run(e, wl) IN r.ok /\ r.bit = 0 /\ r.acc = e
\* and with real residues
RingOK == phase = "done" => \A p \in Ring : PowMod(p[2], Run(e, wl).acc, p[1]) = PowMod(p[2], e, p[1])
\* the chooser returns a usable window for exponents of any length (checked on a sample of bit lengths derived from e)
ChooserOK == phase = "done" =>
  \A n \in {BitLenN(e), e, 64 * e, 1000 * e} : LET w == Choose(n, 1, 64) IN w >= 1 /\ w < 64 /\ (w = 1 \/ Cost(n, w) < Cost(n, w - 1))
=============================================================================
