------------------------------ MODULE ModInvAlg ------------------------------
(* Algorithm layer of C13 for the inverse in a ring with a large modulus: integer/src/modular/div.rs
   (inv_large) and integer/src/gcd/mod.rs (gcd_ext_word, gcd_ext_dword), on top of GcdExtAlg (C12) for
   gcd_ext_in_place.  By the length of the residue:

     0 words   -> None
     1 word    -> gcd_ext_word(modulus, w): modulus = q w + rem; rem = 0 -> g = w, b = 1 (+);
                  else (r, s, t) = gcd_ext(w, rem) on words, |b| = |t| q + |s| computed IN PLACE in the
                  quotient's words (both carries must be zero), sign of b = sign of s, or of -t when s = 0
     2 words   -> gcd_ext_dword: the same with a double-word divisor (the word-sized extended gcd of the
                  model stands for the double-word one)
     >= 3      -> gcd_ext_in_place(modulus, residue): g in the residue's words (one word, = 1), b in
                  the modulus' words
   inverse = b, negated in the ring when the sign of b is negative.

   TLC checks for every modulus of the scope and every residue: Some(v) exactly when gcd = 1, and then
   residue * v = 1 (mod m), v < m; every carry the code asserts to be zero is zero. *)
EXTENDS GcdExtAlg

\* gcd_ext_word / gcd_ext_dword on the value level: [g, b, neg, ok]; lhsLen = words of lhs
GcdExtSmall(lhs, rhs, lhsLen, limit) ==
  LET q == lhs \div rhs  rem == lhs % rhs IN
  IF rem = 0 THEN [g |-> rhs, b |-> 1, neg |-> FALSE, ok |-> rhs # 0]
  ELSE LET p == PrimGcdExt(rhs, rem)
           smag == AbsI(p.s)  tmag == AbsI(p.t)
           bneg == IF smag = 0 THEN ~(p.t < 0) ELSE p.s < 0
           bb == q * tmag + smag
       IN [g |-> p.g, b |-> bb, neg |-> bneg,
           ok |-> rhs # 0 /\ q * tmag < Beta^lhsLen /\ bb < Beta^lhsLen          \* debug_assert!(carry == 0 && !carry2)
                  /\ smag <= limit /\ tmag <= limit]
InvLarge(m, a) ==      \* [some, v, ok]
  LET L == NW(m)  al == NW(a) IN
  IF al = 0 THEN [some |-> FALSE, v |-> 0, ok |-> TRUE]
  ELSE LET r == IF al <= 2 THEN GcdExtSmall(m, a, L, IF al = 1 THEN Lim + 1 ELSE (Beta * Beta) \div 2)
                ELSE LET e == ExtLoop(WordsOf(m), WordsOf(a), 0, 1, 1, 1, FALSE, m, a, 64) IN [g |-> e.g, b |-> e.b, neg |-> e.neg, ok |-> e.ok /\ NW(e.g) <= al]
       IN IF r.g # 1 THEN [some |-> FALSE, v |-> 0, ok |-> r.ok]
          ELSE [some |-> TRUE, v |-> IF r.neg /\ r.b # 0 THEN m - r.b ELSE r.b, ok |-> r.ok /\ r.b < m]   \* is_valid(ring); negate_in_place

InvInit == phase = "invpick" /\ x \in (Beta * Beta)..XMax /\ y = 0
InvPick == phase = "invpick" /\ phase' = "inv" /\ UNCHANGED x
           /\ y' \in {v \in 0..(x - 1) : YStride = 1 \/ (x + v) % YStride = 0 \/ v < Beta * Beta \/ x % 7 = 0}
InvSpec == InvInit /\ [][InvPick]_vars
InvOK == phase = "inv" =>
  LET r == InvLarge(x, y) IN
  /\ r.ok
  /\ r.some = (y # 0 /\ GcdN(x, y) = 1)
  /\ (r.some => r.v < x /\ (r.v * y) % x = 1)
=============================================================================
