------------------------------ MODULE Gen_C13 ------------------------------
(* Behaviour generator for C13: modulus class x operation x operand shape.  No expected values
   are generated; the monitor reduces the exact integer result itself (ModularDef).

   Modulus classes: 1; 2; powers of two of one / two / several words; one-word prime, even,
   all-ones (no normalisation shift) and tiny (maximal shift); two words with and without shift;
   3 .. 40 words with and without shift.
   Operand shapes: 0, 1, m-1, m, m+1, negatives, a + b = m (the conditional-subtraction boundary),
   a + b = m - 1, a = b, word-sized, multiples of m plus a remainder, operands twice as long as m.
   Exponents: 0 .. 3 words (short for long moduli: the monitor replays square-and-multiply). *)
EXTENDS BigInt, Json
CONSTANTS Seed, Big

Lcg8(i, salt) == ((((i + salt * 31) % 4093) * 1277 + 911 * (salt % 1000) + 13) % 4099) % 256
Dense(nb, salt, top) == [i \in 1..nb |-> IF i = nb THEN top ELSE Lcg8(i, salt)]
NN(n) == FromNat(n)
U(x) == I(0, x)

\* <<name, modulus>>
Moduli ==
  << <<"one", One>>, <<"two", NN(2)>>,
     <<"pow2-word", PowerOfTwo(31)>>, <<"pow2-word-top", PowerOfTwo(63)>>,
     <<"pow2-dword", PowerOfTwo(100)>>, <<"pow2-large", PowerOfTwo(192)>>,
     <<"word-prime", Sub(PowerOfTwo(61), One)>>, <<"word-tiny", NN(3)>>, <<"word-even", NN(10000)>>,
     <<"word-noshift", Sub(PowerOfTwo(64), NN(59))>>, <<"word-ones", Sub(PowerOfTwo(64), One)>>,
     <<"dword-shift", Add(PowerOfTwo(64), NN(13))>>, <<"dword-noshift", Dense(16, Seed, 200)>>,
     <<"dword-even", Dense(14, Seed + 1, 6)>>,
     <<"large3-noshift", Dense(24, Seed + 2, 255)>>, <<"large3-shift", Dense(24, Seed + 3, 1)>>,
     <<"large3-even", [i \in 1..20 |-> IF i = 1 THEN 0 ELSE IF i = 20 THEN 5 ELSE Lcg8(i, Seed)]>>,
     \* top bit set and nothing else but a low one: no normalisation shift, and the smallest modulus of its length,
     \* so that products of short operands exceed it (the conditional subtraction of the short-product path)
     \* a modulus that IS a product of short all-ones factors (the product of those residues equals m exactly), and a
     \* modulus sharing the multi-word factor 2^64 + 1 (lowest word 1) with the operands of shape 14
     <<"large3-prod", Mul(Sub(PowerOfTwo(64), One), Sub(PowerOfTwo(128), One))>>,
     <<"large4-g", Mul(Add(PowerOfTwo(64), One), Dense(16, Seed + 8, 251))>>,
     <<"large3-min", Add(PowerOfTwo(191), One)>>, <<"large5-min", Add(PowerOfTwo(319), NN(12345))>>,
     <<"large7", Dense(55, Seed + 4, 37)>>, <<"large12-mersenne", Sub(PowerOfTwo(607), One)>>,
     <<"large25", Dense(200, Seed + 5, 129)>>, <<"large40", Dense(317, Seed + 6, 3)>> >>
NMod == IF Big THEN Len(Moduli) ELSE Len(Moduli) - 2
Ops == <<"reduce", "add", "sub", "mul", "div", "neg", "dbl", "sqr", "pow", "inv", "mix", "clonefrom">>
NShapes == 17

VARIABLES phase, p1, p2, p3
vars == <<phase, p1, p2, p3>>
Init == phase = "pick" /\ p1 \in 1..NMod /\ p2 = 0 /\ p3 = 0
\* shapes 15..17 only vary the exponent: generated for pow alone
Pick == phase = "pick" /\ phase' = "done" /\ p2' \in 1..Len(Ops) /\ p3' \in 1..NShapes /\ UNCHANGED p1
        /\ (p3' >= 15 => Ops[p2'] = "pow")
Next == Pick
Spec == Init /\ [][Next]_vars

Salt == p1 * 11 + p2 * 17 + p3 * 23 + Seed
Case ==
  LET name == Moduli[p1][1]
      m == Moduli[p1][2]
      mi == U(m)
      nb == Len(m)
      op == Ops[p2]
      w == Dense(1 + (Salt % 8), Salt, 1 + (Salt % 255))                 \* word-sized
      big == Dense(2 * nb + 3, Salt + 1, 77)                               \* twice as long as m
      k == Dense(1 + (Salt % 12), Salt + 2, 9)
      ab == CASE p3 = 1 -> <<IZero, IOne>>
              [] p3 = 2 -> <<ISub(mi, IOne), IOne>>                       \* a + b = m
              [] p3 = 3 -> <<ISub(mi, IOne), ISub(mi, IOne)>>
              [] p3 = 4 -> <<mi, IAdd(mi, IOne)>>
              [] p3 = 5 -> <<I(1, w), U(k)>>
              [] p3 = 6 -> <<U(w), ISub(mi, IAdd(U(Mod(w, m)), IOne))>>   \* a + b = m - 1 (mod m)
              [] p3 = 7 -> <<IAdd(IMul(mi, U(k)), U(w)), I(1, big)>>      \* multiple of m plus remainder; long negative
              [] p3 = 8 -> <<U(big), U(big)>>                              \* equal operands: squaring shortcut
              [] p3 = 9 -> <<U(Dense(nb, Salt + 3, 1)), U(Dense(nb, Salt + 4, 1 + (Salt % 200)))>>
              [] p3 = 10 -> <<I(1, Dense(nb + 1, Salt + 5, 3)), ISub(mi, U(Mod(Dense(nb + 1, Salt + 5, 3), m)))>>
              \* short operands whose lengths add up to the length of m, as large as they can be: the product is not
              \* divided, only compared with m (shapes 11: all ones, 12: dense with a high top byte)
              [] p3 = 11 -> LET i == Max2(1, (2 * nb) \div 3) IN <<U(Sub(ShlBytes(One, i), One)), U(Sub(ShlBytes(One, Max2(1, nb - i)), One))>>
              [] p3 = 12 -> LET i == Max2(1, nb \div 3) IN <<U(Dense(i, Salt + 6, 255)), U(Dense(Max2(1, nb - i), Salt + 7, 250))>>
              \* 13: all-ones of one third and two thirds of the length (for "large3-prod": the factors of m, product = m exactly)
              [] p3 = 13 -> LET i == Max2(1, nb \div 3) IN <<U(Sub(ShlBytes(One, i), One)), U(Sub(ShlBytes(One, Max2(1, nb - i)), One))>>
              \* 14: multiples of 2^64 + 1 and 2^128 + 1: a gcd with the modulus that has several words and lowest word 1
              [] p3 = 14 -> <<U(Mul(Add(PowerOfTwo(64), One), Dense(12, Salt + 9, 201))), U(Mul(Add(PowerOfTwo(128), One), w))>>
              [] p3 >= 15 -> <<U(Dense(nb, Salt + 3, 1)), U(Dense(nb, Salt + 4, 1 + (Salt % 200)))>>
      \* exponents: 0, 1, 2, 3, 2^16 + 1, one word, two words, three words (short for long moduli)
      ecap == IF nb <= 16 THEN 24 ELSE IF nb <= 60 THEN 12 ELSE 3
      e == CASE p3 = 1 -> <<>>
             [] p3 = 2 -> One
             [] p3 = 3 -> NN(2)
             [] p3 = 4 -> NN(3)
             [] p3 = 5 -> NN(65537)
             [] p3 = 6 -> Dense(Min2(8, ecap), Salt, 129)
             [] p3 = 7 -> Dense(Min2(9, ecap), Salt, 1)
             [] p3 = 8 -> Dense(Min2(16, ecap), Salt, 255)
             [] p3 = 9 -> Dense(Min2(24, ecap), Salt, 17)
             [] p3 = 10 -> PowerOfTwo(Min2(64, 8 * ecap - 1))
             [] p3 = 11 -> NN(5)
             [] p3 = 12 -> NN(6)
             [] p3 = 13 -> NN(7)
             [] p3 = 14 -> NN(2)
             \* full-width exponents of two and three words whose words differ where a sliding window straddles a word
             \* boundary: low bits of an upper word set (a window starts there), its top bits set, the top bits of the word
             \* below clear (15: the sparse pattern 2^127 + 2^64 + 1)
             [] p3 = 15 -> IF nb > 60 THEN NN(9) ELSE Add(Add(PowerOfTwo(127), PowerOfTwo(64)), One)
             [] p3 = 16 -> IF nb > 60 THEN NN(10) ELSE
                           [i \in 1..16 |-> IF i = 16 THEN 165 ELSE IF i = 9 THEN 7 ELSE IF i = 8 THEN 0 ELSE Lcg8(i, Salt)]
             [] p3 = 17 -> IF nb > 60 THEN NN(11) ELSE
                           [i \in 1..24 |-> IF i = 24 THEN 129 ELSE IF i = 17 THEN 5 ELSE IF i = 16 THEN 64 ELSE IF i = 9 THEN 3
                                              ELSE IF i = 8 THEN 0 ELSE IF i % 3 = 0 THEN 0 ELSE Lcg8(i, Salt)]
      m2 == IF p3 % 2 = 0 THEN m ELSE Moduli[1 + ((p1 + p3) % NMod)][2]
  IN [fam |-> name, shape |-> p3, op |-> op, m |-> mi, a |-> ab[1], b |-> ab[2], e |-> U(IF op = "pow" THEN e ELSE <<>>), m2 |-> U(m2)]

Emit == phase = "done" => PrintT(<<"GEN", ToJson(Case)>>)
=============================================================================
