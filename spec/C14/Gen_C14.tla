------------------------------ MODULE Gen_C14 ------------------------------
(***************************************************************************)
(* Pool generator for C14.  TLC enumerates (exact seed value) x (type that *)
(* holds it exactly) and prints one typed value per state; the harness     *)
(* runs every ordered pair of the pool.  The seeds are chosen so that the  *)
(* pool contains, for every type pair, values that are equal across types, *)
(* neighbours differing in the last bit, values of very different          *)
(* magnitude (10^+-400, 3^250, 2^-1074), zeros of every type, infinities,  *)
(* negative zeros and NaNs.                                                *)
(*                                                                         *)
(* Stride > 1 keeps one seed in Stride (all renderings of a kept seed stay *)
(* together, so equal-across-type pairs survive); the specials are always  *)
(* kept.  Seed moves the sample.                                           *)
(***************************************************************************)
EXTENDS Ieee, Json, TLC
CONSTANTS Seed, Stride

P2(k) == PowerOfTwo(k)
Ten(k) == Pow(FromNat(10), k)
N(n) == FromNat(n)
\* 0x1999999999999A: the significand of the double nearest to 1/10
Tenth53 == FromRadix(<<7, 2, 0, 5, 7, 5, 9, 4, 0, 3, 7, 9, 2, 7, 9, 4>>, 10)

\* ---- typed wire values
TvInt(t, s, m) == [t |-> t, i |-> I(s, m)]
TvF(base, s, m, e) == [t |-> "F", base |-> base, f |-> [sig |-> I(s, m), exp |-> e, inf |-> 0, prec |-> 0]]
TvFInf(base, sg) == [t |-> "F", base |-> base, f |-> [sig |-> IZero, exp |-> 0, inf |-> sg, prec |-> 0]]
TvR(kind, s, n, d) == [t |-> kind, num |-> I(s, n), den |-> I(0, d)]
Bits32(sgn, ef, frac) == <<frac % 65536, sgn * 32768 + ef * 128 + (frac \div 65536)>>
Bits64(sgn, ef, frac) == <<Limb(frac, 1) + 256 * Limb(frac, 2), Limb(frac, 3) + 256 * Limb(frac, 4),
                           Limb(frac, 5) + 256 * Limb(frac, 6), sgn * 32768 + ef * 16 + Limb(frac, 7)>>
TvP(ft, sgn, ef, frac) == [t |-> ft, b |-> IF ft = "f32" THEN Bits32(sgn, ef, ToNat(frac)) ELSE Bits64(sgn, ef, frac)]
\* the primitive float holding the non-zero rational x exactly (caller checks IeeeRepresentable)
TvPOf(ft, x) ==
  LET f == FmtOf(ft)  g == Grid(f, x)  Fb == f.M - 1
      normal == Cmp(g.lo, P2(Fb)) >= 0
  IN TvP(ft, IF g.neg THEN 1 ELSE 0, IF normal THEN g.qe + Fb + f.Emax ELSE 0, IF normal THEN Sub(g.lo, P2(Fb)) ELSE g.lo)

\* ---- seeds: <<class, sign, m, base, exponent, delta>> meaning (-1)^sign * (m * base^exponent + delta) with small
\* native m and delta (the big powers are only computed for the state that renders the seed);
\* <<"rat", sign, n, d, 0, 0>> is n/d; <<"ratbig", sign, k, 0, 0, 0>> are two rationals built on 10^400
SInt(c, s, m) == <<c, s, m, 2, 0, 0>>
Pw(c, s, k, dl) == <<c, s, 1, 2, k, dl>>
Seeds ==
  << SInt("zero", 0, 0), SInt("one", 0, 1), SInt("one", 1, 1), SInt("small", 0, 2), SInt("small", 0, 5), SInt("small", 1, 5),
     SInt("i8", 0, 127), SInt("i8", 0, 128), SInt("i8", 1, 128), SInt("i8", 1, 129), SInt("u8", 0, 255), SInt("u8", 0, 256),
     Pw("2^24", 0, 24, -1), Pw("2^24", 0, 24, 0), Pw("2^24", 0, 24, 1), Pw("2^24", 1, 24, 1),
     Pw("2^31", 0, 31, 0), Pw("2^31", 1, 31, 0), Pw("2^31", 0, 32, -1), Pw("2^31", 0, 32, 0),
     Pw("2^53", 0, 53, -1), Pw("2^53", 0, 53, 0), Pw("2^53", 0, 53, 1), Pw("2^53", 1, 53, 1),
     Pw("2^63", 0, 63, -1), Pw("2^63", 0, 63, 0), Pw("2^63", 1, 63, 0), Pw("2^63", 1, 63, 1),
     Pw("2^64", 0, 64, -1), Pw("2^64", 0, 64, 0), Pw("2^64", 0, 64, 1),
     Pw("2^127", 0, 127, -1), Pw("2^127", 0, 127, 0), Pw("2^127", 1, 127, 0), Pw("2^127", 1, 127, 1),
     Pw("2^128", 0, 128, -1), Pw("2^128", 0, 128, 0), Pw("2^128", 0, 128, 1), <<"2^128", 0, 16777215, 2, 104, 0>>,
     <<"1e20", 0, 1, 10, 20, 0>>, <<"1e20", 0, 1, 10, 20, 1>>,
     <<"1e400", 0, 1, 10, 400, 0>>, <<"1e400", 1, 1, 10, 400, 0>>, <<"1e400", 0, 1, 10, 400, 1>>, <<"1e400", 0, 1, 10, 400, -1>>,
     <<"3^250", 0, 1, 3, 250, 0>>, <<"3^250", 0, 2, 3, 250, 0>>, <<"16^300", 0, 15, 16, 300, 0>>, <<"36^200", 0, 35, 36, 200, 0>>,
     <<"half", 0, 1, 2, -1, 0>>, <<"half", 1, 1, 2, -1, 0>>, <<"half", 0, 3, 2, -2, 0>>, <<"quarter", 0, 1, 2, -2, 0>>, <<"quarter", 0, 3, 2, -3, 0>>,
     <<"quarter", 0, 1, 2, -3, 0>>, <<"tiny2", 0, 1, 2, -30, 0>>, <<"tiny2", 0, 5, 2, -60, 0>>, <<"tiny2", 1, 5, 2, -60, 0>>,
     <<"subnormal", 0, 1, 2, -149, 0>>, <<"subnormal", 0, 3, 2, -149, 0>>, <<"subnormal", 0, 1, 2, -1074, 0>>, <<"subnormal", 1, 1, 2, -1074, 0>>,
     <<"f32nb", 0, 16777217, 2, -10, 0>>, <<"f32nb", 0, 16777216, 2, -10, 0>>, <<"f64nb", 0, -1, 2, -60, 0>>, <<"f64nb", 0, -2, 2, -60, 0>>,
     <<"tenth", 0, -3, 2, -56, 0>>, <<"tenth", 0, -4, 2, -56, 0>>, <<"tenth", 0, 1, 10, -1, 0>>, <<"tenth", 1, 1, 10, -1, 0>>,
     <<"dec", 0, 123456789, 10, -3, 0>>, <<"dec", 0, 123456789, 10, 3, 0>>, <<"dec", 0, 15, 10, -1, 0>>,
     <<"1e-400", 0, 1, 10, -400, 0>>, <<"1e-400", 1, 1, 10, -400, 0>>, <<"1e-400", 0, 11, 10, -401, 0>>, <<"3^-250", 0, 1, 3, -250, 0>>,
     <<"16^-300", 0, 1, 16, -300, 0>>, <<"36^-200", 0, 1, 36, -200, 0>>,
     <<"rat", 0, 1, 3, 0, 0>>, <<"rat", 1, 1, 3, 0, 0>>, <<"rat", 0, 2, 3, 0, 0>>, <<"rat", 0, 22, 7, 0, 0>>,
     <<"ratbig", 0, 1, 0, 0, 0>>, <<"ratbig", 0, 2, 0, 0, 0>>,
     \* multiples and neighbours of the NumHash modulus 2^127 - 1 (the residue must be taken, not the number itself)
     <<"hashmod", 1, 1, 2, 127, -1>>, <<"hashmod", 0, 2, 2, 127, -2>>, <<"hashmod", 1, 3, 2, 127, -3>>, <<"hashmod", 0, 1, 2, 127, -2>>,
     <<"hashmod", 0, 2, 2, 127, -1>>, <<"hashmod", 0, 1, 2, 254, -1>>,
     \* a fraction next to an integer of the same size (the log2 estimates cannot separate them: the exact comparison
     \* decides), both signs: 2^23 + 1/2 between 2^23 and 2^23 + 1; 12345678.5 between 12345678 and 12345679
     <<"nearint", 0, 16777217, 2, -1, 0>>, <<"nearint", 1, 16777217, 2, -1, 0>>, SInt("nearint", 0, 8388608), SInt("nearint", 0, 8388609),
     SInt("nearint", 1, 8388608), <<"nearint", 1, 123456785, 10, -1, 0>>, <<"nearint", 0, 123456785, 10, -1, 0>>,
     SInt("nearint", 0, 12345678), SInt("nearint", 0, 12345679), SInt("nearint", 1, 12345679) >>
NSeeds == Len(Seeds)
\* significands too wide for a native literal, by (negative) code
Wide(m) == CASE m = -1 -> Sub(P2(53), One) [] m = -2 -> P2(53) [] m = -3 -> Tenth53 [] m = -4 -> Sub(Tenth53, One) [] OTHER -> FromNat(m)

Prims == <<"u8", "u16", "u32", "u64", "u128", "usize", "i8", "i16", "i32", "i64", "i128", "isize">>
PrimBits == <<8, 16, 32, 64, 128, 64, 8, 16, 32, 64, 128, 64>>
PrimFits(pi, s, m) == IF pi <= 6 THEN s = 0 /\ BitLen(m) <= PrimBits[pi]
                      ELSE BitLen(m) <= PrimBits[pi] - 1 \/ (s = 1 /\ m = P2(PrimBits[pi] - 1))

\* the fully evaluated seed: [cls, s, rat (BOOLEAN), sig (BigNat significand in its own base), base, exp, isint, mag (integer
\* magnitude when isint), q (the exact rational)]
Eval(sd) ==
  IF sd[1] = "rat" THEN [cls |-> "rat", s |-> sd[2], rat |-> TRUE, sig |-> <<>>, base |-> 2, exp |-> 0, isint |-> FALSE, mag |-> <<>>,
                         q |-> Q(I(sd[2], FromNat(sd[3])), FromNat(sd[4]))]
  ELSE IF sd[1] = "ratbig" THEN [cls |-> "rat", s |-> 0, rat |-> TRUE, sig |-> <<>>, base |-> 2, exp |-> 0, isint |-> FALSE, mag |-> <<>>,
                         q |-> IF sd[3] = 1 THEN Q(I(0, Add(Ten(400), One)), Ten(400)) ELSE Q(IOne, Add(Ten(400), One))]
  ELSE LET m == Wide(sd[3])
           pw == Pow(FromNat(sd[4]), IF sd[5] >= 0 THEN sd[5] ELSE -sd[5])
           int == sd[5] >= 0
           mag0 == IF int THEN Mul(m, pw) ELSE <<>>
           mag == IF sd[6] > 0 THEN Add(mag0, FromNat(sd[6])) ELSE IF sd[6] < 0 THEN Sub(mag0, FromNat(-sd[6])) ELSE mag0
           \* with a delta the value is no longer m * base^exp: it is rendered as an integer only
           own == sd[6] = 0
       IN [cls |-> sd[1], s |-> sd[2], rat |-> ~own, sig |-> m, base |-> sd[4], exp |-> sd[5], isint |-> int, mag |-> mag,
           q |-> IF int THEN Q(I(sd[2], mag), One) ELSE Q(I(sd[2], m), pw)]

\* renderings 1..NRend of a seed; <<>> when the type cannot hold the value exactly
NRend == 26
Render(sv, r) ==
  LET s == sv.s
      isint == sv.isint
      q == sv.q
      own == ~sv.rat
  IN CASE r = 1 -> IF isint /\ (s = 0 \/ sv.mag = <<>>) THEN <<TvInt("U", 0, sv.mag)>> ELSE <<>>
       [] r = 2 -> IF isint THEN <<TvInt("I", s, sv.mag)>> ELSE <<>>
       [] r \in 3..14 -> IF isint /\ PrimFits(r - 2, s, sv.mag) THEN <<TvInt(Prims[r - 2], s, sv.mag)>> ELSE <<>>
       [] r = 15 -> <<TvR("R", s, q.n.m, q.d)>>
       [] r = 16 -> <<TvR("RX", s, MulSmall(q.n.m, 6), MulSmall(q.d, 6))>>
       [] r = 17 -> IF own /\ ~(sv.base = 2 /\ sv.exp = 0) THEN <<TvF(sv.base, s, sv.sig, sv.exp)>> ELSE <<>>     \* the seed's own base
       [] r = 18 -> IF isint THEN <<TvF(10, s, sv.mag, 0)>> ELSE <<>>
       [] r = 19 -> IF isint THEN <<TvF(2, s, sv.mag, 0)>> ELSE <<>>
       [] r = 20 -> IF isint /\ BitLen(sv.mag) < 200 THEN <<TvF(36, s, sv.mag, 0), TvF(3, s, sv.mag, 0)>> ELSE <<>>
       \* a binary fraction m * 2^e (e < 0) is also the decimal m * 5^-e * 10^e and, when 4 | e or 3 | e, a base-16 / base-8 float
       [] r = 21 -> IF own /\ sv.base = 2 /\ sv.exp < 0 /\ sv.exp > -200
                    THEN <<TvF(10, s, Mul(sv.sig, Pow(FromNat(5), -sv.exp)), sv.exp)>> ELSE <<>>
       [] r = 22 -> IF own /\ sv.base = 2 /\ sv.exp < 0 /\ (-sv.exp) % 4 = 0 THEN <<TvF(16, s, sv.sig, -((-sv.exp) \div 4))>>
                    ELSE IF own /\ sv.base = 2 /\ sv.exp < 0 /\ (-sv.exp) % 3 = 0 THEN <<TvF(8, s, sv.sig, -((-sv.exp) \div 3))>> ELSE <<>>
       [] r = 23 -> IF ~QIsZero(q) /\ IeeeRepresentable(F32, q) THEN <<TvPOf("f32", q)>> ELSE <<>>
       [] r = 24 -> IF ~QIsZero(q) /\ IeeeRepresentable(F64, q) THEN <<TvPOf("f64", q)>> ELSE <<>>
       \* the nearest doubles / floats of a value the format cannot hold: last-bit neighbours of the exact value
       [] r = 25 -> IF ~QIsZero(q) /\ ~IeeeRepresentable(F64, q) /\ Below(F64, q).k = "fin" /\ Above(F64, q).k = "fin"
                       /\ ~QIsZero(Below(F64, q).q) THEN <<TvPOf("f64", Below(F64, q).q), TvPOf("f64", Above(F64, q).q)>> ELSE <<>>
       [] r = 26 -> IF ~QIsZero(q) /\ ~IeeeRepresentable(F32, q) /\ Below(F32, q).k = "fin" /\ Above(F32, q).k = "fin"
                       /\ ~QIsZero(Below(F32, q).q) THEN <<TvPOf("f32", Below(F32, q).q), TvPOf("f32", Above(F32, q).q)>> ELSE <<>>

\* values that are not the rendering of a finite seed
Specials ==
  << <<"zero", TvInt("I", 0, <<>>)>>, <<"zero", TvF(2, 0, <<>>, 0)>>, <<"zero", TvF(10, 0, <<>>, 0)>>, <<"zero", TvF(16, 0, <<>>, 0)>>,
     <<"zero", TvR("R", 0, <<>>, One)>>, <<"zero", TvR("RX", 0, <<>>, N(5))>>,
     <<"zero", TvP("f32", 0, 0, <<>>)>>, <<"zero", TvP("f64", 0, 0, <<>>)>>, <<"negzero", TvP("f32", 1, 0, <<>>)>>, <<"negzero", TvP("f64", 1, 0, <<>>)>>,
     <<"inf", TvP("f32", 0, 255, <<>>)>>, <<"inf", TvP("f32", 1, 255, <<>>)>>, <<"inf", TvP("f64", 0, 2047, <<>>)>>, <<"inf", TvP("f64", 1, 2047, <<>>)>>,
     <<"inf", TvFInf(2, 1)>>, <<"inf", TvFInf(2, -1)>>, <<"inf", TvFInf(10, 1)>>, <<"inf", TvFInf(10, -1)>>, <<"inf", TvFInf(3, 1)>>,
     <<"nan", TvP("f32", 0, 255, P2(22))>>, <<"nan", TvP("f64", 1, 2047, One)>>,
     <<"fmax", TvP("f32", 0, 254, Sub(P2(23), One))>>, <<"fmax", TvP("f64", 0, 2046, Sub(P2(52), One))>>, <<"fmax", TvP("f64", 1, 2046, Sub(P2(52), One))>>,
     <<"fmax", TvInt("U", 0, Sub(P2(1024), P2(971)))>>, <<"fmax", TvInt("I", 0, Add(Sub(P2(1024), P2(971)), One))>>, <<"fmax", TvInt("U", 0, P2(1024))>>,
     <<"fmax", TvF(2, 0, One, 1100)>>, <<"fmax", TvF(10, 1, One, 309)>>, <<"fmax", TvInt("U", 0, Sub(P2(128), P2(104)))>>, <<"fmax", TvR("R", 0, P2(1077), One)>>,
     <<"one", TvP("f64", 0, 1023, One)>>, <<"one", TvP("f64", 0, 1022, Sub(P2(52), One))>>, <<"one", TvP("f32", 0, 127, One)>>,
     <<"one", TvP("f32", 0, 126, Sub(P2(23), One))>> >>
NSpecials == Len(Specials)

VARIABLES phase, a, r
vars == <<phase, a, r>>
\* a in 1..NSeeds: a seed; a in NSeeds+1 .. NSeeds+NSpecials: a special
Kept(i) == i > NSeeds \/ Stride = 1 \/ i <= 6 \/ (i + Seed) % Stride = 0 \/ Seeds[i][1] \in {"hashmod", "2^127", "rat", "half", "nearint"}
Init == phase = "pick" /\ a \in {i \in 1..(NSeeds + NSpecials) : Kept(i)} /\ r = 0
Pick == /\ phase = "pick" /\ phase' = "done" /\ UNCHANGED a
        /\ r' \in (IF a <= NSeeds THEN 1..NRend ELSE {1})
Next == Pick
Spec == Init /\ [][Next]_vars

Vals == IF a <= NSeeds
        THEN LET sv == Eval(Seeds[a])  vs == Render(sv, r) IN [i \in 1..Len(vs) |-> [op |-> "val", cls |-> sv.cls, v |-> vs[i]]]
        ELSE <<[op |-> "val", cls |-> Specials[a - NSeeds][1], v |-> Specials[a - NSeeds][2]]>>
Emit == phase = "done" => LET vs == Vals IN \A i \in 1..Len(vs) : PrintT(<<"GEN", ToJson(vs[i])>>)
=============================================================================
