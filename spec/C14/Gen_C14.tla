------------------------------ MODULE Gen_C14 ------------------------------
(***************************************************************************)
(* Pool generator for C14.  TLC enumerates (exact seed value) x (type that *)
(* holds it exactly) and prints one typed value per state; the harness     *)
(* runs every ordered pair of the pool.  The seeds are chosen so that the  *)
(* pool contains, for every type pair, values that are equal across types, *)
(* neighbours differing in the last bit, values of very different          *)
(* magnitude (10^+-400, 3^250, 2^-1074), zeros of every type, infinities,  *)
(* negative zeros and NaNs.                                                *)
(*                                                                         *)
(* Stride > 1 keeps one seed in Stride (all renderings of a kept seed stay *)
(* together, so equal-across-type pairs survive); the specials are always  *)
(* kept.  Seed moves the sample.                                           *)
(***************************************************************************)
EXTENDS Ieee, Json, TLC
CONSTANTS Seed, Stride

P2(k) == PowerOfTwo(k)
Ten(k) == Pow(FromNat(10), k)
N(n) == FromNat(n)
\* 0x1999999999999A: the significand of the double nearest to 1/10
Tenth53 == FromRadix(<<7, 2, 0, 5, 7, 5, 9, 4, 0, 3, 7, 9, 2, 7, 9, 4>>, 10)

\* ---- typed wire values
TvInt(t, s, m) == [t |-> t, i |-> I(s, m)]
TvF(base, s, m, e) == [t |-> "F", base |-> base, f |-> [sig |-> I(s, m), exp |-> e, inf |-> 0, prec |-> 0]]
TvFInf(base, sg) == [t |-> "F", base |-> base, f |-> [sig |-> IZero, exp |-> 0, inf |-> sg, prec |-> 0]]
TvR(kind, s, n, d) == [t |-> kind, num |-> I(s, n), den |-> I(0, d)]
Bits32(sgn, ef, frac) == <<frac % 65536, sgn * 32768 + ef * 128 + (frac \div 65536)>>
Bits64(sgn, ef, frac) == <<Limb(frac, 1) + 256 * Limb(frac, 2), Limb(frac, 3) + 256 * Limb(frac, 4),
                           Limb(frac, 5) + 256 * Limb(frac, 6), sgn * 32768 + ef * 16 + Limb(frac, 7)>>
TvP(ft, sgn, ef, frac) == [t |-> ft, b |-> IF ft = "f32" THEN Bits32(sgn, ef, ToNat(frac)) ELSE Bits64(sgn, ef, frac)]
\* the primitive float holding the non-zero rational x exactly (caller checks IeeeRepresentable)
TvPOf(ft, x) ==
  LET f == FmtOf(ft)  g == Grid(f, x)  Fb == f.M - 1
      normal == Cmp(g.lo, P2(Fb)) >= 0
  IN TvP(ft, IF g.neg THEN 1 ELSE 0, IF normal THEN g.qe + Fb + f.Emax ELSE 0, IF normal THEN Sub(g.lo, P2(Fb)) ELSE g.lo)

\* ---- seeds: <<class, sign, numerator, base, exponent>> meaning (-1)^sign * numerator * base^exponent,
\* or <<"rat", sign, n, d, 0>> meaning n/d
SInt(c, s, m) == <<c, s, m, 2, 0>>
Seeds ==
  << SInt("zero", 0, <<>>), SInt("one", 0, One), SInt("one", 1, One), SInt("small", 0, N(2)), SInt("small", 0, N(5)), SInt("small", 1, N(5)),
     SInt("i8", 0, N(127)), SInt("i8", 0, N(128)), SInt("i8", 1, N(128)), SInt("i8", 1, N(129)), SInt("u8", 0, N(255)), SInt("u8", 0, N(256)),
     SInt("2^24", 0, Sub(P2(24), One)), SInt("2^24", 0, P2(24)), SInt("2^24", 0, Add(P2(24), One)), SInt("2^24", 1, Add(P2(24), One)),
     SInt("2^31", 0, P2(31)), SInt("2^31", 1, P2(31)), SInt("2^31", 0, Sub(P2(32), One)), SInt("2^31", 0, P2(32)),
     SInt("2^53", 0, Sub(P2(53), One)), SInt("2^53", 0, P2(53)), SInt("2^53", 0, Add(P2(53), One)), SInt("2^53", 1, Add(P2(53), One)),
     SInt("2^63", 0, Sub(P2(63), One)), SInt("2^63", 0, P2(63)), SInt("2^63", 1, P2(63)), SInt("2^63", 1, Add(P2(63), One)),
     SInt("2^64", 0, Sub(P2(64), One)), SInt("2^64", 0, P2(64)), SInt("2^64", 0, Add(P2(64), One)),
     SInt("2^127", 0, Sub(P2(127), One)), SInt("2^127", 0, P2(127)), SInt("2^127", 1, P2(127)), SInt("2^127", 1, Add(P2(127), One)),
     SInt("2^128", 0, Sub(P2(128), One)), SInt("2^128", 0, P2(128)), SInt("2^128", 0, Add(P2(128), One)), SInt("2^128", 0, Sub(P2(128), P2(104))),
     SInt("1e20", 0, Ten(20)), SInt("1e20", 0, Add(Ten(20), One)),
     <<"1e400", 0, One, 10, 400>>, <<"1e400", 1, One, 10, 400>>, SInt("1e400", 0, Add(Ten(400), One)), SInt("1e400", 0, Sub(Ten(400), One)),
     <<"3^250", 0, One, 3, 250>>, <<"3^250", 0, N(2), 3, 250>>, <<"16^300", 0, N(15), 16, 300>>, <<"36^200", 0, N(35), 36, 200>>,
     <<"half", 0, One, 2, -1>>, <<"half", 1, One, 2, -1>>, <<"half", 0, N(3), 2, -2>>, <<"quarter", 0, One, 2, -2>>, <<"quarter", 0, N(3), 2, -3>>,
     <<"quarter", 0, One, 2, -3>>, <<"tiny2", 0, One, 2, -30>>, <<"tiny2", 0, N(5), 2, -60>>, <<"tiny2", 1, N(5), 2, -60>>,
     <<"subnormal", 0, One, 2, -149>>, <<"subnormal", 0, N(3), 2, -149>>, <<"subnormal", 0, One, 2, -1074>>, <<"subnormal", 1, One, 2, -1074>>,
     <<"f32nb", 0, Add(P2(24), One), 2, -10>>, <<"f32nb", 0, P2(24), 2, -10>>, <<"f64nb", 0, Sub(P2(53), One), 2, -60>>, <<"f64nb", 0, P2(53), 2, -60>>,
     <<"tenth", 0, Tenth53, 2, -56>>, <<"tenth", 0, Sub(Tenth53, One), 2, -56>>, <<"tenth", 0, One, 10, -1>>, <<"tenth", 1, One, 10, -1>>,
     <<"dec", 0, N(123456789), 10, -3>>, <<"dec", 0, N(123456789), 10, 3>>, <<"dec", 0, N(15), 10, -1>>,
     <<"1e-400", 0, One, 10, -400>>, <<"1e-400", 1, One, 10, -400>>, <<"1e-400", 0, N(11), 10, -401>>, <<"3^-250", 0, One, 3, -250>>,
     <<"16^-300", 0, One, 16, -300>>, <<"36^-200", 0, One, 36, -200>>,
     <<"rat", 0, One, N(3), 0>>, <<"rat", 1, One, N(3), 0>>, <<"rat", 0, N(2), N(3), 0>>, <<"rat", 0, N(22), N(7), 0>>,
     <<"rat", 0, Add(Ten(400), One), Ten(400), 0>>, <<"rat", 0, One, Add(Ten(400), One), 0>> >>
NSeeds == Len(Seeds)

Prims == <<"u8", "u16", "u32", "u64", "u128", "usize", "i8", "i16", "i32", "i64", "i128", "isize">>
PrimBits == <<8, 16, 32, 64, 128, 64, 8, 16, 32, 64, 128, 64>>
PrimFits(pi, s, m) == IF pi <= 6 THEN s = 0 /\ BitLen(m) <= PrimBits[pi]
                      ELSE BitLen(m) <= PrimBits[pi] - 1 \/ (s = 1 /\ m = P2(PrimBits[pi] - 1))

\* the exact value of a seed as a rational, and whether it is an integer
SeedQ(sd) == IF sd[1] = "rat" THEN Q(I(sd[2], sd[3]), sd[4])
             ELSE IF sd[5] >= 0 THEN Q(I(sd[2], Mul(sd[3], Pow(FromNat(sd[4]), sd[5]))), One)
             ELSE Q(I(sd[2], sd[3]), Pow(FromNat(sd[4]), -sd[5]))
IsIntSeed(sd) == sd[1] # "rat" /\ sd[5] >= 0
IntMag(sd) == Mul(sd[3], Pow(FromNat(sd[4]), sd[5]))

\* renderings 1..NRend of a seed; <<>> when the type cannot hold the value exactly
NRend == 26
Render(sd, r) ==
  LET s == sd[2]
      isint == IsIntSeed(sd)
      q == SeedQ(sd)
  IN CASE r = 1 -> IF isint /\ (s = 0 \/ IntMag(sd) = <<>>) THEN <<TvInt("U", 0, IntMag(sd))>> ELSE <<>>
       [] r = 2 -> IF isint THEN <<TvInt("I", s, IntMag(sd))>> ELSE <<>>
       [] r \in 3..14 -> IF isint /\ PrimFits(r - 2, s, IntMag(sd)) THEN <<TvInt(Prims[r - 2], s, IntMag(sd))>> ELSE <<>>
       [] r = 15 -> <<TvR("R", s, q.n.m, q.d)>>
       [] r = 16 -> <<TvR("RX", s, MulSmall(q.n.m, 6), MulSmall(q.d, 6))>>
       [] r = 17 -> IF sd[1] # "rat" /\ ~(sd[4] = 2 /\ sd[5] = 0) THEN <<TvF(sd[4], s, sd[3], sd[5])>> ELSE <<>>                 \* the seed's own base
       [] r = 18 -> IF isint THEN <<TvF(10, s, IntMag(sd), 0)>> ELSE <<>>
       [] r = 19 -> IF isint THEN <<TvF(2, s, IntMag(sd), 0)>> ELSE <<>>
       [] r = 20 -> IF isint /\ BitLen(IntMag(sd)) < 200 THEN <<TvF(36, s, IntMag(sd), 0), TvF(3, s, IntMag(sd), 0)>> ELSE <<>>
       \* a binary fraction m * 2^e (e < 0) is also the decimal m * 5^-e * 10^e and, when 4 | e, a base-16 float
       [] r = 21 -> IF sd[1] # "rat" /\ sd[4] = 2 /\ sd[5] < 0 /\ sd[5] > -200
                    THEN <<TvF(10, s, Mul(sd[3], Pow(FromNat(5), -sd[5])), sd[5])>> ELSE <<>>
       [] r = 22 -> IF sd[1] # "rat" /\ sd[4] = 2 /\ sd[5] < 0 /\ (-sd[5]) % 4 = 0 THEN <<TvF(16, s, sd[3], -((-sd[5]) \div 4))>>
                    ELSE IF sd[1] # "rat" /\ sd[4] = 2 /\ sd[5] < 0 /\ (-sd[5]) % 3 = 0 THEN <<TvF(8, s, sd[3], -((-sd[5]) \div 3))>> ELSE <<>>
       [] r = 23 -> IF ~QIsZero(q) /\ IeeeRepresentable(F32, q) THEN <<TvPOf("f32", q)>> ELSE <<>>
       [] r = 24 -> IF ~QIsZero(q) /\ IeeeRepresentable(F64, q) THEN <<TvPOf("f64", q)>> ELSE <<>>
       \* the nearest doubles / floats of a value the format cannot hold: last-bit neighbours of the exact value
       [] r = 25 -> IF ~QIsZero(q) /\ ~IeeeRepresentable(F64, q) /\ Below(F64, q).k = "fin" /\ Above(F64, q).k = "fin"
                       /\ ~QIsZero(Below(F64, q).q) THEN <<TvPOf("f64", Below(F64, q).q), TvPOf("f64", Above(F64, q).q)>> ELSE <<>>
       [] r = 26 -> IF ~QIsZero(q) /\ ~IeeeRepresentable(F32, q) /\ Below(F32, q).k = "fin" /\ Above(F32, q).k = "fin"
                       /\ ~QIsZero(Below(F32, q).q) THEN <<TvPOf("f32", Below(F32, q).q), TvPOf("f32", Above(F32, q).q)>> ELSE <<>>

\* values that are not the rendering of a finite seed
Specials ==
  << <<"zero", TvInt("I", 0, <<>>)>>, <<"zero", TvF(2, 0, <<>>, 0)>>, <<"zero", TvF(10, 0, <<>>, 0)>>, <<"zero", TvF(16, 0, <<>>, 0)>>,
     <<"zero", TvR("R", 0, <<>>, One)>>, <<"zero", TvR("RX", 0, <<>>, N(5))>>,
     <<"zero", TvP("f32", 0, 0, <<>>)>>, <<"zero", TvP("f64", 0, 0, <<>>)>>, <<"negzero", TvP("f32", 1, 0, <<>>)>>, <<"negzero", TvP("f64", 1, 0, <<>>)>>,
     <<"inf", TvP("f32", 0, 255, <<>>)>>, <<"inf", TvP("f32", 1, 255, <<>>)>>, <<"inf", TvP("f64", 0, 2047, <<>>)>>, <<"inf", TvP("f64", 1, 2047, <<>>)>>,
     <<"inf", TvFInf(2, 1)>>, <<"inf", TvFInf(2, -1)>>, <<"inf", TvFInf(10, 1)>>, <<"inf", TvFInf(10, -1)>>, <<"inf", TvFInf(3, 1)>>,
     <<"nan", TvP("f32", 0, 255, P2(22))>>, <<"nan", TvP("f64", 1, 2047, One)>>,
     <<"fmax", TvP("f32", 0, 254, Sub(P2(23), One))>>, <<"fmax", TvP("f64", 0, 2046, Sub(P2(52), One))>>, <<"fmax", TvP("f64", 1, 2046, Sub(P2(52), One))>>,
     <<"fmax", TvInt("U", 0, Sub(P2(1024), P2(971)))>>, <<"fmax", TvInt("I", 0, Add(Sub(P2(1024), P2(971)), One))>>, <<"fmax", TvInt("U", 0, P2(1024))>>,
     <<"fmax", TvF(2, 0, One, 1100)>>, <<"fmax", TvF(10, 1, One, 309)>>, <<"fmax", TvInt("U", 0, Sub(P2(128), P2(104)))>>, <<"fmax", TvR("R", 0, P2(1077), One)>>,
     <<"one", TvP("f64", 0, 1023, One)>>, <<"one", TvP("f64", 0, 1022, Sub(P2(52), One))>>, <<"one", TvP("f32", 0, 127, One)>>,
     <<"one", TvP("f32", 0, 126, Sub(P2(23), One))>> >>
NSpecials == Len(Specials)

VARIABLES phase, a, r
vars == <<phase, a, r>>
\* a in 1..NSeeds: a seed; a in NSeeds+1 .. NSeeds+NSpecials: a special
Kept(i) == i > NSeeds \/ Stride = 1 \/ i <= 6 \/ (i + Seed) % Stride = 0
Init == phase = "pick" /\ a \in {i \in 1..(NSeeds + NSpecials) : Kept(i)} /\ r = 0
Pick == /\ phase = "pick" /\ phase' = "done" /\ UNCHANGED a
        /\ r' \in (IF a <= NSeeds THEN 1..NRend ELSE {1})
Next == Pick
Spec == Init /\ [][Next]_vars

Vals == IF a <= NSeeds THEN [i \in 1..Len(Render(Seeds[a], r)) |-> [op |-> "val", cls |-> Seeds[a][1], v |-> Render(Seeds[a], r)[i]]]
        ELSE <<[op |-> "val", cls |-> Specials[a - NSeeds][1], v |-> Specials[a - NSeeds][2]]>>
Emit == phase = "done" => \A i \in 1..Len(Vals) : PrintT(<<"GEN", ToJson(Vals[i])>>)
=============================================================================
