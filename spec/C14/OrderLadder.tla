----------------------------- MODULE OrderLadder -----------------------------
(***************************************************************************)
(* Algorithm layer of C14: the comparison ladders of                       *)
(*   /repo/float/src/cmp.rs            repr_cmp_ubig / repr_cmp_ibig<ABS>  *)
(*   /repo/rational/src/cmp.rs         repr_cmp_ubig / repr_cmp_ibig /     *)
(*                                     repr_cmp_fbig<ABS>                  *)
(*   /repo/float/src/third_party/num_order.rs   Repr<B1> vs Repr<B2>,      *)
(*                                     Repr<B> vs f32/f64                  *)
(*   /repo/integer/src/third_party/num_order.rs UBig/IBig vs f32/f64       *)
(*   /repo/rational/src/third_party/num_order.rs Repr vs f32/f64           *)
(* transcribed step by step:  sign  ->  log2-bound filter  ->  exact.      *)
(*                                                                         *)
(* The EstimatedLog2 bounds of the big types are abstracted: ANY pair      *)
(* lb <= log2|x| <= ub on the integer grid within Slack of the true value  *)
(* (and (-inf, -inf) for zero, as the code returns).  The bit-length       *)
(* filters of the primitive-float ladders are exact integer arithmetic and *)
(* are transcribed literally.  Invariant: for every admissible bound pair  *)
(* the ladder returns the exact order of the values (of the magnitudes for *)
(* the ABS variants).                                                      *)
(*                                                                         *)
(* FixAbs = FALSE / FixZero = FALSE is the pinned code.  Known* are the    *)
(* input classes of the open findings F10 (the ABS variants of the float   *)
(* ladders compare signed significands in the exact step) and F28 (zero    *)
(* against a primitive float below 1/2: the bit-length filter fires before *)
(* zero is recognised) and F70 (IBig against an infinity of its own sign:  *)
(* `-sign * Less`).                                                        *)
(***************************************************************************)
EXTENDS Integers, Sequences, FiniteSets, TLC
CONSTANTS Slack, FixAbs, FixZero, FixInf, MaxNum, Variants
\* exponent value standing for an infinite primitive float <<+-1, InfExp>>
InfExp == 99

\* ------------------------------------------------------------------ small exact arithmetic
Pow2T == <<1, 2, 4, 8, 16, 32, 64, 128, 256, 512, 1024, 2048, 4096, 8192, 16384, 32768>>
P2(k) == Pow2T[k + 1]                                  \* k in 0..15
PowB(B, k) == IF k = 0 THEN 1 ELSE IF k = 1 THEN B ELSE IF k = 2 THEN B * B ELSE B * B * B
Abs(n) == IF n < 0 THEN -n ELSE n
Sgn(n) == IF n < 0 THEN -1 ELSE IF n > 0 THEN 1 ELSE 0
BitLen(n) == LET a == Abs(n) IN IF a = 0 THEN 0 ELSE CHOOSE k \in 1..13 : P2(k - 1) <= a /\ a < P2(k)
\* rationals [n, d], d > 0
R(n, d) == [n |-> n, d |-> d]
Cmp(x, y) == Sgn(x.n * y.d - y.n * x.d)                  \* -1, 0, 1
AbsR(x) == R(Abs(x.n), x.d)
\* 2^k <= |x| ?   (k may be negative)
GePow2(x, k) == IF k >= 0 THEN Abs(x.n) >= x.d * P2(k) ELSE Abs(x.n) * P2(-k) >= x.d
LePow2(x, k) == IF k >= 0 THEN Abs(x.n) <= x.d * P2(k) ELSE Abs(x.n) * P2(-k) <= x.d
FloorLog2(x) == CHOOSE k \in -12..12 : GePow2(x, k) /\ ~GePow2(x, k + 1)
CeilLog2(x) == CHOOSE k \in -12..12 : LePow2(x, k) /\ ~LePow2(x, k - 1)

\* orderings as integers: -1 Less, 0 Equal, 1 Greater; 2 = None (incomparable)
Rev(o) == IF o = 2 THEN 2 ELSE -o
\* `sign * ordering` of the Rust code
Times(neg, o) == IF neg THEN -o ELSE o

\* admissible log2 bounds of x: <<lb, ub>>; NegInf encodes the (-inf, -inf) the code returns for zero
NegInf == -100
Bounds(x) == IF x.n = 0 THEN {<<NegInf, NegInf>>}
             ELSE {<<lb, ub>> : lb \in (FloorLog2(x) - Slack)..FloorLog2(x), ub \in CeilLog2(x)..(CeilLog2(x) + Slack)}

\* ------------------------------------------------------------------ the ladders
(* float/src/cmp.rs repr_cmp_ubig / repr_cmp_ibig <B, ABS>: lhs = finite float value x (its
   significand carries the sign), rhs = integer y.  The exact step compares lhs.significand with the
   shifted rhs as SIGNED integers also when ABS is set (pinned code). *)
FloatVsInt(abs, x, y, bx, by) ==
  LET negx == x.n < 0  negy == y.n < 0 IN
  IF ~abs /\ negx /\ ~negy THEN -1
  ELSE IF ~abs /\ ~negx /\ negy THEN 1
  ELSE LET neg == ~abs /\ negx /\ negy IN
       IF bx[1] > by[2] THEN Times(neg, 1)
       ELSE IF bx[2] < by[1] THEN Times(neg, -1)
       ELSE IF abs /\ FixAbs THEN Cmp(AbsR(x), AbsR(y))
       ELSE Cmp(x, y)

(* rational/src/cmp.rs repr_cmp_ubig / repr_cmp_ibig / repr_cmp_fbig <ABS>: the exact step uses
   abs_cmp when ABS is set *)
RatioVsOther(abs, x, y, bx, by) ==
  LET negx == x.n < 0  negy == y.n < 0 IN
  IF ~abs /\ negx /\ ~negy THEN -1
  ELSE IF ~abs /\ ~negx /\ negy THEN 1
  ELSE LET neg == ~abs /\ negx /\ negy IN
       IF bx[1] > by[2] THEN Times(neg, 1)
       ELSE IF bx[2] < by[1] THEN Times(neg, -1)
       ELSE IF abs THEN Cmp(AbsR(x), AbsR(y)) ELSE Cmp(x, y)

(* float num_order.rs  Repr<B1> vs Repr<B2>::num_cmp (finite operands) *)
ReprVsRepr(x, y, bx, by) == RatioVsOther(FALSE, x, y, bx, by)

(* integer num_order.rs: UBig/IBig (x, integer) against a primitive float y = m * 2^e (m # 0 handled
   by step 0; NaN and infinities are separate steps not modelled here).  MaxBits stands for
   MANTISSA_DIGITS + MAX_EXP. *)
IntVsPrimFloat(ibig, x, m, e) ==
  LET y == IF e >= 0 THEN R(m * P2(e), 1) ELSE R(m, P2(-e)) IN
  IF m = 0 THEN (IF x = 0 THEN 0 ELSE Sgn(x))                              \* step 0 (*other == 0.)
  ELSE IF x >= 0 /\ m < 0 THEN 1                                            \* step 1
  ELSE IF x < 0 /\ m > 0 THEN -1
  ELSE LET neg == x < 0
           xb == BitLen(x)
           yb == BitLen(m) + e
       IN IF e = InfExp THEN (IF ibig /\ ~FixInf THEN Times(~neg, -1) ELSE Times(neg, -1))   \* step 2: IBig has `-sign * Less`
          ELSE IF FixZero /\ x = 0 THEN -1                                   \* repaired: 0 < positive float
          ELSE IF yb < 0 THEN Times(neg, 1)                                 \* step 4
          ELSE IF xb > yb THEN Times(neg, 1)
          ELSE IF xb < yb THEN Times(neg, -1)
          ELSE Cmp(R(x, 1), y)                                              \* step 5

(* float num_order.rs: Repr<B> (x = sig * B^ex) against a primitive float y = m * 2^e *)
BaseBitLen(B) == BitLen(B)
ReprVsPrimFloat(B, sig, ex, m, e) ==
  LET x == IF ex >= 0 THEN R(sig * PowB(B, ex), 1) ELSE R(sig, PowB(B, -ex))
      y == IF e >= 0 THEN R(m * P2(e), 1) ELSE R(m, P2(-e))
  IN
  IF m = 0 THEN (IF sig = 0 THEN 0 ELSE Sgn(sig))
  ELSE IF sig >= 0 /\ m < 0 THEN 1
  ELSE IF sig < 0 /\ m > 0 THEN -1
  ELSE LET neg == sig < 0
           l2 == BitLen(sig) + BaseBitLen(B) * ex
           lb == IF ex >= 0 THEN l2 - ex ELSE l2
           ub == IF ex >= 0 THEN l2 ELSE l2 - ex
           ol == BitLen(m) + e
       IN IF e = InfExp THEN Times(neg, -1)                                 \* step 2: (false, true) => sign * Less
          ELSE IF FixZero /\ sig = 0 THEN -1
          ELSE IF lb > ol THEN Times(neg, 1)
          ELSE IF ub < ol THEN Times(neg, -1)
          ELSE Cmp(x, y)

(* rational num_order.rs: Repr (x = n/d) against a primitive float y = m * 2^e *)
RatioVsPrimFloat(x, m, e) ==
  LET y == IF e >= 0 THEN R(m * P2(e), 1) ELSE R(m, P2(-e)) IN
  IF e = InfExp THEN (IF m > 0 THEN -1 ELSE 1)                              \* step 1: infinity by its sign
  ELSE IF m = 0 THEN (IF x.n = 0 THEN 0 ELSE Sgn(x.n))
  ELSE IF x.n >= 0 /\ m < 0 THEN 1
  ELSE IF x.n < 0 /\ m > 0 THEN -1
  ELSE LET neg == x.n < 0
           l2 == BitLen(x.n) - BitLen(x.d)
           ol == BitLen(m) + e - 1
       IN IF FixZero /\ x.n = 0 THEN -1
          ELSE IF l2 - 1 > ol THEN Times(neg, 1)
          ELSE IF l2 + 1 < ol THEN Times(neg, -1)
          ELSE Cmp(x, y)

\* ------------------------------------------------------------------ scope
Ints == {R(n, 1) : n \in -MaxNum..MaxNum}
Rats == {R(n, d) : n \in -MaxNum..MaxNum, d \in {1, 2, 3, 4, 8}}
PrimFloats == {<<m, e>> : m \in -7..7, e \in -5..3} \cup {<<1, InfExp>>, <<-1, InfExp>>}
\* (a zero float always has exponent 0: Repr::new normalises)
Floats == {f \in {<<B, s, ex>> : B \in {2, 3, 10}, s \in -9..9, ex \in -2..2} : f[2] = 0 => f[3] = 0}

VARIABLES phase, v, abs, x, y, bx, by, res, exact
vars == <<phase, v, abs, x, y, bx, by, res, exact>>

\* x, y are records [n, d] for the abstract-bound ladders; for the primitive-float ladders y = <<m, e>>
\* and (ReprVsPrimFloat) x = <<B, sig, ex>>
Init == /\ phase = "pick" /\ v \in Variants /\ abs \in BOOLEAN
        /\ (v \in {"ReprVsRepr", "UBigVsPrimFloat", "IBigVsPrimFloat", "ReprVsPrimFloat", "RatioVsPrimFloat"} => ~abs)
        /\ x = 0 /\ y = 0 /\ bx = <<0, 0>> /\ by = <<0, 0>> /\ res = 0 /\ exact = 0
PickOperands ==
  /\ phase = "pick" /\ phase' = "bounds"
  /\ CASE v = "FloatVsUBig" -> x' \in Rats /\ y' \in {r \in Ints : r.n >= 0}
       [] v = "FloatVsIBig" -> x' \in Rats /\ y' \in Ints
       [] v = "RatioVsUBig" -> x' \in Rats /\ y' \in {r \in Ints : r.n >= 0}
       [] v = "RatioVsIBig" -> x' \in Rats /\ y' \in Ints
       [] v = "RatioVsFBig" -> x' \in Rats /\ y' \in Rats
       [] v = "ReprVsRepr" -> x' \in Rats /\ y' \in Rats
       [] v = "UBigVsPrimFloat" -> x' \in {r \in Ints : r.n >= 0} /\ y' \in PrimFloats
       [] v = "IBigVsPrimFloat" -> x' \in Ints /\ y' \in PrimFloats
       [] v = "ReprVsPrimFloat" -> x' \in Floats /\ y' \in PrimFloats
       [] v = "RatioVsPrimFloat" -> x' \in Rats /\ y' \in PrimFloats
  /\ UNCHANGED <<v, abs, bx, by, res, exact>>
Abstract == v \in {"FloatVsUBig", "FloatVsIBig", "RatioVsUBig", "RatioVsIBig", "RatioVsFBig", "ReprVsRepr"}
PrimVal(p) == IF p[2] >= 0 THEN R(p[1] * P2(p[2]), 1) ELSE R(p[1], P2(-p[2]))
FloatVal(f) == IF f[3] >= 0 THEN R(f[2] * PowB(f[1], f[3]), 1) ELSE R(f[2], PowB(f[1], -f[3]))

\* one action per ladder, so that every ladder shows up by name in the state graph
Run(name, r, ex) == /\ phase = "bounds" /\ v = name
                    /\ res' = r /\ exact' = ex /\ phase' = "done"
                    /\ UNCHANGED <<v, abs, x, y>>
LadderFloatVsInt ==
  /\ v \in {"FloatVsUBig", "FloatVsIBig"} /\ phase = "bounds"
  /\ \E b1 \in Bounds(x), b2 \in Bounds(y) :
       /\ bx' = b1 /\ by' = b2
       /\ Run(v, FloatVsInt(abs, x, y, b1, b2), IF abs THEN Cmp(AbsR(x), AbsR(y)) ELSE Cmp(x, y))
LadderRatioVsOther ==
  /\ v \in {"RatioVsUBig", "RatioVsIBig", "RatioVsFBig"} /\ phase = "bounds"
  /\ \E b1 \in Bounds(x), b2 \in Bounds(y) :
       /\ bx' = b1 /\ by' = b2
       /\ Run(v, RatioVsOther(abs, x, y, b1, b2), IF abs THEN Cmp(AbsR(x), AbsR(y)) ELSE Cmp(x, y))
LadderReprVsRepr ==
  /\ v = "ReprVsRepr" /\ phase = "bounds"
  /\ \E b1 \in Bounds(x), b2 \in Bounds(y) :
       /\ bx' = b1 /\ by' = b2 /\ Run(v, ReprVsRepr(x, y, b1, b2), Cmp(x, y))
\* exact order against a primitive float, infinities included
CmpPrim(xq, p) == IF p[2] = InfExp THEN (IF p[1] > 0 THEN -1 ELSE 1) ELSE Cmp(xq, PrimVal(p))
LadderUBigVsPrimFloat ==
  /\ UNCHANGED <<bx, by>> /\ Run("UBigVsPrimFloat", IntVsPrimFloat(FALSE, x.n, y[1], y[2]), CmpPrim(x, y))
LadderIBigVsPrimFloat ==
  /\ UNCHANGED <<bx, by>> /\ Run("IBigVsPrimFloat", IntVsPrimFloat(TRUE, x.n, y[1], y[2]), CmpPrim(x, y))
LadderReprVsPrimFloat ==
  /\ UNCHANGED <<bx, by>>
  /\ Run("ReprVsPrimFloat", ReprVsPrimFloat(x[1], x[2], x[3], y[1], y[2]), CmpPrim(FloatVal(x), y))
LadderRatioVsPrimFloat ==
  /\ UNCHANGED <<bx, by>> /\ Run("RatioVsPrimFloat", RatioVsPrimFloat(x, y[1], y[2]), CmpPrim(x, y))
Next == PickOperands \/ LadderFloatVsInt \/ LadderRatioVsOther \/ LadderReprVsRepr
        \/ LadderUBigVsPrimFloat \/ LadderIBigVsPrimFloat \/ LadderReprVsPrimFloat \/ LadderRatioVsPrimFloat
Spec == Init /\ [][Next]_vars

\* ------------------------------------------------------------------ definition and finding classes
\* F10: an ABS comparison of a float with an integer where a sign is negative and the filter does not decide
KnownF10 == ~FixAbs /\ abs /\ v \in {"FloatVsUBig", "FloatVsIBig"} /\ (x.n < 0 \/ y.n < 0)
\* F28: zero against a primitive float in (0, 1/2)  (in (0, 1/4) for the rational ladder)
KnownF28 == /\ ~FixZero /\ v \in {"UBigVsPrimFloat", "IBigVsPrimFloat", "ReprVsPrimFloat", "RatioVsPrimFloat"}
            /\ y[1] > 0 /\ y[2] # InfExp /\ Cmp(PrimVal(y), R(1, 2)) < 0
            /\ (IF v = "ReprVsPrimFloat" THEN x[2] = 0 ELSE x.n = 0)
\* F70: a (non-negative) IBig against +infinity, a negative IBig against -infinity
KnownF70 == ~FixInf /\ v = "IBigVsPrimFloat" /\ y[2] = InfExp /\ (x.n < 0) = (y[1] < 0)
LadderAgreesWithExactOrder == phase = "done" => (res = exact \/ KnownF10 \/ KnownF28 \/ KnownF70)
LadderStrict == phase = "done" => res = exact
=============================================================================
