----------------------------- MODULE Trace_C14 -----------------------------
(* Trace monitor for C14: every recorded ordered pair is judged by OrderDef.  Never blocks. *)
EXTENDS OrderDef, Json, IOUtils
Rec == ndJsonDeserialize(IOEnv.TRACE)
Why(e) == IF e.op = "pair" THEN PairWhy(e.a, e.b, e.o) ELSE "unknown-op"
VARIABLES l, bad
Init == l = 1 /\ bad = <<>>
Next == /\ l <= Len(Rec)
        /\ LET w == Why(Rec[l]) IN bad' = IF w = "" THEN bad ELSE Append(bad, [i |-> l, why |-> w])
        /\ l' = l + 1
Spec == Init /\ [][Next]_<<l, bad>>
Verdict == l > Len(Rec) => PrintT(<<"VERDICT", ToJson([total |-> Len(Rec), bad |-> bad])>>)
Complete == IF TLCGet("stats").diameter - 1 = Len(Rec) THEN TRUE
            ELSE PrintT(<<"TRUNCATED", TLCGet("stats").diameter>>) /\ FALSE
=============================================================================
