------------------------------ MODULE OrderDef ------------------------------
(***************************************************************************)
(* Definition layer of C14.  Every number - UBig, IBig, FBig of any base   *)
(* and precision, RBig/Relaxed, primitive integer, primitive float - has   *)
(* an exact extended value (ConvDef!TVal: a rational, +-infinity, or NaN;  *)
(* primitive floats are decoded by Ieee).  What the property states:       *)
(*                                                                         *)
(*   NumOrd  gives the order of the exact values, NaN incomparable;        *)
(*   AbsOrd  gives the order of the magnitudes;                            *)
(*   numerically equal numbers have the same NumHash.                      *)
(*                                                                         *)
(* Nothing is demanded of the hashes of unequal values.  num_cmp is only   *)
(* judged on comparable pairs.                                             *)
(***************************************************************************)
EXTENDS ConvDef

Rank(a) == IF a.k = "ninf" THEN -1 ELSE IF a.k = "pinf" THEN 1 ELSE 0
OrdName(c) == IF c < 0 THEN "Less" ELSE IF c > 0 THEN "Greater" ELSE "Equal"
\* the order of two extended values: "Less" | "Equal" | "Greater" | "None"
ExtOrd(a, b) ==
  IF a.k = "nan" \/ b.k = "nan" THEN "None"
  ELSE IF Rank(a) # Rank(b) THEN OrdName(Rank(a) - Rank(b))
  ELSE IF a.k # "fin" THEN "Equal"
  ELSE OrdName(QCmp(a.q, b.q))
ExtAbs(a) == IF a.k \in {"pinf", "ninf"} THEN PInf ELSE IF a.k = "fin" THEN Fin(QAbs(a.q)) ELSE a
BoolName(b) == IF b THEN "true" ELSE "false"

(* o: [pcmp, cmp, eq, abs_cmp, abs_eq, heq], each a string; "na" = not implemented / not called *)
PairWhy(a, b, o) ==
  IF ~WellFormed(a) \/ ~WellFormed(b) THEN "malformed-operand"
  ELSE
  LET va == TVal(a)
      vb == TVal(b)
      ord == ExtOrd(va, vb)
      aord == ExtOrd(ExtAbs(va), ExtAbs(vb))
  IN IF "panic" \in {o.pcmp, o.cmp, o.eq, o.abs_cmp, o.abs_eq, o.heq} THEN "panic"
     ELSE IF o.pcmp # "na" /\ o.pcmp # ord THEN "num_partial_cmp-wrong"
     ELSE IF o.cmp # "na" /\ ord # "None" /\ o.cmp # ord THEN "num_cmp-wrong"
     ELSE IF o.eq # "na" /\ o.eq # BoolName(ord = "Equal") THEN "num_eq-wrong"
     ELSE IF o.abs_cmp # "na" /\ o.abs_cmp # aord THEN "abs_cmp-wrong"
     ELSE IF o.abs_eq # "na" /\ o.abs_eq # BoolName(aord = "Equal") THEN "abs_eq-wrong"
     ELSE IF ord = "Equal" /\ o.heq = "false" THEN "num_hash-differs-for-equal-values"
     ELSE ""
=============================================================================
