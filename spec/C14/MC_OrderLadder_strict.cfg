SPECIFICATION Spec
INVARIANT LadderStrict
CONSTANTS
  Slack = 1
  FixAbs = FALSE
  FixZero = FALSE
  FixInf = FALSE
  MaxNum = 8
  Variants = {"FloatVsUBig", "FloatVsIBig", "RatioVsUBig", "RatioVsIBig", "RatioVsFBig", "ReprVsRepr", "UBigVsPrimFloat", "IBigVsPrimFloat", "ReprVsPrimFloat", "RatioVsPrimFloat"}
CHECK_DEADLOCK FALSE
