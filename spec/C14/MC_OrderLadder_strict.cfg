SPECIFICATION Spec
INVARIANT LadderStrict
CONSTANTS
  Slack = 1
  FixAbs = FALSE
  FixZero = FALSE
  MaxNum = 8
  Variants = {"FloatVsUBig", "FloatVsIBig", "RatioVsUBig", "RatioVsIBig", "RatioVsFBig", "ReprVsRepr", "IntVsPrimFloat", "ReprVsPrimFloat", "RatioVsPrimFloat"}
CHECK_DEADLOCK FALSE
