------------------------------ MODULE SerdeDef ------------------------------
(* Definition layer of the serialization part of C19.
   Binary (non human readable) form of integers, as the bytes handed to serialize_bytes:
     UBig: little-endian magnitude bytes without high zero bytes (empty for 0);
     IBig: the same, with one zero byte appended when needed so that the LENGTH PARITY carries the
           sign (even length = positive, odd length = negative), empty for 0.
   postcard frames a byte string as LEB128(length) followed by the bytes.  The format mentions no
   machine word, hence it is identical for every word size.
   Human readable form: the decimal Display text as a JSON string.
   Decoding must give back an equal value; decoding of arbitrary streams must give an error or a
   canonical value, never a panic. *)
EXTENDS Rat

\* LEB128 of a native natural
Varint(n) == LET RECURSIVE V(_)
                 V(x) == IF x < 128 THEN <<x>> ELSE <<128 + (x % 128)>> \o V(x \div 128)
             IN V(n)
PayloadU(v) == v.m
PayloadI(v) == IF v.m = <<>> THEN <<>>
               ELSE IF (v.s = 0 /\ Len(v.m) % 2 = 1) \/ (v.s = 1 /\ Len(v.m) % 2 = 0) THEN v.m \o <<0>> ELSE v.m
Frame(p) == Varint(Len(p)) \o p
BinU(v) == Frame(PayloadU(v))
BinI(v) == Frame(PayloadI(v))
\* "…" with decimal digits, '-' for negatives
Ascii(ds) == [i \in 1..Len(ds) |-> 48 + ds[i]]
JsonInt(v) == <<34>> \o (IF v.s = 1 THEN <<45>> ELSE <<>>) \o (IF v.m = <<>> THEN <<48>> ELSE Ascii(ToRadix(v.m, 10))) \o <<34>>

\* representation invariants visible through the hook: [neg, cap, len, heap]
ReprOK(x, r) == /\ IsInt(x)
                /\ r.heap = (Len(x.m) > 2 * r.wb)            \* more than two machine words <=> heap
                /\ (r.heap => r.cap >= r.len /\ r.len >= 3)
                /\ r.neg = (x.s = 1)
CanonU(v) == v.int.s = 0 /\ IsInt(v.int)
CanonI(v) == IsInt(v.int)
CanonR(v) == IsInt(v.num) /\ IsInt(v.den) /\ v.den.s = 0 /\ v.den.m # <<>> /\ QCanonical(Q(v.num, v.den.m))
\* Relaxed: non-zero denominator, zero stored as 0/1, numerator and denominator not both even
CanonX(v) == /\ IsInt(v.num) /\ IsInt(v.den) /\ v.den.s = 0 /\ v.den.m # <<>>
             /\ (v.num.m = <<>> => v.den.m = One)
             /\ (v.num.m # <<>> => ~(Bit(v.num.m, 0) = 0 /\ Bit(v.den.m, 0) = 0))
\* float: the significand carries no trailing zero digit of the base
CanonF(B, v) == IsInt(v.sig) /\ (v.inf # 0 \/ v.sig.m = <<>> \/ DivModSmall(v.sig.m, B)[2] # 0)

\* ---- plain byte conversions (little-endian order; big-endian is the reverse) ----
\* unsigned: the bytes are the base-256 digits; signed: two's complement, negative iff the top bit of the top byte is set
FromBytesU(b) == I(0, Norm(b))
FromBytesI(b) == IF b = <<>> THEN IZero
                 ELSE IF b[Len(b)] >= 128 THEN FromTwosWindow(b, TRUE) ELSE I(0, Norm(b))

SameInt(a, b) == IsInt(a) /\ IsInt(b) /\ IEq(a, b)
SameValue(ty, a, b) ==
  CASE ty \in {"U", "I"} -> SameInt(a.int, b.int)
    [] ty \in {"R", "X"} -> SameInt(a.num, b.num) /\ SameInt(a.den, b.den)
    [] ty \in {"F2", "F10"} -> a.inf = b.inf /\ SameInt(a.sig, b.sig) /\ (a.sig.m = <<>> \/ a.exp = b.exp)
Canon(ty, v) ==
  CASE ty = "U" -> CanonU(v)
    [] ty = "I" -> CanonI(v)
    [] ty = "R" -> CanonR(v)
    [] ty = "X" -> CanonX(v)
    [] ty = "F2" -> CanonF(2, v)
    [] ty = "F10" -> CanonF(10, v)
=============================================================================
