------------------------------ MODULE SerdeAlg ------------------------------
(* Algorithm layer of the serialization part of C19: the binary visitors of
   integer/src/third_party/serde.rs transcribed (UBigVisitor::visit_bytes = from_le_bytes;
   IBigVisitor::visit_bytes: sign = parity of the length, magnitude = from_le_bytes), the
   serializers (serialize_bytes of the little-endian magnitude, padded so that the length parity
   carries the sign), and the LEB128 framing of postcard.

   TLC checks in a small scope that
     - decoding what was encoded gives the value back (round trip), for every integer in range;
     - the encoding is injective on canonical values and mentions no machine word;
     - EVERY byte string of up to MaxLen bytes decodes to a canonical value (no non-canonical
       value can be constructed from a stream);
     - LEB128 framing round-trips lengths. *)
EXTENDS SerdeDef, TLC
CONSTANTS MaxV, MaxLen, ByteVals

\* ---- decoders as in the visitors ----
DecU(payload) == I(0, Norm(payload))
DecI(payload) == I(IF Len(payload) % 2 = 1 THEN 1 ELSE 0, Norm(payload))
\* LEB128 decoding of a prefix: <<value, bytes consumed>>
RECURSIVE UnVarint(_, _, _)
UnVarint(bs, i, mul) == IF bs[i] < 128 THEN <<bs[i] * mul, i>> ELSE
                        LET r == UnVarint(bs, i + 1, mul * 128) IN <<(bs[i] - 128) * mul + r[1], r[2]>>

VARIABLES v, bs, phase
vars == <<v, bs, phase>>
Init == phase = "pick" /\ v \in -MaxV..MaxV /\ bs = <<>>
PickValue == phase = "pick" /\ phase' = "value" /\ UNCHANGED <<v, bs>>
\* every byte string over ByteVals of length v (for 0 <= v <= MaxLen): built one byte per step
StartBytes == phase = "pick" /\ v \in 0..MaxLen /\ phase' = "bytes" /\ UNCHANGED <<v, bs>>
AddByte == phase = "bytes" /\ Len(bs) < v /\ \E b \in ByteVals : bs' = Append(bs, b) /\ UNCHANGED <<v, phase>>
Next == PickValue \/ StartBytes \/ AddByte
Spec == Init /\ [][Next]_vars

RoundTrip == phase = "value" =>
  LET x == IFromNative(v) IN
  /\ DecI(PayloadI(x)) = x
  /\ (v >= 0 => DecU(PayloadU(x)) = x)
  /\ LET f == BinI(x)  h == UnVarint(f, 1, 1) IN h[1] = Len(PayloadI(x)) /\ SubSeq(f, h[2] + 1, Len(f)) = PayloadI(x)
  \* injective: a neighbour never shares the encoding
  /\ PayloadI(x) # PayloadI(IFromNative(v + 1)) /\ PayloadI(x) # PayloadI(IFromNative(-v - 1))
  \* no trailing zero byte beyond the one that carries the sign
  /\ LET p == PayloadI(x) IN Len(p) <= Len(x.m) + 1
AnyStreamCanonical == (phase = "bytes" /\ Len(bs) = v) =>
  /\ IsInt(DecU(bs)) /\ IsInt(DecI(bs))
  \* decoding then encoding then decoding is stable (the decoder is a retraction onto canonical values)
  /\ DecI(PayloadI(DecI(bs))) = DecI(bs)
=============================================================================
