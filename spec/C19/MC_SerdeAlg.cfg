SPECIFICATION Spec
INVARIANTS RoundTrip AnyStreamCanonical
CONSTANTS
  MaxV = 70000
  MaxLen = 4
  ByteVals = {0, 1, 127, 128, 255}
CHECK_DEADLOCK FALSE
