----------------------------- MODULE Trace_C19 -----------------------------
(* Trace monitor for C19.
   serde / decode / decode_json events: the serialization definitions of SerdeDef.
   xcfg events: the same case executed by the harness built in several configurations
   (64-/32-bit words, std/no_std, debug assertions on/off); the outcomes must coincide. *)
EXTENDS SerdeDef, Json, IOUtils
Rec == ndJsonDeserialize(IOEnv.TRACE)

SerdeWhy(e) ==
  IF e.back_json.k # "ok" \/ e.back_bin.k # "ok" THEN "roundtrip-failed"
  ELSE IF ~SameValue(e.ty, e.val, e.back_json.v) THEN "json-roundtrip-differs"
  ELSE IF ~SameValue(e.ty, e.val, e.back_bin.v) THEN "binary-roundtrip-differs"
  ELSE IF e.ty = "U" /\ e.bin # BinU(e.val.int) THEN "binary-format"
  ELSE IF e.ty = "I" /\ e.bin # BinI(e.val.int) THEN "binary-format"
  ELSE IF e.ty \in {"U", "I"} /\ e.json # JsonInt(e.val.int) THEN "json-format"
  ELSE IF e.ty \in {"U", "I"} /\ ~(ReprOK(e.back_bin.v.int, e.back_bin.v.repr) /\ ReprOK(e.back_json.v.int, e.back_json.v.repr)) THEN "decoded-repr-not-canonical"
  ELSE IF ~Canon(e.ty, e.back_bin.v) THEN "decoded-not-canonical"
  ELSE ""
DecodeWhy(e) ==
  IF e.out.k = "panic" THEN "decode-panic"
  ELSE IF e.out.k = "err" THEN ""
  ELSE IF ~Canon(e.ty, e.out.v) THEN "decoded-not-canonical"
  ELSE IF e.ty \in {"U", "I"} /\ ~ReprOK(e.out.v.int, e.out.v.repr) THEN "decoded-repr-not-canonical"
  ELSE ""

BytesWhy(e) ==
  LET r == e.res.v IN
  IF e.res.k # "ok" THEN "unexpected-panic"
  ELSE IF r.be # Reverse(r.le) THEN "be-bytes-not-the-reverse-of-le-bytes"
  ELSE IF ~SameInt(r.back_le, e.val) \/ ~SameInt(r.back_be, e.val) THEN "bytes-roundtrip-differs"
  ELSE IF e.ty = "U" /\ r.le # e.val.m THEN "unsigned-bytes-not-the-base-256-digits"
  ELSE IF e.ty = "I" /\ ~IEq(FromBytesI(r.le), e.val) THEN "signed-bytes-not-twos-complement-of-the-value"
  ELSE ""
FromBytesWhy(e) ==
  LET r == e.res.v IN
  IF e.res.k # "ok" THEN "unexpected-panic"
  ELSE IF ~SameInt(r.u_le, FromBytesU(e.bin)) \/ ~SameInt(r.u_be, FromBytesU(e.bin)) THEN "unsigned-from-bytes-wrong"
  ELSE IF ~SameInt(r.i_le, FromBytesI(e.bin)) THEN "signed-from-le-bytes-wrong"
  ELSE IF ~SameInt(r.i_be, FromBytesI(e.bin)) THEN "signed-from-be-bytes-wrong"
  ELSE ""

\* cross-configuration agreement
FormMap(outs) ==
  LET pairs == UNION {{<<outs[g].forms[i], outs[g].out>> : i \in 1..Len(outs[g].forms)} : g \in 1..Len(outs)}
  IN [f \in {p[1] : p \in pairs} |-> (CHOOSE p \in pairs : p[1] = f)[2]]
EvAgree(x, y) ==
  IF "outs" \in DOMAIN x /\ "outs" \in DOMAIN y
  THEN LET mx == FormMap(x.outs)  my == FormMap(y.outs)
       IN \A f \in DOMAIN mx \cap DOMAIN my : mx[f] = my[f]
  ELSE x = y
XcfgWhy(e) == IF \A i, j \in 1..Len(e.evs) : EvAgree(e.evs[i], e.evs[j]) THEN "" ELSE "configurations-disagree"

Why(e) == CASE e.op = "serde" -> SerdeWhy(e)
            [] e.op \in {"decode", "decode_json"} -> DecodeWhy(e)
            [] e.op = "bytes" -> BytesWhy(e)
            [] e.op = "frombytes" -> FromBytesWhy(e)
            [] e.op = "xcfg" -> XcfgWhy(e)

VARIABLES l, bad
Init == l = 1 /\ bad = <<>>
\* (a LET directly inside an action is re-evaluated by TLC at every reference; inside an operator it is cached)
Step(b, i) == LET w == Why(Rec[i]) IN IF w = "" THEN b ELSE Append(b, [i |-> i, why |-> w])
Next == /\ l <= Len(Rec)
        /\ bad' = Step(bad, l)
        /\ l' = l + 1
Spec == Init /\ [][Next]_<<l, bad>>
Verdict == l > Len(Rec) => PrintT(<<"VERDICT", ToJson([total |-> Len(Rec), bad |-> bad])>>)
Complete == IF TLCGet("stats").diameter - 1 = Len(Rec) THEN TRUE
            ELSE PrintT(<<"TRUNCATED", TLCGet("stats").diameter>>) /\ FALSE
=============================================================================
