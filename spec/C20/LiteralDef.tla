----------------------------- MODULE LiteralDef -----------------------------
(***************************************************************************)
(* Definition layer of C20: the literal language of the macros ubig! ibig! *)
(* fbig! dbig! rbig! and their static_ variants, as documented in          *)
(* macros/docs/*.md and, for the float forms, FBig::from_str_native.       *)
(*                                                                         *)
(* A literal is a sequence of grammar tokens [k |-> kind, s |-> text] with *)
(* text a sequence of ASCII codes:                                         *)
(*   sign "-"   tilde "~"   uscore "_"   prefix "0b" "0o" "0x"             *)
(*   digits (digit characters and separating underscores)   point "."     *)
(*   expmark "e" "E" "b" "B" "p" "P"   slash "/"   base "base"   radix N   *)
(* The source text of the macro argument is the concatenation of the token *)
(* texts (blanks around `base`).  Status / Value / Precision are defined   *)
(* on token sequences; nothing here looks at the implementation.           *)
(*                                                                         *)
(*   Status = "valid"        documented form: the macro must build Value   *)
(*                           (and, for floats, Precision)                  *)
(*            "invalid"      outside the grammar: must be a compile error  *)
(*            "unspecified"  accepted by the implementation but not        *)
(*                           documented (leading "+" of integers and       *)
(*                           floats, "@" scale): never generated           *)
(***************************************************************************)
EXTENDS Rat

Tok(k, s) == [k |-> k, s |-> s]
Kinds(t) == [i \in 1..Len(t) |-> t[i].k]
Flat(t) == FoldLeft(LAMBDA acc, x : acc \o x.s, <<>>, t)

\* ---- characters
cUs == 95  cMinus == 45  cPlus == 43
IsDec(c) == c >= 48 /\ c <= 57
DigVal(c) == IF c >= 48 /\ c <= 57 THEN c - 48 ELSE IF c >= 97 /\ c <= 122 THEN c - 87
             ELSE IF c >= 65 /\ c <= 90 THEN c - 55 ELSE 99
\* digit characters of a digits token, separators removed
Pure(s) == SelectSeq(s, LAMBDA c : c # cUs)
DigitsOK(s, radix) == Len(Pure(s)) > 0 /\ \A i \in 1..Len(s) : s[i] = cUs \/ DigVal(s[i]) < radix
NatOf(s, radix) == FromRadix([i \in 1..Len(Pure(s)) |-> DigVal(Pure(s)[i])], radix)
PrefixRadix(s) == IF s = <<48, 98>> THEN 2 ELSE IF s = <<48, 111>> THEN 8 ELSE IF s = <<48, 120>> THEN 16 ELSE 0
\* a small decimal number (radix of `base N`, at most 3 digits)
SmallDec(s) == IF Len(s) \in 1..3 /\ \A i \in 1..Len(s) : IsDec(s[i])
               THEN FoldLeft(LAMBDA acc, c : acc * 10 + (c - 48), 0, s) ELSE -1
\* a signed decimal exponent field that fits 31 bits (larger ones are not generated)
ExpOf(neg, s) == LET v == FoldLeft(LAMBDA acc, c : acc * 10 + (c - 48), 0, Pure(s)) IN IF neg THEN -v ELSE v
ExpOK(s) == Len(Pure(s)) \in 1..8 /\ \A i \in 1..Len(s) : IsDec(s[i])   \* no separators in the documented forms

MSigned(m) == m \in {"ibig", "static_ibig"}
MInt(m) == m \in {"ubig", "ibig", "static_ubig", "static_ibig"}
MBin(m) == m \in {"fbig", "static_fbig"}
MDec(m) == m \in {"dbig", "static_dbig"}
MRat(m) == m \in {"rbig", "static_rbig"}
MStatic(m) == m \in {"static_ubig", "static_ibig", "static_fbig", "static_dbig", "static_rbig"}

\* ------------------------------------------------------------------ integers
(* [-] digits | [-] prefix digits | [-] [_] digits base N
   With `base N` the whole body is a digit string of radix N (a prefix is not interpreted). *)
IntShape(t) ==
  LET k == Kinds(t)
      neg == Len(k) > 0 /\ k[1] = "sign"
      r == IF neg THEN SubSeq(t, 2, Len(t)) ELSE t
      kr == Kinds(r)
  IN IF kr = <<"digits">> THEN [ok |-> TRUE, neg |-> neg, radix |-> 10, d |-> r[1].s, plus |-> neg /\ t[1].s = <<cPlus>>]
     ELSE IF kr = <<"prefix", "digits">> THEN [ok |-> TRUE, neg |-> neg, radix |-> PrefixRadix(r[1].s), d |-> r[2].s, plus |-> neg /\ t[1].s = <<cPlus>>]
     ELSE IF kr = <<"digits", "base", "radix">> THEN [ok |-> TRUE, neg |-> neg, radix |-> SmallDec(r[3].s), d |-> r[1].s, plus |-> neg /\ t[1].s = <<cPlus>>]
     ELSE IF kr = <<"uscore", "digits", "base", "radix">> THEN [ok |-> TRUE, neg |-> neg, radix |-> SmallDec(r[4].s), d |-> r[2].s, plus |-> neg /\ t[1].s = <<cPlus>>]
     ELSE [ok |-> FALSE, neg |-> FALSE, radix |-> 0, d |-> <<>>, plus |-> FALSE]
IntStatus(m, t) ==
  LET sh == IntShape(t) IN
  IF ~sh.ok THEN "invalid"
  ELSE IF sh.plus THEN "unspecified"
  ELSE IF sh.neg /\ ~MSigned(m) THEN "invalid"
  ELSE IF sh.radix < 2 \/ sh.radix > 36 THEN "invalid"
  ELSE IF ~DigitsOK(sh.d, sh.radix) THEN "invalid"
  ELSE "valid"
IntValue(t) == LET sh == IntShape(t) IN I(IF sh.neg THEN 1 ELSE 0, NatOf(sh.d, sh.radix))

\* ------------------------------------------------------------------ floats
(* binary:  [-] digits [. [digits]] [B|b [-] digits]           digits in {0, 1}
   hex:     [-] [_] 0x digits [. [_] [digits]] [P|p [-] digits]   (fbig only; value scaled by 2^exp)
   decimal: [-] digits [. [digits]] [E|e [-] digits]           (dbig) *)
FloatShape(t) ==
  LET k == Kinds(t)
      neg == Len(k) > 0 /\ k[1] = "sign"
      r1 == IF neg THEN SubSeq(t, 2, Len(t)) ELSE t
      us == Len(r1) > 0 /\ r1[1].k = "uscore"
      r2 == IF us THEN SubSeq(r1, 2, Len(r1)) ELSE r1
      hex == Len(r2) > 0 /\ r2[1].k = "prefix"
      r3 == IF hex THEN SubSeq(r2, 2, Len(r2)) ELSE r2
      \* integer digits
      hasInt == Len(r3) > 0 /\ r3[1].k = "digits"
      int == IF hasInt THEN r3[1].s ELSE <<>>
      r4 == IF hasInt THEN SubSeq(r3, 2, Len(r3)) ELSE r3
      hasPt == Len(r4) > 0 /\ r4[1].k = "point"
      r5 == IF hasPt THEN SubSeq(r4, 2, Len(r4)) ELSE r4
      us2 == hasPt /\ Len(r5) > 0 /\ r5[1].k = "uscore"
      r6 == IF us2 THEN SubSeq(r5, 2, Len(r5)) ELSE r5
      hasFr == hasPt /\ Len(r6) > 0 /\ r6[1].k = "digits"
      fr == IF hasFr THEN r6[1].s ELSE <<>>
      r7 == IF hasFr THEN SubSeq(r6, 2, Len(r6)) ELSE r6
      hasEx == Len(r7) > 0 /\ r7[1].k = "expmark"
      mark == IF hasEx THEN r7[1].s ELSE <<>>
      r8 == IF hasEx THEN SubSeq(r7, 2, Len(r7)) ELSE r7
      eneg == hasEx /\ Len(r8) > 0 /\ r8[1].k = "sign"
      r9 == IF eneg THEN SubSeq(r8, 2, Len(r8)) ELSE r8
      hasEd == hasEx /\ Len(r9) > 0 /\ r9[1].k = "digits"
      ed == IF hasEd THEN r9[1].s ELSE <<>>
      rest == IF hasEd THEN SubSeq(r9, 2, Len(r9)) ELSE r9
  IN [neg |-> neg, plus |-> (neg /\ t[1].s = <<cPlus>>) \/ (eneg /\ r8[1].s = <<cPlus>>), us |-> us, hex |-> hex,
      pfx |-> IF hex THEN r2[1].s ELSE <<>>, int |-> int, hasPt |-> hasPt, us2 |-> us2, fr |-> fr, hasEx |-> hasEx,
      mark |-> mark, eneg |-> eneg /\ r8[1].s = <<cMinus>>, hasEd |-> hasEd, ed |-> ed, clean |-> rest = <<>>,
      usmis |-> us2 /\ ~hasFr]
FloatStatus(m, t) ==
  LET sh == FloatShape(t)
      radix == IF MDec(m) THEN 10 ELSE IF sh.hex THEN 16 ELSE 2
      marks == IF MDec(m) THEN {<<101>>, <<69>>} ELSE IF sh.hex THEN {<<112>>, <<80>>} ELSE {<<98>>, <<66>>}
  IN IF ~sh.clean \/ sh.usmis THEN "invalid"
     ELSE IF sh.plus THEN "unspecified"
     ELSE IF sh.hex /\ (MDec(m) \/ PrefixRadix(sh.pfx) # 16) THEN "invalid"
     ELSE IF (sh.us \/ sh.us2) /\ ~sh.hex THEN "unspecified"
     ELSE IF Len(Pure(sh.int)) = 0 /\ Len(Pure(sh.fr)) = 0 THEN "invalid"
     ELSE IF Len(sh.int) > 0 /\ ~DigitsOK(sh.int, radix) THEN "invalid"
     ELSE IF Len(sh.fr) > 0 /\ ~DigitsOK(sh.fr, radix) THEN "invalid"
     ELSE IF sh.hasEx /\ (sh.mark \notin marks \/ ~sh.hasEd \/ ~ExpOK(sh.ed)) THEN "invalid"
     ELSE "valid"
\* the value as [neg, m (BigNat), e (native)] meaning (-1)^neg * m * B^e with B the base of the macro (2 or 10);
\* hexadecimal digits are four binary digits each.  No power of the base is ever formed from the exponent field,
\* so literals such as 1.01B-100000 stay cheap.
FloatValue(m, t) ==
  LET sh == FloatShape(t)
      radix == IF MDec(m) THEN 10 ELSE IF sh.hex THEN 16 ELSE 2
      per == IF sh.hex THEN 4 ELSE 1                              \* base-B digits per literal digit
      mant == NatOf(sh.int \o sh.fr \o <<48>>, radix)            \* mantissa * radix (keeps the digit string non-empty)
      nfr == Len(Pure(sh.fr)) + 1
      e == IF sh.hasEx THEN ExpOf(sh.eneg, sh.ed) ELSE 0
  IN [neg |-> sh.neg /\ mant # <<>>, m |-> mant, e |-> e - per * nfr]
FloatPrecision(m, t) ==
  LET sh == FloatShape(t) IN (Len(Pure(sh.int)) + Len(Pure(sh.fr))) * (IF sh.hex THEN 4 ELSE 1)

\* ------------------------------------------------------------------ rationals
(* [~] [-] [_] [prefix] digits [/ [_] [prefix] digits] [base N] *)
RatShape(t) ==
  LET k == Kinds(t)
      relaxed == Len(k) > 0 /\ k[1] = "tilde"
      r1 == IF relaxed THEN SubSeq(t, 2, Len(t)) ELSE t
      neg == Len(r1) > 0 /\ r1[1].k = "sign"
      r2 == IF neg THEN SubSeq(r1, 2, Len(r1)) ELSE r1
      us == Len(r2) > 0 /\ r2[1].k = "uscore"
      r3 == IF us THEN SubSeq(r2, 2, Len(r2)) ELSE r2
      npf == Len(r3) > 0 /\ r3[1].k = "prefix"
      r4 == IF npf THEN SubSeq(r3, 2, Len(r3)) ELSE r3
      hasN == Len(r4) > 0 /\ r4[1].k = "digits"
      r5 == IF hasN THEN SubSeq(r4, 2, Len(r4)) ELSE r4
      hasSl == Len(r5) > 0 /\ r5[1].k = "slash"
      r6 == IF hasSl THEN SubSeq(r5, 2, Len(r5)) ELSE r5
      dneg == hasSl /\ Len(r6) > 0 /\ r6[1].k = "sign"
      r7 == IF dneg THEN SubSeq(r6, 2, Len(r6)) ELSE r6
      dus == hasSl /\ Len(r7) > 0 /\ r7[1].k = "uscore"
      r8 == IF dus THEN SubSeq(r7, 2, Len(r7)) ELSE r7
      dpf == hasSl /\ Len(r8) > 0 /\ r8[1].k = "prefix"
      r9 == IF dpf THEN SubSeq(r8, 2, Len(r8)) ELSE r8
      hasD == hasSl /\ Len(r9) > 0 /\ r9[1].k = "digits"
      r10 == IF hasD THEN SubSeq(r9, 2, Len(r9)) ELSE r9
      hasB == Kinds(r10) = <<"base", "radix">>
  IN [relaxed |-> relaxed, neg |-> neg /\ r1[1].s = <<cMinus>>, plus |-> neg /\ r1[1].s = <<cPlus>>, us |-> us \/ dus,
      npf |-> IF npf THEN PrefixRadix(r3[1].s) ELSE 0, n |-> IF hasN THEN r4[1].s ELSE <<>>, hasN |-> hasN,
      hasSl |-> hasSl, dsign |-> dneg, dminus |-> dneg /\ r6[1].s = <<cMinus>>, dpf |-> IF dpf THEN PrefixRadix(r8[1].s) ELSE 0, d |-> IF hasD THEN r9[1].s ELSE <<>>,
      hasD |-> hasD, hasB |-> hasB, base |-> IF hasB THEN SmallDec(r10[2].s) ELSE 0,
      clean |-> r10 = <<>> \/ hasB]
RatRadix(sh) == IF sh.hasB THEN sh.base ELSE IF sh.npf # 0 THEN sh.npf ELSE 10
RatStatus(m, t) ==
  LET sh == RatShape(t)  radix == RatRadix(sh) IN
  IF ~sh.clean \/ ~sh.hasN \/ (sh.hasSl /\ ~sh.hasD) THEN "invalid"
  \* a sign on the denominator (and a leading "+") is not in macros/docs/rbig.md, but the macro accepts it and so does the
  \* run-time parser (its documentation shows "-0x1f/-0x1e"): the property covers every ACCEPTED literal, so these forms
  \* are literals of the language with the sign of the quotient
  ELSE IF sh.hasB /\ (sh.npf # 0 \/ sh.dpf # 0) THEN "unspecified"     \* `_0b102/_0h2 base 32`: prefix text read as digits
  ELSE IF sh.us /\ ~sh.hasB THEN "unspecified"
  ELSE IF sh.hasB /\ ~sh.hasSl THEN "unspecified"        \* `base N` is only documented together with a denominator
  ELSE IF radix < 2 \/ radix > 36 THEN "invalid"
  ELSE IF ~sh.hasB /\ sh.dpf # 0 /\ sh.dpf # radix THEN "invalid"                 \* radix of the two parts must agree
  ELSE IF ~DigitsOK(sh.n, radix) \/ (sh.hasD /\ ~DigitsOK(sh.d, radix)) THEN "invalid"
  ELSE IF sh.hasD /\ NatOf(sh.d, radix) = <<>> THEN "invalid"                      \* zero denominator
  ELSE "valid"
RatValue(t) ==
  LET sh == RatShape(t)  radix == RatRadix(sh)
  IN Q(I(IF sh.neg # sh.dminus THEN 1 ELSE 0, NatOf(sh.n, radix)), IF sh.hasD THEN NatOf(sh.d, radix) ELSE One)
RatIsRelaxed(t) == RatShape(t).relaxed

\* ------------------------------------------------------------------ the three operators of the property
Status(m, t) == IF MInt(m) THEN IntStatus(m, t) ELSE IF MRat(m) THEN RatStatus(m, t) ELSE FloatStatus(m, t)
Valid(m, t) == Status(m, t) = "valid"
\* Value(m, t): BigInt for the integer macros, Rat otherwise
IntVal(m, t) == IntValue(t)
RatVal(m, t) == RatValue(t)
FloatVal(m, t) == FloatValue(m, t)
Precision(m, t) == FloatPrecision(m, t)

\* ------------------------------------------------------------------ observed results against the definition
(* o: what a program printed: integers [s, m]; floats [sig, exp (native), prec (native)]; rationals [num, den] *)
\* observed float [sig, exp, prec] equals the defined value v = [neg, m, e]: same sign, and after aligning the two
\* exponents (they differ by the number of trailing zero digits only; a larger gap means a different number) the
\* same magnitude
FloatSame(m, o, v) ==
  LET B == IF MDec(m) THEN 10 ELSE 2
      d == v.e - o.exp
  IN IF v.m = <<>> \/ o.sig.m = <<>> THEN v.m = <<>> /\ o.sig.m = <<>>
     ELSE /\ (o.sig.s = 1) = v.neg
          /\ d >= -20000 /\ d <= 20000
          /\ IF d >= 0 THEN Mul(v.m, Pow(FromNat(B), d)) = o.sig.m ELSE v.m = Mul(o.sig.m, Pow(FromNat(B), -d))
\* the relaxed form only removes common powers of two; the canonical form is in lowest terms
ObsWhy(m, t, o, who) ==
  IF MInt(m) THEN (IF IsInt(o) THEN (IF IEq(o, IntVal(m, t)) THEN "" ELSE who \o "-value-differs") ELSE who \o "-malformed")
  ELSE IF MRat(m) THEN
     (IF ~(IsInt(o.num) /\ IsNat(o.den) /\ o.den # <<>>) THEN who \o "-malformed"
      ELSE IF ~QEq(Q(o.num, o.den), RatVal(m, t)) THEN who \o "-value-differs"
      ELSE IF ~RatIsRelaxed(t) /\ ~QCanonical(Q(o.num, o.den)) THEN who \o "-not-in-lowest-terms"
      ELSE "")
  ELSE (IF ~IsInt(o.sig) THEN who \o "-malformed"
        ELSE IF ~FloatSame(m, o, FloatVal(m, t)) THEN who \o "-value-differs"
        ELSE IF o.prec = Precision(m, t) THEN ""
        \* static_fbig! / static_dbig! are documented to "have a unlimited precision"
        ELSE IF who = "macro" /\ MStatic(m) /\ o.prec = 0 THEN ""
        ELSE who \o "-precision-differs")
=============================================================================
