------------------------------ MODULE Gen_C20 ------------------------------
(***************************************************************************)
(* Enumerates derivations of the literal grammar of LiteralDef: for every  *)
(* macro, literal style (decimal, radix prefix, `base N`, binary / hex /   *)
(* decimal float shapes, fractions, `~`), sign, separator pattern, letter  *)
(* case and magnitude class - magnitudes on both sides of 2^32 (const      *)
(* path), 2^64 and 2^128 (DoubleWord path) and beyond two words (heap /    *)
(* static word array) - one case; and single-token mutations of them that  *)
(* LiteralDef classifies as invalid.  Sampled by a hash of the parameters  *)
(* (one case in Keep, offset Seed); a few pinned cases are always kept.    *)
(* The generator only emits literals of Status "valid" (valid cases) or    *)
(* "invalid" (mutations); "unspecified" forms are never emitted.           *)
(***************************************************************************)
EXTENDS LiteralDef, Json
CONSTANTS Seed, Keep, KeepBad

\* ---- text helpers
Ch(d, upper) == IF d < 10 THEN 48 + d ELSE IF upper THEN 55 + d ELSE 87 + d
DigitText(mag, radix, upper) ==
  LET ds == ToRadix(mag, radix) IN IF ds = <<>> THEN <<48>> ELSE [i \in 1..Len(ds) |-> Ch(ds[i], upper)]
\* separator patterns: 1 none, 2 groups of three from the right, 3 one trailing separator, 4 groups of four from the left
Sep(s, pat) ==
  IF pat = 1 \/ Len(s) < 2 THEN s
  ELSE IF pat = 2 THEN FoldLeftDomain(LAMBDA acc, i : IF i > 1 /\ (Len(s) - i + 1) % 3 = 0 THEN acc \o <<cUs, s[i]>> ELSE Append(acc, s[i]), <<>>, s)
  ELSE IF pat = 3 THEN Append(s, cUs)
  ELSE FoldLeftDomain(LAMBDA acc, i : IF i > 1 /\ (i - 1) % 4 = 0 THEN acc \o <<cUs, s[i]>> ELSE Append(acc, s[i]), <<>>, s)
HasLetter(s) == \E i \in 1..Len(s) : s[i] >= 65 /\ s[i] # cUs
Zs(n) == [i \in 1..n |-> 48]
Dec(n) == IF n = 0 THEN <<48>> ELSE DigitText(FromNat(n), 10, FALSE)
STR_base == <<98, 97, 115, 101>>
Prefix(r) == IF r = 2 THEN <<48, 98>> ELSE IF r = 8 THEN <<48, 111>> ELSE <<48, 120>>
Minus == Tok("sign", <<cMinus>>)

\* ---- magnitudes (BigNat)
P2(k) == PowerOfTwo(k)
P2m1(k) == Sub(PowerOfTwo(k), One)
Mags == << <<>>, One, FromNat(1000), P2m1(32), P2(32), Add(P2(32), FromNat(12345)), P2m1(64), P2(64), P2m1(128), P2(128),
           Add(P2(192), FromNat(12345)), P2m1(300) >>
\* an n-digit mantissa in radix r by pattern: 0 all zero, 1 all (r-1), 2 leading 1 and trailing 1, 3 leading 1 then zeros, 4 alternating
MantDigits(n, r, pat) ==
  [i \in 1..n |-> IF pat = 0 THEN 0 ELSE IF pat = 1 THEN r - 1
                  ELSE IF pat = 2 THEN (IF i = 1 \/ i = n THEN 1 ELSE 0)
                  ELSE IF pat = 3 THEN (IF i = 1 THEN 1 ELSE 0)
                  ELSE (IF i % 2 = 1 THEN (IF r = 2 THEN 1 ELSE IF r = 10 THEN 4 ELSE 10) ELSE (IF r = 2 THEN 0 ELSE 5))]
MantText(n, r, pat) == [i \in 1..n |-> Ch(MantDigits(n, r, pat)[i], FALSE)]

IntMacros == <<"ubig", "ibig", "static_ubig", "static_ibig">>
IntStyles == <<10, -2, -8, -16, 2, 3, 7, 1010, 16, 32, 36, 3202, 3208, 3616>>
\* 10 decimal; -r prefix of radix r; r `base r`; 1010 = `base 10`;
\* 3202 / 3208 / 3616: `base 32` / `base 32` / `base 36` whose digit string happens to look like a 0b / 0o / 0x literal
\* (b, o, x are digits of that radix): the letters are digits, not a radix prefix
\* ---- integer literal
IntToks(style, mag, neg, pat, upper) ==
  LET radix == IF style = 10 \/ style = 1010 THEN 10 ELSE IF style < 0 THEN -style ELSE IF style > 3000 THEN style \div 100 ELSE style
      txt == Sep(DigitText(mag, radix, upper), pat)
      sg == IF neg THEN <<Minus>> ELSE <<>>
  IN IF style > 3000 THEN
       LET pr == style % 100                                   \* 2, 8 or 16: which literal it looks like
           rx == style \div 100                                \* 32 or 36
           body == IF mag = <<>> THEN <<48>> ELSE DigitText(mag, pr, FALSE)
       IN sg \o <<Tok("digits", Prefix(pr) \o body), Tok("base", STR_base), Tok("radix", Dec(rx))>>
     ELSE IF style = 10 THEN sg \o <<Tok("digits", txt)>>
     ELSE IF style < 0 THEN sg \o <<Tok("prefix", Prefix(radix)), Tok("digits", txt)>>
     ELSE sg \o (IF HasLetter(txt) THEN <<Tok("uscore", <<cUs>>)>> ELSE <<>>)
             \o <<Tok("digits", txt), Tok("base", STR_base), Tok("radix", Dec(radix))>>

\* ---- binary float: lead zeros, n digits by pattern, f of them behind the point (f = -1: no point), exponent choice
BinExps == << <<>>, <<Tok("expmark", <<66>>), Tok("digits", <<53>>)>>,                       \* B5
              <<Tok("expmark", <<98>>), Minus, Tok("digits", <<51>>)>>,                       \* b-3 (only behind a point)
              <<Tok("expmark", <<66>>), Minus, Tok("digits", <<49, 48, 48, 48, 48, 48>>)>>,   \* B-100000
              <<Tok("expmark", <<66>>), Tok("digits", <<48>>)>> >>                            \* B0
FloatBody(txt, f, pat) ==   \* split digit text: f < 0 no point, else f fraction digits
  IF f < 0 THEN <<Tok("digits", Sep(txt, pat))>>
  ELSE LET n == Len(txt)  ip == SubSeq(txt, 1, n - f)  fp == SubSeq(txt, n - f + 1, n)
       IN (IF ip = <<>> THEN <<>> ELSE <<Tok("digits", Sep(ip, pat))>>) \o <<Tok("point", <<46>>)>>
          \o (IF fp = <<>> THEN <<>> ELSE <<Tok("digits", fp)>>)
BinToks(n, mpat, lead, f, ex, neg, pat) ==
  (IF neg THEN <<Minus>> ELSE <<>>) \o FloatBody(Zs(lead) \o MantText(n, 2, mpat), f, pat) \o BinExps[ex]
\* ---- hexadecimal float, shapes: 1 `0xHHHH[pE]`, 2 `_0xHH.FF[pE]`, 3 `0xHH._FF[pE]`
HexExps == << <<>>, <<Tok("expmark", <<112>>), Tok("digits", <<51>>)>>, <<Tok("expmark", <<80>>), Minus, Tok("digits", <<50>>)>>,
              <<Tok("expmark", <<112>>), Minus, Tok("digits", <<49, 50, 51, 52>>)>> >>
HexToks(shape, n, mpat, lead, f, ex, neg, pat) ==
  LET txt == Zs(lead) \o MantText(n, 16, mpat)
      len == Len(txt)
      ip == SubSeq(txt, 1, len - f)  fp == SubSeq(txt, len - f + 1, len)
      sg == IF neg THEN <<Minus>> ELSE <<>>
      pfx == Tok("prefix", <<48, 120>>)
  IN IF shape = 1 THEN sg \o <<pfx, Tok("digits", Sep(txt, pat))>> \o HexExps[ex]
     ELSE IF shape = 2 THEN sg \o <<Tok("uscore", <<cUs>>), pfx>> \o (IF ip = <<>> THEN <<>> ELSE <<Tok("digits", ip)>>)
                             \o <<Tok("point", <<46>>)>> \o (IF fp = <<>> THEN <<>> ELSE <<Tok("digits", fp)>>) \o HexExps[ex]
     ELSE sg \o <<pfx, Tok("digits", ip), Tok("point", <<46>>), Tok("uscore", <<cUs>>), Tok("digits", fp)>> \o HexExps[ex]
\* ---- decimal float
DecExps == << <<>>, <<Tok("expmark", <<101>>), Tok("digits", <<53>>)>>, <<Tok("expmark", <<69>>), Minus, Tok("digits", <<51>>)>>,
              <<Tok("expmark", <<101>>), Minus, Tok("digits", <<49, 48, 48>>)>>,
              <<Tok("expmark", <<101>>), Tok("digits", <<49, 48, 48, 48, 48, 48>>)>> >>
\* mantissa text: pattern 5 / 6 are the two sides of the u32 boundary (only with n = 10)
DecMant(n, mpat) == IF mpat = 5 THEN <<52, 50, 57, 52, 57, 54, 55, 50, 57, 53>> ELSE IF mpat = 6 THEN <<52, 50, 57, 52, 57, 54, 55, 50, 57, 54>>
                    ELSE MantText(n, 10, mpat)
DecToks(n, mpat, lead, f, ex, neg, pat) ==
  (IF neg THEN <<Minus>> ELSE <<>>) \o FloatBody(Zs(lead) \o DecMant(n, mpat), f, pat) \o DecExps[ex]
\* ---- rational: styles 1 decimal, 2 0x on both parts, 3 0x on the numerator only, 4 `base 32` (identifiers), 5 `base 7`
RatMagsN == << <<>>, One, FromNat(6), FromNat(22), P2m1(32), P2(32), Add(P2(64), FromNat(2)), P2m1(128), Add(P2(192), FromNat(24690)) >>
RatMagsD == << <<>>, One, FromNat(4), FromNat(7), FromNat(9), P2m1(32), P2(32), P2(64), Add(P2(128), One) >>   \* first = no denominator
\* sg: 0 no sign, 1 `-n/d`, 2 `n/-d`, 3 `-n/-d`, 4 `+n/-d`, 5 `-n/+d`
Plus == Tok("sign", <<cPlus>>)
RatToks(style, nm, dm, relaxed, sg, pat) ==
  LET radix == IF style = 1 THEN 10 ELSE IF style \in {2, 3} THEN 16 ELSE IF style = 4 THEN 32 ELSE 7
      part(mag, pfx) ==
        LET txt == Sep(DigitText(mag, radix, FALSE), pat) IN
        (IF style >= 4 /\ HasLetter(txt) THEN <<Tok("uscore", <<cUs>>)>> ELSE <<>>)
        \o (IF pfx THEN <<Tok("prefix", <<48, 120>>)>> ELSE <<>>) \o <<Tok("digits", txt)>>
  IN (IF relaxed THEN <<Tok("tilde", <<126>>)>> ELSE <<>>)
     \o (IF sg \in {1, 3, 5} THEN <<Minus>> ELSE IF sg = 4 THEN <<Plus>> ELSE <<>>)
     \o part(RatMagsN[nm], style \in {2, 3})
     \o (IF dm = 1 THEN <<>> ELSE <<Tok("slash", <<47>>)>> \o (IF sg \in {2, 3, 4} THEN <<Minus>> ELSE IF sg = 5 THEN <<Plus>> ELSE <<>>)
                                    \o part(RatMagsD[dm], style = 2))
     \o (IF style >= 4 THEN <<Tok("base", STR_base), Tok("radix", Dec(radix))>> ELSE <<>>)

\* ---- single-token mutations (index m) of a token sequence
Mutate(t, m) ==
  LET n == Len(t)
      lastDigits == FoldLeftDomain(LAMBDA acc, i : IF t[i].k = "digits" THEN i ELSE acc, 0, t)
      firstDigits == FoldLeftDomain(LAMBDA acc, i : IF acc = 0 /\ t[i].k = "digits" THEN i ELSE acc, 0, t)
      repl(i, tok) == [j \in 1..n |-> IF j = i THEN tok ELSE t[j]]
      del(i) == SubSeq(t, 1, i - 1) \o SubSeq(t, i + 1, n)
      ins(i, tok) == SubSeq(t, 1, i) \o <<tok>> \o SubSeq(t, i + 1, n)      \* behind position i
  IN CASE m = 1 -> repl(firstDigits, Tok("digits", Append(t[firstDigits].s, 122)))            \* trailing digit `z`
       [] m = 2 -> del(firstDigits)                                                           \* digits dropped
       [] m = 3 -> <<Minus>> \o t                                                             \* (another) leading minus
       [] m = 4 -> IF t[n].k = "radix" THEN repl(n, Tok("radix", <<51, 55>>)) ELSE t          \* base 37
       [] m = 5 -> IF t[n].k = "radix" THEN repl(n, Tok("radix", <<49>>)) ELSE t              \* base 1
       [] m = 6 -> IF t[n].k = "radix" THEN del(n) ELSE t                                     \* `base` without a number
       [] m = 7 -> ins(lastDigits, Tok("point", <<46>>)) \o <<Tok("digits", <<49>>), Tok("point", <<46>>), Tok("digits", <<49>>)>>
       [] m = 8 -> ins(firstDigits, Tok("slash", <<47>>))                                     \* dangling or doubled slash
       [] m = 9 -> t \o <<Tok("slash", <<47>>), Tok("digits", <<48>>)>>                       \* ... / 0
       [] m = 10 -> IF firstDigits > 1 /\ t[firstDigits - 1].k = "prefix" THEN repl(firstDigits - 1, Tok("prefix", <<48, 98>>))
                    ELSE ins(firstDigits - 1, Tok("prefix", <<48, 120>>))                     \* wrong or misplaced prefix
       \* exponent mark without digits (not behind hexadecimal digits, where `e` would read as one more digit)
       [] m = 11 -> IF \E i \in 1..n : t[i].k = "prefix" THEN t ELSE t \o <<Tok("expmark", <<101>>)>>
       [] m = 12 -> t \o <<Tok("expmark", <<112>>), Tok("digits", <<51>>)>>                   \* a second / foreign exponent
       [] m = 13 -> t \o <<Tok("digits", <<32, 55>>)>>                                        \* a second number
       [] m = 14 -> <<Tok("tilde", <<126>>)>> \o t                                            \* `~` where it does not belong / doubled
NMut == 14

\* ------------------------------------------------------------------ state machine
VARIABLES phase, fam, mi, par
vars == <<phase, fam, mi, par>>
Fams == {"int", "bin", "hex", "dec", "rat"}
NMacros(f) == IF f = "int" THEN 4 ELSE 2
MacroOf(f, i) == IF f = "int" THEN IntMacros[i]
                 ELSE IF f \in {"bin", "hex"} THEN <<"fbig", "static_fbig">>[i]
                 ELSE IF f = "dec" THEN <<"dbig", "static_dbig">>[i] ELSE <<"rbig", "static_rbig">>[i]
Init == phase = "pick" /\ fam \in Fams /\ mi \in 1..NMacros(fam) /\ par = <<>>

Params(f) ==
  IF f = "int" THEN {<<s, g, ng, pt, up>> : s \in 1..Len(IntStyles), g \in 1..Len(Mags), ng \in 0..1, pt \in 1..3, up \in 0..1}
  ELSE IF f = "bin" THEN {<<n, mp, ld, fr, ex, ng, pt>> : n \in {1, 5, 32, 33, 64, 65, 128, 129, 200}, mp \in 0..4, ld \in {0, 3},
                           fr \in {-1, 0, 2, 1000}, ex \in 1..Len(BinExps), ng \in 0..1, pt \in {1, 4}}
  ELSE IF f = "hex" THEN {<<sh, n, mp, ld, fr, ex, ng, pt>> : sh \in 1..3, n \in {1, 8, 9, 16, 17, 32, 33, 50}, mp \in 0..4, ld \in {0, 2},
                           fr \in {0, 1, 1000}, ex \in 1..Len(HexExps), ng \in 0..1, pt \in {1, 4}}
  ELSE IF f = "dec" THEN {<<n, mp, ld, fr, ex, ng, pt>> : n \in {1, 9, 10, 19, 20, 39, 40, 60}, mp \in 0..6, ld \in {0, 2},
                           fr \in {-1, 0, 3, 1000}, ex \in 1..Len(DecExps), ng \in 0..1, pt \in {1, 2}}
  ELSE {<<s, nm, dm, rl, ng, pt>> : s \in 1..5, nm \in 1..Len(RatMagsN), dm \in 1..Len(RatMagsD), rl \in 0..1, ng \in 0..5, pt \in 1..2}
\* `fr` = 1000 stands for "all digits behind the point"
Fr(fr, total) == IF fr = 1000 THEN total ELSE fr
ToksOf(f, p) ==
  IF f = "int" THEN IntToks(IntStyles[p[1]], Mags[p[2]], p[3] = 1, p[4], p[5] = 1)
  ELSE IF f = "bin" THEN BinToks(p[1], p[2], p[3], Fr(p[4], p[1] + p[3]), p[5], p[6] = 1, p[7])
  ELSE IF f = "hex" THEN HexToks(p[1], p[2], p[3], p[4], Fr(p[5], p[2] + p[4]), p[6], p[7] = 1, p[8])
  ELSE IF f = "dec" THEN DecToks(p[1], p[2], p[3], Fr(p[4], p[1] + p[3]), p[5], p[6] = 1, p[7])
  ELSE RatToks(p[1], p[2], p[3], p[4] = 1, p[5], p[6])
\* shapes the Rust lexer or the grammar cannot express (not literals of the language at all): skipped
Sensible(f, p) ==
  IF f = "int" THEN (p[3] = 0 \/ MSigned(MacroOf(f, mi))) /\ (p[5] = 0 \/ IntStyles[p[1]] \in {-16, 16, 32, 36})
  ELSE IF f = "bin" THEN /\ (p[2] # 0 \/ (p[1] <= 5 /\ p[6] = 0))
                         /\ (p[4] >= 0 \/ p[5] # 3)                      \* lower-case `b` only behind a point (`0b5` is a Rust prefix)
                         /\ (p[4] <= p[1] + p[3])
                         /\ (p[7] = 1 \/ p[4] # 1000)
  ELSE IF f = "hex" THEN /\ (p[3] # 0 \/ (p[2] <= 8 /\ p[7] = 0))
                         /\ (p[1] # 1 \/ p[5] = 0)                       \* shape 1 has no point
                         /\ (p[1] = 1 \/ p[8] = 1)
                         /\ (p[1] # 3 \/ (p[5] > 0 /\ Fr(p[5], p[2] + p[4]) < p[2] + p[4]))  \* shape 3 needs both parts
  ELSE IF f = "dec" THEN /\ (p[2] # 0 \/ (p[1] <= 9 /\ p[6] = 0))
                         /\ (p[2] <= 4 \/ p[1] = 10)
                         /\ (p[4] <= p[1] + p[3])
                         /\ (p[7] = 1 \/ p[4] # 1000)
  ELSE (p[2] # 1 \/ p[5] = 0) /\ (p[1] < 4 \/ p[3] # 1)                 \* no "-0"; `base N` only with a denominator
       /\ (p[5] <= 1 \/ p[3] # 1)                                       \* a denominator sign needs a denominator
Hash(p) == FoldLeftDomain(LAMBDA acc, i : (acc * 31 + p[i] + 7) % 100003, Seed + mi * 17, p)
\* the parameter spaces differ in size: per-family thinning factors keep the families balanced
KeepOf(f) == Keep * (IF f = "int" THEN 1 ELSE IF f = "bin" THEN 5 ELSE IF f = "hex" THEN 8 ELSE IF f = "dec" THEN 7 ELSE 3)
Pinned(f, p) ==
  \/ f = "int" /\ p \in {<<1, 4, 0, 1, 0>>, <<1, 5, 0, 1, 0>>, <<4, 9, 0, 1, 0>>, <<4, 10, 0, 1, 0>>, <<10, 11, 1, 2, 0>>, <<1, 1, 0, 1, 0>>}
  \/ f = "dec" /\ p \in {<<10, 5, 0, 3, 1, 0, 1>>, <<10, 6, 0, 3, 1, 0, 1>>, <<1, 3, 2, 0, 1, 0, 1>>, <<1, 0, 2, 2, 1, 0, 1>>}
  \/ f = "bin" /\ p \in {<<32, 1, 0, -1, 1, 0, 1>>, <<33, 1, 0, -1, 1, 0, 1>>, <<1, 0, 0, -1, 1, 0, 1>>, <<5, 0, 0, 2, 1, 0, 1>>}
  \/ f = "hex" /\ p \in {<<1, 8, 1, 0, 0, 4, 1, 1>>, <<2, 9, 2, 0, 1, 2, 1, 1>>}
  \/ f = "rat" /\ p \in {<<1, 4, 4, 0, 0, 1>>, <<1, 3, 3, 1, 1, 1>>, <<3, 6, 7, 0, 0, 1>>, <<1, 3, 8, 0, 0, 1>>, <<2, 9, 9, 1, 0, 1>>,
                         <<1, 3, 3, 1, 3, 1>>, <<1, 4, 4, 0, 2, 1>>, <<1, 3, 4, 1, 2, 1>>, <<2, 6, 7, 0, 3, 1>>, <<1, 4, 3, 1, 4, 1>>, <<4, 4, 4, 0, 5, 1>>}

Pick == /\ phase = "pick"
        /\ par' \in Params(fam)
        /\ Sensible(fam, par')
        /\ (Pinned(fam, par') \/ Hash(par') % KeepOf(fam) = 0)
        /\ phase' = "valid"
        /\ UNCHANGED <<fam, mi>>
\* a mutation of a kept valid case: mutation index carried in the last element of par
Mut == /\ phase = "valid"
       /\ \E m \in 1..NMut : /\ (Hash(par) + m * 7919) % KeepBad = 0
                             /\ par' = Append(par, m)
       /\ phase' = "bad"
       /\ UNCHANGED <<fam, mi>>
Next == Pick \/ Mut
Spec == Init /\ [][Next]_vars

Macro == MacroOf(fam, mi)
ValidToks == ToksOf(fam, par)
BadToks == Mutate(ToksOf(fam, SubSeq(par, 1, Len(par) - 1)), par[Len(par)])
\* the text the run-time parser is given: the literal without `~`, without `base N`, and (floats) without the underscore
\* that only exists to make the hexadecimal integer part an identifier
RtToks(t) ==
  LET firstUs == FoldLeftDomain(LAMBDA acc, i : IF acc = 0 /\ t[i].k = "uscore" THEN i ELSE acc, 0, t)
      dropUs == (fam \in {"bin", "hex"}) /\ firstUs > 0 /\ (firstUs = 1 \/ (firstUs = 2 /\ t[1].k = "sign"))
  IN SelectSeq([i \in 1..Len(t) |-> IF dropUs /\ i = firstUs THEN Tok("skip", <<>>) ELSE t[i]],
               LAMBDA x : x.k \notin {"tilde", "base", "radix", "skip"})
RtRadix(t) == IF t # <<>> /\ t[Len(t)].k = "radix" THEN SmallDec(t[Len(t)].s) ELSE 0

EmitValid == phase = "valid" =>
   LET t == ValidToks IN
   IF Status(Macro, t) = "valid"
   THEN PrintT(<<"GEN", ToJson([kind |-> "valid", macro |-> Macro, fam |-> fam, par |-> par, toks |-> t,
                                rt |-> Flat(RtToks(t)), radix |-> RtRadix(t)])>>)
   ELSE PrintT(<<"GENERR", ToJson([macro |-> Macro, fam |-> fam, par |-> par, status |-> Status(Macro, t), toks |-> t])>>)
EmitBad == phase = "bad" =>
   LET t == BadToks IN
   IF Status(Macro, t) = "invalid"
   THEN PrintT(<<"GEN", ToJson([kind |-> "invalid", macro |-> Macro, fam |-> fam, par |-> par, toks |-> t])>>)
   ELSE TRUE
=============================================================================
