----------------------------- MODULE Trace_C20 -----------------------------
(***************************************************************************)
(* Monitor of C20.  One event per macro invocation of the generated crate  *)
(* (what the macro built and what the run-time parser built from the same  *)
(* text), or per separately compiled invalid literal (did it compile?).    *)
(* Status / Value / Precision are recomputed from the token sequence.      *)
(***************************************************************************)
EXTENDS LiteralDef, Json, IOUtils
Rec == ndJsonDeserialize(IOEnv.TRACE)

WhyE(e) ==
  LET st == Status(e.macro, e.toks) IN
  IF e.kind = "valid" THEN
     (IF st # "valid" THEN "malformed-case-not-valid"
      ELSE LET wm == ObsWhy(e.macro, e.toks, e.mv, "macro") IN
           IF wm # "" THEN wm
           ELSE IF "err" \in DOMAIN e.rv THEN "runtime-parser-rejects-valid-literal"
           ELSE ObsWhy(e.macro, e.toks, e.rv, "runtime"))
  ELSE IF e.kind = "invalid" THEN
     (IF st # "invalid" THEN "malformed-case-not-invalid"
      ELSE IF e.compiled THEN "invalid-literal-compiles" ELSE "")
  ELSE "malformed-event"

VARIABLES l, bad
Init == l = 1 /\ bad = <<>>
Next == /\ l <= Len(Rec)
        /\ LET w == WhyE(Rec[l]) IN bad' = IF w = "" THEN bad ELSE Append(bad, [i |-> l, why |-> w])
        /\ l' = l + 1
Spec == Init /\ [][Next]_<<l, bad>>
Verdict == l > Len(Rec) => PrintT(<<"VERDICT", ToJson([total |-> Len(Rec), bad |-> bad])>>)
Complete == IF TLCGet("stats").diameter - 1 = Len(Rec) THEN TRUE
            ELSE PrintT(<<"TRUNCATED", TLCGet("stats").diameter>>) /\ FALSE
=============================================================================
