SPECIFICATION Spec
INVARIANT EmitValid
INVARIANT EmitBad
CONSTANTS
  Seed = 1
  Keep = 60
  KeepBad = 40
CHECK_DEADLOCK FALSE
