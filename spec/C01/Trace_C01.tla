----------------------------- MODULE Trace_C01 -----------------------------
(* Trace monitor for C01 (and the C15 form inventory of the ring operators): every recorded
   call, in every call form, must return the integer IntArithDef prescribes.  The monitor never
   blocks: a failing event is recorded in `bad` and validation continues. *)
EXTENDS IntArithDef, Json, IOUtils
Rec == ndJsonDeserialize(IOEnv.TRACE)

HugeWhy(e) ==
  LET badg == {i \in 1..Len(e.outs) : ~HugeOutcomeOK(e.res, e.op, e.a, e.b, e.outs[i].out)}
  IN IF badg = {} THEN "" ELSE IF Len(e.outs) > 1 THEN "forms-disagree-with-definition"
     ELSE IF e.outs[1].out.k = "panic" THEN "unexpected-panic" ELSE "wrong-value-residues"
ExactWhy(e) ==
  LET exp == RingResult(e.op, e.a, e.b, e.n)
      badg == {i \in 1..Len(e.outs) : ~OutcomeOK(e.res, exp, e.outs[i].out)}
  IN IF ~(IsInt(e.a) /\ IsInt(e.b)) THEN "malformed-operand"
     ELSE IF badg = {} THEN ""
     ELSE IF MustPanic(e.res, exp) THEN "no-panic-on-underflow"
     ELSE IF Len(e.outs) > 1 THEN "forms-disagree-with-definition"
     ELSE IF e.outs[1].out.k = "panic" THEN "unexpected-panic"
     ELSE "wrong-value"
Why(e) == IF IsInt(e.a) /\ IsInt(e.b) /\ IsHuge(e.op, e.a, e.b) THEN HugeWhy(e) ELSE ExactWhy(e)

VARIABLES l, bad
Init == l = 1 /\ bad = <<>>
\* (a LET directly inside an action is re-evaluated by TLC at every reference; inside an operator it is cached)
Step(b, i) == LET w == Why(Rec[i]) IN IF w = "" THEN b ELSE Append(b, [i |-> i, why |-> w])
Next == /\ l <= Len(Rec)
        /\ bad' = Step(bad, l)
        /\ l' = l + 1
Spec == Init /\ [][Next]_<<l, bad>>
Verdict == l > Len(Rec) => PrintT(<<"VERDICT", ToJson([total |-> Len(Rec), bad |-> bad])>>)
Complete == IF TLCGet("stats").diameter - 1 = Len(Rec) THEN TRUE
            ELSE PrintT(<<"TRUNCATED", TLCGet("stats").diameter>>) /\ FALSE
=============================================================================
