----------------------------- MODULE IntPowAlg -----------------------------
(* Algorithm layer of C01 for powers: integer/src/pow.rs over a word of W bits.

     UBig::pow / IBig::pow : the factor 2^shift is removed first and put back as a shift by exp * shift;
                             the sign of an IBig power
     TypedReprRef::pow     : exponents 0, 1, 2; then by the size of the base
     pow_word_base         : bases 0, 1, 2 and powers of two; the base lifted to the largest power
                             wbase = base^wexp that fits a word (math::max_exp_in_word); exp < wexp,
                             exp < 2 wexp; else left-to-right square-and-multiply on exp / wexp with
                             the remaining base^(exp mod wexp) multiplied in at the end
     pow_dword_base        : the same loop with a double-word multiplier and a two-word carry that is
                             pushed only when it is not zero
     pow_large_base        : square_large / mul_large

   Values are native integers; what is modelled at word level is the BOOKKEEPING: the length of the
   result buffer after every step (a multiplication pushes its carry word even when it is zero, a
   squaring doubles the length), against the capacity allocated up front (`exp + 1`, `2 * exp` words)
   and against the scratch area for the copy made before each squaring (`exp / 2 + 1`, `exp` words:
   Memory::allocate_slice panics when it does not fit).
   TLC checks the value and these obligations for every base and exponent of the scope. *)
EXTENDS Integers, Sequences, TLC
CONSTANTS W,         \* bits per word
          MaxBits    \* results are explored while they stay below 2^MaxBits (MaxBits <= 30)
Beta == 2^W
RECURSIVE BitLen(_)
BitLen(x) == IF x = 0 THEN 0 ELSE 1 + BitLen(x \div 2)
RECURSIVE TrailingZeros(_)
TrailingZeros(x) == IF x % 2 = 1 THEN 0 ELSE 1 + TrailingZeros(x \div 2)
RECURSIVE PowN(_, _)
PowN(b, e) == IF e = 0 THEN 1 ELSE b * PowN(b, e - 1)
NWords(v) == (BitLen(v) + W - 1) \div W
IsPow2(x) == x > 0 /\ 2^TrailingZeros(x) = x

\* math::max_exp_in_word(base): the largest wexp with base^wexp < Beta, and that power
RECURSIVE MaxExpFrom(_, _, _)
MaxExpFrom(base, e, p) == IF p * base < Beta THEN MaxExpFrom(base, e + 1, p * base) ELSE <<e, p>>
MaxExpInWord(base) == MaxExpFrom(base, 1, base)

R(v, ok) == [v |-> v, ok |-> ok]

\* the square-and-multiply loop shared by the word and double-word bases.
\* st = [v, len, p, ok]; mulw = words pushed by a multiplication (1: always; 2: only a non-zero carry), cap, scratch in words
RECURSIVE SqmLoop(_, _, _, _, _, _)
SqmLoop(st, e, m, mulw, cap, scratch) ==
  LET bit == (e \div 2^st.p) % 2 = 1
      v1 == IF bit THEN st.v * m ELSE st.v
      \* word base: the carry word is pushed unconditionally; dword base: two words, only when the carry is not zero
      len1 == IF ~bit THEN st.len
              ELSE IF mulw = 1 THEN st.len + 1
              ELSE IF BitLen(v1) > W * st.len THEN st.len + 2 ELSE st.len
      ok1 == st.ok /\ BitLen(v1) <= W * len1                   \* the words hold the value
                   /\ (mulw = 2 /\ len1 > st.len => st.len + 1 <= cap)     \* `res.push(c0)` is a plain push: it needs capacity
  IN IF st.p = 0 THEN [v |-> v1, len |-> len1, p |-> 0, ok |-> ok1, over |-> len1 > cap]
     ELSE SqmLoop([v |-> v1 * v1, len |-> 2 * len1, p |-> st.p - 1,
                   ok |-> ok1 /\ len1 <= scratch /\ 2 * len1 <= cap],  \* copy fits the scratch area; push_zeros(len) stays inside the buffer
                  e, m, mulw, cap, scratch)

PowWordBase(base, exp) ==
  IF base = 0 THEN R(0, TRUE)
  ELSE IF base = 1 THEN R(1, TRUE)
  ELSE IF IsPow2(base) THEN R(2^(exp * TrailingZeros(base)), TRUE)
  ELSE LET mw == MaxExpInWord(base)  wexp == mw[1]  wbase == mw[2] IN
       IF exp < wexp THEN R(PowN(base, exp), PowN(base, exp) < Beta)
       ELSE IF exp < 2 * wexp THEN R(wbase * PowN(base, exp - wexp), PowN(base, exp - wexp) < Beta /\ wbase * PowN(base, exp - wexp) < Beta * Beta)
       ELSE LET e == exp \div wexp  er == exp % wexp
                cap == e + 1
                scratch == e \div 2 + 1
                l == SqmLoop([v |-> wbase * wbase, len |-> 2, p |-> BitLen(e) - 2, ok |-> TRUE], e, wbase, 1, cap, scratch)
                prem == PowN(base, er)
            IN R(l.v * prem, l.ok /\ e >= 2 /\ prem < Beta)        \* (the carry words go in through push_resizing)
PowDwordBase(base, exp) ==
  LET l == SqmLoop([v |-> base * base, len |-> 4, p |-> BitLen(exp) - 2, ok |-> TRUE], exp, base, 2, 2 * exp, exp)
  IN R(l.v, l.ok /\ base >= Beta)
RECURSIVE LargeLoop(_, _, _, _)
LargeLoop(v, base, exp, p) ==
  LET v1 == IF (exp \div 2^p) % 2 = 1 THEN v * base ELSE v IN IF p = 0 THEN v1 ELSE LargeLoop(v1 * v1, base, exp, p - 1)
PowLargeBase(base, exp) == R(LargeLoop(base * base, base, exp, BitLen(exp) - 2), exp > 1)

\* TypedReprRef::pow on a magnitude
ReprPow(mag, exp) ==
  IF exp = 0 THEN R(1, TRUE) ELSE IF exp = 1 THEN R(mag, TRUE) ELSE IF exp = 2 THEN R(mag * mag, TRUE)
  ELSE IF mag < Beta THEN PowWordBase(mag, exp)
  ELSE IF mag < Beta * Beta THEN PowDwordBase(mag, exp)
  ELSE PowLargeBase(mag, exp)
\* UBig::pow / IBig::pow
MagPow(mag, exp) ==
  LET shift == IF mag = 0 THEN 0 ELSE TrailingZeros(mag) IN
  IF shift # 0 THEN LET r == ReprPow(mag \div 2^shift, exp) IN R(r.v * 2^(exp * shift), r.ok) ELSE ReprPow(mag, exp)
IntPow(x, exp) ==
  LET mag == IF x < 0 THEN -x ELSE x
      neg == x < 0 /\ exp % 2 = 1
      r == MagPow(mag, exp)
  IN R(IF neg THEN -r.v ELSE r.v, r.ok)

VARIABLES x, e, phase
vars == <<x, e, phase>>
Init == phase = "pick" /\ x \in (-(Beta * Beta * 2))..(Beta * Beta * 2) /\ e = 0
Fits(b, ex) == b \in {-1, 0, 1} \/ ex * BitLen(IF b < 0 THEN -b ELSE b) <= MaxBits
Pick == phase = "pick" /\ phase' = "done" /\ UNCHANGED x /\ e' \in {k \in 0..MaxBits : Fits(x, k)}
Next == Pick
Spec == Init /\ [][Next]_vars
PowOK == phase = "done" => LET r == IntPow(x, e) IN r.ok /\ r.v = PowN(x, e)
=============================================================================
