------------------------------ MODULE Gen_C01 ------------------------------
(* Behaviour generator for C01: enumerates the partition
     operation x operand type pair x size class pair x pattern/sign variant
   and prints one case per state for the conformance harness.  The size classes straddle
   the inline/heap boundary (<= 2 words), the schoolbook/Karatsuba switch (24/25 words), and
   the Karatsuba/Toom-3 switch (192/193 words; thorough tier). *)
EXTENDS IntPatterns, Json
CONSTANTS Classes,      \* set of word counts
          BigClasses,   \* word counts around the Karatsuba / Toom-3 switch (192/193), used for products only
          K,            \* variants per (op, class pair)
          Seed

Ops == {"add", "sub", "mul"}
TypePairs == << <<"U", "U">>, <<"I", "I">>, <<"U", "I">>, <<"I", "U">>, <<"I", "I">> >>

VARIABLES phase, op, ca, cb, k
vars == <<phase, op, ca, cb, k>>

Init == phase = "pick" /\ op \in Ops \cup {"sqr", "cubic", "pow"} /\ ca \in Classes \cup BigClasses /\ cb = 0 /\ k = 0
             /\ (ca \in BigClasses => op \in {"mul", "sqr"})
Pick == /\ phase = "pick"
        /\ phase' = "done"
        /\ cb' \in (IF op \notin Ops THEN {ca} ELSE IF ca \in BigClasses THEN BigClasses ELSE Classes)
        /\ k' \in 1..(IF op = "pow" /\ ca \in 1..3 THEN 4 * NPat ELSE K)     \* small bases: every pattern x 4 exponents
        /\ UNCHANGED <<op, ca>>
Next == Pick
Spec == Init /\ [][Next]_vars

Salt == ca * 7 + cb * 3 + k * 11 + Seed
Case ==
  LET tp == TypePairs[1 + ((Salt + ca) % 5)]
      powgrid == op = "pow" /\ ca \in 1..3
      pa == IF powgrid THEN Patterns[1 + ((k - 1) % NPat)] ELSE Patterns[1 + (Salt % NPat)]
      pb == Patterns[1 + ((Salt \div 2 + cb) % NPat)]
      sa == IF tp[1] = "U" THEN 0 ELSE (Salt \div 3) % 2
      sb == IF tp[2] = "U" THEN 0 ELSE (Salt \div 5) % 2
      \* equal operands every 7th variant: cancellation and the squaring shortcut
      same == ca = cb /\ Salt % 7 = 0
      A == I(sa, Mag(pa, ca, Salt))
      Bv == IF same THEN I(sb, A.m) ELSE I(sb, Mag(pb, cb, Salt + 1))
      \* keep a^n below about 4000 bits
      n == IF op # "pow" THEN 0
           ELSE IF powgrid THEN <<3, 5, 7, 12>>[1 + ((k - 1) \div NPat)]
           ELSE IF ca = 0 THEN Salt % 4 ELSE (Salt % (1 + (64 \div ca)))
  IN [op |-> op, lt |-> tp[1], rt |-> IF op \in Ops THEN tp[2] ELSE tp[1], a |-> A, b |-> Bv, n |-> n]

Emit == phase = "done" => PrintT(<<"GEN", ToJson(Case)>>)
=============================================================================
