--------------------------- MODULE MC_IntMulAlg ---------------------------
(* Shape sets for model checking IntMulAlg (a cfg file cannot write sets of tuples).
   With TS = 2, TK = 15: lengths 1..2 simple, 3..15 Karatsuba, >= 16 Toom-3; ChunkLen = 3 makes the
   simple chunk loop run from 4 words on. *)
EXTENDS IntMulAlg
ShapesSmall == (1..4) \X (1..4)                    \* exhaustive operands (W = 2, ExhBits = 8), both orders
ShapesSmallQuick == (1..3) \X (1..3) \cup {<<4, 4>>, <<4, 3>>, <<2, 4>>}
\* deeper Karatsuba recursion (odd and even splits), unbalanced operands through the chunk helper
ShapesKara == {<<5, 5>>, <<6, 6>>, <<7, 7>>, <<8, 8>>, <<9, 4>>, <<11, 3>>, <<7, 2>>, <<13, 6>>, <<3, 10>>, <<15, 15>>}
ShapesKaraQuick == {<<5, 5>>, <<6, 6>>, <<7, 7>>, <<9, 4>>, <<7, 2>>}
\* Toom-3 at n = 0, 1, 2 (mod 3)
ShapesToom == {<<16, 16>>, <<17, 17>>, <<18, 18>>}
ShapesToomQuick == {<<16, 16>>, <<17, 17>>}
\* Toom-3 through the chunk helper, with a Karatsuba / simple remainder, and Toom-3 inside Toom-3
ShapesToomChunk == {<<35, 16>>, <<16, 33>>, <<40, 17>>, <<19, 19>>, <<48, 48>>}
=============================================================================
