----------------------------- MODULE MulMemAlg -----------------------------
(* Scratch-memory accounting of the multiplication stack (integer/src/mul/*.rs, memory.rs).

   The caller (mul_ops.rs mul_large / square_large, and every other user of mul::multiply) allocates
   ONE scratch area of memory_requirement_exact(total_len, smaller_len) words before the call; the
   algorithms carve their temporaries out of it with Memory::allocate_slice_*, which panics
   ("internal error: not enough memory allocated") when the area is too small.  The requirement is
   a closed formula (2n + 2 ceil_log2 n for Karatsuba, 4n + 13 ceil_log2 n for Toom-3) justified in
   comments by an induction over an idealised recurrence; the code's real recurrence is the one
   transcribed here: which temporaries are alive at each recursive call, with the real split points
   and the real dispatch between the three algorithms (and the chunk helper, whose remainder product
   re-enters the dispatcher with the operands swapped).

   Peak(n) is the exact number of scratch words add_signed_mul_same_len needs at length n.
   TLC checks Peak <= requirement for every smaller-operand length up to MaxN and every remainder
   length of the chunk loop, with the thresholds read from the source. *)
EXTENDS Integers, Sequences, TLC
CONSTANTS TS, TK,      \* mul::THRESHOLD_SIMPLE, mul::THRESHOLD_KARATSUBA (as in the source)
          SqrSimple,   \* sqr::MAX_LEN_SIMPLE
          KaraA, KaraB, ToomA, ToomB,    \* the requirement formulas a * n + b * ceil_log2(n), coefficients as in the source
          KaraMin, ToomMin,              \* karatsuba::MIN_LEN, toom_3::MIN_LEN
          MaxN
ASSUME TS + 1 >= KaraMin /\ TK + 1 >= ToomMin        \* the const_assert!s of mul/mod.rs

Max(x, y) == IF x > y THEN x ELSE y
Max3(x, y, z) == Max(x, Max(y, z))
RECURSIVE BitLen(_)
BitLen(x) == IF x = 0 THEN 0 ELSE 1 + BitLen(x \div 2)
CeilLog2(x) == BitLen(x - 1)             \* math::ceil_log2

\* memory_requirement_up_to(_, smaller_len), in words
Req(n) == IF n <= TS THEN 0
          ELSE IF n <= TK THEN KaraA * n + KaraB * CeilLog2(n)
          ELSE ToomA * n + ToomB * CeilLog2(n)

\* Peak of add_signed_mul_same_len at length n (each sub-length is evaluated once: LET values are cached)
RECURSIVE Peak(_)
Peak(n) ==
  IF n <= TS THEN 0
  ELSE IF n <= TK THEN
    LET mid == (n + 1) \div 2
        pm == Peak(mid)
        ph == Peak(n - mid)
    IN Max3(2 * mid + pm,                      \* c_lo, then the recursive product
            2 * (n - mid) + ph,                \* c_hi
            mid + mid + pm)                    \* a_diff, b_diff
  ELSE
    LET n3 == (n + 2) \div 3
        n3s == n - 2 * n3
        t1 == 2 * n3 + 2
        ev == 2 * (n3 + 1)                     \* a_eval, b_eval
        t2 == 2 * n3 + 2
        ce == 2 * n3 + 2                       \* c_eval
        p0 == Peak(n3)
        p1 == Peak(n3 + 1)
        ps == Peak(n3s)
    IN Max(Max3(t1 + p0,                                      \* V(0)
                t1 + ev + p1,                                 \* V(2)
                t1 + ev + ce + ps),                           \* V(inf)
           Max(t1 + ev + t2 + 2 * (n3 + 1) + p1,              \* a02, b02, V(1)
               t1 + ev + t2 + ce + p1))                       \* V(-1)

\* add_signed_mul(a, b) with len(a) = la >= len(b) = lb: the chunk helper runs the same-length algorithm on
\* chunks of lb words and hands the remainder (rem < lb words) back to the dispatcher with b as the long operand
RECURSIVE PeakMul(_, _)
PeakMul(la, lb) ==
  IF lb <= TS THEN 0
  ELSE LET rem == la % lb IN Max(Peak(lb), IF rem = 0 THEN 0 ELSE PeakMul(lb, rem))

VARIABLES n, phase
vars == <<n, phase>>
\* lengths are explored in NB residue classes so that TLC's workers share them
NB == 16
Init == n \in 0..(NB - 1) /\ phase = "class"
Next == phase = "class" /\ phase' = "len" /\ n' \in {k \in 1..MaxN : k % NB = n}
Spec == Init /\ [][Next]_vars

\* the area requested for smaller length n suffices for every longer operand (any remainder length)
EnoughForMul == phase = "len" =>
  LET pk == Peak(n) IN
  /\ pk <= Req(n)
  /\ \A rem \in 1..(n - 1) : PeakMul(n, rem) <= Req(n)      \* the remainder product, operands swapped
\* square_large: sqr::memory_requirement_exact(len) = memory_requirement_up_to(2 len, len) above the simple threshold
EnoughForSqr == phase = "len" /\ n > SqrSimple => Peak(n) <= Req(n)
\* the requirement is monotone (callers pass an upper bound of the smaller length: memory_requirement_up_to)
Monotone == phase = "len" /\ n < MaxN => Req(n) <= Req(n + 1)
\* the split points stay inside the operands (the comments' "we must have" conditions)
SplitsOK == phase = "len" =>
            /\ (n > TS /\ n <= TK) => 3 * ((n + 1) \div 2) <= 2 * n
            /\ n > TK => LET n3 == (n + 2) \div 3 IN 5 * n3 + 2 <= 2 * n /\ n - 2 * n3 >= 1 /\ n3 >= 2
\* how tight the closed formulas are: the slack of the requirement over the real peak, reported by the check
Slack == Req(n) - Peak(n)
=============================================================================
