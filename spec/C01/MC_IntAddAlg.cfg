SPECIFICATION Spec
INVARIANTS UnsignedOK SignedOK
CONSTANTS
  W = 2
  MaxV = 300
CHECK_DEADLOCK FALSE
