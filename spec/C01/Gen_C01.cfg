SPECIFICATION Spec
INVARIANT Emit
CONSTANTS
  Classes = {0, 1, 2, 3, 4, 23, 24, 25, 26, 32, 33}
  K = 2
  Seed = 0
CHECK_DEADLOCK FALSE
