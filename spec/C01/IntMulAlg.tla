----------------------------- MODULE IntMulAlg -----------------------------
(* Algorithm layer of C01 for multiplication and squaring: integer/src/mul/{mod,simple,karatsuba,
   toom_3,helpers}.rs, integer/src/sqr/simple.rs and the signed helpers of integer/src/add.rs,
   transcribed at word level over a word of W bits.  Word sequences are least significant first;
   `c[i..j]` of the Rust code is Sl(c, i, j), a write into that slice is Put(c, i, piece).

     add_signed_mul            : swap so that a is the longer operand; dispatch on len(b) by
                                 THRESHOLD_SIMPLE / THRESHOLD_KARATSUBA (CONSTANTS TS, TK)
     add_signed_mul_same_len   : the same dispatch for equal lengths (the recursive calls)
     simple::add_signed_mul    : add_mul_chunk / sub_mul_chunk, operands longer than CHUNK_LEN split
     helpers::add_signed_mul_split_into_chunks : the chunk loop with its carry_n bookkeeping
     karatsuba::add_signed_mul_same_len : three recursive products, |a_lo - a_hi| with a sign,
                                 carries parked at 2*mid and 3*mid
     toom_3::add_signed_mul_same_len    : evaluation at 0, 2, inf, 1, -1, interpolation
                                 (t1 / 6, t2 / 2 exact), carries parked at 2n3, 3n3+2, 4n3+2, 5n3+2
     sqr::simple::square       : triangular part, then doubling fused with the diagonal

   Every `debug_assert_zero!`, `debug_assert!(carry.abs() <= 1)`, `assert_eq!(rem, 0)` and every
   `+=` on a Word that could overflow is an obligation of the model: a step that violates one makes
   the result record carry ok = FALSE, and the invariant demands ok.

   TLC checks: c + sign * a * b (mod Beta^len(c)) and the returned carry are the mathematical ones,
   for every operand shape the configuration enumerates - exhaustively for small lengths at W = 2
   (every carry/borrow/sign combination of the simple and Karatsuba code), and for block-pattern and
   pseudo-random operands at the lengths where Toom-3 (MIN_LEN 16) and the chunk loop are reached. *)
EXTENDS Integers, Sequences, TLC
CONSTANTS W,          \* bits per word
          TS, TK,     \* mul::THRESHOLD_SIMPLE, mul::THRESHOLD_KARATSUBA (scaled down)
          ChunkLen,   \* simple::CHUNK_LEN (scaled down)
          SqrSimple,  \* sqr::MAX_LEN_SIMPLE (scaled down)
          Shapes      \* set of <<len(a), len(b)>> to explore
KaraMin == 3          \* karatsuba::MIN_LEN
ToomMin == 16         \* toom_3::MIN_LEN

\* the const_assert!s of mul/mod.rs
ASSUME TS <= ChunkLen /\ TS + 1 >= KaraMin /\ TK + 1 >= ToomMin

Beta == 2^W
MaxW == Beta - 1
Zeros(n) == [i \in 1..n |-> 0]
Sl(c, i, j) == SubSeq(c, i + 1, j)
Put(c, i, p) == SubSeq(c, 1, i) \o p \o SubSeq(c, i + Len(p) + 1, Len(c))
Min(x, y) == IF x < y THEN x ELSE y

\* ---------------------------------------------------------------- add.rs
\* words += rhs + carry (len(words) >= len(rhs)): <<words, carry bit>>
RECURSIVE AddAt(_, _, _, _, _)
AddAt(x, y, i, c, acc) ==
  IF i > Len(x) THEN <<acc, c>>
  ELSE LET t == x[i] + (IF i <= Len(y) THEN y[i] ELSE 0) + c
       IN AddAt(x, y, i + 1, t \div Beta, Append(acc, t % Beta))
Add(x, y) == AddAt(x, y, 1, 0, <<>>)
RECURSIVE SubAt(_, _, _, _, _)
SubAt(x, y, i, b, acc) ==
  IF i > Len(x) THEN <<acc, b>>
  ELSE LET t == x[i] - (IF i <= Len(y) THEN y[i] ELSE 0) - b
       IN SubAt(x, y, i + 1, IF t < 0 THEN 1 ELSE 0, Append(acc, IF t < 0 THEN t + Beta ELSE t))
Sub(x, y) == SubAt(x, y, 1, 0, <<>>)
\* add_signed_in_place / add_signed_same_len_in_place: <<words, signed carry>>
AddSigned(ws, sign, rhs) == IF sign = 1 THEN Add(ws, rhs) ELSE LET r == Sub(ws, rhs) IN <<r[1], -r[2]>>
\* add_signed_word_in_place
AddSignedWord(ws, sw) ==
  IF sw = 0 \/ ws = <<>> THEN <<ws, sw>>
  ELSE IF sw > 0 THEN Add(ws, <<sw>>) ELSE LET r == Sub(ws, <<-sw>>) IN <<r[1], -r[2]>>
\* the parked carries are sums of a handful of -1/0/+1: they fit a SignedWord of any real width; in the
\* model (W as small as 2) the obligation is that the magnitude is still a single word, which is what
\* add_signed_word_in_place needs
FitsSigned(v) == v >= -MaxW /\ v <= MaxW
TrimLen(ws) == IF \A i \in 1..Len(ws) : ws[i] = 0 THEN 0 ELSE CHOOSE n \in 1..Len(ws) : ws[n] # 0 /\ \A i \in (n + 1)..Len(ws) : ws[i] = 0
\* sub_in_place_with_sign: <<|lhs - rhs| in the length of lhs, sign, no overflow flagged>>
RECURSIVE EqualArm(_, _, _)
EqualArm(l, r, n) ==
  IF n = 0 THEN <<l, 1, TRUE>>
  ELSE IF l[n] > r[n] THEN LET s == Sub(Sl(l, 0, n), Sl(r, 0, n)) IN <<Put(l, 0, s[1]), 1, s[2] = 0>>
  ELSE IF l[n] < r[n] THEN LET s == Sub(Sl(r, 0, n), Sl(l, 0, n)) IN <<Put(l, 0, s[1]), -1, s[2] = 0>>
  ELSE EqualArm(Put(l, n - 1, <<0>>), r, n - 1)
SubWithSign(l, r) ==
  LET ll == TrimLen(l)  rl == TrimLen(r) IN
  IF ll > rl THEN LET s == Sub(Sl(l, 0, ll), Sl(r, 0, rl)) IN <<Put(l, 0, s[1]), 1, s[2] = 0>>
  ELSE IF ll < rl THEN
    LET s == Sub(Sl(r, 0, ll), Sl(l, 0, ll))                      \* sub_same_len_in_place_swap
        l1 == Put(Put(l, 0, s[1]), ll, Sl(r, ll, rl))              \* copy the high words of rhs
        t == IF s[2] = 1 THEN Sub(Sl(l1, ll, rl), <<1>>) ELSE <<Sl(l1, ll, rl), 0>>
    IN <<Put(l1, ll, t[1]), -1, t[2] = 0>>
  ELSE EqualArm(l, r, ll)

\* ---------------------------------------------------------------- mul/mod.rs word helpers
\* mul_word_in_place_with_carry: <<words, carry word>>
RECURSIVE MulWordAt(_, _, _, _, _)
MulWordAt(x, m, i, c, acc) ==
  IF i > Len(x) THEN <<acc, c>>
  ELSE LET t == x[i] * m + c IN MulWordAt(x, m, i + 1, t \div Beta, Append(acc, t % Beta))
MulWord(x, m) == IF m = 0 THEN <<Zeros(Len(x)), 0>> ELSE MulWordAt(x, m, 1, 0, <<>>)
\* add_mul_word_same_len_in_place: words += mult * rhs, <<words, carry word>>
RECURSIVE AddMulAt(_, _, _, _, _, _)
AddMulAt(x, m, y, i, c, acc) ==
  IF i > Len(x) THEN <<acc, c>>
  ELSE LET t == m * y[i] + x[i] + c IN AddMulAt(x, m, y, i + 1, t \div Beta, Append(acc, t % Beta))
AddMulWordSameLen(x, m, y) == IF m = 0 THEN <<x, 0>> ELSE AddMulAt(x, m, y, 1, 0, <<>>)
\* add_mul_word_in_place: len(words) >= len(rhs); the carry out of the low part is added to the rest
AddMulWord(x, m, y) ==
  IF m = 0 THEN <<x, 0>>
  ELSE LET n == Len(y)  lo == AddMulWordSameLen(Sl(x, 0, n), m, y) IN
       IF Len(x) > n THEN LET hi == Add(Sl(x, n, Len(x)), <<lo[2]>>) IN <<lo[1] \o hi[1], hi[2]>>
       ELSE lo
\* sub_mul_word_same_len_in_place with its carry_plus_max trick: <<words, borrow word, every v fitted a double word>>
RECURSIVE SubMulAt(_, _, _, _, _, _, _)
SubMulAt(x, m, y, i, cpm, acc, ok) ==
  IF i > Len(x) THEN <<acc, MaxW - cpm, ok>>
  ELSE LET v == x[i] + cpm + (MaxW * Beta - MaxW) - m * y[i]
       IN SubMulAt(x, m, y, i + 1, v \div Beta, Append(acc, v % Beta), ok /\ v >= 0 /\ v < Beta * Beta)
SubMulWordSameLen(x, m, y) == IF m = 0 THEN <<x, 0, TRUE>> ELSE SubMulAt(x, m, y, 1, MaxW, <<>>, TRUE)
\* div_by_word_in_place for the tiny divisors Toom-3 uses: <<quotient words, remainder>>
RECURSIVE DivWordFromTop(_, _, _, _)
DivWordFromTop(x, d, i, rem) ==
  IF i = 0 THEN <<x, rem>>
  ELSE LET t == rem * Beta + x[i] IN DivWordFromTop(Put(x, i - 1, <<t \div d>>), d, i - 1, t % d)
DivWord(x, d) == DivWordFromTop(x, d, Len(x), 0)

\* ---------------------------------------------------------------- results: [c, carry, ok]
R(c, carry, ok) == [c |-> c, carry |-> carry, ok |-> ok]

\* ---------------------------------------------------------------- simple.rs
RECURSIVE AddMulChunkAt(_, _, _, _, _)
AddMulChunkAt(c, a, b, i, carry) ==          \* i is 0-based as in the Rust loop
  IF i = Len(b) THEN <<c, carry>>
  ELSE LET la == Len(a)
           p == AddMulWordSameLen(Sl(c, i, i + la), b[i + 1], a)
           t == c[i + la + 1] + p[2] + carry                         \* add_with_carry
           c1 == Put(Put(c, i, p[1]), i + la, <<t % Beta>>)
       IN AddMulChunkAt(c1, a, b, i + 1, t \div Beta)
RECURSIVE SubMulChunkAt(_, _, _, _, _, _)
SubMulChunkAt(c, a, b, i, borrow, ok) ==
  IF i = Len(b) THEN <<c, borrow, ok>>
  ELSE LET la == Len(a)
           p == SubMulWordSameLen(Sl(c, i, i + la), b[i + 1], a)
           t == c[i + la + 1] - p[2] - borrow                        \* sub_with_borrow
           c1 == Put(Put(c, i, p[1]), i + la, <<IF t < 0 THEN t + Beta ELSE t>>)
       IN SubMulChunkAt(c1, a, b, i + 1, IF t < 0 THEN 1 ELSE 0, ok /\ p[3] /\ t + Beta >= 0)
SimpleChunk(c, sign, a, b) ==
  IF sign = 1 THEN LET r == AddMulChunkAt(c, a, b, 0, 0) IN R(r[1], r[2], Len(a) >= Len(b) /\ Len(c) = Len(a) + Len(b))
  ELSE LET r == SubMulChunkAt(c, a, b, 0, 0, TRUE) IN R(r[1], -r[2], r[3] /\ Len(a) >= Len(b) /\ Len(c) = Len(a) + Len(b))

\* ---------------------------------------------------------------- the recursive family
RECURSIVE MulDispatch(_, _, _, _), SameLen(_, _, _, _), SplitLoop(_, _, _, _, _, _, _, _, _),
          KaraSameLen(_, _, _, _), ToomSameLen(_, _, _, _)

\* the chunk function handed to the helper
ChunkF(tag, c, sign, a, b) ==
  CASE tag = "simple" -> SimpleChunk(c, sign, a, b)
    [] tag = "kara"   -> KaraSameLen(c, sign, a, b)
    [] tag = "toom"   -> ToomSameLen(c, sign, a, b)

\* helpers::add_signed_mul_split_into_chunks; `done` collects the words of c the loop has moved past
SplitLoop(done, c, sign, a, b, chunk, carryN, tag, ok) ==
  LET n == Len(b) IN
  IF Len(a) >= chunk THEN
    LET p  == AddSignedWord(Sl(c, n, chunk + n), carryN)
        c1 == Put(c, n, p[1])
        r  == ChunkF(tag, Sl(c1, 0, chunk + n), sign, Sl(a, 0, chunk), b)
        c2 == Put(c1, 0, r.c)
    IN SplitLoop(done \o Sl(c2, 0, chunk), Sl(c2, chunk, Len(c2)), sign, Sl(a, chunk, Len(a)), b, chunk,
                 p[2] + r.carry, tag, ok /\ r.ok /\ FitsSigned(p[2] + r.carry))
  ELSE
    LET p  == AddSignedWord(Sl(c, n, Len(c)), carryN)
        c1 == Put(c, n, p[1])
        r  == IF Len(a) >= Len(b) THEN MulDispatch(c1, sign, a, b)
              ELSE IF a # <<>> THEN MulDispatch(c1, sign, b, a)
              ELSE R(c1, 0, TRUE)
    IN R(done \o r.c, p[2] + r.carry, ok /\ r.ok /\ FitsSigned(p[2] + r.carry))
Split(c, sign, a, b, chunk, tag) ==
  LET r == SplitLoop(<<>>, c, sign, a, b, chunk, 0, tag, Len(a) >= Len(b) /\ Len(c) = Len(a) + Len(b) /\ Len(b) <= chunk)
  IN r

\* mul::add_signed_mul
MulDispatch(c, sign, a0, b0) ==
  LET a == IF Len(a0) < Len(b0) THEN b0 ELSE a0
      b == IF Len(a0) < Len(b0) THEN a0 ELSE b0
  IN IF Len(b) <= TS THEN (IF Len(a) <= ChunkLen THEN SimpleChunk(c, sign, a, b) ELSE Split(c, sign, a, b, ChunkLen, "simple"))
     ELSE IF Len(b) <= TK THEN Split(c, sign, a, b, Len(b), "kara")
     ELSE Split(c, sign, a, b, Len(b), "toom")

\* mul::add_signed_mul_same_len
SameLen(c, sign, a, b) ==
  LET n == Len(a) IN
  IF n <= TS THEN SimpleChunk(c, sign, a, b)
  ELSE IF n <= TK THEN KaraSameLen(c, sign, a, b)
  ELSE ToomSameLen(c, sign, a, b)

\* product into a zeroed buffer, `debug_assert_zero!` on the carry
Product(a, b) == LET r == SameLen(Zeros(2 * Len(a)), 1, a, b) IN R(r.c, 0, r.ok /\ r.carry = 0)

\* karatsuba::add_signed_mul_same_len
KaraSameLen(c, sign, a, b) ==
  LET n == Len(a)
      mid == (n + 1) \div 2
      aLo == Sl(a, 0, mid)   aHi == Sl(a, mid, n)
      bLo == Sl(b, 0, mid)   bHi == Sl(b, mid, n)
      \* block 1
      pLo == Product(aLo, bLo)
      s1 == AddSigned(Sl(c, 0, 2 * mid), sign, pLo.c)
      cA == Put(c, 0, s1[1])
      s2 == AddSigned(Sl(cA, mid, 3 * mid), sign, pLo.c)
      cB == Put(cA, mid, s2[1])
      \* block 2
      pHi == Product(aHi, bHi)
      s3 == AddSigned(Sl(cB, 2 * mid, 2 * n), sign, pHi.c)
      cC == Put(cB, 2 * mid, s3[1])
      s4 == AddSigned(Sl(cC, mid, 3 * mid), sign, pHi.c)
      cD == Put(cC, mid, s4[1])
      \* block 3
      da == SubWithSign(aLo, aHi)
      db == SubWithSign(bLo, bHi)
      m3 == SameLen(Sl(cD, mid, 3 * mid), (-sign) * da[2] * db[2], da[1], db[1])
      cE == Put(cD, mid, m3.c)
      carryC0 == s1[2]
      carryC1a == s2[2] + s4[2] + m3.carry
      \* propagate
      q1 == AddSignedWord(Sl(cE, 2 * mid, 3 * mid), carryC0)
      cF == Put(cE, 2 * mid, q1[1])
      carryC1 == carryC1a + q1[2]
      q2 == AddSignedWord(Sl(cF, 3 * mid, 2 * n), carryC1)
      cG == Put(cF, 3 * mid, q2[1])
      carry == s3[2] + q2[2]
  IN R(cG, carry,
       n >= KaraMin /\ Len(b) = n /\ Len(c) = 2 * n /\ 3 * mid <= 2 * n
       /\ pLo.ok /\ pHi.ok /\ m3.ok /\ da[3] /\ db[3]
       /\ FitsSigned(carryC1a) /\ FitsSigned(carryC1)
       /\ carry >= -1 /\ carry <= 1)

\* toom_3::add_signed_mul_same_len
ToomSameLen(c, sign, a, b) ==
  LET n == Len(a)
      n3 == (n + 2) \div 3
      n3s == n - 2 * n3
      a0 == Sl(a, 0, n3)  a1 == Sl(a, n3, 2 * n3)  a2 == Sl(a, 2 * n3, n)
      b0 == Sl(b, 0, n3)  b1 == Sl(b, n3, 2 * n3)  b2 == Sl(b, 2 * n3, n)
      \* ---- evaluate at 0
      v0 == Product(a0, b0)                                         \* t1_short
      s1 == AddSigned(Sl(c, 0, 2 * n3), sign, v0.c)
      cA == Put(c, 0, s1[1])
      s2 == AddSigned(Sl(cA, 2 * n3, 4 * n3 + 2), -sign, v0.c)
      cB == Put(cA, 2 * n3, s2[1])
      m3 == MulWord(v0.c, 3)
      t1a == m3[1] \o <<m3[2], 0>>
      \* ---- evaluate at 2
      ea1 == AddMulWordSameLen(a0, 2, a1)
      ea2 == AddMulWord(ea1[1], 4, a2)
      aEval2 == ea2[1] \o <<ea1[2] + ea2[2]>>
      eb1 == AddMulWordSameLen(b0, 2, b1)
      eb2 == AddMulWord(eb1[1], 4, b2)
      bEval2 == eb2[1] \o <<eb1[2] + eb2[2]>>
      v2 == SameLen(t1a, 1, aEval2, bEval2)
      t1b == v2.c
      \* ---- evaluate at infinity
      vinf == Product(a2, b2)                                       \* c_short
      s3 == AddSigned(Sl(cB, 2 * n3, 4 * n3 + 2), -sign, vinf.c)
      cC == Put(cB, 2 * n3, s3[1])
      s4 == AddSigned(Sl(cC, 4 * n3, 2 * n), sign, vinf.c)
      cD == Put(cC, 4 * n3, s4[1])
      m12 == MulWord(vinf.c, 12)
      s5 == Sub(t1b, m12[1] \o <<m12[2]>>)
      t1c == s5[1]
      \* ---- evaluate at 1
      a02s == Add(a0, a2)
      a02 == a02s[1] \o <<a02s[2]>>
      ae1 == Add(Sl(a02, 0, n3), a1)
      aEval1 == ae1[1] \o <<a02[n3 + 1] + ae1[2]>>
      b02s == Add(b0, b2)
      b02 == b02s[1] \o <<b02s[2]>>
      be1 == Add(Sl(b02, 0, n3), b1)
      bEval1 == be1[1] \o <<b02[n3 + 1] + be1[2]>>
      v1 == Product(aEval1, bEval1)                                 \* t2
      s6 == AddSigned(Sl(cD, n3, 3 * n3 + 2), sign, v1.c)
      cE == Put(cD, n3, s6[1])
      \* ---- evaluate at -1
      am == SubWithSign(a02, a1)
      bm == SubWithSign(b02, b1)
      sgn == am[2] * bm[2]
      vm == Product(am[1], bm[1])                                   \* c_eval
      s7 == AddSigned(v1.c, sgn, vm.c)
      t2a == s7[1]
      s8 == IF sgn = 1 THEN LET r == AddMulWordSameLen(t1c, 2, vm.c) IN <<r[1], r[2], TRUE>>
            ELSE SubMulWordSameLen(t1c, 2, vm.c)
      t1d == s8[1]
      \* ---- interpolate
      d6 == DivWord(t1d, 6)
      t1 == d6[1]
      d2 == DivWord(t2a, 2)                                         \* shr_in_place(t2, 1)
      t2 == d2[1]
      s9 == AddSigned(Sl(cE, n3, 3 * n3 + 2), -sign, t1)
      cF == Put(cE, n3, s9[1])
      s10 == AddSigned(Sl(cF, 3 * n3, 5 * n3 + 2), sign, t1)
      cG == Put(cF, 3 * n3, s10[1])
      s11 == AddSigned(Sl(cG, 2 * n3, 4 * n3 + 2), sign, t2)
      cH == Put(cG, 2 * n3, s11[1])
      s12 == AddSigned(Sl(cH, 3 * n3, 5 * n3 + 2), -sign, t2)
      cI == Put(cH, 3 * n3, s12[1])
      carryC0 == s1[2]
      carryC1a == s6[2] + s9[2]
      carryC2a == s2[2] + s3[2] + s11[2]
      carryC3a == s10[2] + s12[2]
      \* ---- apply carries
      q1 == AddSignedWord(Sl(cI, 2 * n3, 3 * n3 + 2), carryC0)
      cJ == Put(cI, 2 * n3, q1[1])
      carryC1 == carryC1a + q1[2]
      q2 == AddSignedWord(Sl(cJ, 3 * n3 + 2, 4 * n3 + 2), carryC1)
      cK == Put(cJ, 3 * n3 + 2, q2[1])
      carryC2 == carryC2a + q2[2]
      q3 == AddSignedWord(Sl(cK, 4 * n3 + 2, 5 * n3 + 2), carryC2)
      cL == Put(cK, 4 * n3 + 2, q3[1])
      carryC3 == carryC3a + q3[2]
      q4 == AddSignedWord(Sl(cL, 5 * n3 + 2, 2 * n), carryC3)
      cM == Put(cL, 5 * n3 + 2, q4[1])
      carry == s4[2] + q4[2]
  IN R(cM, carry,
       n >= ToomMin /\ Len(b) = n /\ Len(c) = 2 * n /\ 5 * n3 + 2 <= 2 * n /\ n3s >= 1
       /\ v0.ok /\ v2.ok /\ v2.carry = 0 /\ vinf.ok /\ v1.ok /\ vm.ok
       /\ ea1[2] + ea2[2] < Beta /\ eb1[2] + eb2[2] < Beta            \* a_eval[n3] += ... on a Word
       /\ a02[n3 + 1] + ae1[2] < Beta /\ b02[n3 + 1] + be1[2] < Beta
       /\ s5[2] = 0                                                    \* 3V(0) + V(2) - 12V(inf) >= 0
       /\ am[3] /\ bm[3]
       /\ s7[2] = 0 /\ s8[2] = 0 /\ s8[3]
       /\ d6[2] = 0 /\ d2[2] = 0                                       \* assert_eq!(t1_rem, 0), assert_eq!(t2_rem, 0)
       /\ FitsSigned(carryC1) /\ FitsSigned(carryC2) /\ FitsSigned(carryC3)
       /\ FitsSigned(carryC1a) /\ FitsSigned(carryC2a) /\ FitsSigned(carryC3a)
       /\ carry >= -1 /\ carry <= 1)

\* mul::multiply (c zero filled) and the public entry mul_large
Multiply(a, b) == LET r == MulDispatch(Zeros(Len(a) + Len(b)), 1, a, b) IN R(r.c, r.carry, r.ok /\ r.carry = 0)

\* ---------------------------------------------------------------- sqr/simple.rs
RECURSIVE SqrTri(_, _, _, _)
SqrTri(bw, a, k, c0) ==                      \* k-th word of a (0-based) times the words above it, at offset 2k + 1
  IF k = Len(a) THEN <<bw, c0>>
  ELSE LET rest == Sl(a, k + 1, Len(a))
           off == 2 * k + 1
           p == AddMulWordSameLen(Sl(bw, off, off + Len(rest)), a[k + 1], rest)
           t == bw[off + Len(rest) + 1] + p[2] + c0
           b1 == Put(Put(bw, off, p[1]), off + Len(rest), <<t % Beta>>)
       IN SqrTri(b1, a, k + 1, t \div Beta)
RECURSIVE SqrDiag(_, _, _, _, _)
SqrDiag(bw, a, k, c1, c2) ==
  IF k = Len(a) THEN <<bw, c1, c2>>
  ELSE LET m == a[k + 1]  b0 == bw[2 * k + 1]  b1 == bw[2 * k + 2]
           DW == Beta * Beta
           s == m * m + b0 + b0                                       \* mul_add_2carry(m, m, b0, b0): fits a double word
           wb1 == b1 * Beta
           u1 == s + wb1 + c1
           u2 == (u1 % DW) + wb1 + c2
       IN SqrDiag(Put(bw, 2 * k, <<(u2 % DW) % Beta, (u2 % DW) \div Beta>>), a, k + 1, u1 \div DW, u2 \div DW)
SqrSimpleAlg(a) ==
  LET t == SqrTri(Zeros(2 * Len(a)), a, 0, 0)
      d == SqrDiag(t[1], a, 0, 0, 0)
      top == d[1][2 * Len(a)] + t[2] + d[2] + d[3]
  IN R(Put(d[1], 2 * Len(a) - 1, <<top % Beta>>), 0, top < Beta)     \* `*b.last_mut() += c0 + c1 + c2` must not overflow
Sqr(a) == IF Len(a) <= SqrSimple THEN SqrSimpleAlg(a) ELSE Product(a, a)

\* ---------------------------------------------------------------- reference (independent of the code above)
\* column sums of the schoolbook product, carried with unbounded integers kept small by reducing per column
RECURSIVE RefCol(_, _, _, _, _)
ColSum(a, b, k) ==  \* sum of a[i] * b[j], i + j = k (0-based)
  LET lo == IF k - (Len(b) - 1) > 0 THEN k - (Len(b) - 1) ELSE 0
      hi == Min(k, Len(a) - 1)
      F[i \in (lo - 1)..hi] == IF i < lo THEN 0 ELSE F[i - 1] + a[i + 1] * b[k - i + 1]
  IN F[hi]
RefCol(a, b, k, carry, acc) ==
  IF k = Len(a) + Len(b) THEN <<acc, carry>>
  ELSE LET t == (IF k <= Len(a) + Len(b) - 2 THEN ColSum(a, b, k) ELSE 0) + carry
       IN RefCol(a, b, k + 1, t \div Beta, Append(acc, t % Beta))
RefMul(a, b) == RefCol(a, b, 0, 0, <<>>)[1]
\* c + sign * p over Len(c) words: <<words, carry>>
RefAcc(c, sign, p) == AddSigned(c, sign, p)

\* ---------------------------------------------------------------- operand universe
\* blocks: a length-n operand is made of up to three blocks, each from a small alphabet of word patterns
BlockKinds == {"zero", "max", "one", "top", "alt", "rnd"}
Lcg(x) == (x * 1103 + 12345) % 65536
RECURSIVE RndWords(_, _)
RndWords(seed, n) == IF n = 0 THEN <<>> ELSE <<(seed \div 16) % Beta>> \o RndWords(Lcg(seed), n - 1)
Block(kind, n, seed) ==
  CASE kind = "zero" -> Zeros(n)
    [] kind = "max"  -> [i \in 1..n |-> MaxW]
    [] kind = "one"  -> [i \in 1..n |-> IF i = 1 THEN 1 ELSE 0]
    [] kind = "top"  -> [i \in 1..n |-> IF i = n THEN Beta \div 2 ELSE 0]
    [] kind = "alt"  -> [i \in 1..n |-> IF i % 2 = 1 THEN MaxW ELSE 0]
    [] kind = "rnd"  -> RndWords(Lcg(seed + 7 * n), n)
Operand(n, parts, k1, k2, k3, seed) ==
  LET p == (n + parts - 1) \div parts IN
  IF parts = 1 \/ n < 3 THEN Block(k1, n, seed)
  ELSE IF parts = 2 THEN Block(k1, p, seed) \o Block(k2, n - p, seed + 1)
  ELSE Block(k1, p, seed) \o Block(k2, Min(p, n - p), seed + 1) \o Block(k3, n - p - Min(p, n - p), seed + 2)

VARIABLES a, b, cin, sign, phase
vars == <<a, b, cin, sign, phase>>
AllWords(n) == [1..n -> 0..MaxW]
CONSTANTS ExhBits,     \* lengths with n * W <= ExhBits are enumerated exhaustively, the others by blocks
          Kinds,       \* the block alphabet used (a subset of BlockKinds)
          Seeds        \* seeds of the pseudo-random block
OperandsOf(n) ==
  IF n * W <= ExhBits THEN AllWords(n)
  ELSE {Operand(n, parts, k1, k2, k3, sd) : parts \in {2, 3}, k1 \in Kinds, k2 \in Kinds, k3 \in Kinds, sd \in Seeds}
\* the shape and the first operand are chosen in Init so that TLC's workers share the exploration
Init == /\ phase = "pick" /\ cin = <<>> /\ sign = 1
        /\ \E sh \in Shapes : a \in OperandsOf(sh[1]) /\ b = Zeros(sh[2])
PickMul == /\ phase = "pick"
           /\ b' \in OperandsOf(Len(b))
           /\ cin' \in {Zeros(Len(a) + Len(b)), [i \in 1..(Len(a) + Len(b)) |-> MaxW], Block("rnd", Len(a) + Len(b), 5)}
           /\ sign' \in {1, -1}
           /\ phase' = "mul" /\ UNCHANGED a
Next == PickMul
Spec == Init /\ [][Next]_vars

\* ---- invariants
\* c += sign * a * b, any c: words and carry are those of the reference
AddSignedMulOK == phase = "mul" =>
  LET r == MulDispatch(cin, sign, a, b)
      ref == RefAcc(cin, sign, RefMul(a, b))
  IN r.ok /\ r.c = ref[1] /\ r.carry = ref[2]
\* mul::multiply: zero c, positive: no carry
MultiplyOK == phase = "mul" /\ sign = 1 /\ cin = Zeros(Len(cin)) =>
  LET r == Multiply(a, b) IN r.ok /\ r.c = RefMul(a, b)
\* squaring (sqr::sqr is used for len >= 2)
SqrOK == phase = "mul" /\ sign = 1 /\ cin = Zeros(Len(cin)) /\ Len(a) >= 2 =>
  LET r == Sqr(a) IN r.ok /\ r.c = RefMul(a, a)
\* the reference itself against integer arithmetic where it fits TLC's integers
RECURSIVE ValOf(_)
ValOf(ws) == IF ws = <<>> THEN 0 ELSE ws[1] + Beta * ValOf(Tail(ws))
RefOK == phase = "mul" /\ (Len(a) + Len(b)) * W <= 30 => ValOf(RefMul(a, b)) = ValOf(a) * ValOf(b)
=============================================================================
