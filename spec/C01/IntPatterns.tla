----------------------------- MODULE IntPatterns -----------------------------
(* Operand partition shared by the integer generators: magnitudes of an exact length in
   8-byte words, by bit pattern.  The patterns are the ones that maximise carries, borrows
   and zero words in the word-level algorithms of the library. *)
EXTENDS BigInt

Patterns == <<"dense", "ones", "pow2", "pow2m1", "lowzero", "alt", "pow2p1", "dense2", "hilo">>
NPat == Len(Patterns)
Lcg8(i, salt) == ((((i + salt * 31) % 4093) * 1277 + 911 * (salt % 1000) + 13) % 4099) % 256

\* magnitude of exactly nw words (8 * nw bytes, top byte non-zero), nw >= 1
PatBytes(pat, nw, salt) ==
  LET n == 8 * nw IN
  CASE pat = "dense"   -> [i \in 1..n |-> IF i = n THEN 128 + (Lcg8(i, salt) % 128) ELSE Lcg8(i, salt)]
    [] pat = "dense2"  -> [i \in 1..n |-> IF i = n THEN 1 + (Lcg8(i, salt + 7) % 255) ELSE Lcg8(i * 3, salt + 7)]
    [] pat = "ones"    -> [i \in 1..n |-> 255]
    [] pat = "pow2"    -> [i \in 1..n |-> IF i = n THEN Pow2Small(salt % 8) ELSE 0]
    [] pat = "pow2m1"  -> [i \in 1..n |-> IF i = n THEN Pow2Small(1 + (salt % 7)) - 1 ELSE 255]
    [] pat = "lowzero" -> [i \in 1..n |-> IF i > n - 3 THEN 1 + (Lcg8(i, salt) % 255) ELSE 0]
    [] pat = "alt"     -> [i \in 1..n |-> IF ((i - 1) \div 8) % 2 = 0 THEN 255 ELSE (IF i = n THEN 1 ELSE 0)]
    \* top bit only, zero upper part, all-ones lower part: the worst case of quotient-digit estimation from the top words
    [] pat = "hilo"    -> LET cut == 8 * ((nw \div 2) + (salt % 3)) IN
                          [i \in 1..n |-> IF i = n THEN 128 ELSE IF i <= cut THEN 255 ELSE 0]
    [] pat = "pow2p1"  -> [i \in 1..n |-> IF i = n THEN 1 ELSE IF i = 1 THEN 1 + (salt % 2) ELSE 0]

Mag(pat, nw, salt) == IF nw = 0 THEN <<>> ELSE PatBytes(pat, nw, salt)
=============================================================================
