----------------------------- MODULE IntAddAlg -----------------------------
(* Algorithm layer of C01 for + and -: integer/src/add_ops.rs transcribed at word level.

   A magnitude is either Small (an inline double word) or Large (a buffer of >= 3 words, least
   significant first).  Word size is W bits (CONSTANT), so every representation switch
   (1 word / 2 words inline / >= 3 words on the heap) and every carry or borrow that grows or
   shrinks the word count is reachable with tiny numbers.  One operator per Rust function:
     add_dword, add_large_dword, add_large, sub_dword (unsigned: panics below zero),
     sub_large_dword, sub_large, sub_large_ref_val, the four ownership variants of Add / Sub /
     SubSigned (which differ in WHICH buffer is reused), Repr::from_buffer (normalisation),
     and the sign tables impl_ibig_add / impl_ibig_sub.
   TLC checks for every operand pair below MaxV, every ownership variant and both operators that
   the result is the mathematical sum / difference (or a panic exactly for an unsigned
   difference below zero) in canonical form. *)
EXTENDS Integers, Sequences, TLC
CONSTANTS W, MaxV

Beta == 2^W                          \* word base
DW == Beta * Beta                    \* double word base
\* ---- representation ----
RECURSIVE WordsOf(_)
WordsOf(v) == IF v = 0 THEN <<>> ELSE <<v % Beta>> \o WordsOf(v \div Beta)
RECURSIVE ValOf(_)
ValOf(ws) == IF ws = <<>> THEN 0 ELSE ws[1] + Beta * ValOf(Tail(ws))
Small(v) == [t |-> "S", v |-> v, neg |-> FALSE]
Large(ws) == [t |-> "L", ws |-> ws, neg |-> FALSE]
Typed(v) == IF v < DW THEN Small(v) ELSE Large(WordsOf(v))
Mag(r) == IF r.t = "S" THEN r.v ELSE ValOf(r.ws)
Value(r) == IF r.t = "P" THEN 0 ELSE IF r.neg THEN -Mag(r) ELSE Mag(r)
Panic == [t |-> "P"]
\* Repr::from_buffer: pop high zero words, go inline when at most two words remain
RECURSIVE PopZeros(_)
PopZeros(ws) == IF ws # <<>> /\ ws[Len(ws)] = 0 THEN PopZeros(SubSeq(ws, 1, Len(ws) - 1)) ELSE ws
FromBuffer(ws) == LET n == PopZeros(ws) IN IF Len(n) <= 2 THEN Small(ValOf(n)) ELSE Large(n)
Canonical(r) == r.t = "P" \/ (r.t = "S" /\ r.v < DW /\ (r.v = 0 => ~r.neg))
                          \/ (r.t = "L" /\ Len(r.ws) >= 3 /\ r.ws[Len(r.ws)] # 0 /\ \A i \in 1..Len(r.ws) : r.ws[i] \in 0..(Beta - 1))
NegR(r) == IF r.t = "P" THEN r ELSE IF Mag(r) = 0 THEN r ELSE [r EXCEPT !.neg = ~r.neg]      \* Repr::neg keeps zero positive
WithSign(r, neg) == IF r.t = "P" THEN r ELSE IF Mag(r) = 0 THEN [r EXCEPT !.neg = FALSE] ELSE [r EXCEPT !.neg = neg]

\* ---- word-level primitives of add.rs: <<words, carry/borrow flag>> ----
RECURSIVE AddSameLen(_, _, _)
AddSameLen(x, y, c) == IF x = <<>> THEN <<(<<>>), c>>
                       ELSE LET t == x[1] + y[1] + c  r == AddSameLen(Tail(x), Tail(y), t \div Beta)
                            IN <<(<<t % Beta>> \o r[1]), r[2]>>
RECURSIVE AddOne(_, _)
AddOne(x, c) == IF x = <<>> THEN <<(<<>>), c>>
                ELSE LET t == x[1] + c  r == AddOne(Tail(x), t \div Beta) IN <<(<<t % Beta>> \o r[1]), r[2]>>
RECURSIVE SubSameLen(_, _, _)
SubSameLen(x, y, b) == IF x = <<>> THEN <<(<<>>), b>>
                       ELSE LET t == x[1] - y[1] - b  r == SubSameLen(Tail(x), Tail(y), IF t < 0 THEN 1 ELSE 0)
                            IN <<(<<t % Beta>> \o r[1]), r[2]>>
RECURSIVE SubOne(_, _)
SubOne(x, b) == IF x = <<>> THEN <<(<<>>), b>>
                ELSE LET t == x[1] - b  r == SubOne(Tail(x), IF t < 0 THEN 1 ELSE 0) IN <<(<<t % Beta>> \o r[1]), r[2]>>
Lo(ws, n) == SubSeq(ws, 1, n)
Hi(ws, n) == SubSeq(ws, n + 1, Len(ws))
DwordWords(d) == <<d % Beta, d \div Beta>>
\* add_dword_in_place / sub_dword_in_place on a buffer of >= 3 words
AddDwordInPlace(ws, d) == LET a == AddSameLen(Lo(ws, 2), DwordWords(d), 0)  t == AddOne(Hi(ws, 2), a[2]) IN <<a[1] \o t[1], t[2]>>
SubDwordInPlace(ws, d) == LET a == SubSameLen(Lo(ws, 2), DwordWords(d), 0)  t == SubOne(Hi(ws, 2), a[2]) IN <<a[1] \o t[1], t[2]>>
\* sub_in_place(lhs, rhs), len(lhs) >= len(rhs): <<words, borrow>>
SubInPlace(l, r) == LET n == Len(r)  a == SubSameLen(Lo(l, n), r, 0)  t == SubOne(Hi(l, n), a[2]) IN <<a[1] \o t[1], t[2]>>
\* sub_in_place_with_sign(lhs, rhs), len(lhs) >= len(rhs): |lhs - rhs| in lhs, sign of the difference
SubInPlaceWithSign(l, r) ==
  LET lv == ValOf(l)  rv == ValOf(r)
      d == IF lv >= rv THEN lv - rv ELSE rv - lv
      ws == WordsOf(d)
  IN <<ws \o [i \in 1..(Len(l) - Len(ws)) |-> 0], lv < rv>>      \* same length as lhs, high words zero

\* ---- unsigned layer (mod repr) ----
AddDword(a, b) == IF a + b >= DW THEN FromBuffer(DwordWords((a + b) % DW) \o <<1>>) ELSE Small(a + b)
AddLargeDword(buf, d) == LET r == AddDwordInPlace(buf, d) IN FromBuffer(IF r[2] = 1 THEN r[1] \o <<1>> ELSE r[1])
AddLarge(buf, rhs) ==
  LET n == IF Len(buf) < Len(rhs) THEN Len(buf) ELSE Len(rhs)
      a == AddSameLen(Lo(buf, n), Lo(rhs, n), 0)
      ext == a[1] \o Hi(buf, n) \o Hi(rhs, n)                       \* one of the two tails is empty
      t == AddOne(Hi(ext, n), a[2])
  IN FromBuffer(IF t[2] = 1 THEN Lo(ext, n) \o t[1] \o <<1>> ELSE Lo(ext, n) \o t[1])
UAdd(x, y, variant) ==
  CASE x.t = "S" /\ y.t = "S" -> AddDword(x.v, y.v)
    [] x.t = "S" /\ y.t = "L" -> AddLargeDword(y.ws, x.v)
    [] x.t = "L" /\ y.t = "S" -> AddLargeDword(x.ws, y.v)
    [] OTHER -> \* ref-ref and val-val reuse the longer buffer; ref-val always reuses the right-hand buffer
                IF variant = "rv" THEN AddLarge(y.ws, x.ws)
                ELSE IF variant = "vr" THEN AddLarge(x.ws, y.ws)
                ELSE IF Len(x.ws) >= Len(y.ws) THEN AddLarge(x.ws, y.ws) ELSE AddLarge(y.ws, x.ws)
USubDword(a, b) == IF a >= b THEN Small(a - b) ELSE Panic
USubLargeDword(buf, d) == FromBuffer(SubDwordInPlace(buf, d)[1])
USubLarge(l, r) == IF Len(l) < Len(r) THEN Panic ELSE LET s == SubInPlace(l, r) IN IF s[2] = 1 THEN Panic ELSE FromBuffer(s[1])
\* lhs - rhs computed inside the rhs buffer (lhs by reference, rhs by value)
USubLargeRefVal(l, r) ==
  LET n == Len(r) IN
  IF Len(l) < n THEN Panic
  ELSE LET a == SubSameLen(Lo(l, n), r, 0)  t == SubOne(Hi(l, n), a[2])
       IN IF t[2] = 1 THEN Panic ELSE FromBuffer(a[1] \o t[1])
USub(x, y, variant) ==
  CASE x.t = "S" /\ y.t = "S" -> USubDword(x.v, y.v)
    [] x.t = "S" /\ y.t = "L" -> Panic
    [] x.t = "L" /\ y.t = "S" -> USubLargeDword(x.ws, y.v)
    [] OTHER -> IF variant = "rv" THEN USubLargeRefVal(x.ws, y.ws) ELSE USubLarge(x.ws, y.ws)

\* ---- signed layer (mod repr_signed) ----
SSubDword(a, b) == IF a >= b THEN Small(a - b) ELSE NegR(Small((DW - ((a - b) % DW)) % DW))     \* wrapping_neg of the wrapped difference
SSubLarge(l, r) ==
  IF Len(l) >= Len(r) THEN LET s == SubInPlaceWithSign(l, r) IN WithSign(FromBuffer(s[1]), s[2])
  ELSE WithSign(USubLargeRefVal(r, l), TRUE)
SubSigned(x, y, variant) ==
  CASE x.t = "S" /\ y.t = "S" -> SSubDword(x.v, y.v)
    [] x.t = "S" /\ y.t = "L" -> NegR(USubLargeDword(y.ws, x.v))
    [] x.t = "L" /\ y.t = "S" -> USubLargeDword(x.ws, y.v)
    [] OTHER -> IF variant = "rv" THEN NegR(SSubLarge(y.ws, x.ws))
                ELSE IF variant = "vr" THEN SSubLarge(x.ws, y.ws)
                ELSE IF Len(x.ws) >= Len(y.ws) THEN SSubLarge(x.ws, y.ws) ELSE NegR(SSubLarge(y.ws, x.ws))
\* impl_ibig_add / impl_ibig_sub on (sign, magnitude) pairs
IAddAlg(a, b, variant) ==
  LET x == Typed(IF a < 0 THEN -a ELSE a)  y == Typed(IF b < 0 THEN -b ELSE b) IN
  CASE a >= 0 /\ b >= 0 -> UAdd(x, y, variant)
    [] a >= 0 /\ b < 0  -> SubSigned(x, y, variant)
    [] a < 0 /\ b >= 0  -> SubSigned(y, x, variant)
    [] OTHER -> WithSign(UAdd(x, y, variant), TRUE)
ISubAlg(a, b, variant) ==
  LET x == Typed(IF a < 0 THEN -a ELSE a)  y == Typed(IF b < 0 THEN -b ELSE b) IN
  CASE a >= 0 /\ b >= 0 -> SubSigned(x, y, variant)
    [] a >= 0 /\ b < 0  -> UAdd(x, y, variant)
    [] a < 0 /\ b >= 0  -> WithSign(UAdd(x, y, variant), TRUE)
    [] OTHER -> SubSigned(y, x, variant)

Variants == {"rr", "rv", "vr", "vv"}
VARIABLES a, b, phase
vars == <<a, b, phase>>
Init == phase = "pick" /\ a \in -MaxV..MaxV /\ b = 0
Pick == phase = "pick" /\ phase' = "done" /\ b' \in -MaxV..MaxV /\ UNCHANGED a
Next == Pick
Spec == Init /\ [][Next]_vars

UnsignedOK == (phase = "done" /\ a >= 0 /\ b >= 0) => \A v \in Variants :
  /\ Value(UAdd(Typed(a), Typed(b), v)) = a + b /\ Canonical(UAdd(Typed(a), Typed(b), v))
  /\ LET d == USub(Typed(a), Typed(b), v) IN
       IF a < b THEN d.t = "P" ELSE d.t # "P" /\ Value(d) = a - b /\ Canonical(d)
SignedOK == phase = "done" => \A v \in Variants :
  /\ Value(IAddAlg(a, b, v)) = a + b /\ Canonical(IAddAlg(a, b, v)) /\ IAddAlg(a, b, v).t # "P"
  /\ Value(ISubAlg(a, b, v)) = a - b /\ Canonical(ISubAlg(a, b, v)) /\ ISubAlg(a, b, v).t # "P"
=============================================================================
