---------------------------- MODULE IntArithDef ----------------------------
(* Definition layer of C01: what the ring operations of UBig/IBig must return.
   The only formulas that can raise a C01 violation. *)
EXTENDS BigInt

\* the mathematical result of operation op on integers a, b (n: exponent of pow)
RingResult(op, a, b, n) ==
  CASE op = "add" -> IAdd(a, b)
    [] op = "sub" -> ISub(a, b)
    [] op = "mul" -> IMul(a, b)
    [] op = "sqr" -> IMul(a, a)
    [] op = "cubic" -> IMul(a, IMul(a, a))
    [] op = "pow" -> IPow(a, n)

\* an unsigned result type cannot hold a negative number: the call must panic instead of wrapping
MustPanic(res, exp) == res = "U" /\ exp.s = 1

\* outcome o = [k |-> "ok", v |-> int] or [k |-> "panic"] against the definition
OutcomeOK(res, exp, o) ==
  IF MustPanic(res, exp) THEN o.k = "panic"
  ELSE o.k = "ok" /\ IsInt(o.v) /\ IEq(o.v, exp)
=============================================================================
