---------------------------- MODULE IntArithDef ----------------------------
(* Definition layer of C01: what the ring operations of UBig/IBig must return.
   The only formulas that can raise a C01 violation. *)
EXTENDS BigInt

\* the mathematical result of operation op on integers a, b (n: exponent of pow)
RingResult(op, a, b, n) ==
  CASE op = "add" -> IAdd(a, b)
    [] op = "sub" -> ISub(a, b)
    [] op = "mul" -> IMul(a, b)
    [] op = "sqr" -> IMul(a, a)
    [] op = "cubic" -> IMul(a, IMul(a, a))
    [] op = "pow" -> IPow(a, n)

\* an unsigned result type cannot hold a negative number: the call must panic instead of wrapping
MustPanic(res, exp) == res = "U" /\ exp.s = 1

(* Products of very long operands (the code switches to chunked multiplication above 1024 words) are not recomputed:
   TLC would need hours for one of them.  They are checked through consequences of c = a * b that cost one pass over
   the limbs each: the sign, the length (len a + len b or one less, in limbs), and the residues modulo eight primes
   below 2^15.  Every one of these is implied by the definition, so a failure is a violation; agreement on all of them
   is not a proof (an error that is a multiple of the product of the primes, about 2^120, would pass). *)
HugeLimbPairs == 4000000
Primes == <<32749, 32719, 32717, 32713, 32707, 32693, 32687, 32653>>
IsHuge(op, a, b) == op \in {"mul", "sqr"} /\ Len(a.m) * Len(IF op = "sqr" THEN a.m ELSE b.m) > HugeLimbPairs
HugeProductOK(a, b, v) ==
  /\ IsInt(v)
  /\ IF a.m = <<>> \/ b.m = <<>> THEN v.m = <<>>
     ELSE /\ v.s = (IF a.s = b.s THEN 0 ELSE 1)
          /\ Len(v.m) \in {Len(a.m) + Len(b.m) - 1, Len(a.m) + Len(b.m)}
          /\ \A i \in 1..Len(Primes) : Residue(v.m, Primes[i]) = (Residue(a.m, Primes[i]) * Residue(b.m, Primes[i])) % Primes[i]
HugeOutcomeOK(res, op, a, b, o) ==
  LET bb == IF op = "sqr" THEN a ELSE b
      neg == a.m # <<>> /\ bb.m # <<>> /\ a.s # bb.s
  IN IF res = "U" /\ neg THEN o.k = "panic" ELSE o.k = "ok" /\ HugeProductOK(a, bb, o.v)

\* outcome o = [k |-> "ok", v |-> int] or [k |-> "panic"] against the definition
OutcomeOK(res, exp, o) ==
  IF MustPanic(res, exp) THEN o.k = "panic"
  ELSE o.k = "ok" /\ IsInt(o.v) /\ IEq(o.v, exp)
=============================================================================
