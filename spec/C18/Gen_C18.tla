------------------------------ MODULE Gen_C18 ------------------------------
(* Behaviour generator of C18: one case per state, in the wire format of the trace events.

   grp "small": every state of the algorithm-layer model's scope - operation x operands:
        simplest_in / is_simpler_than on all pairs of fractions (denominators 1..NG, numerators
        -2NG..2NG: equal, swapped, negative, straddling, integer and zero endpoints all occur),
        next_up / next_down / nearest on all fractions x limits 1..NG.
   grp "ieee": a mini-float lattice lifted to f32 and f64: mantissa patterns (top bits x all-zero /
        all-one / 1 low bits: powers of two, odd and even last bits) x exponent classes
        (subnormal, smallest normal, around 1, around the point where the last place becomes an
        integer (2^23, 2^24, 2^25 / 2^52 ...), huge, largest finite) x sign, plus zero, infinities, NaN.
   grp "fbig": every significand with at most P digits, P <= PMax, in bases 2, 10 (and 16 up to 2
        digits), exponents -EX..EX, six rounding modes, both signs, plus zero, infinity, unlimited
        precision.  (Seed is unused: the partition is exhaustive.) *)
EXTENDS BigInt, Json
CONSTANTS NG, PMax, P16, EX, Seed      \* P16: digits in base 16

NAbs(x) == IF x < 0 THEN -x ELSE x
RECURSIVE NGcdP(_, _)
NGcdP(a, b) == IF b = 0 THEN a ELSE NGcdP(b, a % b)
NGcd(a, b) == NGcdP(NAbs(a), NAbs(b))
Fracs == {f \in (-2*NG..2*NG) \X (1..NG) : NGcd(f[1], f[2]) = 1}
RECURSIVE NPow(_, _)
NPow(a, n) == IF n = 0 THEN 1 ELSE a * NPow(a, n - 1)
Modes == {"Zero", "Away", "Up", "Down", "HalfEven", "HalfAway"}

QOps == {"simplest_in", "is_simpler_than"}
LOps == {"next_up", "next_down", "nearest"}
\* f32 / f64 exponent classes (biased exponents)
BeClasses(fmt) == IF fmt = "f32" THEN {0, 1, 2, 100, 126, 127, 128, 140, 149, 150, 151, 152, 153, 160, 200, 253, 254}
                  ELSE {0, 1, 2, 500, 1022, 1023, 1024, 1060, 1074, 1075, 1076, 1077, 1078, 1100, 1500, 2045, 2046}
\* mantissa patterns: top three bits x low pattern
Tops == 0..7
Lows == {"zeros", "ones", "one", "ones0"}

VARIABLES phase, grp, op, x, y, lim, fmt, be, top, low, sg, base, prec, sig, ex, mode
vars == <<phase, grp, op, x, y, lim, fmt, be, top, low, sg, base, prec, sig, ex, mode>>
Z2 == <<0, 1>>
Defaults == /\ y = Z2 /\ lim = 1 /\ be = 0 /\ top = 0 /\ low = "zeros" /\ sg = 0 /\ prec = 1 /\ sig = 0 /\ ex = 0
            /\ mode = "HalfEven"
Init == /\ phase = "pick" /\ Defaults
        /\ \/ grp = "small" /\ op \in QOps \cup LOps /\ x \in Fracs /\ fmt = "f32" /\ base = 2
           \/ grp = "ieee" /\ op = "ieee" /\ x = Z2 /\ fmt \in {"f32", "f64"} /\ base = 2
           \/ grp = "fbig" /\ op = "simplest_from_float" /\ x = Z2 /\ fmt = "f32" /\ base \in {2, 10, 16}
MaxDigits(b) == IF b = 16 THEN P16 ELSE PMax
Pick ==
  /\ phase = "pick" /\ phase' = "done"
  /\ CASE grp = "small" ->
            /\ y' \in (IF op \in QOps THEN Fracs ELSE {Z2})
            /\ lim' \in (IF op \in LOps THEN 1..NG ELSE {1})
            /\ UNCHANGED <<be, top, low, sg, prec, sig, ex, mode>>
       [] grp = "ieee" ->
            /\ be' \in BeClasses(fmt) \cup {IF fmt = "f32" THEN 255 ELSE 2047}
            /\ top' \in Tops /\ low' \in Lows /\ sg' \in {0, 1}
            /\ UNCHANGED <<y, lim, prec, sig, ex, mode>>
       [] grp = "fbig" ->
            /\ prec' \in 0..MaxDigits(base)
            /\ sig' \in 0..(NPow(base, MaxDigits(base)) - 1)
            /\ ex' \in 0..(2 * EX) /\ mode' \in Modes /\ sg' \in {0, 1, 2}         \* 2: infinity
            /\ UNCHANGED <<y, lim, be, top, low>>
  /\ UNCHANGED <<grp, op, x, fmt, base>>
Next == Pick
Spec == Init /\ [][Next]_vars

\* ------------------------------------------------------------------ case records
WQ(f) == [num |-> IFromNative(f[1]), den |-> IFromNative(f[2])]
FlZero == [fmt |-> "f32", sg |-> 0, be |-> 0, mf |-> <<0, 0>>]
FZero == [sig |-> IZero, exp |-> 0, inf |-> 0, prec |-> 1]
Base0 == [a |-> WQ(Z2), b |-> WQ(Z2), lim |-> IZero, fl |-> FlZero, f |-> FZero, base |-> 2, mode |-> "HalfEven"]

SmallCase == [Base0 EXCEPT !.a = WQ(x), !.b = WQ(y), !.lim = IFromNative(lim)] @@ [op |-> op, from |-> "small"]

\* mantissa field of nf 16-bit fields: top three bits | low pattern
LowField(i, nf, topbits) ==
  \* value of field i (1 = least significant) of the mantissa field
  LET full == 65535
      lowv == CASE low = "zeros" -> 0 [] low = "ones" -> full [] low = "one" -> (IF i = 1 THEN 1 ELSE 0)
                [] low = "ones0" -> (IF i = 1 THEN full - 1 ELSE full)
  IN IF i < nf THEN lowv
     ELSE \* most significant field holds `topbits` bits: the three top bits of the mantissa, then the low pattern
          LET width == topbits
              lowpart == lowv % NPow(2, width - 3)
          IN top * NPow(2, width - 3) + lowpart
IeeeCase ==
  LET nf == IF fmt = "f32" THEN 2 ELSE 4
      tb == IF fmt = "f32" THEN 7 ELSE 4           \* bits of the mantissa in the top field
      topf == IF fmt = "f64" THEN (top \div 1) % 16 ELSE 0
      mf == [i \in 1..nf |-> IF fmt = "f64" /\ i = nf
                             THEN top * 2 + (IF low \in {"ones", "ones0"} THEN 1 ELSE 0)      \* 4 bits: top three + one low bit
                             ELSE LowField(i, nf, tb)]
  IN [Base0 EXCEPT !.fl = [fmt |-> fmt, sg |-> sg, be |-> be, mf |-> mf]]
     @@ [op |-> IF fmt = "f32" THEN "simplest_from_f32" ELSE "simplest_from_f64", from |-> "ieee"]

FbigCase ==
  LET s == IF sg = 1 THEN -sig ELSE sig
  IN [Base0 EXCEPT !.f = [sig |-> IFromNative(s), exp |-> ex - EX, inf |-> IF sg = 2 THEN 1 ELSE 0, prec |-> prec],
                   !.base = base, !.mode = mode]
     @@ [op |-> "simplest_from_float", from |-> "fbig"]
\* only significands that fit the precision (precision 0 = unlimited: any), one infinity per mode
FbigWanted ==
  /\ (prec > 0 => sig < NPow(base, prec))
  /\ (sg = 2 => sig = 0 /\ ex = 0 /\ prec = 1)
  /\ (sig = 0 => ex = 0 /\ sg # 1)
  /\ (prec = 0 => sig < base /\ ex \in {0, 2 * EX})

Case == CASE grp = "small" -> SmallCase [] grp = "ieee" -> IeeeCase [] grp = "fbig" -> FbigCase
Emit == (phase = "done" /\ (grp = "fbig" => FbigWanted)) => PrintT(<<"GEN", ToJson(Case)>>)
=============================================================================
