SPECIFICATION Spec
INVARIANT Emit
CONSTANTS
  NG = 6
  PMax = 2
  P16 = 1
  EX = 2
  Seed = 0
CHECK_DEADLOCK FALSE
