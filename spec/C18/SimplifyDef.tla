---------------------------- MODULE SimplifyDef ----------------------------
(* Definition layer of C18, statement level, on native integers (small scope).

   A fraction is a pair <<n, d>>, d >= 1, in lowest terms.  Every definition below quantifies over
   ALL denominators up to a bound ("brute force"): for a denominator d the fractions n/d inside an
   interval are found arithmetically (the least integer above lo*d), which enumerates exactly the
   fractions of that denominator without a numerator bound.

   These are the formulas the algorithm-layer model (Simplify.tla) is checked against, and against
   which the arbitrary-precision characterisations used by the trace monitor (SimplifyChar.tla)
   are validated in the same model-checking run. *)
EXTENDS Integers, Sequences, FiniteSets, TLC

DAbs(x) == IF x < 0 THEN -x ELSE x
RECURSIVE DGcdP(_, _)
DGcdP(a, b) == IF b = 0 THEN a ELSE DGcdP(b, a % b)
DGcd(a, b) == DGcdP(DAbs(a), DAbs(b))
Lowest(f) == f[2] >= 1 /\ DGcd(f[1], f[2]) = 1
FLt(f, g) == f[1] * g[2] < g[1] * f[2]
FLe(f, g) == f[1] * g[2] <= g[1] * f[2]
FEq(f, g) == f[1] * g[2] = g[1] * f[2]
FNeg(f) == <<-f[1], f[2]>>
FMin(f, g) == IF FLt(g, f) THEN g ELSE f
FMax(f, g) == IF FLt(g, f) THEN f ELSE g
\* floor(f * d) for an integer d >= 1
FloorMul(f, d) == (f[1] * d) \div f[2]

(* documented order of `is_simpler_than`: smaller denominator first, then smaller numerator
   magnitude, then positive before negative *)
SimplerDef(f, g) == \/ f[2] < g[2]
                    \/ f[2] = g[2] /\ DAbs(f[1]) < DAbs(g[1])
                    \/ f[2] = g[2] /\ DAbs(f[1]) = DAbs(g[1]) /\ f[1] > 0 /\ g[1] < 0

(* An interval [lo, hi, il, ih]: endpoints lo <= hi, inclusive flags. *)
Ival(lo, hi, il, ih) == [lo |-> lo, hi |-> hi, il |-> il, ih |-> ih]
InIval(f, J) == /\ (IF J.il THEN FLe(J.lo, f) ELSE FLt(J.lo, f))
                /\ (IF J.ih THEN FLe(f, J.hi) ELSE FLt(f, J.hi))
\* the integers n with n/d in J form a range; least and greatest of them
LeastNum(d, J) == LET x == FloorMul(J.lo, d) IN
                  IF J.il /\ x * J.lo[2] = J.lo[1] * d THEN x ELSE x + 1
GreatestNum(d, J) == LET y == -FloorMul(FNeg(J.hi), d) IN            \* ceil(hi * d)
                     IF J.ih /\ y * J.hi[2] = J.hi[1] * d THEN y ELSE y - 1
SomeWithDen(d, J) == LeastNum(d, J) <= GreatestNum(d, J)
\* the numerator of least magnitude among the fractions n/d in J (exists)
LeastMagNum(d, J) == LET a == LeastNum(d, J) b == GreatestNum(d, J) IN
                     IF a <= 0 /\ 0 <= b THEN 0 ELSE IF a > 0 THEN a ELSE b

(* r is the simplest fraction of the interval J: it lies in J, no fraction of a smaller denominator
   lies in J, and no fraction of the same denominator and smaller numerator magnitude does. *)
IsSimplestInIval(r, J) ==
  /\ Lowest(r) /\ InIval(r, J)
  /\ \A d \in 1..(r[2] - 1) : ~SomeWithDen(d, J)
  /\ DAbs(LeastMagNum(r[2], J)) = DAbs(r[1])
  /\ (SomeWithDen(r[2], J) /\ InIval(<<DAbs(r[1]), r[2]>>, J) => r[1] >= 0)       \* positive before negative

\* simplest_in(l, u): the open interval between the endpoints in either order; equal endpoints
\* give that number back (documented)
IsSimplestIn(r, l, u) ==
  IF FEq(l, u) THEN r = l
  ELSE IsSimplestInIval(r, Ival(FMin(l, u), FMax(l, u), FALSE, FALSE))

(* Farey sequence of order L: all fractions with denominator <= L.  r is the element right above x. *)
NoneBetween(x, r, L) == \A d \in 1..L : ~SomeWithDen(d, Ival(FMin(x, r), FMax(x, r), FALSE, FALSE))
IsNextUp(r, x, L) == Lowest(r) /\ r[2] <= L /\ FLt(x, r) /\ NoneBetween(x, r, L)
IsNextDown(r, x, L) == Lowest(r) /\ r[2] <= L /\ FLt(r, x) /\ NoneBetween(x, r, L)
\* |f - x| <= |g - x|
CloserEq(f, g, x) ==
  LET df == DAbs(f[1] * x[2] - x[1] * f[2])      \* |f - x| * f.d * x.d
      dg == DAbs(g[1] * x[2] - x[1] * g[2])
  IN df * g[2] <= dg * f[2]
(* nearest(x, L) = (r, flag): x itself and "Exact" when its denominator fits; otherwise one of the
   two Farey neighbours, not farther than the other one (a tie may go either way), with
   flag = "Positive" when r > x and "Negative" when r < x. *)
IsNearest(r, flag, x, L) ==
  IF x[2] <= L THEN r = x /\ flag = "Exact"
  ELSE \/ IsNextUp(r, x, L) /\ flag = "Positive"
          /\ \A d \in 1..L : CloserEq(r, <<FloorMul(x, d), d>>, x)
       \/ IsNextDown(r, x, L) /\ flag = "Negative"
          /\ \A d \in 1..L : CloserEq(r, <<FloorMul(x, d) + 1, d>>, x)
=============================================================================
