---------------------------- MODULE SimplifyChar ----------------------------
(* Definition layer of C18 on arbitrary-size numbers (BigInt / Rat), used by the trace monitor.

   The statement quantifies over all fractions of an interval / of a Farey sequence; on big
   numbers that quantifier is decided with the classical Farey-neighbour argument instead of
   enumeration:

     * for a fraction p/q in lowest terms and L >= q, its predecessor in the Farey sequence F_L is
       a/b with b*p - a*q = 1 and L - q < b <= L (b is p^-1 mod q lifted to that window);
     * no fraction with denominator <= L lies strictly between x and r (x < r, r in F_L)
       iff pred_L(r) <= x;
     * p/q in an interval J (not containing 0) is the simplest fraction of J iff neither neighbour of
       p/q in F_(q-1) lies in J (then every fraction of J has denominator >= q, and the ones with
       denominator q and a smaller numerator are <= the lower neighbour).

   The modular inverse is computed here by Euclid on BigNat (an Assert guards b*p - a*q = 1, so a
   flaw of this module is a tool error, never a verdict).  MC_Simplify checks, for every case of
   its scope, that these characterisations accept exactly what the brute-force statement-level
   definitions of SimplifyDef accept. *)
EXTENDS FloatDef

\* ---------------------------------------------------------------- Farey neighbours
\* a^-1 mod q for BigNat 0 <= a < q, q >= 2, gcd(a, q) = 1; result in 1..q-1
InvMod(a, q) ==
  LET bound == 12 * (Len(q) + 1)
      st == FoldLeftDomain(LAMBDA acc, i :
                IF acc[2] = <<>> THEN acc
                ELSE LET qr == DivMod(acc[1], acc[2])
                     IN <<acc[2], qr[2], acc[4], ISub(acc[3], IMul(IFromNat(qr[1]), acc[4]))>>,
              <<q, a, IZero, IOne>>, Zeros(bound))
  IN IF st[2] = <<>> /\ st[1] = One THEN IFloorDivMod(st[3], q)[2].m
     ELSE Assert(FALSE, <<"SimplifyChar!InvMod: not coprime or bound exceeded", a, q>>)

\* predecessor of r = p/q (lowest terms, q >= 1, any sign) in F_L, L >= q (BigNat): a rational
PredIn(r, L) ==
  LET p == r.n  q == r.d IN
  IF q = One THEN Q(ISub(IMul(p, IFromNat(L)), IOne), L)
  ELSE LET pm == IFloorDivMod(p, q)[2].m
           b0 == InvMod(pm, q)
           k == Div(Sub(L, b0), q)
           b == Add(b0, Mul(k, q))
           t == ISub(IMul(IFromNat(b), p), IOne)                  \* = a*q
           a == ITruncDivMod(t, IFromNat(q))
       IN IF a[2].m = <<>> THEN Q(a[1], b)
          ELSE Assert(FALSE, <<"SimplifyChar!PredIn: b*p - 1 not divisible by q", r, L>>)
SuccIn(r, L) == QNeg(PredIn(QNeg(r), L))

Canon(r) == IsRat(r) /\ QCanonical(r)

\* ---------------------------------------------------------------- next_up / next_down / nearest
NextUpOK(x, L, r) == Canon(r) /\ Le(r.d, L) /\ QLt(x, r) /\ QLe(PredIn(r, L), x)
NextDownOK(x, L, r) == Canon(r) /\ Le(r.d, L) /\ QLt(r, x) /\ QLe(x, SuccIn(r, L))
\* nearest: see SimplifyDef!IsNearest (the denominator of x does not fit: x is not in F_L, so the
\* predecessor of an upper neighbour is the lower neighbour and vice versa)
NearestOK(x, L, r, flag) ==
  IF Le(x.d, L) THEN flag = "Exact" /\ QEq(r, x) /\ Canon(r)
  ELSE \/ /\ flag = "Positive" /\ NextUpOK(x, L, r)
          /\ QLe(QSub(r, x), QSub(x, PredIn(r, L)))
       \/ /\ flag = "Negative" /\ NextDownOK(x, L, r)
          /\ QLe(QSub(x, r), QSub(SuccIn(r, L), x))

\* ---------------------------------------------------------------- simplest fraction of an interval
QIval(lo, hi, il, ih) == [lo |-> lo, hi |-> hi, il |-> il, ih |-> ih]
InQIval(f, J) == /\ (IF J.il THEN QLe(J.lo, f) ELSE QLt(J.lo, f))
                 /\ (IF J.ih THEN QLe(f, J.hi) ELSE QLt(f, J.hi))
NegIval(J) == QIval(QNeg(J.hi), QNeg(J.lo), J.ih, J.il)
QPred1(r) == Q(ISub(r.n, IOne), r.d)
\* J: an interval of non-negative numbers, r > 0 in lowest terms
PosSimplestOK(r, J) ==
  /\ InQIval(r, J)
  /\ ~InQIval(QZero, J)
  /\ IF r.d = One THEN ~InQIval(QPred1(r), J)
     ELSE LET qm1 == Sub(r.d, One) IN ~InQIval(PredIn(r, qm1), J) /\ ~InQIval(SuccIn(r, qm1), J)
SimplestInIvalOK(r, J) ==
  /\ Canon(r)
  /\ IF InQIval(QZero, J) THEN QIsZero(r)
     ELSE IF QSign(r) > 0 THEN QSign(J.hi) > 0 /\ PosSimplestOK(r, J)
     ELSE IF QSign(r) < 0 THEN QSign(J.lo) < 0 /\ PosSimplestOK(QNeg(r), NegIval(J))
     ELSE FALSE
\* simplest_in(l, u)
SimplestInOK(l, u, r) ==
  IF QEq(l, u) THEN QEq(r, l) /\ Canon(r)
  ELSE IF QLt(l, u) THEN SimplestInIvalOK(r, QIval(l, u, FALSE, FALSE))
  ELSE SimplestInIvalOK(r, QIval(u, l, FALSE, FALSE))

\* documented order of is_simpler_than on canonical fractions
SimplerOK(f, g) ==
  LET c == Cmp(f.d, g.d)  m == Cmp(f.n.m, g.n.m) IN
  \/ c < 0
  \/ c = 0 /\ m < 0
  \/ c = 0 /\ m = 0 /\ QSign(f) > 0 /\ QSign(g) < 0

\* ---------------------------------------------------------------- rounding interval of an IEEE float
(* fl = [fmt |-> "f32" | "f64", sg |-> 0 | 1, be |-> biased exponent, mf |-> <<16-bit fields of the
   mantissa field, least significant first>>].  Round-to-nearest, ties to even: the interval holds
   all reals that round to the float; its ends are the midpoints to the neighbouring floats and
   belong to it iff the mantissa is even. *)
MantBits(fmt) == IF fmt = "f32" THEN 23 ELSE 52
Bias(fmt) == IF fmt = "f32" THEN 127 ELSE 1023
MaxBe(fmt) == IF fmt = "f32" THEN 255 ELSE 2047
FieldNat(mf) == Norm(FoldLeft(LAMBDA acc, f : acc \o <<f % 256, f \div 256>>, <<>>, mf))
IsFiniteFl(fl) == fl.be < MaxBe(fl.fmt)
IsZeroFl(fl) == fl.be = 0 /\ FieldNat(fl.mf) = <<>>
\* m * 2^e as a rational (m BigNat, e native)
Scale2(m, e) == IF e >= 0 THEN Q(I(0, Shl(m, e)), One) ELSE Q(I(0, m), PowerOfTwo(-e))
\* interval of the magnitude of a finite non-zero float
FloatIval(fl) ==
  LET mb == MantBits(fl.fmt)
      M == FieldNat(fl.mf)
      m == IF fl.be = 0 THEN M ELSE Add(PowerOfTwo(mb), M)
      e == (IF fl.be = 0 THEN 1 ELSE fl.be) - Bias(fl.fmt) - mb
      even == Bit(m, 0) = 0
      \* below a power of two the spacing of the floats halves
      lowpow == fl.be > 1 /\ M = <<>>
      lo == IF lowpow THEN Scale2(Sub(Shl(m, 2), One), e - 2) ELSE Scale2(Sub(Shl(m, 1), One), e - 1)
      hi == Scale2(Add(Shl(m, 1), One), e - 1)
  IN QIval(lo, hi, even, even)
FloatValue(fl) ==
  LET mb == MantBits(fl.fmt)
      M == FieldNat(fl.mf)
      m == IF fl.be = 0 THEN M ELSE Add(PowerOfTwo(mb), M)
      e == (IF fl.be = 0 THEN 1 ELSE fl.be) - Bias(fl.fmt) - mb
      v == Scale2(m, e)
  IN IF fl.sg = 1 THEN QNeg(v) ELSE v
\* out = [some |-> 0 | 1, r |-> rational]
FromIeeeOK(fl, some, r) ==
  IF ~IsFiniteFl(fl) THEN some = 0
  ELSE IF some # 1 THEN FALSE
  ELSE IF IsZeroFl(fl) THEN QIsZero(r) /\ Canon(r)
  ELSE LET J == FloatIval(fl) IN
       SimplestInIvalOK(r, IF fl.sg = 1 THEN NegIval(J) ELSE J)

\* ---------------------------------------------------------------- rounding interval of an FBig
(* f = sig * B^exp with precision prec >= 1 (at most prec digits), rounding mode `mode`: the set of
   reals that the mode rounds to f at prec digits.  Even bases only (a tie of the half modes is
   decided by the parity of the truncated significand).  Returns the interval of the magnitude
   and is mirrored for negative numbers. *)
PowB(B, k) == Pow(FromNat(B), k)
FbigIval(B, mode, prec, sig, exp) ==
  LET s == sig.m
      nd == NDigits(B, s)
      k == prec - nd
      m == Mul(s, PowB(B, k))                       \* prec-digit significand
      E == exp - k
      neg == sig.s = 1
      f == QMul(QFromInt(IFromNat(m)), QPowBase(B, E))
      up == QMul(QFromInt(IFromNat(Add(m, One))), QPowBase(B, E))
      ispow == m = PowB(B, prec - 1)
      down == IF ispow THEN QSub(f, QPowBase(B, E - 1)) ELSE QMul(QFromInt(IFromNat(Sub(m, One))), QPowBase(B, E))
      half == Q(IOne, <<2>>)
      midlo == QMul(QAdd(down, f), half)
      midhi == QMul(QAdd(f, up), half)
      meven == Bit(m, 0) = 0
      \* lower tie: the truncated candidate is `down`; it goes up to f iff its significand is odd
      lowtie == IF ispow THEN B % 2 = 0 ELSE meven
      towardzero == QIval(f, up, TRUE, FALSE)
      awayzero == QIval(down, f, FALSE, TRUE)
  IN CASE mode = "Zero" -> towardzero
       [] mode = "Away" -> awayzero
       [] mode = "Up" -> IF neg THEN towardzero ELSE awayzero
       [] mode = "Down" -> IF neg THEN awayzero ELSE towardzero
       [] mode = "HalfAway" -> QIval(midlo, midhi, TRUE, FALSE)
       [] mode = "HalfEven" -> QIval(midlo, midhi, lowtie, meven)
FbigValue(B, sig, exp) == QMul(QFromInt(sig), QPowBase(B, exp))
InScopeFbig(B, prec, sig) == B % 2 = 0 /\ (prec = 0 \/ sig.m = <<>> \/ NDigits(B, sig.m) <= prec)
\* f: [sig, exp, inf, prec]
FromFbigOK(B, mode, f, some, r) ==
  IF f.inf # 0 THEN some = 0
  ELSE IF some # 1 THEN FALSE
  ELSE IF f.sig.m = <<>> THEN QIsZero(r) /\ Canon(r)
  ELSE IF f.prec = 0 THEN QEq(r, FbigValue(B, f.sig, f.exp)) /\ Canon(r)
  ELSE LET J == FbigIval(B, mode, f.prec, f.sig, f.exp) IN
       SimplestInIvalOK(r, IF f.sig.s = 1 THEN NegIval(J) ELSE J)
=============================================================================
