------------------------------ MODULE Simplify ------------------------------
(* Algorithm layer of C18: rational/src/simplify.rs transcribed on native integers.

     Repr::simplest_in      continued-fraction descent on both endpoints        (SimplestInCode)
     RBig::farey_neighbors  mediant walk between 0/1 and +-1/1                  (FareyNeighbors)
     next_up / next_down    offset by 1/limit^2 when the denominator fits       (NextUpCode ...)
     nearest                comparison of the fractional part with the mediant  (NearestCode)
     is_simpler_than        the comparison chain                                (SimplerCode)
     simplest_from_f32/f64  interval f +- (1/2 of the last place of the Repr)   (FromFloatCode, on a mini-float)

   Every operation is one action (Init picks the operation and the first operand, Pick the other
   parameters, then the action computes the result of the model); the invariants compare the result
   with the brute-force definitions of SimplifyDef and validate the big-number characterisations of
   SimplifyChar on the same cases.

   Constants FixOrder / FixZero / FixLimit1 / FixBigFloat = FALSE model the pinned tree:
     F21  is_simpler_than is a conjunction (FixOrder) and a zero endpoint takes the sign "+"
          (FixZero: simplest_in(-1/2, 0) = 0);
     F22  next_up / next_down of an integer with limit 1 break the precondition of farey_neighbors
          (debug assertion; FixLimit1);
     F80  simplest_from_f32/f64 take +-1/2 of the Repr's last place as the rounding interval, which is
          too narrow when the binary exponent is positive (FixBigFloat). *)
EXTENDS SimplifyDef, SimplifyChar
CONSTANTS N,            \* endpoints / numbers: denominators 1..N, numerators -2N..2N; limits 1..N
          MB,           \* mini-float: mantissa bits (without the hidden bit)
          EMinNeg, EMax, \* mini-float: exponents -EMinNeg..EMax of the last place (TLC cfg files have no negative literals)
          OpsSel,       \* operations explored (all of Ops in the main run; one at a time in the re-finding runs)
          FixOrder, FixZero, FixLimit1, FixBigFloat

EMin == -EMinNeg
SAbs(x) == DAbs(x)
SSign(x) == IF x < 0 THEN -1 ELSE 1                    \* IBig::sign(): zero is positive
TDiv(a, b) == SSign(a) * SSign(b) * (SAbs(a) \div SAbs(b))
TRem(a, b) == a - b * TDiv(a, b)
Red(n, d) == IF n = 0 THEN <<0, 1>> ELSE LET g == DGcd(n, d) IN <<n \div g, d \div g>>
Fracs == {f \in (-2*N..2*N) \X (1..N) : DGcd(f[1], f[2]) = 1}
FAdd(f, g) == Red(f[1] * g[2] + g[1] * f[2], f[2] * g[2])
FAddInt(f, i) == <<f[1] + i * f[2], f[2]>>

\* ---------------------------------------------------------------- is_simpler_than
SimplerCode(f, g) ==
  IF FixOrder THEN SimplerDef(f, g)
  ELSE f[2] < g[2] /\ SAbs(f[1]) <= SAbs(g[1]) /\ (f[1] >= 0 /\ g[1] < 0)     \* sign(): Positive > Negative

\* ---------------------------------------------------------------- Repr::simplest_in
ESign(f, other) == IF FixZero /\ f[1] = 0 THEN SSign(other[1]) ELSE SSign(f[1])
RECURSIVE CfLoop(_, _, _, _, _, _, _, _, _)
\* returns <<num, den, steps>> or <<0, 0, -1>> when the fuel runs out
CfLoop(numl, denl, numr, denr, n0, d0, n1, d1, fuel) ==
  IF fuel = 0 THEN <<0, 0, -1>> ELSE
  LET q == TDiv(numl, denl)   r1 == TRem(numl, denl)
      nn1 == n1 + q * n0      nd1 == d1 + q * d0        \* then swapped with n0 / d0
      r2 == numr - q * denr
      nnuml == denr   ndenr == r1
      nnumr == denl   ndenl == r2
  IN IF nnuml < ndenl THEN <<nn1 + n0, nd1 + d0, 1>>
     ELSE LET rest == CfLoop(nnuml, ndenl, nnumr, ndenr, nn1, nd1, n0, d0, fuel - 1)
          IN <<rest[1], rest[2], IF rest[3] < 0 THEN -1 ELSE rest[3] + 1>>
\* result [r |-> fraction, steps |-> n]   (RBig::simplest_in reduces the Repr result)
SimplestInCode(lo, hi) ==
  IF ESign(lo, hi) # ESign(hi, lo) THEN [r |-> <<0, 1>>, steps |-> 0]
  ELSE LET sg == ESign(lo, hi)
           l == <<SAbs(lo[1]), lo[2]>>   u == <<SAbs(hi[1]), hi[2]>>
           a == IF FLt(u, l) THEN u ELSE l
           b == IF FLt(u, l) THEN l ELSE u
       IN IF l = u THEN [r |-> <<sg * l[1], l[2]>>, steps |-> 0]
          ELSE LET c == CfLoop(a[1], a[2], b[1], b[2], 1, 0, 0, 1, 8 * N + 8)
               IN [r |-> Red(sg * SAbs(c[1]), SAbs(c[2])), steps |-> c[3]]

\* ---------------------------------------------------------------- farey_neighbors
\* preconditions (debug assertions of the code)
FareyPre(x, L) == x[2] > L /\ x[1] # 0 /\ SAbs(x[1]) <= x[2]
RECURSIVE Walk(_, _, _, _, _)
Walk(left, right, x, L, fuel) ==
  IF fuel = 0 THEN <<left, right, -1>> ELSE
  LET raw == <<left[1] + right[1], left[2] + right[2]>>
      nxt == IF raw[2] > L THEN Red(raw[1], raw[2]) ELSE raw
  IN IF nxt[2] > L THEN <<left, right, 1>>
     ELSE LET rest == IF FLt(x, nxt) THEN Walk(left, nxt, x, L, fuel - 1) ELSE Walk(nxt, right, x, L, fuel - 1)
          IN <<rest[1], rest[2], IF rest[3] < 0 THEN -1 ELSE rest[3] + 1>>
FareyNeighbors(x, L) ==
  IF x[1] >= 0 THEN Walk(<<0, 1>>, <<1, 1>>, x, L, 4 * N + 8) ELSE Walk(<<-1, 1>>, <<0, 1>>, x, L, 4 * N + 8)

\* split_at_point: trunc toward zero, fraction keeps the denominator (zero is 0/1)
Trunc(x) == TDiv(x[1], x[2])
Fract(x) == LET r == TRem(x[1], x[2]) IN IF r = 0 THEN <<0, 1>> ELSE <<r, x[2]>>

\* outcome [k |-> "ok", r |-> fraction, flag |-> "" | "Exact" | "Positive" | "Negative", steps] or [k |-> "panic"]
OkR(r, flag, steps) == [k |-> "ok", r |-> r, flag |-> flag, steps |-> steps]
PanicR == [k |-> "panic", r |-> <<0, 1>>, flag |-> "", steps |-> 0]
\* dir = 1: next_up, dir = -1: next_down
NextCode(x, L, dir) ==
  LET fr == Fract(x)
      target == IF x[2] <= L THEN FAdd(fr, <<dir, L * L>>) ELSE fr
  IN IF x[2] <= L /\ L = 1 /\ FixLimit1 THEN OkR(FAddInt(x, dir), "", 0)        \* repaired: F_1 is the integers
     ELSE IF ~FareyPre(target, L) THEN PanicR                                 \* debug_assert!
     ELSE LET w == FareyNeighbors(target, L)
          IN OkR(FAddInt(IF dir = 1 THEN w[2] ELSE w[1], Trunc(x)), "", w[3])                \* IBig + RBig: no reduction
NearestCode(x, L) ==
  IF x[2] <= L THEN OkR(x, "Exact", 0)
  ELSE LET fr == Fract(x)
           w == FareyNeighbors(fr, L)
           s == FAdd(w[1], w[2])
           mid == <<s[1], 2 * s[2]>>
       IN IF ~FareyPre(fr, L) THEN PanicR
          ELSE IF FLt(mid, fr) THEN OkR(FAddInt(w[2], Trunc(x)), "Positive", w[3])
          ELSE OkR(FAddInt(w[1], Trunc(x)), "Negative", w[3])

\* ---------------------------------------------------------------- simplest_from_f32 / f64 on a mini-float
(* value m * 2^e, m in 1..2^(MB+1)-1: normal numbers have the hidden bit (m >= 2^MB) and any exponent
   EMin..EMax, subnormal ones exist only at EMin.  Repr::try_from(float) is m/2^-e or (m << e)/1. *)
RECURSIVE P2(_)
P2(k) == IF k = 0 THEN 1 ELSE 2 * P2(k - 1)
Hidden == P2(MB)
MiniFloats == {f \in (1..(2 * Hidden - 1)) \X (EMin..EMax) : f[1] >= Hidden \/ f[2] = EMin}

FromFloatCode(f, neg) ==
  LET m == f[1]  e == f[2]
      sg == IF neg THEN -1 ELSE 1
      est == IF e >= 0 THEN <<m * P2(e), 1>> ELSE <<m, P2(-e)>>       \* magnitude of Repr::try_from(f)
      \* pinned code: (2n +- 1)/(2d), i.e. half a unit of the last place OF THE REPR; written over 4d.
      \* repaired variant (FixBigFloat): half a unit of the last place of the float, a quarter below a power of two
      u == IF FixBigFloat /\ e > 0 THEN P2(e) ELSE 1
      lowpow == m = Hidden /\ e > EMin
      up == 2 * u
      down == IF FixBigFloat /\ lowpow THEN u ELSE 2 * u
      left == Red(sg * (4 * est[1] + up), 4 * est[2])
      right == Red(sg * (4 * est[1] - down), 4 * est[2])
      s0 == SimplestInCode(left, right).r
      s1 == IF m % 2 = 0 /\ SimplerCode(left, s0) THEN left ELSE s0
      s2 == IF m % 2 = 0 /\ SimplerCode(right, s1) THEN right ELSE s1
  IN s2
\* definition: round-to-nearest-even interval of the mini-float (cf. SimplifyChar!FloatIval)
MiniIval(f) ==
  LET m == f[1]  e == f[2]
      lowpow == m = Hidden /\ e > EMin
      \* (2m - 1) * 2^(e-1), or (4m - 1) * 2^(e-2) below a power of two; scaled to integers over 2^(2 - e + ...)
      sc == P2(2 + (IF e < 0 THEN -e ELSE 0))                 \* common denominator 2^2 * 2^max(0,-e)
      unit == IF e >= 0 THEN P2(e) ELSE 1                     \* 2^e * 2^max(0,-e)
      lo == IF lowpow THEN <<(4 * m - 1) * unit, sc>> ELSE <<(4 * m - 2) * unit, sc>>
      hi == <<(4 * m + 2) * unit, sc>>
  IN Ival(lo, hi, m % 2 = 0, m % 2 = 0)
MiniIvalSigned(f, neg) == LET J == MiniIval(f) IN
  IF neg THEN Ival(FNeg(J.hi), FNeg(J.lo), J.ih, J.il) ELSE J

\* ---------------------------------------------------------------- the machine
Ops == {"simplest_in", "next_up", "next_down", "nearest", "is_simpler_than", "from_float"}
VARIABLES pc, op, x, y, lim, res
vars == <<pc, op, x, y, lim, res>>
NoRes == OkR(<<0, 1>>, "", 0)

Init == /\ pc = "pick" /\ op \in Ops \cap OpsSel /\ y = <<0, 1>> /\ lim = 1 /\ res = NoRes
        /\ IF op = "from_float" THEN x \in MiniFloats ELSE x \in Fracs
Pick == /\ pc = "pick" /\ pc' = "run"
        /\ y' \in (IF op \in {"simplest_in", "is_simpler_than"} THEN Fracs
                   ELSE IF op = "from_float" THEN {<<0, 1>>, <<1, 1>>} ELSE {<<0, 1>>})   \* from_float: y[1] = 1: negative
        /\ lim' \in (IF op \in {"next_up", "next_down", "nearest"} THEN 1..N ELSE {1})
        /\ UNCHANGED <<op, x, res>>
Done(r) == pc = "run" /\ pc' = "done" /\ res' = r /\ UNCHANGED <<op, x, y, lim>>
SimplestInAct == op = "simplest_in" /\ LET c == SimplestInCode(x, y) IN Done(OkR(c.r, "", c.steps))
NextUpAct == op = "next_up" /\ Done(NextCode(x, lim, 1))
NextDownAct == op = "next_down" /\ Done(NextCode(x, lim, -1))
NearestAct == op = "nearest" /\ Done(NearestCode(x, lim))
SimplerAct == op = "is_simpler_than" /\ Done(OkR(<<0, 1>>, IF SimplerCode(x, y) THEN "true" ELSE "false", 0))
FromFloatAct == op = "from_float" /\ Done(OkR(FromFloatCode(x, y[1] = 1), "", 0))
Next == Pick \/ SimplestInAct \/ NextUpAct \/ NextDownAct \/ NearestAct \/ SimplerAct \/ FromFloatAct
Spec == Init /\ [][Next]_vars

\* ---------------------------------------------------------------- model vs statement-level definition
DefOK ==
  CASE op = "simplest_in" -> res.k = "ok" /\ IsSimplestIn(res.r, x, y)
    [] op = "next_up" -> res.k = "ok" /\ IsNextUp(res.r, x, lim)
    [] op = "next_down" -> res.k = "ok" /\ IsNextDown(res.r, x, lim)
    [] op = "nearest" -> res.k = "ok" /\ IsNearest(res.r, res.flag, x, lim)
    [] op = "is_simpler_than" -> (res.flag = "true") = SimplerDef(x, y)
    [] op = "from_float" -> IsSimplestInIval(res.r, MiniIvalSigned(x, y[1] = 1))
\* the open findings, with the predicates of findings/C18.json
Known_F21 == \/ ~FixOrder /\ op = "is_simpler_than"
             \/ ~FixZero /\ op = "simplest_in" /\ ((x[1] = 0 /\ y[1] < 0) \/ (y[1] = 0 /\ x[1] < 0))
Known_F22 == ~FixLimit1 /\ op \in {"next_up", "next_down"} /\ lim = 1 /\ x[2] = 1 /\ res.k = "panic"
Known_F80 == ~FixBigFloat /\ op = "from_float" /\ (x[2] >= 2 \/ (x[2] = 1 /\ x[1] % 2 = 0 /\ x[1] # Hidden))
Correct == pc = "done" => (DefOK \/ Known_F21 \/ Known_F22 \/ Known_F80)
\* without the Known_ disjuncts (re-finding runs of the check, one operation at a time)
Strict == pc = "done" => DefOK
NoRunaway == pc = "done" => res.steps >= 0

\* ---------------------------------------------------------------- SimplifyChar validated against SimplifyDef
NQ(f) == Q(IFromNative(f[1]), FromNat(f[2]))
\* candidates: the model's answer and perturbations of it (both directions of the equivalence are
\* exercised: accepted answers and rejected near misses)
Cands == LET r == res.r IN
         {c \in {r, <<r[1] + 1, r[2]>>, <<r[1] - 1, r[2]>>, <<r[1], r[2] + 1>>, <<r[1] + 1, r[2] + 1>>, x, FNeg(r),
                 <<0, 1>>, <<r[1] * 2, r[2] * 2>>, <<x[1] + y[1], x[2] + y[2]>>} : c[2] >= 1}
CharAgrees ==
  pc = "done" /\ res.k = "ok" =>
  CASE op = "simplest_in" -> \A c \in Cands : SimplestInOK(NQ(x), NQ(y), NQ(c)) <=> IsSimplestIn(c, x, y)
    [] op = "next_up" -> \A c \in Cands : NextUpOK(NQ(x), FromNat(lim), NQ(c)) <=> IsNextUp(c, x, lim)
    [] op = "next_down" -> \A c \in Cands : NextDownOK(NQ(x), FromNat(lim), NQ(c)) <=> IsNextDown(c, x, lim)
    [] op = "nearest" -> \A c \in Cands, fl \in {"Exact", "Positive", "Negative"} :
                            NearestOK(NQ(x), FromNat(lim), NQ(c), fl) <=> IsNearest(c, fl, x, lim)
    [] op = "is_simpler_than" -> SimplerOK(NQ(x), NQ(y)) <=> SimplerDef(x, y)
    [] op = "from_float" ->
         LET J == MiniIvalSigned(x, y[1] = 1)
             QI == QIval(NQ(J.lo), NQ(J.hi), J.il, J.ih)
         IN \A c \in Cands : SimplestInIvalOK(NQ(c), QI) <=> IsSimplestInIval(c, J)
=============================================================================
