SPECIFICATION Spec
INVARIANT Correct
INVARIANT NoRunaway
INVARIANT CharAgrees
CONSTANTS
  N = 14
  MB = 3
  EMinNeg = 6
  EMax = 5
  OpsSel = {"simplest_in", "next_up", "next_down", "nearest", "is_simpler_than", "from_float"}
  FixOrder = FALSE
  FixZero = FALSE
  FixLimit1 = FALSE
  FixBigFloat = FALSE
CHECK_DEADLOCK FALSE
