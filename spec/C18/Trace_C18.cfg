SPECIFICATION Spec
INVARIANT Verdict
POSTCONDITION Complete
CHECK_DEADLOCK FALSE
