----------------------------- MODULE Trace_C18 -----------------------------
(* Trace monitor of C18: every recorded call of simplest_in, next_up, next_down, nearest,
   is_simpler_than, simplest_from_f32 / f64 / float is checked against the definition layer
   SimplifyChar (Farey-neighbour characterisations on BigInt, validated against the brute-force
   statement-level definitions by MC_Simplify).  The monitor never blocks: failing events are
   recorded in `bad` with the violated clause.

   event: [op, a, b, lim, fl, f, base, mode, out]
     a, b   rationals [num, den]            (simplest_in: endpoints; next_*/nearest: a; is_simpler_than: a, b)
     lim    UBig limit                       fl  IEEE bit fields [fmt, sg, be, mf]
     f      FBig [sig, exp, inf, prec] in base `base` with rounding mode `mode`
     out    [k |-> "ok", v |-> [some, num, den, flag, bool]] | [k |-> "panic"] *)
EXTENDS SimplifyChar, Json, IOUtils
Rec == ndJsonDeserialize(IOEnv.TRACE)

WfQ(v) == IsInt(v.num) /\ IsInt(v.den) /\ v.den.s = 0 /\ v.den.m # <<>>
WireQ(v) == Q(v.num, v.den.m)
KnownOps == {"simplest_in", "next_up", "next_down", "nearest", "is_simpler_than",
             "simplest_from_f32", "simplest_from_f64", "simplest_from_float"}

\* diagnosis of a result against "the simplest fraction of the interval J"
OpenIval(J) == QIval(J.lo, J.hi, FALSE, FALSE)
IvalWhy(r, J) ==
  IF ~Canon(r) THEN "result-not-canonical"
  ELSE IF ~InQIval(r, J)
       THEN (IF (QEq(r, J.lo) /\ ~J.il) \/ (QEq(r, J.hi) /\ ~J.ih) THEN "excluded-endpoint-returned" ELSE "outside-interval")
  ELSE IF SimplestInIvalOK(r, J) THEN ""
  \* r is the simplest fraction of the interior, but an endpoint that belongs to the interval is simpler
  ELSE IF SimplestInIvalOK(r, OpenIval(J)) THEN "simpler-inclusive-endpoint-not-taken"
  ELSE "simpler-fraction-in-interval"
SimplestInWhy(l, u, r) ==
  IF QEq(l, u) THEN (IF QEq(r, l) /\ Canon(r) THEN "" ELSE "equal-endpoints-not-returned")
  ELSE IvalWhy(r, IF QLt(l, u) THEN QIval(l, u, FALSE, FALSE) ELSE QIval(u, l, FALSE, FALSE))
IeeeWhy(fl, v) ==
  IF ~IsFiniteFl(fl) THEN (IF v.some = 0 THEN "" ELSE "some-for-nan-or-infinity")
  ELSE IF v.some # 1 THEN "none-for-finite-float"
  ELSE IF IsZeroFl(fl) THEN (IF QIsZero(WireQ(v)) /\ Canon(WireQ(v)) THEN "" ELSE "nonzero-for-zero")
  ELSE LET J == FloatIval(fl) IN IvalWhy(WireQ(v), IF fl.sg = 1 THEN NegIval(J) ELSE J)
FbigWhy(B, mode, f, v) ==
  IF f.inf # 0 THEN (IF v.some = 0 THEN "" ELSE "some-for-nan-or-infinity")
  ELSE IF v.some # 1 THEN "none-for-finite-float"
  ELSE IF f.sig.m = <<>> THEN (IF QIsZero(WireQ(v)) /\ Canon(WireQ(v)) THEN "" ELSE "nonzero-for-zero")
  ELSE IF f.prec = 0 THEN (IF QEq(WireQ(v), FbigValue(B, f.sig, f.exp)) /\ Canon(WireQ(v)) THEN "" ELSE "inexact-for-unlimited-precision")
  ELSE LET J == FbigIval(B, mode, f.prec, f.sig, f.exp)           \* interval of the magnitude
           r == WireQ(v)
           w == IvalWhy(r, IF f.sig.s = 1 THEN NegIval(J) ELSE J)
           rm == QAbs(r)
           below == QLt(rm, J.lo) \/ (QEq(rm, J.lo) /\ ~J.il)
           \* the significand is a power of the base: the floats below f are spaced B times closer
           ispow == f.sig.m = PowB(B, NDigits(B, f.sig.m) - 1)
       IN IF w \in {"outside-interval", "excluded-endpoint-returned"} /\ ispow /\ below
          THEN "below-interval-at-power-of-base" ELSE w

Why(e) ==
  IF ~(e.op \in KnownOps) THEN "malformed-event"
  ELSE IF e.op \in {"next_up", "next_down", "nearest"} /\ (~IsInt(e.lim) \/ e.lim.m = <<>>) THEN ""    \* limit 0: outside the statement
  ELSE IF e.op = "simplest_from_float" /\ ~InScopeFbig(e.base, e.f.prec, e.f.sig) THEN ""          \* odd base / over-long significand
  ELSE IF e.out.k # "ok" THEN "unexpected-panic"
  ELSE LET v == e.out.v IN
       IF ~WfQ(v) THEN "malformed-result"
       ELSE CASE e.op = "simplest_in" ->
                   IF ~(WfQ(e.a) /\ WfQ(e.b)) THEN "malformed-event" ELSE SimplestInWhy(WireQ(e.a), WireQ(e.b), WireQ(v))
              [] e.op = "next_up" ->
                   IF ~WfQ(e.a) THEN "malformed-event"
                   ELSE IF NextUpOK(WireQ(e.a), e.lim.m, WireQ(v)) THEN "" ELSE "not-the-farey-successor"
              [] e.op = "next_down" ->
                   IF ~WfQ(e.a) THEN "malformed-event"
                   ELSE IF NextDownOK(WireQ(e.a), e.lim.m, WireQ(v)) THEN "" ELSE "not-the-farey-predecessor"
              [] e.op = "nearest" ->
                   IF ~WfQ(e.a) THEN "malformed-event"
                   ELSE IF NearestOK(WireQ(e.a), e.lim.m, WireQ(v), v.flag) THEN "" ELSE "not-the-nearest-or-wrong-flag"
              [] e.op = "is_simpler_than" ->
                   IF ~(WfQ(e.a) /\ WfQ(e.b)) THEN "malformed-event"
                   ELSE IF (v.bool = 1) = SimplerOK(WireQ(e.a), WireQ(e.b)) THEN "" ELSE "order-differs-from-documented"
              [] e.op \in {"simplest_from_f32", "simplest_from_f64"} -> IeeeWhy(e.fl, v)
              [] e.op = "simplest_from_float" -> FbigWhy(e.base, e.mode, e.f, v)

VARIABLES l, bad
Init == l = 1 /\ bad = <<>>
Next == /\ l <= Len(Rec)
        /\ LET w == Why(Rec[l]) IN bad' = IF w = "" THEN bad ELSE Append(bad, [i |-> l, why |-> w])
        /\ l' = l + 1
Spec == Init /\ [][Next]_<<l, bad>>
Verdict == l > Len(Rec) => PrintT(<<"VERDICT", ToJson([total |-> Len(Rec), bad |-> bad])>>)
Complete == IF TLCGet("stats").diameter - 1 = Len(Rec) THEN TRUE
            ELSE PrintT(<<"TRUNCATED", TLCGet("stats").diameter>>) /\ FALSE
=============================================================================
