SPECIFICATION Spec
INVARIANTS TruncOK EuclidOK MixedOK ConstOK
CONSTANTS
  MaxV = 70
CHECK_DEADLOCK FALSE
