----------------------------- MODULE IntDivAlg -----------------------------
(* Algorithm layer of C02: the sign fix-up macros of integer/src/div_ops.rs and div_const.rs,
   transcribed over (sign, magnitude) pairs with native integers, one operator per macro:
     impl_ibig_div, impl_ibig_rem, impl_ibig_divrem, impl_ibig_div_euclid, impl_ibig_rem_euclid,
     impl_ibig_divrem_euclid, impl_ubig_ibig_rem, impl_ubig_ibig_divrem, and the IBig (op) ConstDivisor
     forms (divisor always positive).
   The unsigned primitives on magnitudes (mag0 / mag1, mag0 % mag1) are taken as given here; they
   are what the word-level model DivWordAlg and the conformance traces check.
   TLC verifies, for all |a|, |b| <= MaxV, that every form yields the (q, r) of the definition. *)
EXTENDS Integers, TLC
CONSTANTS MaxV

Abs(x) == IF x < 0 THEN -x ELSE x
Sgn(x) == IF x < 0 THEN -1 ELSE 1                 \* Sign of dashu: zero is Positive
WithSign(m, s) == IF m = 0 THEN 0 ELSE s * m      \* Repr::with_sign keeps zero positive
UDiv(m0, m1) == m0 \div m1
URem(m0, m1) == m0 % m1

\* ---- definition (native integers) ----
IsTrunc(a, b, q, r) == a = q * b + r /\ Abs(r) < Abs(b) /\ (r = 0 \/ Sgn(r) = Sgn(a))
IsEuclid(a, b, q, r) == a = q * b + r /\ r >= 0 /\ r < Abs(b)

\* ---- the macros ----
IbigDiv(s0, m0, s1, m1) == WithSign(UDiv(m0, m1), s0 * s1)
IbigRem(s0, m0, s1, m1) == WithSign(URem(m0, m1), s0)
IbigDivRem(s0, m0, s1, m1) == <<WithSign(UDiv(m0, m1), s0 * s1), WithSign(URem(m0, m1), s0)>>
IbigDivEuclid(s0, m0, s1, m1) ==
  LET q == UDiv(m0, m1)  r == URem(m0, m1)
      q2 == IF s0 = 1 \/ r = 0 THEN q ELSE q + 1
  IN WithSign(q2, s0 * s1)
IbigRemEuclid(s0, m0, s1, m1) ==
  IF s0 = 1 THEN URem(m0, m1)
  ELSE LET r == URem(m0, m1) IN IF r = 0 THEN r ELSE m1 - r
IbigDivRemEuclid(s0, m0, s1, m1) ==
  IF s0 = 1 THEN <<WithSign(UDiv(m0, m1), s1), URem(m0, m1)>>
  ELSE LET q == UDiv(m0, m1)  r == URem(m0, m1) IN
       IF r # 0 THEN <<WithSign(q + 1, -s1), m1 - r>> ELSE <<WithSign(q, -s1), r>>
\* UBig (op) IBig: lhs sign is Positive
UbigIbigRem(m0, s1, m1) == URem(m0, m1)
UbigIbigDivRem(m0, s1, m1) == <<WithSign(UDiv(m0, m1), s1), URem(m0, m1)>>
\* IBig (op) &ConstDivisor
IbigConstDivRem(s0, m0, m1) == <<WithSign(UDiv(m0, m1), s0), WithSign(URem(m0, m1), s0)>>

VARIABLES a, b, phase
vars == <<a, b, phase>>
Init == phase = "pick" /\ a \in -MaxV..MaxV /\ b = 1
Pick == phase = "pick" /\ phase' = "done" /\ b' \in (-MaxV..MaxV) \ {0} /\ UNCHANGED a
Next == Pick
Spec == Init /\ [][Next]_vars

S0 == Sgn(a)  M0 == Abs(a)  S1 == Sgn(b)  M1 == Abs(b)
TruncOK == phase = "done" =>
  /\ IsTrunc(a, b, IbigDiv(S0, M0, S1, M1), IbigRem(S0, M0, S1, M1))
  /\ IsTrunc(a, b, IbigDivRem(S0, M0, S1, M1)[1], IbigDivRem(S0, M0, S1, M1)[2])
EuclidOK == phase = "done" =>
  /\ IsEuclid(a, b, IbigDivEuclid(S0, M0, S1, M1), IbigRemEuclid(S0, M0, S1, M1))
  /\ IsEuclid(a, b, IbigDivRemEuclid(S0, M0, S1, M1)[1], IbigDivRemEuclid(S0, M0, S1, M1)[2])
MixedOK == phase = "done" /\ a >= 0 =>
  /\ IsTrunc(a, b, UbigIbigDivRem(M0, S1, M1)[1], UbigIbigDivRem(M0, S1, M1)[2])
  /\ UbigIbigRem(M0, S1, M1) = UbigIbigDivRem(M0, S1, M1)[2]
ConstOK == phase = "done" /\ b > 0 =>
  IsTrunc(a, b, IbigConstDivRem(S0, M0, M1)[1], IbigConstDivRem(S0, M0, M1)[2])
=============================================================================
