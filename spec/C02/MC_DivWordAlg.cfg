SPECIFICATION Spec
INVARIANTS DivWordOK RemWordOK DivDwordPow2OK
CONSTANTS
  W = 3
  MaxLen = 4
CHECK_DEADLOCK FALSE
