------------------------------ MODULE Gen_C02 ------------------------------
(* Behaviour generator for C02: dividends constructed as a := q*b + r over the partition
     divisor class x quotient class x remainder class x bit patterns x signs x type pair.
   Divisor classes cover single-word, double-word (incl. powers of two between 2^64 and 2^127),
   3 words, and both sides of the schoolbook / divide-and-conquer switch (32/33/34 words, taken
   together with quotients of 32/33/34 words); the all-ones patterns force the quotient-digit
   correction of the schoolbook algorithm. *)
EXTENDS IntPatterns, Json
CONSTANTS DivClasses, QuoClasses, K, Seed

TypePairs == << <<"U", "U">>, <<"I", "I">>, <<"U", "I">>, <<"I", "U">>, <<"U", "C">>, <<"I", "C">>, <<"I", "I">> >>
BPats == <<"dense", "lowzero", "pow2", "ones", "pow2p1", "dense2", "alt", "hilo">>
QPats == <<"dense", "ones", "pow2", "dense2", "pow2m1">>

VARIABLES phase, cb, cq, k
vars == <<phase, cb, cq, k>>
Init == phase = "pick" /\ cb \in DivClasses /\ cq = 0 /\ k = 0
Pick == /\ phase = "pick" /\ phase' = "done"
        /\ cq' \in QuoClasses /\ k' \in 1..K /\ UNCHANGED cb
Next == Pick
Spec == Init /\ [][Next]_vars

Salt == cb * 13 + cq * 5 + k * 17 + Seed
Case ==
  LET tp == TypePairs[1 + (Salt % 7)]
      bm == Mag(BPats[1 + ((Salt \div 3) % 8)], cb, Salt)
      qm == Mag(QPats[1 + ((Salt \div 5) % 5)], cq, Salt + 3)
      rsel == (Salt \div 7) % 5                       \* 0: r = 0, 1: r = 1, 2: r = b - 1, 3: dense r < b, 4: see am
      rm == IF bm = <<>> THEN <<>>
            ELSE IF rsel = 0 THEN <<>>
            ELSE IF rsel = 1 THEN (IF Cmp(One, bm) < 0 THEN One ELSE <<>>)
            ELSE IF rsel = 2 THEN Sub(bm, One)
            ELSE IF rsel = 4 THEN <<>>
            ELSE LET cand == Mag("dense2", cb, Salt + 9) IN (IF Cmp(cand, bm) < 0 THEN cand ELSE Shr(cand, 9))
      \* rsel = 4: dividend = (all ones of the quotient's length) shifted to just below the divisor's top bit:
      \* the quotient estimated from the top words is then as far off as the algorithm allows
      am == IF rsel = 4 /\ cb >= 1 THEN Shl(Mag("ones", cq, 0), 64 * cb - 1) ELSE Add(Mul(qm, bm), rm)
      sa == IF tp[1] = "U" THEN 0 ELSE (Salt \div 2) % 2
      sb == IF tp[2] = "I" THEN (Salt \div 11) % 2 ELSE 0
  IN [op |-> "divmod", lt |-> tp[1], rt |-> tp[2], a |-> I(sa, am), b |-> I(sb, bm)]

Emit == phase = "done" => PrintT(<<"GEN", ToJson(Case)>>)
=============================================================================
