----------------------------- MODULE IntDivDef -----------------------------
(* Definition layer of C02.  For a dividend a and a non-zero divisor b:
     truncating  (q, r):  a = q*b + r,  |r| < |b|,  r = 0 or sign(r) = sign(a)
     Euclidean   (q, r):  a = q*b + r,  0 <= r < |b|
     is_multiple_of  <=>  r = 0
   Both pairs are unique, so the definition can be stated as the value the relations determine;
   DivMod of BigNat computes it and the identity is re-asserted with an independent product. *)
EXTENDS BigInt

IsTrunc(a, b, q, r) == /\ IEq(IAdd(IMul(q, b), r), a)
                       /\ Cmp(r.m, b.m) < 0
                       /\ (r.m = <<>> \/ r.s = a.s)
IsEuclid(a, b, q, r) == /\ IEq(IAdd(IMul(q, b), r), a)
                        /\ r.s = 0 /\ Cmp(r.m, b.m) < 0

TruncQR(a, b) ==
  LET qr == ITruncDivMod(a, b) IN
  IF IsTrunc(a, b, qr[1], qr[2]) THEN qr ELSE Assert(FALSE, <<"oracle self-check failed: TruncQR", a, b>>)
\* the Euclidean pair derived from the truncating pair: a negative remainder moves up by |b|
EuclidFromTrunc(a, b, t) ==
  LET qr == IF t[2].s = 0 THEN t
            ELSE <<(IF b.s = 0 THEN ISub(t[1], IOne) ELSE IAdd(t[1], IOne)), IAdd(t[2], IAbs(b))>>
  IN IF IsEuclid(a, b, qr[1], qr[2]) THEN qr ELSE Assert(FALSE, <<"oracle self-check failed: EuclidQR", a, b>>)
EuclidQR(a, b) == EuclidFromTrunc(a, b, TruncQR(a, b))

\* outcome record o = [k, v |-> [conv, hq, hr, q, r] | [conv |-> "M", mult]]; t, u: the two defined pairs
PartsOK(v, qr) == (v.hq = 1 => IsInt(v.q) /\ IEq(v.q, qr[1])) /\ (v.hr = 1 => IsInt(v.r) /\ IEq(v.r, qr[2]))
OutcomeOKWith(b, t, u, o) ==
  IF b.m = <<>> THEN o.k = "panic"
  ELSE /\ o.k = "ok"
       /\ CASE o.v.conv = "T" -> PartsOK(o.v, t)
            [] o.v.conv = "E" -> PartsOK(o.v, u)
            [] o.v.conv = "M" -> o.v.mult = (t[2].m = <<>>)
            [] o.v.conv = "V" -> IEq(o.v.r, b)             \* ConstDivisor::value gives the divisor back
OutcomeOK(a, b, o) == OutcomeOKWith(b, TruncQR(a, b), EuclidQR(a, b), o)
=============================================================================
