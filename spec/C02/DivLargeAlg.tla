---------------------------- MODULE DivLargeAlg ----------------------------
(* Algorithm layer of C02, multi-word divisors: integer/src/div/{mod,simple,divide_conquer}.rs at
   word level over a word of W bits (sequences, least significant first; `x[i..j]` = Sl(x, i, j)).

     div::div_rem_in_place               : dispatch on THRESHOLD_SIMPLE (CONSTANT TD, scaled down)
     simple::div_rem_in_place            : Knuth 4.3.1 D - the quotient-carry pre-subtraction, then one
                                           div_rem_highest_word per quotient word
     simple::div_rem_highest_word        : 3-by-2 estimate (taken as exact, WITH its precondition
                                           lhs_top < rhs_top), MAX when lhs_top = rhs_top, sub_mul, one
                                           correction; `debug_assert!(carry)`, `borrow == lhs_top`
     div_rem_unshifted_in_place          : shift the dividend, divide the carried-out word first
     divide_conquer::div_rem_in_place    : blocks of n words from the top, then a small-quotient step
     divide_conquer::..._same_len        : two 3n/2n steps
     divide_conquer::..._small_quotient  : 2m/m division by the top m words of the divisor, subtract
                                           q * (rest of the divisor), at most two corrections;
                                           `rem_overflow == 0 && q_overflow in 0..=1`

   The divisor is normalised (top bit set), as `normalize` leaves it.  TLC checks that the words left
   in lhs are remainder and quotient of the definition and the returned carry is the quotient's top
   bit, for every normalised divisor of the scope and block-pattern / pseudo-random dividends, and
   that every assertion of the code holds on the way. *)
EXTENDS Integers, Sequences, TLC
CONSTANTS W,        \* bits per word
          TD,       \* div::THRESHOLD_SIMPLE (scaled down; the code const_asserts >= 3)
          NLens,    \* divisor lengths explored
          QLens,    \* quotient lengths explored (len(lhs) - len(rhs))
          Seeds
ASSUME TD >= 3

Beta == 2^W
MaxW == Beta - 1
Sl(c, i, j) == SubSeq(c, i + 1, j)
Put(c, i, p) == SubSeq(c, 1, i) \o p \o SubSeq(c, i + Len(p) + 1, Len(c))
RECURSIVE ValOf(_)
ValOf(ws) == IF ws = <<>> THEN 0 ELSE ws[1] + Beta * ValOf(Tail(ws))
RECURSIVE WordsOfLen(_, _)
WordsOfLen(v, n) == IF n = 0 THEN <<>> ELSE <<v % Beta>> \o WordsOfLen(v \div Beta, n - 1)
Min(x, y) == IF x < y THEN x ELSE y

\* ---- word loops of add.rs / mul/mod.rs / cmp.rs (value-equivalent forms; the loops themselves are IntAddAlg / IntMulAlg)
\* x -= y (same length): <<words, borrow>>
SubSame(x, y) == LET d == ValOf(x) - ValOf(y) IN IF d >= 0 THEN <<WordsOfLen(d, Len(x)), 0>> ELSE <<WordsOfLen(d + Beta^Len(x), Len(x)), 1>>
AddSame(x, y) == LET d == ValOf(x) + ValOf(y) IN <<WordsOfLen(d % Beta^Len(x), Len(x)), d \div Beta^Len(x)>>
SubOne(x) == IF ValOf(x) = 0 THEN <<[i \in 1..Len(x) |-> MaxW], 1>> ELSE <<WordsOfLen(ValOf(x) - 1, Len(x)), 0>>
\* x -= q * y (same length): <<words, borrow word>>
SubMulWord(x, q, y) == LET d == ValOf(x) - q * ValOf(y)  M == Beta^Len(x)
                           k == IF d >= 0 THEN 0 ELSE (-d + M - 1) \div M
                       IN <<WordsOfLen(d + k * M, Len(x)), k>>
CmpGe(x, y) == ValOf(x) >= ValOf(y)
\* rem += sign * q * r (len(rem) = len(q) + len(r)): <<words, signed carry>>   (mul::add_signed_mul, Negative)
SubMul(rem, q, r) == LET d == ValOf(rem) - ValOf(q) * ValOf(r)  M == Beta^Len(rem)
                         k == IF d >= 0 THEN 0 ELSE (-d + M - 1) \div M
                     IN <<WordsOfLen(d + k * M, Len(rem)), -k>>

R(l, c, ok) == [l |-> l, carry |-> c, ok |-> ok]

\* ---------------------------------------------------------------- simple.rs
\* returns <<q, lhs_lo', ok>>
HighestWord(top, lo, rhs) ==
  LET n == Len(rhs)
      ll == Len(lo)
      rtop == rhs[n]
      l1 == lo[ll]  l2 == lo[ll - 1]
      pre == ll >= n /\ (top < rtop \/ (top = rtop /\ ~(ValOf(Sl(lo, ll - (n - 1), ll)) > ValOf(Sl(rhs, 0, n - 1)))))
      q0 == IF top < rtop THEN Min((top * Beta * Beta + l1 * Beta + l2) \div (rtop * Beta + rhs[n - 1]), MaxW) ELSE MaxW
      \* the 3-by-2 primitive returns the exact quotient, which fits a word when lhs01 < rhs01
      fits == top >= rtop \/ (top * Beta * Beta + l1 * Beta + l2) \div (rtop * Beta + rhs[n - 1]) <= MaxW
      s == SubMulWord(Sl(lo, ll - n, ll), q0, rhs)
      fix == s[2] > top
      a == IF fix THEN AddSame(s[1], rhs) ELSE <<s[1], 1>>
      q == IF fix THEN q0 - 1 ELSE q0
      borrow == IF fix THEN s[2] - 1 ELSE s[2]
  IN <<q, Put(lo, ll - n, a[1]), pre /\ fits /\ a[2] = 1 /\ borrow = top /\ q >= 0>>

RECURSIVE SimpleLoop(_, _, _, _)
SimpleLoop(lhs, len, rhs, ok) ==          \* rem = lhs[..len]; words above hold quotient digits already
  IF len <= Len(rhs) THEN <<lhs, ok>>
  ELSE LET h == HighestWord(lhs[len], Sl(lhs, 0, len - 1), rhs)
       IN SimpleLoop(Put(Put(lhs, 0, h[2]), len - 1, <<h[1]>>), len - 1, rhs, ok /\ h[3])
SimpleDiv(lhs, rhs) ==
  LET n == Len(rhs)  ll == Len(lhs)
      qc == CmpGe(Sl(lhs, ll - n, ll), rhs)
      s == IF qc THEN SubSame(Sl(lhs, ll - n, ll), rhs) ELSE <<Sl(lhs, ll - n, ll), 0>>
      r == SimpleLoop(Put(lhs, ll - n, s[1]), ll, rhs, n >= 2 /\ ll >= n /\ s[2] = 0)
  IN R(r[1], IF qc THEN 1 ELSE 0, r[2])

\* ---------------------------------------------------------------- divide_conquer.rs
RECURSIVE DcSameLen(_, _), DcSmallQ(_, _)
RECURSIVE Adjust(_, _, _, _, _)
Adjust(rem, q, rhs, ro, qo) ==            \* while rem_overflow < 0
  IF ro >= 0 THEN <<rem, q, ro, qo>>
  ELSE LET a == AddSame(rem, rhs)  s == SubOne(q) IN Adjust(a[1], s[1], rhs, ro + a[2], qo - s[2])
DcSmallQ(lhs, rhs) ==
  LET n == Len(rhs)  m == Len(lhs) - n IN
  IF m <= TD THEN (LET r == SimpleDiv(lhs, rhs) IN R(r.l, r.carry, r.ok /\ n >= 2 /\ m >= 0 /\ m < n))
  ELSE
    LET top == DcSameLen(Sl(lhs, n - m, Len(lhs)), Sl(rhs, n - m, n))      \* 2m / m by the top m words of rhs
        l1 == Put(lhs, n - m, top.l)
        rem == Sl(l1, 0, n)  q == Sl(l1, n, n + m)
        rlo == Sl(rhs, 0, n - m)
        sm == SubMul(rem, q, rlo)
        \* q_overflow: the quotient has a top bit above its m words, worth Beta^m: one more rhs_lo * Beta^m
        extra == IF top.carry # 0 THEN SubSame(Sl(sm[1], m, n), rlo) ELSE <<Sl(sm[1], m, n), 0>>
        rem1 == Put(sm[1], m, extra[1])
        ro == sm[2] - extra[2]
        adj == Adjust(rem1, q, rhs, ro, top.carry)
    IN R(adj[1] \o adj[2], IF adj[4] # 0 THEN 1 ELSE 0,
         top.ok /\ m < n /\ adj[3] = 0 /\ adj[4] \in {0, 1})
DcSameLen(lhs, rhs) ==
  LET n == Len(rhs)  nlo == n \div 2
      hi == DcSmallQ(Sl(lhs, nlo, 2 * n), rhs)
      l1 == Put(lhs, nlo, hi.l)
      lo == DcSmallQ(Sl(l1, 0, n + nlo), rhs)
      l2 == Put(l1, 0, lo.l)
  IN R(l2, hi.carry, hi.ok /\ lo.ok /\ lo.carry = 0 /\ n > TD /\ Len(lhs) = 2 * n /\ nlo >= 2)
RECURSIVE DcBlocks(_, _, _, _, _)
DcBlocks(lhs, rhs, m, ov, ok) ==
  LET n == Len(rhs) IN
  IF m >= 2 * n THEN LET r == DcSameLen(Sl(lhs, m - 2 * n, m), rhs)
                     IN DcBlocks(Put(lhs, m - 2 * n, r.l), rhs, m - n, IF r.carry # 0 THEN 1 ELSE ov,
                                 ok /\ r.ok /\ (r.carry = 0 \/ m = Len(lhs)))
  ELSE IF m > n THEN LET r == DcSmallQ(Sl(lhs, 0, m), rhs)
                     IN R(Put(lhs, 0, r.l), IF r.carry # 0 THEN 1 ELSE ov, ok /\ r.ok /\ (r.carry = 0 \/ m = Len(lhs)))
  ELSE R(lhs, ov, ok)
DcDiv(lhs, rhs) == DcBlocks(lhs, rhs, Len(lhs), 0, Len(lhs) > Len(rhs) + TD /\ Len(rhs) > TD)

\* div::div_rem_in_place
Div(lhs, rhs) == IF Len(rhs) <= TD \/ Len(lhs) - Len(rhs) <= TD THEN SimpleDiv(lhs, rhs) ELSE DcDiv(lhs, rhs)

\* ---------------------------------------------------------------- operands
Lcg(x) == (x * 1103 + 12345) % 65536
RECURSIVE Rnd(_, _)
Rnd(seed, n) == IF n = 0 THEN <<>> ELSE <<(seed \div 16) % Beta>> \o Rnd(Lcg(seed), n - 1)
Block(kind, n, seed) ==
  CASE kind = "zero" -> [i \in 1..n |-> 0]
    [] kind = "max" -> [i \in 1..n |-> MaxW]
    [] kind = "rnd" -> Rnd(Lcg(seed + 7 * n), n)
Kinds == {"zero", "max", "rnd"}
\* a normalised divisor: top word has its top bit set
Divisors(n) == {Block(k1, n - 1 - (n \div 2), sd) \o Block(k2, n \div 2, sd + 1) \o <<t>> :
                   k1 \in Kinds, k2 \in Kinds, t \in {Beta \div 2, Beta \div 2 + 1, MaxW}, sd \in Seeds}
\* dividends: quotient part q (free) times the divisor plus a remainder pattern would need multiplication; instead
\* three blocks (low / middle / top) so that equal-to-divisor prefixes, all-max and zero runs all occur
HiOf(h, rhs, sd) ==
  LET n == Len(rhs) IN
  CASE h = 1 -> rhs
    [] h = 2 -> Block("max", n, 0)
    [] h = 3 -> Block("zero", n, 0)
    [] h = 4 -> Block("rnd", n, sd + 5)
    [] h = 5 -> Put(rhs, 0, <<IF rhs[1] > 0 THEN rhs[1] - 1 ELSE 0>>)
Dividends(len, rhs) ==
  LET n == Len(rhs)  a == len - n IN
  {Block(k1, a \div 2, sd) \o Block(k2, a - (a \div 2), sd + 2) \o HiOf(h, rhs, sd) :
       k1 \in Kinds, k2 \in Kinds, sd \in Seeds, h \in 1..5}

VARIABLES lhs, rhs, phase
vars == <<lhs, rhs, phase>>
Init == phase = "pick" /\ lhs = <<>> /\ \E n \in NLens : rhs \in Divisors(n)
Pick == phase = "pick" /\ phase' = "done" /\ UNCHANGED rhs
        /\ \E q \in QLens : lhs' \in Dividends(Len(rhs) + q, rhs)
Next == Pick
Spec == Init /\ [][Next]_vars

DivOK == phase = "done" =>
  LET r == Div(lhs, rhs)
      n == Len(rhs)
      m == Len(lhs) - n
      quo == ValOf(Sl(r.l, n, n + m)) + r.carry * Beta^m
      rem == ValOf(Sl(r.l, 0, n))
  IN r.ok /\ rem < ValOf(rhs) /\ ValOf(lhs) = quo * ValOf(rhs) + rem /\ r.carry \in {0, 1}
=============================================================================
