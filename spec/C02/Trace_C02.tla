----------------------------- MODULE Trace_C02 -----------------------------
(* Trace monitor for C02 (and the C15 form inventory of the division operators). *)
EXTENDS IntDivDef, Json, IOUtils
Rec == ndJsonDeserialize(IOEnv.TRACE)

Why(e) ==
  LET t == TruncQR(e.a, e.b)                       \* evaluated once per event (lazily: not for b = 0)
      u == EuclidFromTrunc(e.a, e.b, t)
      badg == {i \in 1..Len(e.outs) : ~OutcomeOKWith(e.b, t, u, e.outs[i].out)}
  IN IF ~(IsInt(e.a) /\ IsInt(e.b)) THEN "malformed-operand"
     ELSE IF badg = {} THEN ""
     ELSE IF e.b.m = <<>> THEN "no-panic-on-zero-divisor"
     ELSE IF \E i \in badg : e.outs[i].out.k = "ok" THEN "wrong-quotient-or-remainder"
     ELSE "unexpected-panic"

VARIABLES l, bad
Init == l = 1 /\ bad = <<>>
\* (a LET directly inside an action is re-evaluated by TLC at every reference; inside an operator it is cached)
Step(b, i) == LET w == Why(Rec[i]) IN IF w = "" THEN b ELSE Append(b, [i |-> i, why |-> w])
Next == /\ l <= Len(Rec)
        /\ bad' = Step(bad, l)
        /\ l' = l + 1
Spec == Init /\ [][Next]_<<l, bad>>
Verdict == l > Len(Rec) => PrintT(<<"VERDICT", ToJson([total |-> Len(Rec), bad |-> bad])>>)
Complete == IF TLCGet("stats").diameter - 1 = Len(Rec) THEN TRUE
            ELSE PrintT(<<"TRUNCATED", TLCGet("stats").diameter>>) /\ FALSE
=============================================================================
