----------------------------- MODULE DivWordAlg -----------------------------
(* Algorithm layer of C02, word level: the single- and double-word division fast paths of
   integer/src/div/mod.rs and the shift helpers of integer/src/shift.rs and math.rs they are
   built from, over a word of W bits (CONSTANT; words are sequences, least significant first).

     shl_in_place, shr_in_place (= shr_in_place_with_carry / shr_in_place_one_word), shr_word
     div_by_word_in_place   : rhs = 1; power-of-two shortcut; normalise - divide 2-by-1 per word - unnormalise
     rem_by_word            : power-of-two shortcut; remainder modulo the NORMALISED divisor, then
                              one more 2-by-1 step on the shifted remainder
     div_by_dword_in_place  : power-of-two shortcut (drop one word, shift the rest, reassemble the
                              double-word remainder from three pieces)

   The 2-by-1 division primitive (FastDivideNormalized::div_rem_2by1, a reciprocal-based routine) is
   taken as exact division WITH ITS PRECONDITION: divisor normalised and high word < divisor; the
   model carries a flag `pre` that becomes FALSE when a call site violates it, and the invariant
   demands it stays TRUE (this is the class of defect F34 was).

   TLC checks, for every dividend of up to MaxLen words and every divisor, that quotient and remainder
   are those of the definition. *)
EXTENDS Integers, Sequences, TLC
CONSTANTS W, MaxLen

Beta == 2^W
RECURSIVE ValOf(_)
ValOf(ws) == IF ws = <<>> THEN 0 ELSE ws[1] + Beta * ValOf(Tail(ws))
RECURSIVE WordsOfLen(_, _)
WordsOfLen(v, n) == IF n = 0 THEN <<>> ELSE <<v % Beta>> \o WordsOfLen(v \div Beta, n - 1)
LeadingZeros(w) == CHOOSE z \in 0..W : (z = W /\ w = 0) \/ (z < W /\ w >= 2^(W - 1 - z) /\ w < 2^(W - z))
TrailingZeros(x) == CHOOSE z \in 0..(2 * W) : x % 2^z = 0 /\ x % 2^(z + 1) # 0
IsPow2(x) == x > 0 /\ \E k \in 0..(2 * W) : x = 2^k
DWord(lo, hi) == lo + Beta * hi

\* ---- shift helpers: <<words, carry>> ----
\* shl_in_place (shift < W): returns the bits shifted out of the top word
RECURSIVE ShlInPlace(_, _, _)
ShlInPlace(ws, sh, carry) ==
  IF ws = <<>> THEN <<(<<>>), carry>>
  ELSE LET t == ws[1] * 2^sh  r == ShlInPlace(Tail(ws), sh, t \div Beta)
       IN <<(<<(t % Beta) + carry>> \o r[1]), r[2]>>
Shl(ws, sh) == IF sh = 0 THEN <<ws, 0>> ELSE ShlInPlace(ws, sh, 0)
\* shr_word(w, shift) = (w >> shift, shifted-out bits in the HIGH bits of a word)
ShrWord(w, sh) == <<w \div 2^sh, (w * 2^(W - sh)) % Beta>>
\* shr_in_place_with_carry, from the most significant word down; returns the bits shifted out at the bottom (high-aligned)
RECURSIVE ShrFromTop(_, _, _)
ShrFromTop(ws, sh, carry) ==       \* ws given most significant first
  IF ws = <<>> THEN <<(<<>>), carry>>
  ELSE LET p == ShrWord(ws[1], sh)  r == ShrFromTop(Tail(ws), sh, p[2]) IN <<(<<p[1] + carry>> \o r[1]), r[2]>>
RECURSIVE Rev(_)
Rev(s) == IF s = <<>> THEN <<>> ELSE Rev(Tail(s)) \o <<s[1]>>
ShrOneWord(ws) == <<Tail(ws) \o <<0>>, ws[1]>>
Shr(ws, sh) == IF sh = W THEN ShrOneWord(ws)
               ELSE IF sh = 0 THEN <<ws, 0>>
               ELSE LET r == ShrFromTop(Rev(ws), sh, 0) IN <<Rev(r[1]), r[2]>>

\* ---- the division primitive with its precondition: <<q, r, precondition held>> ----
Div2by1(lo, hi, d) == <<DWord(lo, hi) \div d, DWord(lo, hi) % d, d >= 2^(W - 1) /\ hi < d>>

\* ---- div_by_word_in_place: <<quotient words, remainder, preconditions held>> ----
RECURSIVE DivLoop(_, _, _, _)
DivLoop(ws, rem, d, ok) ==          \* ws most significant first
  IF ws = <<>> THEN <<(<<>>), rem, ok>>
  ELSE LET s == Div2by1(ws[1], rem, d)  r == DivLoop(Tail(ws), s[2], d, ok /\ s[3]) IN <<(<<s[1]>> \o r[1]), r[2], r[3]>>
DivByWord(ws, rhs) ==
  IF rhs = 1 THEN <<ws, 0, TRUE>>
  ELSE IF IsPow2(rhs) THEN LET sh == TrailingZeros(rhs)  r == Shr(ws, sh) IN <<r[1], r[2] \div 2^(W - sh), TRUE>>
  ELSE LET sh == LeadingZeros(rhs)
           s == Shl(ws, sh)
           l == DivLoop(Rev(s[1]), s[2], rhs * 2^sh, TRUE)
       IN <<Rev(l[1]), l[2] \div 2^sh, l[3]>>

\* ---- rem_by_word: <<remainder, preconditions held>> ----
RECURSIVE RemLoop(_, _, _, _)
RemLoop(ws, rem, d, ok) ==          \* ws most significant first
  IF ws = <<>> THEN <<rem, ok>>
  ELSE LET s == Div2by1(ws[1], rem, d) IN RemLoop(Tail(ws), s[2], d, ok /\ s[3])
RemByWord(ws, rhs) ==
  IF IsPow2(rhs) THEN <<ws[1] % rhs, TRUE>>          \* words[0] & (rhs - 1)
  ELSE LET sh == LeadingZeros(rhs)
           d == rhs * 2^sh
           top == Rev(ws)
           first == top[1] % d                              \* div_rem_1by1 on the highest word
           r1 == RemLoop(Tail(top), first, d, d >= 2^(W - 1))
           a == r1[1] * 2^sh                                \* extend_word(rem) << shift, a double word
           s == Div2by1(a % Beta, a \div Beta, d)
       IN <<s[2] \div 2^sh, r1[2] /\ s[3]>>

\* ---- div_by_dword_in_place, power-of-two divisor 2^k with W <= k < 2W: <<quotient words, remainder>> ----
DivByDwordPow2(ws, k) ==
  LET one == ShrOneWord(ws)            \* first = lowest word, words shifted down by one word
      first == one[2]
      sh == k - W
  IN IF sh = 0 THEN <<one[1], first>>
     ELSE LET r == Shr(one[1], sh)     \* n2 = bits shifted out of the remaining words (high aligned)
              p == ShrWord(first, sh)  \* (n1, n0) = (first >> sh, bits shifted out of first, high aligned)
          IN <<r[1], DWord(p[2], p[1] + r[2]) \div 2^(W - sh)>>

VARIABLES x, n, d, phase
vars == <<x, n, d, phase>>
Init == phase = "pick" /\ n \in 1..MaxLen /\ x = 0 /\ d = 1
Pick == phase = "pick" /\ phase' = "done" /\ x' \in 0..(Beta^n - 1) /\ d' \in 1..(Beta - 1) /\ UNCHANGED n
PickD == phase = "pick" /\ n >= 2 /\ phase' = "dword" /\ x' \in 0..(Beta^n - 1) /\ d' \in W..(2 * W - 1) /\ UNCHANGED n
Next == Pick \/ PickD
Spec == Init /\ [][Next]_vars

Ws == WordsOfLen(x, n)
DivWordOK == phase = "done" =>
  LET r == DivByWord(Ws, d) IN ValOf(r[1]) = x \div d /\ r[2] = x % d /\ r[3] /\ Len(r[1]) = n
RemWordOK == phase = "done" =>
  LET r == RemByWord(Ws, d) IN r[1] = x % d /\ r[2]
DivDwordPow2OK == phase = "dword" =>
  LET r == DivByDwordPow2(Ws, d) IN ValOf(r[1]) = x \div 2^d /\ r[2] = x % 2^d
=============================================================================
