------------------------------ MODULE FloatDef ------------------------------
(* Definition layer for floating point results: the value of a float, units in the last place,
   and the rounding contract `Rounded` used by C03, C06, C08, C10 and C11.

   A float is [sig |-> BigInt, exp |-> native Int, inf |-> 0 | 1 | -1] in base B (native, 2..36):
   value = sig * B^exp.  Modes: "Zero", "Away", "Up", "Down", "HalfEven", "HalfAway".
   Flags: "Exact", "NoOp", "AddOne", "SubOne". *)
EXTENDS Rat

F(sig, exp) == [sig |-> sig, exp |-> exp, inf |-> 0]
FVal(B, f) == IF f.exp >= 0 THEN Q(IMul(f.sig, IFromNat(Pow(FromNat(B), f.exp))), One)
              ELSE Q(f.sig, Pow(FromNat(B), -f.exp))
IsFinite(f) == f.inf = 0

\* number of base-B digits of a natural (0 for zero)
NDigits(B, m) == Len(ToRadix(m, B))
\* number of significant digits of an integer significand, ignoring trailing zero digits
TrailingZeroDigits(B, m) ==
  IF m = <<>> THEN 0 ELSE
  LET ds == ToRadix(m, B)
      n == Len(ds)
      lastnz == FoldLeftDomain(LAMBDA acc, i : IF ds[i] # 0 THEN i ELSE acc, 0, ds)
  IN n - lastnz
SigDigits(B, m) == NDigits(B, m) - TrailingZeroDigits(B, m)

\* floor(log_B |q|) for q # 0: the e with B^e <= |q| < B^(e+1)
FloorLog(B, q) ==
  LET e0 == NDigits(B, q.n.m) - NDigits(B, q.d)     \* B^(e0-1) < |q| < B^(e0+1)
  IN IF QLe(QPowBase(B, e0), QAbs(q)) THEN e0 ELSE e0 - 1
\* one unit in the last place of a p-digit number of the magnitude of q (q # 0, p >= 1)
Ulp(B, p, q) == QPowBase(B, FloorLog(B, q) - p + 1)
\* q is representable with at most p significant base-B digits
Representable(B, p, q) ==
  \/ QIsZero(q)
  \/ LET u == Ulp(B, p, q)                 \* q / u must be an integer
         t == QDiv(q, u)
     IN Mod(t.n.m, t.d) = <<>>

IsHalfMode(mode) == mode \in {"HalfEven", "HalfAway"}

(* The rounding contract.  x: exact rational result; r: returned float; flag: returned flag;
   p: precision (>= 1); returns "" when the contract holds, otherwise the violated clause. *)
RoundedWhy(B, p, mode, x, r, flag) ==
  LET rv == FVal(B, r)
      c == QCmp(rv, x)
      err == QAbs(QSub(rv, x))
  IN IF ~IsInt(r.sig) THEN "malformed-significand"
     ELSE IF (flag = "Exact") # (c = 0) THEN "exact-flag-untruthful"
     ELSE IF QIsZero(x) THEN (IF c = 0 THEN "" ELSE "nonzero-for-zero")
     ELSE IF SigDigits(B, r.sig.m) > p + 1 THEN "more-than-p+1-digits"
     ELSE IF Representable(B, p, x) /\ c # 0 THEN "representable-but-inexact"
     ELSE IF c = 0 THEN ""
     ELSE LET u == Ulp(B, p, x) IN
          IF ~QLt(err, u) THEN "error-ge-1ulp"
          ELSE IF IsHalfMode(mode) /\ QLt(u, QMulInt(err, IFromNative(2))) THEN "error-gt-half-ulp"
          ELSE IF mode = "Zero" /\ QLt(QAbs(x), QAbs(rv)) THEN "wrong-side-zero"
          ELSE IF mode = "Away" /\ QLt(QAbs(rv), QAbs(x)) THEN "wrong-side-away"
          ELSE IF mode = "Up" /\ c < 0 THEN "wrong-side-up"
          ELSE IF mode = "Down" /\ c > 0 THEN "wrong-side-down"
          ELSE IF flag = "AddOne" /\ c < 0 THEN "addone-but-below"
          ELSE IF flag = "SubOne" /\ c > 0 THEN "subone-but-above"
          ELSE IF IsHalfMode(mode) /\ QEq(u, QMulInt(err, IFromNative(2))) /\ SigDigits(B, r.sig.m) <= p
               THEN \* an exact tie on the p-digit grid
                    (IF mode = "HalfAway" THEN (IF QLt(QAbs(rv), QAbs(x)) THEN "tie-not-away" ELSE "")
                     ELSE LET t == QDiv(rv, u) IN      \* integer multiple of the ulp
                          IF Mod(t.n.m, t.d) = <<>> /\ Bit(Div(t.n.m, t.d), 0) = 1 THEN "tie-not-even" ELSE "")
          ELSE ""
Rounded(B, p, mode, x, r, flag) == RoundedWhy(B, p, mode, x, r, flag) = ""

\* weaker contract used where only "less than one ulp" is promised (C11)
Within1Ulp(B, p, x, r) == IF QIsZero(x) THEN QIsZero(FVal(B, r)) ELSE QLt(QAbs(QSub(FVal(B, r), x)), Ulp(B, p, x))
=============================================================================
