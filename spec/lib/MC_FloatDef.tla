---- MODULE MC_FloatDef ----
EXTENDS FloatDef
VARIABLE x
Init == x = 0
Next == x' = x
q(a, b) == Q(IFromNative(a), FromNat(b))
f(s, e) == F(IFromNative(s), e)
ASSUME FloorLog(10, q(999, 1000)) = -1
ASSUME FloorLog(10, q(1, 1)) = 0
ASSUME FloorLog(10, q(-12345, 10)) = 3
ASSUME FloorLog(2, q(1, 1024)) = -10
ASSUME Representable(10, 2, q(12, 1000)) /\ ~Representable(10, 2, q(123, 1000)) /\ Representable(10, 3, q(123, 1000))
ASSUME RoundedWhy(10, 2, "HalfEven", q(125, 100), f(12, -1), "NoOp") = ""
ASSUME RoundedWhy(10, 2, "HalfEven", q(125, 100), f(13, -1), "AddOne") = "tie-not-even"
ASSUME RoundedWhy(10, 2, "HalfAway", q(125, 100), f(13, -1), "AddOne") = ""
ASSUME RoundedWhy(10, 2, "HalfAway", q(125, 100), f(12, -1), "NoOp") = "tie-not-away"
ASSUME RoundedWhy(10, 2, "Zero", q(129, 100), f(13, -1), "AddOne") = "wrong-side-zero"
ASSUME RoundedWhy(10, 2, "Up", q(121, 100), f(13, -1), "AddOne") = ""
ASSUME RoundedWhy(10, 2, "Up", q(121, 100), f(14, -1), "AddOne") = "error-ge-1ulp"
ASSUME RoundedWhy(10, 2, "Up", q(12, 10), f(12, -1), "Exact") = ""
ASSUME RoundedWhy(10, 2, "Up", q(12, 10), f(12, -1), "NoOp") = "exact-flag-untruthful"
ASSUME RoundedWhy(10, 2, "Up", q(999, 1000), f(1, 0), "AddOne") = ""
ASSUME RoundedWhy(10, 2, "Down", q(-999, 1000), f(-1, 0), "SubOne") = ""
ASSUME RoundedWhy(10, 2, "HalfEven", q(-999, 1000), f(-1, 0), "AddOne") = "addone-but-below"
ASSUME RoundedWhy(2, 3, "HalfEven", q(0, 1), f(0, 0), "Exact") = ""
ASSUME PrintT("floatdef ok")
====
