------------------------------- MODULE BigNat -------------------------------
(***************************************************************************)
(* Arbitrary-size natural numbers in pure TLA+.                            *)
(*                                                                         *)
(* TLC integers are 32-bit and TLC aborts on overflow, so everything that  *)
(* can exceed 2^31 is represented as a little-endian sequence of base-256  *)
(* limbs without high zero limbs (zero is <<>>).  All iteration is done    *)
(* with the Java-backed folds of the CommunityModules; no recursion over   *)
(* data.  This module is the independent arithmetic oracle of every trace  *)
(* monitor; it is itself model-checked against TLC's native integers by    *)
(* spec/lib/MC_BigNat.tla before it is believed.                           *)
(***************************************************************************)
EXTENDS Integers, Sequences, SequencesExt, FiniteSetsExt, Bitwise, TLC

LB == 256
Limb(s, i) == IF i >= 1 /\ i <= Len(s) THEN s[i] ELSE 0
Max2(a, b) == IF a > b THEN a ELSE b
Min2(a, b) == IF a < b THEN a ELSE b
Zeros(n) == [i \in 1..n |-> 0]

\* strip high zero limbs
Norm(s) ==
  LET top == FoldLeftDomain(LAMBDA acc, i : IF s[i] # 0 THEN i ELSE acc, 0, s)
  IN SubSeq(s, 1, top)

IsNat(s) == /\ \A i \in 1..Len(s) : s[i] \in 0..255
            /\ (Len(s) > 0 => s[Len(s)] # 0)

IsZero(a) == Len(a) = 0

Add(a, b) ==
  LET n == Max2(Len(a), Len(b))
      r == FoldLeftDomain(LAMBDA acc, i :
               LET t == Limb(a,i) + Limb(b,i) + acc[1] IN <<t \div LB, Append(acc[2], t % LB)>>,
             <<0, <<>> >>, Zeros(n))
  IN IF r[1] = 0 THEN r[2] ELSE Append(r[2], r[1])

\* -1, 0, 1
Cmp(a, b) ==
  IF Len(a) # Len(b) THEN (IF Len(a) < Len(b) THEN -1 ELSE 1)
  ELSE FoldLeftDomain(LAMBDA acc, i : IF a[i] = b[i] THEN acc ELSE IF a[i] < b[i] THEN -1 ELSE 1, 0, a)

Lt(a, b) == Cmp(a, b) < 0
Le(a, b) == Cmp(a, b) <= 0

\* a - b, requires a >= b
Sub(a, b) ==
  LET r == FoldLeftDomain(LAMBDA acc, i :
               LET t == a[i] - Limb(b,i) - acc[1] IN
               IF t < 0 THEN <<1, Append(acc[2], t + LB)>> ELSE <<0, Append(acc[2], t)>>,
             <<0, <<>> >>, a)
  IN Norm(r[2])

\* |a - b|
AbsDiff(a, b) == IF Cmp(a, b) >= 0 THEN Sub(a, b) ELSE Sub(b, a)

\* schoolbook product by column sums (column sum < 65025 * 32768 keeps below 2^31)
Mul(a, b) ==
  IF a = <<>> \/ b = <<>> THEN <<>> ELSE
  LET la == Len(a) lb == Len(b) n == la + lb
      Col(k) == LET lo == Max2(1, k+1-lb) hi == IF k < la THEN k ELSE la
                IN FoldSet(LAMBDA i, acc : acc + a[i]*b[k+1-i], 0, lo..hi)
      r == FoldLeftDomain(LAMBDA acc, k :
               LET t == Col(k) + acc[1] IN <<t \div LB, Append(acc[2], t % LB)>>,
             <<0, <<>> >>, Zeros(n))
  IN Norm(r[2])

\* a * k for a native 0 <= k < 2^22
MulSmall(a, k) ==
  IF k = 0 THEN <<>> ELSE
  LET r == FoldLeftDomain(LAMBDA acc, i :
               LET t == a[i] * k + acc[1] IN <<t \div LB, Append(acc[2], t % LB)>>,
             <<0, <<>> >>, a)
      \* flush the carry (< 2^22: at most 3 limbs)
      c == r[1]
      tail == IF c = 0 THEN <<>> ELSE IF c < LB THEN <<c>>
              ELSE IF c < LB*LB THEN <<c % LB, c \div LB>> ELSE <<c % LB, (c \div LB) % LB, c \div (LB*LB)>>
  IN r[2] \o tail

\* <<quotient, remainder>> of a by a native 1 <= k < 2^22
DivModSmall(a, k) ==
  LET r == FoldRight(LAMBDA d, acc : LET t == acc[1] * LB + d IN <<t % k, <<t \div k>> \o acc[2]>>,
                     a, <<0, <<>> >>)
  IN <<Norm(r[2]), r[1]>>
DivSmall(a, k) == DivModSmall(a, k)[1]
Residue(s, p) == FoldRight(LAMBDA d, acc : (acc * LB + d) % p, s, 0)

FromNat(x) == LET RECURSIVE F(_)
                  F(y) == IF y = 0 THEN <<>> ELSE <<y % LB>> \o F(y \div LB)
              IN F(x)
\* only for values known to be below 2^31
ToNat(s) == FoldRight(LAMBDA d, acc : acc * LB + d, s, 0)
FitsNative(s) == Len(s) <= 3 \/ (Len(s) = 4 /\ s[4] < 128)

One == <<1>>
Pow2Tab == <<1, 2, 4, 8, 16, 32, 64, 128>>
Pow2Small(k) == Pow2Tab[k + 1]          \* k in 0..7

ShlBytes(a, n) == IF a = <<>> THEN <<>> ELSE Zeros(n) \o a
ShrBytes(a, n) == IF n >= Len(a) THEN <<>> ELSE SubSeq(a, n + 1, Len(a))
LowBytes(a, n) == Norm(SubSeq(a, 1, Min2(n, Len(a))))

\* a * 2^k, floor(a / 2^k), a mod 2^k   (native k >= 0)
Shl(a, k) == ShlBytes(MulSmall(a, Pow2Small(k % 8)), k \div 8)
Shr(a, k) == DivSmall(ShrBytes(a, k \div 8), Pow2Small(k % 8))
LowBits(a, k) ==
  LET nb == k \div 8  rb == k % 8 IN
  IF rb = 0 THEN LowBytes(a, nb)
  ELSE Norm([i \in 1..Min2(nb + 1, Len(a)) |-> IF i = nb + 1 THEN a[i] % Pow2Small(rb) ELSE a[i]])
PowerOfTwo(k) == Shl(One, k)

\* number of bits of the top limb
ByteBits(d) == IF d >= 128 THEN 8 ELSE IF d >= 64 THEN 7 ELSE IF d >= 32 THEN 6 ELSE IF d >= 16 THEN 5
               ELSE IF d >= 8 THEN 4 ELSE IF d >= 4 THEN 3 ELSE IF d >= 2 THEN 2 ELSE IF d >= 1 THEN 1 ELSE 0
BitLen(a) == IF a = <<>> THEN 0 ELSE 8 * (Len(a) - 1) + ByteBits(a[Len(a)])
Bit(a, i) == (Limb(a, i \div 8 + 1) \div Pow2Small(i % 8)) % 2

\* bitwise operations on naturals
BAnd(a, b) == Norm([i \in 1..Min2(Len(a), Len(b)) |-> a[i] & b[i]])
BOr(a, b)  == [i \in 1..Max2(Len(a), Len(b)) |-> Limb(a, i) | Limb(b, i)]
BXor(a, b) == Norm([i \in 1..Max2(Len(a), Len(b)) |-> Limb(a, i) ^^ Limb(b, i)])

ByteOnes(d) == (d % 2) + ((d \div 2) % 2) + ((d \div 4) % 2) + ((d \div 8) % 2)
             + ((d \div 16) % 2) + ((d \div 32) % 2) + ((d \div 64) % 2) + ((d \div 128) % 2)
CountOnes(a) == FoldLeft(LAMBDA acc, d : acc + ByteOnes(d), 0, a)
ByteTz(d) == IF d % 2 = 1 THEN 0 ELSE IF d % 4 # 0 THEN 1 ELSE IF d % 8 # 0 THEN 2 ELSE IF d % 16 # 0 THEN 3
             ELSE IF d % 32 # 0 THEN 4 ELSE IF d % 64 # 0 THEN 5 ELSE IF d % 128 # 0 THEN 6 ELSE 7
\* number of trailing zero bits (a # 0)
TrailingZeros(a) ==
  LET i == FoldLeftDomain(LAMBDA acc, j : IF acc = 0 /\ a[j] # 0 THEN j ELSE acc, 0, a)
  IN 8 * (i - 1) + ByteTz(a[i])

\* bits of a native natural, least significant first
NatBits(n) == LET RECURSIVE F(_)
                  F(y) == IF y = 0 THEN <<>> ELSE <<y % 2>> \o F(y \div 2)
              IN F(n)
\* a^n for native n >= 0 (right-to-left binary powering; acc = <<result, base>>)
Pow(a, n) ==
  LET bits == NatBits(n)
      nb == Len(bits)
      r == FoldLeftDomain(LAMBDA acc, i :
               LET res == IF bits[i] = 1 THEN Mul(acc[1], acc[2]) ELSE acc[1]
               IN <<res, IF i < nb THEN Mul(acc[2], acc[2]) ELSE acc[2]>>,
             <<One, a>>, bits)
  IN r[1]

(***************************************************************************)
(* General division (Knuth D on byte limbs, trial digit from the top three *)
(* limbs, corrected downwards).  An Assert guards the digit correction, so *)
(* a flaw in this routine is a tool error, never a verdict.                *)
(***************************************************************************)
DivMod(a, b) ==
  IF Cmp(a, b) < 0 THEN <<(<<>>), a>>
  ELSE IF Len(b) = 1 THEN LET r == DivModSmall(a, b[1]) IN <<r[1], FromNat(r[2])>>
  ELSE
  LET n == Len(b)
      \* top two limbs of the divisor
      dt == b[n] * LB + b[n - 1]
      Step(acc, d) ==
        LET rem == IF acc[1] = <<>> THEN (IF d = 0 THEN <<>> ELSE <<d>>) ELSE <<d>> \o acc[1]
            \* top three limbs of rem aligned to limb n+1
            t == (Limb(rem, n + 1) * LB + Limb(rem, n)) * LB + Limb(rem, n - 1)
            q0 == Min2(255, (t + 1) \div dt)          \* never below the true digit, at most 2 above
            p0 == MulSmall(b, q0)
            q1 == IF Cmp(p0, rem) > 0 THEN q0 - 1 ELSE q0
            p1 == IF q1 = q0 THEN p0 ELSE Sub(p0, b)
            q2 == IF Cmp(p1, rem) > 0 THEN q1 - 1 ELSE q1
            p2a == IF q2 = q1 THEN p1 ELSE Sub(p1, b)
            q3 == IF Cmp(p2a, rem) > 0 THEN q2 - 1 ELSE q2
            p2 == IF q3 = q2 THEN p2a ELSE Sub(p2a, b)
            nr == Sub(rem, p2)
        IN IF Cmp(p2, rem) <= 0 /\ Cmp(nr, b) < 0
           THEN <<nr, <<q3>> \o acc[2]>>
           ELSE Assert(FALSE, <<"BigNat!DivMod digit correction failed", a, b>>)
      r == FoldRight(LAMBDA d, acc : Step(acc, d), a, <<(<<>>), (<<>>)>>)
  IN <<Norm(r[2]), r[1]>>
Div(a, b) == DivMod(a, b)[1]
Mod(a, b) == DivMod(a, b)[2]

\* Euclid with an iteration bound (12 steps per limb is more than the Lamé bound)
Gcd(a, b) ==
  LET bound == 12 * (Max2(Len(a), Len(b)) + 1)
      r == FoldLeftDomain(LAMBDA acc, i :
               IF acc[2] = <<>> THEN acc ELSE <<acc[2], Mod(acc[1], acc[2])>>,
             <<a, b>>, Zeros(bound))
  IN IF r[2] = <<>> THEN r[1] ELSE Assert(FALSE, <<"BigNat!Gcd bound", a, b>>)

\* digits in radix r (2..256), most significant first; <<>> for zero.  O(n^2).
ToRadix(a, r) ==
  LET bound == 8 * Len(a) + 1
      res == FoldLeftDomain(LAMBDA acc, i :
                 IF acc[1] = <<>> THEN acc
                 ELSE LET qr == DivModSmall(acc[1], r) IN <<qr[1], <<qr[2]>> \o acc[2]>>,
               <<a, <<>> >>, Zeros(bound))
  IN res[2]
\* Horner
FromRadix(ds, r) == FoldLeft(LAMBDA acc, d : Add(MulSmall(acc, r), IF d = 0 THEN <<>> ELSE <<d>>), <<>>, ds)
\* Horner with digits grouped k at a time (r^k < 2^22): O(n^2 / k)
FromRadixChunked(ds, r, k, rk) ==
  LET n == Len(ds)
      first == n % k
      head == FoldLeft(LAMBDA acc, d : acc * r + d, 0, SubSeq(ds, 1, first))
      nch == n \div k
      res == FoldLeftDomain(LAMBDA acc, c :
                 LET base == first + (c - 1) * k
                     v == FoldLeft(LAMBDA x, d : x * r + d, 0, SubSeq(ds, base + 1, base + k))
                 IN Add(MulSmall(acc, rk), FromNat(v)),
               FromNat(head), Zeros(nch))
  IN res
=============================================================================
