------------------------------ MODULE MC_BigNat ------------------------------
(* Self-check of the oracle libraries: BigNat/BigInt against TLC's native integers
   exhaustively for |a|, |b| <= R, on LCG pairs below 2^15 / 2^30, and algebraic
   self-consistency on values of up to a few hundred limbs.  A failure here is a
   tool error of the verification machinery, never a verdict about dashu. *)
EXTENDS BigInt
CONSTANTS R, NBig

VARIABLES a, b, phase
vars == <<a, b, phase>>

NAbs(x) == IF x < 0 THEN -x ELSE x
NSgn(x) == IF x < 0 THEN -1 ELSE IF x > 0 THEN 1 ELSE 0
NTDiv(x, y) == NSgn(x) * NSgn(y) * (NAbs(x) \div NAbs(y))
NTRem(x, y) == x - y * NTDiv(x, y)
NBit(x, i) == (x \div (2^i)) % 2
NOp(op(_, _), x, y) ==
  LET v == FoldSet(LAMBDA i, acc : acc + op(NBit(x, i), NBit(y, i)) * 2^i, 0, 0..19)
      s == op(IF x < 0 THEN 1 ELSE 0, IF y < 0 THEN 1 ELSE 0)
  IN IF s = 1 THEN v - 2^20 ELSE v
AndB(p, q) == p * q
OrB(p, q) == IF p + q > 0 THEN 1 ELSE 0
XorB(p, q) == (p + q) % 2
RECURSIVE NGcd(_, _)
NGcd(x, y) == IF y = 0 THEN x ELSE NGcd(y, x % y)

SmallOK(x, y) ==
  LET X == IFromNative(x)  Y == IFromNative(y) IN
  /\ IsInt(X) /\ IToNative(X) = x
  /\ IToNative(IAdd(X, Y)) = x + y
  /\ IToNative(ISub(X, Y)) = x - y
  /\ IToNative(IMul(X, Y)) = x * y
  /\ ICmp(X, Y) = NSgn(x - y)
  /\ IToNative(INot(X)) = -x - 1
  /\ IToNative(IAnd(X, Y)) = NOp(AndB, x, y)
  /\ IToNative(IOr(X, Y)) = NOp(OrB, x, y)
  /\ IToNative(IXor(X, Y)) = NOp(XorB, x, y)
  /\ IsInt(IAnd(X, Y)) /\ IsInt(IOr(X, Y)) /\ IsInt(IXor(X, Y))
  /\ y # 0 => /\ IToNative(ITruncDivMod(X, Y)[1]) = NTDiv(x, y)
              /\ IToNative(ITruncDivMod(X, Y)[2]) = NTRem(x, y)
              /\ LET e == IEuclidDivMod(X, Y) IN
                   /\ IToNative(e[1]) * y + IToNative(e[2]) = x
                   /\ IToNative(e[2]) >= 0 /\ IToNative(e[2]) < NAbs(y)
  /\ \A k \in 0..11 : /\ IToNative(IShrFloor(X, k)) = x \div (2^k)
                      /\ IToNative(IShl(X, k)) = x * 2^k
                      /\ IBit(X, k) = NBit(x, k)
                      /\ ToNat(LowBits(X.m, k)) = NAbs(x) % (2^k)
  /\ ToNat(Gcd(X.m, Y.m)) = NGcd(NAbs(x), NAbs(y))
  /\ BitLen(X.m) = (CHOOSE k \in 0..31 : 2^k > NAbs(x) /\ (k = 0 \/ 2^(k-1) <= NAbs(x)))
  /\ CountOnes(X.m) = FoldSet(LAMBDA i, acc : acc + NBit(NAbs(x), i), 0, 0..19)
  /\ x # 0 => TrailingZeros(X.m) = (CHOOSE k \in 0..31 : NAbs(x) % (2^k) = 0 /\ NAbs(x) % (2^(k+1)) # 0)
  /\ \A r \in {2, 3, 7, 10, 16, 36, 255, 256} :
        /\ FromRadix(ToRadix(X.m, r), r) = X.m
        /\ (x # 0 => ToRadix(X.m, r)[1] # 0)
        /\ ToNat(FromRadix(ToRadix(X.m, r), r)) = NAbs(x)
  /\ \A e \in 0..3 : NAbs(x) <= 1000 => IToNative(IPow(X, e)) = (IF e = 0 THEN 1 ELSE x^e)

\* pseudo-random naturals below 2^15 / 2^30
Lcg(i) == ((i % 32768) * 25173 + 13849) % 32768
Lcg30(i) == Lcg(i) * 32768 + Lcg(i + 7919)
MidOK(i) ==
  LET x == Lcg30(i)  y == Lcg(i + 1) + 1  z == Lcg30(i + 3) + 1
      X == FromNat(x)  Y == FromNat(y)  Z == FromNat(z) IN
  /\ ToNat(X) = x
  /\ ToNat(Div(X, Y)) = x \div y /\ ToNat(Mod(X, Y)) = x % y
  /\ ToNat(Div(X, Z)) = x \div z /\ ToNat(Mod(X, Z)) = x % z
  /\ ToNat(DivSmall(X, y)) = x \div y
  /\ ToNat(Gcd(X, Z)) = NGcd(x, z)
  /\ ToNat(Mul(FromNat(Lcg(i)), FromNat(Lcg(i + 1)))) = Lcg(i) * Lcg(i + 1)
  /\ ToNat(Shr(X, i % 31)) = x \div (2^(i % 31))
  /\ Residue(X, 32749) = x % 32749
  /\ BitLen(X) = (CHOOSE k \in 0..31 : 2^k > x /\ (k = 0 \/ 2^(k-1) <= x))

\* pseudo-random value of n limbs
BigVal(seed, n) == Norm([i \in 1..n |-> (i * 73 + seed * 151 + ((i * i * seed) % 97)) % 256])
BigOK(seed) ==
  LET n1 == 1 + ((seed * 37) % 300)  n2 == 1 + ((seed * 91) % 120)  n3 == 1 + ((seed * 13) % 40)
      A == BigVal(seed, n1)  Bv == BigVal(seed + 1, n2)  C == BigVal(seed + 2, n3)
      AB == Mul(A, Bv)
      k == (seed * 29) % 70
  IN /\ IsNat(A) /\ IsNat(AB)
     /\ Sub(Add(A, Bv), Bv) = A
     /\ Mul(A, Bv) = Mul(Bv, A)
     /\ Mul(Add(A, Bv), C) = Add(Mul(A, C), Mul(Bv, C))
     /\ (Bv # <<>> => LET qr == DivMod(Add(AB, C), Bv) IN Add(Mul(qr[1], Bv), qr[2]) = Add(AB, C) /\ Lt(qr[2], Bv))
     /\ (Bv # <<>> /\ Lt(C, Bv) => DivMod(Add(AB, C), Bv) = <<A, C>>)
     /\ Shr(Shl(A, k), k) = A
     /\ Shl(A, k) = Mul(A, PowerOfTwo(k))
     /\ Add(Shl(Shr(A, k), k), LowBits(A, k)) = A
     /\ \A p \in {32749, 32719, 251} : Residue(AB, p) = (Residue(A, p) * Residue(Bv, p)) % p
     /\ FromRadix(ToRadix(C, 10), 10) = C
     /\ FromRadixChunked(ToRadix(C, 10), 10, 6, 1000000) = C
     /\ FromRadixChunked(ToRadix(C, 36), 36, 4, 1679616) = C
     /\ Pow(C, 3) = Mul(C, Mul(C, C))
     /\ BXor(BXor(A, Bv), Bv) = A
     /\ Add(BAnd(A, Bv), BOr(A, Bv)) = Add(A, Bv)
     /\ BitLen(Shl(A, k)) = (IF A = <<>> THEN 0 ELSE BitLen(A) + k)
     /\ IAnd(I(1, A), I(0, Bv)) = ISub(I(0, Bv), IAnd(INot(I(1, A)), I(0, Bv)))
     /\ INot(IOr(I(1, A), I(1, Bv))) = IAnd(INot(I(1, A)), INot(I(1, Bv)))
     /\ IXor(I(1, A), I(0, Bv)) = ISub(IOr(I(1, A), I(0, Bv)), IAnd(I(1, A), I(0, Bv)))
     /\ (Bv # <<>> => Gcd(Mul(C, Bv), Bv) = Bv)

Init == phase = "pick" /\ a \in -R..R /\ b = 0
PickSmall == phase = "pick" /\ phase' = "small" /\ b' \in -R..R /\ UNCHANGED a
PickMid == phase = "pick" /\ a >= 0 /\ phase' = "mid" /\ b' \in 0..3 /\ UNCHANGED a
PickBig == phase = "pick" /\ a >= 0 /\ a < NBig /\ phase' = "big" /\ UNCHANGED <<a, b>>
Next == PickSmall \/ PickMid \/ PickBig
Spec == Init /\ [][Next]_vars

SmallInv == phase = "small" => SmallOK(a, b)
MidInv == phase = "mid" => MidOK(a * 4 + b)
BigInv == phase = "big" => BigOK(a)
=============================================================================
