SPECIFICATION Spec
INVARIANTS SmallInv MidInv BigInv
CONSTANTS
  R = 130
  NBig = 60
CHECK_DEADLOCK FALSE
