-------------------------------- MODULE Rat --------------------------------
(* Exact rationals over BigInt: [n |-> BigInt, d |-> BigNat] with d > 0, not necessarily in
   lowest terms.  Comparison and equality are by cross multiplication. *)
EXTENDS BigInt

Q(n, d) == [n |-> n, d |-> d]
QFromInt(x) == Q(x, One)
QZero == Q(IZero, One)
IsRat(q) == IsInt(q.n) /\ IsNat(q.d) /\ q.d # <<>>
\* n / d for signed BigInt d # 0
QFromSigned(n, d) == Q(I((n.s + d.s) % 2, n.m), d.m)
QNeg(q) == Q(INeg(q.n), q.d)
QAbs(q) == Q(IAbs(q.n), q.d)
QSign(q) == ISign(q.n)
QAdd(p, q) == Q(IAdd(IMul(p.n, IFromNat(q.d)), IMul(q.n, IFromNat(p.d))), Mul(p.d, q.d))
QSub(p, q) == QAdd(p, QNeg(q))
QMul(p, q) == Q(IMul(p.n, q.n), Mul(p.d, q.d))
\* q # 0
QInv(q) == Q(I(q.n.s, q.d), q.n.m)
QDiv(p, q) == QMul(p, QInv(q))
QCmp(p, q) == ICmp(IMul(p.n, IFromNat(q.d)), IMul(q.n, IFromNat(p.d)))
QEq(p, q) == QCmp(p, q) = 0
QLt(p, q) == QCmp(p, q) < 0
QLe(p, q) == QCmp(p, q) <= 0
QMulInt(q, x) == Q(IMul(q.n, x), q.d)
QIsZero(q) == IIsZero(q.n)
\* floor(q), ceil(q), trunc(q) as BigInt
QFloor(q) == IFloorDivMod(q.n, q.d)[1]
QCeil(q) == INeg(IFloorDivMod(INeg(q.n), q.d)[1])
QTrunc(q) == I(q.n.s, Div(q.n.m, q.d))
\* canonical form
QGcd(q) == Gcd(q.n.m, q.d)
QReduce(q) == LET g == QGcd(q) IN Q(I(q.n.s, Div(q.n.m, g)), Div(q.d, g))
\* lowest terms, positive denominator, zero is 0/1
QCanonical(q) == IsRat(q) /\ (IF q.n.m = <<>> THEN q.d = One ELSE Gcd(q.n.m, q.d) = One)
\* B^k as a rational for any native integer k, native base B >= 2
QPowBase(B, k) == IF k >= 0 THEN Q(I(0, Pow(FromNat(B), k)), One) ELSE Q(IOne, Pow(FromNat(B), -k))
=============================================================================
