------------------------------- MODULE BigInt -------------------------------
(***************************************************************************)
(* Signed arbitrary-size integers on top of BigNat: a record               *)
(*   [s |-> 0 | 1, m |-> BigNat]   with s = 1 meaning negative; zero has   *)
(* s = 0.  This is also the wire format of the conformance harness.        *)
(***************************************************************************)
EXTENDS BigNat

I(s, m) == [s |-> IF m = <<>> THEN 0 ELSE s, m |-> m]
IZero == [s |-> 0, m |-> <<>>]
IOne == [s |-> 0, m |-> One]
IsInt(x) == x.s \in {0, 1} /\ IsNat(x.m) /\ (x.m = <<>> => x.s = 0)
IFromNative(n) == IF n < 0 THEN I(1, FromNat(-n)) ELSE I(0, FromNat(n))
IToNative(x) == IF x.s = 1 THEN -ToNat(x.m) ELSE ToNat(x.m)
IFromNat(m) == I(0, m)
IIsZero(x) == x.m = <<>>
ISign(x) == IF x.m = <<>> THEN 0 ELSE IF x.s = 1 THEN -1 ELSE 1
INeg(x) == I(1 - x.s, x.m)
IAbs(x) == I(0, x.m)

IAdd(x, y) ==
  IF x.s = y.s THEN I(x.s, Add(x.m, y.m))
  ELSE LET c == Cmp(x.m, y.m) IN
       IF c = 0 THEN IZero
       ELSE IF c > 0 THEN I(x.s, Sub(x.m, y.m)) ELSE I(y.s, Sub(y.m, x.m))
ISub(x, y) == IAdd(x, INeg(y))
IMul(x, y) == I((x.s + y.s) % 2, Mul(x.m, y.m))
ICmp(x, y) ==
  IF x.s # y.s THEN (IF x.s = 1 THEN -1 ELSE 1)
  ELSE IF x.s = 0 THEN Cmp(x.m, y.m) ELSE Cmp(y.m, x.m)
IEq(x, y) == x.s = y.s /\ x.m = y.m
IPow(x, n) == I(IF n % 2 = 1 THEN x.s ELSE 0, Pow(x.m, n))
IMulSmall(x, k) == IF k < 0 THEN I(1 - x.s, MulSmall(x.m, -k)) ELSE I(x.s, MulSmall(x.m, k))

\* truncated division (quotient toward zero, remainder takes the sign of the dividend)
ITruncDivMod(x, y) ==
  LET qr == DivMod(x.m, y.m) IN <<I((x.s + y.s) % 2, qr[1]), I(x.s, qr[2])>>
\* floor division by a positive natural d: <<q, r>> with 0 <= r < d
IFloorDivMod(x, d) ==
  LET qr == DivMod(x.m, d) IN
  IF x.s = 0 \/ qr[2] = <<>> THEN <<I(x.s, qr[1]), I(0, qr[2])>>
  ELSE <<I(1, Add(qr[1], One)), I(0, Sub(d, qr[2]))>>
\* Euclidean division: 0 <= r < |y|
IEuclidDivMod(x, y) ==
  LET fr == IFloorDivMod(x, y.m) IN <<I((fr[1].s + y.s) % 2, fr[1].m), fr[2]>>

\* floor(x / 2^k)
IShrFloor(x, k) ==
  IF x.s = 0 THEN I(0, Shr(x.m, k))
  ELSE LET q == Shr(x.m, k) IN
       IF LowBits(x.m, k) = <<>> THEN I(1, q) ELSE I(1, Add(q, One))
IShl(x, k) == I(x.s, Shl(x.m, k))

(***************************************************************************)
(* Infinite two's complement.  A value is written on a window of n bytes   *)
(* (n large enough for both operands plus a sign byte); negative x is      *)
(* 256^n - |x|.  Operations are bytewise on the windows, and the result is *)
(* read back with the sign given by the operation applied to the operand   *)
(* signs.  (The code under test instead uses magnitude-minus-one           *)
(* identities per sign case: this definition is deliberately different.)   *)
(***************************************************************************)
TwosWindow(x, n) ==
  IF x.s = 0 THEN [i \in 1..n |-> Limb(x.m, i)]
  ELSE LET c == Sub(ShlBytes(One, n), x.m) IN [i \in 1..n |-> Limb(c, i)]
FromTwosWindow(w, neg) ==
  IF ~neg THEN I(0, Norm(w))
  ELSE I(1, Sub(ShlBytes(One, Len(w)), Norm(w)))
WinLen(x, y) == Max2(Len(x.m), Len(y.m)) + 1
IAnd(x, y) == LET n == WinLen(x, y) wx == TwosWindow(x, n) wy == TwosWindow(y, n)
              IN FromTwosWindow([i \in 1..n |-> wx[i] & wy[i]], x.s = 1 /\ y.s = 1)
IOr(x, y)  == LET n == WinLen(x, y) wx == TwosWindow(x, n) wy == TwosWindow(y, n)
              IN FromTwosWindow([i \in 1..n |-> wx[i] | wy[i]], x.s = 1 \/ y.s = 1)
IXor(x, y) == LET n == WinLen(x, y) wx == TwosWindow(x, n) wy == TwosWindow(y, n)
              IN FromTwosWindow([i \in 1..n |-> wx[i] ^^ wy[i]], x.s # y.s)
INot(x) == ISub(INeg(x), IOne)
\* bit i of the infinite two's complement form
IBit(x, i) ==
  IF x.s = 0 THEN Bit(x.m, i)
  ELSE LET n == Max2(Len(x.m), i \div 8 + 1) + 1 IN
       (TwosWindow(x, n)[i \div 8 + 1] \div Pow2Small(i % 8)) % 2

\* residue in 0..p-1 for a native modulus p < 2^15
IResidue(x, p) == LET r == Residue(x.m, p) IN IF x.s = 1 /\ r # 0 THEN p - r ELSE r
=============================================================================
