------------------------------ MODULE FormsDef ------------------------------
(* Definition layer of C15.
   (1) Agreement: an event lists the outcomes of all call forms of ONE operation on ONE operand
       tuple, grouped by identical outcome.  All forms must return the same value, or all must
       panic.  Division forms return different parts of the result (quotient, remainder, both,
       truncating or Euclidean convention): they must agree on every part they share.
   (2) Inventory: every form name must belong to the inventory of its operation (Inventory.tla);
       the check measures which inventory cells a run exercised.
   (3) Clone independence: the register machine CloneMachine below. *)
EXTENDS Rat, Inventory

Fam(e) == IF "fam" \in DOMAIN e THEN e.fam ELSE e.prop
Key(e) == Fam(e) \o ":" \o e.op \o (IF "lt" \in DOMAIN e THEN ":" \o e.lt \o e.rt ELSE "")

\* ---- agreement ----
DivPartsAgree(v, w) ==
  /\ (v.conv = w.conv /\ v.conv \in {"T", "E"}) =>
        /\ (v.hq = 1 /\ w.hq = 1 => v.q = w.q)
        /\ (v.hr = 1 /\ w.hr = 1 => v.r = w.r)
  /\ (v.conv = "M" /\ w.conv = "M") => v.mult = w.mult
  /\ (v.conv = "M" /\ w.conv = "T" /\ w.hr = 1) => (v.mult = (w.r.m = <<>>))
DivAgree(o1, o2) == IF o1.k = "panic" \/ o2.k = "panic" THEN o1.k = o2.k
                    ELSE DivPartsAgree(o1.v, o2.v) /\ DivPartsAgree(o2.v, o1.v)
\* rationals are compared by value (a Relaxed result need not be in lowest terms)
RatVal(v) == Q(v.num, v.den.m)
SameRat(a, b) == a = b \/ (a.den.m # <<>> /\ b.den.m # <<>> /\ QEq(RatVal(a), RatVal(b)))
EuclidPartsAgree(v, w) == /\ (v.hq = 1 /\ w.hq = 1 => v.q = w.q)
                          /\ (v.hr = 1 /\ w.hr = 1 => SameRat(v.r, w.r))
RatAgree(e, o1, o2) ==
  IF o1.k = "panic" \/ o2.k = "panic" THEN o1.k = o2.k
  ELSE IF e.op = "euclid" THEN EuclidPartsAgree(o1.v, o2.v) ELSE SameRat(o1.v, o2.v)
\* float Euclidean forms: the quotient is an integer, the remainder a float compared as recorded (representation and all)
FloatEuclidAgree(o1, o2) ==
  IF o1.k = "panic" \/ o2.k = "panic" THEN o1.k = o2.k
  ELSE /\ (o1.v.hq = 1 /\ o2.v.hq = 1 => o1.v.q = o2.v.q)
       /\ (o1.v.hr = 1 /\ o2.v.hr = 1 => o1.v.r = o2.v.r)
Disagreement(e) ==
  IF Fam(e) = "float" /\ e.op = "euclid"
  THEN \E i, j \in 1..Len(e.outs) : i < j /\ ~FloatEuclidAgree(e.outs[i].out, e.outs[j].out)
  ELSE IF Fam(e) = "C02"
  THEN \E i, j \in 1..Len(e.outs) : i < j /\ ~DivAgree(e.outs[i].out, e.outs[j].out)
  ELSE IF Fam(e) \in {"rbig", "relaxed"}
  THEN \E i, j \in 1..Len(e.outs) : i < j /\ ~RatAgree(e, e.outs[i].out, e.outs[j].out)
  ELSE Len(e.outs) > 1          \* groups are maximal sets of forms with identical outcome

UnknownForms(e) == IF Key(e) \notin DOMAIN Inventory THEN {"<no inventory for " \o Key(e) \o ">"}
                   ELSE {f \in UNION {{g.forms[i] : i \in 1..Len(g.forms)} : g \in {e.outs[j] : j \in 1..Len(e.outs)}} : f \notin Inventory[Key(e)]}

\* ---- clone machine: NREG registers; every step changes at most the destination ----
NREG == 4
Words(x) == (Len(x.m) + 7) \div 8
CloneStep(regs, e) ==
  LET d == e.dst  s == e.src
      nv == CASE e.op = "init" -> IZero
              [] e.op = "set" -> e.v
              [] e.op \in {"clone", "clone_from"} -> regs[s]
              [] e.op = "add_k" -> IAdd(regs[d], IFromNative(e.k))
              [] e.op = "shl_k" -> IShl(regs[d], e.k)
              [] e.op = "shr_k" -> IShrFloor(regs[d], e.k)
              [] e.op = "sqr_self" -> LET sq == IMul(regs[d], regs[d]) IN IF Words(sq) > 60 THEN IShrFloor(sq, 3200) ELSE sq
              [] e.op = "sub_self" -> IZero
              [] e.op = "panicked" -> regs[d]          \* a step that panicked must at least leave every register intact
  IN IF e.op = "init" THEN [i \in 1..NREG |-> IZero] ELSE [regs EXCEPT ![d] = nv]
\* composite values: a set / mutation step reports the new value of its destination (what the operation computes is the
\* business of C03 / C04; here only "the destination and nothing else changed, a clone is its source" is judged)
CloneStepG(gregs, e) ==
  LET nv == CASE e.op \in {"set", "mut"} -> e.v
              [] e.op \in {"clone", "clone_from"} -> gregs[e.src]
              [] OTHER -> gregs[e.dst]
  IN [gregs EXCEPT ![e.dst] = nv]
=============================================================================
