----------------------------- MODULE Trace_C15 -----------------------------
(* Trace monitor for C15: agreement of call forms, inventory membership, clone independence. *)
EXTENDS FormsDef, Json, IOUtils
Rec == ndJsonDeserialize(IOEnv.TRACE)

VARIABLES l, bad, regs, gregs
Init == l = 1 /\ bad = <<>> /\ regs = [i \in 1..NREG |-> IZero] /\ gregs = <<>>
Next == /\ l <= Len(Rec)
        /\ LET e == Rec[l] IN
           IF Fam(e) = "clone"
           THEN LET exp == CloneStep(regs, e)
                    got == [i \in 1..NREG |-> e.regs[i]]
                    ok == \A i \in 1..NREG : IsInt(got[i]) /\ IEq(got[i], exp[i])
                IN /\ bad' = IF e.op = "panicked" THEN Append(bad, [i |-> l, why |-> "clone-step-panicked"])
                             ELSE IF ok THEN bad
                             ELSE Append(bad, [i |-> l, why |-> IF IEq(got[e.dst], exp[e.dst]) THEN "clone-not-independent" ELSE "clone-wrong-value"])
                   /\ regs' = got                 \* re-synchronise from the observation
                   /\ gregs' = gregs
           \* the composite types (RBig, Relaxed, FBig, DBig): registers are wire values compared structurally
           ELSE IF Fam(e) = "cloneg"
           THEN LET got == [i \in 1..NREG |-> e.regs[i]]
                    exp == IF e.op = "init" THEN got ELSE CloneStepG(gregs, e)
                IN /\ bad' = IF e.op = "panicked" THEN Append(bad, [i |-> l, why |-> "clone-step-panicked"])
                             ELSE IF got = exp THEN bad
                             ELSE Append(bad, [i |-> l, why |-> IF got[e.dst] = exp[e.dst] THEN "clone-not-independent" ELSE "clone-wrong-value"])
                   /\ gregs' = got
                   /\ regs' = regs
           ELSE /\ regs' = regs
                /\ gregs' = gregs
                /\ bad' = IF Fam(e) = "driver" THEN Append(bad, [i |-> l, why |-> "operand-construction-panicked"])
                          ELSE IF "outs" \notin DOMAIN e THEN bad        \* single-form query events
                          ELSE IF Disagreement(e) THEN Append(bad, [i |-> l, why |-> "forms-disagree"])
                          ELSE IF UnknownForms(e) # {} THEN Append(bad, [i |-> l, why |-> "form-not-in-inventory"])
                          ELSE bad
        /\ l' = l + 1
Spec == Init /\ [][Next]_<<l, bad, regs, gregs>>
Verdict == l > Len(Rec) => PrintT(<<"VERDICT", ToJson([total |-> Len(Rec), bad |-> bad])>>)
Complete == IF TLCGet("stats").diameter - 1 = Len(Rec) THEN TRUE
            ELSE PrintT(<<"TRUNCATED", TLCGet("stats").diameter>>) /\ FALSE
=============================================================================
