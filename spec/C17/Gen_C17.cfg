SPECIFICATION Spec
INVARIANT Emit
CONSTANTS
  Depth = 4
  R1 = 6
  R2 = 17
  R3 = 17
  R4 = 17
  R5 = 17
  Seed = 1
  Pools = {"U", "I"}
CHECK_DEADLOCK FALSE
