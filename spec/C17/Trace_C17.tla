----------------------------- MODULE Trace_C17 -----------------------------
(* Trace monitor of C17: one event = one history of the integer pool machine executed under the
   recording allocator of harness/src/bin/c17.rs.  The allocator events of every step
       <<1, id, size, align>>                      alloc
       <<2, id, size, align>>                      dealloc (size, align as passed by the caller)
       <<3, id, old size, align, new id, new size>> realloc
       <<4, id, front ok, rear ok>>                red zone of a freed block was overwritten
       <<5, 0, size, align>>                       dealloc / realloc of a pointer that is no block
       <<6, id, size, align>>                      dealloc / realloc of an already freed block
   are replayed on the HeapDef heap model, interleaved with the operations.  After every step:
     * the HeapDef contract was honoured (dealloc / realloc of live blocks with the recorded layout,
       red zones intact),
     * ReprDef!Canonical holds for the hook triple of the destination register,
     * every heap-resident register owns a live block of capacity * WordBytes bytes, no two
       registers share a block, values built from static words own none;
   and when all registers have been dropped at the end of the history no block is live.
   Events with noalloc = TRUE (the same histories executed under Miri, where the allocator is
   Miri's) carry no allocator events: only Canonical is evaluated for them.

   The shape predicted by the algorithm layer (ReprAlg) is compared with the observed triple for
   the constructors it models; disagreements are counted (`shapedrift`), they are not verdicts. *)
EXTENDS PoolMachine, HeapDef, Json, IOUtils
CONSTANTS FixOnes, WordBytes, WordBits
Rec == ndJsonDeserialize(IOEnv.TRACE)

Idx(n) == [i \in 1..n |-> i]
NoAlign == [p \in {} |-> 0]
\* allocator state: HeapDef heap + the alignment every live block was allocated with
ApplyAl(st, a) ==
  LET h == st.h IN
  CASE a[1] = 1 -> [h |-> HAlloc(h, a[2], a[3]), al |-> [p \in DOMAIN st.al \cup {a[2]} |-> IF p = a[2] THEN a[4] ELSE st.al[p]]]
    [] a[1] = 2 -> [h |-> IF a[2] \in DOMAIN st.al /\ st.al[a[2]] # a[4] THEN Note(HDealloc(h, a[2], a[3]), "dealloc-with-wrong-alignment")
                          ELSE HDealloc(h, a[2], a[3]),
                    al |-> [p \in DOMAIN st.al \ {a[2]} |-> st.al[p]]]
    [] a[1] = 3 -> [h |-> IF a[2] \in DOMAIN st.al /\ st.al[a[2]] # a[4] THEN Note(HRealloc(h, a[2], a[3], a[6], a[5]), "realloc-with-wrong-alignment")
                          ELSE HRealloc(h, a[2], a[3], a[6], a[5]),
                    al |-> [p \in (DOMAIN st.al \ {a[2]}) \cup {a[5]} |-> IF p = a[5] THEN a[4] ELSE st.al[p]]]
    [] a[1] = 4 -> [st EXCEPT !.h = Note(h, "red-zone-overwritten")]
    [] a[1] = 5 -> [st EXCEPT !.h = Note(h, "dealloc-of-unknown-pointer")]
    [] a[1] = 6 -> [st EXCEPT !.h = Note(h, "dealloc-of-dead-block")]
    [] OTHER -> [st EXCEPT !.h = Note(h, "malformed-allocator-event")]
ApplyAll(st, evs) == FoldLeft(ApplyAl, st, evs)

ZeroTriple == [neg |-> FALSE, cap |-> 1, len |-> 0, heap |-> FALSE, ptr |-> 0, st |-> FALSE]

OwnWhy(h, tr, n) ==
  LET owners == {r \in 1..n : tr[r].heap /\ ~tr[r].st} IN
  IF \E r \in owners : tr[r].ptr \notin Live(h) THEN "value-points-to-dead-block"
  ELSE IF \E r \in owners : h.live[tr[r].ptr] # tr[r].cap * WordBytes THEN "block-size-differs-from-capacity"
  ELSE IF \E r1, r2 \in owners : r1 # r2 /\ tr[r1].ptr = tr[r2].ptr THEN "block-shared"
  ELSE IF \E r \in 1..n : tr[r].heap /\ tr[r].st /\ tr[r].ptr \in Live(h) THEN "static-value-owns-a-block"
  ELSE ""

\* algorithm-layer prediction of the destination's shape (ok = FALSE: not modelled)
NoShape == [ok |-> FALSE, cap |-> 0, len |-> 0]
Sh(s) == [ok |-> TRUE, cap |-> s.cap, len |-> s.len]
PredShape(s, tr) ==
  CASE s.op = "const" /\ s.f \in {"words", "parts"} ->
         \* explicit bytes, or the compact form: exactly w words
         LET nw == IF "c" \in DOMAIN s THEN NWords(s.c.m) ELSE s.w IN Sh(A_FromWords(nw, nw))
    [] s.op = "rewords" -> Sh(A_FromWords(tr[s.a].len, tr[s.a].len))
    [] s.op = "ones" -> Sh(A_Ones(s.n, WordBits, FixOnes))
    [] s.op = "clone" -> Sh(A_Clone(tr[s.a]))
    [] s.op = "clonefrom" ->
         LET me == IF tr[s.d].st THEN ZeroTriple ELSE tr[s.d] IN
         IF s.a = s.d THEN Sh(A_CloneFrom(me, A_Clone(tr[s.d]))) ELSE Sh(A_CloneFrom(me, tr[s.a]))
    [] s.op = "static" -> Sh(A_FromStatic(IF s.n > 12 THEN 12 ELSE s.n))
    [] s.op = "drop" -> Sh(Shape(1, 0))
    [] OTHER -> NoShape

Documented == {"UBig result must not be negative", "divisor must not be 0"}

Replay(e) ==
  LET n == e.nr
      init == [val |-> [r \in 1..n |-> ZeroVal(e.pool)], tr |-> [r \in 1..n |-> ZeroTriple],
               st |-> [h |-> EmptyHeap, al |-> NoAlign], why |-> "", at |-> 0, sd |-> 0, sdo |-> 0, up |-> 0]
      Step(acc, k) ==
        IF acc.why # "" THEN acc ELSE
        LET s == e.steps[k]
            o == e.obs[k]
            d == s.d
            x == Dec(e.pool, o.v)
            t == o.t[1]
            st2 == IF e.noalloc THEN acc.st ELSE ApplyAll(acc.st, o.al)
            ntr == [acc.tr EXCEPT ![d] = t]
            ps == IF o.k = "ok" THEN PredShape(s, acc.tr) ELSE NoShape
            dr == ps.ok /\ (ps.cap # t.cap \/ ps.len # t.len)
            cw == IF WellFormed(x) THEN CanonicalWhy(t, NWords(x.i.m)) ELSE "malformed-value"
            w == IF st2.h.err # "" THEN st2.h.err
                 ELSE IF cw # "" THEN "not-canonical-" \o cw
                 ELSE IF e.noalloc THEN ""
                 ELSE OwnWhy(st2.h, ntr, n)
        IN [val |-> [acc.val EXCEPT ![d] = x], tr |-> ntr, st |-> st2, why |-> w, at |-> IF w = "" THEN 0 ELSE k,
            sd |-> acc.sd + (IF dr THEN 1 ELSE 0),
            sdo |-> acc.sdo + (IF dr /\ s.op = "ones" THEN 1 ELSE 0),
            up |-> acc.up + (IF o.k = "panic" /\ o.msg \notin Documented THEN 1 ELSE 0)]
      r == FoldLeft(Step, init, Idx(Len(e.steps)))
      \* end of the history: the final observation must agree with the tracked registers, then all are dropped
      f == e.fin
      stEnd == IF e.noalloc THEN r.st ELSE ApplyAll(r.st, e.alend)
      wEnd == IF \E q \in 1..n : Dec(e.pool, f.v[q]) # r.val[q] \/ f.t[q][1] # r.tr[q] THEN "register-changed-behind-the-history"
              ELSE IF stEnd.h.err # "" THEN stEnd.h.err
              ELSE IF ~e.noalloc /\ Live(stEnd.h) # {} THEN "leak"
              ELSE ""
  IN IF r.why # "" THEN r ELSE [r EXCEPT !.why = wEnd, !.at = IF wEnd = "" THEN 0 ELSE Len(e.steps) + 1]

VARIABLES l, bad, shapedrift, onesdrift, panics
vars == <<l, bad, shapedrift, onesdrift, panics>>
Init == l = 1 /\ bad = <<>> /\ shapedrift = 0 /\ onesdrift = 0 /\ panics = 0
Next == /\ l <= Len(Rec)
        /\ LET r == Replay(Rec[l]) IN
           /\ bad' = IF r.why = "" THEN bad ELSE Append(bad, [i |-> l, why |-> r.why, at |-> r.at])
           /\ shapedrift' = shapedrift + r.sd
           /\ onesdrift' = onesdrift + r.sdo
           /\ panics' = panics + r.up
        /\ l' = l + 1
Spec == Init /\ [][Next]_vars
Verdict == l > Len(Rec) => PrintT(<<"VERDICT", ToJson([total |-> Len(Rec), bad |-> bad, shapedrift |-> shapedrift,
                                                       onesdrift |-> onesdrift, unexpected_panics |-> panics])>>)
Complete == IF TLCGet("stats").diameter - 1 = Len(Rec) THEN TRUE
            ELSE PrintT(<<"TRUNCATED", TLCGet("stats").diameter>>) /\ FALSE
=============================================================================
