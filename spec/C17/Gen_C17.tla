------------------------------ MODULE Gen_C17 ------------------------------
(* Behaviour generator of C17: histories over 3 registers whose sizes move across the inline
   (<= 2 words) / heap (>= 3 words) boundary and across the reallocation thresholds of
   Buffer::default_capacity / max_compact_capacity (sizes 0, 1, 2, 3, 4, 9, 10, 11 words), with
       construct r <- size          clone r <- r'            clone_from r <- r' (larger / smaller /
       equal size, and r <- r.clone())                       r op= &r.clone()   r op= &r'
       words / bytes / IBig<->UBig round trips               static words       drop
       shifts that shrink or grow by whole words             ones(128), ones(192)
   At level i one operation in Ri is taken (deterministic pseudo-random choice depending on
   Seed; all ones = exhaustive).  One case per maximal history.  Constants are described
   compactly (words, pattern, salt): the harness expands them and logs the bytes. *)
EXTENDS Integers, Sequences, SequencesExt, TLC, Json
CONSTANTS Depth, R1, R2, R3, R4, R5, Seed, Pools
Rates == <<R1, R2, R3, R4, R5>>

R == 3
Sizes == <<0, 1, 2, 3, 4, 9, 10, 11>>
Pairs == <<<<1, 2>>, <<1, 3>>, <<2, 1>>, <<2, 3>>, <<3, 1>>, <<3, 2>>>>
Ariths == <<"add", "sub", "mul">>

Alpha ==
     [i \in 1..24 |-> [op |-> "const", d |-> 1 + ((i - 1) \div 8), a |-> 0, n |-> Sizes[1 + ((i - 1) % 8)], x |-> ""]]
  \o [i \in 1..6 |-> [op |-> "clone", d |-> Pairs[i][1], a |-> Pairs[i][2], n |-> 0, x |-> ""]]
  \o [i \in 1..6 |-> [op |-> "clonefrom", d |-> Pairs[i][1], a |-> Pairs[i][2], n |-> 0, x |-> ""]]
  \o [i \in 1..3 |-> [op |-> "clonefrom", d |-> i, a |-> i, n |-> 0, x |-> ""]]
  \o [i \in 1..9 |-> [op |-> "selfop", d |-> 1 + ((i - 1) \div 3), a |-> 0, n |-> 0, x |-> Ariths[1 + ((i - 1) % 3)]]]
  \o [i \in 1..18 |-> [op |-> "inplace", d |-> Pairs[1 + ((i - 1) \div 3)][1], a |-> Pairs[1 + ((i - 1) \div 3)][2], n |-> 0, x |-> Ariths[1 + ((i - 1) % 3)]]]
  \o [i \in 1..3 |-> [op |-> "rewords", d |-> i, a |-> i, n |-> 0, x |-> ""]]
  \o [i \in 1..3 |-> [op |-> "rebytes", d |-> i, a |-> i, n |-> 0, x |-> ""]]
  \o [i \in 1..3 |-> [op |-> "via", d |-> i, a |-> i, n |-> 0, x |-> ""]]
  \o [i \in 1..9 |-> [op |-> "static", d |-> 1 + ((i - 1) \div 3), a |-> 0, n |-> <<2, 3, 9>>[1 + ((i - 1) % 3)], x |-> ""]]
  \o [i \in 1..3 |-> [op |-> "drop", d |-> i, a |-> 0, n |-> 0, x |-> ""]]
  \o [i \in 1..6 |-> [op |-> "shr", d |-> 1 + ((i - 1) \div 2), a |-> 0, n |-> <<64, 512>>[1 + ((i - 1) % 2)], x |-> ""]]
  \o [i \in 1..3 |-> [op |-> "shl", d |-> i, a |-> 0, n |-> 64, x |-> ""]]
  \o [i \in 1..6 |-> [op |-> "ones", d |-> 1 + ((i - 1) \div 2), a |-> 0, n |-> <<128, 192>>[1 + ((i - 1) % 2)], x |-> ""]]
NA == Len(Alpha)

VARIABLES pool, hist
vars == <<pool, hist>>

HashOf(h) == FoldLeft(LAMBDA acc, j : (acc * 31 + j) % 10007, 11 + Seed, h)
Key == <<IF pool = "U" THEN 1 ELSE 2>> \o hist
Keep(level, j) == (HashOf(Key) + j * 7) % Rates[level] = 0
Leaf == Len(hist) = Depth \/ ~(\E j \in 1..NA : Keep(Len(hist) + 1, j))

Init == pool \in Pools /\ hist = <<>>
Next == /\ Len(hist) < Depth
        /\ \E j \in 1..NA : Keep(Len(hist) + 1, j) /\ hist' = Append(hist, j)
        /\ UNCHANGED pool
Spec == Init /\ [][Next]_vars

StepOf(k) ==
  LET o == Alpha[hist[k]]
      h == HashOf(SubSeq(Key, 1, k)) + k
      cf == IF pool = "U" THEN "words" ELSE "parts"
  IN CASE o.op = "const" -> [op |-> "const", d |-> o.d, f |-> cf, w |-> o.n, pat |-> h % 8, salt |-> h % 97, s |-> (h \div 8) % 2]
       [] o.op = "selfop" -> [op |-> o.x, d |-> o.d, a |-> o.d, b |-> o.d, f |-> "ar"]
       [] o.op = "inplace" -> [op |-> o.x, d |-> o.d, a |-> o.d, b |-> o.a, f |-> "ap"]
       [] o.op = "static" -> [op |-> "static", d |-> o.d, n |-> o.n, b |-> h % 2, f |-> IF pool = "I" /\ (h \div 2) % 2 = 1 THEN "neg" ELSE "pos"]
       [] o.op \in {"shr", "shl"} -> [op |-> o.op, d |-> o.d, a |-> o.d, n |-> o.n, f |-> <<"v", "r", "a">>[1 + (h % 3)]]
       [] o.op = "ones" -> [op |-> "ones", d |-> o.d, n |-> o.n]
       [] o.op = "rebytes" -> [op |-> "rebytes", d |-> o.d, a |-> o.a, f |-> IF h % 2 = 0 THEN "le" ELSE "be"]
       [] o.op = "drop" -> [op |-> "drop", d |-> o.d]
       [] OTHER -> [op |-> o.op, d |-> o.d, a |-> o.a]
\* every history starts from a populated pool: three constants of pseudo-randomly chosen size classes
Pre(i) ==
  LET h == HashOf(Key) + 13 * i IN
  [op |-> "const", d |-> i, f |-> IF pool = "U" THEN "words" ELSE "parts", w |-> Sizes[1 + (h % 8)],
   pat |-> (h \div 8) % 8, salt |-> h % 89, s |-> (h \div 64) % 2]
Case == [pool |-> pool, nr |-> R, depth |-> Len(hist),
         steps |-> [i \in 1..R |-> Pre(i)] \o [k \in 1..Len(hist) |-> StepOf(k)]]

Emit == (Leaf /\ Len(hist) > 0) => PrintT(<<"GEN", ToJson(Case)>>)
=============================================================================
