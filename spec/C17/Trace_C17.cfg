SPECIFICATION Spec
INVARIANT Verdict
POSTCONDITION Complete
CONSTANTS
  FixOnes = FALSE
  WordBytes = 8
  WordBits = 64
CHECK_DEADLOCK FALSE
