------------------------------ MODULE ReprAlg ------------------------------
(* Algorithm layer, pure part: the storage decisions of integer/src/repr.rs and buffer.rs as
   functions on shapes [cap |-> capacity, len |-> length] (heap-resident iff cap > 2).  One
   operator per constructor / branch of the Rust code.  Used by ReprLayer (model checking against
   ReprDef!Canonical and HeapDef) and by the trace monitors to predict the observed hook triple
   (a disagreement there is DRIFT, never a verdict).

   Word contents are abstracted to the number of significant words, which is all the storage
   decisions depend on.  wb = bits per word. *)
EXTENDS ReprDef

Shape(cap, len) == [cap |-> cap, len |-> len]

\* Repr::from_word(w); nz = 1 iff w # 0
A_FromWord(nz) == Shape(1, nz)
\* Repr::from_dword(d); nw = significant words of d: capacity 1 + (hi != 0)
A_FromDword(nw) == Shape(IF nw = 2 THEN 2 ELSE 1, nw)
\* Buffer::shrink_to_fit
A_ShrinkCap(cap, len) == IF cap > MaxCompactCapacity(len) THEN DefaultCapacity(len) ELSE cap
\* Repr::from_buffer on a buffer of capacity cap whose content has nz significant words
\* (pop_zeros; 0..2 words -> inline and the buffer is dropped; else shrink_to_fit + transmute)
A_FromBuffer(cap, nz) == IF nz <= 2 THEN A_FromDword(nz) ELSE Shape(A_ShrinkCap(cap, nz), nz)
\* UBig::from_words(&[n words]) = from_buffer(Buffer::from(words)) = from_buffer(allocate(n) + push_slice)
A_FromWords(n, nz) == A_FromBuffer(DefaultCapacity(n), nz)
\* Repr::ones(n).  fix = FALSE is the code of the pinned tree (`n < DWORD_BITS_USIZE`, finding F01),
\* fix = TRUE the repaired comparison (`n <= DWORD_BITS_USIZE`).
A_OnesInlineDword(n, wb, fix) == IF fix THEN n <= 2 * wb ELSE n < 2 * wb
A_Ones(n, wb, fix) ==
  IF n < wb THEN A_FromWord(IF n = 0 THEN 0 ELSE 1)
  ELSE IF A_OnesInlineDword(n, wb, fix) THEN A_FromDword(IF n > wb THEN 2 ELSE 1)
  ELSE LET lo == n \div wb
           hi == n % wb
       IN Shape(DefaultCapacity(lo + 1), lo + (IF hi > 0 THEN 1 ELSE 0))
\* Clone::clone
A_Clone(src) == IF src.cap <= 2 THEN Shape(src.cap, src.len) ELSE Shape(DefaultCapacity(src.len), src.len)
\* Clone::clone_from: the destination's buffer is reused iff it is large enough and compact enough
A_CloneFromRealloc(me, src) == src.cap > 2 /\ (me.cap < src.len \/ me.cap > MaxCompactCapacity(src.len))
A_CloneFrom(me, src) ==
  IF src.cap <= 2 THEN Shape(src.cap, src.len)
  ELSE IF A_CloneFromRealloc(me, src) THEN Shape(DefaultCapacity(src.len), src.len)
  ELSE Shape(me.cap, src.len)
\* Repr::into_buffer: capacity of the resulting Buffer
A_IntoBufferCap(src) == IF src.cap = 1 THEN DefaultCapacity(1) ELSE IF src.cap = 2 THEN DefaultCapacity(2) ELSE src.cap
\* Repr::from_static_words(&[n words]) (top word non-zero is asserted by the code)
A_FromStatic(n) == IF n <= 2 THEN A_FromDword(n) ELSE Shape(n, n)
\* is_zero()
A_IsZero(s) == s.cap = 1 /\ s.len = 0
\* neg / with_sign: the sign of zero is never flipped
A_Neg(s, neg) == IF A_IsZero(s) THEN neg ELSE ~neg
A_WithSign(s, neg, want) == IF A_IsZero(s) THEN neg ELSE want
=============================================================================
