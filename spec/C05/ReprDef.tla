------------------------------ MODULE ReprDef ------------------------------
(* Definition layer shared by C05 and C17: what a canonical integer storage looks like.

   Property text (C17): "After every operation a value with at most two words is stored inline,
   larger values own a buffer whose length has no leading zero word and whose capacity stays
   within the documented compactness bound, and zero is never negative."

   The storage is observed through the cfg(dashu_verif) hook as the record
       t = [neg |-> BOOLEAN, cap |-> Nat, len |-> Nat, heap |-> BOOLEAN]
   and the value through the words returned by as_sign_words(); nw is the number of significant
   words of that value (0 for zero).  Nothing here depends on the word size. *)
EXTENDS Integers

\* integer/src/buffer.rs: Buffer::default_capacity / Buffer::max_compact_capacity (MAX_CAPACITY is
\* out of reach of every scope used here)
DefaultCapacity(n) == n + (n \div 8) + 2
MaxCompactCapacity(n) == n + (n \div 4) + 4

\* "" when canonical, otherwise the violated clause
CanonicalWhy(t, nw) ==
  IF t.cap < 1 THEN "capacity-zero"
  ELSE IF nw <= 2 /\ t.heap THEN "small-value-on-heap"
  ELSE IF t.len # nw THEN "leading-zero-word"
  ELSE IF t.heap /\ t.cap < t.len THEN "capacity-below-length"
  ELSE IF t.heap /\ t.cap > MaxCompactCapacity(t.len) THEN "capacity-not-compact"
  ELSE IF t.neg /\ nw = 0 THEN "negative-zero"
  ELSE ""
Canonical(t, nw) == CanonicalWhy(t, nw) = ""
=============================================================================
