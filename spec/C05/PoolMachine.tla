---------------------------- MODULE PoolMachine ----------------------------
(* The pool machine: a register file per number type and events `dst := producer(srcs)`.

   The harness (harness/src/c05_pool.rs) executes a history on a fresh pool and logs, per step, the
   value of the destination register and what the library says about it against every register;
   the monitors replay the history on abstract values.  The abstract value of the destination
   after a step is the logged one (C05 says nothing about arithmetic being right: that is C01, C04,
   C09, ...), but for the integer pools the producer semantics is cheap on BigInt, so it is
   computed as well; a disagreement is counted as value drift (evidence), never a verdict.

   Wire formats (one history = one event):
     e.pool in {"U", "I", "F", "Q"}, e.nr registers, e.steps[k] = [op, d, a, b, n, f, c] (as needed),
     e.obs[k] = [k: "ok"|"panic", v, t, eq, qe, cmp, pmc, hs, tw, (tcmp)], e.fin = [v, t, hs, eq, cmp]. *)
EXTENDS OrderDef, ReprAlg

IsIntPool(p) == p \in {"U", "I"}
ZeroVal(p) ==
  IF IsIntPool(p) THEN [k |-> "int", i |-> IZero]
  ELSE IF p = "F" THEN [k |-> "flt", b |-> 2, inf |-> 0, sig |-> IZero, exp |-> 0]
  ELSE [k |-> "rat", q |-> QZero]
\* a rational with a zero denominator is not a number: decoded with d = <<>> and refused by WellFormed
Dec(p, v) ==
  IF IsIntPool(p) THEN [k |-> "int", i |-> [s |-> v.s, m |-> v.m]]
  ELSE IF p = "F" THEN [k |-> "flt", b |-> v.base, inf |-> v.inf, sig |-> [s |-> v.sig.s, m |-> v.sig.m], exp |-> v.exp]
  ELSE [k |-> "rat", q |-> Q([s |-> v.num.s, m |-> v.num.m], v.den.m)]

\* component integers of a value, in the order of the logged hook triples
Components(x) ==
  CASE x.k = "int" -> <<x.i>>
    [] x.k = "flt" -> <<x.sig>>
    [] x.k = "rat" -> <<x.q.n, IFromNat(x.q.d)>>
NWords(m) == (Len(m) + 7) \div 8

(* ---- producer semantics of the integer pools (value drift only) ---- *)
StaticWords(n, pat) ==
  IF pat = 1 THEN Sub(ShlBytes(One, 8 * n), One)
  ELSE Norm(FoldLeft(LAMBDA acc, i : acc \o <<i, 0, 0, 0, 0, 0, 0, 0>>, <<>>, [i \in 1..n |-> i]))
NoPred == [ok |-> FALSE, i |-> IZero]
P(i) == [ok |-> TRUE, i |-> i]
PredInt(s, val) ==
  LET A == val[s.a].i
      Bv == val[s.b].i
  IN CASE s.op = "const" -> P([s |-> s.c.s, m |-> s.c.m])
       [] s.op = "ones" -> P(I(0, Sub(PowerOfTwo(s.n), One)))
       [] s.op = "static" -> P(I(IF s.f = "neg" THEN 1 ELSE 0, StaticWords(s.n, s.b)))
       [] s.op = "add" -> P(IAdd(A, Bv))
       [] s.op = "sub" -> P(ISub(A, Bv))
       [] s.op = "mul" -> P(IMul(A, Bv))
       [] s.op = "div" -> IF IIsZero(Bv) THEN NoPred ELSE P(ITruncDivMod(A, Bv)[1])
       [] s.op = "rem" -> IF IIsZero(Bv) THEN NoPred ELSE P(ITruncDivMod(A, Bv)[2])
       [] s.op = "and" -> P(IAnd(A, Bv))
       [] s.op = "or" -> P(IOr(A, Bv))
       [] s.op = "xor" -> P(IXor(A, Bv))
       [] s.op = "shl" -> P(IShl(A, s.n))
       [] s.op = "shr" -> P(IShrFloor(A, s.n))
       [] s.op = "setbit" -> P(IOr(A, I(0, PowerOfTwo(s.n))))
       [] s.op = "clearbit" -> P(IF Bit(A.m, s.n) = 1 THEN ISub(A, I(0, PowerOfTwo(s.n))) ELSE A)
       [] s.op = "neg" -> P(INeg(A))
       [] s.op = "abs" -> P(IAbs(A))
       [] s.op = "signum" -> P(IFromNative(ISign(A)))
       [] s.op = "sqr" -> P(IMul(A, A))
       [] s.op \in {"clone", "clonefrom", "rewords", "rebytes", "via"} -> P(A)
       [] s.op = "drop" -> P(IZero)
       [] OTHER -> NoPred
=============================================================================
