SPECIFICATION Spec
INVARIANT Emit
CONSTANTS
  Depth = 3
  S2 = 8
  S3 = 16
  Seed = 1
  Pools = {"U", "I"}
CHECK_DEADLOCK FALSE
