------------------------------ MODULE OrderDef ------------------------------
(* Definition layer of C05: equality, ordering and hashing follow the mathematical value.

   Property text: "`==` holds exactly when the two values are mathematically equal, `cmp` is the
   total order of those values and returns Equal exactly when `==` holds, and equal values hash
   equally where Hash is implemented.  This holds whichever constructor or operation produced the
   values, and for floats regardless of their precision or rounding mode."

   A value is one of
     [k |-> "int", i |-> BigInt]
     [k |-> "rat", q |-> Rat]                       (any representation n/d of the number, d > 0)
     [k |-> "flt", b |-> base, inf |-> -1|0|1, sig |-> BigInt, exp |-> Int]   (sig * b^exp, or an infinity)
   Precision and rounding mode of a float are not part of its value.  Floats of different bases
   are not comparable in the library (no impl), so nothing is demanded of such pairs.

   Observations are coded as the harness logs them: eq in {0, 1}; cmp in {-1, 0, 1} (3 = partial_cmp
   returned None, 2 = no such impl). *)
EXTENDS FloatDef

WellFormed(x) ==
  CASE x.k = "int" -> IsInt(x.i)
    [] x.k = "rat" -> IsRat(x.q)
    [] x.k = "flt" -> IsInt(x.sig) /\ x.inf \in {-1, 0, 1} /\ x.b >= 2

Comparable(x, y) == x.k = y.k /\ (x.k = "flt" => x.b = y.b)

\* finite floats of one base: align the exponents, compare the integers
FltCmp(x, y) ==
  IF x.inf # 0 \/ y.inf # 0
  THEN (IF x.inf = y.inf THEN 0 ELSE IF x.inf < y.inf THEN -1 ELSE 1)
  ELSE LET e == Min2(x.exp, y.exp)
           bb == FromNat(x.b)
           px == IMul(x.sig, IFromNat(Pow(bb, x.exp - e)))
           py == IMul(y.sig, IFromNat(Pow(bb, y.exp - e)))
       IN ICmp(px, py)

\* the order of the mathematical values: -1, 0, 1
VCmp(x, y) ==
  CASE x.k = "int" -> ICmp(x.i, y.i)
    [] x.k = "rat" -> QCmp(x.q, y.q)
    [] x.k = "flt" -> FltCmp(x, y)

(* What the property demands of one ordered pair (x, y) with c = VCmp(x, y), given the observed
   x == y (eq), y == x (qe), cmp(x, y) (cmp), cmp(y, x) (pmc).  "" when it holds. *)
PairWhy(c, eq, qe, cmp, pmc) ==
  IF (cmp = 0) # (eq = 1) \/ (pmc = 0) # (qe = 1) THEN "cmp-equal-differs-from-eq"
  ELSE IF (eq = 1) # (c = 0) \/ (qe = 1) # (c = 0) THEN "eq-differs-from-value-equality"
  ELSE IF cmp # c \/ pmc # -c THEN "cmp-differs-from-value-order"
  ELSE ""
\* equal values hash equally, where Hash is implemented (h = <<>>: not implemented for that type)
HashWhy(c, h1, h2) ==
  IF c = 0 /\ h1 # <<>> /\ h2 # <<>> /\ h1 # h2 THEN "equal-values-hash-differently" ELSE ""

(* Order axioms on an observed comparison matrix M (codes as above) over registers 1..n: they follow
   from PairWhy for every pair, and are checked on the observations alone as well. *)
IsOrd(c) == c \in {-1, 0, 1}
AntisymmetricWhy(M, n) ==
  IF \E i, j \in 1..n : IsOrd(M[i][j]) /\ IsOrd(M[j][i]) /\ M[i][j] # -M[j][i] THEN "order-not-antisymmetric" ELSE ""
TransitiveWhy(M, n) ==
  IF \E i, j, k \in 1..n :
        /\ IsOrd(M[i][j]) /\ IsOrd(M[j][k]) /\ IsOrd(M[i][k])
        /\ M[i][j] <= 0 /\ M[j][k] <= 0
        /\ (M[i][k] > 0 \/ (M[i][k] = 0 /\ (M[i][j] < 0 \/ M[j][k] < 0)))
  THEN "order-not-transitive" ELSE ""
=============================================================================
