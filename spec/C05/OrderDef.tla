------------------------------ MODULE OrderDef ------------------------------
(* Definition layer of C05: equality, ordering and hashing follow the mathematical value.

   Property text: "`==` holds exactly when the two values are mathematically equal, `cmp` is the
   total order of those values and returns Equal exactly when `==` holds, and equal values hash
   equally where Hash is implemented.  This holds whichever constructor or operation produced the
   values, and for floats regardless of their precision or rounding mode."

   A value is one of
     [k |-> "int", i |-> BigInt]
     [k |-> "rat", q |-> Rat]                       (any representation n/d of the number, d > 0)
     [k |-> "flt", b |-> base, inf |-> -1|0|1, sig |-> BigInt, exp |-> Int]   (sig * b^exp, or an infinity)
   Precision and rounding mode of a float are not part of its value.  Floats of different bases
   are not comparable in the library (no impl), so nothing is demanded of such pairs.

   Observations are coded as the harness logs them: eq in {0, 1}; cmp in {-1, 0, 1} (3 = partial_cmp
   returned None, 2 = no such impl). *)
EXTENDS FloatDef

WellFormed(x) ==
  CASE x.k = "int" -> IsInt(x.i)
    [] x.k = "rat" -> IsRat(x.q)
    [] x.k = "flt" -> IsInt(x.sig) /\ x.inf \in {-1, 0, 1} /\ x.b >= 2

Comparable(x, y) == x.k = y.k /\ (x.k = "flt" => x.b = y.b)

\* finite floats of one base: align the exponents, compare the integers
FltCmpExact(x, y) ==
  LET e == Min2(x.exp, y.exp)
      bb == FromNat(x.b)
      px == IMul(x.sig, IFromNat(Pow(bb, x.exp - e)))
      py == IMul(y.sig, IFromNat(Pow(bb, y.exp - e)))
  IN ICmp(px, py)
(* The same decided from bounds of 1000 * log2 |value| when they separate the magnitudes (saves the
   big powers for operands that are far apart).  log2(10) lies in [3.321, 3.322]; other bases take
   the exact path.  MC_OrderDef checks FltCmp = FltCmpExact exhaustively in a small scope. *)
LogLo(x) == (BitLen(x.sig.m) - 1) * 1000 + (IF x.b = 2 THEN x.exp * 1000 ELSE IF x.exp >= 0 THEN x.exp * 3321 ELSE x.exp * 3322)
LogHi(x) == BitLen(x.sig.m) * 1000 + (IF x.b = 2 THEN x.exp * 1000 ELSE IF x.exp >= 0 THEN x.exp * 3322 ELSE x.exp * 3321)
FltCmp(x, y) ==
  IF x.inf # 0 \/ y.inf # 0
  THEN (IF x.inf = y.inf THEN 0 ELSE IF x.inf < y.inf THEN -1 ELSE 1)
  ELSE LET sx == ISign(x.sig)
           sy == ISign(y.sig)
       IN IF sx # sy THEN (IF sx < sy THEN -1 ELSE 1)
          ELSE IF sx = 0 THEN 0
          ELSE IF x.b \in {2, 10} /\ x.exp > -10000 /\ x.exp < 10000 /\ y.exp > -10000 /\ y.exp < 10000
                  /\ LogLo(x) >= LogHi(y) THEN sx
          ELSE IF x.b \in {2, 10} /\ x.exp > -10000 /\ x.exp < 10000 /\ y.exp > -10000 /\ y.exp < 10000
                  /\ LogLo(y) >= LogHi(x) THEN -sx
          ELSE FltCmpExact(x, y)

\* rationals: cross multiplication (Rat!QCmp), skipped when bit lengths already separate the magnitudes:
\* 2^(bn - 1 - bd) < |n / d| < 2^(bn - bd + 1) for bit lengths bn, bd of n and d
RatLo(p) == BitLen(p.n.m) - 1 - BitLen(p.d)
RatHi(p) == BitLen(p.n.m) - BitLen(p.d) + 1
RatCmp(p, q) ==
  LET sp == QSign(p)
      sq == QSign(q)
  IN IF sp # sq THEN (IF sp < sq THEN -1 ELSE 1)
     ELSE IF sp = 0 THEN 0
     ELSE IF RatLo(p) >= RatHi(q) THEN sp
     ELSE IF RatLo(q) >= RatHi(p) THEN -sp
     ELSE QCmp(p, q)

\* the order of the mathematical values: -1, 0, 1
VCmp(x, y) ==
  CASE x.k = "int" -> ICmp(x.i, y.i)
    [] x.k = "rat" -> RatCmp(x.q, y.q)
    [] x.k = "flt" -> FltCmp(x, y)

(* What the property demands of one ordered pair (x, y) with c = VCmp(x, y), given the observed
   x == y (eq), y == x (qe), cmp(x, y) (cmp), cmp(y, x) (pmc).  "" when it holds. *)
PairWhy(c, eq, qe, cmp, pmc) ==
  IF (cmp = 0) # (eq = 1) \/ (pmc = 0) # (qe = 1) THEN "cmp-equal-differs-from-eq"
  ELSE IF (eq = 1) # (c = 0) \/ (qe = 1) # (c = 0) THEN "eq-differs-from-value-equality"
  ELSE IF cmp # c \/ pmc # -c THEN "cmp-differs-from-value-order"
  ELSE ""
\* equal values hash equally, where Hash is implemented (h = <<>>: not implemented for that type)
HashWhy(c, h1, h2) ==
  IF c = 0 /\ h1 # <<>> /\ h2 # <<>> /\ h1 # h2 THEN "equal-values-hash-differently" ELSE ""

(* Order axioms on an observed comparison matrix M (codes as above) over registers 1..n: they follow
   from PairWhy for every pair, and are checked on the observations alone as well. *)
IsOrd(c) == c \in {-1, 0, 1}
AntisymmetricWhy(M, n) ==
  IF \E i, j \in 1..n : IsOrd(M[i][j]) /\ IsOrd(M[j][i]) /\ M[i][j] # -M[j][i] THEN "order-not-antisymmetric" ELSE ""
TransitiveWhy(M, n) ==
  IF \E i, j, k \in 1..n :
        /\ IsOrd(M[i][j]) /\ IsOrd(M[j][k]) /\ IsOrd(M[i][k])
        /\ M[i][j] <= 0 /\ M[j][k] <= 0
        /\ (M[i][k] > 0 \/ (M[i][k] = 0 /\ (M[i][j] < 0 \/ M[j][k] < 0)))
  THEN "order-not-transitive" ELSE ""
=============================================================================
