------------------------------ MODULE Gen_C05 ------------------------------
(* Behaviour generator of C05: histories of depth <= Depth over the constants
       0, 1, W-1, W, W^2-1, W^2, W^2+1, W^3-1          (W = 2^64: around the inline/heap boundary)
   and the operations
       add c, sub c, mul c, shl 1/63/64/65, shr 1/63/64/65, ones, set_bit/clear_bit (UBig),
       neg (IBig), clone_from c
   applied to one accumulator register.  Every operation at level 1 is taken; at levels 2 and 3
   one in S2 / S3 (a deterministic pseudo-random choice depending on Seed), so that S2 = S3 = 1
   is the exhaustive enumeration.  One case is printed per maximal history; its prefixes are
   validated along the way because the harness reports after every step.

   A case is a pool-machine history (see PoolMachine.tla): register 1 is the accumulator,
   register 2 receives the constant operands, register 3 keeps the initial constant. *)
EXTENDS Integers, Sequences, SequencesExt, TLC, Json
CONSTANTS Depth, S2, S3, Seed, Pools

Rep(n, b) == [i \in 1..n |-> b]
Consts == << <<>>, <<1>>, Rep(8, 255), Rep(8, 0) \o <<1>>, Rep(16, 255), Rep(16, 0) \o <<1>>,
             <<1>> \o Rep(15, 0) \o <<1>>, Rep(24, 255) >>
NC == Len(Consts)

Bin == <<"add", "sub", "mul">>
Shifts == <<1, 63, 64, 65>>
OpsCommon ==
     [i \in 1..(3 * NC) |-> [op |-> Bin[1 + ((i - 1) \div NC)], c |-> 1 + ((i - 1) % NC), n |-> 0]]
  \o [i \in 1..4 |-> [op |-> "shl", c |-> 0, n |-> Shifts[i]]]
  \o [i \in 1..4 |-> [op |-> "shr", c |-> 0, n |-> Shifts[i]]]
  \o <<[op |-> "ones", c |-> 0, n |-> 64], [op |-> "ones", c |-> 0, n |-> 128], [op |-> "ones", c |-> 0, n |-> 192]>>
  \o [i \in 1..NC |-> [op |-> "clonefrom", c |-> i, n |-> 0]]
OpsU == OpsCommon
  \o <<[op |-> "setbit", c |-> 0, n |-> 0], [op |-> "setbit", c |-> 0, n |-> 64], [op |-> "setbit", c |-> 0, n |-> 128],
       [op |-> "clearbit", c |-> 0, n |-> 63], [op |-> "clearbit", c |-> 0, n |-> 127], [op |-> "clearbit", c |-> 0, n |-> 191]>>
OpsI == OpsCommon \o <<[op |-> "neg", c |-> 0, n |-> 0]>>
Alpha(p) == IF p = "U" THEN OpsU ELSE OpsI

VARIABLES pool, c0, s0, hist
vars == <<pool, c0, s0, hist>>

HashOf(h) == FoldLeft(LAMBDA acc, j : (acc * 31 + j) % 10007, 7 + Seed, h)
Key == <<c0 + 8 * s0 + (IF pool = "U" THEN 0 ELSE 16)>> \o hist
Keep(level, j) ==
  LET s == IF level = 1 THEN 1 ELSE IF level = 2 THEN S2 ELSE S3
  IN (HashOf(Key) + j * 7) % s = 0
Leaf == Len(hist) = Depth \/ ~(\E j \in 1..Len(Alpha(pool)) : Keep(Len(hist) + 1, j))

Init == /\ pool \in Pools /\ c0 \in 1..NC /\ hist = <<>>
        /\ s0 \in (IF pool = "I" THEN {0, 1} ELSE {0})
Next == /\ Len(hist) < Depth
        /\ \E j \in 1..Len(Alpha(pool)) : Keep(Len(hist) + 1, j) /\ hist' = Append(hist, j)
        /\ UNCHANGED <<pool, c0, s0>>
Spec == Init /\ [][Next]_vars

Wire(s, ci) == [s |-> IF Consts[ci] = <<>> THEN 0 ELSE s, m |-> Consts[ci]]
Forms == <<"rr", "vr", "rv", "vv", "ar", "av", "ap">>
CFormsU == <<"words", "le", "be", "prim", "dword">>
CFormsI == <<"parts", "prim", "negate", "mulsign">>
CForm(h) == IF pool = "U" THEN CFormsU[1 + (h % 5)] ELSE CFormsI[1 + (h % 4)]
SForms == <<"v", "r", "a">>

StepsOf(k) ==
  LET o == Alpha(pool)[hist[k]]
      h == HashOf(SubSeq(Key, 1, k)) + k
      sg == IF pool = "I" THEN (h \div 3) % 2 ELSE 0
  IN IF o.op \in {"add", "sub", "mul"}
     THEN <<[op |-> "const", d |-> 2, f |-> CForm(h), c |-> Wire(sg, o.c)],
            [op |-> o.op, d |-> 1, a |-> 1, b |-> 2, f |-> Forms[1 + (h % 7)]]>>
     ELSE IF o.op = "clonefrom"
     THEN <<[op |-> "const", d |-> 2, f |-> CForm(h), c |-> Wire(sg, o.c)], [op |-> "clonefrom", d |-> 1, a |-> 2]>>
     ELSE IF o.op \in {"shl", "shr"} THEN <<[op |-> o.op, d |-> 1, a |-> 1, n |-> o.n, f |-> SForms[1 + (h % 3)]]>>
     ELSE IF o.op = "ones" THEN <<[op |-> "ones", d |-> 1, n |-> o.n]>>
     ELSE IF o.op = "neg" THEN <<[op |-> "neg", d |-> 1, a |-> 1, f |-> SForms[1 + (h % 2)]]>>
     ELSE <<[op |-> o.op, d |-> 1, a |-> 1, n |-> o.n]>>
Case ==
  [pool |-> pool, nr |-> 3, depth |-> Len(hist),
   steps |-> FoldLeft(LAMBDA acc, k : acc \o StepsOf(k),
                      <<[op |-> "const", d |-> 3, f |-> IF pool = "U" THEN "prim" ELSE "parts", c |-> Wire(s0, c0)],
                        [op |-> "const", d |-> 1, f |-> CForm(HashOf(Key)), c |-> Wire(s0, c0)]>>,
                      [k \in 1..Len(hist) |-> k])]

Emit == Leaf => PrintT(<<"GEN", ToJson(Case)>>)
=============================================================================
