----------------------------- MODULE ReprLayer -----------------------------
(* Algorithm layer of C05/C17: the hand-managed storage of dashu-int as a transition system.

   State: NR registers holding a Repr (or nothing), one Buffer in flight (the TypedRepr::Large
   an operation works on between into_typed() and Repr::from_buffer()), and the allocator state
   of HeapDef.  Every action is one constructor / method of integer/src/repr.rs or buffer.rs,
   with the allocator calls it makes, in program order.  Word contents are abstracted to the
   number of significant words (ReprAlg).  Sizes are counted in words (word bytes = 1).

   Checked: ReprDef!Canonical of every register and the HeapDef contract (dealloc/realloc of live
   blocks with the recorded size, every heap-resident value owns exactly one live block of
   `capacity` words, no sharing, no leak) in every reachable state.

   FixOnes = FALSE models Repr::ones as it is in the pinned tree: TLC reaches ones(2*WB) stored on
   the heap with length 2 (finding F01).  Following DESIGN.md section 6 the invariants used by the
   check are `known \/ Def`, where `known` is set by exactly that branch; the *Strict invariants
   are the bare definitions. *)
EXTENDS ReprAlg, HeapDef, TLC

CONSTANTS WB,        \* bits per word of the model
          NR,        \* registers
          MaxWords,  \* largest word count requested from Buffer::allocate / static arrays
          MaxCap,    \* largest capacity requested from Buffer::allocate_exact
          FixOnes    \* FALSE: `n < DWORD_BITS_USIZE` (pinned tree); TRUE: `n <= DWORD_BITS_USIZE`

VARIABLES reg, buf, heap, known
vars == <<reg, buf, heap, known>>

Regs == 1..NR
StaticPtr == 0
None == [k |-> "none", cap |-> 0, len |-> 0, neg |-> FALSE, ptr |-> 0, st |-> FALSE]
NoBuf == [k |-> "none", cap |-> 0, len |-> 0, ptr |-> 0]
V(s, neg, ptr, st) == [k |-> "val", cap |-> s.cap, len |-> s.len, neg |-> neg, ptr |-> ptr, st |-> st]
IsVal(v) == v.k = "val"
Owns(v) == v.k = "val" /\ v.cap > 2 /\ ~v.st
Fresh(h) == CHOOSE p \in 1..(NR + 3) : p \notin Live(h)
\* Drop for Repr
DropVal(h, v) == IF Owns(v) THEN HDealloc(h, v.ptr, v.cap) ELSE h

Init == reg = [r \in Regs |-> None] /\ buf = NoBuf /\ heap = EmptyHeap /\ known = FALSE

(* ---- constructors ---- *)
FromWord(r) ==
  /\ reg[r] = None
  /\ \E nz \in {0, 1} : reg' = [reg EXCEPT ![r] = V(A_FromWord(nz), FALSE, 0, FALSE)]
  /\ UNCHANGED <<buf, heap, known>>
FromDword(r) ==
  /\ reg[r] = None
  /\ \E nw \in {0, 1, 2} : reg' = [reg EXCEPT ![r] = V(A_FromDword(nw), FALSE, 0, FALSE)]
  /\ UNCHANGED <<buf, heap, known>>
\* UBig/IBig::from_static_words: the heap variant borrows static memory and owns nothing
FromStaticWords(r) ==
  /\ reg[r] = None
  /\ \E n \in 0..MaxWords, neg \in BOOLEAN :
       LET s == A_FromStatic(n) IN
       reg' = [reg EXCEPT ![r] = V(s, A_WithSign(s, FALSE, neg), StaticPtr, n > 2)]
  /\ UNCHANGED <<buf, heap, known>>
Ones(r) ==
  /\ reg[r] = None
  /\ \E n \in 0..(WB * MaxWords) :
       /\ LET s == A_Ones(n, WB, FixOnes) IN
          IF s.cap <= 2
          THEN /\ reg' = [reg EXCEPT ![r] = V(s, FALSE, 0, FALSE)]
               /\ UNCHANGED heap
          ELSE LET p == Fresh(heap) IN
               /\ heap' = HAlloc(heap, p, s.cap)
               /\ reg' = [reg EXCEPT ![r] = V(s, FALSE, p, FALSE)]
       /\ known' = (known \/ (~FixOnes /\ n = 2 * WB))
  /\ UNCHANGED buf

(* ---- the Buffer in flight ---- *)
BufAllocate ==
  /\ buf = NoBuf
  /\ \E n \in 0..MaxWords :
       LET p == Fresh(heap) c == DefaultCapacity(n) IN
       /\ heap' = HAlloc(heap, p, c)
       /\ buf' = [k |-> "buf", cap |-> c, len |-> 0, ptr |-> p]
  /\ UNCHANGED <<reg, known>>
BufAllocateExact ==
  /\ buf = NoBuf
  /\ \E c \in 1..MaxCap :
       LET p == Fresh(heap) IN
       /\ heap' = HAlloc(heap, p, c)
       /\ buf' = [k |-> "buf", cap |-> c, len |-> 0, ptr |-> p]
  /\ UNCHANGED <<reg, known>>
\* push / push_slice / truncate: any length within the capacity (the pushes assert it); the words
\* written are arbitrary (how many of them are significant is decided when the buffer is consumed)
BufFill ==
  /\ buf.k = "buf"
  /\ \E l \in 0..MaxCap : l <= buf.cap /\ l # buf.len /\ buf' = [buf EXCEPT !.len = l]
  /\ UNCHANGED <<reg, heap, known>>
\* ensure_capacity(n): reallocate(n) iff n > capacity and n > 2
BufEnsureCapacity ==
  /\ buf.k = "buf"
  /\ \E n \in 3..MaxWords :
       /\ n > buf.cap /\ n >= buf.len
       /\ heap' = HRealloc(heap, buf.ptr, buf.cap, DefaultCapacity(n), buf.ptr)
       /\ buf' = [buf EXCEPT !.cap = DefaultCapacity(n)]
  /\ UNCHANGED <<reg, known>>
BufDrop ==
  /\ buf.k = "buf"
  /\ heap' = HDealloc(heap, buf.ptr, buf.cap)
  /\ buf' = NoBuf
  /\ UNCHANGED <<reg, known>>
\* Buffer::into_boxed_slice followed by the drop of the Box<[Word]> (layout = len words)
BufIntoBoxedSlice ==
  /\ buf.k = "buf"
  /\ heap' = IF buf.len = 0 THEN HDealloc(heap, buf.ptr, buf.cap)
             ELSE HDealloc(HRealloc(heap, buf.ptr, buf.cap, buf.len, buf.ptr), buf.ptr, buf.len)
  /\ buf' = NoBuf
  /\ UNCHANGED <<reg, known>>
\* Repr::from_buffer: pop_zeros; 0..2 words -> inline, the Buffer is dropped; otherwise shrink_to_fit
\* (realloc iff capacity > max_compact_capacity) and transmute
FromBuffer(r) ==
  /\ reg[r] = None /\ buf.k = "buf"
  /\ \E nz \in 0..MaxCap :
       /\ nz <= buf.len
       /\ LET s == A_FromBuffer(buf.cap, nz) IN
          IF nz <= 2
          THEN /\ heap' = HDealloc(heap, buf.ptr, buf.cap)
               /\ reg' = [reg EXCEPT ![r] = V(s, FALSE, 0, FALSE)]
          ELSE /\ heap' = IF s.cap # buf.cap THEN HRealloc(heap, buf.ptr, buf.cap, s.cap, buf.ptr) ELSE heap
               /\ reg' = [reg EXCEPT ![r] = V(s, FALSE, buf.ptr, FALSE)]
  /\ buf' = NoBuf
  /\ UNCHANGED known
\* Repr::into_buffer (positive, owned value): inline values get a fresh Buffer, heap values are transmuted
IntoBuffer(r) ==
  /\ IsVal(reg[r]) /\ ~reg[r].neg /\ ~reg[r].st /\ buf = NoBuf
  /\ LET v == reg[r] c == A_IntoBufferCap(v) IN
     IF v.cap <= 2
     THEN LET p == Fresh(heap) IN
          /\ heap' = HAlloc(heap, p, c)
          /\ buf' = [k |-> "buf", cap |-> c, len |-> v.len, ptr |-> p]
     ELSE /\ buf' = [k |-> "buf", cap |-> v.cap, len |-> v.len, ptr |-> v.ptr]
          /\ UNCHANGED heap
  /\ reg' = [reg EXCEPT ![r] = None]
  /\ UNCHANGED known

(* ---- Clone ---- *)
Clone(r, s) ==
  /\ reg[r] = None /\ IsVal(reg[s])
  /\ LET src == reg[s] sh == A_Clone(src) IN
     IF sh.cap <= 2
     THEN /\ reg' = [reg EXCEPT ![r] = V(sh, src.neg, 0, FALSE)]
          /\ UNCHANGED heap
     ELSE LET p == Fresh(heap) IN
          /\ heap' = HAlloc(heap, p, sh.cap)
          /\ reg' = [reg EXCEPT ![r] = V(sh, src.neg, p, FALSE)]
  /\ UNCHANGED <<buf, known>>
CloneFrom(r, s) ==
  /\ r # s /\ IsVal(reg[r]) /\ IsVal(reg[s]) /\ ~reg[r].st
  /\ LET me == reg[r] src == reg[s] sh == A_CloneFrom(me, src) IN
     IF src.cap <= 2
     THEN \* shortcut for inlined data: release the old buffer if necessary
          /\ heap' = DropVal(heap, me)
          /\ reg' = [reg EXCEPT ![r] = V(sh, src.neg, 0, FALSE)]
     ELSE IF src.len < 3
     THEN \* debug_assert!(src_len >= 3); without it a copy through whatever self.data holds
          /\ heap' = Note(heap, "clone_from-source-on-heap-with-len-below-3")
          /\ UNCHANGED reg
     ELSE IF A_CloneFromRealloc(me, src)
     THEN LET h1 == DropVal(heap, me)
              p == Fresh(h1)
          IN /\ heap' = HAlloc(h1, p, sh.cap)
             /\ reg' = [reg EXCEPT ![r] = V(sh, src.neg, p, FALSE)]
     ELSE /\ reg' = [reg EXCEPT ![r] = V(sh, src.neg, me.ptr, FALSE)]
          /\ UNCHANGED heap
  /\ UNCHANGED <<buf, known>>

(* ---- sign ---- *)
Neg(r) ==
  /\ IsVal(reg[r]) /\ ~reg[r].st
  /\ reg' = [reg EXCEPT ![r].neg = A_Neg(reg[r], reg[r].neg)]
  /\ reg' # reg
  /\ UNCHANGED <<buf, heap, known>>
WithSign(r) ==
  /\ IsVal(reg[r]) /\ ~reg[r].st
  /\ \E want \in BOOLEAN : reg' = [reg EXCEPT ![r].neg = A_WithSign(reg[r], reg[r].neg, want)]
  /\ reg' # reg
  /\ UNCHANGED <<buf, heap, known>>

(* ---- Drop ---- *)
Drop(r) ==
  /\ IsVal(reg[r]) /\ ~reg[r].st
  /\ heap' = DropVal(heap, reg[r])
  /\ reg' = [reg EXCEPT ![r] = None]
  /\ UNCHANGED <<buf, known>>
\* a static value is never dropped; the register merely stops referring to it
ForgetStatic(r) ==
  /\ IsVal(reg[r]) /\ reg[r].st
  /\ reg' = [reg EXCEPT ![r] = None]
  /\ UNCHANGED <<buf, heap, known>>

Next ==
  \/ BufAllocate \/ BufAllocateExact \/ BufFill \/ BufEnsureCapacity \/ BufDrop \/ BufIntoBoxedSlice
  \/ \E r \in Regs : \/ FromWord(r) \/ FromDword(r) \/ FromStaticWords(r) \/ Ones(r) \/ FromBuffer(r)
                     \/ IntoBuffer(r) \/ Neg(r) \/ WithSign(r) \/ Drop(r) \/ ForgetStatic(r)
                     \/ \E s \in Regs : Clone(r, s) \/ CloneFrom(r, s)
Spec == Init /\ [][Next]_vars
\* CONSTRAINT of the `known \/ Def` runs: states reached through the open finding are not explored
\* further (nothing is demanded of them)
Untainted == ~known

(* ---- invariants ---- *)
Triple(v) == [neg |-> v.neg, cap |-> v.cap, len |-> v.len, heap |-> v.cap > 2]
\* the model keeps no leading zero words by construction: the value has exactly v.len words
CanonicalStrict == \A r \in Regs : IsVal(reg[r]) => Canonical(Triple(reg[r]), reg[r].len)

OwnerRegs == {r \in Regs : Owns(reg[r])}
HeapWhy ==
  IF heap.err # "" THEN heap.err
  ELSE IF \E r \in OwnerRegs : reg[r].ptr \notin Live(heap) THEN "value-points-to-dead-block"
  ELSE IF \E r \in OwnerRegs : heap.live[reg[r].ptr] # reg[r].cap THEN "block-size-differs-from-capacity"
  ELSE IF \E r1, r2 \in OwnerRegs : r1 # r2 /\ reg[r1].ptr = reg[r2].ptr THEN "block-shared"
  ELSE IF buf.k = "buf" /\ (buf.ptr \notin Live(heap) \/ \E r \in OwnerRegs : reg[r].ptr = buf.ptr) THEN "buffer-block-dead-or-shared"
  ELSE IF buf.k = "buf" /\ heap.live[buf.ptr] # buf.cap THEN "buffer-size-differs-from-capacity"
  ELSE IF \E r \in Regs : IsVal(reg[r]) /\ reg[r].st /\ reg[r].ptr \in Live(heap) THEN "static-value-owns-a-block"
  ELSE IF Live(heap) # {reg[r].ptr : r \in OwnerRegs} \cup (IF buf.k = "buf" THEN {buf.ptr} ELSE {}) THEN "leak"
  ELSE ""
HeapStrict == HeapWhy = ""
BufferInv == buf.k = "buf" => buf.len <= buf.cap /\ buf.cap >= 1

\* invariants of the check while F01 is open: Def \/ Known_F01(state)
CanonicalOrKnown == known \/ CanonicalStrict
HeapOrKnown == known \/ HeapStrict
=============================================================================
