----------------------------- MODULE Trace_C05 -----------------------------
(* Trace monitor of C05: one event = one history of the pool machine.  The monitor replays the
   history on abstract values and evaluates OrderDef for the destination register against every
   register and against its twins after every step, and for all pairs and triples at the end.
   It never blocks: the first failing clause of a history is recorded in `bad`.

   The hook triples are compared with ReprDef!Canonical and the integer values with the producer
   semantics of PoolMachine; both are reported as counts (`noncanon`, `drift`) in the verdict, they
   are not C05 verdicts (storage invariants are C17's definition). *)
EXTENDS PoolMachine, Json, IOUtils
Rec == ndJsonDeserialize(IOEnv.TRACE)

First(ws) == FoldLeft(LAMBDA acc, w : IF acc # "" THEN acc ELSE w, "", ws)
Idx(n) == [i \in 1..n |-> i]

\* the observations of one step about destination value x against value y (register or twin)
ObsPairWhy(x, y, eq, qe, cmp, pmc, h1, h2) ==
  IF ~Comparable(x, y) THEN ""
  ELSE LET c == VCmp(x, y) IN
       LET w == PairWhy(c, eq, qe, cmp, pmc) IN IF w # "" THEN w ELSE HashWhy(c, h1, h2)

\* val, hs: abstract values and logged hashes of the registers after the step
StepWhy(e, val, hs, o, d) ==
  LET x == val[d] IN
  IF ~WellFormed(x) THEN "malformed-value"
  ELSE First(
    [r \in 1..e.nr |-> ObsPairWhy(x, val[r], o.eq[r], o.qe[r], o.cmp[r], o.pmc[r], hs[d], hs[r])]
    \o [r \in 1..e.nr |-> IF "tcmp" \in DOMAIN o /\ Comparable(x, val[r]) /\ IsOrd(o.tcmp[r]) /\ o.tcmp[r] # VCmp(x, val[r])
                          THEN "cmp-differs-from-value-order" ELSE ""]
    \o [t \in 1..Len(o.tw) |->
          LET tw == o.tw[t]
              y == IF "v" \in DOMAIN tw THEN Dec(e.pool, tw.v) ELSE x
          IN IF ~WellFormed(y) THEN "" ELSE
             LET w == ObsPairWhy(x, y, tw.eq, tw.qe, tw.cmp, tw.pmc, hs[d], tw.h) IN
             IF w # "" THEN w
             ELSE IF IsOrd(tw.pcmp) /\ tw.pcmp # VCmp(x, y) THEN "cmp-differs-from-value-order" ELSE ""])

\* hook triples of a value: number of components that are not canonical
NonCanon(x, ts) ==
  LET cs == Components(x) IN
  IF Len(ts) # Len(cs) THEN 0
  ELSE FoldLeft(LAMBDA acc, i : IF Canonical(ts[i], NWords(cs[i].m)) THEN acc ELSE acc + 1, 0, Idx(Len(cs)))

FinWhy(e, val, hs) ==
  LET f == e.fin
      n == e.nr
      vals == [r \in 1..n |-> Dec(e.pool, f.v[r])]
  IN IF \E r \in 1..n : vals[r] # val[r] \/ f.hs[r] # hs[r] THEN "register-changed-behind-the-history"
     ELSE First(
       [i \in 1..n |-> First([j \in 1..n |->
           IF ~Comparable(val[i], val[j]) \/ ~WellFormed(val[i]) \/ ~WellFormed(val[j]) THEN ""
           ELSE ObsPairWhy(val[i], val[j], f.eq[i][j], f.eq[j][i], f.cmp[i][j], f.cmp[j][i], f.hs[i], f.hs[j])])]
       \o <<AntisymmetricWhy(f.cmp, n), TransitiveWhy(f.cmp, n)>>)

\* replay of one history: acc = [val, hs, why, at, drift, noncanon]
Replay(e) ==
  LET init == [val |-> [r \in 1..e.nr |-> ZeroVal(e.pool)], hs |-> [r \in 1..e.nr |-> e.h0],
               why |-> "", at |-> 0, drift |-> 0, noncanon |-> 0]
      Step(acc, k) ==
        IF acc.why # "" THEN acc ELSE
        LET s == e.steps[k]
            o == e.obs[k]
            d == s.d
            x == Dec(e.pool, o.v)
            nv == [acc.val EXCEPT ![d] = x]
            nh == [acc.hs EXCEPT ![d] = o.h]
            pr == IF IsIntPool(e.pool) /\ o.k = "ok" THEN PredInt(s, acc.val) ELSE NoPred
            w == StepWhy(e, nv, nh, o, d)
        IN [val |-> nv, hs |-> nh, why |-> w, at |-> IF w = "" THEN 0 ELSE k,
            drift |-> acc.drift + (IF pr.ok /\ WellFormed(x) /\ ~IEq(pr.i, x.i) THEN 1 ELSE 0),
            noncanon |-> acc.noncanon + (IF WellFormed(x) THEN NonCanon(x, o.t) ELSE 0)]
      r == FoldLeft(Step, init, Idx(Len(e.steps)))
  IN IF r.why # "" THEN r
     ELSE LET w == FinWhy(e, r.val, r.hs) IN [r EXCEPT !.why = w, !.at = IF w = "" THEN 0 ELSE Len(e.steps) + 1]

VARIABLES l, bad, drift, noncanon
vars == <<l, bad, drift, noncanon>>
Init == l = 1 /\ bad = <<>> /\ drift = 0 /\ noncanon = 0
Next == /\ l <= Len(Rec)
        /\ LET r == Replay(Rec[l]) IN
           /\ bad' = IF r.why = "" THEN bad ELSE Append(bad, [i |-> l, why |-> r.why, at |-> r.at])
           /\ drift' = drift + r.drift
           /\ noncanon' = noncanon + r.noncanon
        /\ l' = l + 1
Spec == Init /\ [][Next]_vars
Verdict == l > Len(Rec) => PrintT(<<"VERDICT", ToJson([total |-> Len(Rec), bad |-> bad, drift |-> drift, noncanon |-> noncanon])>>)
Complete == IF TLCGet("stats").diameter - 1 = Len(Rec) THEN TRUE
            ELSE PrintT(<<"TRUNCATED", TLCGet("stats").diameter>>) /\ FALSE
=============================================================================
