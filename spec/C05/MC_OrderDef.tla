---------------------------- MODULE MC_OrderDef ----------------------------
(* Self-check of the definition layer: the bound-accelerated float comparison equals the exact
   one, and VCmp is a total order consistent with native integers / fractions, in a small scope. *)
EXTENDS OrderDef
Sigs == -17..17
Exps == -7..7
Flt(b, s, e) == [k |-> "flt", b |-> b, inf |-> 0, sig |-> IFromNative(s), exp |-> e]
ASSUME \A b \in {2, 10} : \A s1 \in Sigs, s2 \in {-17, -9, -1, 0, 1, 7, 10, 16} : \A e1 \in Exps, e2 \in {-7, 0, 3} :
         FltCmp(Flt(b, s1, e1), Flt(b, s2, e2)) = FltCmpExact(Flt(b, s1, e1), Flt(b, s2, e2))
\* exact comparison against native arithmetic: s1 * b^e1 ? s2 * b^e2 with non-negative exponents
Pw(b, e) == IF e = 0 THEN 1 ELSE IF e = 1 THEN b ELSE IF e = 2 THEN b * b ELSE b * b * b
Sgn(n) == IF n < 0 THEN -1 ELSE IF n > 0 THEN 1 ELSE 0
ASSUME \A b \in {2, 10} : \A s1, s2 \in -12..12 : \A e1, e2 \in 0..3 :
         FltCmp(Flt(b, s1, e1), Flt(b, s2, e2)) = Sgn(s1 * Pw(b, e1) - s2 * Pw(b, e2))
Inf(i) == [k |-> "flt", b |-> 2, inf |-> i, sig |-> IZero, exp |-> 0]
ASSUME /\ FltCmp(Inf(1), Inf(1)) = 0 /\ FltCmp(Inf(-1), Inf(-1)) = 0 /\ FltCmp(Inf(-1), Inf(1)) = -1
       /\ \A s \in Sigs : FltCmp(Inf(-1), Flt(2, s, 3)) = -1 /\ FltCmp(Flt(2, s, 3), Inf(1)) = -1 /\ FltCmp(Inf(1), Flt(2, s, -3)) = 1
\* rationals: cross multiplication against native arithmetic
Rt(n, d) == [k |-> "rat", q |-> Q(IFromNative(n), FromNat(d))]
ASSUME \A n1, n2 \in -20..20 : \A d1, d2 \in {1, 2, 3, 7, 8, 31, 33} :
         /\ VCmp(Rt(n1, d1), Rt(n2, d2)) = Sgn(n1 * d2 - n2 * d1)
         /\ QCmp(Rt(n1, d1).q, Rt(n2, d2).q) = Sgn(n1 * d2 - n2 * d1)
ASSUME \A a, b \in -40..40 : VCmp([k |-> "int", i |-> IFromNative(a)], [k |-> "int", i |-> IFromNative(b)]) = Sgn(a - b)
\* PairWhy accepts exactly the observations that agree with the value order
ASSUME \A c \in {-1, 0, 1} : \A eq, qe \in {0, 1} : \A cmp, pmc \in {-1, 0, 1, 3} :
         (PairWhy(c, eq, qe, cmp, pmc) = "") <=> (eq = (IF c = 0 THEN 1 ELSE 0) /\ qe = eq /\ cmp = c /\ pmc = -c)
VARIABLE u
Init == u = 0
Next == UNCHANGED u
Spec == Init /\ [][Next]_u
=============================================================================
