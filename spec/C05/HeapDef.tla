------------------------------ MODULE HeapDef ------------------------------
(* Definition layer of C17: the allocator contract the hand-managed storage must honour.

   A heap is a record [live |-> function ptr -> size, err |-> STRING]: `live` maps the identity
   of every live block to the size it was allocated with; the first contract breach is kept in
   `err` (monitor style: nothing blocks).  GlobalAlloc's contract: dealloc/realloc only of a live
   block and with the layout it was allocated with; anything else is undefined behaviour. *)
EXTENDS Integers, FiniteSets

NoLive == [p \in {} |-> 0]
EmptyHeap == [live |-> NoLive, err |-> ""]
Live(h) == DOMAIN h.live
Note(h, why) == IF h.err = "" THEN [h EXCEPT !.err = why] ELSE h

AllocWhy(h, p, size) ==
  IF size <= 0 THEN "alloc-zero-size"
  ELSE IF p \in Live(h) THEN "alloc-returned-live-block"     \* allocator (tool) inconsistency
  ELSE ""
HAlloc(h, p, size) ==
  LET w == AllocWhy(h, p, size) IN
  IF w # "" THEN Note(h, w)
  ELSE [h EXCEPT !.live = [q \in Live(h) \cup {p} |-> IF q = p THEN size ELSE h.live[q]]]

DeallocWhy(h, p, size) ==
  IF p \notin Live(h) THEN "dealloc-of-dead-block"           \* double free / never allocated
  ELSE IF h.live[p] # size THEN "dealloc-with-wrong-size"
  ELSE ""
HDealloc(h, p, size) ==
  LET w == DeallocWhy(h, p, size) IN
  IF w = "dealloc-of-dead-block" THEN Note(h, w)
  ELSE LET g == [h EXCEPT !.live = [q \in Live(h) \ {p} |-> h.live[q]]] IN
       IF w # "" THEN Note(g, w) ELSE g

ReallocWhy(h, p, old, new) ==
  IF p \notin Live(h) THEN "realloc-of-dead-block"
  ELSE IF h.live[p] # old THEN "realloc-with-wrong-size"
  ELSE IF new <= 0 THEN "realloc-to-zero-size"
  ELSE ""
\* the block p is released and a block q of the new size is live (q may equal p)
HRealloc(h, p, old, new, q) ==
  LET w == ReallocWhy(h, p, old, new) IN
  IF w = "realloc-of-dead-block" THEN Note(h, w)
  ELSE LET rest == Live(h) \ {p}
           g == [h EXCEPT !.live = [x \in rest \cup {q} |-> IF x = q THEN new ELSE h.live[x]]]
       IN IF q \in rest THEN Note(g, "alloc-returned-live-block")
          ELSE IF w # "" THEN Note(g, w) ELSE g

\* ownership: `owners` is a set of records [ptr, size] (one per heap-resident value)
OwnershipWhy(h, owners) ==
  IF \E o \in owners : o.ptr \notin Live(h) THEN "value-points-to-dead-block"
  ELSE IF \E o \in owners : h.live[o.ptr] # o.size THEN "block-size-differs-from-capacity"
  ELSE IF \E o1, o2 \in owners : o1 # o2 /\ o1.ptr = o2.ptr THEN "block-shared"
  ELSE ""
\* no leak: every live block is owned by somebody
LeakWhy(h, owners) ==
  IF Live(h) \subseteq {o.ptr : o \in owners} THEN "" ELSE "leak"
=============================================================================
