SPECIFICATION Spec
INVARIANT CanonicalOrKnown
INVARIANT HeapOrKnown
INVARIANT BufferInv
CONSTANTS
  WB = 2
  NR = 2
  MaxWords = 6
  MaxCap = 9
  FixOnes = FALSE
CHECK_DEADLOCK FALSE
