SPECIFICATION Spec
INVARIANT CanonicalOrKnown
INVARIANT HeapOrKnown
INVARIANT BufferInv
CONSTRAINT Untainted
CONSTANTS
  WB = 2
  NR = 2
  MaxWords = 5
  MaxCap = 8
  FixOnes = TRUE
CHECK_DEADLOCK FALSE
