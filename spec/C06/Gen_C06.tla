------------------------------ MODULE Gen_C06 ------------------------------
(***************************************************************************)
(* Behaviour generator for C06.  TLC enumerates the semantic partition of  *)
(* the conversion inputs and prints one case per call for the harness:     *)
(*                                                                         *)
(*  intf     integers (lead pattern | last bit | half | quarter | eighth)  *)
(*           * 2^j + delta around 24 and 53 bits  -> to_f32/to_f64, TryFrom*)
(*  intsp    2^24, 2^53, 2^64, 2^128 +-1, the f32/f64 overflow thresholds  *)
(*  intprim  +-(2^k - 1 | 2^k | 2^k + 1) at every primitive width -> every *)
(*           primitive type                                                *)
(*  primsrc  MIN.. MAX edges of every primitive type -> every big type     *)
(*  pfloat   sign x exponent field x fraction pattern of f32/f64 (zeros,   *)
(*           subnormals, integer thresholds, MAX, inf, NaN) -> decode and  *)
(*           every big type                                                *)
(*  ratf     rationals whose quotient has 24/25 (53/54) bits with every    *)
(*           rounding-bit pattern and a non-dyadic tail, at exponents over *)
(*           the normal range, the subnormal range and both thresholds     *)
(*  fbigf    the same grid as binary floats, every rounding mode           *)
(*  litf     decimal / base-3 / base-16 literals incl. 1e30, 4899e-7,      *)
(*           1e23, 2^53+1, the f64 overflow and underflow thresholds,      *)
(*           10^+-400                                                      *)
(*  tofloat  n/d -> to_float(p) in bases 2 and 10, six modes               *)
(*  toint    the to_int family on ties and near-ties                       *)
(*  encode   FloatEncoding::encode on the grid of ratf                     *)
(*                                                                         *)
(* Stride > 1 keeps one case in Stride of the large families (quick tier); *)
(* Seed moves the sample.                                                  *)
(***************************************************************************)
EXTENDS BigInt, Json, TLC
CONSTANTS Seed, Stride

P2(k) == PowerOfTwo(k)
Modes == <<"HalfEven", "Zero", "Away", "Up", "Down", "HalfAway">>
Prims == <<"u8", "u16", "u32", "u64", "u128", "usize", "i8", "i16", "i32", "i64", "i128", "isize">>
PrimBits == <<8, 16, 32, 64, 128, 64, 8, 16, 32, 64, 128, 64>>
Fts == <<"f32", "f64">>
FtM == <<24, 53>>
FtEmin == <<-126, -1022>>
FtEmax == <<127, 1023>>

\* ---- typed wire values
TvInt(t, s, m) == [t |-> t, i |-> I(s, m)]
TvBig(s, m) == TvInt(IF s = 0 THEN "U" ELSE "I", s, m)
TvF(kind, base, s, m, e, prec) == [t |-> kind, base |-> base, f |-> [sig |-> I(s, m), exp |-> e, inf |-> 0, prec |-> prec]]
TvR(kind, s, n, d) == [t |-> kind, num |-> I(s, n), den |-> I(0, d)]
Bits32(sgn, ef, frac) == <<frac % 65536, sgn * 32768 + ef * 128 + (frac \div 65536)>>
Bits64(sgn, ef, frac) == <<Limb(frac, 1) + 256 * Limb(frac, 2), Limb(frac, 3) + 256 * Limb(frac, 4),
                           Limb(frac, 5) + 256 * Limb(frac, 6), sgn * 32768 + ef * 16 + Limb(frac, 7)>>
TvP(fi, sgn, ef, frac) == [t |-> Fts[fi], b |-> IF fi = 1 THEN Bits32(sgn, ef, ToNat(frac)) ELSE Bits64(sgn, ef, frac)]

\* ---- cases
Conv(x, dt, base) == [op |-> "conv", x |-> x, dt |-> dt, base |-> base]
ToF(x, fi, mode) == [op |-> "to_f", x |-> x, ft |-> Fts[fi], mode |-> mode]
ToFFast(x, fi) == [op |-> "to_f_fast", x |-> x, ft |-> Fts[fi]]
ToFloat(x, base, mode, p) == [op |-> "to_float", x |-> x, base |-> base, mode |-> mode, p |-> p]
ToInt(x, rule, mode) == [op |-> "to_int", x |-> x, rule |-> rule, mode |-> mode]
Enc(fi, s, m, e) == [op |-> "encode", ft |-> Fts[fi], m |-> I(s, m), e |-> e]
Dec(x) == [op |-> "decode", x |-> x]

\* (lead pattern | last kept bit .. eighth bit): M + 3 bits
Lead(M, ti) == CASE ti = 1 -> P2(M - 1) [] ti = 2 -> Add(P2(M - 1), One) [] ti = 3 -> Sub(P2(M), One)
Pat(M, ti, low) == Add(MulSmall(Lead(M, ti), 8), FromNat(low))
Lcg(i, salt) == ((((i + salt * 31) % 4093) * 1277 + 911 * (salt % 1000) + 13) % 4099) % 256
LcgNat(n, salt) == Norm([i \in 1..n |-> IF i = n THEN 1 + (Lcg(i, salt) % 255) ELSE Lcg(i, salt)])

\* exponents (floor log2 of the value) that matter for format fi
Exps(fi) == LET lo == FtEmin[fi] hi == FtEmax[fi] M == FtM[fi] IN
            <<0, 60, hi, hi - 1, lo + 1, lo, lo - 1, lo - 2, lo - M + 2, lo - M + 1, lo - M>>
NExps == 11

Shifts == <<0, 1, 7, 40, 64, 74, 75, 76, 100, 101, 200, 900, 966, 967, 968>>
Widths == <<0, 7, 8, 15, 16, 31, 32, 63, 64, 127, 128>>
Tails == << <<1, 0>>, <<3, 1>>, <<3, 2>>, <<7, 3>>, <<7, 4>>, <<80, 1>>, <<80, 79>> >>
F32Fields == <<0, 1, 2, 100, 126, 127, 128, 149, 150, 151, 152, 190, 191, 192, 253, 254, 255>>
F64Fields == <<0, 1, 2, 1000, 1022, 1023, 1024, 1074, 1075, 1076, 1077, 1086, 1087, 1088, 1150, 2046, 2047>>
Dsts == <<"U", "I", "F", "FR", "R", "RX">>

Specials ==
  <<Sub(P2(24), One), P2(24), Add(P2(24), One), Sub(P2(53), One), P2(53), Add(P2(53), One),
    Sub(P2(64), One), P2(64), Add(P2(64), One), Sub(P2(128), One), P2(128), Add(P2(128), One),
    Sub(Sub(P2(128), P2(103)), One), Sub(P2(128), P2(103)), Add(Sub(P2(128), P2(103)), One), Sub(P2(128), P2(104)),
    Sub(Sub(P2(1024), P2(970)), One), Sub(P2(1024), P2(970)), Add(Sub(P2(1024), P2(970)), One), Sub(P2(1024), P2(971)),
    Sub(P2(1024), One), P2(1024), <<>>, One, Add(P2(127), P2(103)), Sub(P2(128), One), Add(P2(54), One), Add(P2(54), FromNat(3)),
    \* one and two bits wider than the mantissa, representable and not (the acceptance test of TryFrom<UBig|IBig> for f32/f64)
    Add(P2(24), FromNat(2)), Add(P2(24), FromNat(3)), Add(P2(25), FromNat(2)), Add(P2(25), FromNat(4)), Add(P2(25), One), Sub(P2(25), One),
    Add(P2(53), FromNat(2)), Add(P2(53), FromNat(3)), Add(P2(54), FromNat(2)), Add(P2(54), FromNat(4)), Sub(P2(54), One), P2(25), P2(54)>>

Dec10(ds) == FromRadix(ds, 10)
\* <<base, significand, exponent>>
Literals ==
  << <<10, One, 30>>, <<10, Dec10(<<4, 8, 9, 9>>), -7>>, <<10, FromNat(3), -13>>, <<10, FromNat(15), -1>>, <<10, One, -1>>,
     <<10, One, 22>>, <<10, One, 23>>, <<10, Dec10(<<9, 0, 0, 7, 1, 9, 9, 2, 5, 4, 7, 4, 0, 9, 9, 3>>), 0>>,
     <<10, FromNat(5), -324>>, <<10, Dec10(<<2, 4, 7, 0, 3, 2, 8, 2, 2, 9, 2, 0, 6, 2, 3, 2, 7>>), -340>>,
     <<10, Dec10(<<2, 4, 7, 0, 3, 2, 8, 2, 2, 9, 2, 0, 6, 2, 3, 2, 8>>), -340>>,
     <<10, Dec10(<<1, 7, 9, 7, 6, 9, 3, 1, 3, 4, 8, 6, 2, 3, 1, 5, 7>>), 292>>,
     <<10, Dec10(<<1, 7, 9, 7, 6, 9, 3, 1, 3, 4, 8, 6, 2, 3, 1, 5, 8>>), 292>>,
     <<10, Dec10(<<1, 7, 9, 7, 6, 9, 3, 1, 3, 4, 8, 6, 2, 3, 1, 5, 9>>), 292>>,
     <<10, One, 400>>, <<10, One, -400>>, <<10, One, 39>>, <<10, One, -39>>, <<10, One, 38>>, <<10, One, -38>>,
     <<10, Dec10(<<3, 4, 0, 2, 8, 2, 3, 5>>), 31>>, <<10, Dec10(<<3, 4, 0, 2, 8, 2, 3, 6>>), 31>>,
     <<10, Dec10(<<1, 4, 0, 1, 2, 9, 8, 4, 6>>), -53>>, <<10, FromNat(7), -46>>, <<10, Dec10(<<1, 6, 7, 7, 7, 2, 1, 7>>), 0>>,
     <<10, Dec10(<<1, 2, 3, 4, 5, 6, 7, 8, 9>>), 39>>, <<10, <<>>, 5>>,
     <<3, One, 40>>, <<3, One, -40>>, <<3, FromNat(2), -1>>, <<3, Dec10(<<1, 2, 3, 4, 5, 6, 7>>), 10>>, <<3, One, 81>>, <<3, One, -94>>,
     <<16, One, 32>>, <<16, Add(P2(24), One), 0>>, <<16, Add(P2(53), One), 3>>, <<16, FromNat(255), -38>>, <<16, One, -270>>,
     <<16, Add(P2(25), FromNat(3)), -40>>, <<8, Add(P2(54), FromNat(3)), -2>>, <<36, FromNat(35), 6>>, <<36, One, -30>> >>
LitExps == <<-45, -39, -38, -20, -7, -1, 0, 1, 5, 22, 23, 38, 39, 45>>
LitBases == <<10, 3, 16>>
RatioNums == <<1250001, 1249999, 1250000, 1150000, 1350000, 999500, 999499, 999501, 1005000>>

Kinds == <<"intf", "intstk", "intsp", "intprim", "primsrc", "pfloat", "ratf", "fbigf", "litf", "litrnd", "tofloat", "toint", "encode">>
\* ranges of the four generic parameters per kind
RA(k) == CASE k = "intf" -> 1..2 [] k = "intstk" -> 1..2 [] k = "intsp" -> 1..Len(Specials) [] k = "intprim" -> 1..Len(Widths)
           [] k = "primsrc" -> 0..12 [] k = "pfloat" -> 1..2 [] k = "ratf" -> 1..2 [] k = "fbigf" -> 1..2
           [] k = "litf" -> 1..Len(Literals) [] k = "litrnd" -> 1..3 [] k = "tofloat" -> 1..4 [] k = "toint" -> 1..4
           [] k = "encode" -> 1..2
RB(k) == CASE k = "intf" -> 1..3 [] k = "intstk" -> 1..3 [] k = "intsp" -> 0..1 [] k = "intprim" -> 0..2 [] k = "primsrc" -> 1..7
           [] k = "pfloat" -> 0..1 [] k = "ratf" -> 1..3 [] k = "fbigf" -> 1..3 [] k = "litf" -> 0..1
           [] k = "litrnd" -> 1..Len(LitExps) [] k = "tofloat" -> 1..120 [] k = "toint" -> 0..50 [] k = "encode" -> 1..3
RC(k) == CASE k = "intf" -> 0..7 [] k = "intstk" -> 0..1 [] k = "intprim" -> 0..1 [] k = "primsrc" -> 1..6 [] k = "pfloat" -> 1..17
           [] k = "ratf" -> 0..7 [] k = "fbigf" -> 0..7 [] k = "litrnd" -> 1..4 [] k = "tofloat" -> 1..3
           [] k = "toint" -> 1..4 [] k = "encode" -> 0..7 [] OTHER -> {0}
RD(k) == CASE k = "intf" -> 0..(3 * Len(Shifts) - 1) [] k = "intstk" -> 0..63 [] k = "intprim" -> 1..12 [] k = "primsrc" -> 0..1 [] k = "pfloat" -> 1..5
           [] k = "ratf" -> 0..(2 * 7 * NExps - 1) [] k = "fbigf" -> 0..(2 * NExps - 1) [] k = "tofloat" -> 0..11
           [] k = "toint" -> 1..6 [] k = "encode" -> 0..(2 * 8 * NExps - 1) [] OTHER -> {0}
Big(k) == k \in {"intf", "ratf", "fbigf", "tofloat", "encode", "intprim", "toint"}

VARIABLES phase, kind, a, b, c, d
vars == <<phase, kind, a, b, c, d>>
Init == phase = "pick" /\ kind \in {Kinds[i] : i \in 1..Len(Kinds)} /\ a \in RA(kind) /\ b = 0 /\ c = 0 /\ d = 0
Pick == /\ phase = "pick" /\ phase' = "done"
        /\ b' \in RB(kind) /\ c' \in RC(kind) /\ d' \in RD(kind)
        \* the large families are sampled, except the binary-float grid at the three exponents around the underflow
        \* threshold (half the smallest subnormal): every lead / rounding-bit pattern is kept there
        /\ (Big(kind) => \/ (a * 31 + b' * 17 + c' * 13 + d' * 7 + Seed) % Stride = 0
                         \/ (kind = "fbigf" /\ d' >= 16)
                         \/ (kind = "toint" /\ a = 4))
        /\ UNCHANGED <<kind, a>>
Next == Pick
Spec == Init /\ [][Next]_vars

Salt == a * 7 + b * 3 + c * 11 + d * 5 + Seed

\* value (pattern) * 2^k as a reduced-free ratio <<num, den>>
Scaled(m, dd, k) == IF k >= 0 THEN <<Shl(m, k), dd>> ELSE <<m, Shl(dd, -k)>>

Cases ==
  CASE kind = "intf" ->
         LET M == FtM[a]
             j == Shifts[1 + (d \div 3)]
             dl == (d % 3) - 1
             base == Shl(Pat(M, b, c), j)
             x == IF j = 0 \/ dl = 0 THEN base ELSE IF dl = 1 THEN Add(base, One) ELSE Sub(base, One)
         IN <<ToF(TvBig(0, x), a, "HalfEven"), ToF(TvInt("I", 1, x), a, "HalfEven"),
              Conv(TvBig(0, x), Fts[a], 2), Conv(TvInt("I", 1, x), Fts[a], 2)>>
    \* an exact tie (even neighbour below / above) plus ONE sticky bit, at every position just below the half bit and at
    \* the bottom: a sticky-bit mask that is one bit short anywhere along the word boundary shows as a wrong last bit
    [] kind = "intstk" ->
         LET M == FtM[a]
             j == <<40, 64, 75, 100>>[1 + (d \div 16)]
             t == IF d % 16 < 13 THEN j - 1 - (d % 16) ELSE <<0, 1, j \div 2>>[(d % 16) - 12]
             tie == Shl(Pat(M, b, IF c = 0 THEN 4 ELSE 12), j)          \* ...0|100 and ...1|100 : ties
             x == Add(tie, P2(t))
         IN <<ToF(TvBig(0, x), a, "HalfEven"), ToF(TvInt("I", 1, x), a, "HalfEven"),
              ToF(TvBig(0, tie), a, "HalfEven"), ToF(TvInt("I", 1, tie), a, "HalfEven")>>
    [] kind = "intsp" ->
         LET x == Specials[a] s == b IN
         <<ToF(TvInt(IF s = 0 THEN "U" ELSE "I", s, x), 1, "HalfEven"), ToF(TvInt(IF s = 0 THEN "U" ELSE "I", s, x), 2, "HalfEven"),
           ToF(TvInt("I", s, x), 2, "HalfEven"),
           Conv(TvInt("I", s, x), "f32", 2), Conv(TvInt("I", s, x), "f64", 2), Conv(TvInt("I", s, x), "F", 10),
           Conv(TvInt(IF s = 0 THEN "U" ELSE "I", s, x), "f32", 2), Conv(TvInt(IF s = 0 THEN "U" ELSE "I", s, x), "f64", 2),
           Conv(TvInt("I", s, x), "R", 2), ToF(TvR("R", s, x, One), 2, "HalfEven"), ToF(TvF("F", 2, s, x, 0, 0), 2, "HalfEven")>>
    [] kind = "intprim" ->
         LET w == Widths[a]
             x == IF b = 0 THEN Sub(P2(w), One) ELSE IF b = 1 THEN P2(w) ELSE Add(P2(w), One)
             s == c
         IN IF s = 0 THEN <<Conv(TvInt("U", 0, x), Prims[d], 2), Conv(TvInt("I", 0, x), Prims[d], 2),
                            Conv(TvR("R", 0, x, One), Prims[d], 2), Conv(TvF("F", IF d % 2 = 0 THEN 10 ELSE 2, 0, x, 0, 0), Prims[d], 2)>>
            ELSE <<Conv(TvInt("I", 1, x), Prims[d], 2), Conv(TvR("RX", 1, x, One), Prims[d], 2),
                   Conv(TvF("F", IF d % 2 = 0 THEN 16 ELSE 3, 1, x, 0, 0), Prims[d], 2)>>
    [] kind = "primsrc" ->
         IF a = 0 THEN (IF b <= 2 /\ c <= 2 /\ d = 0 THEN <<Conv(TvInt("bool", 0, IF b = 1 THEN <<>> ELSE One), Dsts[c], 2)>> ELSE <<>>)
         ELSE
         LET bits == PrimBits[a]
             signed == a > 6
             max == IF signed THEN Sub(P2(bits - 1), One) ELSE Sub(P2(bits), One)
             \* <<sign, magnitude>>
             v == IF signed
                  THEN CASE b = 1 -> <<1, P2(bits - 1)>> [] b = 2 -> <<1, Sub(P2(bits - 1), One)>> [] b = 3 -> <<1, One>>
                         [] b = 4 -> <<0, <<>> >> [] b = 5 -> <<0, One>> [] b = 6 -> <<0, Sub(max, One)>> [] b = 7 -> <<0, max>>
                  ELSE CASE b = 1 -> <<0, <<>> >> [] b = 2 -> <<0, One>> [] b = 3 -> <<0, FromNat(2)>> [] b = 4 -> <<0, P2(bits - 1)>>
                         [] b = 5 -> <<0, Sub(P2(bits - 1), One)>> [] b = 6 -> <<0, Sub(max, One)>> [] b = 7 -> <<0, max>>
         IN <<Conv(TvInt(Prims[a], v[1], v[2]), Dsts[c], IF d = 0 THEN 2 ELSE 10)>>
    [] kind = "pfloat" ->
         LET fi == a
             Fb == FtM[fi] - 1
             ef == IF fi = 1 THEN F32Fields[c] ELSE F64Fields[c]
             frac == CASE d = 1 -> <<>> [] d = 2 -> One [] d = 3 -> P2(Fb - 1) [] d = 4 -> Sub(P2(Fb), One)
                       [] d = 5 -> LowBits(LcgNat(7, Salt), Fb)
             x == TvP(fi, b, ef, frac)
         IN <<Dec(x), Conv(x, "U", 2), Conv(x, "I", 2), Conv(x, "F", 2), Conv(x, "FR", 2), Conv(x, "R", 2), Conv(x, "RX", 2)>>
    [] kind = "ratf" ->
         LET fi == a  M == FtM[fi]
             s == d % 2
             tl == Tails[1 + ((d \div 2) % 7)]
             E == Exps(fi)[1 + (d \div 14)]
             dd == FromNat(tl[1])
             num == Add(Mul(Pat(M, b, c), dd), FromNat(tl[2]))
             nd == Scaled(num, dd, E - (M + 2))
             kindr == IF (b + c + d) % 5 = 0 THEN "RX" ELSE "R"
             x == TvR(kindr, s, nd[1], nd[2])
         IN <<ToF(x, fi, "HalfEven"), ToFFast(x, fi), Conv(x, Fts[fi], 2)>>
    [] kind = "fbigf" ->
         LET fi == a  M == FtM[fi]
             s == d % 2
             E == Exps(fi)[1 + (d \div 2)]
             e == E - (M + 2)
             md == Modes[1 + (Salt % 6)]
             x == TvF("F", 2, s, Pat(M, b, c), e, 0)
         IN <<ToF(x, fi, "HalfEven"), ToF(x, fi, md), ToF(TvF("FR", 2, s, Pat(M, b, c), e, 0), fi, "HalfEven"), Conv(x, Fts[fi], 2)>>
    [] kind = "litf" ->
         LET l == Literals[a] s == b
             x == TvF("F", l[1], s, l[2], l[3], 0)
         IN <<ToF(x, 1, "HalfEven"), ToF(x, 2, "HalfEven"), ToF(TvF("FR", l[1], s, l[2], l[3], 0), 2, "HalfEven"),
              ToF(TvF("FR", l[1], s, l[2], l[3], 0), 1, "HalfEven"), ToF(x, 1, Modes[1 + (a % 6)])>>
    [] kind = "litrnd" ->
         LET base == LitBases[a]
             x == TvF("F", base, Salt % 2, LcgNat(2 * c - 1, Salt), LitExps[b], 0)
         IN <<ToF(x, 1, "HalfEven"), ToF(x, 2, "HalfEven")>>
    [] kind = "tofloat" ->
         LET dn == <<3, 7, 8, 1000>>[a]
             n == IF a = 4 THEN RatioNums[1 + (b % Len(RatioNums))] ELSE b
             base == IF d % 2 = 0 THEN 10 ELSE 2
             md == Modes[1 + (d \div 2)]
             x == TvR(IF b % 7 = 0 THEN "RX" ELSE "R", (b + c) % 2, FromNat(n), FromNat(dn))
         IN <<ToFloat(x, base, md, c)>>
    [] kind = "toint" ->
         LET md == Modes[d]
             sig == b - 25
             s == IF sig < 0 THEN 1 ELSE 0
             mg == FromNat(IF sig < 0 THEN -sig ELSE sig)
         IN (CASE a = 1 -> \* decimal and binary floats with one fractional digit, and with two
                  IF c = 1 THEN
                  <<ToInt(TvF("F", 10, s, mg, -1, 1), "mode", md), ToInt(TvF("F", 2, s, mg, -1, 1), "mode", md),
                    ToInt(TvF("F", 10, s, MulSmall(mg, 5), -2, 2), "mode", md), ToInt(TvF("F", 2, s, mg, -2, 2), "mode", md)>>
                  ELSE <<ToInt(TvF("F", 10, s, mg, c - 2, 0), "mode", md), ToInt(TvF("F", 3, s, mg, 1 - c, c - 1), "mode", md)>>
              [] a = 2 -> IF d # 1 THEN <<>> ELSE
                          <<ToInt(TvF("FR", 10, s, mg, -1, 0), "zero", "Zero"), ToInt(TvF("FR", 2, s, mg, -(c - 1), 0), "zero", "Zero")>>
              [] a = 3 -> LET x == TvR(IF b % 5 = 0 THEN "RX" ELSE "R", s, mg, FromNat(c)) IN
                          <<ToInt(x, <<"trunc-fract", "trunc", "floor", "ceil", "half-away", "trunc">>[d], "Zero")>>
              \* wide significands (around one, two and three 64-bit words) scaled to the neighbourhood of 1:
              \* |x| in [1/4, 4), the fractional part straddling word boundaries
              [] a = 4 -> IF b > 35 THEN <<>> ELSE
                          LET len == <<63, 64, 65, 127, 128, 129, 191, 192, 193>>[1 + (b % 9)]
                              wide == CASE b \div 9 = 0 -> Sub(P2(len), One)
                                        [] b \div 9 = 1 -> Add(P2(len - 1), One)
                                        [] b \div 9 = 2 -> Sub(P2(len), P2(len \div 2))
                                        [] OTHER -> Add(Add(P2(len - 1), P2(len - 2)), FromNat(5))
                              sg == (b + c) % 2
                              e == (c - 2) - len
                          IN (IF d = 1 THEN <<ToInt(TvF("FR", 2, sg, wide, e, 0), "zero", "Zero")>> ELSE <<>>)
                             \o <<ToInt(TvF("F", 2, sg, wide, e, 0), "mode", md)>>
                             \o (IF len % 4 = 0 /\ d <= 2
                                 THEN <<ToInt(TvF(IF d = 1 THEN "FR" ELSE "F", 16, sg, wide, (c - 2) - (len \div 4), 0), IF d = 1 THEN "zero" ELSE "mode", md)>>
                                 ELSE <<>>))
    [] kind = "encode" ->
         LET fi == a  M == FtM[fi]
             s == d % 2
             j == (d \div 2) % 8
             E == Exps(fi)[1 + (d \div 16)]
             jj == IF fi = 1 THEN j % 5 ELSE j
             m == Shl(Pat(M, b, c), jj)
         IN <<Enc(fi, s, m, E - (M + 2) - jj)>>

Emit == phase = "done" => \A i \in 1..Len(Cases) : PrintT(<<"GEN", ToJson(Cases[i])>>)
=============================================================================
