-------------------------------- MODULE Ieee --------------------------------
(***************************************************************************)
(* Parametric IEEE-754 binary interchange format on exact arithmetic.      *)
(*                                                                         *)
(* A format is [M, Emin, Emax]: M = precision in bits (hidden bit          *)
(* included), Emin/Emax = exponent of the smallest/largest normal binade.  *)
(* binary32 = (24, -126, 127), binary64 = (53, -1022, 1023); the model     *)
(* checker also uses a mini format (4, -6, 7).                             *)
(*                                                                         *)
(* A datum in "fields form" is [s |-> 0|1, e |-> biased exponent field     *)
(* (native), t |-> trailing significand field (BigNat)].  On the wire a    *)
(* primitive float is its bit pattern cut into 16-bit fields, least        *)
(* significant first (TLC integers are 32-bit).                            *)
(*                                                                         *)
(* An extended value is [k |-> "fin"|"pinf"|"ninf"|"nan", q |-> Rat].      *)
(* Everything here is definition layer: value of a bit pattern, the        *)
(* neighbours of a real on the format's grid, rounding by mode.            *)
(***************************************************************************)
EXTENDS Rat

Fmt(M, Emin, Emax) == [M |-> M, Emin |-> Emin, Emax |-> Emax]
F32 == Fmt(24, -126, 127)
F64 == Fmt(53, -1022, 1023)
FmtOf(t) == IF t = "f32" THEN F32 ELSE F64

EAllOnes(f) == 2 * f.Emax + 1

\* ---- wire -> fields
Fields32(b) == [s |-> b[2] \div 32768, e |-> (b[2] \div 128) % 256,
                t |-> FromNat((b[2] % 128) * 65536 + b[1])]
Fields64(b) == [s |-> b[4] \div 32768, e |-> (b[4] \div 16) % 2048,
                t |-> Norm(<<b[1] % 256, b[1] \div 256, b[2] % 256, b[2] \div 256,
                             b[3] % 256, b[3] \div 256, b[4] % 16>>)]
WireOK(t, b) == /\ Len(b) = (IF t = "f32" THEN 2 ELSE 4)
                /\ \A i \in 1..Len(b) : b[i] \in 0..65535
FieldsOf(t, b) == IF t = "f32" THEN Fields32(b) ELSE Fields64(b)

\* ---- dyadic rationals m * 2^e (m BigInt, e native)
DyToQ(m, e) == IF e >= 0 THEN Q(IShl(m, e), One) ELSE Q(m, PowerOfTwo(-e))

\* ---- value of a datum
Fin(q) == [k |-> "fin", q |-> q]
PInf == [k |-> "pinf", q |-> QZero]
NInf == [k |-> "ninf", q |-> QZero]
NaN == [k |-> "nan", q |-> QZero]
FieldsVal(f, x) ==
  IF x.e = EAllOnes(f) THEN (IF x.t # <<>> THEN NaN ELSE IF x.s = 1 THEN NInf ELSE PInf)
  ELSE IF x.e = 0 THEN Fin(DyToQ(I(x.s, x.t), f.Emin - (f.M - 1)))
  ELSE Fin(DyToQ(I(x.s, Add(x.t, PowerOfTwo(f.M - 1))), x.e - f.Emax - (f.M - 1)))
\* value of a primitive float given by its wire bits
PrimVal(t, b) == FieldsVal(FmtOf(t), FieldsOf(t, b))
IsNegZero(t, b) == LET x == FieldsOf(t, b) IN x.s = 1 /\ x.e = 0 /\ x.t = <<>>

ExtEq(a, b) == a.k = b.k /\ a.k # "nan" /\ (a.k = "fin" => QEq(a.q, b.q))
\* sign of (a - x) for an extended a (not nan) and a finite rational x
ExtCmpQ(a, x) == IF a.k = "pinf" THEN 1 ELSE IF a.k = "ninf" THEN -1 ELSE QCmp(a.q, x)

\* ---- the grid around a real
\* floor(log2 a) for a rational a > 0
FloorLog2Q(a) ==
  LET k0 == BitLen(a.n.m) - BitLen(a.d)
      ge == IF k0 >= 0 THEN Cmp(a.n.m, Shl(a.d, k0)) >= 0 ELSE Cmp(Shl(a.n.m, -k0), a.d) >= 0
  IN IF ge THEN k0 ELSE k0 - 1

(* Position of a non-zero rational x on the grid of format f with unbounded exponent above and
   the subnormal quantum below: |x| = (lo + r/dd) * 2^qe with integer lo, 0 <= r < dd.
   half: -1, 0, 1 = fractional part below / equal / above one half. *)
Grid(f, x) ==
  LET a == QAbs(x)
      fl == FloorLog2Q(a)
      qe == Max2(fl, f.Emin) - (f.M - 1)
      nn == IF qe < 0 THEN Shl(a.n.m, -qe) ELSE a.n.m
      dd == IF qe > 0 THEN Shl(a.d, qe) ELSE a.d
      \* a power-of-two divisor (every dyadic source: floats, encode) needs no long division
      k2 == BitLen(dd) - 1
      qr == IF TrailingZeros(dd) = k2 THEN <<Shr(nn, k2), LowBits(nn, k2)>> ELSE DivMod(nn, dd)
  IN [neg |-> x.n.s = 1, fl |-> fl, qe |-> qe, lo |-> qr[1], exact |-> qr[2] = <<>>,
      half |-> Cmp(Shl(qr[2], 1), dd), sub |-> fl < f.Emin, r |-> qr[2], dd |-> dd]

\* does mode round the magnitude up (away from zero) at grid position g?
RoundsUp(mode, g) ==
  IF g.exact THEN FALSE
  ELSE CASE mode = "HalfEven" -> g.half > 0 \/ (g.half = 0 /\ Bit(g.lo, 0) = 1)
         [] mode = "HalfAway" -> g.half >= 0
         [] mode = "Zero" -> FALSE
         [] mode = "Away" -> TRUE
         [] mode = "Up" -> ~g.neg
         [] mode = "Down" -> g.neg

\* magnitude m * 2^qe as an extended value of format f (overflow beyond the largest finite -> infinity)
IeeeMag(f, neg, m, qe) ==
  IF BitLen(m) + qe > f.Emax + 1 THEN (IF neg THEN NInf ELSE PInf)
  ELSE Fin(DyToQ(I(IF neg THEN 1 ELSE 0, m), qe))

(* IeeeRound(f, mode, x): [v |-> extended value, err |-> sign(v - x), sub |-> x lies below the normal
   range, over |-> the result overflowed].  IEEE 754 roundTiesToEven for mode = "HalfEven":
   overflow is decided after rounding with unbounded exponent. *)
IeeeRound(f, mode, x) ==
  IF QIsZero(x) THEN [v |-> Fin(QZero), err |-> 0, sub |-> FALSE, over |-> FALSE]
  ELSE LET g == Grid(f, x)
           up == RoundsUp(mode, g)
           m == IF up THEN Add(g.lo, One) ELSE g.lo
           v == IeeeMag(f, g.neg, m, g.qe)
           sg == IF g.neg THEN -1 ELSE 1
       IN [v |-> v, err |-> IF g.exact /\ v.k = "fin" THEN 0 ELSE IF up \/ v.k # "fin" THEN sg ELSE -sg,
           sub |-> g.sub, over |-> v.k # "fin"]
RoundNE(f, x) == IeeeRound(f, "HalfEven", x)

\* the two grid neighbours of x (equal when x is on the grid)
Below(f, x) == IF QIsZero(x) THEN Fin(QZero) ELSE LET g == Grid(f, x) IN IeeeMag(f, g.neg, g.lo, g.qe)
Above(f, x) == IF QIsZero(x) THEN Fin(QZero)
               ELSE LET g == Grid(f, x) IN IeeeMag(f, g.neg, IF g.exact THEN g.lo ELSE Add(g.lo, One), g.qe)
\* largest finite magnitude
MaxFinite(f) == DyToQ(I(0, Sub(PowerOfTwo(f.M), One)), f.Emax - (f.M - 1))
IeeeRepresentable(f, x) == QIsZero(x) \/ LET g == Grid(f, x) IN g.exact /\ IeeeMag(f, g.neg, g.lo, g.qe).k = "fin"
=============================================================================
