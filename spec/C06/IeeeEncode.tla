----------------------------- MODULE IeeeEncode -----------------------------
(***************************************************************************)
(* Algorithm layer of C06: `FloatEncoding::{encode, decode}` of            *)
(* /repo/base/src/bit.rs transcribed branch by branch, parametric in the   *)
(* container width CB of the mantissa integer (u32: 32, u64: 64; the mini  *)
(* scope uses 8) and the format (M, Emin, Emax).                           *)
(*                                                                         *)
(*   encode(mantissa, exponent):                                           *)
(*     EncZero | EncOverflow | EncUnderflow |                              *)
(*     EncSubShl (subnormal branch, shift >= 0, no rounding) |             *)
(*     EncSubShr (subnormal branch, shift < 0, 3 rounding bits) |          *)
(*     EncSubPanic (shift amount CB-2+shift negative) |                    *)
(*     EncNormalOne (mantissa == 1) | EncNormal                            *)
(*   then Finish: exact / bits+1 / bits by round_to_even_adjustment.       *)
(*                                                                         *)
(* The two impls differ in their thresholds (Style): f32 sends the         *)
(* smallest normal binade through the subnormal branch (top_bit <= -125)   *)
(* and underflows below top_bit < -125-23; f64 uses top_bit <= -1022 and   *)
(* < -1022-52.  The model is checked against Ieee!RoundNE, the definition. *)
(*                                                                         *)
(* Fix* = FALSE is the pinned code.  Known* are the input classes of the   *)
(* open findings F60 (sticky mask one bit short), F61 (f32 underflow       *)
(* threshold), F62 (negative shift amount for the widest mantissas).        *)
(***************************************************************************)
EXTENDS Ieee, TLC, Json
CONSTANTS CB, M, EminNeg, Emax, Style, FixSticky, FixUnderflow, FixShift, Scope,
          ELoAbs, ELoNegative, EHiAbs, EHiNegative      \* exponent window of the scope
\* (TLC configuration files have no negative literals)
Emin == -EminNeg
ELo == IF ELoNegative THEN -ELoAbs ELSE ELoAbs
EHi == IF EHiNegative THEN -EHiAbs ELSE EHiAbs

Fm == Fmt(M, Emin, Emax)
Fb == M - 1

\* ------------------------------------------------------------------ the code
UnderThr == IF Style = "f32" /\ ~FixUnderflow THEN Emin + 1 - Fb ELSE Emin - Fb
SubThr == IF Style = "f32" THEN Emin + 1 ELSE Emin
InfBits == Shl(FromNat(2 * Emax + 1), Fb)
Sgn(sg) == IF sg = 1 THEN -1 ELSE 1
RoundToEvenAdjustment(rb) == rb >= 6 \/ rb = 3

Branch(mag, ex) ==
  LET tb == BitLen(mag) + ex IN
  IF mag = <<>> THEN "zero"
  ELSE IF tb > Emax + 1 THEN "overflow"
  ELSE IF tb < UnderThr THEN "underflow"
  ELSE IF tb <= SubThr THEN
         (LET shift == ex - Emin + Fb IN
          IF shift >= 0 THEN "subshl" ELSE IF CB - 2 + shift < 0 /\ ~FixShift THEN "subpanic" ELSE "subshr")
  ELSE IF mag = One THEN "normalone" ELSE "normal"

\* last step shared by the subnormal and the normal branch
Finish(sg, bits, rb) ==
  IF rb % 4 = 0 THEN [k |-> "ok", s |-> sg, B |-> bits, flag |-> 0, fin |-> "exact"]
  ELSE IF RoundToEvenAdjustment(rb) THEN [k |-> "ok", s |-> sg, B |-> Add(bits, One), flag |-> Sgn(sg), fin |-> "inc"]
  ELSE [k |-> "ok", s |-> sg, B |-> bits, flag |-> -Sgn(sg), fin |-> "keep"]

Sticky(x, w) == IF LowBits(x, w) = <<>> THEN 0 ELSE 1

EncodeBy(br, sg, mag, ex) ==
  CASE br = "zero" -> [k |-> "ok", s |-> 0, B |-> <<>>, flag |-> 0, fin |-> "ret"]
    [] br = "overflow" -> [k |-> "ok", s |-> sg, B |-> InfBits, flag |-> Sgn(sg), fin |-> "ret"]
    [] br = "underflow" -> [k |-> "ok", s |-> sg, B |-> <<>>, flag |-> -Sgn(sg), fin |-> "ret"]
    [] br = "subshl" -> Finish(sg, Shl(mag, ex - Emin + Fb), 0)
    [] br = "subpanic" -> [k |-> "panic", s |-> sg, B |-> <<>>, flag |-> 0, fin |-> "ret"]
    [] br = "subshr" ->
         LET shift == ex - Emin + Fb
             shifted == LowBits(Shl(mag, CB - 2 + shift), CB)
             rb == 4 * Bit(shifted, CB - 2) + 2 * Bit(shifted, CB - 3)
                   + Sticky(shifted, IF FixSticky THEN CB - 3 ELSE CB - 4)
             \* FixShift (F62 repaired): the mantissa is widened to two containers before the shift, CB + shift >= 0 always
             wide == Shl(mag, CB + shift)
             rbw == 4 * Bit(wide, CB) + 2 * Bit(wide, CB - 1) + Sticky(wide, CB - 1)
         IN Finish(sg, Shr(mag, -shift), IF FixShift THEN rbw ELSE rb)
    [] br = "normalone" -> Finish(sg, Shl(FromNat(ex + Emax), Fb), 0)
    [] br = "normal" ->
         LET bl == BitLen(mag)
             man == LowBits(Shl(mag, CB - bl + 1), CB)      \* top bit shifted out
             expf == ex + Emax + bl - 1
             bits == Add(Shl(FromNat(expf), Fb), Shr(man, CB - Fb))
             rb == 4 * Bit(man, CB - Fb) + 2 * Bit(man, CB - Fb - 1)
                   + Sticky(man, IF FixSticky THEN CB - Fb - 1 ELSE CB - Fb - 2)
         IN Finish(sg, bits, rb)
Encode(sg, mag, ex) == EncodeBy(Branch(mag, ex), sg, mag, ex)

FieldsOfBits(sg, B) == [s |-> sg, e |-> ToNat(Shr(B, Fb)), t |-> LowBits(B, Fb)]

\* decode(self): Ok(<<sign, mantissa magnitude, exponent>>) or Err
Decode(x) ==
  IF x.e = 2 * Emax + 1 THEN [k |-> "err", e |-> IF x.t # <<>> THEN "Nan" ELSE "Infinite"]
  ELSE IF x.e = 0 THEN [k |-> "ok", s |-> x.s, mag |-> x.t, ex |-> Emin - Fb]
  ELSE [k |-> "ok", s |-> x.s, mag |-> Add(x.t, PowerOfTwo(Fb)), ex |-> x.e - (Emax + Fb)]

\* ------------------------------------------------------------------ the definition
X(sg, mag, ex) == DyToQ(I(sg, mag), ex)
DefOK(sg, mag, ex, r) ==
  /\ r.k = "ok"
  /\ LET R == RoundNE(Fm, X(sg, mag, ex)) IN
     /\ ExtEq(FieldsVal(Fm, FieldsOfBits(r.s, r.B)), R.v)
     /\ r.flag = R.err

\* input classes of the open findings (semantic, not in terms of the code's variables)
KnownQuarter(sg, mag, ex) ==
  /\ ~FixSticky /\ mag # <<>>
  /\ LET g == Grid(Fm, X(sg, mag, ex)) r4 == Shl(g.r, 2) IN
     ~g.exact /\ (Cmp(r4, g.dd) = 0 \/ Cmp(r4, MulSmall(g.dd, 3)) = 0)
KnownUnderflow(sg, mag, ex) ==
  /\ Style = "f32" /\ ~FixUnderflow /\ mag # <<>>
  /\ LET g == Grid(Fm, X(sg, mag, ex)) IN g.fl = Emin - M /\ g.half > 0
\* mantissas of CB-1 or CB significant bits (f32: only MIN) whose value is below the smallest normal
KnownShift(sg, mag, ex) == BitLen(mag) >= CB - 1 /\ Branch(mag, ex) = "subpanic"
Known(sg, mag, ex) == KnownQuarter(sg, mag, ex) \/ KnownUnderflow(sg, mag, ex) \/ KnownShift(sg, mag, ex)

\* ------------------------------------------------------------------ scope
Pow2N(k) == ToNat(PowerOfTwo(k))
MiniMags == {FromNat(n) : n \in 0..Pow2N(CB - 1)}
\* boundary families for a wide container: powers of two and neighbours, and every combination of
\* (last kept bit, half bit, quarter bit, eighth bit) under three leading patterns, at several shifts
FamMags ==
  LET P(k) == PowerOfTwo(k) IN
  {P(k) : k \in 0..(CB - 1)} \cup {Sub(P(k), One) : k \in 1..(CB - 1)} \cup {Add(P(k), One) : k \in 1..(CB - 2)}
  \cup {Shl(Add(MulSmall(t, 16), FromNat(low)), j) :
          t \in {P(M - 1), Add(P(M - 1), One), Sub(P(M), One)}, low \in 0..15, j \in 0..(CB - M - 5)}
Mags == IF Scope = "mini" THEN MiniMags ELSE FamMags
\* width of a bit pattern: sign | exponent field | fraction
PW == 1 + BitLen(FromNat(2 * Emax + 1)) + Fb

VARIABLES phase, sg, mag, ex, res
vars == <<phase, sg, mag, ex, res>>
NoRes == [k |-> "none"]

Init == /\ phase = "pick" /\ ex = 0 /\ res = NoRes
        /\ mag \in Mags /\ sg \in {0, 1}
        /\ (Cmp(mag, PowerOfTwo(CB - 1)) < 0 \/ (mag = PowerOfTwo(CB - 1) /\ sg = 1))
Pick == /\ phase = "pick" /\ phase' = "enc" /\ ex' \in ELo..EHi /\ UNCHANGED <<sg, mag, res>>
Enc(br) == /\ phase = "enc" /\ Branch(mag, ex) = br
           /\ res' = EncodeBy(br, sg, mag, ex) /\ phase' = "done" /\ UNCHANGED <<sg, mag, ex>>
EncZero == Enc("zero")
EncOverflow == Enc("overflow")
EncUnderflow == Enc("underflow")
EncSubShl == Enc("subshl")
EncSubShr == Enc("subshr")
EncSubPanic == Enc("subpanic")
EncNormalOne == Enc("normalone")
EncNormal == Enc("normal")
Next == Pick \/ EncZero \/ EncOverflow \/ EncUnderflow \/ EncSubShl \/ EncSubShr \/ EncSubPanic
        \/ EncNormalOne \/ EncNormal
Spec == Init /\ [][Next]_vars

\* encode(m, e) = RoundNE(m * 2^e) with the right error sign, outside the open findings
EncodeCorrect == phase = "done" => (DefOK(sg, mag, ex, res) \/ Known(sg, mag, ex))
\* the finding classes are not vacuous excuses: inside them the pinned code really misbehaves somewhere
\* (checked by the negated property in MC_IeeeEncode_strict.cfg, which must FAIL while a finding is open)
EncodeStrict == phase = "done" => DefOK(sg, mag, ex, res)

(* decode: every bit pattern of the format (mini scope), checked as a constant-level assumption:
   m * 2^e is the value of the pattern, NaN/infinity are refused with the right category, and
   encode(decode(x)) gives back the pattern exactly *)
DecodeOKFor(n) ==
  LET nb == FromNat(n)
      x == [s |-> ToNat(Shr(nb, PW - 1)), e |-> ToNat(Shr(LowBits(nb, PW - 1), Fb)), t |-> LowBits(nb, Fb)]
      d == Decode(x)
      v == FieldsVal(Fm, x)
  IN IF v.k = "nan" THEN d.k = "err" /\ d.e = "Nan"
     ELSE IF v.k # "fin" THEN d.k = "err" /\ d.e = "Infinite"
     ELSE /\ d.k = "ok" /\ QEq(X(d.s, d.mag, d.ex), v.q)
          /\ LET r == Encode(d.s, d.mag, d.ex) IN
             r.k = "ok" /\ r.flag = 0 /\ r.B = LowBits(nb, PW - 1) /\ (d.mag # <<>> => r.s = x.s)
\* evaluated once (in the single initial state with a zero mantissa)
DecodeCorrect == (Scope = "mini" /\ phase = "pick" /\ mag = <<>> /\ sg = 0)
                 => \A n \in 0..(Pow2N(PW) - 1) : DecodeOKFor(n)
\* vacuity evidence computed by TLC itself (TLC's -coverage mode does not terminate on the BigNat
\* library): the set of code branches the scope reaches, printed once
BranchCover == (phase = "pick" /\ mag = <<>> /\ sg = 0)
               => PrintT(<<"COVER", ToJson(SetToSeq({Branch(m, e) : m \in Mags, e \in ELo..EHi}))>>)
=============================================================================
