SPECIFICATION Spec
INVARIANT EncodeCorrect
INVARIANT DecodeCorrect
INVARIANT BranchCover
CONSTANTS
  CB = 8
  M = 4
  EminNeg = 6
  Emax = 7
  Style = "f64"
  FixSticky = FALSE
  FixUnderflow = FALSE
  Scope = "mini"
  ELoAbs = 22
  ELoNegative = TRUE
  EHiAbs = 12
  EHiNegative = FALSE
CHECK_DEADLOCK FALSE
