SPECIFICATION Spec
INVARIANT EncodeCorrect
INVARIANT DecodeCorrect
CONSTANTS
  CB = 8
  M = 4
  EminNeg = 6
  Emax = 7
  Style = "f64"
  FixSticky = FALSE
  FixUnderflow = FALSE
  Scope = "mini"
  ELoNeg = 22
  EHi = 12
CHECK_DEADLOCK FALSE
