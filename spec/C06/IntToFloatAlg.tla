--------------------------- MODULE IntToFloatAlg ---------------------------
(* Algorithm layer of C06 for UBig / IBig -> f32 / f64 (integer/src/convert.rs, repr::to_f32 / to_f64)
   on top of the model of FloatEncoding::encode (IeeeEncode): for an integer of n bits that does not
   fit the inline double word,

       n > Emax + 1                      -> +infinity, Inexact(Positive)
       otherwise                         -> encode(top CB - 1 bits | sticky, n - (CB - 1))

   where CB is the width of the mantissa container (i32 / i64) and `sticky` is one bit that is set when
   any of the shifted-out bits is (are_low_bits_nonzero), OR-ed into the lowest bit of the top part.
   (The inline path casts the double word with the hardware conversion and compares the round trip;
   the hardware conversion is round-to-nearest-even by definition and is not modelled.)

   Checked against Ieee!RoundNE with the error sign, in the mini format, for every integer from CB bits
   up to a few bits beyond the overflow threshold. *)
EXTENDS IeeeEncode

IntToFloat(m) ==
  LET n == BitLen(m) IN
  IF n > Emax + 1 THEN [k |-> "ok", s |-> 0, B |-> InfBits, flag |-> 1, fin |-> "ret"]
  ELSE LET cut == n - (CB - 1)
           top == Shr(m, cut)
           sticky == IF LowBits(m, cut) = <<>> THEN <<>> ELSE One
           \* top | sticky: the lowest bit of `top` is set when it is not already
       IN Encode(0, IF sticky = <<>> \/ Bit(top, 0) = 1 THEN top ELSE Add(top, One), cut)

\* the integers of CB .. Emax + 4 bits (the shorter ones take the inline path or fit the container exactly)
IntInit == /\ phase = "int" /\ sg = 0 /\ ex = 0 /\ res = NoRes
           /\ mag \in {FromNat(v) : v \in Pow2N(CB - 1)..(Pow2N(Emax + 4) - 1)}
IntNext == UNCHANGED vars
IntSpec == IntInit /\ [][IntNext]_vars
IntCorrect == phase = "int" =>
  LET r == IntToFloat(mag)
      R == RoundNE(Fm, X(0, mag, 0))
  IN /\ r.k = "ok"
     /\ ExtEq(FieldsVal(Fm, FieldsOfBits(r.s, r.B)), R.v)
     /\ r.flag = R.err
=============================================================================
