------------------------------ MODULE ConvDef ------------------------------
(***************************************************************************)
(* Definition layer of C06.  The only formulas that can raise a C06        *)
(* violation.  What the property states, nothing more:                     *)
(*                                                                         *)
(*  (a) a From/TryFrom conversion that succeeds returns a target holding   *)
(*      exactly the source value, and converting back yields the original; *)
(*      a conversion never panics (a refusal is an Err value);             *)
(*  (b) to_f32/to_f64 (UBig, IBig, RBig, floats of any base), RBig::       *)
(*      to_float and the to_int family return the correctly rounded target *)
(*      for their documented rounding rule, Exact iff nothing was lost,    *)
(*      and otherwise the true sign of the error;                          *)
(*  (c) FloatEncoding::encode/decode are RoundNE / exact.                  *)
(*                                                                         *)
(* Latitude kept: a refusal of a representable value is not a violation of *)
(* (a) (only a failed round trip is); `NoOp` says nothing about the side   *)
(* of the error (round.rs table); infinities convert to infinities         *)
(* "inexactly" by documentation, so neither their flag nor their round     *)
(* trip is judged; a negative zero is the value zero; rounding modes other *)
(* than HalfEven are judged strictly only in the normal range of the       *)
(* target format (below and above it only faithfulness is required);       *)
(* *_fast only promise a bounded error.                                    *)
(***************************************************************************)
EXTENDS Ieee, FloatDef

UnsignedBits(t) == CASE t = "bool" -> 1 [] t = "u8" -> 8 [] t = "u16" -> 16 [] t = "u32" -> 32 [] t = "u64" -> 64
                     [] t = "usize" -> 64 [] t = "u128" -> 128 [] OTHER -> 0
SignedBits(t) == CASE t = "i8" -> 8 [] t = "i16" -> 16 [] t = "i32" -> 32 [] t = "i64" -> 64
                   [] t = "isize" -> 64 [] t = "i128" -> 128 [] OTHER -> 0
IsIntType(t) == t \in {"U", "I"} \/ UnsignedBits(t) > 0 \/ SignedBits(t) > 0
IsPrimFloat(t) == t \in {"f32", "f64"}
IsBigFloat(t) == t \in {"F", "FR"}
IsRatio(t) == t \in {"R", "RX"}

\* the integer x fits the integer type t
IntFits(t, x) ==
  IF t = "I" THEN TRUE
  ELSE IF t = "U" THEN x.s = 0
  ELSE IF UnsignedBits(t) > 0 THEN x.s = 0 /\ BitLen(x.m) <= UnsignedBits(t)
  ELSE LET b == SignedBits(t) IN BitLen(x.m) <= b - 1 \/ (x.s = 1 /\ x.m = PowerOfTwo(b - 1))

\* a typed wire value is a well-formed member of its type
WellFormed(v) ==
  CASE IsIntType(v.t) -> IsInt(v.i) /\ IntFits(v.t, v.i)
    [] IsPrimFloat(v.t) -> WireOK(v.t, v.b)
    [] IsBigFloat(v.t) -> IsInt(v.f.sig) /\ v.f.inf \in {-1, 0, 1}
    [] IsRatio(v.t) -> IsInt(v.num) /\ IsInt(v.den) /\ v.den.s = 0 /\ v.den.m # <<>>
    [] OTHER -> FALSE

\* the exact (extended) value of a typed wire value
TVal(v) ==
  CASE IsIntType(v.t) -> Fin(QFromInt(v.i))
    [] IsPrimFloat(v.t) -> PrimVal(v.t, v.b)
    [] IsBigFloat(v.t) -> (IF v.f.inf = 1 THEN PInf ELSE IF v.f.inf = -1 THEN NInf ELSE Fin(FVal(v.base, v.f)))
    [] IsRatio(v.t) -> Fin(Q(v.num, v.den.m))

\* ---------------------------------------------------------------- (a) From / TryFrom
ErrKinds == {"OutOfBounds", "LossOfPrecision"}
(* x: source, dt: target type tag, o: outcome
     [k |-> "ok", v |-> target, back |-> [k |-> "ok", v |-> ..] | [k |-> "err"|"panic"|"none"]]
   | [k |-> "err", e |-> kind] | [k |-> "panic"] *)
ConvWhy(x, dt, o) ==
  IF ~WellFormed(x) THEN "malformed-source"
  ELSE IF o.k = "panic" THEN "panic"
  ELSE IF o.k = "err" THEN (IF o.e \in ErrKinds THEN "" ELSE "unknown-error-kind")
  ELSE LET xv == TVal(x) IN
       IF o.v.t # dt \/ ~WellFormed(o.v) THEN "malformed-target"
       ELSE IF xv.k = "nan" THEN "nan-accepted"
       ELSE IF ~ExtEq(TVal(o.v), xv) THEN "lossy-ok"
       ELSE IF o.back.k = "none" \/ xv.k # "fin" THEN ""
       ELSE IF o.back.k = "panic" THEN "roundtrip-panic"
       ELSE IF o.back.k = "err" THEN
              \* documented latitude (integer/tests/convert.rs pins it): the way back from a big integer into
              \* f32/f64 may refuse every integer beyond the contiguous exact range 2^24 / 2^53
              (IF IsPrimFloat(x.t) /\ dt \in {"U", "I"} /\ BitLen(o.v.i.m) > FmtOf(x.t).M THEN "" ELSE "roundtrip-refused")
       ELSE IF ~WellFormed(o.back.v) THEN "malformed-roundtrip"
       ELSE IF ~ExtEq(TVal(o.back.v), xv) THEN "roundtrip-differs"
       ELSE ""

\* ---------------------------------------------------------------- (b) to_f32 / to_f64
(* ft: "f32"|"f64"; mode: the documented rounding rule; b: returned bits; flag: "Exact" or a sign
   ("Positive"/"Negative": sign of result - source) or a Rounding ("NoOp"/"AddOne"/"SubOne") *)
ToPrimFloatWhy(ft, mode, x, b, flag) ==
  IF ~WellFormed(x) THEN "malformed-source"
  ELSE IF ~WireOK(ft, b) THEN "malformed-result"
  ELSE
  LET f == FmtOf(ft)
      o == PrimVal(ft, b)
      xe == TVal(x)
  IN IF o.k = "nan" THEN "nan-result"
     ELSE IF xe.k # "fin" THEN (IF o.k = xe.k THEN "" ELSE "infinity-not-preserved")
     ELSE
     LET xq == xe.q
         c == ExtCmpQ(o, xq)
         R == IeeeRound(f, mode, xq)
         valueWhy ==
           IF ExtEq(o, R.v) THEN ""
           ELSE IF mode = "HalfEven" THEN
                  (IF R.sub THEN "misrounded-subnormal" ELSE IF R.over \/ o.k # "fin" THEN "misrounded-overflow"
                   ELSE "misrounded")
           ELSE IF ~R.sub /\ ~R.over /\ ~IeeeRound(f, "Away", xq).over THEN "misrounded-directed"
           \* outside the normal range a directed mode is only required to be faithful
           ELSE IF ExtEq(o, Below(f, xq)) \/ ExtEq(o, Above(f, xq)) THEN ""
           ELSE IF o.k = "fin" /\ QEq(QAbs(o.q), MaxFinite(f)) /\ ~QLt(QAbs(xq), MaxFinite(f)) THEN ""
           ELSE "unfaithful"
     IN IF valueWhy # "" THEN valueWhy
        ELSE IF (flag = "Exact") # (c = 0) THEN "exact-flag-untruthful"
        ELSE IF flag = "Positive" /\ c < 0 THEN "error-sign-wrong"
        ELSE IF flag = "Negative" /\ c > 0 THEN "error-sign-wrong"
        ELSE IF flag = "AddOne" /\ c < 0 THEN "addone-but-below"
        ELSE IF flag = "SubOne" /\ c > 0 THEN "subone-but-above"
        ELSE IF flag \notin {"Exact", "Positive", "Negative", "NoOp", "AddOne", "SubOne"} THEN "unknown-flag"
        ELSE ""

\* *_fast: no NaN, right sign, within 8 units of the target grid at x; an infinity only from 2^Emax up
FastWhy(ft, x, b) ==
  IF ~WellFormed(x) THEN "malformed-source"
  ELSE IF ~WireOK(ft, b) THEN "malformed-result"
  ELSE
  LET f == FmtOf(ft)  o == PrimVal(ft, b)  xq == TVal(x).q IN
  IF o.k = "nan" THEN "nan-result"
  ELSE IF QIsZero(xq) THEN (IF o.k = "fin" /\ QIsZero(o.q) THEN "" ELSE "nonzero-for-zero")
  ELSE LET g == Grid(f, xq) IN
       IF o.k # "fin" THEN (IF g.fl >= f.Emax /\ (o.k = "ninf") = g.neg THEN "" ELSE "fast-spurious-infinity")
       ELSE IF QLt(DyToQ(IFromNative(8), g.qe), QAbs(QSub(o.q, xq))) THEN "fast-error-gt-8-units"
       ELSE ""

\* ---------------------------------------------------------------- (b) RBig::to_float
ToFloatWhy(B, p, mode, x, r, flag) ==
  IF ~WellFormed(x) THEN "malformed-source"
  ELSE IF r.inf # 0 THEN "infinite-result"
  ELSE RoundedWhy(B, p, mode, TVal(x).q, r, flag)

\* ---------------------------------------------------------------- (b) to_int family
\* rounding a rational to an integer by mode, with a Rounding flag
RoundIntWhy(mode, x, r, flag) ==
  LET rv == QFromInt(r)
      c == QCmp(rv, x)
      err2 == QMulInt(QAbs(QSub(rv, x)), IFromNative(2))
      one == QFromInt(IOne)
      two == QFromInt(IFromNative(2))
  IN IF ~IsInt(r) THEN "malformed-result"
     ELSE IF (flag = "Exact") # (c = 0) THEN "exact-flag-untruthful"
     ELSE IF c = 0 THEN ""
     ELSE IF ~QLt(err2, two) THEN "error-ge-1"
     ELSE IF IsHalfMode(mode) /\ QLt(one, err2) THEN "error-gt-half"
     ELSE IF mode = "Zero" /\ QLt(QAbs(x), QAbs(rv)) THEN "wrong-side-zero"
     ELSE IF mode = "Away" /\ QLt(QAbs(rv), QAbs(x)) THEN "wrong-side-away"
     ELSE IF mode = "Up" /\ c < 0 THEN "wrong-side-up"
     ELSE IF mode = "Down" /\ c > 0 THEN "wrong-side-down"
     ELSE IF flag = "AddOne" /\ c < 0 THEN "addone-but-below"
     ELSE IF flag = "SubOne" /\ c > 0 THEN "subone-but-above"
     ELSE IF IsHalfMode(mode) /\ QEq(one, err2) THEN
            (IF mode = "HalfAway" THEN (IF QLt(QAbs(rv), QAbs(x)) THEN "tie-not-away" ELSE "")
             ELSE IF Bit(r.m, 0) = 1 THEN "tie-not-even" ELSE "")
     ELSE ""

(* rule: "mode" (FBig::to_int, rounding mode of the type), "zero" (Repr::to_int: toward zero, NoOp),
   "trunc-fract" (RBig::to_int: Inexact(trunc, fract)), "trunc" | "floor" | "ceil" (RBig), "half-away"
   (RBig::round).  o: [v |-> int, flag |-> .., fract |-> ratio (trunc-fract only)] *)
ToIntWhy(rule, mode, x, o) ==
  IF ~WellFormed(x) THEN "malformed-source"
  ELSE IF ~IsInt(o.v) THEN "malformed-result"
  ELSE
  LET xq == TVal(x).q IN
  CASE rule = "mode" -> RoundIntWhy(mode, xq, o.v, o.flag)
    [] rule = "zero" -> (IF o.flag \notin {"Exact", "NoOp"} THEN "flag-not-noop" ELSE RoundIntWhy("Zero", xq, o.v, o.flag))
    [] rule = "trunc-fract" ->
         (IF ~IEq(o.v, QTrunc(xq)) THEN "not-truncated"
          ELSE IF (o.flag = "Exact") # QEq(QFromInt(o.v), xq) THEN "exact-flag-untruthful"
          ELSE IF o.flag # "Exact" /\ ~QEq(QAdd(QFromInt(o.v), Q(o.fract.num, o.fract.den.m)), xq) THEN "fract-wrong"
          ELSE "")
    [] rule = "trunc" -> (IF IEq(o.v, QTrunc(xq)) THEN "" ELSE "not-truncated")
    [] rule = "floor" -> (IF IEq(o.v, QFloor(xq)) THEN "" ELSE "not-floor")
    [] rule = "ceil" -> (IF IEq(o.v, QCeil(xq)) THEN "" ELSE "not-ceil")
    [] rule = "half-away" -> RoundIntWhy("HalfAway", xq, o.v, IF QEq(QFromInt(o.v), xq) THEN "Exact" ELSE "NoOp")

\* ---------------------------------------------------------------- (c) FloatEncoding
EncodeWhy(ft, m, e, b, flag) ==
  IF ~WireOK(ft, b) THEN "malformed-result"
  ELSE
  LET f == FmtOf(ft)  o == PrimVal(ft, b)  x == DyToQ(m, e)  R == RoundNE(f, x) IN
  IF ~ExtEq(o, R.v) THEN (IF R.sub THEN "encode-misrounded-subnormal" ELSE "encode-misrounded")
  ELSE IF (flag = "Exact") # (R.err = 0) THEN "encode-exact-flag-untruthful"
  ELSE IF flag = "Positive" /\ R.err < 0 THEN "encode-error-sign-wrong"
  ELSE IF flag = "Negative" /\ R.err > 0 THEN "encode-error-sign-wrong"
  ELSE ""

\* o: [k |-> "ok", m |-> int, e |-> native] | [k |-> "err", e |-> "Nan" | "Infinite"]
DecodeWhy(ft, b, o) ==
  IF ~WireOK(ft, b) THEN "malformed-source"
  ELSE
  LET v == PrimVal(ft, b) IN
  IF v.k = "nan" THEN (IF o.k = "err" /\ o.e = "Nan" THEN "" ELSE "nan-not-refused")
  ELSE IF v.k # "fin" THEN (IF o.k = "err" /\ o.e = "Infinite" THEN "" ELSE "infinity-not-refused")
  ELSE IF o.k # "ok" THEN "finite-refused"
  ELSE IF ~QEq(DyToQ(o.m, o.e), v.q) THEN "decode-not-faithful"
  ELSE ""
=============================================================================
