SPECIFICATION Spec
INVARIANT EncodeCorrect
INVARIANT DecodeCorrect
INVARIANT BranchCover
CONSTANTS
  CB = 32
  M = 24
  EminNeg = 126
  Emax = 127
  Style = "f32"
  FixSticky = FALSE
  FixUnderflow = FALSE
  Scope = "fam"
  ELoAbs = 185
  ELoNegative = TRUE
  EHiAbs = 135
  EHiNegative = FALSE
CHECK_DEADLOCK FALSE
