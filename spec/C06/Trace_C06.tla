----------------------------- MODULE Trace_C06 -----------------------------
(* Trace monitor for C06: every recorded conversion, in every call form, is judged by ConvDef.
   The monitor never blocks: a failing event is recorded in `bad` and validation continues. *)
EXTENDS ConvDef, Json, IOUtils
Rec == ndJsonDeserialize(IOEnv.TRACE)

\* the documented rounding rule of a to_f32/to_f64 call: FBig::to_f32 uses the mode of the type,
\* everything else rounds to nearest, ties to even
DocMode(e) == IF e.x.t = "F" /\ e.ft = "f32" THEN e.mode ELSE "HalfEven"

OutWhy(e, o) ==
  CASE e.op = "conv" -> ConvWhy(e.x, e.dt, o)
    [] e.op = "decode" -> (IF o.k = "panic" THEN "panic" ELSE DecodeWhy(e.x.t, e.x.b, o))
    [] o.k # "ok" -> "panic"
    [] e.op = "to_f" -> ToPrimFloatWhy(e.ft, DocMode(e), e.x, o.b, o.flag)
    [] e.op = "to_f_fast" -> FastWhy(e.ft, e.x, o.b)
    [] e.op = "to_float" -> ToFloatWhy(e.base, e.p, e.mode, e.x, o.v, o.flag)
    [] e.op = "to_int" -> ToIntWhy(e.rule, e.mode, e.x, o)
    [] e.op = "encode" -> EncodeWhy(e.ft, e.m, e.e, o.b, o.flag)
    [] OTHER -> "unknown-op"

\* first failing call-form group
Why(e) == FoldLeft(LAMBDA acc, g : IF acc # "" THEN acc ELSE OutWhy(e, g.out), "", e.outs)

VARIABLES l, bad
Init == l = 1 /\ bad = <<>>
Next == /\ l <= Len(Rec)
        /\ LET w == Why(Rec[l]) IN bad' = IF w = "" THEN bad ELSE Append(bad, [i |-> l, why |-> w])
        /\ l' = l + 1
Spec == Init /\ [][Next]_<<l, bad>>
Verdict == l > Len(Rec) => PrintT(<<"VERDICT", ToJson([total |-> Len(Rec), bad |-> bad])>>)
Complete == IF TLCGet("stats").diameter - 1 = Len(Rec) THEN TRUE
            ELSE PrintT(<<"TRUNCATED", TLCGet("stats").diameter>>) /\ FALSE
=============================================================================
