SPECIFICATION Spec
INVARIANT Emit
CONSTANTS
  NG = 5
  Classes = {1, 2, 4}
  K = 2
  Seed = 0
CHECK_DEADLOCK FALSE
