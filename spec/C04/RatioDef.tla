------------------------------ MODULE RatioDef ------------------------------
(* Definition layer of C04: what RBig / Relaxed arithmetic must return.
   The only formulas that can raise a C04 violation.

   Values are exact rationals of spec/lib/Rat.tla ([n |-> BigInt, d |-> BigNat], d > 0, any
   representation).  Integer operands of the mixed forms are rationals with denominator 1.

   Statement: + - * / % pow sqr inv (and cubic, the Euclidean division family of the same file)
   return exactly the mathematical rational; division by zero panics; every RBig has a positive
   denominator coprime to the numerator and zero is 0/1; a Relaxed result has the same value as
   the RBig result (both are compared with the same exact value here). *)
EXTENDS Rat

PanicOps == {"div", "rem", "div_euclid", "rem_euclid", "div_rem_euclid"}
\* the operation divides by zero: the call must panic
MustPanic(op, x, y) == (op \in PanicOps /\ QIsZero(y)) \/ (op = "inv" /\ QIsZero(x))

\* operations with one exact result
ExactOps == {"load", "add", "sub", "mul", "div", "inv", "sqr", "cubic", "pow"}
ExactResult(op, x, y, n) ==
  CASE op = "load"  -> x
    [] op = "add"   -> QAdd(x, y)
    [] op = "sub"   -> QSub(x, y)
    [] op = "mul"   -> QMul(x, y)
    [] op = "div"   -> QDiv(x, y)
    [] op = "inv"   -> QInv(x)
    [] op = "sqr"   -> QMul(x, x)
    [] op = "cubic" -> QMul(x, QMul(x, x))
    [] op = "pow"   -> Q(IPow(x.n, n), Pow(x.d, n))

\* t is an integer
QIsInt(t) == Mod(t.n.m, t.d) = <<>>
\* r is a remainder of x modulo y (y # 0) under any of the usual conventions (truncated, floored,
\* Euclidean, nearest): x - r is an integer multiple of y and |r| < |y|.  The statement does not fix
\* the convention, so the definition does not either (all call forms must agree, see FormsAgree).
RemOK(x, y, r) == QIsInt(QDiv(QSub(x, r), y)) /\ QLt(QAbs(r), QAbs(y))
\* Euclidean division: x = q*y + r with an integer q and 0 <= r < |y|
EuclidRemOK(x, y, r) == QIsInt(QDiv(QSub(x, r), y)) /\ QSign(r) >= 0 /\ QLt(r, QAbs(y))
EuclidOK(x, y, q, r) == QEq(QSub(x, QMulInt(y, q)), r) /\ QSign(r) >= 0 /\ QLt(r, QAbs(y))
EuclidQuotOK(x, y, q) == LET r == QSub(x, QMulInt(y, q)) IN QSign(r) >= 0 /\ QLt(r, QAbs(y))

(* A result on the wire: [num |-> BigInt, den |-> BigInt (s = 0), q |-> BigInt, hint |-> [s, t]].
   `q` is the integer quotient of the Euclidean forms (zero otherwise); `hint` is an UNTRUSTED
   Bezout pair (s*num + t*den = 1) offered by the harness to avoid running Euclid on large values:
   it is re-verified with two products, and ignored when it does not check. *)
WfResult(v) == IsInt(v.num) /\ IsInt(v.den) /\ v.den.s = 0 /\ IsInt(v.q)
ResQ(v) == Q(v.num, v.den.m)

HintProvesCoprime(v) ==
  /\ IsInt(v.hint.s) /\ IsInt(v.hint.t)
  /\ IEq(IAdd(IMul(v.hint.s, v.num), IMul(v.hint.t, v.den)), IOne)
Coprime(v) == HintProvesCoprime(v) \/ Gcd(v.num.m, v.den.m) = One
\* positive denominator coprime to the numerator, zero stored as 0/1
CanonicalR(v) == /\ v.den.m # <<>>
                 /\ IF v.num.m = <<>> THEN v.den.m = One ELSE Coprime(v)

ValueOK(op, x, y, n, v) ==
  CASE op \in ExactOps         -> QEq(ExactResult(op, x, y, n), ResQ(v))
    [] op = "rem"              -> RemOK(x, y, ResQ(v))
    [] op = "rem_euclid"       -> EuclidRemOK(x, y, ResQ(v))
    [] op = "div_rem_euclid"   -> EuclidOK(x, y, v.q, ResQ(v))
    [] op = "div_euclid"       -> EuclidQuotOK(x, y, v.q)

(* Outcome o = [k |-> "ok", v |-> result] or [k |-> "panic"] of one group of call forms of result
   type ty ("R" = RBig, "X" = Relaxed) applied to exact operands x, y; "" when the statement holds,
   otherwise the violated clause. *)
OutcomeWhy(op, ty, x, y, n, o) ==
  IF MustPanic(op, x, y) THEN (IF o.k = "panic" THEN "" ELSE "no-panic-on-division-by-zero")
  ELSE IF o.k # "ok" THEN "unexpected-panic"
  ELSE IF ~WfResult(o.v) THEN "malformed-result"
  ELSE IF o.v.den.m = <<>> THEN "zero-denominator"
  ELSE IF ~ValueOK(op, x, y, n, o.v) THEN "wrong-value"
  ELSE IF ty = "R" /\ op # "div_euclid" /\ ~CanonicalR(o.v) THEN "rbig-not-canonical"
  ELSE ""
=============================================================================
