SPECIFICATION Spec
INVARIANT ResultOK
INVARIANT CanonInv
CONSTANTS
  N = 12
  MaxDepth = 1
  Bound = 100000000
  SeedMode = "all"
  PowMax = 4
  Scales = {1, 2, 3}
  FixF20 = FALSE
CHECK_DEADLOCK FALSE
