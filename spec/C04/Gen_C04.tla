------------------------------ MODULE Gen_C04 ------------------------------
(* Behaviour generator of C04.  Two partitions, one case per state:

   grp "small": EVERY operation x call-form family x operand pair of the small scope of the
        algorithm-layer model (numerators -NG..NG, denominators 1..NG, integers -NG..NG), i.e. the
        states of MC_RatioOps replayed into the code; plus raw (unreduced) loads.
   grp "big": multi-word operands with PLANTED common factors, so that the reductions of the code
        (gcd of the denominators + hint in add/sub, cross gcds in mul/div, gcd with the integer in
        the mixed forms) have real work to do on the heap representation:
          style 1:  a = (x*g)/(y*h),  b = (z*h)/(w*g)      cross factors (mul)
          style 2:  a = (x*g)/(y*h),  b = (z*g)/(w*h)      shared denominator / numerator factors
        with x, y, z, w, g, h from the bit-pattern partition of C01 (IntPatterns).

   A case is [op, kind, a, b, k, n] in the wire format of the trace events (Trace_C04), so the
   harness loads a and b into registers and applies `op`; no expectation is generated: the verdict
   is computed by the monitor from the definition. *)
EXTENDS IntPatterns, Json
CONSTANTS NG,          \* small scope
          Classes,     \* word counts of x, y, z, w
          K,           \* variants per big cell
          Seed

NAbs(x) == IF x < 0 THEN -x ELSE x
RECURSIVE NGcdP(_, _)
NGcdP(a, b) == IF b = 0 THEN a ELSE NGcdP(b, a % b)
NGcd(a, b) == NGcdP(NAbs(a), NAbs(b))
Fracs == {f \in (-NG..NG) \X (1..NG) : NGcd(f[1], f[2]) = 1}
Ints == -NG..NG

QQOps == {"add", "sub", "mul", "div", "rem", "div_euclid", "rem_euclid", "div_rem_euclid"}
IntOps == {"add", "sub", "mul", "div"}
IntKinds == {"qu", "qi", "uq", "iq"}
UnOps == {"inv", "sqr", "cubic", "pow"}

VARIABLES phase, grp, op, kind, fa, fb, ki, n, cls, style, var
vars == <<phase, grp, op, kind, fa, fb, ki, n, cls, style, var>>

Zero2 == <<0, 1>>
InitSmallQQ == grp = "small" /\ kind = "qq" /\ op \in QQOps /\ fa \in Fracs
InitSmallInt == grp = "small" /\ kind \in IntKinds /\ op \in IntOps /\ fa \in Fracs
InitSmallUn == grp = "small" /\ kind = "q" /\ op \in UnOps /\ fa \in Fracs
InitSmallLoad == grp = "small" /\ kind = "load" /\ op = "load" /\ fa \in Fracs
InitBigQQ == grp = "big" /\ kind = "qq" /\ op \in QQOps /\ fa = Zero2
InitBigInt == grp = "big" /\ kind \in IntKinds /\ op \in IntOps /\ fa = Zero2
Init == /\ phase = "pick" /\ fb = Zero2 /\ ki = 0 /\ n = 0 /\ cls = 0 /\ style = 1 /\ var = 0
        /\ (InitSmallQQ \/ InitSmallInt \/ InitSmallUn \/ InitSmallLoad \/ InitBigQQ \/ InitBigInt)

Pick ==
  /\ phase = "pick" /\ phase' = "done"
  /\ IF grp = "small"
     THEN /\ fb' \in (IF kind = "qq" THEN Fracs ELSE {Zero2})
          /\ ki' \in (IF kind \in {"qi", "iq"} THEN Ints ELSE IF kind \in {"qu", "uq"} THEN 0..NG
                      ELSE IF kind = "load" THEN {2, 3, 6} ELSE {0})          \* load: scale factor
          /\ n' \in (IF op = "pow" THEN 0..4 ELSE {0})
          /\ UNCHANGED <<cls, style, var>>
     ELSE /\ cls' \in Classes /\ style' \in {1, 2} /\ var' \in 1..K
          /\ UNCHANGED <<fb, ki, n>>
  /\ UNCHANGED <<grp, op, kind, fa>>
Next == Pick
Spec == Init /\ [][Next]_vars

WireFrac(nn, dd) == [num |-> IFromNative(nn), den |-> IFromNative(dd)]
WireZero == WireFrac(0, 1)

SmallCase ==
  [op |-> op, kind |-> kind,
   a |-> IF kind = "load" THEN WireFrac(fa[1] * ki, fa[2] * ki) ELSE WireFrac(fa[1], fa[2]),
   b |-> WireFrac(fb[1], fb[2]),
   k |-> IF kind = "load" THEN IZero ELSE IFromNative(ki), n |-> n, grp |-> "small"]

Salt == cls * 7 + style * 3 + var * 11 + Seed + (IF kind = "qq" THEN 0 ELSE 5)
Pat(i) == Patterns[1 + ((Salt + i * 3) % NPat)]
BigCase ==
  LET cg == 1 + (Salt % 2)
      g == Mag(Pat(1), cg, Salt)          h == Mag(Pat(2), 3 - cg, Salt + 1)
      x == Mag(Pat(3), cls, Salt + 2)     y == Mag(Pat(4), cls, Salt + 3)
      z == Mag(Pat(5), cls, Salt + 4)     w == Mag(Pat(6), 1 + (cls \div 2), Salt + 5)
      sa == (Salt \div 2) % 2             sb == (Salt \div 3) % 2
      A == [num |-> I(sa, Mul(x, g)), den |-> I(0, Mul(y, h))]
      Bq == IF style = 1 THEN [num |-> I(sb, Mul(z, h)), den |-> I(0, Mul(w, g))]
            ELSE [num |-> I(sb, Mul(z, g)), den |-> I(0, Mul(w, h))]
      \* mixed forms: the integer shares g with the numerator (div) or h with the denominator (mul)
      kk == IF style = 1 THEN I(IF kind \in {"qi", "iq"} THEN sb ELSE 0, Mul(z, h))
            ELSE I(IF kind \in {"qi", "iq"} THEN sb ELSE 0, Mul(z, g))
  IN [op |-> op, kind |-> kind, a |-> A, b |-> IF kind = "qq" THEN Bq ELSE WireZero,
      k |-> IF kind = "qq" THEN IZero ELSE kk, n |-> 0, grp |-> "big"]

Case == IF grp = "small" THEN SmallCase ELSE BigCase
Emit == phase = "done" => PrintT(<<"GEN", ToJson(Case)>>)
=============================================================================
