------------------------------ MODULE RatioOps ------------------------------
(* Algorithm layer of C04: the case analysis of rational/src/{add,mul,div,repr}.rs transcribed on
   native integers.  A Repr is a pair <<numerator, denominator>>.  One operator per Rust macro /
   function, one disjunct per branch.  The model is a 2-register history machine: every result
   can be stored back into a register and used as an operand, so that TLC checks

     * every result against the definition layer (RatioDef, evaluated on BigInt), and
     * that canonicity of RBig registers is inductive (CanonInv),

   exhaustively for all operand pairs of the scope (MC_RatioOps.cfg: Seeds = all fractions,
   MaxDepth = 1) and along histories (MC_RatioHist.cfg: few seeds, MaxDepth = 3, bounded size).
   In particular the reduction by hint of add/sub is correct only because
   gcd(a*d/g +- c*b/g, b*d/g) divides g = gcd(b, d): TLC checks exactly that consequence.

   FixF20 = FALSE models the pinned tree (Inverse for Repr has no zero test: F20);
   FixF20 = TRUE models the repaired code. *)
EXTENDS RatioDef
CONSTANTS N,          \* numerators -N..N, denominators 1..N
          MaxDepth,   \* number of operations in a history
          Bound,      \* histories: magnitude limit of stored components
          SeedMode,   \* "all": every fraction of the scope; "few": a handful of seeds
          PowMax,     \* exponents 0..PowMax
          Scales,     \* Relaxed operands are presented unreduced: numerator and denominator times s
          FixF20

NAbs(x) == IF x < 0 THEN -x ELSE x
NSgn(x) == IF x < 0 THEN -1 ELSE 1            \* IBig::sign(): zero is positive
NMin(a, b) == IF a < b THEN a ELSE b
RECURSIVE NGcdP(_, _)
NGcdP(a, b) == IF b = 0 THEN a ELSE NGcdP(b, a % b)
NGcd(a, b) == NGcdP(NAbs(a), NAbs(b))                        \* gcd(0, x) = |x| as in dashu
\* truncated division of IBig
TDiv(a, b) == NSgn(a) * NSgn(b) * (NAbs(a) \div NAbs(b))
TRem(a, b) == a - b * TDiv(a, b)
\* Euclidean division of IBig
ERem(a, b) == a % NAbs(b)
EDiv(a, b) == (a - ERem(a, b)) \div b
RECURSIVE NPow(_, _)
NPow(a, n) == IF n = 0 THEN 1 ELSE a * NPow(a, n - 1)
RECURSIVE Tz(_)
Tz(x) == IF x % 2 = 1 THEN 0 ELSE 1 + Tz(x \div 2)          \* x # 0
RECURSIVE P2(_)
P2(k) == IF k = 0 THEN 1 ELSE 2 * P2(k - 1)

\* ---------------------------------------------------------------- repr.rs
Reduce(r) == IF r[1] = 0 THEN <<0, 1>>
             ELSE LET g == NGcd(r[1], r[2]) IN <<r[1] \div g, r[2] \div g>>
ReduceWithHint(r, hint) ==
  IF r[1] = 0 THEN <<0, 1>>
  ELSE LET g == NGcd(NGcd(hint, r[1]), r[2]) IN <<r[1] \div g, r[2] \div g>>
Reduce2(r) ==
  IF r[1] = 0 THEN <<0, 1>>
  ELSE LET z == NMin(Tz(NAbs(r[1])), Tz(r[2])) IN
       IF z > 0 THEN <<r[1] \div P2(z), r[2] \div P2(z)>> ELSE r
RBigFromParts(n, d) == Reduce(<<n, d>>)          \* d # 0 at every call site below
RelaxedFromParts(n, d) == Reduce2(<<n, d>>)

\* a result of the model: [k |-> "ok", r |-> <<n, d>>, q |-> integer] or [k |-> "panic"]
Ok(r) == [k |-> "ok", r |-> r, q |-> 0]
OkQ(q, r) == [k |-> "ok", r |-> r, q |-> q]
Panic == [k |-> "panic", r |-> <<0, 1>>, q |-> 0]

\* ---------------------------------------------------------------- add.rs
\* impl_add_or_sub_with_rbig; sg = 1 (add) or -1 (sub)
AddSubRBig(p, q, sg) ==
  LET a == p[1] b == p[2] c == q[1] d == q[2]
      g == NGcd(b, d)
  IN IF g = 1 THEN Ok(<<a * d + sg * (c * b), b * d>>)                 \* branch: coprime denominators
     ELSE LET ddg == d \div g
              left == ddg * a
              right == (b \div g) * c
          IN Ok(ReduceWithHint(<<left + sg * right, b * ddg>>, g))      \* branch: shared factor
AddSubRelaxed(p, q, sg) == Ok(RelaxedFromParts(p[1] * q[2] + sg * (q[1] * p[2]), p[2] * q[2]))
\* impl_addsub_int_with_rbig / _relaxed (no reduction at all), impl_int_sub_rbig / _relaxed
AddSubInt(p, i, sg) == Ok(<<p[1] + sg * (p[2] * i), p[2]>>)
IntSub(i, p) == Ok(<<p[2] * i - p[1], p[2]>>)

\* ---------------------------------------------------------------- mul.rs
MulRBig(p, q) ==
  LET a == p[1] b == p[2] c == q[1] d == q[2]
      gad == NGcd(a, d)  gbc == NGcd(b, c)
  IN Ok(<<(a \div gad) * (c \div gbc), (b \div gbc) * (d \div gad)>>)
MulRelaxed(p, q) == Ok(RelaxedFromParts(p[1] * q[1], p[2] * q[2]))
MulIntRBig(p, i) == LET g == NGcd(p[2], i) IN Ok(<<p[1] * (i \div g), p[2] \div g>>)
MulIntRelaxed(p, i) == Ok(RelaxedFromParts(p[1] * i, p[2]))
PowRepr(p, n) == Ok(<<NPow(p[1], n), NPow(p[2], n)>>)

\* ---------------------------------------------------------------- div.rs
DivRBig(p, q) ==
  LET a == p[1] b == p[2] c == q[1] d == q[2] IN
  IF c = 0 THEN Panic
  ELSE LET gac == NGcd(a, c)  gbd == NGcd(b, d)
       IN Ok(<<(a \div gac) * (d \div gbd) * NSgn(c), (b \div gbd) * (NAbs(c) \div gac)>>)
DivRelaxed(p, q) ==
  IF q[1] = 0 THEN Panic
  ELSE Ok(RelaxedFromParts(p[1] * q[2] * NSgn(q[1]), p[2] * NAbs(q[1])))
\* impl_rbig_div_ubig / impl_rbig_div_ibig (the same arithmetic)
DivIntRBig(p, i) ==
  IF i = 0 THEN Panic
  ELSE LET g == NGcd(p[1], i) IN Ok(<<(p[1] \div g) * NSgn(i), p[2] * (NAbs(i) \div g)>>)
\* impl_ubig_or_ibig_div_rbig
IntDivRBig(i, p) ==
  IF p[1] = 0 THEN Panic
  ELSE LET g == NGcd(p[1], i) IN Ok(<<p[2] * (i \div g) * NSgn(p[1]), NAbs(p[1]) \div g>>)
DivIntRelaxed(p, i) == IF i = 0 THEN Panic ELSE Ok(RelaxedFromParts(p[1] * NSgn(i), p[2] * NAbs(i)))
IntDivRelaxed(i, p) == IF p[1] = 0 THEN Panic ELSE Ok(RelaxedFromParts(p[2] * i * NSgn(p[1]), NAbs(p[1])))

\* impl_rem_with_rbig / _relaxed: remainder of least magnitude; the zero test is the one of the
\* integer remainder (IBig % 0 panics)
NearestRem(left, right) ==
  LET t == TRem(left, right)
      sign == NSgn(t)  r1 == NAbs(t)
      r2 == right - r1
  IN IF r1 < r2 THEN sign * r1 ELSE (-sign) * r2
RemRBig(p, q) ==
  LET a == p[1] b == p[2] c == q[1] d == q[2]
      g == NGcd(b, d)  ddg == d \div g
      left == ddg * a  right == (b \div g) * NAbs(c)
  IN IF right = 0 THEN Panic ELSE Ok(RBigFromParts(NearestRem(left, right), b * ddg))
RemRelaxed(p, q) ==
  LET left == p[1] * q[2]  right == NAbs(q[1]) * p[2]
  IN IF right = 0 THEN Panic ELSE Ok(RelaxedFromParts(NearestRem(left, right), p[2] * q[2]))

\* impl_euclid_div (RBig and Relaxed)
DivEuclid(p, q) == IF q[1] = 0 THEN Panic ELSE OkQ(EDiv(p[1] * q[2], p[2] * q[1]), <<0, 1>>)
RemEuclidRBig(p, q) ==
  LET g == NGcd(p[2], q[2])  ddg == q[2] \div g
      left == ddg * p[1]  right == (p[2] \div g) * q[1]
  IN IF right = 0 THEN Panic ELSE Ok(RBigFromParts(ERem(left, right), p[2] * ddg))
RemEuclidRelaxed(p, q) ==
  LET left == p[1] * q[2]  right == q[1] * p[2]
  IN IF right = 0 THEN Panic ELSE Ok(RelaxedFromParts(ERem(left, right), p[2] * q[2]))
DivRemEuclidRBig(p, q) ==
  LET g == NGcd(p[2], q[2])  ddg == q[2] \div g
      left == ddg * p[1]  right == (p[2] \div g) * q[1]
  IN IF right = 0 THEN Panic ELSE OkQ(EDiv(left, right), RBigFromParts(ERem(left, right), p[2] * ddg))
DivRemEuclidRelaxed(p, q) ==
  LET left == p[1] * q[2]  right == q[1] * p[2]
  IN IF right = 0 THEN Panic ELSE OkQ(EDiv(left, right), RelaxedFromParts(ERem(left, right), p[2] * q[2]))

\* Inverse for Repr
InvRepr(p) == IF FixF20 /\ p[1] = 0 THEN Panic ELSE Ok(<<NSgn(p[1]) * p[2], NAbs(p[1])>>)

\* ---------------------------------------------------------------- dispatch
QQOps == {"add", "sub", "mul", "div", "rem", "div_euclid", "rem_euclid", "div_rem_euclid"}
IntOps == {"add", "sub", "mul", "div"}
UnOps == {"inv", "sqr", "cubic", "pow"}
ModelQQ(op, ty, p, q) ==
  CASE op = "add" -> IF ty = "R" THEN AddSubRBig(p, q, 1) ELSE AddSubRelaxed(p, q, 1)
    [] op = "sub" -> IF ty = "R" THEN AddSubRBig(p, q, -1) ELSE AddSubRelaxed(p, q, -1)
    [] op = "mul" -> IF ty = "R" THEN MulRBig(p, q) ELSE MulRelaxed(p, q)
    [] op = "div" -> IF ty = "R" THEN DivRBig(p, q) ELSE DivRelaxed(p, q)
    [] op = "rem" -> IF ty = "R" THEN RemRBig(p, q) ELSE RemRelaxed(p, q)
    [] op = "div_euclid" -> DivEuclid(p, q)
    [] op = "rem_euclid" -> IF ty = "R" THEN RemEuclidRBig(p, q) ELSE RemEuclidRelaxed(p, q)
    [] op = "div_rem_euclid" -> IF ty = "R" THEN DivRemEuclidRBig(p, q) ELSE DivRemEuclidRelaxed(p, q)
\* rational (op) integer
ModelQI(op, ty, p, i) ==
  CASE op = "add" -> AddSubInt(p, i, 1)
    [] op = "sub" -> AddSubInt(p, i, -1)
    [] op = "mul" -> IF ty = "R" THEN MulIntRBig(p, i) ELSE MulIntRelaxed(p, i)
    [] op = "div" -> IF ty = "R" THEN DivIntRBig(p, i) ELSE DivIntRelaxed(p, i)
\* integer (op) rational
ModelIQ(op, ty, i, p) ==
  CASE op = "add" -> AddSubInt(p, i, 1)
    [] op = "sub" -> IntSub(i, p)
    [] op = "mul" -> IF ty = "R" THEN MulIntRBig(p, i) ELSE MulIntRelaxed(p, i)
    [] op = "div" -> IF ty = "R" THEN IntDivRBig(i, p) ELSE IntDivRelaxed(i, p)
ModelUn(op, p, n) ==
  CASE op = "inv" -> InvRepr(p)
    [] op = "sqr" -> PowRepr(p, 2)
    [] op = "cubic" -> PowRepr(p, 3)
    [] op = "pow" -> PowRepr(p, n)

\* ---------------------------------------------------------------- the history machine
Fracs == {f \in (-N..N) \X (1..N) : NGcd(f[1], f[2]) = 1}
FewSeeds == {<<0, 1>>, <<1, 1>>, <<-1, 1>>, <<1, 2>>, <<-2, 3>>, <<3, 4>>, <<5, 6>>, <<-4, 1>>, <<6, 1>>}
Seeds == IF SeedMode = "all" THEN Fracs ELSE FewSeeds \cap Fracs

None == [op |-> "none", form |-> "", ty |-> "R", x |-> <<0, 1>>, y |-> <<0, 1>>, n |-> 0, out |-> Ok(<<0, 1>>)]
VARIABLES phase, r1, r2, depth, last
vars == <<phase, r1, r2, depth, last>>

Init == phase = "pick" /\ r1 \in Seeds /\ r2 = <<0, 1>> /\ depth = 0 /\ last = None
Pick == /\ phase = "pick" /\ phase' = "run" /\ r2' \in Seeds
        /\ UNCHANGED <<r1, depth, last>>

Fits(o) == o.k = "panic" \/ (NAbs(o.r[1]) <= Bound /\ o.r[2] <= Bound /\ NAbs(o.q) <= Bound)
\* an RBig result is stored into a register (a panic leaves the registers alone; a Relaxed result is
\* only checked: the registers hold RBig values, whose canonicity is the inductive invariant)
Store(ty, o) ==
  IF o.k = "ok" /\ ty = "R" /\ o.r[2] # 0 /\ depth + 1 < MaxDepth
  THEN \/ r1' = o.r /\ UNCHANGED r2
       \/ r2' = o.r /\ UNCHANGED r1
  ELSE UNCHANGED <<r1, r2>>
Step(op, form, ty, x, y, n, o) ==
  /\ phase = "run" /\ depth < MaxDepth /\ Fits(o)
  /\ last' = [op |-> op, form |-> form, ty |-> ty, x |-> x, y |-> y, n |-> n, out |-> o]
  /\ depth' = depth + 1
  /\ Store(ty, o)
  /\ UNCHANGED phase

Tys == {"R", "X"}
Scale(p, s) == <<p[1] * s, p[2] * s>>
ScalesOf(ty) == IF ty = "R" THEN {1} ELSE Scales
\* add/sub are split by the branch of impl_add_or_sub_with_rbig so that coverage is per branch
AddSubCoprime == \E op \in {"add", "sub"} : NGcd(r1[2], r2[2]) = 1 /\
                    Step(op, "qq", "R", r1, r2, 0, ModelQQ(op, "R", r1, r2))
AddSubShared == \E op \in {"add", "sub"} : NGcd(r1[2], r2[2]) # 1 /\
                    Step(op, "qq", "R", r1, r2, 0, ModelQQ(op, "R", r1, r2))
QQStep(op, ty) == \E s1 \in ScalesOf(ty), s2 \in ScalesOf(ty) :
                    LET x == Scale(r1, s1) y == Scale(r2, s2) IN Step(op, "qq", ty, x, y, 0, ModelQQ(op, ty, x, y))
AddSubRelaxedAct == \E op \in {"add", "sub"} : QQStep(op, "X")
MulDivAct == \E op \in {"mul", "div"}, ty \in Tys : QQStep(op, ty)
RemAct == \E ty \in Tys : QQStep("rem", ty)
EuclidAct == \E op \in {"div_euclid", "rem_euclid", "div_rem_euclid"}, ty \in Tys : QQStep(op, ty)
\* mixed forms: the integer is register 2 when it holds an integer
RatIntAct == \E op \in IntOps, ty \in Tys, s \in Scales : r2[2] = 1 /\ s \in ScalesOf(ty) /\
                LET x == Scale(r1, s) IN Step(op, "qi", ty, x, r2, 0, ModelQI(op, ty, x, r2[1]))
IntRatAct == \E op \in IntOps, ty \in Tys, s \in Scales : r2[2] = 1 /\ s \in ScalesOf(ty) /\
                LET y == Scale(r1, s) IN Step(op, "iq", ty, r2, y, 0, ModelIQ(op, ty, r2[1], y))
\* unary operations act on register 1 (register 2 is a bystander: only taken when it is zero in
\* the exhaustive configuration, to avoid repeating the same check for every r2)
UnaryAct == \E op \in UnOps, n \in 0..PowMax, ty \in Tys, s \in Scales :
                /\ (SeedMode = "all" => r2 = <<0, 1>>)
                /\ (op # "pow" => n = 0) /\ s \in ScalesOf(ty)
                /\ LET x == Scale(r1, s) IN Step(op, "q", ty, x, <<0, 1>>, n, ModelUn(op, x, n))

Next == Pick \/ AddSubCoprime \/ AddSubShared \/ AddSubRelaxedAct \/ MulDivAct \/ RemAct \/ EuclidAct
        \/ RatIntAct \/ IntRatAct \/ UnaryAct
Spec == Init /\ [][Next]_vars

\* ---------------------------------------------------------------- model vs definition
NQ(r) == Q(IFromNative(r[1]), FromNat(r[2]))
NoHint == [s |-> IZero, t |-> IZero]
WireOut(o) == IF o.k = "panic" THEN [k |-> "panic"]
              ELSE [k |-> "ok", v |-> [num |-> IFromNative(o.r[1]), den |-> IFromNative(o.r[2]),
                                       q |-> IFromNative(o.q), hint |-> NoHint]]
LastWhy == OutcomeWhy(last.op, last.ty, NQ(last.x), NQ(last.y), last.n, WireOut(last.out))
\* the open finding F20 (same predicate as findings/C04.json): inverse of zero does not panic
Known_F20(w) == ~FixF20 /\ last.op = "inv" /\ last.x[1] = 0 /\ w = "no-panic-on-division-by-zero"
ResultOK == last.op = "none" \/ LET w == LastWhy IN w = "" \/ Known_F20(w)
\* without the Known_ disjunct: on the pinned tree TLC exhibits F20 from the model alone (re-finding run)
ResultStrict == last.op = "none" \/ LastWhy = ""

\* vacuity control: the branch class of the last step, printed by the small coverage run of the check
\* (TLC's -coverage mode is unusable with the fold-based BigNat library: > 200x slowdown)
Tag == last.op \o "/" \o last.form \o "/" \o last.ty \o "/"
       \o (IF last.out.k = "panic" THEN "panic" ELSE IF last.out.r[1] = 0 THEN "zero"
           ELSE IF last.out.r[2] = 1 THEN "int" ELSE "frac")
       \o (IF last.op \in {"add", "sub"} /\ last.form = "qq" /\ last.ty = "R"
           THEN (IF NGcd(last.x[2], last.y[2]) = 1 THEN "/coprime" ELSE "/shared") ELSE "")
CovEmit == last.op # "none" => PrintT(<<"COV", Tag>>)

NCanonical(r) == r[2] >= 1 /\ NGcd(r[1], r[2]) = 1 /\ (r[1] = 0 => r[2] = 1)
CanonInv == NCanonical(r1) /\ NCanonical(r2)
=============================================================================
