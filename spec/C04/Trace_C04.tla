----------------------------- MODULE Trace_C04 -----------------------------
(* Trace monitor of C04, a pool machine.

   The harness keeps two register files of NR registers in lockstep: RBig values and Relaxed values.
   Every event says `dst := op(src registers [, integer k] [, exponent n])`, executed in every call
   form on both files, and logs what came back (`outs`, grouped by identical outcome and result
   type) and what it stored (`res` / `xres`).  The monitor keeps ITS OWN abstract register files
   (exact rationals), evaluates the definition (RatioDef!OutcomeWhy) on its own operands for every
   group of forms, and never blocks: a failing event is recorded in `bad`, then the monitor
   re-synchronises its registers from the log and goes on.  The logged operands (`a`, `xa`, `b`,
   `xb`) make every event a self-contained case and let the monitor detect a diverged register.

   event: [op, kind, dst, src, a, xa, b, xb, k, n, outs, st, res, xst, xres]
     kind  "load"             dst := the rational a (raw numerator / denominator as given)
           "qq"               dst := reg[src[1]] op reg[src[2]]
           "qu" "qi"          dst := reg[src[1]] op k      (k: UBig / IBig)
           "uq" "iq"          dst := k op reg[src[1]]
           "q"                dst := op(reg[src[1]])       (inv, sqr, cubic, pow n)
     outs  <<[ty |-> "R" | "X", forms |-> <<...>>, out |-> [k |-> "ok", v |-> result] | [k |-> "panic"]]>>
     st/xst = 1: res / xres was stored into dst of the RBig / Relaxed file *)
EXTENDS RatioDef, Json, IOUtils
Rec == ndJsonDeserialize(IOEnv.TRACE)
NR == 8

WfQ(v) == IsInt(v.num) /\ IsInt(v.den) /\ v.den.s = 0 /\ v.den.m # <<>>
WireQ(v) == Q(v.num, v.den.m)
SameRepr(q, v) == IEq(q.n, v.num) /\ q.d = v.den.m

VARIABLES l, bad, rr, rx
vars == <<l, bad, rr, rx>>

\* registers named by the event, and whether the monitor's copy agrees with the logged operand
Binary(e) == e.kind = "qq"
UsesReg(e) == e.kind # "load"
Desync(e) ==
  UsesReg(e) /\
  \/ ~SameRepr(rr[e.src[1]], e.a) \/ ~SameRepr(rx[e.src[1]], e.xa)
  \/ Binary(e) /\ (~SameRepr(rr[e.src[2]], e.b) \/ ~SameRepr(rx[e.src[2]], e.xb))
\* re-synchronisation of the operand registers from the log
SyncR(e) == IF ~UsesReg(e) THEN rr
            ELSE LET r1 == IF WfQ(e.a) THEN [rr EXCEPT ![e.src[1]] = WireQ(e.a)] ELSE rr
                 IN IF Binary(e) /\ WfQ(e.b) THEN [r1 EXCEPT ![e.src[2]] = WireQ(e.b)] ELSE r1
SyncX(e) == IF ~UsesReg(e) THEN rx
            ELSE LET r1 == IF WfQ(e.xa) THEN [rx EXCEPT ![e.src[1]] = WireQ(e.xa)] ELSE rx
                 IN IF Binary(e) /\ WfQ(e.xb) THEN [r1 EXCEPT ![e.src[2]] = WireQ(e.xb)] ELSE r1

\* exact operands <<x, y>> of the event on register file f
Operands(e, f) ==
  CASE e.kind = "load" -> <<WireQ(e.a), QZero>>
    [] e.kind = "qq"   -> <<f[e.src[1]], f[e.src[2]]>>
    [] e.kind \in {"qu", "qi"} -> <<f[e.src[1]], QFromInt(e.k)>>
    [] e.kind \in {"uq", "iq"} -> <<QFromInt(e.k), f[e.src[1]]>>
    [] e.kind = "q"    -> <<f[e.src[1]], QZero>>

WellFormedEvent(e) ==
  /\ e.kind \in {"load", "qq", "qu", "qi", "uq", "iq", "q"}
  /\ e.dst \in 1..NR
  /\ (UsesReg(e) => e.src[1] \in 1..NR /\ (Binary(e) => e.src[2] \in 1..NR))
  /\ (e.kind = "load" => WfQ(e.a))
  /\ (e.kind \in {"qu", "qi", "uq", "iq"} => IsInt(e.k))
  /\ e.op \in ExactOps \cup {"rem", "div_euclid", "rem_euclid", "div_rem_euclid"}

\* the first failing group of forms decides the reason
GroupWhy(e, o, opsR, opsX) ==
  LET ops == IF o.ty = "R" THEN opsR ELSE opsX
  IN OutcomeWhy(e.op, o.ty, ops[1], ops[2], e.n, o.out)
\* `%` leaves the convention open, so all forms (RBig and Relaxed) must at least agree on the value
FormsAgree(e) ==
  LET oks == SelectSeq(e.outs, LAMBDA o : o.out.k = "ok" /\ WfResult(o.out.v) /\ o.out.v.den.m # <<>>)
  IN \A i \in 2..Len(oks) : QEq(ResQ(oks[1].out.v), ResQ(oks[i].out.v))

Why(e, fr, fx) ==
  IF ~WellFormedEvent(e) THEN "malformed-event"
  ELSE
  LET opsR == Operands(e, fr)
      opsX == Operands(e, fx)
      whys == [i \in 1..Len(e.outs) |-> GroupWhy(e, e.outs[i], opsR, opsX)]
      firstbad == FoldLeftDomain(LAMBDA acc, i : IF acc = 0 /\ whys[i] # "" THEN i ELSE acc, 0, whys)
  IN IF firstbad # 0 THEN whys[firstbad]
     ELSE IF e.op = "rem" /\ QEq(opsR[1], opsX[1]) /\ QEq(opsR[2], opsX[2]) /\ ~FormsAgree(e)
          THEN "forms-disagree"
     ELSE ""

\* value stored by the harness (re-synchronisation of dst from the log)
Stored(flag, v, old) == IF flag = 1 /\ WfQ(v) THEN WireQ(v) ELSE old

Init == l = 1 /\ bad = <<>> /\ rr = [i \in 1..NR |-> QZero] /\ rx = [i \in 1..NR |-> QZero]
Next ==
  /\ l <= Len(Rec)
  /\ LET e == Rec[l]
         ds == Desync(e)
         fr == SyncR(e)
         fx == SyncX(e)
         w == Why(e, fr, fx)
         b1 == IF ds THEN Append(bad, [i |-> l, why |-> "register-desync"]) ELSE bad
     IN /\ bad' = IF w = "" THEN b1 ELSE Append(b1, [i |-> l, why |-> w])
        /\ rr' = IF e.dst \in 1..NR THEN [fr EXCEPT ![e.dst] = Stored(e.st, e.res, fr[e.dst])] ELSE fr
        /\ rx' = IF e.dst \in 1..NR THEN [fx EXCEPT ![e.dst] = Stored(e.xst, e.xres, fx[e.dst])] ELSE fx
  /\ l' = l + 1
Spec == Init /\ [][Next]_vars
Verdict == l > Len(Rec) => PrintT(<<"VERDICT", ToJson([total |-> Len(Rec), bad |-> bad])>>)
Complete == IF TLCGet("stats").diameter - 1 = Len(Rec) THEN TRUE
            ELSE PrintT(<<"TRUNCATED", TLCGet("stats").diameter>>) /\ FALSE
=============================================================================
