SPECIFICATION Spec
INVARIANT ResultOK
INVARIANT CanonInv
CONSTANTS
  N = 6
  MaxDepth = 3
  Bound = 80
  SeedMode = "few"
  PowMax = 3
  Scales = {1, 2}
  FixF20 = FALSE
CHECK_DEADLOCK FALSE
