----------------------------- MODULE RoundNative -----------------------------
(* Definition layer on native TLC integers, for the small-scope model checking of the
   algorithm-layer specifications of C03 and C10.

   It is the same contract as spec/lib/FloatDef!RoundedWhy (clause for clause, same clause names),
   written over integers that share a common scale: the exact result is X * B^-K, the returned
   value is R * B^-K (K is irrelevant to the contract, which is invariant under scaling by powers of
   the base).  MC_RoundNative.tla checks, exhaustively in a scope, that the two definitions agree,
   so that the algorithm-layer models are checked against the very relation the trace monitors use.

   Everything here must stay below 2^31 (TLC aborts on overflow; it never wraps). *)
EXTENDS Integers

NAbs(x) == IF x < 0 THEN -x ELSE x
NSgn(x) == IF x < 0 THEN -1 ELSE IF x > 0 THEN 1 ELSE 0
NCmp(a, b) == IF a < b THEN -1 ELSE IF a > b THEN 1 ELSE 0
NMax(a, b) == IF a > b THEN a ELSE b
NMin(a, b) == IF a < b THEN a ELSE b
NPow(b, e) == b ^ e

\* number of base-b digits of |x| (0 for 0)
RECURSIVE DigitsN(_, _)
DigitsN(x, b) == IF x = 0 THEN 0 ELSE 1 + DigitsN(NAbs(x) \div b, b)
\* number of trailing zero digits of x # 0
RECURSIVE TrailN(_, _)
TrailN(x, b) == IF x # 0 /\ NAbs(x) % b = 0 THEN 1 + TrailN(NAbs(x) \div b, b) ELSE 0
\* significant digits: the digits of the normalised significand
SigDigitsN(x, b) == DigitsN(x, b) - TrailN(x, b)
\* normalised significand / exponent shift
RECURSIVE NormSigN(_, _)
NormSigN(s, b) == IF s # 0 /\ NAbs(s) % b = 0 THEN NormSigN(s \div b, b) ELSE s
\* truncated division toward zero and its remainder (sign of the dividend), as IBig div_rem
TDivN(a, b) == NSgn(a) * NSgn(b) * (NAbs(a) \div NAbs(b))
TRemN(a, b) == a - b * TDivN(a, b)

NHalfMode(mode) == mode \in {"HalfEven", "HalfAway"}
AllModes == {"Zero", "Away", "Up", "Down", "HalfEven", "HalfAway"}
AllFlags == {"Exact", "NoOp", "AddOne", "SubOne"}

(* The rounding contract (see FloatDef!RoundedWhy).  X, R: exact and returned value on a common
   scale; p >= 1.  Returns "" or the name of the violated clause. *)
RoundedNatWhy(b, p, mode, X, R, flag) ==
  LET s == IF X = 0 THEN 0 ELSE NMax(0, p - DigitsN(X, b))    \* make one ulp an integer
      XX == X * NPow(b, s)
      RR == R * NPow(b, s)
      u == NPow(b, DigitsN(XX, b) - p)      \* ulp_p(x): x has DigitsN(XX) >= p digits on this scale
      c == NCmp(RR, XX)
      err == NAbs(RR - XX)
  IN IF (flag = "Exact") # (c = 0) THEN "exact-flag-untruthful"
     ELSE IF X = 0 THEN (IF c = 0 THEN "" ELSE "nonzero-for-zero")
     ELSE IF SigDigitsN(R, b) > p + 1 THEN "more-than-p+1-digits"
     ELSE IF XX % u = 0 /\ c # 0 THEN "representable-but-inexact"
     ELSE IF c = 0 THEN ""
     ELSE IF ~(err < u) THEN "error-ge-1ulp"
     ELSE IF NHalfMode(mode) /\ u < 2 * err THEN "error-gt-half-ulp"
     ELSE IF mode = "Zero" /\ NAbs(XX) < NAbs(RR) THEN "wrong-side-zero"
     ELSE IF mode = "Away" /\ NAbs(RR) < NAbs(XX) THEN "wrong-side-away"
     ELSE IF mode = "Up" /\ c < 0 THEN "wrong-side-up"
     ELSE IF mode = "Down" /\ c > 0 THEN "wrong-side-down"
     ELSE IF flag = "AddOne" /\ c < 0 THEN "addone-but-below"
     ELSE IF flag = "SubOne" /\ c > 0 THEN "subone-but-above"
     ELSE IF NHalfMode(mode) /\ u = 2 * err /\ SigDigitsN(R, b) <= p
          THEN IF mode = "HalfAway" THEN (IF NAbs(RR) < NAbs(XX) THEN "tie-not-away" ELSE "")
               ELSE IF RR % u = 0 /\ (NAbs(RR) \div u) % 2 = 1 THEN "tie-not-even" ELSE ""
     ELSE ""
RoundedNat(b, p, mode, X, R, flag) == RoundedNatWhy(b, p, mode, X, R, flag) = ""
\* the same contract for a call form that returns no flag
FlagFor(X, R) == IF X = R THEN "Exact" ELSE "NoOp"

(* Rounding of the rational n / d (d > 0) to an integer: the brute-force "which neighbour"
   definition of the six modes.  This is what the two public primitives and to_int must agree with. *)
NearestIntN(mode, n, d) ==
  LET lo == n \div d            \* floor (TLC's \div floors for a positive divisor)
      rem == n % d              \* 0 <= rem < d
      hi == lo + 1
  IN IF rem = 0 THEN lo
     ELSE CASE mode = "Zero" -> IF n > 0 THEN lo ELSE hi
            [] mode = "Away" -> IF n > 0 THEN hi ELSE lo
            [] mode = "Up" -> hi
            [] mode = "Down" -> lo
            [] mode = "HalfAway" -> IF 2 * rem < d THEN lo ELSE IF 2 * rem > d THEN hi
                                    ELSE IF n > 0 THEN hi ELSE lo
            [] mode = "HalfEven" -> IF 2 * rem < d THEN lo ELSE IF 2 * rem > d THEN hi
                                    ELSE IF lo % 2 = 0 THEN lo ELSE hi
\* the adjustment a primitive must report for integer part i and fraction n / d, |n / d| < 1, d > 0
AdjustFlag(k) == IF k = 0 THEN "NoOp" ELSE IF k = 1 THEN "AddOne" ELSE IF k = -1 THEN "SubOne" ELSE "out-of-range"
ExpectedAdjustN(mode, i, n, d) == AdjustFlag(NearestIntN(mode, i * d + n, d) - i)
=============================================================================
