--------------------------- MODULE MC_RoundNative ---------------------------
(* Ties the native definition used by the algorithm-layer models (RoundNative!RoundedNatWhy) to the
   definition the trace monitors use (spec/lib FloatDef!RoundedWhy): for every exact value x = X * B^-k,
   every candidate result r = R * B^-k near it, every mode, flag, precision and base of the scope the two
   return the same verdict (the same clause name).  A disagreement is a tool error, not a verdict. *)
EXTENDS FloatDef, TLC
N == INSTANCE RoundNative
CONSTANTS Bases, MaxP, XMax, RSpan, MaxK
VARIABLES bb, pp, kk, xx
vars == <<bb, pp, kk, xx>>
Init == bb \in Bases /\ pp \in 1..MaxP /\ kk \in 0..MaxK /\ xx = XMax + 1
Pick == xx = XMax + 1 /\ xx' \in -XMax..XMax /\ UNCHANGED <<bb, pp, kk>>
Next == Pick
Spec == Init /\ [][Next]_vars
Agree ==
  xx <= XMax =>
    \A rr \in (xx - RSpan)..(xx + RSpan), mode \in N!AllModes, flag \in N!AllFlags :
       LET nat == N!RoundedNatWhy(bb, pp, mode, xx, rr, flag)
           big == RoundedWhy(bb, pp, mode, Q(IFromNative(xx), Pow(FromNat(bb), kk)), F(IFromNative(rr), -kk), flag)
       IN IF nat = big THEN TRUE
          ELSE PrintT(<<"DISAGREE", bb, pp, kk, xx, rr, mode, flag, nat, big>>) /\ FALSE
=============================================================================
