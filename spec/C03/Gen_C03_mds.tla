---------------------------- MODULE Gen_C03_mds ----------------------------
(* Behaviour generator for C03 mul / sqr / cubic / div / inv / sqrt: the FloatMulDivSqrt model is run
   over its scope (invariant Correct checked in the same pass) and the sampled `done` states print one
   case each, with the predicted result, flag and branch path. *)
EXTENDS FloatMulDivSqrt, Json, TLC
CONSTANTS Stride, Seed

ModeNo == CASE mode = "Zero" -> 0 [] mode = "Away" -> 1 [] mode = "Up" -> 2 [] mode = "Down" -> 3
            [] mode = "HalfEven" -> 4 [] mode = "HalfAway" -> 5
Salt == NAbs(as) * 31 + NAbs(bs) * 17 + (IF as < 0 THEN 3 ELSE 0) + (IF bs < 0 THEN 5 ELSE 0)
        + (ae + 3) * 7 + p * 11 + b * 23 + ModeNo * 29 + Seed
\* a tie of the quotient (remainder exactly half the divisor) or of the product (low digits exactly half)
Class ==
  IF ~inexact THEN "exact"
  ELSE IF op \in {"div", "inv"} /\ 2 * NAbs(r) = NAbs(Den) THEN "tie"
  ELSE IF op \in {"mul", "sqr", "cubic"} /\ 2 * NAbs(ProdS * NPow(b, ProdE + KP) - (sig - adj) * NPow(b, exp + KP))
                                              = NPow(b, exp + KP) THEN "tie"
  ELSE "plain"
Sampled == Salt % Stride = 0 \/ Class = "tie" \/ (op = "sqrt" /\ Salt % 3 = 0)
Case ==
  [op |-> op, base |-> b, mode |-> mode, prec |-> p,
   a |-> [sig |-> as, exp |-> ae], b |-> [sig |-> bs, exp |-> be],
   pred |-> [sig |-> NormSigN(sig, b), exp |-> IF sig = 0 THEN 0 ELSE exp + TrailN(sig, b), flag |-> Flag],
   branch |-> branch, class |-> Class, known |-> KnownF24]
Emit == (pc = "done" /\ Sampled) => PrintT(<<"GEN", ToJson(Case)>>)
=============================================================================
