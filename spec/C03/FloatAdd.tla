------------------------------ MODULE FloatAdd ------------------------------
(* Algorithm layer of C03 for addition and subtraction: float/src/add.rs transcribed.

     Context::add / Context::sub            -> AlignEqual | repr_add_large_small | repr_add_small_large
     repr_add_large_small / _small_large    -> the four alignment branches (far / full / both / shift)
     repr_round_sum                         -> RoundSumShrink | RoundSumExpand | RoundSumKeep
     Round::round_fract (RoundTables)       -> RoundFinal
     Context::repr_round (equal exponents)  -> RoundRepr

   One action per branch of the Rust code; native integers, small scope.  The invariant `Correct`
   is the C03 contract (RoundNative!RoundedNatWhy, the native twin of FloatDef!RoundedWhy).

   FarExtra is the constant added to the low-part precision in the far-apart shortcut:
   1 = the pinned tree (finding F02), 2 = the repaired code. *)
EXTENDS RoundTables, Sequences
CONSTANTS Scope,      \* set of 100 * base + max precision, e.g. {204, 303, 1001}
          Modes,
          GapExtra,   \* exponent gaps 0 .. p + GapExtra
          FarExtra

VARIABLES pc, b, p, mode,
          ls, le, rs, re, rsgn, dub,    \* lhs, rhs, rhs_sign (+1 add, -1 sub), slack of digits_ub()
          sig, exp, lowv, lowp, isSub, branch, adj, inexact
vars == <<pc, b, p, mode, ls, le, rs, re, rsgn, dub, sig, exp, lowv, lowp, isSub, branch, adj, inexact>>
inputs == <<b, p, mode, ls, le, rs, re, rsgn, dub>>

\* operands that fit the context precision: normalised significands of at most pp digits
Sigs(bb, pp) == {s \in -(NPow(bb, pp) - 1) .. (NPow(bb, pp) - 1) : s # 0 /\ s % bb # 0}
SplitHi(v, n) == TDivN(v, NPow(b, n))      \* utils::split_digits: both parts carry the sign of v
SplitLo(v, n) == TRemN(v, NPow(b, n))

Init ==
  /\ pc = "pick"
  /\ \E sc \in Scope : b = sc \div 100 /\ p \in 1..(sc % 100)
  /\ mode \in Modes
  /\ ls = 0 /\ le = 0 /\ rs = 0 /\ re = 0 /\ rsgn = 1 /\ dub = 0
  /\ sig = 0 /\ exp = 0 /\ lowv = 0 /\ lowp = 0 /\ isSub = FALSE /\ branch = <<>> /\ adj = 0 /\ inexact = FALSE

Pick ==
  /\ pc = "pick"
  /\ ls' \in Sigs(b, p) /\ rs' \in Sigs(b, p)
  /\ rsgn' \in {1, -1}
  /\ \E gap \in 0..(p + GapExtra) :
        \/ gap = 0 /\ le' = 0 /\ re' = 0 /\ dub' = 0
        \/ gap > 0 /\ le' = gap /\ re' = 0 /\ dub' \in {0, 1}
        \/ gap > 0 /\ le' = 0 /\ re' = gap /\ dub' \in {0, 1}
  /\ pc' = "align"
  /\ UNCHANGED <<b, p, mode, sig, exp, lowv, lowp, isSub, branch, adj, inexact>>

(* ---------------- Context::add / sub dispatch + the two alignment functions ---------------- *)
IsSubOp == NSgn(ls) # rsgn * NSgn(rs)
RndP == p + (IF IsSubOp THEN 1 ELSE 0)

\* repr_add_large_small(lhs, rhs, rhs_sign), lhs.exponent > rhs.exponent
LargeSmall ==
  LET ediff == le - re
      ldigits == DigitsN(ls, b)
      rde == DigitsN(rs, b) + dub                 \* rhs.digits_ub(): over-estimate
  IN IF rde + 1 < ediff /\ rde + 1 + RndP < ldigits + ediff
     THEN [br |-> "far", sig |-> ls, exp |-> le, lowv |-> rsgn * NSgn(rs),
           lowp |-> IF ldigits >= RndP THEN 2 ELSE (RndP - ldigits) + FarExtra]
     ELSE IF ldigits >= p
     THEN [br |-> "full", sig |-> ls + rsgn * SplitHi(rs, ediff), exp |-> le,
           lowv |-> rsgn * SplitLo(rs, ediff), lowp |-> ediff]
     ELSE IF ediff + ldigits > p
     THEN LET lshift == p - ldigits  rshift == ediff - lshift IN
          [br |-> "both", sig |-> ls * NPow(b, lshift) + rsgn * SplitHi(rs, rshift), exp |-> le - lshift,
           lowv |-> rsgn * SplitLo(rs, rshift), lowp |-> rshift]
     ELSE [br |-> "shift", sig |-> IF rsgn = 1 THEN ls * NPow(b, ediff) + rs ELSE ls * NPow(b, ediff) - rs,
           exp |-> re, lowv |-> 0, lowp |-> 0]

\* repr_add_small_large(lhs, rhs, rhs_sign), lhs.exponent < rhs.exponent
SmallLarge ==
  LET ediff == re - le
      rdigits == DigitsN(rs, b)
      lde == DigitsN(ls, b) + dub                 \* lhs.digits_ub()
  IN IF lde + 1 < ediff /\ lde + 1 + RndP < rdigits + ediff
     THEN [br |-> "far", sig |-> rsgn * rs, exp |-> re, lowv |-> NSgn(ls),
           lowp |-> IF rdigits >= RndP THEN 2 ELSE (RndP - rdigits) + FarExtra]
     ELSE IF rdigits >= p
     THEN [br |-> "full", sig |-> IF rsgn = 1 THEN SplitHi(ls, ediff) + rs ELSE SplitHi(ls, ediff) - rs, exp |-> re,
           lowv |-> SplitLo(ls, ediff), lowp |-> ediff]
     ELSE IF ediff + rdigits > p
     THEN LET lshift == p - rdigits  rshift == ediff - lshift IN
          [br |-> "both", sig |-> rsgn * (rs * NPow(b, lshift)) + SplitHi(ls, rshift), exp |-> re - lshift,
           lowv |-> SplitLo(ls, rshift), lowp |-> rshift]
     ELSE [br |-> "shift", sig |-> rsgn * (rs * NPow(b, ediff)) + ls, exp |-> le, lowv |-> 0, lowp |-> 0]

Aligned == IF le > re THEN LargeSmall ELSE SmallLarge
AlignTo(name) ==
  /\ pc = "align" /\ le # re /\ Aligned.br = name
  /\ sig' = Aligned.sig /\ exp' = Aligned.exp /\ lowv' = Aligned.lowv /\ lowp' = Aligned.lowp
  /\ isSub' = IsSubOp
  /\ branch' = <<(IF le > re THEN "ls-" ELSE "sl-") \o name>>
  /\ pc' = "roundsum"
  /\ UNCHANGED <<inputs, adj, inexact>>
AlignFar == AlignTo("far")
AlignFull == AlignTo("full")
AlignBoth == AlignTo("both")
AlignShift == AlignTo("shift")

\* equal exponents: repr_round(Repr::new(lhs.significand +- rhs.significand, exponent)); Repr::new normalises
AlignEqual ==
  /\ pc = "align" /\ le = re
  /\ LET s == ls + rsgn * rs IN
       /\ sig' = NormSigN(s, b) /\ exp' = le + TrailN(s, b)
  /\ lowv' = 0 /\ lowp' = 0 /\ isSub' = IsSubOp
  /\ branch' = <<"equal">>
  /\ pc' = "reprround"
  /\ UNCHANGED <<inputs, adj, inexact>>

(* ---------------- Context::repr_round ---------------- *)
RoundRepr ==
  /\ pc = "reprround"
  /\ LET d == DigitsN(sig, b) IN
     IF d > p
     THEN LET shift == d - p
              hi == SplitHi(sig, shift)  lo == SplitLo(sig, shift)
              a == RoundFract(mode, b, hi, lo, shift)
          IN /\ sig' = hi + a /\ exp' = exp + shift /\ adj' = a /\ inexact' = TRUE
             /\ branch' = Append(branch, "round")
     ELSE /\ UNCHANGED <<sig, exp, adj, inexact>> /\ branch' = Append(branch, "exact")
  /\ pc' = "done"
  /\ UNCHANGED <<inputs, lowv, lowp, isSub>>

(* ---------------- Context::repr_round_sum ---------------- *)
RndPS == p + (IF isSub THEN 1 ELSE 0)
RoundSumShrink ==
  /\ pc = "roundsum"
  /\ DigitsN(sig, b) > RndPS
  /\ LET shift == DigitsN(sig, b) - RndPS IN
       /\ sig' = SplitHi(sig, shift) /\ exp' = exp + shift
       /\ lowv' = lowv + SplitLo(sig, shift) * NPow(b, lowp) /\ lowp' = lowp + shift
  /\ branch' = Append(branch, "shrink")
  /\ pc' = "round"
  /\ UNCHANGED <<inputs, isSub, adj, inexact>>
RoundSumExpand ==
  /\ pc = "roundsum"
  /\ DigitsN(sig, b) < RndPS /\ lowv # 0
  /\ LET shift == NMin(lowp, RndPS - DigitsN(sig, b)) IN
       /\ sig' = sig * NPow(b, shift) + SplitHi(lowv, lowp - shift) /\ exp' = exp - shift
       /\ lowv' = SplitLo(lowv, lowp - shift) /\ lowp' = lowp - shift
  /\ branch' = Append(branch, "expand")
  /\ pc' = "round"
  /\ UNCHANGED <<inputs, isSub, adj, inexact>>
RoundSumKeep ==
  /\ pc = "roundsum"
  /\ DigitsN(sig, b) = RndPS \/ (DigitsN(sig, b) < RndPS /\ lowv = 0)
  /\ branch' = Append(branch, "keep")
  /\ pc' = "round"
  /\ UNCHANGED <<inputs, sig, exp, lowv, lowp, isSub, adj, inexact>>

RoundFinal ==
  /\ pc = "round"
  /\ IF lowv = 0
     THEN adj' = 0 /\ inexact' = FALSE /\ UNCHANGED sig
     ELSE LET a == RoundFract(mode, b, sig, lowv, lowp) IN adj' = a /\ inexact' = TRUE /\ sig' = sig + a
  /\ pc' = "done"
  /\ UNCHANGED <<inputs, exp, lowv, lowp, isSub, branch>>

Next == Pick \/ AlignFar \/ AlignFull \/ AlignBoth \/ AlignShift \/ AlignEqual
        \/ RoundRepr \/ RoundSumShrink \/ RoundSumExpand \/ RoundSumKeep \/ RoundFinal
Spec == Init /\ [][Next]_vars

(* ---------------- definition layer: the C03 contract at `done` ---------------- *)
K == IF exp < 0 THEN -exp ELSE 0                         \* per-state scale: everything in units of B^-K
X == (ls * NPow(b, le) + rsgn * rs * NPow(b, re)) * NPow(b, K)
R == sig * NPow(b, exp + K)
Flag == IF inexact THEN FlagOf(adj) ELSE "Exact"
Why == RoundedNatWhy(b, p, mode, X, R, Flag)
\* Finding F02 (open while FarExtra = 1): base 2, ties-away, far-apart shortcut taken with a large operand
\* shorter than the precision and operands of equal sign: the sticky digit lands on 1/B = 1/2, a false tie.
LargeDigits == IF le > re THEN DigitsN(ls, b) ELSE DigitsN(rs, b)
KnownF02 == FarExtra = 1 /\ b = 2 /\ mode = "HalfAway" /\ ~isSub /\ le # re
            /\ branch[1] \in {"ls-far", "sl-far"} /\ LargeDigits < p
Correct == pc = "done" => (Why = "" \/ KnownF02)
\* the finding is real in the model of the pinned code (used by the check to confirm F02 by model checking alone)
F02Absent == ~(pc = "done" /\ KnownF02 /\ Why # "")
=============================================================================
