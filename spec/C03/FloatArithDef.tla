---------------------------- MODULE FloatArithDef ----------------------------
(* Definition layer of C03: what Context::{add, sub, mul, div, sqrt, sqr, cubic, inv} and the FBig
   operators built on them must return.  The only formulas that can raise a C03 violation.

   The statement (properties.jsonl, C03): for finite operands that fit the context precision p the
   value r returned for the exact real result x satisfies FloatDef!Rounded(B, p, mode, x, r, flag):
   flagged Exact exactly when r = x; otherwise |r - x| < 1 ulp_p(x) (<= 1/2 ulp for the two
   nearest modes), r on the side of x the mode prescribes, AddOne => r > x, SubOne => r < x;
   x representable in p digits => r = x; at most p + 1 significant digits.

   The contract is invariant under scaling x and r by a power of the base, which is used to keep the
   numbers small: operands are shifted so that the exact result of + - * sqr cubic is an integer. *)
EXTENDS FloatDef

Shift(f, k) == [sig |-> f.sig, exp |-> f.exp - k, inf |-> f.inf]
Min2i(a, b) == IF a < b THEN a ELSE b
IntQ(i) == Q(i, One)
PowB(B, k) == Pow(FromNat(B), k)

\* <<exact result x, exponent shift applied to operands and result>> for the rational operations
ExactAndShift(B, op, a, b) ==
  CASE op \in {"add", "sub"} ->
         LET m == IF IIsZero(a.sig) THEN b.exp ELSE IF IIsZero(b.sig) THEN a.exp ELSE Min2i(a.exp, b.exp)
             ia == IMul(a.sig, IFromNat(PowB(B, IF IIsZero(a.sig) THEN 0 ELSE a.exp - m)))
             ib == IMul(b.sig, IFromNat(PowB(B, IF IIsZero(b.sig) THEN 0 ELSE b.exp - m)))
         IN <<IntQ(IF op = "add" THEN IAdd(ia, ib) ELSE ISub(ia, ib)), m>>
    [] op = "mul" -> <<IntQ(IMul(a.sig, b.sig)), a.exp + b.exp>>
    [] op = "sqr" -> <<IntQ(IMul(a.sig, a.sig)), 2 * a.exp>>
    [] op = "cubic" -> <<IntQ(IMul(a.sig, IMul(a.sig, a.sig))), 3 * a.exp>>
    [] op = "div" -> <<QFromSigned(a.sig, b.sig), a.exp - b.exp>>
    [] op = "inv" -> <<QFromSigned(IOne, a.sig), -a.exp>>

\* the contract for a value without a flag (operator forms): the flag that the value itself implies
ImpliedFlag(B, x, r) == IF QCmp(FVal(B, r), x) = 0 THEN "Exact" ELSE "NoOp"

(* Square root.  x = sqrt(a) is decided through squares; when x is rational and lies on the grid of
   half ulps next to r (the only places where the representable-value clause and the tie clause
   can apply) it is computed exactly and handed to FloatDef!RoundedWhy. *)
SqrtWhy(B, p, mode, a, r, flag) ==
  IF IIsZero(a.sig) THEN RoundedWhy(B, p, mode, QZero, r, flag)
  ELSE IF ~IsInt(r.sig) THEN "malformed-significand"
  ELSE IF r.sig.s = 1 THEN "negative-root"
  ELSE
  LET sh == (a.exp - (a.exp % 2)) \div 2            \* floor(a.exp / 2)
      a0 == F(a.sig, a.exp % 2)                     \* a = a0 * B^(2 sh), a0 a positive integer
      r0 == Shift(r, sh)
      av == FVal(B, a0)
      rv == FVal(B, r0)
      e == FloorLog(B, av) \div 2                   \* floor(log_B sqrt(a0)), FloorLog(av) >= 0
      u == QPowBase(B, e - p + 1)
      hu == Q(u.n, MulSmall(u.d, 2))                \* u / 2
      c == QCmp(QMul(rv, rv), av)
      t0 == QFloor(QDiv(rv, hu))                    \* rv = (t0 + fraction) * u/2
      Cand(j) == QMulInt(hu, IAdd(t0, IFromNative(j)))
      hits == {j \in -2..3 : QSign(Cand(j)) >= 0 /\ QEq(QMul(Cand(j), Cand(j)), av)}
      Sq(z) == QMul(z, z)
      lo1 == QSub(rv, u)   hi1 == QAdd(rv, u)
      lo2 == QSub(rv, hu)  hi2 == QAdd(rv, hu)
  IN IF hits # {} THEN RoundedWhy(B, p, mode, Cand(CHOOSE j \in hits : TRUE), r0, flag)
     ELSE IF (flag = "Exact") # (c = 0) THEN "exact-flag-untruthful"
     ELSE IF SigDigits(B, r.sig.m) > p + 1 THEN "more-than-p+1-digits"
     ELSE IF c = 0 THEN ""
     ELSE IF ~((QSign(lo1) <= 0 \/ QLt(Sq(lo1), av)) /\ QLt(av, Sq(hi1))) THEN "error-ge-1ulp"
     ELSE IF IsHalfMode(mode) /\ ~((QSign(lo2) <= 0 \/ QLe(Sq(lo2), av)) /\ QLe(av, Sq(hi2))) THEN "error-gt-half-ulp"
     ELSE IF mode = "Zero" /\ c > 0 THEN "wrong-side-zero"
     ELSE IF mode = "Down" /\ c > 0 THEN "wrong-side-down"
     ELSE IF mode = "Away" /\ c < 0 THEN "wrong-side-away"
     ELSE IF mode = "Up" /\ c < 0 THEN "wrong-side-up"
     ELSE IF flag = "AddOne" /\ c < 0 THEN "addone-but-below"
     ELSE IF flag = "SubOne" /\ c > 0 THEN "subone-but-above"
     ELSE ""

\* one returned value (with or without a flag) against the contract; flag = "" means "no flag returned"
ValueWhy(B, p, mode, op, a, b, r, flag) ==
  IF r.inf # 0 THEN "infinite-result"
  ELSE IF op = "sqrt"
  THEN LET f == IF flag # "" THEN flag
                ELSE IF QCmp(QMul(FVal(B, r), FVal(B, r)), FVal(B, a)) = 0 THEN "Exact" ELSE "NoOp"
       IN SqrtWhy(B, p, mode, a, r, f)
  ELSE LET xs == ExactAndShift(B, op, a, b)
           r0 == Shift(r, xs[2])
       IN RoundedWhy(B, p, mode, xs[1], r0, IF flag # "" THEN flag ELSE ImpliedFlag(B, xs[1], r0))

\* the operands must be what the property quantifies over: finite, fitting the precision
OperandFits(B, p, f) == f.inf = 0 /\ IsInt(f.sig) /\ SigDigits(B, f.sig.m) <= p
=============================================================================
