----------------------------- MODULE Trace_C03 -----------------------------
(* Trace monitor for C03: every recorded call of Context::{add, sub, mul, div, sqrt, sqr, cubic, inv}
   and of the FBig operator / method forms built on them must return a value (and flag, where the
   form returns one) that satisfies the rounding contract of FloatArithDef for the exact result.

   Event: [op, base, mode, prec, a, b (binary ops), outs], a/b = [sig |-> [s, m], exp, inf],
   outs = sequence of groups [forms, out |-> [k |-> "ok", v |-> float] | [k |-> "panic"], flags]:
   call forms that returned the same value, with the set of flags the flag-returning forms reported.
   The monitor never blocks: a failing event is recorded in `bad` and validation continues. *)
EXTENDS FloatArithDef, Json, IOUtils
Rec == ndJsonDeserialize(IOEnv.TRACE)

Unary == {"sqr", "cubic", "inv", "sqrt"}
GroupWhy(e, g) ==
  LET bv == IF e.op \in Unary THEN e.a ELSE e.b IN
  IF g.out.k # "ok" THEN "unexpected-panic"
  ELSE IF Len(g.flags) = 0 THEN ValueWhy(e.base, e.prec, e.mode, e.op, e.a, bv, g.out.v, "")
  ELSE LET ws == [i \in 1..Len(g.flags) |-> ValueWhy(e.base, e.prec, e.mode, e.op, e.a, bv, g.out.v, g.flags[i])]
           nz == {i \in 1..Len(ws) : ws[i] # ""}
       IN IF nz = {} THEN "" ELSE ws[CHOOSE i \in nz : \A j \in nz : i <= j]

Why(e) ==
  LET bv == IF e.op \in Unary THEN e.a ELSE e.b IN
  IF ~(OperandFits(e.base, e.prec, e.a) /\ OperandFits(e.base, e.prec, bv)) THEN "operand-outside-precondition"
  ELSE IF e.op \in {"div", "inv"} /\ IIsZero(bv.sig) THEN "operand-outside-precondition"
  ELSE IF e.op = "sqrt" /\ e.a.sig.s = 1 THEN "operand-outside-precondition"
  ELSE LET ws == [i \in 1..Len(e.outs) |-> GroupWhy(e, e.outs[i])]
           nz == {i \in 1..Len(ws) : ws[i] # ""}
       IN IF nz = {} THEN "" ELSE ws[CHOOSE i \in nz : \A j \in nz : i <= j]

VARIABLES l, bad
Init == l = 1 /\ bad = <<>>
Next == /\ l <= Len(Rec)
        /\ LET w == Why(Rec[l]) IN bad' = IF w = "" THEN bad ELSE Append(bad, [i |-> l, why |-> w])
        /\ l' = l + 1
Spec == Init /\ [][Next]_<<l, bad>>
Verdict == l > Len(Rec) => PrintT(<<"VERDICT", ToJson([total |-> Len(Rec), bad |-> bad])>>)
Complete == IF TLCGet("stats").diameter - 1 = Len(Rec) THEN TRUE
            ELSE PrintT(<<"TRUNCATED", TLCGet("stats").diameter>>) /\ FALSE
=============================================================================
