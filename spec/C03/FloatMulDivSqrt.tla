--------------------------- MODULE FloatMulDivSqrt ---------------------------
(* Algorithm layer of C03 for mul / sqr / cubic (exact product + Context::repr_round),
   div / inv (Context::repr_div + Round::round_ratio) and sqrt (float/src/root.rs), transcribed
   branch by branch over native integers in a small scope.

   SqrtFix = FALSE is the pinned tree (finding F24: an even digit count with an odd exponent scales the
   radicand to 2p+1 digits, the root gets p+1 digits and is rounded twice); SqrtFix = TRUE is the
   repaired scaling  shift = 2p - ((digits + exponent) & 1) - digits. *)
EXTENDS RoundTables, Sequences
CONSTANTS Scope,      \* set of 100 * base + max precision
          Modes, Ops, SqrtFix

VARIABLES pc, b, p, mode, op, as, ae, bs, be,
          sig, exp, q, r, low, lowd, adj, inexact, branch
vars == <<pc, b, p, mode, op, as, ae, bs, be, sig, exp, q, r, low, lowd, adj, inexact, branch>>
inputs == <<b, p, mode, op, as, ae, bs, be>>

Sigs(bb, pp) == {s \in -(NPow(bb, pp) - 1) .. (NPow(bb, pp) - 1) : s # 0 /\ s % bb # 0}
SplitHi(v, n) == TDivN(v, NPow(b, n))
SplitLo(v, n) == TRemN(v, NPow(b, n))
Binary == {"mul", "div"}

Init ==
  /\ pc = "pick"
  /\ \E sc \in Scope : b = sc \div 100 /\ p \in 1..(sc % 100)
  /\ mode \in Modes /\ op \in Ops
  /\ as = 0 /\ ae = 0 /\ bs = 0 /\ be = 0
  /\ sig = 0 /\ exp = 0 /\ q = 0 /\ r = 0 /\ low = 0 /\ lowd = 0 /\ adj = 0 /\ inexact = FALSE /\ branch = <<>>

Pick ==
  /\ pc = "pick"
  /\ as' \in (IF op = "sqrt" THEN {s \in Sigs(b, p) : s > 0} ELSE Sigs(b, p))
  /\ bs' \in (IF op \in Binary THEN Sigs(b, p) ELSE {1})
  /\ ae' \in (IF op = "sqrt" THEN -3..2 ELSE {0, 1})
  /\ be' = 0
  /\ pc' = op
  /\ UNCHANGED <<b, p, mode, op, sig, exp, q, r, low, lowd, adj, inexact, branch>>

(* ---------------- mul.rs: exact product, normalised by Repr::new, then repr_round ---------------- *)
Product ==
  /\ pc \in {"mul", "sqr", "cubic"}
  /\ LET s == IF pc = "mul" THEN as * bs ELSE IF pc = "sqr" THEN as * as ELSE as * as * as
         e == IF pc = "mul" THEN ae + be ELSE IF pc = "sqr" THEN 2 * ae ELSE 3 * ae
     IN sig' = NormSigN(s, b) /\ exp' = e + TrailN(s, b)
  /\ branch' = <<pc>>
  /\ pc' = "reprround"
  /\ UNCHANGED <<inputs, q, r, low, lowd, adj, inexact>>

(* ---------------- Context::repr_round (second argument of and_then for sqrt) ---------------- *)
RoundRepr ==
  /\ pc = "reprround"
  /\ LET d == DigitsN(sig, b) IN
     IF d > p
     THEN LET shift == d - p
              hi == SplitHi(sig, shift)  lo == SplitLo(sig, shift)
              a == RoundFract(mode, b, hi, lo, shift)
          IN /\ sig' = hi + a /\ exp' = exp + shift /\ adj' = a /\ inexact' = TRUE
             /\ branch' = Append(branch, "round")
     ELSE /\ UNCHANGED <<sig, exp, adj, inexact>> /\ branch' = Append(branch, "fits")
  /\ pc' = "done"
  /\ UNCHANGED <<inputs, q, r, low, lowd>>

(* ---------------- div.rs Context::repr_div (inv = repr_div(one, f)) ---------------- *)
Num == IF op = "inv" THEN 1 ELSE as          \* dividend significand / exponent
NumE == IF op = "inv" THEN 0 ELSE ae
Den == IF op = "inv" THEN as ELSE bs
DenE == IF op = "inv" THEN ae ELSE be
DDigits == DigitsN(Den, b)
Q0 == TDivN(Num, Den)
R0 == TRemN(Num, Den)
DivStep(name, nq, nr, ne) ==
  /\ q' = nq /\ r' = nr /\ exp' = ne
  /\ branch' = <<name>>
  /\ pc' = "divround"
  /\ UNCHANGED <<inputs, sig, low, lowd, adj, inexact>>
\* first remainder is zero: Exact(Repr::new(q, e))
DivExactFirst ==
  /\ pc \in {"div", "inv"} /\ R0 = 0
  /\ DivStep("div-exact-first", Q0, 0, NumE - DenE)
\* q.is_zero(): scale the remainder to ddigits + p digits and divide again
DivZeroQuot ==
  /\ pc \in {"div", "inv"} /\ R0 # 0 /\ Q0 = 0
  /\ LET shift == DDigits + p - DigitsN(R0, b)
         rr == R0 * NPow(b, shift)
     IN DivStep("div-zero-quot", TDivN(rr, Den), TRemN(rr, Den), NumE - DenE - shift)
\* short quotient: bring it to p digits
DivShortQuot ==
  /\ pc \in {"div", "inv"} /\ R0 # 0 /\ Q0 # 0
  /\ DigitsN(Q0, b) + DDigits < DDigits + p
  /\ LET shift == DDigits + p - (DigitsN(Q0, b) + DDigits)
         rr == R0 * NPow(b, shift)
     IN DivStep("div-short-quot", Q0 * NPow(b, shift) + TDivN(rr, Den), TRemN(rr, Den), NumE - DenE - shift)
DivLongQuot ==
  /\ pc \in {"div", "inv"} /\ R0 # 0 /\ Q0 # 0
  /\ ~(DigitsN(Q0, b) + DDigits < DDigits + p)
  /\ DivStep("div-long-quot", Q0, R0, NumE - DenE)
DivRound ==
  /\ pc = "divround"
  /\ IF r = 0
     THEN /\ sig' = NormSigN(q, b) /\ exp' = exp + TrailN(q, b) /\ adj' = 0 /\ inexact' = FALSE
          /\ branch' = Append(branch, "exact")
     ELSE LET a == RoundRatio(mode, q, r, Den) IN
          /\ sig' = NormSigN(q + a, b) /\ exp' = exp + TrailN(q + a, b) /\ adj' = a /\ inexact' = TRUE
          /\ branch' = Append(branch, "ratio")
  /\ pc' = "done"
  /\ UNCHANGED <<inputs, q, r, low, lowd>>

(* ---------------- root.rs Context::sqrt ---------------- *)
ISqrt(n) == CHOOSE s \in 0..NPow(b, (DigitsN(n, b) + 1) \div 2) : s * s <= n /\ n < (s + 1) * (s + 1)
SqrtShift ==
  LET digits == DigitsN(as, b) IN
  IF SqrtFix THEN 2 * p - ((digits + ae) % 2) - digits
  ELSE 2 * p - (digits % 2) + (ae % 2) - digits            \* (digits & 1), (x.exponent & 1)
\* scale the significand so that the exponent becomes even
SqrtScale ==
  /\ pc = "sqrt"
  /\ IF SqrtShift > 0
     THEN sig' = as * NPow(b, SqrtShift) /\ low' = 0 /\ lowd' = 0
     ELSE sig' = SplitHi(as, -SqrtShift) /\ low' = SplitLo(as, -SqrtShift) /\ lowd' = -SqrtShift
  /\ exp' = (ae - SqrtShift) \div 2             \* exact: the difference is even (asserted by ExpEven)
  /\ branch' = <<"sqrt-" \o (IF DigitsN(as, b) + SqrtShift = 2 * p + 1 THEN "2p+1"
                             ELSE IF DigitsN(as, b) + SqrtShift = 2 * p THEN "2p" ELSE "2p-1")>>
  /\ pc' = "sqrtroot"
  /\ UNCHANGED <<inputs, q, r, adj, inexact>>
\* integer root with remainder, first rounding by round_low_part(root, Positive, rem.cmp(root).then(4 low cmp B^low_digits))
SqrtRoot ==
  /\ pc = "sqrtroot"
  /\ LET root == ISqrt(sig)
         rem == sig - root * root
     IN /\ q' = root /\ r' = rem
        /\ IF rem = 0
           THEN /\ sig' = NormSigN(root, b) /\ exp' = exp + TrailN(root, b) /\ adj' = 0 /\ inexact' = FALSE
                /\ branch' = Append(branch, "rem0")
           ELSE LET h == IF NCmp(rem, root) # 0 THEN NCmp(rem, root) ELSE NCmp(4 * low, NPow(b, lowd))
                    a == RoundLowPart(mode, root, 1, h)
                IN /\ sig' = NormSigN(root + a, b) /\ exp' = exp + TrailN(root + a, b) /\ adj' = a /\ inexact' = TRUE
                   /\ branch' = Append(branch, "rem")
  /\ pc' = "reprround"
  /\ UNCHANGED <<inputs, low, lowd>>

Next == Pick \/ Product \/ RoundRepr \/ DivExactFirst \/ DivZeroQuot \/ DivShortQuot \/ DivLongQuot \/ DivRound
        \/ SqrtScale \/ SqrtRoot
Spec == Init /\ [][Next]_vars

(* ---------------- definition layer ---------------- *)
Flag == IF inexact THEN FlagOf(adj) ELSE "Exact"
\* rational operations: exact value Xn / Xd on the scale B^-K, chosen per state
\*   mul/sqr/cubic: exact integer product times B^e
ProdS == IF op = "mul" THEN as * bs ELSE IF op = "sqr" THEN as * as ELSE as * as * as
ProdE == IF op = "mul" THEN ae + be ELSE IF op = "sqr" THEN 2 * ae ELSE 3 * ae
KP == IF exp < 0 THEN -exp ELSE 0
WhyProd == RoundedNatWhy(b, p, mode, ProdS * NPow(b, ProdE + KP), sig * NPow(b, exp + KP), Flag)
\*   div/inv: x = Num / Den * B^(NumE - DenE); compare on the scale where the result is an integer:
\*   r = sig * B^exp;  x = Num * B^(NumE - DenE - exp) / Den.  RoundedNatWhy wants integers, so multiply both by |Den|:
\*   X' = Num * B^k * sgn(Den), R' = sig * |Den|: the contract is NOT invariant under a factor |Den|, so the
\*   quotient contract is spelled out directly on fractions here (same clauses, cross-multiplied).
DivWhy ==
  LET lx0 == DigitsN(Num, b) - DigitsN(Den, b) - 1   \* floor(log_B |Num / Den|) is lx0 or lx0 + 1
      S == NMin(exp, lx0 + NumE - DenE - p + 1)      \* scale B^S: r / B^S is an integer, x / B^S has >= p integer digits
      k == NumE - DenE - S                           \* >= 0 because the operands fit the precision
      d == NAbs(Den)
      xn == Num * NSgn(Den) * NPow(b, k)             \* x / B^S = xn / d
      rn == sig * NPow(b, exp - S) * d               \* r / B^S = rn / d
      c == NCmp(rn, xn)
      err == NAbs(rn - xn)                           \* |r - x| / B^S = err / d
      xq == NAbs(xn) \div d
      dx == DigitsN(xq, b)                           \* floor(log_B |x / B^S|) + 1
      un == IF dx >= p THEN NPow(b, dx - p) * d ELSE 0     \* ulp_p(x) / B^S * d
  IN IF k < 0 \/ xq = 0 \/ dx < p THEN "model-scale"      \* never expected; reported, not hidden
     ELSE IF (Flag = "Exact") # (c = 0) THEN "exact-flag-untruthful"
     ELSE IF SigDigitsN(sig, b) > p + 1 THEN "more-than-p+1-digits"
     ELSE IF xn % un = 0 /\ c # 0 THEN "representable-but-inexact"
     ELSE IF c = 0 THEN ""
     ELSE IF ~(err < un) THEN "error-ge-1ulp"
     ELSE IF NHalfMode(mode) /\ un < 2 * err THEN "error-gt-half-ulp"
     ELSE IF mode = "Zero" /\ NAbs(xn) < NAbs(rn) THEN "wrong-side-zero"
     ELSE IF mode = "Away" /\ NAbs(rn) < NAbs(xn) THEN "wrong-side-away"
     ELSE IF mode = "Up" /\ c < 0 THEN "wrong-side-up"
     ELSE IF mode = "Down" /\ c > 0 THEN "wrong-side-down"
     ELSE IF Flag = "AddOne" /\ c < 0 THEN "addone-but-below"
     ELSE IF Flag = "SubOne" /\ c > 0 THEN "subone-but-above"
     ELSE IF NHalfMode(mode) /\ un = 2 * err /\ SigDigitsN(sig, b) <= p
          THEN IF mode = "HalfAway" THEN (IF NAbs(rn) < NAbs(xn) THEN "tie-not-away" ELSE "")
               ELSE IF rn % un = 0 /\ (NAbs(rn) \div un) % 2 = 1 THEN "tie-not-even" ELSE ""
     ELSE ""
\*   sqrt: x = sqrt(as * B^ae), decided through squares (see FloatArithDef!SqrtWhy, the BigInt twin)
SqrtWhyN ==
  LET L == DigitsN(as, b) - 1 + ae               \* floor(log_B a)
      e == L \div 2                              \* floor(log_B sqrt a)   (\div floors)
      m == NMin(NMin(exp, e - p), ae \div 2)     \* common scale B^m for r and u, B^2m for a
      A == as * NPow(b, ae - 2 * m)
      Rw == sig * NPow(b, exp - m)
      U == NPow(b, e - p + 1 - m)
      c == NCmp(Rw * Rw, A)
      ts == {t \in (2 * Rw - 2 * U)..(2 * Rw + 2 * U) : t >= 0 /\ t * t = 4 * A}     \* x = t/2 on the scale
  IN IF sig < 0 THEN "negative-root"
     ELSE IF ts # {}
     THEN LET t == CHOOSE t \in ts : TRUE IN
          IF t % 2 = 0 THEN RoundedNatWhy(b, p, mode, t \div 2, Rw, Flag)
          ELSE RoundedNatWhy(b, p, mode, t * (b \div 2), Rw * b, Flag)          \* t odd needs an even base
     ELSE IF (Flag = "Exact") # (c = 0) THEN "exact-flag-untruthful"
     ELSE IF SigDigitsN(sig, b) > p + 1 THEN "more-than-p+1-digits"
     ELSE IF c = 0 THEN ""
     ELSE IF ~((Rw <= U \/ (Rw - U) * (Rw - U) < A) /\ A < (Rw + U) * (Rw + U)) THEN "error-ge-1ulp"
     ELSE IF NHalfMode(mode) /\ ~((2 * Rw <= U \/ (2 * Rw - U) * (2 * Rw - U) <= 4 * A)
                                  /\ 4 * A <= (2 * Rw + U) * (2 * Rw + U)) THEN "error-gt-half-ulp"
     ELSE IF mode \in {"Zero", "Down"} /\ c > 0 THEN "wrong-side-" \o (IF mode = "Zero" THEN "zero" ELSE "down")
     ELSE IF mode \in {"Away", "Up"} /\ c < 0 THEN "wrong-side-" \o (IF mode = "Away" THEN "away" ELSE "up")
     ELSE IF Flag = "AddOne" /\ c < 0 THEN "addone-but-below"
     ELSE IF Flag = "SubOne" /\ c > 0 THEN "subone-but-above"
     ELSE ""

Why == IF op \in {"mul", "sqr", "cubic"} THEN WhyProd
       ELSE IF op \in {"div", "inv"} THEN DivWhy
       ELSE SqrtWhyN
\* Finding F24 (open while SqrtFix = FALSE): even digit count and odd exponent
KnownF24 == ~SqrtFix /\ op = "sqrt" /\ DigitsN(as, b) % 2 = 0 /\ ae % 2 = 1
Correct == pc = "done" => (Why = "" \/ KnownF24)
F24Absent == ~(pc = "done" /\ KnownF24 /\ Why # "")
ExpEven == pc = "sqrtroot" => (ae - SqrtShift) % 2 = 0
=============================================================================
