----------------------------- MODULE RoundTables -----------------------------
(* Algorithm layer: float/src/round.rs transcribed, one operator per function and one CASE arm
   per match arm of the Rust code (impl Round for mode::{Zero, Away, Up, Down, HalfAway, HalfEven}).
   Adjustments are -1 (SubOne), 0 (NoOp), 1 (AddOne).  Shared by the models of C03 (FloatAdd,
   FloatMulDivSqrt) and C10 (MC_RoundTables, FloatSplit). *)
EXTENDS RoundNative

(* Round::round_low_part(integer, low_sign, low_half_test)
   i: integer part; ls: sign of the low part (+1 / -1); h = cmp(|low|, 1/2) in {-1, 0, 1} *)
RoundLowPart(mode, i, ls, h) ==
  CASE mode = "Zero" ->
         IF i = 0 THEN 0
         ELSE IF NSgn(i) = ls THEN 0               \* (Positive, Positive) | (Negative, Negative) => NoOp
         ELSE IF NSgn(i) = 1 THEN -1               \* (Positive, Negative) => SubOne
         ELSE 1                                    \* (Negative, Positive) => AddOne
    [] mode = "Away" ->
         IF i = 0 THEN ls                          \* Positive => AddOne, Negative => SubOne
         ELSE IF NSgn(i) = ls THEN ls
         ELSE 0
    [] mode = "Down" -> IF ls = -1 THEN -1 ELSE 0
    [] mode = "Up" -> IF ls = 1 THEN 1 ELSE 0
    [] mode = "HalfAway" ->
         IF h = -1 THEN 0
         ELSE IF h = 0 THEN (IF i >= 0 /\ ls = 1 THEN 1 ELSE IF i <= 0 /\ ls = -1 THEN -1 ELSE 0)
         ELSE ls
    [] mode = "HalfEven" ->
         IF h = -1 THEN 0
         ELSE IF h = 0 THEN (IF i % 2 # 0 THEN ls ELSE 0)    \* integer.bit(0)
         ELSE ls

(* Round::round_fract::<B>(integer, fract, precision): integer + fract / B^precision.
   The exact comparison arm of the half test; the f32 pre-filter in front of it is modelled in
   RoundFractEst below. *)
RoundFract(mode, b, i, fract, prec) ==
  IF fract = 0 THEN 0
  ELSE RoundLowPart(mode, i, NSgn(fract), NCmp(2 * NAbs(fract), NPow(b, prec)))

(* The same function with the estimated-log2 pre-filter made explicit.  The code computes
     (lb, ub) = fmag.log2_bounds(), (b_lb, b_ub) = B.log2_bounds()     [f32 values]
     if lb + 0.999 > b_ub * precision      -> Greater
     else if ub + 1.001 < b_lb * precision -> Less
     else exact comparison.
   The estimates are abstracted as ANY valid bounds on a grid of quarters: L, U, BL, BU are integers
   with  L/4 <= log2 |fract| <= U/4  and  BL/4 <= log2 B <= BU/4  (validity is the caller's
   obligation, see MC_RoundTables).  On that grid  lb + 0.999 > b_ub * prec  <=>  L + 4 > BU * prec
   and  ub + 1.001 < b_lb * prec  <=>  U + 4 < BL * prec   (... + 4.004 < ... between integers: U + 5 <= BL*prec,
   i.e. U + 4 < BL * prec). *)
HalfTestEst(b, fmag, prec, L, U, BL, BU) ==
  IF L + 4 > BU * prec THEN 1
  ELSE IF U + 4 < BL * prec THEN -1
  ELSE NCmp(2 * fmag, NPow(b, prec))
RoundFractEst(mode, b, i, fract, prec, L, U, BL, BU) ==
  IF fract = 0 THEN 0
  ELSE RoundLowPart(mode, i, NSgn(fract), HalfTestEst(b, NAbs(fract), prec, L, U, BL, BU))

(* Round::round_ratio(integer, num, den): integer + num / den, den # 0 of either sign.
     low sign = nsign * den.sign();
     half test: den positive -> (2 * nmag).cmp(den);  den negative -> den.cmp(-(2 * nmag)) *)
RoundRatio(mode, i, num, den) ==
  IF num = 0 THEN 0
  ELSE LET nmag == NAbs(num)
           h == IF den > 0 THEN NCmp(2 * nmag, den) ELSE NCmp(den, -(2 * nmag))
       IN RoundLowPart(mode, i, NSgn(num) * NSgn(den), h)

FlagOf(adj) == AdjustFlag(adj)
=============================================================================
