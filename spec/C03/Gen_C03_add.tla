---------------------------- MODULE Gen_C03_add ----------------------------
(* Behaviour generator for C03 add / sub: the FloatAdd model is run over its scope (invariant
   Correct is checked in the same pass) and every `done` state of the sample prints one case for the
   conformance harness: operands, predicted result / flag / branch path of the algorithm layer and the
   semantic class.  Sample: every state whose salt hits the stride, plus (own stride) the states on the
   tie / cancellation / far-apart classes. *)
EXTENDS FloatAdd, Json, TLC
CONSTANTS Stride, RareStride, Seed

ModeNo == CASE mode = "Zero" -> 0 [] mode = "Away" -> 1 [] mode = "Up" -> 2 [] mode = "Down" -> 3
            [] mode = "HalfEven" -> 4 [] mode = "HalfAway" -> 5
Salt == NAbs(ls) * 31 + NAbs(rs) * 17 + (IF ls < 0 THEN 3 ELSE 0) + (IF rs < 0 THEN 5 ELSE 0)
        + le * 7 + re * 13 + (rsgn + 1) * 2 + dub * 19 + p * 11 + b * 23 + ModeNo * 29 + Seed
BigDigits == NMax(DigitsN(ls, b) + le, DigitsN(rs, b) + re)       \* position of the leading digit of the larger operand
Class ==
  IF X = 0 THEN "cancel-zero"
  ELSE IF DigitsN(X, b) - K < BigDigits - 1 THEN "cancel-deep"
  ELSE IF DigitsN(X, b) - K < BigDigits THEN "cancel-one"
  ELSE IF inexact /\ lowp > 0 /\ 2 * NAbs(lowv) = NPow(b, lowp) THEN "tie"
  ELSE IF DigitsN(X, b) - K > BigDigits THEN "carry"
  ELSE IF ~inexact THEN "exact"
  ELSE "plain"
Rare == Class \in {"cancel-zero", "cancel-deep", "cancel-one", "tie"} \/ branch[1] \in {"ls-far", "sl-far"}
\* the harness replays operands only: one case per operand pair (the digits_ub slack is explored by the model, not by the replay)
Sampled == dub = 0 /\ (Salt % Stride = 0 \/ (Rare /\ Salt % RareStride = 0))
Case ==
  [op |-> IF rsgn = 1 THEN "add" ELSE "sub", base |-> b, mode |-> mode, prec |-> p,
   a |-> [sig |-> ls, exp |-> le], b |-> [sig |-> rs, exp |-> re],
   pred |-> [sig |-> NormSigN(sig, b), exp |-> IF sig = 0 THEN 0 ELSE exp + TrailN(sig, b), flag |-> Flag],
   branch |-> branch, class |-> Class, known |-> KnownF02]
Emit == (pc = "done" /\ Sampled) => PrintT(<<"GEN", ToJson(Case)>>)
=============================================================================
