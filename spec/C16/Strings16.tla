----------------------------- MODULE Strings16 -----------------------------
(***************************************************************************)
(* String lattice of the parser part of C16: a candidate string is the     *)
(* concatenation of one choice per slot                                    *)
(*     sign  prefix  digits  fraction  exponent  (ratio tail)              *)
(* Each choice is a list of pieces [b |-> bytes, n |-> repetitions]; the   *)
(* grammar derivations of the three literal grammars are the products of   *)
(* the well-formed choices, everything else is a single- or multi-slot     *)
(* mutation: empty slots, doubled signs, misplaced prefixes, separators at *)
(* the edges, non-ASCII digits, NUL and blanks, 1 MB digit runs, exponent  *)
(* fields at and just beyond the isize limits.                             *)
(* The definition layer never looks at the content: a parser returns Ok or *)
(* Err, it does not panic, hang or abort (PanicDef family "parse").        *)
(***************************************************************************)
EXTENDS Naturals, Sequences, TLC

P1(bytes) == <<[b |-> bytes, n |-> 1]>>
Rp(bytes, n) == <<[b |-> bytes, n |-> n]>>
None == <<>>

\* ASCII
Plus == 43  Minus == 45  Dot == 46  Slash == 47  Us == 95  Sp == 32  At == 64
D(c) == 48 + c               \* decimal digit
La == 97  Lb == 98  Le == 101  Lf == 102  Lh == 104  Lo == 111  Lp == 112  Lx == 120  Lz == 122
UE == 69  UX == 88  UZ == 90  UP == 80

IsizeMaxDigits == <<D(9), D(2), D(2), D(3), D(3), D(7), D(2), D(0), D(3), D(6), D(8), D(5), D(4), D(7), D(7), D(5), D(8), D(0), D(7)>>
IsizeMinDigits == <<D(9), D(2), D(2), D(3), D(3), D(7), D(2), D(0), D(3), D(6), D(8), D(5), D(4), D(7), D(7), D(5), D(8), D(0), D(8)>>
IsizeOverDigits == <<D(9), D(2), D(2), D(3), D(3), D(7), D(2), D(0), D(3), D(6), D(8), D(5), D(4), D(7), D(7), D(5), D(8), D(0), D(9)>>

Signs == << None, P1(<<Plus>>), P1(<<Minus>>), P1(<<Plus, Minus>>), P1(<<Minus, Minus>>), P1(<<Sp>>) >>
Prefixes == << None, P1(<<D(0), Lx>>), P1(<<D(0), Lb>>), P1(<<D(0), Lo>>), P1(<<D(0), UX>>), P1(<<Us>>) >>
Digits ==
  << None, P1(<<D(0)>>), P1(<<D(1)>>), P1(<<D(7)>>), P1(<<D(1), D(0), D(1)>>), P1(<<La>>), P1(<<Lf, Lf>>), P1(<<Lz>>), P1(<<UZ>>),
     P1(<<Us>>), P1(<<D(1), Us, D(0)>>), P1(<<Us, D(1)>>), P1(<<D(1), Us>>), P1(<<D(0), D(0), D(1), D(2)>>),
     P1(<<239, 188, 153>>),               \* U+FF19 fullwidth digit nine
     P1(<<195, 169>>),                    \* e-acute
     P1(<<D(1), 240, 159, 146, 169, D(2)>>), \* a 4-byte character between digits
     P1(<<D(1), 0, D(2)>>),               \* NUL
     P1(<<D(1), Sp, D(2)>>),
     Rp(<<D(7)>>, 1000),
     Rp(<<D(9)>>, 1000000),               \* 1 MB of decimal digits
     Rp(<<Lf>>, 1000000),                 \* 1 MB of hexadecimal digits
     Rp(<<D(1)>>, 1000000),               \* 1 MB of binary digits
     Rp(<<Us>>, 1000000) >>
Fracs ==
  << None, P1(<<Dot>>), P1(<<Dot, D(5)>>), P1(<<Dot, D(0)>>), P1(<<Dot, D(1), D(0), D(1)>>), P1(<<Dot, Us>>), P1(<<Dot, La>>),
     P1(<<Dot, D(5), Dot, D(5)>>), P1(<<Dot, Minus, D(5)>>), P1(<<Dot, 195, 169>>),
     <<[b |-> <<Dot>>, n |-> 1], [b |-> <<D(1)>>, n |-> 1000000]>> >>
Exps ==
  << None, P1(<<Le>>), P1(<<Le, D(5)>>), P1(<<Le, Minus, D(5)>>), P1(<<Le, Plus, D(5)>>), P1(<<UE, D(5)>>),
     P1(<<Le>> \o IsizeMaxDigits), P1(<<Le, Minus>> \o IsizeMinDigits), P1(<<Le>> \o IsizeOverDigits),
     P1(<<Le, Minus>> \o IsizeOverDigits), P1(<<Le, Minus>> \o IsizeMaxDigits),
     P1(<<Le, D(5), Le, D(5)>>), P1(<<Le, Us, D(5)>>), P1(<<Le, D(5), Us>>), P1(<<Le, 195, 169>>),
     P1(<<Lp, D(3)>>), P1(<<Lp, Minus, D(3)>>), P1(<<UP, D(3)>>), P1(<<Lp, Minus>> \o IsizeMinDigits),
     P1(<<At, D(7)>>), P1(<<At, Minus, D(7)>>), P1(<<At, Minus>> \o IsizeMinDigits), P1(<<At>>),
     P1(<<Lb, D(2)>>), P1(<<Lb, Minus>> \o IsizeMinDigits), P1(<<Lh, D(2)>>), P1(<<Lh, Minus>> \o IsizeMinDigits),
     P1(<<Lo, D(2)>>), P1(<<Lo, Minus>> \o IsizeMinDigits), P1(<<Sp>>), P1(<<0>>) >>
Ratios ==
  << None, P1(<<Slash>>), P1(<<Slash, D(0)>>), P1(<<Slash, D(3)>>), P1(<<Slash, Minus, D(3)>>), P1(<<Slash, Plus, D(3)>>),
     P1(<<Slash, D(0), Lx, D(3)>>), P1(<<Slash, D(0), Lb, D(1)>>), P1(<<Slash, D(3), Slash, D(3)>>), P1(<<Slash, Sp, D(3)>>),
     P1(<<Slash, D(0), D(0)>>), P1(<<Slash, Us>>), P1(<<Slash, Minus, D(0)>>), P1(<<Slash, 195, 169>>),
     <<[b |-> <<Slash>>, n |-> 1], [b |-> <<D(9)>>, n |-> 1000000]>> >>

\* parser entry points: <<name, grammar, radix (0 = none)>>
IntTargets ==
  << <<"U.from_str", 0>>, <<"I.from_str", 0>>, <<"U.from_str_radix", 2>>, <<"U.from_str_radix", 16>>, <<"U.from_str_radix", 36>>,
     <<"U.from_str_radix", 1>>, <<"U.from_str_radix", 37>>, <<"I.from_str_radix", 10>>, <<"I.from_str_radix", 16>>,
     <<"I.from_str_radix", 0>>, <<"U.from_str_with_radix_prefix", 0>>, <<"I.from_str_with_radix_prefix", 0>> >>
FloatTargets == << <<"F2.from_str", 0>>, <<"F10.from_str", 0>>, <<"F16.from_str", 0>>, <<"F8.from_str", 0>>, <<"F3.from_str", 0>> >>
RatioTargets ==
  << <<"R.from_str", 0>>, <<"X.from_str", 0>>, <<"R.from_str_radix", 16>>, <<"R.from_str_radix", 37>>, <<"X.from_str_radix", 2>>,
     <<"R.from_str_with_radix_prefix", 0>>, <<"X.from_str_with_radix_prefix", 0>> >>
ParseOps == {t[1] : t \in {IntTargets[i] : i \in 1..Len(IntTargets)} \cup {FloatTargets[i] : i \in 1..Len(FloatTargets)}
                          \cup {RatioTargets[i] : i \in 1..Len(RatioTargets)}}
=============================================================================
