SPECIFICATION Spec
INVARIANT Classified
CONSTANTS
  Tier = "thorough"
  Seed = 1
  KeepInt = 1000000
  KeepFloat = 1000000
  KeepRatio = 1000000
  WithStrings = FALSE
CHECK_DEADLOCK FALSE
