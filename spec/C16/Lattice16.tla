----------------------------- MODULE Lattice16 -----------------------------
(***************************************************************************)
(* Operation inventory and edge-class lattice of C16.                      *)
(*                                                                         *)
(* Inventory: <<operation name, rule family of PanicDef, signature (one    *)
(* lattice axis per argument), isolate>>.  The harness dumps its own table *)
(* (`c16 --inventory`) and the check refuses to run when the two differ.   *)
(* An axis is a list of edge-class names; Rep(axis, class) is the concrete *)
(* argument value put on the wire.                                         *)
(***************************************************************************)
EXTENDS PanicDef

\* 2^200 + 12345: four 64-bit words, top word 2^8
BigM == [i \in 1..26 |-> IF i = 1 THEN 57 ELSE IF i = 2 THEN 48 ELSE IF i = 26 THEN 1 ELSE 0]
BigU == I(0, BigM)
W64 == I(0, <<0, 0, 0, 0, 0, 0, 0, 0, 1>>)            \* 2^64
U32MAX == I(0, <<255, 255, 255, 255>>)
P2_62 == I(0, <<0, 0, 0, 0, 0, 0, 0, 64>>)
P2_70 == I(0, <<0, 0, 0, 0, 0, 0, 0, 0, 64>>)

IntOf(c) ==
  CASE c = "0" -> IZero [] c = "1" -> INat(1) [] c = "-1" -> INat(-1) [] c = "2" -> INat(2) [] c = "-2" -> INat(-2)
    [] c = "3" -> INat(3) [] c = "-3" -> INat(-3) [] c = "4" -> INat(4) [] c = "7" -> INat(7) [] c = "-7" -> INat(-7) [] c = "8" -> INat(8)
    [] c = "-8" -> INat(-8) [] c = "10" -> INat(10) [] c = "16" -> INat(16) [] c = "20" -> INat(20)
    [] c = "36" -> INat(36) [] c = "37" -> INat(37) [] c = "63" -> INat(63) [] c = "64" -> INat(64)
    [] c = "-64" -> INat(-64) [] c = "65" -> INat(65) [] c = "128" -> INat(128) [] c = "1000" -> INat(1000)
    [] c = "192" -> INat(192) [] c = "255" -> INat(255) [] c = "256" -> INat(256) [] c = "257" -> INat(257)
    [] c = "w" -> W64 [] c = "big" -> BigU [] c = "-big" -> INeg(BigU) [] c = "big+1" -> IAdd(BigU, INat(1))
    [] c = "u32max" -> U32MAX [] c = "huge" -> USIZE_MAX [] c = "imax" -> ISIZE_MAX [] c = "imin" -> ISIZE_MIN
    [] c = "2^24" -> I(0, <<0, 0, 0, 1>>) [] c = "2^62" -> P2_62 [] c = "-2^62" -> INeg(P2_62) [] c = "2^70" -> P2_70 [] c = "-2^70" -> INeg(P2_70)

UnsignedPrims == <<"u8", "u16", "u32", "u64", "u128", "usize">>
SignedPrims == <<"i8", "i16", "i32", "i64", "i128", "isize">>
PrimClassesOf(types, vals) == [i \in 1..(Len(types) * Len(vals)) |->
   types[1 + ((i - 1) \div Len(vals))] \o ":" \o vals[1 + ((i - 1) % Len(vals))]]
PrimVals == <<"0", "3">>
PuClasses == PrimClassesOf(UnsignedPrims, PrimVals)
PaClasses == PuClasses \o PrimClassesOf(SignedPrims, <<"0", "3", "-3">>)

FValsPlain == <<"0", "1", "-1", "2", "3", "-3", "half", "frac", "big", "-big", "tiny", "inf", "-inf">>
FValsHuge == FValsPlain \o <<"hugeexp", "hugeneg">>
FPrecs == <<"p0", "p1", "p20">>
FClassesOf(vals) == [i \in 1..(Len(vals) * Len(FPrecs)) |->
   vals[1 + ((i - 1) \div Len(FPrecs))] \o "@" \o FPrecs[1 + ((i - 1) % Len(FPrecs))]]
\* reduced second-operand axis of the quick tier
FValsSecond == <<"0", "1", "3", "-3", "half", "big", "inf">>

\* significand / exponent of a float value class in base b
FSig(b, v) ==
  CASE v \in {"0", "inf", "-inf"} -> IZero
    [] v \in {"1", "big", "tiny", "hugeexp", "hugeneg"} -> INat(1)
    [] v \in {"-1", "-big"} -> INat(-1)
    [] v = "2" -> IF b = 2 THEN INat(1) ELSE INat(2)
    [] v = "3" -> INat(3) [] v = "-3" -> INat(-3)
    [] v = "half" -> IF b = 2 THEN INat(1) ELSE INat(5)
    [] v = "frac" -> IF b = 2 THEN INat(201) ELSE INat(314159)
FExp(b, v) ==
  CASE v \in {"0", "inf", "-inf", "1", "-1", "3", "-3"} -> IZero
    [] v = "2" -> IF b = 2 THEN INat(1) ELSE IZero
    [] v = "half" -> INat(-1)
    [] v = "frac" -> IF b = 2 THEN INat(-6) ELSE INat(-5)
    [] v \in {"big", "-big"} -> IF b = 2 THEN INat(100) ELSE INat(30)
    [] v = "tiny" -> IF b = 2 THEN INat(-100) ELSE INat(-30)
    [] v = "hugeexp" -> ISIZE_MAX
    [] v = "hugeneg" -> ISIZE_MIN
FPrecOf(p) == IF p = "p0" THEN IZero ELSE IF p = "p1" THEN INat(1) ELSE INat(20)
FRep(b, v, p) == [k |-> "F", b |-> b, sig |-> FSig(b, v), exp |-> FExp(b, v),
                  inf |-> IF v = "inf" THEN 1 ELSE IF v = "-inf" THEN -1 ELSE 0, prec |-> FPrecOf(p)]
\* a float operand is valid when its significand has at most `precision` digits (or the precision is unlimited)
FValid(f) == f.inf # 0 \/ IsZ(f.prec) \/ ICmp(INat(FDigits(f)), f.prec) <= 0

RNum(c) == CASE c = "0" -> IZero [] c \in {"1", "1/2", "1/3"} -> INat(1) [] c \in {"-1", "-1/2"} -> INat(-1)
             [] c = "3" -> INat(3) [] c = "22/7" -> INat(22) [] c = "big" -> BigU [] c = "-big" -> INeg(BigU)
             [] c = "tiny" -> INat(1) [] c = "2^64" -> W64 [] c = "2^100" -> I(0, <<0,0,0,0,0,0,0,0,0,0,0,0,16>>)
RDen(c) == CASE c \in {"0", "1", "-1", "3", "2^64", "2^100"} -> INat(1) [] c \in {"1/2", "-1/2"} -> INat(2) [] c = "1/3" -> INat(3)
             [] c \in {"22/7", "big", "-big"} -> INat(7) [] c = "tiny" -> BigU
RClasses == <<"0", "1", "-1", "1/2", "-1/2", "1/3", "3", "22/7", "2^64", "2^100", "big", "-big", "tiny">>

\* position of a character in a string of distinct characters (used to split "type:value", "value@prec")
SplitAt(s, ch) == CHOOSE i \in 1..Len(s) : SubSeq(s, i, i) = ch
Before(s, ch) == SubSeq(s, 1, SplitAt(s, ch) - 1)
After(s, ch) == SubSeq(s, SplitAt(s, ch) + 1, Len(s))

\* ------------------------------------------------------------------ axes
Cl(axis, tier) ==
  CASE axis = "U" -> <<"0", "1", "2", "4", "7", "w", "big", "big+1">>
    [] axis = "I" -> <<"0", "1", "-1", "2", "7", "-7", "-8", "big", "-big">>
    [] axis = "Nroot" -> <<"0", "1", "2", "3", "64", "huge">>
    [] axis = "Npow" -> <<"0", "1", "2", "3", "64", "huge">>
    \* (192, 255..257: around the word length of the "big" operand - four words - where an index becomes the first one past the buffer)
    [] axis = "Nshift" -> <<"0", "1", "63", "64", "65", "128", "192", "255", "256", "257", "2^24", "huge">>
    [] axis = "Nchunk" -> <<"0", "1", "8", "63", "64", "128", "huge">>
    [] axis = "Radix" -> <<"0", "1", "2", "10", "16", "36", "37", "u32max">>
    [] axis = "Nprec" -> <<"0", "1", "2", "20", "1000">>
    [] axis = "Zs" -> <<"0", "1", "-1", "64", "-64", "imax", "imin">>
    [] axis = "Ipow" -> <<"0", "1", "-1", "2", "-2", "64", "-64", "2^62", "-2^62", "2^70", "-2^70">>
    [] axis = "Pu" -> PuClasses
    [] axis = "Pa" -> PaClasses
    [] axis \in {"F2", "F10"} -> FClassesOf(FValsPlain)
    [] axis \in {"Fh2", "Fh10"} -> FClassesOf(FValsHuge)
    \* second operand of a binary float operator: same precision as the first (see Tuples)
    [] axis \in {"Fb2", "Fb10"} -> IF tier = "quick" THEN FValsSecond ELSE FValsPlain
    [] axis \in {"Fhb2", "Fhb10"} -> IF tier = "quick" THEN FValsSecond \o <<"hugeexp">> ELSE FValsHuge
    \* logarithms: every non-positive argument of the unrepaired release build hangs for the whole budget (F25),
    \* the quick tier keeps a single one (Extras) besides ln(0) and ln_1p(-1), which return
    [] axis \in {"Fl2", "Fl10"} -> IF tier = "quick"
          THEN FClassesOf(<<"0", "1", "2", "half", "frac", "big", "tiny", "inf", "-inf", "hugeexp">>) ELSE FClassesOf(FValsHuge)
    \* denominator limits of next_up / next_down / nearest: the walk takes about `limit` steps (finding C16.N4)
    [] axis = "Ulim" -> IF tier = "quick" THEN <<"0", "1", "2", "7", "1000">> ELSE <<"0", "1", "2", "7", "1000", "w">>
    [] axis \in {"Fs10"} -> FClassesOf(<<"0", "1", "-1", "2", "inf", "-inf">>)
    [] axis \in {"R", "X"} -> RClasses
    [] axis = "Form4" -> <<"vv", "rv", "vr", "rr">>
    [] axis = "D" -> <<"nan", "inf", "-inf", "0", "-0", "1", "0.1", "-2.5", "minpos", "max", "-max", "2^100">>

AxisBase(axis) == IF axis \in {"F2", "Fh2", "Fb2", "Fhb2", "Fl2"} THEN 2 ELSE 10
IsSecondF(axis) == axis \in {"Fb2", "Fb10", "Fhb2", "Fhb10"}

\* value of class c on an axis; `first` is the first argument's class name (binary float operators reuse its precision)
Rep(axis, c, first) ==
  CASE axis \in {"U", "Ulim"} -> [k |-> "U", v |-> IntOf(c)]
    [] axis \in {"I"} -> [k |-> "I", v |-> IntOf(c)]
    [] axis \in {"Nroot", "Npow", "Nshift", "Nchunk", "Radix", "Nprec", "Zs"} -> [k |-> "N", v |-> IntOf(c)]
    [] axis = "Ipow" -> [k |-> "I", v |-> IntOf(c)]
    [] axis \in {"Pu", "Pa"} -> [k |-> "P", t |-> Before(c, ":"), v |-> IntOf(After(c, ":"))]
    [] axis \in {"F2", "F10", "Fh2", "Fh10", "Fs10", "Fl2", "Fl10"} -> FRep(AxisBase(axis), Before(c, "@"), After(c, "@"))
    [] IsSecondF(axis) -> FRep(AxisBase(axis), c, After(first, "@"))
    [] axis = "R" -> [k |-> "R", num |-> RNum(c), den |-> RDen(c)]
    [] axis = "X" -> [k |-> "X", num |-> RNum(c), den |-> RDen(c)]
    [] axis = "D" -> [k |-> "D", c |-> c]
    [] axis = "Form4" -> [k |-> "T", c |-> c]

ArgValid(x) == IF x.k = "F" THEN FValid(x) ELSE TRUE

\* ------------------------------------------------------------------ inventory
Op(name, fam, sig, iso) == [op |-> name, fam |-> fam, sig |-> sig, iso |-> iso]

IntOps ==
  << Op("U.add", "total", <<"U", "U">>, 0), Op("U.sub", "usub", <<"U", "U">>, 0), Op("U.mul", "total", <<"U", "U">>, 0),
     Op("U.div", "div", <<"U", "U">>, 0), Op("U.rem", "div", <<"U", "U">>, 0), Op("U.div_rem", "div", <<"U", "U">>, 0),
     Op("U.div_euclid", "div", <<"U", "U">>, 0), Op("U.rem_euclid", "div", <<"U", "U">>, 0),
     Op("U.div_rem_euclid", "div", <<"U", "U">>, 0), Op("U.is_multiple_of", "div", <<"U", "U">>, 0),
     Op("I.add", "total", <<"I", "I">>, 0), Op("I.sub", "total", <<"I", "I">>, 0), Op("I.mul", "total", <<"I", "I">>, 0),
     Op("I.div", "div", <<"I", "I">>, 0), Op("I.rem", "div", <<"I", "I">>, 0), Op("I.div_rem", "div", <<"I", "I">>, 0),
     Op("I.div_euclid", "div", <<"I", "I">>, 0), Op("I.rem_euclid", "div", <<"I", "I">>, 0),
     Op("I.div_rem_euclid", "div", <<"I", "I">>, 0), Op("I.is_multiple_of", "div", <<"I", "I">>, 0),
     Op("U.div.prim", "div", <<"U", "Pu">>, 0), Op("U.rem.prim", "div", <<"U", "Pu">>, 0),
     Op("U.div_rem.prim", "div", <<"U", "Pu">>, 0), Op("U.div_rem_assign.prim", "div", <<"U", "Pu">>, 0),
     Op("I.div.prim", "div", <<"I", "Pa", "Form4">>, 0), Op("I.rem.prim", "div", <<"I", "Pa", "Form4">>, 0),
     Op("I.div_rem.prim", "div", <<"I", "Pa", "Form4">>, 0), Op("I.div_rem_assign.prim", "div", <<"I", "Pa", "Form4">>, 0),
     Op("U.add.prim", "total", <<"U", "Pu">>, 0), Op("U.sub.prim", "usub", <<"U", "Pu">>, 0),
     Op("prim.sub.U", "usub", <<"Pu", "U">>, 0), Op("U.mul.prim", "total", <<"U", "Pu">>, 0),
     Op("I.add.prim", "total", <<"I", "Pa">>, 0), Op("I.sub.prim", "total", <<"I", "Pa">>, 0),
     Op("prim.sub.I", "total", <<"Pa", "I">>, 0), Op("prim.div.I", "div", <<"Pa", "I">>, 0), Op("I.mul.prim", "total", <<"I", "Pa">>, 0),
     Op("I.and.prim", "total", <<"I", "Pa">>, 0),
     Op("U.gcd", "gcd", <<"U", "U">>, 0), Op("U.gcd_ext", "gcd", <<"U", "U">>, 0),
     Op("I.gcd", "gcd", <<"I", "I">>, 0), Op("I.gcd_ext", "gcd", <<"I", "I">>, 0),
     Op("U.sqrt", "sqrt", <<"U">>, 0), Op("U.sqrt_rem", "sqrt", <<"U">>, 0), Op("I.sqrt", "sqrt", <<"I">>, 0),
     Op("U.cbrt", "total", <<"U">>, 0), Op("I.cbrt", "total", <<"I">>, 0),
     Op("U.nth_root", "nth_root", <<"U", "Nroot">>, 1), Op("I.nth_root", "nth_root", <<"I", "Nroot">>, 1),
     Op("U.ilog", "ilog", <<"U", "U">>, 1), Op("I.ilog", "ilog", <<"I", "U">>, 1),
     Op("U.pow", "pow", <<"U", "Npow">>, 1), Op("I.pow", "pow", <<"I", "Npow">>, 1),
     Op("U.shl", "shl", <<"U", "Nshift">>, 1), Op("I.shl", "shl", <<"I", "Nshift">>, 1),
     Op("U.shr", "total", <<"U", "Nshift">>, 1), Op("I.shr", "total", <<"I", "Nshift">>, 1),
     Op("U.bit", "total", <<"U", "Nshift">>, 1), Op("I.bit", "total", <<"I", "Nshift">>, 1),
     Op("U.set_bit", "set_bit", <<"U", "Nshift">>, 1),
     Op("U.clear_bit", "total", <<"U", "Nshift">>, 1),
     Op("U.split_bits", "total", <<"U", "Nshift">>, 1), Op("U.clear_high_bits", "total", <<"U", "Nshift">>, 1),
     Op("U.ones", "ones", <<"Nshift">>, 1),
     Op("U.in_radix", "radix", <<"U", "Radix">>, 0), Op("I.in_radix", "radix", <<"I", "Radix">>, 0),
     Op("U.to_chunks", "chunks", <<"U", "Nchunk">>, 1),
     Op("U.to_string", "total", <<"U">>, 0), Op("I.to_string", "total", <<"I">>, 0),
     Op("U.fmt_hex", "total", <<"U">>, 0), Op("I.fmt_hex", "total", <<"I">>, 0),
     Op("U.to_f32", "total", <<"U">>, 0), Op("U.to_f64", "total", <<"U">>, 0),
     Op("I.to_f32", "total", <<"I">>, 0), Op("I.to_f64", "total", <<"I">>, 0),
     Op("U.to_le_bytes", "total", <<"U">>, 0), Op("I.to_le_bytes", "total", <<"I">>, 0),
     Op("U.try_from_I", "total", <<"I">>, 0), Op("u8.try_from_U", "total", <<"U">>, 0),
     Op("i64.try_from_I", "total", <<"I">>, 0), Op("u128.try_from_I", "total", <<"I">>, 0),
     Op("U.count_ones", "total", <<"U">>, 0), Op("U.trailing_zeros", "total", <<"U">>, 0),
     Op("I.trailing_zeros", "total", <<"I">>, 0), Op("U.bit_len", "total", <<"U">>, 0),
     Op("U.next_power_of_two", "total", <<"U">>, 0), Op("U.is_power_of_two", "total", <<"U">>, 0),
     Op("U.remove", "total", <<"U", "U">>, 0),
     Op("I.neg", "total", <<"I">>, 0), Op("I.abs", "total", <<"I">>, 0), Op("I.signum", "total", <<"I">>, 0),
     Op("U.sqr", "total", <<"U">>, 0), Op("I.sqr", "total", <<"I">>, 0),
     Op("U.cubic", "total", <<"U">>, 0), Op("I.cubic", "total", <<"I">>, 0),
     Op("I.not", "total", <<"I">>, 0), Op("I.and", "total", <<"I", "I">>, 0), Op("I.or", "total", <<"I", "I">>, 0),
     Op("I.xor", "total", <<"I", "I">>, 0), Op("U.cmp", "total", <<"U", "U">>, 0), Op("I.cmp", "total", <<"I", "I">>, 0),
     Op("U.log2_bounds", "total", <<"U">>, 0), Op("I.log2_bounds", "total", <<"I">>, 0),
     Op("M.new", "ring_new", <<"U">>, 0), Op("M.reduce", "ring", <<"U", "I">>, 0),
     Op("M.add", "ring", <<"U", "U", "U">>, 0), Op("M.sub", "ring", <<"U", "U", "U">>, 0),
     Op("M.mul", "ring", <<"U", "U", "U">>, 0), Op("M.pow", "ring", <<"U", "U", "U">>, 0),
     Op("M.inv", "ring", <<"U", "U">>, 0), Op("M.div", "ring_div", <<"U", "U", "U">>, 0),
     Op("M.sqr", "ring", <<"U", "U">>, 0), Op("M.neg", "ring", <<"U", "U">>, 0), Op("M.dbl", "ring", <<"U", "U">>, 0),
     Op("M.cross_add", "ring_cross", <<"U", "U">>, 0), Op("M.cross_eq", "ring_cross", <<"U", "U">>, 0) >>

\* float operations of base b (type FBig<Zero, 2> for 2, DBig = FBig<HalfAway, 10> for 10)
FloatOps(b) ==
  LET T == IF b = 2 THEN "F2" ELSE "F10"
      Fa == T  Fh == IF b = 2 THEN "Fh2" ELSE "Fh10"
      Fl == IF b = 2 THEN "Fl2" ELSE "Fl10"
      Fb == IF b = 2 THEN "Fb2" ELSE "Fb10"  Fhb == IF b = 2 THEN "Fhb2" ELSE "Fhb10"
      N(s) == T \o "." \o s
  IN << Op(N("add"), "f_addsub", <<Fa, Fb>>, 0), Op(N("sub"), "f_addsub", <<Fa, Fb>>, 0),
        Op(N("mul"), "f_mul", <<Fh, Fhb>>, 0), Op(N("div"), "f_div", <<Fa, Fb>>, 0),
        Op(N("rem"), "f_rem", <<Fa, Fb>>, 0), Op(N("div_euclid"), "f_rem", <<Fa, Fb>>, 0),
        Op(N("rem_euclid"), "f_rem", <<Fa, Fb>>, 0), Op(N("div_rem_euclid"), "f_rem", <<Fa, Fb>>, 0),
        Op(N("inv"), "f_inv", <<Fh>>, 1), Op(N("sqr"), "f_sqr", <<Fh>>, 1), Op(N("cubic"), "f_cubic", <<Fh>>, 1),
        Op(N("sqrt"), "f_sqrt", <<Fh>>, 1), Op(N("exp"), "f_exp", <<Fh>>, 1), Op(N("exp_m1"), "f_expm1", <<Fh>>, 1),
        Op(N("ln"), "f_ln", <<Fl>>, 1), Op(N("ln_1p"), "f_ln1p", <<Fl>>, 1),
        Op(N("powi"), "f_powi", <<Fh, "Ipow">>, 1), Op(N("powf"), "f_powf", <<Fa, Fb>>, 1),
        Op(N("trunc"), "f_round", <<Fh>>, 1), Op(N("fract"), "f_round", <<Fh>>, 1), Op(N("ceil"), "f_round", <<Fh>>, 1),
        Op(N("floor"), "f_round", <<Fh>>, 1), Op(N("round"), "f_round", <<Fh>>, 1),
        Op(N("split_at_point"), "f_split", <<Fh>>, 1), Op(N("to_int"), "f_toint", <<Fh>>, 1),
        Op(N("shl"), "f_shl", <<Fh, "Zs">>, 1), Op(N("shr"), "f_shr", <<Fh, "Zs">>, 1),
        Op(N("shl_assign"), "f_shl", <<Fh, "Zs">>, 1),
        Op(N("ulp"), "f_ulp", <<Fh>>, 1),
        Op(N("neg"), "f_total", <<Fh>>, 0), Op(N("abs"), "f_total", <<Fh>>, 0), Op(N("cmp"), "f_total", <<Fh, Fhb>>, 1),
        Op(N("eq"), "f_total", <<Fh, Fhb>>, 1), Op(N("sign"), "f_total", <<Fh>>, 0),
        Op(N("with_precision"), "f_withprec", <<Fh, "Nprec">>, 1), Op(N("clone"), "f_total", <<Fh>>, 0),
        Op(N("to_f32"), "f_total", <<IF b = 2 THEN Fh ELSE "Fs10">>, 1),
        Op(N("to_f64"), "f_total", <<IF b = 2 THEN Fh ELSE "Fs10">>, 1),
        Op(N("convert_base"), "f_base", <<Fh>>, 1),
        Op(N("to_string"), "f_fmt", <<Fh>>, 1), Op(N("debug"), "f_fmt", <<Fh>>, 1),
        Op(N("into_ibig"), "f_total", <<Fa>>, 0),
        \* the other call forms of the operators: separate impls, the same preconditions
        Op(N("add.vv"), "f_addsub", <<Fa, Fb>>, 0), Op(N("add.vr"), "f_addsub", <<Fa, Fb>>, 0), Op(N("add.rv"), "f_addsub", <<Fa, Fb>>, 0),
        Op(N("add.assign"), "f_addsub", <<Fa, Fb>>, 0),
        Op(N("sub.vv"), "f_addsub", <<Fa, Fb>>, 0), Op(N("sub.vr"), "f_addsub", <<Fa, Fb>>, 0), Op(N("sub.rv"), "f_addsub", <<Fa, Fb>>, 0),
        Op(N("sub.assign"), "f_addsub", <<Fa, Fb>>, 0),
        Op(N("mul.vv"), "f_mul", <<Fh, Fhb>>, 0), Op(N("mul.vr"), "f_mul", <<Fh, Fhb>>, 0), Op(N("mul.rv"), "f_mul", <<Fh, Fhb>>, 0),
        Op(N("mul.assign"), "f_mul", <<Fh, Fhb>>, 0),
        Op(N("div.vv"), "f_div", <<Fa, Fb>>, 0), Op(N("div.vr"), "f_div", <<Fa, Fb>>, 0), Op(N("div.rv"), "f_div", <<Fa, Fb>>, 0),
        Op(N("div.assign"), "f_div", <<Fa, Fb>>, 0) >>
     \o (IF b = 2 THEN << Op(N("try_from_f64"), "total", <<"D">>, 0) >> ELSE << >>)

RatOps ==
  << Op("R.from_parts", "r_parts", <<"I", "U">>, 0), Op("R.from_parts_signed", "r_parts", <<"I", "I">>, 0),
     Op("X.from_parts", "r_parts", <<"I", "U">>, 0),
     Op("R.add", "total", <<"R", "R">>, 0), Op("R.sub", "total", <<"R", "R">>, 0), Op("R.mul", "total", <<"R", "R">>, 0),
     Op("R.div", "r_div", <<"R", "R">>, 0), Op("X.add", "total", <<"X", "X">>, 0), Op("X.mul", "total", <<"X", "X">>, 0),
     Op("X.div", "r_div", <<"X", "X">>, 0),
     Op("R.div.int", "r_divint", <<"R", "I">>, 0), Op("R.mul.int", "total", <<"R", "I">>, 0),
     Op("R.inv", "r_inv", <<"R">>, 0), Op("X.inv", "r_inv", <<"X">>, 0),
     Op("R.pow", "r_pow", <<"R", "Npow">>, 1), Op("R.sqr", "total", <<"R">>, 0), Op("R.cubic", "total", <<"R">>, 0),
     Op("R.trunc", "total", <<"R">>, 0), Op("R.floor", "total", <<"R">>, 0), Op("R.ceil", "total", <<"R">>, 0),
     Op("R.round", "total", <<"R">>, 0), Op("R.fract", "total", <<"R">>, 0), Op("R.split_at_point", "total", <<"R">>, 0),
     Op("R.to_f32", "total", <<"R">>, 0), Op("R.to_f64", "total", <<"R">>, 0), Op("R.to_f64_fast", "total", <<"R">>, 0),
     Op("R.to_int", "total", <<"R">>, 0), Op("R.neg", "total", <<"R">>, 0), Op("R.abs", "total", <<"R">>, 0),
     Op("R.cmp", "total", <<"R", "R">>, 0), Op("R.to_string", "total", <<"R">>, 0), Op("X.canonicalize", "total", <<"X">>, 0),
     Op("R.next_up", "r_farey", <<"R", "Ulim">>, 1), Op("R.next_down", "r_farey", <<"R", "Ulim">>, 1),
     Op("R.nearest", "r_farey", <<"R", "Ulim">>, 1),
     Op("R.simplest_in", "total", <<"R", "R">>, 0), Op("R.simplest_from_f64", "total", <<"D">>, 0),
     Op("R.try_from_f64", "total", <<"D">>, 0), Op("f64.try_from_R", "total", <<"R">>, 0),
     Op("f32.try_from_R", "total", <<"R">>, 0),
     Op("U.try_from_R", "total", <<"R">>, 0), Op("I.try_from_R", "total", <<"R">>, 0),
     Op("R.to_float2", "r_tofloat2", <<"R", "Nprec">>, 0), Op("R.to_float10", "r_tofloat10", <<"R", "Nprec">>, 0),
     Op("R.try_from_F2", "f_total", <<"F2">>, 0), Op("R.simplest_from_F10", "f_total", <<"F10">>, 1) >>

Inventory == IntOps \o FloatOps(2) \o FloatOps(10) \o RatOps

\* cells generated in every tier besides the axis products (witnesses of known findings kept out of the quick axes)
Extras == { <<"R.next_up", <<"1/2", "w">> >>, <<"R.nearest", <<"tiny", "w">> >>, <<"F2.ln", <<"-1@p20">> >>,
            <<"F10.ln_1p", <<"-1@p20">> >>, <<"F2.ln_1p", <<"-1@p1">> >> }
ExtraTuples(op) == {x[2] : x \in {y \in Extras : y[1] = op}}

\* ------------------------------------------------------------------ cells
\* all class tuples of a signature (arity 1..3); the second float operand takes the precision of the first
Tuples(sig, tier) ==
  IF Len(sig) = 1 THEN {<<c1>> : c1 \in ToSet(Cl(sig[1], tier))}
  ELSE IF Len(sig) = 2 THEN {<<c1, c2>> : c1 \in ToSet(Cl(sig[1], tier)), c2 \in ToSet(Cl(sig[2], tier))}
  ELSE {<<c1, c2, c3>> : c1 \in ToSet(Cl(sig[1], tier)), c2 \in ToSet(Cl(sig[2], tier)), c3 \in ToSet(Cl(sig[3], tier))}
ArgsOf(sig, cls) == [i \in 1..Len(sig) |-> Rep(sig[i], cls[i], cls[1])]
CellValid(sig, cls) == \A i \in 1..Len(sig) : ArgValid(ArgsOf(sig, cls)[i])
=============================================================================
