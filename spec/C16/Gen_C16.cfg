SPECIFICATION Spec
INVARIANT Emit
INVARIANT EmitInventory
CONSTANTS
  Tier = "quick"
  Seed = 1
  KeepInt = 20
  KeepFloat = 400
  KeepRatio = 40
  WithStrings = TRUE
CHECK_DEADLOCK FALSE
