------------------------------ MODULE Gen_C16 ------------------------------
(***************************************************************************)
(* Enumerates the C16 lattice: (operation, edge-class tuple) cells of the  *)
(* inventory and (parser, string) cells of the string lattice.             *)
(*  - invariant Classified (MC_C16.cfg): PanicDef is total on the lattice  *)
(*    and MustPanic / Defined / Grey / Excluded never overlap;             *)
(*  - invariant Emit (Gen_C16.cfg): prints one case per cell for the       *)
(*    conformance harness (cells classified "excluded" are not executed).  *)
(* Sampling: the string lattice is thinned by a hash of the slot indices   *)
(* (Keep-th part, offset by Seed); pinned derivations are always kept.     *)
(***************************************************************************)
EXTENDS Lattice16, Json
CONSTANTS Tier,        \* "quick" | "thorough"
          Seed,        \* sampling offset of the string lattice
          KeepInt, KeepFloat, KeepRatio,  \* keep one string cell in K
          WithStrings  \* FALSE: operation cells only (the totality check does not need the string lattice)

S == INSTANCE Strings16

VARIABLES phase, kind, idx, cls, slots
vars == <<phase, kind, idx, cls, slots>>

NOps == Len(Inventory)
StrTargets == [int |-> S!IntTargets, float |-> S!FloatTargets, ratio |-> S!RatioTargets]

Init == /\ phase = "pick" /\ cls = <<>> /\ slots = <<>>
        /\ \/ kind = "op" /\ idx \in 1..NOps
           \/ WithStrings /\ kind = "int" /\ idx \in 1..Len(S!IntTargets)
           \/ WithStrings /\ kind = "float" /\ idx \in 1..Len(S!FloatTargets)
           \/ WithStrings /\ kind = "ratio" /\ idx \in 1..Len(S!RatioTargets)

Hash(sl) == sl[1] * 7 + sl[2] * 31 + sl[3] * 131 + sl[4] * 17 + sl[5] * 211 + sl[6] * 53 + idx * 3 + Seed
\* slot tuple <<sign, prefix, digits, frac, exp, ratio>>; unused slots stay at 1 (= empty choice)
SlotSets(k) ==
  LET sg == 1..Len(S!Signs)  pf == 1..Len(S!Prefixes)  dg == 1..Len(S!Digits)
      fr == 1..Len(S!Fracs)  ex == 1..Len(S!Exps)  ra == 1..Len(S!Ratios)
  IN IF k = "int" THEN {<<a, b, c, 1, e, 1>> : a \in sg, b \in pf, c \in dg, e \in {1, 3, 30}}
     ELSE IF k = "float" THEN {<<a, b, c, d, e, 1>> : a \in 1..4, b \in {1, 2, 5, 6}, c \in dg, d \in fr, e \in ex}
     ELSE {<<a, b, c, 1, 1, f>> : a \in 1..5, b \in 1..5, c \in dg, f \in ra} \cup
          {<<a, 1, c, d, e, f>> : a \in 1..3, c \in {2, 3}, d \in {1, 3}, e \in {1, 3}, f \in {1, 4}}
Keep(k) == IF k = "int" THEN KeepInt ELSE IF k = "float" THEN KeepFloat ELSE KeepRatio
\* always generated: the witnesses of the known parser findings and one plain derivation per grammar
Pinned(k, sl) ==
  \/ k = "float" /\ sl \in {<<1, 1, 3, 3, 8, 1>>, <<3, 1, 3, 3, 8, 1>>, <<1, 1, 3, 3, 3, 1>>, <<1, 2, 3, 3, 16, 1>>}
  \/ k = "ratio" /\ sl \in {<<1, 1, 3, 1, 1, 3>>, <<3, 1, 3, 1, 1, 4>>, <<1, 1, 3, 1, 1, 11>>}
  \/ k = "int" /\ sl \in {<<1, 1, 10, 1, 1, 1>>, <<3, 2, 7, 1, 1, 1>>, <<1, 1, 21, 1, 1, 1>>}

PickOp == /\ phase = "pick" /\ kind = "op"
          /\ cls' \in Tuples(Inventory[idx].sig, Tier) \cup ExtraTuples(Inventory[idx].op)
          /\ CellValid(Inventory[idx].sig, cls')
          /\ phase' = "done"
          /\ UNCHANGED <<kind, idx, slots>>
PickStr == /\ phase = "pick" /\ kind # "op"
           /\ slots' \in SlotSets(kind)
           /\ (Pinned(kind, slots') \/ Hash(slots') % Keep(kind) = 0)
           /\ phase' = "done"
           /\ UNCHANGED <<kind, idx, cls>>
Next == PickOp \/ PickStr
Spec == Init /\ [][Next]_vars

\* ---- the cell of a done state
CurOp == Inventory[idx]
CurArgs == ArgsOf(CurOp.sig, cls)
CurExpect == Expect(CurOp.fam, CurArgs)
StrPieces == S!Signs[slots[1]] \o S!Prefixes[slots[2]] \o S!Digits[slots[3]] \o S!Fracs[slots[4]] \o S!Exps[slots[5]]
             \o S!Ratios[slots[6]]
CurTarget == StrTargets[kind][idx]
StrArgs == IF CurTarget[2] = 0 /\ CurTarget[1] \notin {"I.from_str_radix"} THEN <<[k |-> "S", p |-> StrPieces]>>
           ELSE <<[k |-> "S", p |-> StrPieces], [k |-> "N", v |-> INat(CurTarget[2])]>>

Case ==
  IF kind = "op"
  THEN [op |-> CurOp.op, fam |-> CurOp.fam, cls |-> cls, args |-> CurArgs, exp |-> CurExpect, iso |-> CurOp.iso, src |-> "cell"]
  ELSE [op |-> CurTarget[1], fam |-> "parse", cls |-> slots, args |-> StrArgs, exp |-> "never", iso |-> 1, src |-> "str"]

Classified == (phase = "done" /\ kind = "op") => WellClassified(CurOp.fam, CurArgs)
Emit == (phase = "done" /\ (kind # "op" \/ CurExpect # "excluded")) => PrintT(<<"GEN", ToJson(Case)>>)
\* the operation inventory of the spec, compared with the table compiled into the harness
EmitInventory == (phase = "pick" /\ kind = "op" /\ idx = 1) =>
   PrintT(<<"INV", ToJson([ops |-> [i \in 1..NOps |-> [op |-> Inventory[i].op, arity |-> Len(Inventory[i].sig)]],
                           parsers |-> S!ParseOps])>>)
=============================================================================
