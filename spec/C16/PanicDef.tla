------------------------------ MODULE PanicDef ------------------------------
(***************************************************************************)
(* Definition layer of C16: for one public call (operation name + argument *)
(* values) the verdict the property statement and the library's documented *)
(* preconditions give:                                                     *)
(*   "must"     a documented precondition is violated: the call has to     *)
(*              panic promptly (no value, no Err, no hang, no abort)       *)
(*   "never"    valid arguments, no documented precondition applies: the   *)
(*              call has to return (a value or an Err) promptly            *)
(*   "may"      grey zone the statement does not decide (a panic helper    *)
(*              exists but the precondition is neither in the statement's  *)
(*              list nor in a `# Panics` section; an exact result at       *)
(*              unlimited precision; results within a margin of the        *)
(*              exponent limit): prompt panic or prompt return, never a    *)
(*              hang or an abort                                           *)
(*   "excluded" the mathematical result does not fit memory (outside the   *)
(*              quantifier "... that still fit memory"): not judged        *)
(* Two independently written predicates, MustPanic (the list of documented *)
(* preconditions) and Defined (the mathematical domain on which a result   *)
(* exists), are combined by Expect; MC_C16 checks over the whole edge      *)
(* lattice that they never overlap and that every cell is classified.      *)
(*                                                                         *)
(* Wire values: integers are BigInt records [s, m]; an argument is         *)
(*   [k |-> "U"|"I"|"N"|"P", v |-> int (, t |-> prim type)]               *)
(*   [k |-> "F", b |-> base, sig |-> int, exp |-> int, inf |-> 0|1|-1,     *)
(*    prec |-> int]                                                        *)
(*   [k |-> "R"|"X", num |-> int, den |-> int]     (den = 0 only as a raw  *)
(*    constructor argument)                                                *)
(*   [k |-> "D", c |-> name of an f64 constant]                            *)
(*   [k |-> "S", p |-> pieces]                      (strings: never judged *)
(*    by content)                                                          *)
(***************************************************************************)
EXTENDS FloatDef

\* ------------------------------------------------------------------ integers
IsZ(x) == x.m = <<>>
IsNegI(x) == x.s = 1 /\ x.m # <<>>
IsOneI(x) == x.s = 0 /\ x.m = One
AbsLe1(x) == x.m = <<>> \/ x.m = One
IsEvenI(x) == x.m = <<>> \/ x.m[1] % 2 = 0
INat(n) == IFromNative(n)
Lt2(x) == IsNegI(x) \/ ICmp(x, INat(2)) < 0
InRange(x, lo, hi) == ICmp(x, INat(lo)) >= 0 /\ ICmp(x, INat(hi)) <= 0

ISIZE_MAX == I(0, <<255, 255, 255, 255, 255, 255, 255, 127>>)
ISIZE_MIN == I(1, <<0, 0, 0, 0, 0, 0, 0, 128>>)
USIZE_MAX == I(0, <<255, 255, 255, 255, 255, 255, 255, 255>>)
InIsize(x) == ICmp(x, ISIZE_MIN) >= 0 /\ ICmp(x, ISIZE_MAX) <= 0
\* results of more than 2^33 bits (1 GiB) are outside "still fit memory"
MemBits == I(0, <<0, 0, 0, 0, 2>>)
TooBig(n) == ICmp(n, MemBits) >= 0
\* margin (in digits) around the exponent limit inside which overflow is not decided
Slack == I(0, <<0, 0, 16>>)          \* 2^20
ClearlyOver(e) == ICmp(e, IAdd(ISIZE_MAX, Slack)) > 0 \/ ICmp(e, ISub(ISIZE_MIN, Slack)) < 0

\* ------------------------------------------------------------------ floats
FInf(f) == f.inf # 0
FZero(f) == f.inf = 0 /\ IsZ(f.sig)
FNegF(f) == IF f.inf # 0 THEN f.inf < 0 ELSE IsNegI(f.sig)
FOne(f) == f.inf = 0 /\ IsOneI(f.sig) /\ IsZ(f.exp)
P0(f) == IsZ(f.prec)
\* context of a binary operator: the numerically larger precision (Context::max); unlimited only if both are
BothP0(x, y) == P0(x) /\ P0(y)
PrecSmall(f) == ICmp(f.prec, Slack) < 0
\* number of base-B digits of the significand
FDigits(f) == NDigits(f.b, f.sig.m)
\* position of the leading digit: |x| in [B^(Top-1), B^Top)
FTop(f) == IAdd(f.exp, INat(FDigits(f)))
\* |x| >= B^k  /  |x| < B^(-k)  for a native k >= 0
FAbsGe(f, k) == ~FZero(f) /\ f.inf = 0 /\ ICmp(FTop(f), INat(k)) > 0
FAbsTiny(f, k) == ~FZero(f) /\ f.inf = 0 /\ ICmp(FTop(f), INat(-k)) < 0
\* a huge exponent field: the value cannot be aligned with an ordinary one in memory
FHugeExp(f) == f.inf = 0 /\ ~IsZ(f.sig) /\ (TooBig(f.exp) \/ TooBig(INeg(f.exp)))
FIsInt(f) == f.inf = 0 /\ ~IsNegI(f.exp)
\* x <= -1 (for ln_1p)
FLeMinus1(f) == FNegF(f) /\ f.inf = 0 /\ ICmp(FTop(f), INat(0)) > 0

\* remove from the natural d every prime factor it shares with B
StripBase(d, B) ==
  FoldLeftDomain(LAMBDA acc, i : LET g == Gcd(acc, FromNat(B)) IN IF g = One THEN acc ELSE Div(acc, g),
                 d, Zeros(8 * Len(d) + 2))
\* n / d (d # 0) has a finite base-B expansion
FiniteExpansion(n, d, B) == n = <<>> \/ StripBase(Div(d, Gcd(n, d)), B) = One
\* 1 / |sig| is exact in base B
ExactInverse(f) == StripBase(f.sig.m, f.b) = One

\* ------------------------------------------------------------------ rationals
RZero(r) == IsZ(r.num)
DenZero(r) == IsZ(r.den)

\* ------------------------------------------------------------------ the rules, per family
(* Every rule returns <<MustPanic, Defined, Grey, Excluded>> as a 4-tuple of booleans written
   independently; Expect demands exactly one of them. *)
R4(must, defd, grey, excl) == <<must, defd, grey, excl>>
Total == R4(FALSE, TRUE, FALSE, FALSE)

\* x (div-like) y on integers: documented "divisor must not be 0"
RuleDiv(a) == LET y == a[2].v IN R4(IsZ(y), ~IsZ(y), FALSE, FALSE)
\* UBig - UBig: "UBig result must not be negative"
RuleUSub(a) == LET c == ICmp(a[1].v, a[2].v) IN R4(c < 0, c >= 0, FALSE, FALSE)
\* gcd(0, 0) is documented to panic
RuleGcd(a) == LET z == IsZ(a[1].v) /\ IsZ(a[2].v) IN R4(z, ~z, FALSE, FALSE)
RuleSqrt(a) == R4(IsNegI(a[1].v), ~IsNegI(a[1].v), FALSE, FALSE)
RuleNthRoot(a) ==
  LET x == a[1].v  n == a[2].v
      bad == IsZ(n) \/ (IsNegI(x) /\ IsEvenI(n))
  IN R4(bad, ~IsZ(n) /\ (~IsNegI(x) \/ ~IsEvenI(n)), FALSE, FALSE)
\* ilog: "Panics if the number is 0, or the base is 0 or 1"
RuleIlog(a) == LET bad == IsZ(a[1].v) \/ Lt2(a[2].v) IN R4(bad, ~IsZ(a[1].v) /\ ~Lt2(a[2].v), FALSE, FALSE)
\* x^n: the result has about bits(x) * n bits
RulePow(a) ==
  LET x == a[1].v  n == a[2].v
      big == ~AbsLe1(x) /\ TooBig(n)
  IN R4(FALSE, ~big, FALSE, big)
RuleShl(a) == LET big == ~IsZ(a[1].v) /\ TooBig(a[2].v) IN R4(FALSE, ~big, FALSE, big)
RuleSetBit(a) == LET big == TooBig(a[2].v) IN R4(FALSE, ~big, FALSE, big)
RuleOnes(a) == LET big == TooBig(a[1].v) IN R4(FALSE, ~big, FALSE, big)
\* in_radix / to_string in a radix: "Panics if radix is not between 2 and 36 inclusive"
RuleRadix(a) == LET ok == InRange(a[2].v, 2, 36) IN R4(~ok, ok, FALSE, FALSE)
\* to_chunks / from_chunks: "Panics if chunk_bits is zero"
\* (a chunk size beyond memory may be refused: "try to allocate too much memory" / "out of memory" helpers)
RuleChunks(a) == LET k == a[2].v IN R4(IsZ(k), ~IsZ(k) /\ ~TooBig(k), TooBig(k), FALSE)
\* ConstDivisor::new(0): reduction by zero
RuleRingNew(a) == R4(IsZ(a[1].v), ~IsZ(a[1].v), FALSE, FALSE)
\* ring operations: a[1] modulus (> 0), others operands; nothing documented forbids any of them
RuleRing(a) == R4(FALSE, ~IsZ(a[1].v), FALSE, IsZ(a[1].v))
\* division in the ring by a non-invertible element: helper "Division by a non-invertible Modulo" only
RuleRingDiv(a) ==
  LET m == a[1].v  y == a[3].v
      inv == ~IsZ(m) /\ Gcd(Mod(y.m, m.m), m.m) = One
  IN R4(FALSE, inv, ~IsZ(m) /\ ~inv, IsZ(m))
\* operands of two separately constructed rings (even of equal modulus): helper "Modulo values from different rings" only
RuleRingCross(a) ==
  LET z == IsZ(a[1].v) \/ IsZ(a[2].v) IN R4(FALSE, FALSE, ~z, z)

\* ---- floats
FiniteArgs(a) == \A i \in 1..Len(a) : a[i].k # "F" \/ ~FInf(a[i])
AnyInf(a) == \E i \in 1..Len(a) : a[i].k = "F" /\ FInf(a[i])
\* result exponent e (an integer) of an exact product-like operation, at the operand precisions
OverRule(e, limited) ==
  IF InIsize(e) THEN "fits" ELSE IF limited /\ ClearlyOver(e) THEN "over" ELSE "grey"
Combine(inf, over) ==   \* over in {"fits", "over", "grey"}
  R4(inf \/ over = "over", ~inf /\ over = "fits", ~inf /\ over = "grey", FALSE)

\* comparison, sign manipulation, precision changes: defined on every value including infinities
RuleFTotal(a) == Total
\* + and -: infinities are documented to panic; at unlimited precision the operands are aligned exactly
RuleFAddSub(a) ==
  LET x == a[1]  y == a[2]
      inf == FInf(x) \/ FInf(y)
      gap == ISub(x.exp, y.exp)
      huge == ~inf /\ ~FZero(x) /\ ~FZero(y) /\ BothP0(x, y) /\ (TooBig(gap) \/ TooBig(INeg(gap)))
  IN R4(inf, ~inf /\ ~huge, FALSE, huge)
RuleFMul(a) ==
  LET x == a[1]  y == a[2]
      inf == FInf(x) \/ FInf(y)
      zero == FZero(x) \/ FZero(y)
  IN IF inf \/ zero THEN Combine(inf, "fits")
     ELSE Combine(FALSE, OverRule(IAdd(x.exp, y.exp), ~BothP0(x, y) /\ PrecSmall(x) /\ PrecSmall(y)))
RuleFPowN(a, n) ==     \* sqr (n = 2), cubic (n = 3)
  LET x == a[1] IN
  IF FInf(x) \/ FZero(x) THEN Combine(FInf(x), "fits")
  ELSE Combine(FALSE, OverRule(IMul(x.exp, INat(n)), ~P0(x) /\ PrecSmall(x)))
\* x << n, x >> n  (n: isize)
RuleFShift(a, dir) ==
  LET x == a[1]  n == a[2].v IN
  IF FInf(x) \/ FZero(x) THEN Combine(FInf(x), "fits")
  ELSE Combine(FALSE, OverRule(IF dir > 0 THEN IAdd(x.exp, n) ELSE ISub(x.exp, n), TRUE))
\* x / y: infinities, zero divisor; an inexact quotient at unlimited precision
RuleFDiv(a) ==
  LET x == a[1]  y == a[2]
      inf == FInf(x) \/ FInf(y)
      dz == ~inf /\ FZero(y)
      p0 == BothP0(x, y)
      exact == ~inf /\ ~dz /\ FiniteExpansion(x.sig.m, y.sig.m, x.b)
      hugeexp == ~inf /\ ~dz /\ (FHugeExp(x) \/ FHugeExp(y))
  IN R4(inf \/ dz \/ (~inf /\ ~dz /\ p0 /\ ~exact),
        ~inf /\ ~dz /\ ~p0 /\ ~hugeexp,
        ~inf /\ ~dz /\ ((p0 /\ exact) \/ (~p0 /\ hugeexp)),
        FALSE)
\* 1 / x
RuleFInv(a) ==
  LET x == a[1]
      bad == FInf(x) \/ FZero(x)
      exact == ~bad /\ ExactInverse(x)
  IN R4(bad \/ (~bad /\ P0(x) /\ ~exact), ~bad /\ ~P0(x) /\ ~FHugeExp(x),
        ~bad /\ ((P0(x) /\ exact) \/ (~P0(x) /\ FHugeExp(x))), FALSE)
\* x % y, div_euclid, rem_euclid, div_rem_euclid: exact operations; operands are aligned to integers
RuleFRem(a) ==
  LET x == a[1]  y == a[2]
      inf == FInf(x) \/ FInf(y)
      dz == ~inf /\ FZero(y)
      gap == ISub(x.exp, y.exp)
      huge == ~inf /\ ~dz /\ ~FZero(x) /\ (TooBig(gap) \/ TooBig(INeg(gap)))
  IN R4(inf \/ dz, ~inf /\ ~dz /\ ~huge, FALSE, huge)
\* sqrt: "Panics if the precision is unlimited"; negative radicand: "the root is a complex number"
RuleFSqrt(a) ==
  LET x == a[1]
      neg == ~FInf(x) /\ FNegF(x) /\ ~FZero(x)
      ok == ~FInf(x) /\ ~neg /\ ~P0(x)
  IN R4(FInf(x) \/ neg \/ P0(x), ok /\ ~FHugeExp(x), ok /\ FHugeExp(x), FALSE)
\* exp, exp_m1: irrational for every x # 0; the result exponent is about x / ln B
RuleFExp(a, m1) ==
  LET x == a[1]
      inf == FInf(x)
      zero == FZero(x)
      big == ~inf /\ FAbsGe(x, IF x.b = 2 THEN 70 ELSE 22)       \* |x| >= 2^70: the result exponent cannot fit
      biggish == ~inf /\ ~big /\ FAbsGe(x, IF x.b = 2 THEN 60 ELSE 17)
      over == big /\ (~m1 \/ ~FNegF(x))                           \* exp_m1(-huge) = -1 + tiny is representable
      tinyhuge == ~inf /\ ~big /\ FHugeExp(x)                      \* |x| < B^(-2^33): aligning it may be refused
  IN R4(inf \/ (~inf /\ ~zero /\ P0(x)) \/ (~P0(x) /\ over),
        ~inf /\ ~P0(x) /\ ~big /\ ~biggish /\ ~tinyhuge,
        ~inf /\ ((P0(x) /\ zero) \/ (~P0(x) /\ (biggish \/ tinyhuge \/ (big /\ ~over)))),
        FALSE)
\* ln (one_plus = FALSE), ln_1p (one_plus = TRUE): "logarithm on zero panics", negative arguments have no logarithm
RuleFLn(a, onep) ==
  LET x == a[1]
      inf == FInf(x)
      dom == ~inf /\ (IF onep THEN ~FLeMinus1(x) ELSE ~FZero(x) /\ ~FNegF(x))   \* mathematical domain
      trivial == IF onep THEN FZero(x) ELSE FOne(x)                             \* exact result 0
  IN R4(inf \/ (~inf /\ ~dom) \/ (dom /\ P0(x) /\ ~trivial),
        dom /\ ~P0(x) /\ ~FHugeExp(x),
        dom /\ ((P0(x) /\ trivial) \/ (~P0(x) /\ FHugeExp(x))),
        FALSE)
\* powi(x, n), n an integer: "Panics if the precision is unlimited and the exponent is negative"
RuleFPowi(a) ==
  LET x == a[1]  n == a[2].v
      inf == FInf(x)
      neg == IsNegI(n)
      zinv == ~inf /\ FZero(x) /\ neg                                  \* 0^(-n): division by zero
      lim == ~P0(x)
      \* magnitude of the result exponent: n * (position of the leading digit), n * exponent for a unit significand
      unit == ~inf /\ x.sig.m = One
      e == IF inf \/ FZero(x) THEN IZero ELSE IF unit THEN IMul(x.exp, n) ELSE IMul(FTop(x), n)
      ov == IF inf \/ FZero(x) \/ IsZ(n) THEN "fits"
            ELSE IF unit THEN OverRule(e, TRUE)
            ELSE IF InIsize(IMul(IAdd(IAbs(FTop(x)), INat(2)), IMul(n, INat(2)))) THEN "fits" ELSE "grey"
      \* a significand other than +-1 raised to a huge power at unlimited precision does not fit memory
      excl == ~inf /\ ~FZero(x) /\ ~unit /\ P0(x) /\ ~neg /\ TooBig(n)
      p0neg == ~inf /\ ~FZero(x) /\ P0(x) /\ neg
  IN IF excl THEN R4(FALSE, FALSE, FALSE, TRUE)
     ELSE R4(inf \/ zinv \/ (p0neg /\ ~ExactInverse(x)) \/ (~p0neg /\ ~zinv /\ ov = "over"),
             ~inf /\ ~zinv /\ ~p0neg /\ ov = "fits",
             ~inf /\ ~zinv /\ ((p0neg /\ ExactInverse(x)) \/ (~p0neg /\ ov = "grey")),
             FALSE)
\* powf(x, y): "Panics if the precision is unlimited"; infinities; a negative base has only a helper message
RuleFPowf(a) ==
  LET x == a[1]  y == a[2]
      inf == FInf(x) \/ FInf(y)
      p0 == BothP0(x, y)
      negb == ~inf /\ FNegF(x) /\ ~FZero(x) /\ ~FZero(y) /\ ~FOne(y)
      zneg == ~inf /\ FZero(x) /\ FNegF(y)                              \* 0^(negative): not decided by the statement
      \* |y * ln x| large: the result exponent may not fit
      risky == ~inf /\ ~FZero(x) /\ ~FZero(y) /\ (FAbsGe(y, IF y.b = 2 THEN 40 ELSE 12) \/ FHugeExp(x) \/ FHugeExp(y)
                \/ FAbsGe(x, IF x.b = 2 THEN 1000 ELSE 300) \/ FAbsTiny(x, IF x.b = 2 THEN 1000 ELSE 300))
  IN R4(inf \/ p0, ~inf /\ ~p0 /\ ~negb /\ ~zneg /\ ~risky, ~inf /\ ~p0 /\ (negb \/ zneg \/ risky), FALSE)
\* trunc / fract / ceil / floor / round / split_at_point / to_int: "Panics if the number is infinite";
\* a huge positive exponent makes the integer itself too large for memory (to_int) - excluded there
RuleFRound(a, makesInt) ==
  LET x == a[1]
      big == makesInt /\ ~FInf(x) /\ ~FZero(x) /\ TooBig(x.exp)
  IN R4(FInf(x), ~FInf(x) /\ ~big, FALSE, big)
\* with_precision: rounding an infinity is not decided ("only equality test and comparison are implemented")
RuleFWithPrec(a) == LET x == a[1] IN R4(FALSE, ~FInf(x), FInf(x), FALSE)
\* split_at_point has no `# Panics` section of its own (trunc and fract have)
RuleFSplit(a) == LET x == a[1] IN R4(FALSE, ~FInf(x), FInf(x), FALSE)
\* ulp: "Panics if the precision of the number is 0 (unlimited)"
\* (the ulp of an infinity is not decided; the exponent of the result is exp + digits - precision)
RuleFUlp(a) ==
  LET x == a[1]
      fin == ~P0(x) /\ ~FInf(x) /\ ~FZero(x)
      ov == IF ~fin THEN "fits" ELSE IF FHugeExp(x) THEN "grey"
            ELSE OverRule(ISub(IAdd(x.exp, INat(FDigits(x))), x.prec), TRUE)
  IN R4(P0(x) \/ ov = "over", ~P0(x) /\ ~FInf(x) /\ ov = "fits", (~P0(x) /\ FInf(x)) \/ ov = "grey", FALSE)
\* base conversion (to_decimal / to_binary): "Panics if the associated context has unlimited precision and the
\* conversion cannot be performed losslessly"; infinities map to infinities
RuleFBase(a) ==
  LET x == a[1]
      \* base 2 -> 10 is always lossless (2 divides 10); base 10 -> 2 is lossless iff the value is an integer or
      \* sig / 10^(-exp) has a finite binary expansion.  with_base_and_precision additionally documents that
      \* "conversion for float numbers with unlimited precision is only allowed" for infinities and bases that
      \* are powers of each other, so a lossless conversion at unlimited precision is not decided (grey).
      smallexp == Len(x.exp.m) <= 2
      lossy == ~FInf(x) /\ ~FZero(x) /\ x.b = 10 /\ IsNegI(x.exp) /\ smallexp
               /\ ~FiniteExpansion(x.sig.m, Pow(FromNat(10), ToNat(x.exp.m)), 2)
      huge == ~FInf(x) /\ FHugeExp(x)
      p0 == P0(x) /\ ~FInf(x)
  IN R4(~huge /\ p0 /\ lossy, ~huge /\ ~p0, ~huge /\ p0 /\ ~lossy, huge)
\* Display / Debug: the decimal expansion of a huge exponent does not fit memory
RuleFFmt(a) == LET x == a[1] IN R4(FALSE, ~FHugeExp(x), FALSE, FHugeExp(x))

\* ---- rationals
RuleRParts(a) == R4(IsZ(a[2].v), ~IsZ(a[2].v), FALSE, FALSE)
RuleRDiv(a) == LET z == RZero(a[2]) IN R4(z, ~z, FALSE, FALSE)
RuleRDivInt(a) == LET z == IsZ(a[2].v) IN R4(z, ~z, FALSE, FALSE)
RuleRInv(a) == R4(RZero(a[1]), ~RZero(a[1]), FALSE, FALSE)
RuleRPow(a) ==
  LET r == a[1]  n == a[2].v
      unitish == AbsLe1(r.num) /\ r.den = INat(1)
      big == ~unitish /\ TooBig(n)
  IN R4(FALSE, ~big, FALSE, big)
\* next_up / next_down / nearest(limit): limit = 0 has a panic helper only
RuleRFarey(a) == LET z == IsZ(a[2].v) IN R4(FALSE, ~z, z, FALSE)
\* to_float(precision): an exact quotient at precision 0 is not decided
RuleRToFloat(a, B) ==
  LET r == a[1]  p == a[2].v
      exact == FiniteExpansion(r.num.m, r.den.m, B)
  IN R4(IsZ(p) /\ ~exact, ~IsZ(p), IsZ(p) /\ exact, FALSE)

\* The series evaluations and divisions align their operands digit by digit: for an operand whose exponent field
\* is beyond 2^33 in magnitude the intermediate values do not fit memory ("exponents that still fit memory"),
\* these cells are not judged.  Infinities are decided first (the infinity check precedes everything).
AnyHugeExp(a) == \E i \in 1..Len(a) : a[i].k = "F" /\ FHugeExp(a[i])
Excl == R4(FALSE, FALSE, FALSE, TRUE)
Heavy(fam) == fam \in {"f_div", "f_inv", "f_sqrt", "f_exp", "f_expm1", "f_ln", "f_ln1p", "f_powf"}

\* ------------------------------------------------------------------ dispatch by family
Rule(fam, a) ==
  CASE Heavy(fam) /\ ~AnyInf(a) /\ AnyHugeExp(a) -> Excl
    [] fam = "total" -> Total
    [] fam = "parse" -> Total              \* parsers: Err or Ok, never a panic, whatever the string
    [] fam = "div" -> RuleDiv(a)
    [] fam = "usub" -> RuleUSub(a)
    [] fam = "gcd" -> RuleGcd(a)
    [] fam = "sqrt" -> RuleSqrt(a)
    [] fam = "nth_root" -> RuleNthRoot(a)
    [] fam = "ilog" -> RuleIlog(a)
    [] fam = "pow" -> RulePow(a)
    [] fam = "shl" -> RuleShl(a)
    [] fam = "set_bit" -> RuleSetBit(a)
    [] fam = "ones" -> RuleOnes(a)
    [] fam = "radix" -> RuleRadix(a)
    [] fam = "chunks" -> RuleChunks(a)
    [] fam = "ring_new" -> RuleRingNew(a)
    [] fam = "ring" -> RuleRing(a)
    [] fam = "ring_div" -> RuleRingDiv(a)
    [] fam = "ring_cross" -> RuleRingCross(a)
    [] fam = "f_total" -> RuleFTotal(a)
    [] fam = "f_addsub" -> RuleFAddSub(a)
    [] fam = "f_mul" -> RuleFMul(a)
    [] fam = "f_sqr" -> RuleFPowN(a, 2)
    [] fam = "f_cubic" -> RuleFPowN(a, 3)
    [] fam = "f_shl" -> RuleFShift(a, 1)
    [] fam = "f_shr" -> RuleFShift(a, -1)
    [] fam = "f_div" -> RuleFDiv(a)
    [] fam = "f_inv" -> RuleFInv(a)
    [] fam = "f_rem" -> RuleFRem(a)
    [] fam = "f_sqrt" -> RuleFSqrt(a)
    [] fam = "f_exp" -> RuleFExp(a, FALSE)
    [] fam = "f_expm1" -> RuleFExp(a, TRUE)
    [] fam = "f_ln" -> RuleFLn(a, FALSE)
    [] fam = "f_ln1p" -> RuleFLn(a, TRUE)
    [] fam = "f_powi" -> RuleFPowi(a)
    [] fam = "f_powf" -> RuleFPowf(a)
    [] fam = "f_round" -> RuleFRound(a, FALSE)
    [] fam = "f_toint" -> RuleFRound(a, TRUE)
    [] fam = "f_ulp" -> RuleFUlp(a)
    [] fam = "f_withprec" -> RuleFWithPrec(a)
    [] fam = "f_split" -> RuleFSplit(a)
    [] fam = "f_base" -> RuleFBase(a)
    [] fam = "f_fmt" -> RuleFFmt(a)
    [] fam = "r_parts" -> RuleRParts(a)
    [] fam = "r_div" -> RuleRDiv(a)
    [] fam = "r_divint" -> RuleRDivInt(a)
    [] fam = "r_inv" -> RuleRInv(a)
    [] fam = "r_pow" -> RuleRPow(a)
    [] fam = "r_farey" -> RuleRFarey(a)
    [] fam = "r_tofloat2" -> RuleRToFloat(a, 2)
    [] fam = "r_tofloat10" -> RuleRToFloat(a, 10)

Count4(r) == (IF r[1] THEN 1 ELSE 0) + (IF r[2] THEN 1 ELSE 0) + (IF r[3] THEN 1 ELSE 0) + (IF r[4] THEN 1 ELSE 0)
\* the classification is a partition: exactly one of MustPanic / Defined / Grey / Excluded
WellClassified(fam, a) == Count4(Rule(fam, a)) = 1
Expect(fam, a) ==
  LET r == Rule(fam, a) IN
  IF r[4] THEN "excluded" ELSE IF r[1] THEN "must" ELSE IF r[2] THEN "never" ELSE IF r[3] THEN "may" ELSE "unclassified"

\* ------------------------------------------------------------------ verdict on one observed outcome
\* out.k in {"ok", "err", "panic", "timeout", "abort"}
Why(exp, out) ==
  IF exp = "excluded" THEN ""
  ELSE IF exp = "unclassified" THEN "spec-not-total"
  ELSE IF out.k = "timeout" THEN "hang"
  ELSE IF out.k = "abort" THEN "abort-or-out-of-memory"
  ELSE IF exp = "must" THEN (IF out.k = "panic" THEN "" ELSE "no-panic-under-documented-precondition")
  ELSE IF exp = "never" THEN (IF out.k \in {"ok", "err"} THEN "" ELSE "undocumented-panic")
  ELSE IF out.k \in {"ok", "err", "panic"} THEN "" ELSE "bad-outcome-kind"
=============================================================================
