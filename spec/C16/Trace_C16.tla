----------------------------- MODULE Trace_C16 -----------------------------
(***************************************************************************)
(* Trace monitor of C16.  Every recorded call (one event = one public call *)
(* executed in a watchdog-supervised process, debug or release build) is   *)
(* judged by PanicDef on the argument values recorded in the event:        *)
(*   MustPanic  => the outcome is a prompt panic                           *)
(*   Defined    => the outcome is a value or an Err                        *)
(*   grey       => anything but a hang or an abort                         *)
(* The rule family is looked up in the spec's own inventory by operation   *)
(* name; nothing the harness writes besides op / args / out is believed.   *)
(* The monitor never blocks: failing events are collected in `bad`.        *)
(***************************************************************************)
EXTENDS Lattice16, Json, IOUtils
S == INSTANCE Strings16
Rec == ndJsonDeserialize(IOEnv.TRACE)

OpIndex == [o \in {Inventory[i].op : i \in 1..Len(Inventory)} |-> CHOOSE i \in 1..Len(Inventory) : Inventory[i].op = o]
FamOf(op) == IF op \in S!ParseOps THEN "parse"
             ELSE IF op \in DOMAIN OpIndex THEN Inventory[OpIndex[op]].fam ELSE "unknown-op"
ArityOK(op, a) == op \in S!ParseOps \/ (op \in DOMAIN OpIndex /\ Len(a) = Len(Inventory[OpIndex[op]].sig))

ExpectOf(e) == LET f == FamOf(e.op) IN
  IF f = "unknown-op" \/ ~ArityOK(e.op, e.args) THEN "malformed" ELSE Expect(f, e.args)
WhyX(e, x) ==
  IF x = "malformed" THEN "malformed-event"
  ELSE IF e.out.k \notin {"ok", "err", "panic", "timeout", "abort"} THEN "malformed-outcome"
  ELSE Why(x, e.out)

VARIABLES l, bad, cnt
Init == l = 1 /\ bad = <<>> /\ cnt = [must |-> 0, never |-> 0, may |-> 0, excluded |-> 0, malformed |-> 0, unclassified |-> 0]
Next == /\ l <= Len(Rec)
        /\ LET e == Rec[l]
               x == ExpectOf(e)
               w == WhyX(e, x)
           IN /\ bad' = IF w = "" THEN bad ELSE Append(bad, [i |-> l, why |-> w])
              /\ cnt' = [cnt EXCEPT ![x] = @ + 1]
        /\ l' = l + 1
Spec == Init /\ [][Next]_<<l, bad, cnt>>
Verdict == l > Len(Rec) => PrintT(<<"VERDICT", ToJson([total |-> Len(Rec), bad |-> bad, classes |-> cnt])>>)
Complete == IF TLCGet("stats").diameter - 1 = Len(Rec) THEN TRUE
            ELSE PrintT(<<"TRUNCATED", TLCGet("stats").diameter>>) /\ FALSE
=============================================================================
