SPECIFICATION Spec
CONSTANTS
  Stride = 1
CHECK_DEADLOCK FALSE
