------------------------------- MODULE Log2Fp8 -------------------------------
(* The integer functions of the table-driven log2 estimator of base/src/math/log.rs (no_std
   builds), transcribed branch by branch: LOG2_TAB, log2_fp8, ceil_log2_fp8 and the result of the
   u8 / u16 wrappers as exact fractions.  Pure operators (no variables): model-checked in
   Log2Table, compared with the recorded no_std outputs in Trace_C12 (DRIFT, never a verdict). *)
EXTENDS Integers

Tab == << 0, 2, 5, 8, 11, 14, 16, 19, 22, 25, 27, 30, 33, 35, 38, 40, 43, 46, 48, 51, 53, 56, 58, 61, 63, 65,
          68, 70, 73, 75, 77, 80, 82, 84, 87, 89, 91, 93, 96, 98, 100, 102, 104, 106, 109, 111, 113, 115, 117,
          119, 121, 123, 125, 127, 129, 132, 134, 136, 138, 140, 141, 143, 145, 147, 149, 151, 153, 155, 157,
          159, 161, 162, 164, 166, 168, 170, 172, 173, 175, 177, 179, 181, 182, 184, 186, 188, 189, 191, 193,
          194, 196, 198, 200, 201, 203, 205, 206, 208, 209, 211, 213, 214, 216, 218, 219, 221, 222, 224, 225,
          227, 229, 230, 232, 233, 235, 236, 238, 239, 241, 242, 244, 245, 247, 248, 250, 251, 253, 254 >>
T(i) == Tab[i + 1]                       \* LOG2_TAB[i]
P2(k) == 2 ^ k
NShr(n, k) == n \div P2(k)
NBits(n) == IF n = 0 THEN 0 ELSE CHOOSE k \in 1..17 : P2(k - 1) <= n /\ n < P2(k)
IsPow2(n) == n > 0 /\ n = P2(NBits(n) - 1)
B01(c) == IF c THEN 1 ELSE 0

\* const fn log2_fp8(n: u16) -> u16       (requires n > 0xff)
Log2Fp8(n) ==
  LET nbits == NBits(n) IN
  IF n < 512 THEN
    LET lookup == T(NShr(n, 1) - 128)
        est == lookup + (7 + 1) * 256
    IN est + B01(n < 354 /\ n % 2 = 1)
  ELSE IF n < 16384 + 128 THEN
    LET shift == nbits - 8
        mask == NShr(n, shift - 2)
        lookup == T(NShr(mask, 2) - 128)
        est == lookup + (7 + shift) * 256
    IN est + B01(mask % 4 = 3)
  ELSE
    LET shift == nbits - 8
        mask == NShr(n, shift - 7)
        topest == T(NShr(mask, 7) - 128)
        est == topest + (7 + shift) * 256
    IN est + B01(mask % 128 >= 80)

\* const fn ceil_log2_fp8(n: u16) -> u16  (requires n > 0xff, not a power of two)
CeilLog2Fp8(n) ==
  LET nbits == NBits(n) IN
  IF n < 128 THEN
    LET shift == 8 - nbits
        topest == T(n * P2(shift) - 128)
    IN topest + (7 - shift) * 256 + 1
  ELSE IF n < 512 THEN
    LET shift == nbits - 8
        topest == T(NShr(n, shift) - 128)
        est == topest + (7 + shift) * 256 + 1
    IN IF n > 256 /\ n % 2 = 1 THEN est + 2 ELSE est
  ELSE
    LET shift == nbits - 8
        mask10 == NShr(n, shift - 2)
        mask8 == NShr(mask10, 2)
    IN IF mask8 = 255 THEN 256 + (7 + shift) * 256
       ELSE LET topest == T(mask8 + 1 - 128)
                est == topest + (7 + shift) * 256 + 1
            IN est - B01(mask10 % 4 = 0)

\* impl EstimatedLog2 for u8 / u16 (no_std), n in 1..65535 except 3: <<lb numerator, ub numerator, denominator>>
WrapperFraction(n) ==
  IF n = 1 THEN <<0, 0, 1>>
  ELSE IF IsPow2(n) THEN <<NBits(n) - 1, NBits(n) - 1, 1>>
  ELSE IF n < 16 THEN LET p == n * n * n * n IN <<Log2Fp8(p), CeilLog2Fp8(p), 1024>>
  ELSE IF n < 256 THEN LET p == n * n IN <<Log2Fp8(p), CeilLog2Fp8(p), 512>>
  ELSE <<Log2Fp8(n), CeilLog2Fp8(n), 256>>
=============================================================================
