----------------------------- MODULE Trace_C12 -----------------------------
(* Trace monitor for C12: every recorded call of gcd / gcd_ext / sqrt / sqrt_rem / cbrt / cbrt_rem /
   nth_root / ilog / remove / log2_bounds, in every call form, is checked against NumTheoryDef.
   The monitor never blocks: a failing event is recorded in `bad` and validation continues.
   log2 bounds that the enclosure cannot separate from the true logarithm are counted in `und`
   (accepted, reported in the verdict). *)
EXTENDS NumTheoryDef, Log2Fp8, Json, IOUtils
Rec == ndJsonDeserialize(IOEnv.TRACE)

Has(r, f) == f \in DOMAIN r
\* first non-empty verdict of F over a sequence of form groups
FirstBad(seq, F(_)) == FoldLeft(LAMBDA acc, x : IF acc # "" THEN acc ELSE F(x), "", seq)
AllPanic(seq) == \A i \in 1..Len(seq) : seq[i].out.k = "panic"
Pre(p, w) == IF w = "" THEN "" ELSE p \o w
OkGroups(seq) == {seq[i] : i \in {j \in 1..Len(seq) : seq[j].out.k = "ok"}}

\* ------------------------------------------------------------------ big-number events
GcdEv(e) ==
  IF ~(IsInt(e.a) /\ IsInt(e.b)) THEN "malformed-operand"
  ELSE IF BothZero(e.a, e.b) THEN (IF AllPanic(e.outs) /\ AllPanic(e.ext) THEN "" ELSE "no-panic-on-gcd-0-0")
  ELSE LET hints == {[s |-> o.out.v.s, t |-> o.out.v.t] : o \in OkGroups(e.ext)}
           w1 == FirstBad(e.outs, LAMBDA o : IF o.out.k # "ok" THEN "unexpected-panic"
                                             ELSE GcdWhy(e.a, e.b, o.out.v.g, hints))
       IN IF w1 # "" THEN w1
          ELSE Pre("ext:", FirstBad(e.ext, LAMBDA o : IF o.out.k # "ok" THEN "unexpected-panic"
                                                      ELSE GcdExtWhy(e.a, e.b, o.out.v.g, o.out.v.s, o.out.v.t)))

RootEv(e) ==
  IF ~IsInt(e.x) THEN "malformed-operand"
  ELSE IF RootMustPanic(e.x, e.n) THEN (IF AllPanic(e.outs) /\ AllPanic(e.rem) THEN "" ELSE "no-panic-on-invalid-root")
  ELSE LET w1 == FirstBad(e.outs, LAMBDA o : IF o.out.k # "ok" THEN "unexpected-panic" ELSE RootWhy(e.x, e.n, o.out.v.s))
       IN IF w1 # "" THEN w1
          ELSE Pre("rem:", FirstBad(e.rem, LAMBDA o :
                   IF o.out.k # "ok" THEN "unexpected-panic"
                   ELSE LET w == RootWhy(e.x, e.n, o.out.v.s) IN
                        IF w # "" THEN w ELSE RemWhy(e.x, e.n, o.out.v.s, o.out.v.r)))

IlogEv(e) ==
  IF ~(IsInt(e.x) /\ IsInt(e.b)) THEN "malformed-operand"
  ELSE IF IlogMustPanic(e.x, e.b) THEN (IF AllPanic(e.outs) THEN "" ELSE "no-panic-on-invalid-log")
  ELSE FirstBad(e.outs, LAMBDA o : IF o.out.k # "ok" THEN "unexpected-panic" ELSE IlogWhy(e.x, e.b, o.out.v.e))

RemoveEv(e) ==
  IF ~(IsInt(e.x) /\ IsInt(e.f)) THEN "malformed-operand"
  ELSE FirstBad(e.outs, LAMBDA o :
         IF o.out.k # "ok" THEN "unexpected-panic"
         ELSE IF RemoveDegenerate(e.x, e.f) THEN ""           \* no power to strip: any non-panicking answer
         ELSE IF o.out.v.some # 1 THEN "remove-returned-none"
         ELSE RemoveWhy(e.x, e.f, o.out.v.k, o.out.v.y))

\* ------------------------------------------------------------------ log2_bounds
(* the argument as [cls, N, D]: |x| = N / D for cls = "fin" *)
Log2Arg(e) ==
  CASE e.kind = "int" -> [cls |-> IF e.x.m = <<>> THEN "zero" ELSE "fin", N |-> e.x.m, D |-> One]
    [] e.kind \in {"f32", "f64"} ->
         LET d == IF e.kind = "f32" THEN DecodeF32(e.bits) ELSE DecodeF64(e.bits) IN
         [cls |-> d.cls, N |-> IF d.e >= 0 THEN Shl(d.m, d.e) ELSE d.m, D |-> IF d.e >= 0 THEN One ELSE PowerOfTwo(-d.e)]
    [] e.kind = "fbig" ->
         [cls |-> IF e.sig.m = <<>> THEN "zero" ELSE "fin",
          N |-> IF e.exp >= 0 THEN Mul(e.sig.m, Pow(FromNat(e.base), e.exp)) ELSE e.sig.m,
          D |-> IF e.exp >= 0 THEN One ELSE Pow(FromNat(e.base), -e.exp)]
    [] e.kind = "rbig" -> [cls |-> IF e.num.m = <<>> THEN "zero" ELSE "fin", N |-> e.num.m, D |-> e.den.m]

\* <<why, undecided, checked>> for one group of forms; en: enclosure of log2 |x| (used for finite non-zero x only)
GroupBounds(o) == <<DecodeF32(o.out.v.lb), DecodeF32(o.out.v.ub)>>
WellFormed(o) == o.out.k # "ok" \/ (IsField16(o.out.v.lb, 2) /\ IsField16(o.out.v.ub, 2))
Log2Group(arg, en, o) ==
  IF o.out.k # "ok" THEN <<IF arg.cls \in {"zero", "nan"} THEN "" ELSE "unexpected-panic", 0, 0>>
  ELSE IF ~WellFormed(o) THEN <<"malformed-bounds", 0, 0>>
  ELSE LET dl == GroupBounds(o)[1]
           du == GroupBounds(o)[2]
       IN CASE arg.cls = "nan" -> <<"", 0, 0>>
            [] arg.cls = "zero" -> <<IF dl.cls = "inf" /\ dl.neg = 1 /\ du.cls # "nan" THEN "" ELSE "log2-of-zero-not-minus-infinity", 0, 0>>
            [] arg.cls = "inf" -> <<IF du.cls = "inf" /\ du.neg = 0 /\ dl.cls # "nan" THEN "" ELSE "log2-of-infinity-not-infinity", 0, 0>>
            [] OTHER -> LET r == BoundsVsEncl(en, dl, du) IN <<r[1], r[2], 2>>
\* one enclosure per event, precise enough for the finest bound reported by any form
Log2Groups(arg, seq) ==
  LET J == FoldLeft(LAMBDA acc, o : IF o.out.k = "ok" /\ WellFormed(o)
                                    THEN Max2(acc, EnclBits(GroupBounds(o)[1], GroupBounds(o)[2])) ELSE acc, 12, seq)
      en == IF arg.cls = "fin" THEN Log2Encl(arg.N, arg.D, J) ELSE [k |-> 0, a |-> <<>>, j |-> 0, w |-> 0]
  IN FoldLeft(LAMBDA acc, o : LET r == Log2Group(arg, en, o) IN
                              <<IF acc[1] # "" THEN acc[1] ELSE r[1], acc[2] + r[2], acc[3] + r[3]>>,
              <<"", 0, 0>>, seq)
Log2Ev(e) ==
  IF e.kind = "rbig" /\ e.den.m = <<>> THEN <<"malformed-operand", 0, 0>>
  ELSE Log2Groups(Log2Arg(e), e.outs)

\* ------------------------------------------------------------------ exhaustive primitive events (native integers)
CAP == 70000
SatMul(a, b) == IF a = 0 \/ b = 0 THEN 0 ELSE IF b > CAP \div a THEN CAP ELSE IF a * b > CAP THEN CAP ELSE a * b
SatPow(b, k) == IF b < 0 THEN CAP ELSE IF b >= 2 /\ k >= 17 THEN CAP
                ELSE FoldLeftDomain(LAMBDA acc, i : SatMul(acc, IF b > CAP THEN CAP ELSE b), 1, Zeros(Min2(k, 17)))
NGcd(a, b) == FoldLeftDomain(LAMBDA acc, i : IF acc[2] = 0 THEN acc ELSE <<acc[2], acc[1] % acc[2]>>, <<a, b>>, Zeros(30))[1]

PRootWhy(n, k, s) ==
  IF s < 0 THEN "prim-root-negative"
  ELSE IF SatPow(s, k) > n THEN "prim-root-too-large"
  ELSE IF SatPow(s + 1, k) <= n THEN "prim-root-too-small"
  ELSE ""
PRootGroups(n, k, seq) ==
  FirstBad(seq, LAMBDA o : IF o.out.k # "ok" THEN "prim-unexpected-panic" ELSE PRootWhy(n, k, o.out.v.s))
PRemGroups(n, k, seq) ==
  FirstBad(seq, LAMBDA o : IF o.out.k # "ok" THEN "prim-unexpected-panic"
                           ELSE LET w == PRootWhy(n, k, o.out.v.s) IN
                                IF w # "" THEN w ELSE IF o.out.v.r = n - SatPow(o.out.v.s, k) THEN "" ELSE "prim-remainder-wrong")
PIlogWhy(n, b, seq) ==
  IF n = 0 \/ b < 2 THEN (IF AllPanic(seq) THEN "" ELSE "prim-no-panic-on-invalid-log")
  ELSE FirstBad(seq, LAMBDA o : IF o.out.k # "ok" THEN "prim-unexpected-panic"
                                ELSE LET ee == o.out.v.e IN
                                     IF ee < 0 \/ ee > 16 \/ SatPow(b, ee) > n THEN "prim-ilog-too-large"
                                     ELSE IF SatPow(b, ee + 1) <= n THEN "prim-ilog-too-small" ELSE "")
PGcdWhy(n, m, outs, ext) ==
  IF n = 0 /\ m = 0 THEN (IF AllPanic(outs) /\ AllPanic(ext) THEN "" ELSE "prim-no-panic-on-gcd-0-0")
  ELSE LET g0 == NGcd(n, m)
           w1 == FirstBad(outs, LAMBDA o : IF o.out.k # "ok" THEN "prim-unexpected-panic"
                                           ELSE IF o.out.v.g = g0 THEN "" ELSE "prim-gcd-wrong")
       IN IF w1 # "" THEN w1
          ELSE FirstBad(ext, LAMBDA o :
                 IF o.out.k # "ok" THEN "prim-ext-unexpected-panic"
                 ELSE IF o.out.v.g # g0 THEN "prim-ext-gcd-wrong"
                 ELSE IF IEq(IAdd(IMul(IFromNative(o.out.v.s), IFromNative(n)), IMul(IFromNative(o.out.v.t), IFromNative(m))),
                             IFromNative(g0)) THEN "" ELSE "prim-bezout-identity-fails")
\* DRIFT (not a verdict): the no_std outputs of the u16 form differ from the transcribed estimator
HasForm(o, f) == \E i \in 1..Len(o.forms) : o.forms[i] = f
Log2Drift(e) ==
  IF e.build # "nostd" \/ e.n \in {0, 3} THEN 0
  ELSE LET fr == WrapperFraction(e.n)
           Q1(num) == Q(IFromNative(num), FromNat(fr[3]))
       IN IF \A i \in 1..Len(e.log2) :
               LET o == e.log2[i] IN
               HasForm(o, "u16") => (o.out.k = "ok" /\ QEq(FloatQ(DecodeF32(o.out.v.lb)), Q1(fr[1]))
                                                   /\ QEq(FloatQ(DecodeF32(o.out.v.ub)), Q1(fr[2])))
          THEN 0 ELSE 1
PrimEv(e) ==
  LET n == e.n
      arg == [cls |-> IF n = 0 THEN "zero" ELSE "fin", N |-> FromNat(n), D |-> One]
      lg == Log2Groups(arg, e.log2)
      w == IF e.only # "all" THEN ""
           ELSE LET w1 == Pre("sqrt:", PRootGroups(n, 2, e.sqrt))
                    w2 == Pre("sqrt_rem:", PRemGroups(n, 2, e.sqrt_rem))
                    w3 == Pre("cbrt:", PRootGroups(n, 3, e.cbrt))
                    w4 == Pre("cbrt_rem:", PRemGroups(n, 3, e.cbrt_rem))
                    w5 == FirstBad(e.nth, LAMBDA r : IF r.k = 0 THEN (IF AllPanic(r.outs) THEN "" ELSE "prim-no-panic-on-zeroth-root")
                                                     ELSE Pre("nth:", PRootGroups(n, r.k, r.outs)))
                    w6 == FirstBad(e.ilog, LAMBDA r : PIlogWhy(n, r.b, r.outs))
                    w7 == FirstBad(e.gcd, LAMBDA r : PGcdWhy(n, r.m, r.outs, r.ext))
                IN IF w1 # "" THEN w1 ELSE IF w2 # "" THEN w2 ELSE IF w3 # "" THEN w3 ELSE IF w4 # "" THEN w4
                   ELSE IF w5 # "" THEN w5 ELSE IF w6 # "" THEN w6 ELSE w7
  IN <<IF w # "" THEN w ELSE Pre("log2:", lg[1]), lg[2], lg[3], Log2Drift(e)>>

\* ------------------------------------------------------------------ dispatch
Ev(e) ==
  CASE e.op = "gcd" -> <<GcdEv(e), 0, 0, 0>>
    [] e.op = "root" -> <<RootEv(e), 0, 0, 0>>
    [] e.op = "ilog" -> <<IlogEv(e), 0, 0, 0>>
    [] e.op = "remove" -> <<RemoveEv(e), 0, 0, 0>>
    [] e.op = "log2" -> LET r == Log2Ev(e) IN <<r[1], r[2], r[3], 0>>
    [] e.op = "prim" -> PrimEv(e)
    [] OTHER -> <<"unknown-op", 0, 0, 0>>

(* TLC does not cache a LET bound at the level of an action (every reference re-evaluates it), it
   does inside an expression: the whole accounting step is therefore one expression. *)
Account(st, i) ==
  LET r == Ev(Rec[i]) IN
  [bad |-> IF r[1] = "" THEN st.bad ELSE Append(st.bad, [i |-> i, why |-> r[1]]),
   und |-> st.und + r[2], chk |-> st.chk + r[3], drift |-> st.drift + r[4]]

VARIABLES l, st
Init == l = 1 /\ st = [bad |-> <<>>, und |-> 0, chk |-> 0, drift |-> 0]
Next == /\ l <= Len(Rec)
        /\ st' = Account(st, l)
        /\ l' = l + 1
Spec == Init /\ [][Next]_<<l, st>>
Verdict == l > Len(Rec) => PrintT(<<"VERDICT", ToJson([total |-> Len(Rec), bad |-> st.bad, undecided |-> st.und, log2bounds |-> st.chk, drift |-> st.drift])>>)
Complete == IF TLCGet("stats").diameter - 1 = Len(Rec) THEN TRUE
            ELSE PrintT(<<"TRUNCATED", TLCGet("stats").diameter>>) /\ FALSE
=============================================================================
