--------------------------- MODULE GcdLehmerAlg ---------------------------
(* Algorithm layer of C12 for gcd: integer/src/gcd/lehmer.rs (the single-word guess; the double-word
   guess used from MIN_DWORD_GUESS_LEN words on is the same loop on a wider register) at word level
   over a word of W bits.  SignedWord::MAX = 2^(W-1) - 1 is the cofactor limit.

     highest_word_normalized : the top word of x after shifting out its leading zeros, and the
                               bits of y at the same positions (y may be one word shorter, or more)
     lehmer_guess            : Euclid on the two top words while the Jebelean / Collins conditions
                               t >= s, t + r <= ybar - c (first half: the (a, b) row) resp.
                               t + r <= xbar - b (second half: the (c, d) row) hold and the cofactors
                               stay <= the limit.  (Until finding F91 the second half compared with
                               xbar - c; GcdExtAlg shows what that did to the extended gcd.)
     lehmer_step             : (x, y) := (a x - b y, d y - c x) word by word in signed double-word
                               arithmetic with signed carries; one more step on x's extra top word
     gcd_in_place            : guess; b = 0 -> a Euclidean step (x, y) := (y, x mod y); else the
                               Lehmer step, trim, swap when x <= y; until y has at most two words

   Obligations: every unsigned expression of the guess stays inside a Word (`a + q * c` etc. are plain
   Word arithmetic: an overflow is a panic in debug builds and a wrong cofactor in release builds),
   the cofactors handed to lehmer_step are <= SignedWord::MAX, every signed intermediate of the
   step fits a SignedDoubleWord, the carries fit a SignedWord, the debug assertions about the final
   carries hold, and the new x, y are exactly a x - b y >= 0 and d y - c x >= 0.
   TLC checks that the loop ends with gcd(x, y) preserved for every pair of the scope. *)
EXTENDS Integers, Sequences, TLC
CONSTANTS W,         \* bits per word
          XMax,      \* x ranges over 3-word values up to XMax
          YStride,   \* 1 = every y, k = one in k
          Dword      \* TRUE: the double-word guess (lehmer_guess_dword on highest_dword_normalized), as used for long operands
Beta == 2^W
Lim == 2^(W - 1) - 1                      \* SignedWord::MAX
SDMax == 2^(2 * W - 1)                    \* |SignedDoubleWord| bound
RECURSIVE GcdN(_, _)
GcdN(a, b) == IF b = 0 THEN a ELSE GcdN(b, a % b)
RECURSIVE WordsOf(_)
WordsOf(v) == IF v = 0 THEN <<>> ELSE <<v % Beta>> \o WordsOf(v \div Beta)
RECURSIVE ValOf(_)
ValOf(ws) == IF ws = <<>> THEN 0 ELSE ws[1] + Beta * ValOf(Tail(ws))
RECURSIVE BitLen(_)
BitLen(x) == IF x = 0 THEN 0 ELSE 1 + BitLen(x \div 2)
RECURSIVE Trim(_)
Trim(ws) == IF ws # <<>> /\ ws[Len(ws)] = 0 THEN Trim(SubSeq(ws, 1, Len(ws) - 1)) ELSE ws

\* highest_word_normalized (len(x) >= 2)
HighestWords(xw, yw) ==
  LET n == Len(xw)  m == Len(yw)
      x2 == xw[n - 1] + Beta * xw[n]
      y2 == IF n = m THEN yw[m - 1] + Beta * yw[m] ELSE IF n - m = 1 THEN yw[m] ELSE 0
      shift == 2 * W - BitLen(x2)
  IN <<((x2 * 2^shift) % (Beta * Beta)) \div Beta, ((y2 * 2^shift) % (Beta * Beta)) \div Beta>>

\* highest_dword_normalized (len(x) >= 3): the top 2 W bits of x after shifting out the leading zeros of its top word
HighestDwords(xw, yw) ==
  LET n == Len(xw)  m == Len(yw)
      x0 == xw[n]  x12 == xw[n - 2] + Beta * xw[n - 1]
      y0 == IF n = m THEN yw[m] ELSE 0
      y12 == IF n = m THEN yw[m - 2] + Beta * yw[m - 1]
             ELSE IF n - m = 1 THEN yw[m - 1] + Beta * yw[m]
             ELSE IF n - m = 2 THEN yw[m] ELSE 0
      shift == W - BitLen(x0)
      hi(t0, t12) == ((t0 * 2^(shift + W)) % (Beta * Beta)) + (t12 \div 2^(W - shift))
  IN <<hi(x0, x12), hi(y0, y12)>>
\* the register of the guess: a Word, or a DoubleWord
Reg == IF Dword THEN Beta * Beta ELSE Beta

\* lehmer_guess / lehmer_guess_dword: st = [xb, yb, a, b, c, d, ok]; returns the final record
RECURSIVE Guess(_)
Guess(st) ==
  IF st.yb = 0 THEN st
  ELSE
  LET q == st.xb \div st.yb IN
  IF q > Lim THEN st
  ELSE LET r == st.a + q * st.c  s == st.b + q * st.d  t == st.xb - q * st.yb
           fits1 == q * st.c < Reg /\ r < Reg /\ q * st.d < Reg /\ s < Reg /\ q * st.yb < Reg
           \* `t < s || t + r > ybar - c`: the right side is only evaluated when t >= s
           c1ok == t < s \/ (t + r < Reg /\ st.yb >= st.c)
       IN IF r > Lim \/ s > Lim THEN [st EXCEPT !.ok = st.ok /\ fits1]
          ELSE IF t < s \/ t + r > st.yb - st.c THEN [st EXCEPT !.ok = st.ok /\ fits1 /\ c1ok]
          ELSE LET st1 == [st EXCEPT !.a = r, !.b = s, !.xb = t, !.ok = st.ok /\ fits1 /\ c1ok] IN
               IF t = s THEN st1
               ELSE LET q2 == st.yb \div t IN
                    IF q2 > Lim THEN st1
                    ELSE LET r2 == st.d + q2 * s  s2 == st.c + q2 * r  t2 == st.yb - q2 * t
                             fits2 == q2 * s < Reg /\ r2 < Reg /\ q2 * r < Reg /\ s2 < Reg /\ q2 * t < Reg
                             c2ok == t2 < s2 \/ (t2 + r2 < Reg /\ t >= s)            \* xbar - b: b is the cofactor just stored (s), and t >= s was checked
                         IN IF r2 > Lim \/ s2 > Lim THEN [st1 EXCEPT !.ok = st1.ok /\ fits2]
                            ELSE IF t2 < s2 \/ t2 + r2 > t - s THEN [st1 EXCEPT !.ok = st1.ok /\ fits2 /\ c2ok]
                            ELSE LET st2 == [st1 EXCEPT !.d = r2, !.c = s2, !.yb = t2, !.ok = st1.ok /\ fits2 /\ c2ok] IN
                                 IF t2 = s2 THEN st2 ELSE Guess(st2)

\* lehmer_step on words; returns [x, y, ok]
FloorDiv(v, m) == IF v >= 0 THEN v \div m ELSE -((-v + m - 1) \div m)
RECURSIVE StepLoop(_, _, _, _, _, _, _, _, _, _, _)
StepLoop(xw, yw, i, a, b, c, d, xc, yc, acc, ok) ==          \* acc = <<new x words, new y words>>
  IF i > Len(yw) THEN [xs |-> acc[1], ys |-> acc[2], xc |-> xc, yc |-> yc, ok |-> ok]
  ELSE LET vx == a * xw[i] - b * yw[i] + xc
           vy == d * yw[i] - c * xw[i] + yc
           cx == FloorDiv(vx, Beta)  cy == FloorDiv(vy, Beta)
       IN StepLoop(xw, yw, i + 1, a, b, c, d, cx, cy, <<Append(acc[1], vx - cx * Beta), Append(acc[2], vy - cy * Beta)>>,
                   ok /\ vx < SDMax /\ vx >= -SDMax /\ vy < SDMax /\ vy >= -SDMax
                      /\ cx <= Lim /\ cx >= -Lim - 1 /\ cy <= Lim /\ cy >= -Lim - 1)
LehmerStep(xw, yw, a, b, c, d) ==
  LET n == Len(xw)  m == Len(yw)
      l == StepLoop(xw, yw, 1, a, b, c, d, 0, 0, <<(<<>>), (<<>>)>>, n >= m /\ n - m <= 1 /\ a <= Lim /\ b <= Lim /\ c <= Lim /\ d <= Lim)
      \* the words of x above len(y) are untouched by the loop
      xrest == SubSeq(xw, m + 1, n)
      xall == l.xs \o xrest
  IN IF l.xc # 0
     THEN LET top == xall[n]                                   \* x.last(): the extra word if there is one, else the last processed one
              v == a * top + l.xc
              cx == FloorDiv(v, Beta)
          IN [x |-> [xall EXCEPT ![n] = v - cx * Beta], y |-> l.ys,
              ok |-> l.ok /\ l.yc = c * top /\ cx = 0 /\ v < SDMax /\ v >= -SDMax]
     ELSE [x |-> xall, y |-> l.ys, ok |-> l.ok]

\* gcd_in_place: returns [ok, g]
RECURSIVE Loop(_, _, _)
Loop(xw, yw, fuel) ==
  IF Len(yw) <= 2 THEN [ok |-> TRUE, g |-> GcdN(ValOf(xw), ValOf(yw))]      \* forwarded to the word / double-word gcd
  ELSE IF fuel = 0 THEN [ok |-> FALSE, g |-> 0]
  ELSE LET hw == IF Dword THEN HighestDwords(xw, yw) ELSE HighestWords(xw, yw)
           gs == Guess([xb |-> hw[1], yb |-> hw[2], a |-> 1, b |-> 0, c |-> 0, d |-> 1, ok |-> hw[1] >= hw[2]])
           X == ValOf(xw)  Y == ValOf(yw)
       IN IF gs.b = 0
          THEN LET r == Trim(WordsOf(X % Y)) IN
               LET nx == Loop(yw, r, fuel - 1) IN [ok |-> gs.ok /\ nx.ok, g |-> nx.g]
          ELSE LET st == LehmerStep(xw, yw, gs.a, gs.b, gs.c, gs.d)
                   x1 == Trim(st.x)  y1 == Trim(st.y)
                   exact == ValOf(st.x) = gs.a * X - gs.b * Y /\ ValOf(st.y) = gs.d * Y - gs.c * X
                   sw == ValOf(x1) <= ValOf(y1)
                   nx == IF sw THEN Loop(y1, x1, fuel - 1) ELSE Loop(x1, y1, fuel - 1)
               IN [ok |-> gs.ok /\ st.ok /\ exact /\ nx.ok
                           /\ GcdN(ValOf(x1), ValOf(y1)) = GcdN(X, Y)               \* the step preserves the gcd
                           /\ ValOf(x1) + ValOf(y1) < X + Y,                          \* and makes progress
                   g |-> nx.g]

VARIABLES x, y, phase
vars == <<x, y, phase>>
Init == phase = "pick" /\ x \in (Beta * Beta)..XMax /\ y = 0
Pick == phase = "pick" /\ phase' = "done" /\ UNCHANGED x
        /\ y' \in {v \in (Beta * Beta)..x : YStride = 1 \/ (v + x) % YStride = 0 \/ v = x \/ v = x - 1 \/ x % v = 0}
Next == Pick
Spec == Init /\ [][Next]_vars
GcdOK == phase = "done" => LET r == Loop(WordsOf(x), WordsOf(y), 64) IN r.ok /\ r.g = GcdN(x, y)
=============================================================================
