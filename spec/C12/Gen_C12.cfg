SPECIFICATION Spec
INVARIANT Emit
CONSTANTS
  Seed = 1
  Step16 = 16
  Big = FALSE
CHECK_DEADLOCK FALSE
