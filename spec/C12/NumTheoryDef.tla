---------------------------- MODULE NumTheoryDef ----------------------------
(* Definition layer of C12: gcd / extended gcd, integer roots, integer logarithms, log2 bounds
   and remove(), stated as relations between arguments and results.  Nothing here computes a
   root or a logarithm: results are only checked (s^n <= x < (s+1)^n, b^e <= x < b^(e+1),
   g | a, g | b, s*a + t*b = g, ...).  The only formulas that can raise a C12 violation. *)
EXTENDS Rat

\* ------------------------------------------------------------------ gcd
\* g | a on naturals, g # 0
Divides(g, a) == Mod(a, g) = <<>>
BezoutOK(a, b, g, s, t) == IEq(IAdd(IMul(s, a), IMul(t, b)), g)
BothZero(a, b) == a.m = <<>> /\ b.m = <<>>

\* g is a positive common divisor of a and b ("" when it is)
CommonDivisorWhy(a, b, g) ==
  IF ~IsInt(g) THEN "malformed-gcd"
  ELSE IF g.s = 1 \/ g.m = <<>> THEN "gcd-not-positive"
  ELSE IF ~Divides(g.m, a.m) \/ ~Divides(g.m, b.m) THEN "gcd-not-a-divisor"
  ELSE ""

(* A common divisor g is the greatest one iff it is an integer combination of a and b.
   `hints` is a set of candidate coefficient pairs [s, t] (the results of the gcd_ext calls
   recorded in the same event: untrusted, only the relation counts); operands of at most
   SmallLen limbs are always decided by Euclid's algorithm on BigNat, larger ones only when no
   hint proves the claim. *)
SmallLen == 48
\* above LargeLen limbs Euclid on BigNat does not finish in any useful time: there a claim that no recorded gcd_ext
\* result proves counts as not established (the gcd_ext calls of the same event are then wrong or panicked as well,
\* so the event is a violation either way)
LargeLen == 400
GreatestOK(a, b, g, hints) ==
  IF Len(a.m) <= SmallLen /\ Len(b.m) <= SmallLen THEN g.m = Gcd(a.m, b.m)
  ELSE \/ \E h \in hints : BezoutOK(a, b, g, h.s, h.t)
       \/ (Len(a.m) <= LargeLen /\ Len(b.m) <= LargeLen /\ g.m = Gcd(a.m, b.m))

\* gcd(a, b) = g
GcdWhy(a, b, g, hints) ==
  LET w == CommonDivisorWhy(a, b, g) IN
  IF w # "" THEN w ELSE IF GreatestOK(a, b, g, hints) THEN "" ELSE "gcd-not-greatest"

\* gcd_ext(a, b) = (g, s, t): a positive common divisor that is a combination is the gcd
GcdExtWhy(a, b, g, s, t) ==
  LET w == CommonDivisorWhy(a, b, g) IN
  IF w # "" THEN w
  ELSE IF ~(IsInt(s) /\ IsInt(t)) THEN "malformed-coefficient"
  ELSE IF BezoutOK(a, b, g, s, t) THEN "" ELSE "bezout-identity-fails"

\* ------------------------------------------------------------------ roots
CeilDiv(a, b) == (a + b - 1) \div b
\* s^n <= x  for naturals, native n >= 1 (bit-length shortcut avoids astronomically large powers)
PowLe(s, n, x) ==
  IF s = <<>> THEN TRUE
  ELSE IF s = One THEN x # <<>>
  ELSE IF x = <<>> THEN FALSE
  ELSE IF BitLen(s) - 1 >= CeilDiv(BitLen(x), n) THEN FALSE     \* s^n >= 2^((len-1) n) > x
  ELSE Cmp(Pow(s, n), x) <= 0
\* x < s1^n
PowGt(s1, n, x) ==
  IF s1 = <<>> THEN FALSE
  ELSE IF s1 = One THEN x = <<>>
  ELSE IF x = <<>> THEN TRUE
  ELSE IF BitLen(s1) - 1 >= CeilDiv(BitLen(x), n) THEN TRUE
  ELSE Cmp(x, Pow(s1, n)) < 0

\* when must the call panic: zeroth root, even root of a negative number
RootMustPanic(x, n) == n = 0 \/ (x.s = 1 /\ n % 2 = 0)

\* s is the n-th root of x truncated toward zero (n >= 1, not a must-panic case)
RootWhy(x, n, s) ==
  IF ~IsInt(s) THEN "malformed-root"
  ELSE IF s.m # <<>> /\ s.s # x.s THEN "root-wrong-sign"
  ELSE IF ~PowLe(s.m, n, x.m) THEN "root-too-large"
  ELSE IF ~PowGt(Add(s.m, One), n, x.m) THEN "root-too-small"
  ELSE ""
\* r = x - s^n
RemWhy(x, n, s, r) ==
  IF ~IsInt(r) THEN "malformed-remainder"
  ELSE IF IEq(r, ISub(x, IPow(s, n))) THEN "" ELSE "remainder-not-x-minus-root-power"

\* ------------------------------------------------------------------ integer logarithm
IlogMustPanic(x, b) == x.m = <<>> \/ b.m = <<>> \/ b.m = One
\* e (an integer, as reported) satisfies b^e <= |x| < b^(e+1)
IlogWhy(x, b, e) ==
  IF ~IsInt(e) \/ e.s = 1 THEN "malformed-exponent"
  ELSE IF ~FitsNative(e.m) THEN "ilog-too-large"
  ELSE LET en == ToNat(e.m) IN
       IF en >= BitLen(x.m) THEN "ilog-too-large"          \* b >= 2: b^e >= 2^e > |x|
       ELSE LET p == Pow(b.m, en) IN
            IF Cmp(p, x.m) > 0 THEN "ilog-too-large"
            ELSE IF Cmp(x.m, Mul(p, b.m)) >= 0 THEN "ilog-too-small"
            ELSE ""

\* ------------------------------------------------------------------ remove
RemoveDegenerate(x, f) == x.m = <<>> \/ f.m = <<>> \/ f.m = One
\* remove(x, f) = Some(k) leaving y:  x = f^k * y and f does not divide y
RemoveWhy(x, f, k, y) ==
  IF ~IsInt(k) \/ k.s = 1 \/ ~IsInt(y) THEN "malformed-remove"
  ELSE IF ~FitsNative(k.m) \/ ToNat(k.m) >= BitLen(x.m) THEN "remove-exponent-too-large"
  ELSE IF ~IEq(x, IMul(IPow(f, ToNat(k.m)), y)) THEN "remove-not-a-factorisation"
  ELSE IF Divides(f.m, y.m) THEN "remove-left-a-factor"
  ELSE ""

\* ------------------------------------------------------------------ IEEE bit patterns (16-bit fields)
(* f32 from <<hi, lo>>, f64 from <<w3, w2, w1, w0>> (most significant field first).
   Decoded: [cls |-> "zero" | "fin" | "inf" | "nan", neg |-> 0 | 1, m |-> BigNat, e |-> Int],
   value (-1)^neg * m * 2^e. *)
DecodeF32(w) ==
  LET neg == w[1] \div 32768
      ex == (w[1] % 32768) \div 128
      frac == (w[1] % 128) * 65536 + w[2]
  IN IF ex = 255 THEN [cls |-> IF frac = 0 THEN "inf" ELSE "nan", neg |-> neg, m |-> <<>>, e |-> 0]
     ELSE IF ex = 0 THEN [cls |-> IF frac = 0 THEN "zero" ELSE "fin", neg |-> neg, m |-> FromNat(frac), e |-> -149]
     ELSE [cls |-> "fin", neg |-> neg, m |-> FromNat(frac + 8388608), e |-> ex - 150]
DecodeF64(w) ==
  LET neg == w[1] \div 32768
      ex == (w[1] % 32768) \div 16
      top == w[1] % 16
      Bytes(t) == Norm(<<w[4] % 256, w[4] \div 256, w[3] % 256, w[3] \div 256, w[2] % 256, w[2] \div 256, t>>)
      fraczero == top = 0 /\ w[2] = 0 /\ w[3] = 0 /\ w[4] = 0
  IN IF ex = 2047 THEN [cls |-> IF fraczero THEN "inf" ELSE "nan", neg |-> neg, m |-> <<>>, e |-> 0]
     ELSE IF ex = 0 THEN [cls |-> IF fraczero THEN "zero" ELSE "fin", neg |-> neg, m |-> Bytes(top), e |-> -1074]
     ELSE [cls |-> "fin", neg |-> neg, m |-> Bytes(top + 16), e |-> ex - 1075]
IsField16(w, n) == Len(w) = n /\ \A i \in 1..n : w[i] \in 0..65535
\* exact rational value of a decoded finite / zero float
FloatQ(d) == IF d.e >= 0 THEN Q(I(d.neg, Shl(d.m, d.e)), One) ELSE Q(I(d.neg, d.m), PowerOfTwo(-d.e))

\* ------------------------------------------------------------------ rigorous enclosure of log2
(* Log2Encl(N, D, J) for naturals N, D > 0 returns [k, a, j, w] with
       k + a / 2^j  <=  log2(N / D)  <=  k + (a + w) / 2^j ,    w in {0, 1}, j <= J.
   Method: y = N / (D 2^k) in [1, 2) is enclosed in a fixed-point interval with P = J + 32
   fractional bits; squaring the interval yields one bit of the logarithm per step (y^2 >= 2:
   bit 1 and halve).  All roundings are outward; a step whose interval straddles 2 ends the
   computation early (j < J), which only makes the enclosure wider.  Folds only. *)
Log2Encl(N, D, J) ==
  LET P == J + 32
      kk == BitLen(N) - BitLen(D)
      ge == IF kk >= 0 THEN Cmp(N, Shl(D, kk)) >= 0 ELSE Cmp(Shl(N, -kk), D) >= 0
      k0 == IF ge THEN kk ELSE kk - 1
      num == IF k0 >= 0 THEN Shl(N, P) ELSE Shl(N, P - k0)
      den == IF k0 >= 0 THEN Shl(D, k0) ELSE D
      qr == DivMod(num, den)
      lo0 == qr[1]
      hi0 == IF qr[2] = <<>> THEN qr[1] ELSE Add(qr[1], One)
      one == PowerOfTwo(P)
      two == PowerOfTwo(P + 1)
      CeilShr(v, n) == IF LowBits(v, n) = <<>> THEN Shr(v, n) ELSE Add(Shr(v, n), One)
      Step(acc, i) ==
        IF acc.done THEN acc
        ELSE IF acc.lo = one /\ acc.hi = one THEN [acc EXCEPT !.done = TRUE, !.w = 0]   \* exactly a/2^j
        ELSE LET l2 == Shr(Mul(acc.lo, acc.lo), P)
                 h2 == CeilShr(Mul(acc.hi, acc.hi), P)
             IN IF Cmp(l2, two) >= 0
                THEN [acc EXCEPT !.lo = Shr(l2, 1), !.hi = CeilShr(h2, 1), !.a = Add(Shl(acc.a, 1), One), !.j = acc.j + 1]
                ELSE IF Cmp(h2, two) < 0
                THEN [acc EXCEPT !.lo = l2, !.hi = h2, !.a = Shl(acc.a, 1), !.j = acc.j + 1]
                ELSE [acc EXCEPT !.done = TRUE]
      r == FoldLeftDomain(Step, [lo |-> lo0, hi |-> hi0, a |-> <<>>, j |-> 0, w |-> 1, done |-> FALSE], Zeros(J + 1))
  IN [k |-> k0, a |-> r.a, j |-> r.j, w |-> r.w]

EnclLo(en) == Q(IAdd(IShl(IFromNative(en.k), en.j), IFromNat(en.a)), PowerOfTwo(en.j))
EnclHi(en) == Q(IAdd(IShl(IFromNative(en.k), en.j), IFromNat(Add(en.a, IF en.w = 1 THEN One ELSE <<>>))), PowerOfTwo(en.j))

\* number of fractional bits of a decoded f32 bound (its mantissa stripped of trailing zero bits)
FracBits(d) == IF d.cls = "fin" /\ d.e < 0 /\ d.m # <<>> THEN Max2(0, -d.e - TrailingZeros(d.m)) ELSE 0
\* bits of the logarithm needed to separate a bound from it
EnclBits(dl, du) == Min2(136, Max2(12, Max2(FracBits(dl), FracBits(du)) + 8))

(* lb <= log2(x) <= ub for decoded f32 bounds against an enclosure en of log2(x).
   Returns <<why, undecided>>: why = "" unless a bound is *proved* to be on the wrong side; a bound
   that falls inside the enclosure is counted as undecided and accepted (widened, never alarmed). *)
BoundsVsEncl(en, dl, du) ==
  IF dl.cls = "nan" \/ du.cls = "nan" THEN <<"bound-is-nan", 0>>
  ELSE IF dl.cls = "inf" /\ dl.neg = 0 THEN <<"lower-bound-plus-infinity", 0>>
  ELSE IF du.cls = "inf" /\ du.neg = 1 THEN <<"upper-bound-minus-infinity", 0>>
  ELSE LET lo == EnclLo(en)
           hi == EnclHi(en)
           lbad == dl.cls # "inf" /\ QLt(hi, FloatQ(dl))
           lok == dl.cls = "inf" \/ QLe(FloatQ(dl), lo)
           ubad == du.cls # "inf" /\ QLt(FloatQ(du), lo)
           uok == du.cls = "inf" \/ QLe(hi, FloatQ(du))
       IN IF lbad THEN <<"lower-bound-above-log2", 0>>
          ELSE IF ubad THEN <<"upper-bound-below-log2", 0>>
          ELSE <<"", (IF lok THEN 0 ELSE 1) + (IF uok THEN 0 ELSE 1)>>
Log2BoundsWhy(N, D, dl, du) == BoundsVsEncl(Log2Encl(N, D, EnclBits(dl, du)), dl, du)
=============================================================================
