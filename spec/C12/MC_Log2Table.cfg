SPECIFICATION Spec
INVARIANT Encloses
INVARIANT Sane
CONSTANTS
  Stride = 1
CHECK_DEADLOCK FALSE
