------------------------------ MODULE Gen_C12 ------------------------------
(* Behaviour generator for C12.  TLC enumerates the partition

     family x size class x shape variant

   and prints one case per done-state.  Expected results are NOT generated: every relation of
   NumTheoryDef is decided by the monitor on what the code returns.  Operands are built by
   construction (g*u, g*v with coprime (u, v); s^n + r; b^e + d; f^k * y; q*b + r).

   Families
     prim8 / prim16   every u8 (all pairs for gcd) / every u16 value in strides (range cases)
     gfib, gkk1       (g F_k, g F_k+1), (g K, g (K+1)): planted gcd, coprime cofactors, longest Euclid
     gtz              operands with many trailing zero words
     gdiv             one operand divides the other (cofactor 1..6 words)
     glehmer          a = Q b + r with single-word quotients around the signed-word limit
     gspecial         zeros, equal, unit, signs, word / double-word / multi-word mixes
     root             x = s^n + r, r in {0, 1, max, -1}; radicands 0, 1; odd/even word counts; negative x
     ilog             x = b^e + d, d in {-1, 0, 1}; invalid operands
     remove           x = f^k * y
     lint, lf32, lf64, lrat, lfb    log2_bounds arguments *)
EXTENDS BigInt, Json
CONSTANTS Seed,          \* varies the dense patterns
          Step16,        \* stride of the u16 sweep (1 = exhaustive)
          Big            \* TRUE: thorough size classes

Families == {"prim8", "prim16", "gfib", "gkk1", "gtz", "gdiv", "glehmer", "gspecial", "root", "ilog", "remove",
             "lint", "lf32", "lf64", "lrat", "lfb"}

\* ------------------------------------------------------------------ magnitudes by byte length and pattern
Lcg8(i, salt) == ((((i + salt * 31) % 4093) * 1277 + 911 * (salt % 1000) + 13) % 4099) % 256
Pats == <<"dense", "ones", "pow2", "top1", "lowzero", "alt">>
MB(pat, nb, salt) ==
  IF nb = 0 THEN <<>> ELSE
  CASE pat = "dense"   -> [i \in 1..nb |-> IF i = nb THEN 128 + (Lcg8(i, salt) % 128) ELSE Lcg8(i, salt)]
    [] pat = "ones"    -> [i \in 1..nb |-> 255]
    [] pat = "pow2"    -> [i \in 1..nb |-> IF i = nb THEN 1 ELSE 0]
    [] pat = "top1"    -> [i \in 1..nb |-> IF i = nb THEN 1 ELSE Lcg8(i, salt)]
    [] pat = "lowzero" -> [i \in 1..nb |-> IF i > nb - 3 \/ i = 1 THEN 1 + (Lcg8(i, salt) % 255) ELSE 0]
    [] pat = "alt"     -> [i \in 1..nb |-> IF ((i - 1) \div 8) % 2 = 0 THEN 255 ELSE (IF i = nb THEN 1 ELSE 0)]
Pat(k) == Pats[1 + (k % Len(Pats))]
NN(n) == FromNat(n)
U(m) == I(0, m)
ShlW(m, z) == ShlBytes(m, 8 * z)
Fib(k) == FoldLeftDomain(LAMBDA acc, i : <<acc[2], Add(acc[1], acc[2])>>, <<One, One>>, Zeros(k))

\* ------------------------------------------------------------------ parameter spaces
GW == IF Big THEN <<1, 2, 3, 4, 6, 12, 25, 40>> ELSE <<1, 2, 3, 4, 6, 12>>          \* word counts for gcd
RootN == <<1, 2, 3, 4, 5, 7, 8, 64>>
RootSB == IF Big THEN <<0, 1, 4, 8, 12, 16, 20, 24, 36, 40, 64, 68, 132, 200>> ELSE <<0, 1, 4, 8, 12, 16, 20, 24, 36, 40, 68>>   \* byte length of s
RKinds == <<"0", "1", "max", "m1">>
Bases == << NN(2), NN(3), NN(4), NN(7), NN(10), NN(16), NN(255), NN(256), PowerOfTwo(32),
            Sub(PowerOfTwo(64), One), PowerOfTwo(64), Add(PowerOfTwo(64), One), Pow(NN(10), 19),
            Sub(PowerOfTwo(128), One), PowerOfTwo(128), MB("dense", 24, Seed), MB("dense", 40, Seed + 1) >>
Es == <<0, 1, 2, 3, 5, 17, 40, 100>>
Factors == << NN(2), NN(3), NN(4), NN(6), NN(10), PowerOfTwo(64), Add(PowerOfTwo(64), One), MB("dense", 20, Seed), NN(0), NN(1) >>
RemK == <<0, 1, 2, 3, 5, 8, 13>>
LBits == <<1, 7, 8, 15, 16, 23, 24, 25, 31, 32, 53, 63, 64, 65, 127, 128, 129, 191, 192, 200, 640, 2000>>
FExp32 == IF Big THEN [i \in 1..255 |-> i - 1]       \* every finite exponent field (thorough)
          ELSE <<0, 1, 2, 64, 100, 126, 127, 128, 150, 151, 200, 254>>
FMan32 == <<0, 1, 4194304, 8388607, 1234567, 7654321, 3, 8388606>>
FExp64 == IF Big THEN [i \in 1..64 |-> IF i = 64 THEN 2046 ELSE (i - 1) * 32 + (i % 3)] \o <<1022, 1023, 1024, 1075, 1076>>
          ELSE <<0, 1, 2, 512, 1000, 1022, 1023, 1024, 1075, 1076, 1500, 2046>>
FbBases == <<2, 3, 10, 16, 36>>
FbExps == <<0, 1, -1, 50, -50, 200, -200, 1000, -1000>>

S1(f) == CASE f = "prim8" -> {0}
           [] f = "prim16" -> 1..255
           [] f \in {"gfib", "gkk1", "gtz", "gdiv", "glehmer"} -> 1..Len(GW)
           [] f = "gspecial" -> 1..14
           [] f = "root" -> 1..Len(RootN)
           [] f = "ilog" -> 1..Len(Bases)
           [] f = "remove" -> 1..Len(Factors)
           [] f = "lint" -> 1..Len(LBits)
           [] f = "lf32" -> 1..Len(FExp32)
           [] f = "lf64" -> 1..Len(FExp64)
           [] f = "lrat" -> 1..Len(LBits)
           [] f = "lfb" -> 1..Len(FbBases)
S2(f) == CASE f \in {"prim8", "prim16", "gspecial"} -> {0}
           [] f \in {"gfib", "gkk1"} -> {0, 1, 3}              \* words of the planted g (0: g = 1)
           [] f = "gtz" -> {1, 2, 5}                            \* zero words appended to a
           [] f = "gdiv" -> {1, 2, 3, 4, 6}                     \* words of the cofactor
           [] f = "glehmer" -> 1..6                             \* quotient shape
           [] f = "root" -> 1..Len(RootSB)
           [] f = "ilog" -> 1..Len(Es)
           [] f = "remove" -> 1..Len(RemK)
           [] f = "lint" -> 1..6
           [] f = "lf32" -> 1..Len(FMan32)
           [] f = "lf64" -> 1..6
           [] f = "lrat" -> 1..5
           [] f = "lfb" -> 1..Len(FbExps)
S3(f) == CASE f = "root" -> 1..Len(RKinds)
           [] f = "ilog" -> {-1, 0, 1}
           [] f \in {"gtz", "gdiv", "glehmer", "gfib", "gkk1"} -> {0, 1}
           [] f \in {"remove", "lfb"} -> {0, 1, 2}
           [] OTHER -> {0}

VARIABLES phase, fam, p1, p2, p3
vars == <<phase, fam, p1, p2, p3>>
Init == phase = "pick" /\ fam \in Families /\ p1 = 0 /\ p2 = 0 /\ p3 = 0
Pick == /\ phase = "pick" /\ phase' = "done" /\ UNCHANGED fam
        /\ p1' \in S1(fam) /\ p2' \in S2(fam) /\ p3' \in S3(fam)
Next == Pick
Spec == Init /\ [][Next]_vars

Salt == p1 * 7 + p2 * 13 + p3 * 29 + Seed
Sgn(k) == (Salt \div k) % 2

\* ------------------------------------------------------------------ cases
GcdCase(a, b) == [op |-> "gcd", a |-> a, b |-> b]
PrimCase ==
  IF fam = "prim8" THEN [op |-> "prim", lo |-> 0, hi |-> 255, step |-> 1, pmode |-> "all8", only |-> "all"]
  ELSE LET off == (p1 * 7 + Seed) % Step16 IN
       [op |-> "prim", lo |-> p1 * 256 + off, hi |-> p1 * 256 + 255, step |-> Step16, pmode |-> "few", only |-> "all"]

GFib == LET nw == GW[p1]
            k == (nw * 64 * 100) \div 70            \* F_k has about nw words (log2 phi = 0.694)
            f == Fib(k)
            g == IF p2 = 0 THEN One ELSE MB(Pat(Salt), 8 * p2, Salt)
        IN IF p3 = 0 THEN GcdCase(U(Mul(g, f[1])), I(Sgn(3), Mul(g, f[2])))
           ELSE GcdCase(I(Sgn(2), Mul(g, f[2])), U(Mul(g, f[1])))
GKk1 == LET nw == GW[p1]
            k == MB(Pat(Salt + p3), 8 * nw - (Salt % 5), Salt)
            g == IF p2 = 0 THEN One ELSE MB(Pat(Salt \div 2), 8 * p2, Salt + 3)
        IN GcdCase(I(Sgn(5), Mul(g, k)), I(Sgn(7), Mul(g, Add(k, One))))
GTz == LET nw == GW[p1]
           a == ShlW(MB(IF p3 = 0 THEN "pow2" ELSE Pat(Salt), 8 * nw, Salt), p2)
           b == ShlW(MB(IF p3 = 0 THEN "pow2" ELSE Pat(Salt + 1), 8 * ((nw + 1) \div 2), Salt + 5), IF p3 = 0 THEN p2 \div 2 ELSE p2 + 1)
       IN GcdCase(U(a), U(b))
GDiv == LET nw == GW[p1]
            b == MB(Pat(Salt), 8 * nw, Salt)
            q == MB(Pat(Salt + 2), 8 * p2, Salt + 9)
        IN IF p3 = 0 THEN GcdCase(U(Mul(b, q)), U(b)) ELSE GcdCase(I(Sgn(2), b), I(Sgn(3), Mul(b, q)))
GLehmer == LET nw == GW[p1] + 2
               b == MB(Pat(Salt), 8 * nw, Salt)
               q == CASE p2 = 1 -> Sub(PowerOfTwo(63), One)
                      [] p2 = 2 -> PowerOfTwo(63)
                      [] p2 = 3 -> Sub(PowerOfTwo(64), One)
                      [] p2 = 4 -> PowerOfTwo(64)
                      [] p2 = 5 -> PowerOfTwo(32)
                      [] p2 = 6 -> One
               r == IF p3 = 0 THEN MB("dense", 8 * nw - 8, Salt + 4) ELSE Sub(b, One)
           IN GcdCase(U(Add(Mul(q, b), r)), U(b))
GSpecial ==
  LET x3 == MB("dense", 24, Seed)   x1 == MB("dense", 8, Seed + 1)   x2 == MB("dense", 16, Seed + 2)
      x9 == MB("dense", 72, Seed + 3)
  IN CASE p1 = 1 -> GcdCase(IZero, IZero)
       [] p1 = 2 -> GcdCase(IZero, U(x3))
       [] p1 = 3 -> GcdCase(I(1, x3), IZero)
       [] p1 = 4 -> GcdCase(U(x3), U(x3))
       [] p1 = 5 -> GcdCase(U(x9), I(1, x9))
       [] p1 = 6 -> GcdCase(IOne, U(x9))
       [] p1 = 7 -> GcdCase(U(x9), U(x1))                      \* large with word
       [] p1 = 8 -> GcdCase(U(x2), U(x9))                      \* double word with large
       [] p1 = 9 -> GcdCase(U(Mul(x9, x1)), U(x1))             \* word divides large
       [] p1 = 10 -> GcdCase(U(Mul(x9, x2)), I(1, x2))         \* double word divides large
       [] p1 = 11 -> GcdCase(U(x1), U(x2))
       [] p1 = 12 -> GcdCase(I(1, x1), I(1, NN(1)))
       [] p1 = 13 -> GcdCase(U(PowerOfTwo(320)), U(PowerOfTwo(128)))
       [] p1 = 14 -> GcdCase(U(PowerOfTwo(128)), U(PowerOfTwo(320)))

RootCase ==
  LET n == RootN[p1]
      sb == RootSB[p2]
      s == IF sb = 0 THEN <<>> ELSE IF sb = 1 THEN One ELSE MB(Pat(Salt), sb, Salt)
      kind == RKinds[p3]
      \* keep s^n below about 520 bytes
      nn == IF sb * n > 520 THEN (IF sb > 260 THEN 1 ELSE 520 \div sb) ELSE n
      pw == Pow(s, nn)
      x == CASE kind = "0" -> pw
             [] kind = "1" -> Add(pw, One)
             [] kind = "max" -> Sub(Pow(Add(s, One), nn), One)
             [] kind = "m1" -> IF pw = <<>> THEN <<>> ELSE Sub(pw, One)
      neg == IF kind = "1" /\ p2 % 3 = 0 THEN 1 ELSE 0
  IN [op |-> "root", x |-> I(neg, x), n |-> IF kind = "m1" /\ sb = 0 THEN 0 ELSE nn]

IlogCase ==
  LET b == Bases[p1]
      e0 == Es[p2]
      bits == BitLen(b)
      e == IF e0 * bits > 4200 THEN 4200 \div bits ELSE e0
      pw == Pow(b, e)
      x == IF p3 = 0 THEN pw ELSE IF p3 = 1 THEN Add(pw, One) ELSE IF pw = One THEN <<>> ELSE Sub(pw, One)
      \* invalid bases 0 and 1 ride on the first two exponents of base 2 and 3
      bb == IF p1 <= 2 /\ p2 = 1 /\ p3 = 0 THEN NN(p1 - 1) ELSE b
  IN [op |-> "ilog", x |-> I(IF p2 % 4 = 3 THEN 1 ELSE 0, x), b |-> U(bb)]

RemoveCase ==
  LET f == Factors[p1]
      k == RemK[p2]
      y == CASE p3 = 0 -> One
             [] p3 = 1 -> MB("dense", 9, Salt)
             [] p3 = 2 -> <<>>
      x == IF f = <<>> THEN y ELSE Mul(Pow(f, IF BitLen(f) * k > 4200 THEN 4200 \div BitLen(f) ELSE k), y)
  IN [op |-> "remove", x |-> U(x), f |-> U(f)]

LIntCase ==
  LET k == LBits[p1]
      p == PowerOfTwo(k)
      x == CASE p2 = 1 -> p
             [] p2 = 2 -> Add(p, One)
             [] p2 = 3 -> Sub(p, One)
             [] p2 = 4 -> Mul(p, NN(3))
             [] p2 = 5 -> Add(p, MB("dense", (k + 7) \div 8, Salt) )
             [] p2 = 6 -> <<>>
  IN [op |-> "log2", kind |-> "int", x |-> I(IF p1 % 3 = 0 THEN 1 ELSE 0, x)]
LF32Case ==
  LET ex == FExp32[p1]
      man == FMan32[p2]
      hi == (Salt % 2) * 32768 + ex * 128 + man \div 65536
  IN [op |-> "log2", kind |-> "f32", bits |-> <<hi, man % 65536>>]
LF64Case ==
  LET ex == FExp64[p1]
      w == CASE p2 = 1 -> <<0, 0, 0, 0>>
             [] p2 = 2 -> <<0, 0, 0, 1>>
             [] p2 = 3 -> <<8, 0, 0, 0>>
             [] p2 = 4 -> <<15, 65535, 65535, 65535>>
             [] p2 = 5 -> <<Lcg8(1, Salt) % 16, 256 * Lcg8(2, Salt) + Lcg8(3, Salt), 256 * Lcg8(4, Salt) + Lcg8(5, Salt), 256 * Lcg8(6, Salt) + Lcg8(7, Salt)>>
             [] p2 = 6 -> <<0, 0, 0, 65535>>
  IN [op |-> "log2", kind |-> "f64", bits |-> <<(Salt % 2) * 32768 + ex * 16 + w[1], w[2], w[3], w[4]>>]
LRatCase ==
  LET k == LBits[p1]
      p == PowerOfTwo(k)
      nd == CASE p2 = 1 -> <<p, NN(3)>>
              [] p2 = 2 -> <<p, Sub(Add(p, p), One)>>
              [] p2 = 3 -> <<Add(p, One), p>>
              [] p2 = 4 -> <<NN(3), p>>
              [] p2 = 5 -> <<MB("dense", (k + 7) \div 8, Salt), MB("dense", 1 + (k \div 16), Salt + 1)>>
  IN [op |-> "log2", kind |-> "rbig", num |-> I(Salt % 2, nd[1]), den |-> U(nd[2])]
LFbCase ==
  LET sig == CASE p3 = 0 -> One
               [] p3 = 1 -> MB("dense", 21, Salt)
               [] p3 = 2 -> Sub(Pow(NN(10), 50), One)
  IN [op |-> "log2", kind |-> "fbig", base |-> FbBases[p1], sig |-> I(Salt % 2, sig), exp |-> FbExps[p2]]

Case ==
  CASE fam \in {"prim8", "prim16"} -> PrimCase
    [] fam = "gfib" -> GFib
    [] fam = "gkk1" -> GKk1
    [] fam = "gtz" -> GTz
    [] fam = "gdiv" -> GDiv
    [] fam = "glehmer" -> GLehmer
    [] fam = "gspecial" -> GSpecial
    [] fam = "root" -> RootCase
    [] fam = "ilog" -> IlogCase
    [] fam = "remove" -> RemoveCase
    [] fam = "lint" -> LIntCase
    [] fam = "lf32" -> LF32Case
    [] fam = "lf64" -> LF64Case
    [] fam = "lrat" -> LRatCase
    [] fam = "lfb" -> LFbCase

Emit == phase = "done" => PrintT(<<"GEN", ToJson([fam |-> fam] @@ Case)>>)
=============================================================================
