------------------------------ MODULE SqrtAlg ------------------------------
(* Algorithm layer of C12 for square roots: integer/src/root.rs (Zimmermann's "Karatsuba square
   root") at word level over a word of W bits.  a has 2n words and is normalised (its top two bits
   are not both zero); on return b (n words) holds the root, a[..n] the remainder and the result
   is the remainder's carry (remainder <= 2 * root needs one more bit).

     sqrt_rem_42   : 4 words by native double-word arithmetic (wrapping shifts, overflowing add/sub,
                     the q = B overestimate fix, the final correction with two carries)
     sqrt_rem      : recursion on the high half (split = n / 2 may leave an odd half), the remainder
                     carry folded into r1, division by s1 instead of 2 s1 and its parity fix, the shift
                     of 2q with the carry bit coming in at the top, q_top (q = B), the square of q, the
                     placement of q_top (word 2*split when n is odd, the carry c otherwise), and the
                     correction r += 2s - 1, s -= 1 with its carries

   Division and squaring of word sequences are taken as exact here (DivLargeAlg, IntMulAlg) WITH the
   preconditions of the real routines (divisor normalised and at least 2 words).  Every debug_assert
   of the code is an obligation.  TLC checks root and remainder against the definition for every
   normalised a of the scope. *)
EXTENDS Integers, Sequences, TLC
CONSTANTS W,          \* bits per word
          HalfLens,   \* values of n explored
          Stride      \* 1 = every normalised a; k = one in k (by value) for the long ones
Beta == 2^W
MaxW == Beta - 1
DW == Beta * Beta
Sl(c, i, j) == SubSeq(c, i + 1, j)
Put(c, i, p) == SubSeq(c, 1, i) \o p \o SubSeq(c, i + Len(p) + 1, Len(c))
RECURSIVE ValOf(_)
ValOf(ws) == IF ws = <<>> THEN 0 ELSE ws[1] + Beta * ValOf(Tail(ws))
RECURSIVE WordsOfLen(_, _)
WordsOfLen(v, n) == IF n = 0 THEN <<>> ELSE <<v % Beta>> \o WordsOfLen(v \div Beta, n - 1)
Zeros(n) == [i \in 1..n |-> 0]
B01(c) == IF c THEN 1 ELSE 0

\* floor square root of a native integer
RECURSIVE IsqrtBetween(_, _, _)
IsqrtBetween(x, lo, hi) == IF lo = hi THEN lo ELSE LET mid == (lo + hi + 1) \div 2 IN IF mid * mid <= x THEN IsqrtBetween(x, mid, hi) ELSE IsqrtBetween(x, lo, mid - 1)
Isqrt(x) == IsqrtBetween(x, 0, 46340)

\* in-place helpers on word sequences, value-equivalent: <<words, carry / borrow>>
AddIn(x, y) == LET d == ValOf(x) + ValOf(y)  M == Beta^Len(x) IN <<WordsOfLen(d % M, Len(x)), d \div M>>
SubIn(x, y) == LET d == ValOf(x) - ValOf(y)  M == Beta^Len(x) IN IF d >= 0 THEN <<WordsOfLen(d, Len(x)), 0>> ELSE <<WordsOfLen(d + M, Len(x)), 1>>
\* lhs / rhs in place: quotient words, remainder words, quotient carry; ok = preconditions of div::div_rem_in_place
DivIn(lhs, rhs) ==
  LET n == Len(rhs)  m == Len(lhs) - n  d == ValOf(rhs)  x == ValOf(lhs)  q == x \div d
  IN [rem |-> WordsOfLen(x % d, n), quo |-> WordsOfLen(q % Beta^m, m), carry |-> q \div Beta^m,
      ok |-> n >= 2 /\ m >= 0 /\ rhs[n] >= Beta \div 2 /\ q \div Beta^m <= 1]

\* ---------------------------------------------------------------- sqrt_rem_42
Sqrt42(a) ==
  LET hd == a[3] + Beta * a[4]                      \* highest_dword(a)
      s1 == Isqrt(hd)                                \* fits a word
      r1 == hd - s1 * s1
      r1lo == r1 % Beta  r1hi == r1 \div Beta
      r0hi == ((r1hi * 2^(W - 1)) % Beta) + (r1lo \div 2)      \* r1_hi << (W-1) | r1_lo >> 1 (disjoint bits: + is |)
      r0lo == ((r1lo * 2^(W - 1)) % Beta) + (a[2] \div 2)
      r0 == r0lo + Beta * r0hi
      q0 == r0 \div s1  u0 == r0 % s1
      over == q0 \div Beta > 0
      q1 == IF over THEN q0 - 1 ELSE q0
      u1 == IF over THEN u0 + s1 ELSE u0
      u == ((u1 * 2) % DW) + (a[2] % 2)                \* u << 1 | (a[1] & 1) on a double word
      q == q1 % Beta                                  \* `q as Word`
      ulo == u % Beta  uhi == u \div Beta
      s0 == q + Beta * s1
      q2 == q * q
      d0 == (a[1] + Beta * ulo) - q2
      r0w == IF d0 < 0 THEN d0 + DW ELSE d0
      c0 == uhi - (IF d0 < 0 THEN 1 ELSE 0)
      \* step 3
      t1 == r0w + s0
      t2 == (t1 % DW) + (s0 - 1)
      fix == c0 < 0
      r == IF fix THEN t2 % DW ELSE r0w
      s == IF fix THEN s0 - 1 ELSE s0
      c == IF fix THEN c0 + t1 \div DW + t2 \div DW ELSE c0
  IN [b |-> <<s % Beta, s \div Beta>>, a |-> <<r % Beta, r \div Beta, a[3], a[4]>>, c |-> c > 0,
      ok |-> s1 < Beta /\ s1 > 0 /\ q1 < Beta /\ u1 * 2 < DW /\ uhi < 128 /\ c \in {0, 1} /\ s0 >= 1]

\* ---------------------------------------------------------------- sqrt_rem
RECURSIVE SqrtRem(_, _)
SqrtRem(b, a) ==
  IF Len(a) = 4 THEN Sqrt42(a)
  ELSE
  LET n == Len(a) \div 2
      split == n \div 2
      \* step 1
      hi == SqrtRem(Sl(b, split, n), Sl(a, 2 * split, 2 * n))
      b1 == Put(b, split, hi.b)
      a1 == Put(a, 2 * split, hi.a)
      r1top == hi.c
      sub1 == IF r1top THEN SubIn(Sl(a1, 2 * split, split + n), Sl(b1, split, n)) ELSE <<Sl(a1, 2 * split, split + n), 1>>
      a2 == Put(a1, 2 * split, sub1[1])
      \* step 2
      dv == DivIn(Sl(a2, split, split + n), Sl(b1, split, n))
      a3 == Put(Put(a2, split, dv.rem), n, dv.quo)                    \* remainder in a[split..n], quotient in a[n..n+split]
      carry == dv.carry = 1
      twoq == Sl(a3, n, n + split)
      inbit == IF r1top # carry THEN 1 ELSE 0
      qv == (ValOf(twoq) + inbit * Beta^split) \div 2                  \* shr by one with the carry bit coming in at the top
      b2 == Put(b1, 0, WordsOfLen(qv, split))
      qtop == r1top /\ carry
      odd == a3[n + 1] % 2 = 1                                         \* a_hi[0] & 1
      add1 == IF odd THEN AddIn(Sl(a3, split, n), Sl(b2, split, n)) ELSE <<Sl(a3, split, n), 0>>
      a4 == Put(a3, split, add1[1])
      c1 == add1[2]
      \* q^2 into a_hi
      qsq == IF qtop THEN Zeros(2 * split) ELSE WordsOfLen(ValOf(Sl(b2, 0, split)) * ValOf(Sl(b2, 0, split)), 2 * split)
      ahi0 == qsq \o Zeros(n - 2 * split)
      ahi == IF 2 * split < n THEN Put(ahi0, 2 * split, <<B01(qtop)>>) ELSE ahi0
      c2 == IF 2 * split < n THEN c1 ELSE c1 - B01(qtop)
      sub2 == SubIn(Sl(a4, 0, n), ahi)
      alo == sub2[1]
      c3 == c2 - sub2[2]
      \* step 3
      fix == c3 < 0
      ov == AddIn(Sl(b2, split, n), <<B01(qtop)>> \o Zeros(n - split - 1))   \* add_word_in_place(b[split..], q_top)
      b3 == Put(b2, split, ov[1])
      am == LET d == ValOf(alo) + 2 * ValOf(b3)  M == Beta^n IN <<WordsOfLen(d % M, n), d \div M>>   \* add_mul_word_in_place(a_lo, 2, b)
      s1a == SubIn(am[1], <<1>> \o Zeros(n - 1))                              \* sub_one_in_place(a_lo)
      s1b == SubIn(b3, <<1>> \o Zeros(n - 1))                                 \* sub_one_in_place(b)
      c4 == IF fix THEN c3 + am[2] + 2 * ov[2] - s1a[2] ELSE c3
      bF == IF fix THEN s1b[1] ELSE b2
      aF == IF fix THEN s1a[1] ELSE alo
  IN [b |-> bF, a |-> aF \o Sl(a4, n, 2 * n), c |-> c4 > 0,
      ok |-> hi.ok /\ Len(a) % 2 = 0 /\ Len(a) >= 4 /\ Len(b) = n
             /\ (r1top => sub1[2] = 1)                                  \* debug_assert!(carry)
             /\ dv.ok
             /\ (qtop => ValOf(Sl(b2, 0, split)) = 0)                   \* "true only when q = B, and then b[..split] = 0"
             /\ (fix => (ov[2] = 1) = (s1b[2] = 1))                     \* debug_assert!(!(overflow ^ borrow))
             /\ c4 \in {0, 1} /\ c3 >= -3 /\ c3 <= 1
             /\ (~fix => ~qtop)]                                        \* q_top is only applied to s in the correction branch

\* ---------------------------------------------------------------- exploration
VARIABLES av, n, phase
vars == <<av, n, phase>>
Init == phase = "pick" /\ n \in HalfLens /\ av = 0
Normalised(v, k) == v >= Beta^(2 * k) \div 4 /\ v < Beta^(2 * k)
\* every normalised a for short operands; for long ones an arithmetic progression, and around perfect squares
\* (s^2 - 1: the largest remainder 2(s - 1); s^2; s^2 + 2s: remainder 2s, the carry case) for a progression of roots
Cands(k) ==
  LET lo == Beta^(2 * k) \div 4  hi == Beta^(2 * k) - 1
      smin == Isqrt(lo) + 1  smax == Isqrt(hi) - 1
  IN IF Stride = 1 \/ k <= 3 THEN lo..hi
     ELSE {lo + t * Stride : t \in 0..((hi - lo) \div Stride)}
          \cup UNION {{s * s - 1, s * s, s * s + 2 * s} : s \in {smin + t * (1 + Stride \div 16) : t \in 0..((smax - smin) \div (1 + Stride \div 16))}}
Pick == /\ phase = "pick" /\ phase' = "done" /\ UNCHANGED n
        /\ av' \in Cands(n)
Next == Pick
Spec == Init /\ [][Next]_vars

SqrtOK == phase = "done" =>
  LET r == SqrtRem(Zeros(n), WordsOfLen(av, 2 * n))
      s == ValOf(r.b)
      rem == ValOf(Sl(r.a, 0, n)) + B01(r.c) * Beta^n
  IN r.ok /\ s = Isqrt(av) /\ av = s * s + rem /\ rem <= 2 * s
=============================================================================
