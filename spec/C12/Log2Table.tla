------------------------------ MODULE Log2Table ------------------------------
(* Algorithm layer of C12: the table-driven estimator of base/src/math/log.rs that replaces
   f32::log2 when dashu-base is built without `std` (log2_fp8, ceil_log2_fp8 and the u8 / u16 /
   wider-integer wrappers).  It is a pure integer function of a 16-bit argument; it is transcribed
   branch by branch and checked for EVERY 16-bit argument against the definition

        lb / 256 <= log2(v) <= ub / 256        i.e.   2^lb <= v^256   and   v^256 <= 2^ub ,

   decided on BigNat by eight interval squarings (Log2Encl with J = 8; exact integer powers when
   an interval straddles).  The f32 arithmetic of the wrappers (/256, /4, /2, + shift) is exact
   for these magnitudes (at most 15 significant bits), next_down / next_up only widen. *)
EXTENDS NumTheoryDef, Log2Fp8
CONSTANTS Stride        \* 1 = every 16-bit value; k > 1 = every k-th low byte (quick tier)

\* ------------------------------------------------------------------ the definition, on integers
(* L / 256 <= log2(m) and log2(m) <= U / 256 for natives m >= 1, 0 <= L, U <= 4352, decided with
   the enclosure k + a/2^j <= log2 m <= k + (a+w)/2^j (j <= 8); when the enclosure cannot decide,
   by exact integer powers 2^L <= m^256 resp. m^256 <= 2^U. *)
Encl256(m) ==
  LET en == Log2Encl(FromNat(m), One, 8)
      s == P2(en.j)
      a == ToNat(en.a)
  IN [s |-> s, lo |-> 256 * (en.k * s + a), hi |-> 256 * (en.k * s + a + en.w)]
Lower256OK(en, m, L) ==
  IF L * en.s <= en.lo THEN TRUE
  ELSE IF L * en.s > en.hi THEN FALSE
  ELSE Cmp(PowerOfTwo(L), Pow(FromNat(m), 256)) <= 0
Upper256OK(en, m, U) ==
  IF U * en.s >= en.hi THEN TRUE
  ELSE IF U * en.s < en.lo THEN FALSE
  ELSE Cmp(Pow(FromNat(m), 256), PowerOfTwo(U)) <= 0

\* ------------------------------------------------------------------ the wrappers, one action per branch
(* State: the argument v, the wrapper branch taken, and the result as integers over a common
   denominator: lb = lbn / (256 d), ub = ubn / (256 d) bound log2(v); `arg` is the value whose
   estimate was looked up (v^d for the u8 wrapper, the top 16 bits for wide integers) and
   `uarg` the value the upper estimate has to cover. *)
VARIABLES hi, v, br, lbn, ubn, d, arg, uarg
vars == <<hi, v, br, lbn, ubn, d, arg, uarg>>

LowBytes16 == {lo \in 0..255 : lo % Stride = 0 \/ lo \in {1, 2, 3, 127, 128, 129, 254, 255}}
Init == /\ hi \in 0..255
        /\ v = -1 /\ br = "pick" /\ lbn = 0 /\ ubn = 0 /\ d = 1 /\ arg = 0 /\ uarg = 0

Set(val, branch, l, u, den, a, ua) ==
  /\ v' = val /\ br' = branch /\ lbn' = l /\ ubn' = u /\ d' = den /\ arg' = a /\ uarg' = ua /\ UNCHANGED hi

\* impl EstimatedLog2 for u8
U8One == br = "pick" /\ hi = 0 /\ Set(1, "u8-one", 0, 0, 1, 1, 1)
U8Pow2 == br = "pick" /\ hi = 0 /\ \E i \in 2..255 : IsPow2(i) /\ Set(i, "u8-pow2", 256 * (NBits(i) - 1), 256 * (NBits(i) - 1), 1, i, i)
U8Three == br = "pick" /\ hi = 0 /\ Set(3, "u8-three", 0, 0, 1, 3, 3)
U8Fourth == br = "pick" /\ hi = 0 /\ \E i \in 5..15 : ~IsPow2(i) /\
              LET p == i * i * i * i IN Set(i, "u8-fourth", Log2Fp8(p), CeilLog2Fp8(p), 4, p, p)
U8Square == br = "pick" /\ hi = 0 /\ \E i \in 17..255 : ~IsPow2(i) /\
              LET p == i * i IN Set(i, "u8-square", Log2Fp8(p), CeilLog2Fp8(p), 2, p, p)
\* impl EstimatedLog2 for u16 (values above 0xff)
U16Pow2 == br = "pick" /\ hi > 0 /\ IsPow2(hi) /\ Set(hi * 256, "u16-pow2", 256 * (NBits(hi) + 7), 256 * (NBits(hi) + 7), 1, hi * 256, hi * 256)
U16Direct == br = "pick" /\ hi > 0 /\ \E lo \in LowBytes16 :
              LET n == hi * 256 + lo IN ~IsPow2(n) /\ Set(n, "u16-direct", Log2Fp8(n), CeilLog2Fp8(n), 1, n, n)
\* impl for u32 u64 u128 usize with more than 16 significant bits: v is the top 16 bits
\* (0x8000..0xffff) of x = v 2^shift + low, low < 2^shift, x not a power of two
WideTop == br = "pick" /\ hi = 128 /\ Set(32768, "wide-top", Log2Fp8(32768), (16 - 1) * 256 + 1, 1, 32768, 32769)
WideGen == br = "pick" /\ hi >= 128 /\ \E lo \in LowBytes16 :
              LET n == hi * 256 + lo IN n # 32768 /\ Set(n, "wide-gen", Log2Fp8(n), CeilLog2Fp8(n), 1, n, n + 1)

Next == U8One \/ U8Pow2 \/ U8Three \/ U8Fourth \/ U8Square \/ U16Pow2 \/ U16Direct \/ WideTop \/ WideGen
Spec == Init /\ [][Next]_vars

\* (1.5849625, 1.5849626) as f32 bit patterns
ThreeLb == <<16330, 57357>>
ThreeUb == <<16330, 57358>>

Encloses ==
  CASE br = "pick" -> TRUE
    [] br = "u8-three" -> Log2BoundsWhy(FromNat(3), One, DecodeF32(ThreeLb), DecodeF32(ThreeUb)) = <<"", 0>>
    [] OTHER -> LET en == Encl256(arg) IN
                /\ Lower256OK(en, arg, lbn)
                /\ Upper256OK(IF uarg = arg THEN en ELSE Encl256(uarg), uarg, ubn)

\* documented quality: "the result is always less/greater than the exact value and estimation error <= 2"
\* is not part of the property; the enclosure is.  Kept as a cheap sanity bound on the model itself:
Sane == br \notin {"pick", "u8-three"} => (lbn <= ubn /\ ubn - lbn <= 8 /\ ubn <= 4352)
=============================================================================
