----------------------------- MODULE GcdExtAlg -----------------------------
(* Algorithm layer of C12 for the extended gcd: integer/src/gcd/lehmer.rs (gcd_ext_in_place,
   lehmer_ext_step), integer/src/gcd_ops.rs (gcd_ext_large: the second coefficient by an exact
   division) and base/src/ring/gcd.rs (ExtendedGcd for a machine word), on top of GcdLehmerAlg (the
   guess and the Lehmer step on words are taken from there).

     gcd_ext_in_place : only the cofactor of rhs is tracked: x = -t0 rhs, y = t1 rhs (mod lhs), signs
                        exchanged at every swap.  t0, t1 live in two buffers of lhs_len + 1 words with
                        explicit lengths; words above a length must be zero because the updates read
                        them.
        Euclidean step   t0 += q t1 in two parts (the low words of the quotient by add_signed_mul into
                         t0[..qlo + t1_len], the top word by add_mul_word_in_place into a window that
                         is cut at lhs_len and must still hold t1_len words - a plain assert!), the
                         carry stored at t0[qlo + t1_len]
        Lehmer step      (t0, t1) := (a t0 + b t1, c t0 + d t1) on max(t0_len, t1_len) words, each carry
                         stored one word above
        ending           y = 0: g = x, b = t0; y one word: x is divided by it IN PLACE (x keeps its
                         length), t0 += (x / y) t1 whose carry must be zero, then the word-sized
                         extended gcd (g, cx, cy) of (x mod y, y) and b = |cx| t0 + |cy| t1 into the
                         lhs_len words of lhs, carries zero; the sign of b from the parity of swaps
     gcd_ext_large    : a = (g - rhs b) / lhs, exact; |b| rhs >= g when b > 0

   Obligations: every slice and index inside its buffer, every asserted carry zero, cofactors handed
   to the steps <= SignedWord::MAX, the word-sized coefficients inside the signed word.  TLC checks for
   every pair of the scope: g = gcd(lhs, rhs), g = a lhs + b rhs, and the congruences above after
   every step. *)
EXTENDS GcdLehmerAlg
NW(v) == Len(Trim(WordsOf(v)))                     \* locate_top_word_plus_one of a clean buffer
MaxI(a, b) == IF a > b THEN a ELSE b
MinI(a, b) == IF a < b THEN a ELSE b
ModP(a, m) == ((a % m) + m) % m
AbsI(v) == IF v < 0 THEN -v ELSE v

\* ---- base/src/ring/gcd.rs for a word: returns [g, s, t, ok]
RECURSIVE PrimLoop(_, _, _, _, _, _, _)
PrimLoop(lr, r, ls, s, lt, t, ok) ==
  LET quo == lr \div r
      nr == lr - quo * r
  IN IF nr = 0 THEN [g |-> r, s |-> s, t |-> t, ok |-> ok]
     ELSE LET ns == ls - quo * s   nt == lt - quo * t
              fits(v) == v <= Lim /\ v >= -Lim - 1
          IN PrimLoop(r, nr, s, ns, t, nt, ok /\ quo <= Lim /\ fits(quo * s) /\ fits(quo * t) /\ fits(ns) /\ fits(nt))
RECURSIVE Tz(_)
Tz(v) == IF v % 2 = 1 THEN 0 ELSE 1 + Tz(v \div 2)
PrimGcdExt(a0, b0) ==
  IF a0 = 0 THEN [g |-> b0, s |-> 0, t |-> 1, ok |-> b0 # 0]
  ELSE IF b0 = 0 THEN [g |-> a0, s |-> 1, t |-> 0, ok |-> TRUE]
  ELSE LET shift == MinI(Tz(a0), Tz(b0))
           a == a0 \div 2^shift  b == b0 \div 2^shift
       IN IF a >= b
          THEN IF b = 1 THEN [g |-> 2^shift, s |-> 0, t |-> 1, ok |-> TRUE]
               ELSE LET r == PrimLoop(a, b, 1, 0, 0, 1, TRUE) IN [g |-> r.g * 2^shift, s |-> r.s, t |-> r.t, ok |-> r.ok]
          ELSE IF a = 1 THEN [g |-> 2^shift, s |-> 1, t |-> 0, ok |-> TRUE]
               ELSE LET r == PrimLoop(b, a, 1, 0, 0, 1, TRUE) IN [g |-> r.g * 2^shift, s |-> r.t, t |-> r.s, ok |-> r.ok]

\* ---- the coefficient updates on the buffers (B = the whole buffer of L + 1 words as a number, l = its length field)
\* t0 += q t1 of the Euclidean step: q = qtop Beta^qn + qlo (qn words, trimmed only when qtop = 0)
EuclidUpdate(B0, l0, B1, l1, qlo, qloLen, qtop, L) ==
  LET T1 == B1 % Beta^l1
      qt1 == qloLen + l1
      low == B0 % Beta^qt1   high == B0 \div Beta^qt1
      S1 == low + qlo * T1
      c1 == S1 \div Beta^qt1   low1 == S1 % Beta^qt1
      e == MinI(qt1, L)
      wl == e - qloLen                                      \* words of the window
      below == low1 % Beta^qloLen
      win == (low1 \div Beta^qloLen) % Beta^(IF wl > 0 THEN wl ELSE 0)
      above == low1 \div Beta^e
      S2 == win + qtop * T1
      c2 == IF qtop > 0 THEN S2 \div Beta^(IF wl > 0 THEN wl ELSE 0) ELSE 0
      low2 == IF qtop > 0 THEN below + (S2 % Beta^(IF wl > 0 THEN wl ELSE 0)) * Beta^qloLen + above * Beta^e ELSE low1
      carry == c1 + c2
  IN [B |-> IF carry > 0 THEN low2 + carry * Beta^qt1 + (high \div Beta) * Beta^(qt1 + 1) ELSE low2 + high * Beta^qt1,
      l |-> IF carry > 0 THEN qt1 + 1 ELSE NW(low2),
      ok |-> /\ qt1 <= L + 1                                 \* t0[..qt1_len]
             /\ (qtop > 0 => wl >= l1)                       \* add_mul_word_in_place: assert!(words.len() >= rhs.len())
             /\ (carry > 0 => qt1 <= L /\ carry < Beta)       \* t0[qt1_len] = t_carry
             ,
      whole |-> l0 <= qt1]                                  \* nothing of the old t0 is left out of the sum
ExtStep(B0, l0, B1, l1, a, b, c, d, L) ==
  LET tm == MaxI(l0, l1)
      lo0 == B0 % Beta^tm  hi0 == B0 \div Beta^tm
      lo1 == B1 % Beta^tm  hi1 == B1 \div Beta^tm
      v0 == a * lo0 + b * lo1   v1 == c * lo0 + d * lo1
      c0 == v0 \div Beta^tm     c1 == v1 \div Beta^tm
      put(v, cr, hi) == IF cr > 0 THEN (v % Beta^tm) + cr * Beta^tm + (hi \div Beta) * Beta^(tm + 1) ELSE (v % Beta^tm) + hi * Beta^tm
  IN [B0 |-> put(v0, c0, hi0), l0 |-> IF c0 > 0 THEN tm + 1 ELSE NW(v0 % Beta^tm),
      B1 |-> put(v1, c1, hi1), l1 |-> IF c1 > 0 THEN tm + 1 ELSE NW(v1 % Beta^tm),
      ok |-> tm <= L + 1 /\ (c0 > 0 => tm <= L) /\ (c1 > 0 => tm <= L) /\ c0 < Beta /\ c1 < Beta]

\* the invariants of the loop
Clean(B, l) == B < Beta^l
Congr(X, Y, B0, B1, sw, lhs, rhs) ==
  IF sw THEN ModP(X, lhs) = ModP(B0 * rhs, lhs) /\ ModP(Y, lhs) = ModP(-B1 * rhs, lhs)
  ELSE ModP(X, lhs) = ModP(-B0 * rhs, lhs) /\ ModP(Y, lhs) = ModP(B1 * rhs, lhs)

\* gcd_ext_in_place: returns [ok, g, b, neg]   (b unsigned, neg = sign of b is Negative)
RECURSIVE ExtLoop(_, _, _, _, _, _, _, _, _, _)
ExtLoop(xw, yw, B0, l0, B1, l1, sw, lhs, rhs, fuel) ==
  LET X == ValOf(xw)  Y == ValOf(yw)  L == NW(lhs)
      \* (the cofactor that belongs to a zero remainder is never read: when x = y the last Euclidean step leaves it
      \*  short of its top word, which is harmless - so it is only constrained while y # 0)
      inv == /\ Clean(B0, l0) /\ X >= Y
             /\ IF Y = 0 THEN Congr(X, 0, B0, 0, sw, lhs, rhs) ELSE Clean(B1, l1) /\ Congr(X, Y, B0, B1, sw, lhs, rhs)
  IN
  IF fuel = 0 THEN [ok |-> FALSE, g |-> 0, b |-> 0, neg |-> FALSE]
  ELSE IF Len(yw) > 1 THEN
    LET hw == IF Dword /\ Len(xw) >= 3 THEN HighestDwords(xw, yw) ELSE HighestWords(xw, yw)
        gs == Guess([xb |-> hw[1], yb |-> hw[2], a |-> 1, b |-> 0, c |-> 0, d |-> 1, ok |-> hw[1] >= hw[2]])
    IN IF gs.b = 0
       THEN LET n == Len(xw)  m == Len(yw)
                q == X \div Y
                qtop == q \div Beta^(n - m)
                qlo == q % Beta^(n - m)
                qloLen == IF qtop = 0 THEN NW(qlo) ELSE n - m
                u == EuclidUpdate(B0, l0, B1, l1, qlo, qloLen, qtop, L)
                nx == ExtLoop(yw, Trim(WordsOf(X % Y)), B1, l1, u.B, u.l, ~sw, lhs, rhs, fuel - 1)
            IN [nx EXCEPT !.ok = nx.ok /\ inv /\ gs.ok /\ u.ok /\ qtop < Beta
                                 /\ (X % Y # 0 => u.whole /\ u.B % Beta^u.l = (B0 % Beta^l0) + q * (B1 % Beta^l1))]
       ELSE LET st == LehmerStep(xw, yw, gs.a, gs.b, gs.c, gs.d)
                x1 == Trim(st.x)  y1 == Trim(st.y)
                e == ExtStep(B0, l0, B1, l1, gs.a, gs.b, gs.c, gs.d, L)
                swp == ValOf(x1) <= ValOf(y1)
                nx == IF swp THEN ExtLoop(y1, x1, e.B1, e.l1, e.B0, e.l0, ~sw, lhs, rhs, fuel - 1)
                      ELSE ExtLoop(x1, y1, e.B0, e.l0, e.B1, e.l1, sw, lhs, rhs, fuel - 1)
            IN [nx EXCEPT !.ok = nx.ok /\ inv /\ gs.ok /\ st.ok /\ e.ok
                                 /\ ValOf(st.x) = gs.a * X - gs.b * Y /\ ValOf(st.y) = gs.d * Y - gs.c * X]
  ELSE IF yw = <<>> THEN
    [ok |-> inv /\ l0 <= L /\ NW(X) <= NW(rhs), g |-> X, b |-> B0 % Beta^l0, neg |-> ~sw]
  ELSE
    LET yword == yw[1]
        n == Len(xw)
        xword == X % yword   xq == X \div yword
        tl == n + l1
        S == (B0 % Beta^(IF tl <= L + 1 THEN tl ELSE L + 1)) + xq * (B1 % Beta^l1)
        T0 == S  nl0 == NW(S)
        T1 == B1 % Beta^l1
        p == PrimGcdExt(xword, yword)
        sw2 == IF p.s < 0 \/ (p.s = 0 /\ p.t > 0) THEN ~sw ELSE sw
        bb == AbsI(p.s) * T0 + AbsI(p.t) * T1
    IN [ok |-> /\ inv /\ p.ok
               /\ tl <= L + 1 /\ S < Beta^tl /\ l0 <= tl            \* t0[..t0_len]; debug_assert_zero!(carry)
               /\ nl0 <= L /\ l1 <= L /\ bb < Beta^L,               \* add_mul_word_in_place into lhs, carries zero
        g |-> p.g, b |-> bb, neg |-> ~sw2]

\* gcd_ext_large after gcd_ext_in_place: [ok, g, a, b] with signed a, b
GcdExtLarge(lhs, rhs) ==
  LET r == ExtLoop(WordsOf(lhs), WordsOf(rhs), 0, 1, 1, 1, FALSE, lhs, rhs, 64)
      residue == IF r.neg THEN rhs * r.b + r.g ELSE rhs * r.b - r.g
  IN [ok |-> r.ok /\ residue >= 0 /\ residue % lhs = 0 /\ NW(r.g) <= NW(rhs) /\ NW(r.b) <= NW(lhs),
      g |-> r.g, b |-> IF r.neg THEN -r.b ELSE r.b, a |-> IF r.neg THEN residue \div lhs ELSE -(residue \div lhs)]

ExtSpec == Init /\ [][Next]_vars
GcdExtOK == phase = "done" /\ x > y =>
  LET r == GcdExtLarge(x, y) IN r.ok /\ r.g = GcdN(x, y) /\ r.a * x + r.b * y = r.g

\* ---- the word-sized extended gcd on its own (x, y reused as the two words)
PrimInit == phase = "prim" /\ x \in 0..(Beta - 1) /\ y \in 0..(Beta - 1)
PrimSpec == PrimInit /\ [][UNCHANGED vars]_vars
PrimOK == phase = "prim" /\ (x # 0 \/ y # 0) =>
  LET p == PrimGcdExt(x, y) IN p.ok /\ p.g = GcdN(x, y) /\ p.s * x + p.t * y = p.g
=============================================================================
