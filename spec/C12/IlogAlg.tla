------------------------------- MODULE IlogAlg -------------------------------
(* Algorithm layer of C12 for integer logarithms: integer/src/log.rs (mod repr) over a word of W bits.
   Every variant starts from a floating-point UNDERESTIMATE `est` of the logarithm (a quotient of f32
   log2 bounds) and repairs it by trial multiplications.  The estimate is modelled as ANY value from
   the true logarithm down to MinEst(true) - the algorithm must end at the true logarithm and keep its
   assertions whatever the estimator returns in that range:

     log_dword (word / double-word target) : est_pow = base^est, `assert!(est_pow <= target)`, multiply while
                                 the next power still fits a double word and is <= target
     log_word_base (large target, word base) : the estimate counts in units of wexp (the base lifted to
                                 wbase = base^wexp); est >= 1 is needed (pow_word_base asserts exp > 1 and
                                 est = 1 is special-cased); first multiply by wbase while the length allows
                                 (the top-double-word overestimate guards the last step), then by base
                                 until not Less; one step back when Greater
     log_large (large base)    : `est = est.max(1)` (the estimate CAN be 0 for a target just above the
                                 base), est = 1 special-cased, then multiply by base while <= target

   Values are native integers (word counts by NWords).  TLC checks every target / base of the scope
   against every admissible estimate. *)
EXTENDS Integers, Sequences, TLC
CONSTANTS W, MaxTarget
Beta == 2^W
DW == Beta * Beta
RECURSIVE BitLen(_)
BitLen(x) == IF x = 0 THEN 0 ELSE 1 + BitLen(x \div 2)
NWords(v) == (BitLen(v) + W - 1) \div W
RECURSIVE PowN(_, _)
PowN(b, e) == IF e = 0 THEN 1 ELSE b * PowN(b, e - 1)
RECURSIVE TrueLog(_, _, _)
TrueLog(t, b, p) == IF p * b <= t THEN 1 + TrueLog(t, b, p * b) ELSE 0          \* floor(log_b t) for t >= 1, starting from p = 1
Log(t, b) == TrueLog(t, b, 1)
RECURSIVE MaxExpFrom(_, _, _)
MaxExpFrom(base, e, p) == IF p * base < Beta THEN MaxExpFrom(base, e + 1, p * base) ELSE <<e, p>>
MaxExpInWord(base) == MaxExpFrom(base, 1, base)
TopDword(v) == v \div Beta^(NWords(v) - 2)                                       \* highest_dword of a value with >= 2 words

R(est, pow, ok) == [est |-> est, pow |-> pow, ok |-> ok]

\* log_dword: target, base < DW (after the shortcuts: target > base)
RECURSIVE DwordLoop(_, _, _, _)
DwordLoop(t, b, est, p) ==
  IF p * b >= DW THEN R(est, p, TRUE)                                             \* checked_mul fails
  ELSE LET nx == p * b IN
       IF nx < t THEN DwordLoop(t, b, est + 1, nx)
       ELSE IF nx = t THEN R(est + 1, nx, TRUE) ELSE R(est, p, TRUE)
LogDword(t, b, est0) == LET p0 == PowN(b, est0) IN LET r == DwordLoop(t, b, est0, p0) IN R(r.est, r.pow, p0 <= t)

\* log_word_base: target has >= 3 words, base a word >= 2 that is not... (any word base >= 2)
RECURSIVE WbaseLoop(_, _, _, _, _)
WbaseLoop(t, wexp, wbase, est, p) ==
  IF NWords(p) >= NWords(t) THEN <<est, p>>
  ELSE IF NWords(p) = NWords(t) - 1 /\ ((p \div Beta^(NWords(p) - 1)) + 1) * wbase > TopDword(t) THEN <<est, p>>
  ELSE WbaseLoop(t, wexp, wbase, est + wexp, p * wbase)
RECURSIVE BaseLoop(_, _, _, _)
BaseLoop(t, b, est, p) ==
  IF p < t THEN BaseLoop(t, b, est + 1, p * b)
  ELSE IF p = t THEN R(est, p, TRUE)
  ELSE R(est - 1, p \div b, p % b = 0)
LogWordBase(t, b, est0) ==
  LET mw == MaxExpInWord(b)
      p0 == PowN(b, est0)
      w == WbaseLoop(t, mw[1], mw[2], est0, p0)
      r == BaseLoop(t, b, w[1], w[2])
  IN R(r.est, r.pow, r.ok /\ est0 >= 1 /\ p0 <= t /\ w[2] <= t)

\* log_large: base has >= 2 words... (here: base >= DW means >= 3 words; a two-word base goes through pow_dword_base)
RECURSIVE LargeLoop(_, _, _, _)
LargeLoop(t, b, est, p) ==
  LET nx == p * b IN
  IF nx < t THEN LargeLoop(t, b, est + 1, nx)
  ELSE IF nx = t THEN R(est + 1, nx, TRUE) ELSE R(est, p, TRUE)
LogLarge(t, b, est0) ==
  LET est1 == IF est0 < 1 THEN 1 ELSE est0                                      \* est.max(1)
      p0 == PowN(b, est1)                                                        \* est = 1: the base itself; else pow_*_base(base, est) with est > 1
      r == LargeLoop(t, b, est1, p0)
  IN R(r.est, r.pow, p0 <= t /\ t >= b /\ est1 >= 1)        \* pow_dword_base / pow_large_base assert exp > 1; est = 1 is the special case

VARIABLES t, b, est, phase
vars == <<t, b, est, phase>>
\* the estimator may undershoot by up to two (and is at least half of the truth): generous for f32 log2 quotients
MinEst(l) == IF l - 2 > l \div 2 THEN l \div 2 ELSE IF l - 2 < 0 THEN 0 ELSE l - 2
Init == phase = "pick" /\ t \in 2..MaxTarget /\ b = 0 /\ est = 0
Pick == phase = "pick" /\ phase' = "done" /\ UNCHANGED t
        /\ b' \in 2..t
        /\ est' \in 0..Log(t, b')
        /\ est' >= MinEst(Log(t, b'))
Next == Pick
Spec == Init /\ [][Next]_vars

Variant == IF t < DW THEN "dword" ELSE IF b < Beta THEN "word-base" ELSE "large"
IlogOK == phase = "done" /\ t > b =>
  LET l == Log(t, b)
      r == CASE Variant = "dword" -> LogDword(t, b, est)
             [] Variant = "word-base" -> IF est >= 1 THEN LogWordBase(t, b, est) ELSE R(l, PowN(b, l), TRUE)   \* est >= 1 is the estimator's promise there
             [] OTHER -> LogLarge(t, b, est)
  IN r.ok /\ r.est = l /\ r.pow = PowN(b, l)
=============================================================================
