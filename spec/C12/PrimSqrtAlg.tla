----------------------------- MODULE PrimSqrtAlg -----------------------------
(* Algorithm layer of C12 for the square root of the widest primitive: base/src/ring/root.rs,
   `impl NormalizedRootRem for u128` (Karatsuba square root on two halves) and the normalising wrapper
   impl_rootrem_using_normalized, scaled down to a "u128" of 2H bits whose halves ("u64", H bits) have an
   exact square root (the fixed-point Newton code of the narrower types is tested exhaustively / by
   stride through the conformance traces).  K = H / 2.

     step 1  (s1, r1) = sqrt_rem of the high half
     step 2  r0 = r1 << (K - 1) | b >> (K + 1);  (q, u) = r0 divrem s1;  q = 2^K is reduced by one
             s = s1 << K | q;  r = (u << (K + 1)) | low K + 1 bits of b - the shift drops the top bits of u,
             which come back as the carry c = (u >> (K - 1)) - [r < q^2];  r = r - q^2 wrapping
     step 3  c < 0: r += s, s -= 1, r += s, the two carries added to c
     result  (s, c << H | r)
     wrapper shift = leading_zeros & ~1; root >>= shift / 2; rem = n - root^2

   Obligations: every `|` joins disjoint bit ranges, q <= 2^K, nothing but the documented wrapping
   operations leaves its type, the final c is 0 or 1.  TLC checks every n of 2H bits. *)
EXTENDS Integers, TLC
CONSTANTS H
K == H \div 2
M == 2^H
RECURSIVE BitLen(_)
BitLen(x) == IF x = 0 THEN 0 ELSE 1 + BitLen(x \div 2)
\* floor square root, bit by bit from the top (depth = half the bit length)
RECURSIVE ISqrtBits(_, _, _)
ISqrtBits(n, s, k) == IF k < 0 THEN s ELSE ISqrtBits(n, IF (s + 2^k) * (s + 2^k) <= n THEN s + 2^k ELSE s, k - 1)
ISqrt(n) == ISqrtBits(n, 0, H)
B01(c) == IF c THEN 1 ELSE 0

Normalized(n) ==       \* n has 2H or 2H - 1 bits
  LET a == n \div M  b == n % M
      s1 == ISqrt(a)  r1 == a - s1 * s1
      hi == r1 * 2^(K - 1)   lo == b \div 2^(K + 1)
      r0 == hi + lo
      q0 == r0 \div s1   u0 == r0 % s1
      big == q0 \div 2^K > 0
      q == IF big THEN q0 - 1 ELSE q0
      u == IF big THEN u0 + s1 ELSE u0
      s == s1 * 2^K + q
      rr == ((u * 2^(K + 1)) % M) + (b % 2^(K + 1))
      q2 == q * q
      c0 == u \div 2^(K - 1) - B01(rr < q2)
      r1w == (rr - q2 + M) % M
      \* step 3
      a1 == r1w + s          c1 == B01(a1 >= M)
      s2 == s - 1
      a2 == (a1 % M) + s2    c2 == B01(a2 >= M)
      fs == IF c0 < 0 THEN s2 ELSE s
      fr == IF c0 < 0 THEN a2 % M ELSE r1w
      fc == IF c0 < 0 THEN c0 + c1 + c2 ELSE c0
  IN [s |-> fs, rem |-> fc * M + fr,
      ok |-> /\ BitLen(n) >= 2 * H - 1
             /\ hi < M /\ lo < 2^(K - 1) /\ r0 < M         \* the OR joins disjoint ranges inside the type
             /\ s1 >= 2^(K - 1) /\ s1 < 2^K
             /\ q0 <= 2^K /\ q < 2^K /\ u < M
             /\ q2 < M
             /\ c0 >= -1 /\ c0 <= 2                        \* an i8
             /\ fc \in {0, 1}]

SqrtRem(n) ==
  IF n = 0 THEN [s |-> 0, rem |-> 0, ok |-> TRUE]
  ELSE LET lz == 2 * H - BitLen(n)
           shift == lz - (lz % 2)
           r == Normalized(n * 2^shift)
           root == r.s \div 2^(shift \div 2)
       IN IF shift # 0 THEN [s |-> root, rem |-> n - root * root, ok |-> r.ok /\ root * root <= n]
          ELSE r

VARIABLES n
Init == n \in 0..(M * M - 1)
Next == UNCHANGED n
Spec == Init /\ [][Next]_n
SqrtOK == LET r == SqrtRem(n) IN r.ok /\ r.s = ISqrt(n) /\ r.rem = n - r.s * r.s
=============================================================================
