--------------------------- MODULE RootRemoveAlg ---------------------------
(* Algorithm layer of C12 for nth_root (integer/src/root_ops.rs, n >= 3) and UBig::remove
   (integer/src/remove.rs).

     nth_root : 0 -> 0; bit_len <= n -> 1; else Newton's iteration x -> ((n - 1) x + N / x^(n-1)) / n from
                2^(bit_len / n) ("first go up then go down"): climb while the next iterate is larger, then
                descend while it is smaller; the last guess is the root
     remove   : None for self = 0 and for a factor 0 or 1; a power-of-two factor through the trailing zeros;
                otherwise one division by the factor (remainder -> Some(0)), then divisions by the repeated
                squares f^2, f^4, ... while they divide (the exponent grows by 1 << len(pows) - the list is
                pushed AFTER the exponent is updated), then from the highest square down, then once more by f

   TLC checks for every N of the scope and every n, resp. every (x, f): the root is the floor root and both
   loops end within the fuel; x = f^k y with f not dividing y, and every division of the code has a non-zero
   divisor. *)
EXTENDS Integers, Sequences, TLC
CONSTANTS MaxN, MaxRootN, MaxX, MaxF
RECURSIVE BitLen(_)
BitLen(x) == IF x = 0 THEN 0 ELSE 1 + BitLen(x \div 2)
RECURSIVE PowN(_, _)
PowN(b, e) == IF e = 0 THEN 1 ELSE b * PowN(b, e - 1)
\* b^e, saturating at Cap (enough to decide comparisons without overflowing TLC's integers)
Cap == 2^30
RECURSIVE PowCap(_, _)
PowCap(b, e) == IF e = 0 THEN 1 ELSE IF b = 0 THEN 0 ELSE LET p == PowCap(b, e - 1) IN IF p >= Cap \/ p > Cap \div b THEN Cap ELSE p * b

\* ---- nth_root
\* (x = 0 would be a division by zero in the code: reported through the fuel flag; x^(n-1) >= Cap > N gives quotient 0, as the real power does)
NextIt(N, n, x) == IF x = 0 THEN -1 ELSE (N \div PowCap(x, n - 1) + x * (n - 1)) \div n
RECURSIVE Up(_, _, _, _, _)
Up(N, n, guess, fix, fuel) == IF fuel = 0 THEN <<guess, fix, FALSE>> ELSE IF fix > guess THEN Up(N, n, fix, NextIt(N, n, fix), fuel - 1) ELSE <<guess, fix, TRUE>>
RECURSIVE Down(_, _, _, _, _)
Down(N, n, guess, fix, fuel) == IF fuel = 0 THEN <<guess, fix, FALSE>> ELSE IF fix < guess THEN Down(N, n, fix, NextIt(N, n, fix), fuel - 1) ELSE <<guess, fix, TRUE>>
NthRoot(N, n) ==
  IF N = 0 THEN [v |-> 0, ok |-> TRUE]
  ELSE IF BitLen(N) <= n THEN [v |-> 1, ok |-> TRUE]
  ELSE LET g0 == 2^(BitLen(N) \div n)
           u == Up(N, n, g0, NextIt(N, n, g0), 64)
           d == Down(N, n, u[1], u[2], 64)
       IN [v |-> d[1], ok |-> u[3] /\ d[3] /\ g0 >= 1 /\ d[1] >= 1 /\ d[2] >= 0]
IsFloorRoot(N, n, r) == PowCap(r, n) <= N /\ PowCap(r + 1, n) > N

\* ---- remove: [k, y, ok] or none
IsPow2(v) == v > 0 /\ 2^(BitLen(v) - 1) = v
RECURSIVE Tz(_)
Tz(v) == IF v % 2 = 1 THEN 0 ELSE 1 + Tz(v \div 2)
\* first stage: pows = <<f^2, f^4, ...>>, st = [q, exp, pows]
RECURSIVE Stage1(_, _, _, _)
Stage1(q, exp, pows, okdiv) ==
  LET last == pows[Len(pows)] IN
  IF q % last # 0 THEN [q |-> q, exp |-> exp, pows |-> pows, ok |-> okdiv /\ last # 0]
  ELSE Stage1(q \div last, exp + 2^Len(pows), Append(pows, IF last >= 32768 THEN Cap ELSE last * last), okdiv /\ last # 0)
RECURSIVE Stage2(_, _, _)
Stage2(q, exp, pows) ==
  IF pows = <<>> THEN <<q, exp>>
  ELSE LET last == pows[Len(pows)]  rest == SubSeq(pows, 1, Len(pows) - 1) IN
       IF q % last = 0 THEN Stage2(q \div last, exp + 2^(Len(rest) + 1), rest) ELSE Stage2(q, exp, rest)
Remove(x, f) ==
  IF x = 0 \/ f = 0 \/ f = 1 THEN [none |-> TRUE, k |-> 0, y |-> x, ok |-> TRUE]
  ELSE IF IsPow2(f) THEN LET bits == Tz(f)  e == Tz(x) \div bits IN [none |-> FALSE, k |-> e, y |-> x \div 2^(e * bits), ok |-> bits # 0]
  ELSE IF x % f # 0 THEN [none |-> FALSE, k |-> 0, y |-> x, ok |-> TRUE]
  ELSE LET s1 == Stage1(x \div f, 1, <<f * f>>, TRUE)
           s2 == Stage2(s1.q, s1.exp, s1.pows)
           lastdiv == s2[1] % f = 0
       IN [none |-> FALSE, k |-> IF lastdiv THEN s2[2] + 1 ELSE s2[2], y |-> IF lastdiv THEN s2[1] \div f ELSE s2[1], ok |-> s1.ok]

VARIABLES mode, a, b
vars == <<mode, a, b>>
Init == \/ mode = "root" /\ a \in 0..MaxN /\ b \in 3..MaxRootN
        \/ mode = "remove" /\ a \in 0..MaxX /\ b \in 0..MaxF
Next == UNCHANGED vars
Spec == Init /\ [][Next]_vars
RootOK == mode = "root" => LET r == NthRoot(a, b) IN r.ok /\ IsFloorRoot(a, b, r.v)
RemoveOK == mode = "remove" =>
  LET r == Remove(a, b) IN
  /\ r.ok
  /\ r.none = (a = 0 \/ b = 0 \/ b = 1)
  /\ (~r.none => a = PowN(b, r.k) * r.y /\ r.y % b # 0)
=============================================================================
