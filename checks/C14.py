"""C14 Cross-type numeric comparison and hashing agree with exact values."""
import json
import os
import framework as fw

SPECDIR = "C14"
LIBS = ("C06",)          # OrderDef extends ConvDef / Ieee of C06
VARIANTS = ["FloatVsUBig", "FloatVsIBig", "RatioVsUBig", "RatioVsIBig", "RatioVsFBig", "ReprVsRepr",
            "UBigVsPrimFloat", "IBigVsPrimFloat", "ReprVsPrimFloat", "RatioVsPrimFloat"]
LADDER_FINDINGS = ("F10", "F28", "F70")


def is_open(ctx, fid):
    return any(k["id"] == fid and k.get("status") == "open" for k in ctx.known)


def tla_bool(b):
    return "TRUE" if b else "FALSE"


def model_check(ctx):
    """OrderLadder: sign -> log2-bound filter -> exact, for ANY admissible bound pair, against the exact order.
    Fix* follow the status of the findings (open = pinned code, its input class excused; fixed = repaired code)."""
    consts = {"Slack": ctx.pick(1, 2), "MaxNum": ctx.pick(8, 10),
              "FixAbs": tla_bool(not is_open(ctx, "F10")), "FixZero": tla_bool(not is_open(ctx, "F28")),
              "FixInf": tla_bool(not is_open(ctx, "F70")), "Variants": fw.tla_set(VARIANTS)}
    ctx.scope.update({"ladder_slack": consts["Slack"], "ladder_max_numerator": consts["MaxNum"], "ladder_variants": VARIANTS})
    cfg = fw.write_cfg(ctx.path("MC_OrderLadder.cfg"), invariants=["LadderAgreesWithExactOrder"], constants=consts)
    ctx.mc("mc-ladder", SPECDIR, "OrderLadder.tla", cfg, timeout=2400)
    if any(is_open(ctx, f) for f in LADDER_FINDINGS):
        cfg = fw.write_cfg(ctx.path("MC_OrderLadder_strict.cfg"), invariants=["LadderStrict"], constants=dict(consts, MaxNum=6, Slack=1))
        r = ctx.mc("mc-ladder-strict", SPECDIR, "OrderLadder.tla", cfg, timeout=600, expect_ok=False)
        if "LadderStrict" not in r.invariant_violated:
            raise fw.ToolError("the model of the pinned ladders no longer exposes the open findings %s" % (LADDER_FINDINGS,))
        ctx.notes.append("OrderLadder without the finding classes: TLC reports a counterexample (expected while F10/F28/F70 are open)")


def fam(x):
    t = x["t"]
    if t == "F":
        return "F%d" % x["base"]
    if t in ("U", "I", "R", "RX", "f32", "f64"):
        return t
    return "prim"


def special(x):
    t = x["t"]
    if t in ("f32", "f64"):
        b = x["b"]
        top = b[-1] & 0x7fff
        full = 0x7f80 if t == "f32" else 0x7ff0
        low = any(b[:-1])
        if top & full == full:
            return "nan" if (top != full or low) else "inf"
        if top == 0 and not low:
            return "negzero" if b[-1] >> 15 else "zero"
        return None
    if t == "F":
        if x["f"]["inf"]:
            return "inf"
        return "zero" if not x["f"]["sig"]["m"] else None
    if "i" in x:
        return "zero" if not x["i"]["m"] else None
    return "zero" if not x["num"]["m"] else None


def cover(e):
    a, b, o = e["a"], e["b"], e["o"]
    fa, fb = fam(a), fam(b)
    ka, kb = ("F" if fa[0] == "F" and fa[1:].isdigit() else fa), ("F" if fb[0] == "F" and fb[1:].isdigit() else fb)
    cs = ["src:" + e.get("src", "?"), "pair:%s-%s" % (ka, kb)]
    if ka == "F" and kb == "F" and fa != fb:
        cs.append("floats-of-different-bases")
    if ka == "F":
        cs.append("base:" + fa)
    for x in (a, b):
        s = special(x)
        if s:
            cs.append("operand:" + s)
    for c in (e.get("ca"), e.get("cb")):
        if c in ("1e400", "1e-400", "3^250", "3^-250", "16^300", "16^-300", "36^200", "36^-200"):
            cs.append("operand:huge-exponent")
    if o["pcmp"] != "na":
        cs.append("num_partial_cmp:" + o["pcmp"])
        if o["pcmp"] == "Equal" and fa != fb:
            cs.append("equal-across-types")
            if o["heq"] == "true":
                cs.append("equal-across-types-same-hash")
        if e.get("ca") == e.get("cb") and o["pcmp"] in ("Less", "Greater") and e.get("ca") not in ("rnd", "wit", None):
            cs.append("neighbours-or-signs-in-one-class")
    if o["cmp"] != "na":
        cs.append("num_cmp")
    if o["eq"] != "na":
        cs.append("num_eq:" + o["eq"])
    if o["abs_cmp"] != "na":
        cs.append("abs_cmp:" + o["abs_cmp"])
        cs.append("abs:%s-%s" % (ka, kb))
    if o["abs_eq"] != "na":
        cs.append("abs_eq:" + o["abs_eq"])
    return cs


def nontrivial(e):
    return special(e["a"]) != "zero" and special(e["b"]) != "zero"


REQUIRED = (["src:gen", "src:rnd", "floats-of-different-bases", "operand:nan", "operand:inf", "operand:negzero", "operand:zero",
             "operand:huge-exponent", "equal-across-types", "equal-across-types-same-hash", "neighbours-or-signs-in-one-class",
             "num_partial_cmp:Less", "num_partial_cmp:Equal", "num_partial_cmp:Greater", "num_partial_cmp:None", "num_cmp",
             "num_eq:true", "num_eq:false", "abs_cmp:Less", "abs_cmp:Equal", "abs_cmp:Greater", "abs_eq:true", "abs_eq:false",
             "base:F2", "base:F3", "base:F10", "base:F16", "base:F36"]
            + ["pair:%s-%s" % (x, y) for x in ("U", "I", "F", "R", "RX") for y in ("U", "I", "F", "R", "RX", "prim", "f32", "f64")
               if not (x == y and x in ("R", "RX"))]
            + ["pair:%s-%s" % (y, x) for x in ("U", "I", "F", "R", "RX") for y in ("prim", "f32", "f64")]
            + ["abs:%s-%s" % (x, y) for x in ("U", "I", "F", "R", "RX") for y in ("U", "I", "F", "R", "RX")])


def witnesses(ctx):
    return [(k["id"], k["witness"]) for k in ctx.known
            if k.get("status") == "open" and "C14" in k.get("properties", []) and "witness" in k]


def run(ctx):
    drive = fw.build("std64", "c14")
    if ctx.replay:
        case = json.load(open(ctx.replay))["case"]
        p = ctx.path("replay-case.ndjson")
        open(p, "w").write(json.dumps(case) + "\n")
        tr = ctx.drive(drive, ["--cases", p, "--n", "0"], "trace-replay.ndjson")
        ctx.monitor("replay", SPECDIR, "Trace_C14.tla", "Trace_C14.cfg", tr, libs=LIBS)
        return ctx.finish()
    model_check(ctx)
    # spec -> impl: pools enumerated by TLC (seed value x type that holds it exactly), all ordered pairs
    wit = witnesses(ctx)
    stride = ctx.pick(8, 2)
    passes = ctx.pick(1, 2)
    ctx.scope.update({"pool_stride": stride, "pool_passes": passes})
    for p in range(passes):
        cfg = fw.write_cfg(ctx.path("Gen_C14_%d.cfg" % p), invariants=["Emit"],
                           constants={"Seed": (ctx.seed + p) % 1000, "Stride": stride})
        cases, n = ctx.gen("gen%d" % p, SPECDIR, "Gen_C14.tla", cfg, timeout=1500, libs=LIBS)
        if p == 0:
            with open(cases, "a") as f:
                for _, w in wit:
                    f.write(json.dumps(w) + "\n")
        tr = ctx.drive(drive, ["--cases", cases, "--n", "0"], "trace-gen%d.ndjson" % p)
        ctx.monitor("mon-gen%d" % p, SPECDIR, "Trace_C14.tla", "Trace_C14.cfg", tr, libs=LIBS, nontrivial=nontrivial, cover=cover,
                    timeout=3000, heap="10g")
    # impl -> spec: seeded random clusters (one exact value in several types + last-bit neighbours)
    n = ctx.pick(21, 150)
    tr2 = ctx.drive(drive, ["--seed", str(ctx.seed), "--n", str(n)], "trace-rnd.ndjson")
    ctx.monitor("mon-rnd", SPECDIR, "Trace_C14.tla", "Trace_C14.cfg", tr2, libs=LIBS, nontrivial=nontrivial, cover=cover, timeout=3000,
                heap="10g")
    rc = ctx.finish(
        rule="one event = one ordered pair (a, b) of typed values with every trait method the library implements for the pair "
             "(num_partial_cmp, num_cmp, num_eq, abs_cmp, abs_eq, NumHash equality); distinct = distinct (a, b, outcomes); "
             "non-trivial = neither operand is zero",
        explanation="OrderLadder (sign -> log2-bound filter -> exact, bounds abstracted to any admissible pair) is model-checked "
                    "against the exact order; TLC enumerates mixed-type pools (Gen_C14) and validates every recorded pair against "
                    "OrderDef on exact rationals (primitive floats decoded by the parametric IEEE format of C06).",
        required_cover=REQUIRED)
    stale = fw.stale_findings_check(ctx, [w for w, _ in wit])
    if stale and not os.environ.get("VERIF_REPO"):
        print("TOOL-ERROR C14: open findings whose witness no longer fails (stale known_findings.json): %s" % stale, flush=True)
        return 2 if rc == 0 else rc
    return rc


def selftest(ctx):
    """binding demonstration: corrupt one recorded ordering, the monitor must reject exactly that event"""
    drive = fw.build("std64", "c14")
    cases = ctx.path("selftest-cases.ndjson")
    vals = [{"t": "U", "i": {"s": 0, "m": [7]}}, {"t": "I", "i": {"s": 1, "m": [9]}},
            {"t": "F", "base": 10, "f": {"sig": {"s": 0, "m": [75]}, "exp": -1, "inf": 0, "prec": 0}},
            {"t": "R", "num": {"s": 0, "m": [22]}, "den": {"s": 0, "m": [7]}}, {"t": "f64", "b": [0, 0, 0, 0x401E]},
            {"t": "u8", "i": {"s": 0, "m": [7]}}]
    with open(cases, "w") as f:
        for v in vals:
            f.write(json.dumps({"op": "val", "cls": "selftest", "v": v}) + "\n")
    tr = ctx.drive(drive, ["--cases", cases, "--n", "0"], "trace.ndjson")
    lines = open(tr).read().split("\n")
    k = next(i for i, l in enumerate(lines) if l and json.loads(l)["o"]["pcmp"] == "Less")
    e = json.loads(lines[k])
    e["o"]["pcmp"] = "Greater"
    lines[k] = json.dumps(e)
    open(tr, "w").write("\n".join(lines))
    v = ctx.monitor("selftest", SPECDIR, "Trace_C14.tla", "Trace_C14.cfg", tr, libs=LIBS)
    ok = [x["i"] for x in v["bad"]] == [k + 1]
    print("SELFTEST %s: corrupted event %d -> monitor flagged %s" % ("PASS" if ok else "FAIL", k + 1, [(x["i"], x["why"]) for x in v["bad"]]))
    return 0 if ok else 2
