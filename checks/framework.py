"""Orchestration shared by all property checks.

Pipeline of a check (DESIGN.md, Appendix C):
  build harness from /repo's working tree  ->  TLC model checking of the algorithm-layer specs
  ->  TLC behaviour generation (spec -> impl cases)  ->  harness replay / seeded drivers (trace)
  ->  TLC trace monitor (verdict)  ->  known-findings matching  ->  evidence  ->  exit code.

Exit codes: 0 held (KNOWN-FINDING lines allowed), 1 VIOLATION, 2 tool error (never a verdict).
"""
import hashlib
import json
import os
import re
import shutil
import subprocess
import sys
import time

ROOT = os.path.dirname(os.path.dirname(os.path.abspath(__file__)))
SPEC = os.path.join(ROOT, "spec")
LIB = os.path.join(SPEC, "lib")
HARNESS = os.path.join(ROOT, "harness")
RUN = os.path.join(ROOT, "run")
EVID = os.path.join(ROOT, "evidence")
KNOWN = os.path.join(ROOT, "known_findings.json")
NCPU = os.cpu_count() or 4


class ToolError(Exception):
    pass


def log(*a):
    print(*a, file=sys.stderr, flush=True)


def sh(cmd, cwd=None, env=None, timeout=None, capture=True):
    e = dict(os.environ)
    e.update({"CARGO_NET_OFFLINE": "true"})
    if env:
        e.update(env)
    try:
        p = subprocess.run(cmd, cwd=cwd, env=e, timeout=timeout, text=True, errors="replace",
                           stdout=subprocess.PIPE if capture else None,
                           stderr=subprocess.STDOUT if capture else None)
    except subprocess.TimeoutExpired as ex:
        raise ToolError("timeout after %ss: %s" % (timeout, " ".join(cmd[:6]))) from ex
    return p.returncode, (p.stdout or "")


# ------------------------------------------------------------------ harness builds
VARIANTS = {
    # name: (cargo args, extra rustflags, target dir)
    "std64": ([], [], "target"),
    "release": (["--release"], [], "target"),
    "w32": ([], ["--cfg", 'force_bits="32"'], "target-w32"),
    "nostd": (["--no-default-features"], [], "target-nostd"),
}


def has_probe():
    return os.path.exists(os.path.join(os.environ.get("VERIF_REPO") or "/repo", "integer", "src", "verif_probe.rs"))


def build(variant="std64", bin_name="drive"):
    """(Re)builds the harness against /repo's current working tree; returns the binary path."""
    cargo_args, flags, tdir = VARIANTS[variant]
    rustflags = ["--cfg", "dashu_verif", "--check-cfg", "cfg(dashu_verif)",
                 "--check-cfg", 'cfg(force_bits, values("16","32","64"))'] + flags
    alt = os.environ.get("VERIF_REPO")     # development aid: build against a scratch worktree instead of /repo
    # the rare-branch counters (integer/src/verif_probe.rs, cfg(dashu_verif)) exist from the hook commit on: the harness
    # code that reads them is compiled only against a tree that has them
    rustflags += ["--check-cfg", "cfg(dashu_probe)"]
    if has_probe():
        rustflags += ["--cfg", "dashu_probe"]
    if alt:
        tdir = os.path.join("/tmp", "verif-target-" + hashlib.md5(alt.encode()).hexdigest()[:8], tdir)
        cargo_args = cargo_args + ["--config", "paths=[%s]" % ",".join(
            '"%s/%s"' % (alt, d) for d in ("base", "integer", "float", "rational", "macros"))]
    cargo = ["cargo"]
    if os.environ.get("VERIF_COV") and variant == "std64":
        # development aid: source-coverage build (nightly's llvm-tools read the profiles); set LLVM_PROFILE_FILE for the drivers.
        # Shows which library code no driver run reaches - the implementation-side counterpart of an action never taken.
        rustflags += ["-C", "instrument-coverage"]
        tdir = os.path.join(os.environ["VERIF_COV"], tdir)
        cargo = ["cargo", "+nightly"]
    env = {"CARGO_ENCODED_RUSTFLAGS": "\x1f".join(rustflags), "CARGO_TARGET_DIR": os.path.join(HARNESS, tdir)}
    t = time.time()
    rc, out = sh(cargo + ["build", "--offline", "--bin", bin_name] + cargo_args, cwd=HARNESS, env=env, timeout=1800)
    if rc != 0:
        sys.stderr.write(out[-6000:])
        raise ToolError("harness build failed (%s)" % variant)
    prof = "release" if "--release" in cargo_args else "debug"
    log("[build] %s %s in %.1fs" % (variant, bin_name, time.time() - t))
    return os.path.join(HARNESS, tdir, prof, bin_name)


# ------------------------------------------------------------------ TLC
JAVA_BASE = "-Xss1g -XX:+UseParallelGC"
_STATE_RE = re.compile(r"(\d+) states generated, (\d+) distinct states found, (\d+) states left on queue")


class TlcResult:
    def __init__(self, name, rc, out, wall):
        self.name, self.rc, self.out, self.wall = name, rc, out, wall
        m = None
        for m in _STATE_RE.finditer(out):
            pass
        self.generated = int(m.group(1)) if m else 0
        self.distinct = int(m.group(2)) if m else 0
        self.ok = ("Model checking completed. No error has been found." in out) and rc == 0
        self.invariant_violated = re.findall(r"Invariant (\w+) is violated", out)
        self.printed = []  # decoded PrintT payloads: (tag, obj)
        for mm in re.finditer(r'^<<"([A-Z]+)", "(.*)">>$', out, re.M):
            try:
                self.printed.append((mm.group(1), json.loads(json.loads('"' + mm.group(2) + '"'))))
            except Exception:
                self.printed.append((mm.group(1), mm.group(2)))

    def tagged(self, tag):
        return [o for t, o in self.printed if t == tag]

    def coverage(self):
        """per-action counts from -coverage output: {action name: distinct states found}"""
        cov = {}
        for mm in re.finditer(r"^<(\w+) line \d+, col \d+ to line \d+, col \d+ of module \w+>: (\d+):(\d+)", self.out, re.M):
            cov[mm.group(1)] = cov.get(mm.group(1), 0) + int(mm.group(3))
        return cov


def tlc(name, specdir, module, cfg, rundir, workers=1, timeout=900, env=None, deque=False, heap="4g",
        coverage=False, libs=()):
    meta = os.path.join(rundir, "tlc-" + name)
    shutil.rmtree(meta, ignore_errors=True)
    os.makedirs(meta, exist_ok=True)
    libpath = os.pathsep.join([LIB] + [os.path.join(SPEC, d) for d in libs])
    jopts = "%s -Xmx%s -DTLA-Library=%s" % (JAVA_BASE, heap, libpath)
    if deque:
        jopts += " -Dtlc2.tool.queue.IStateQueue=StateDeque"
    e = {"JAVA_TOOL_OPTIONS": jopts}
    if env:
        e.update(env)
    cmd = ["timeout", str(timeout), "tlc", "-workers", str(workers), "-metadir", meta, "-cleanup",
           "-noGenerateSpecTE", "-config", cfg]
    if coverage:
        cmd += ["-coverage", "1"]
    cmd += [module]
    t = time.time()
    rc, out = sh(cmd, cwd=specdir, env=e, timeout=timeout + 30)
    wall = time.time() - t
    with open(os.path.join(rundir, "tlc-%s.log" % name), "w") as f:
        f.write(out)
    shutil.rmtree(meta, ignore_errors=True)
    r = TlcResult(name, rc, out, wall)
    log("[tlc] %-22s rc=%d states=%d distinct=%d %.1fs" % (name, rc, r.generated, r.distinct, wall))
    if rc == 124:
        raise ToolError("TLC timeout in %s" % name)
    return r


def write_cfg(path, spec="Spec", invariants=(), constants=None, postcondition=None, constraint=None, view=None):
    lines = ["SPECIFICATION " + spec]
    for i in invariants:
        lines.append("INVARIANT " + i)
    if postcondition:
        lines.append("POSTCONDITION " + postcondition)
    if constraint:
        lines.append("CONSTRAINT " + constraint)
    if view:
        lines.append("VIEW " + view)
    if constants:
        lines.append("CONSTANTS")
        for k, v in constants.items():
            # a value written "<- Name" substitutes an operator of the MC module for the constant
            if isinstance(v, str) and v.startswith("<-"):
                lines.append("  %s %s" % (k, v))
            else:
                lines.append("  %s = %s" % (k, v))
    lines.append("CHECK_DEADLOCK FALSE")
    with open(path, "w") as f:
        f.write("\n".join(lines) + "\n")
    return path


def tla_set(xs):
    return "{" + ", ".join(json.dumps(x) if isinstance(x, str) else str(x) for x in xs) + "}"


# ------------------------------------------------------------------ oracle self-check
def lib_selfcheck(rundir):
    """spec/lib is model-checked against TLC's native integers before it is believed (cached by content)."""
    h = hashlib.sha256()
    for fn in sorted(os.listdir(LIB)):
        if fn.endswith(".tla") or fn.endswith(".cfg"):
            h.update(open(os.path.join(LIB, fn), "rb").read())
    stamp = os.path.join(RUN, ".libcheck-%s.ok" % h.hexdigest()[:16])
    if os.path.exists(stamp):
        return json.load(open(stamp))
    res = {"runs": []}
    for mod in sorted(f[:-4] for f in os.listdir(LIB) if f.startswith("MC_") and f.endswith(".tla")):
        r = tlc("lib-" + mod, LIB, mod + ".tla", mod + ".cfg", rundir, workers=min(12, NCPU), timeout=1500)
        if not r.ok:
            sys.stderr.write(r.out[-3000:])
            raise ToolError("oracle library self-check failed: " + mod)
        res["runs"].append({"module": mod, "states": r.distinct, "wall_s": round(r.wall, 1)})
    os.makedirs(RUN, exist_ok=True)
    json.dump(res, open(stamp, "w"))
    return res


# ------------------------------------------------------------------ known findings
def intval(x):
    """python int of a wire integer {s, m}"""
    if isinstance(x, int):
        return x
    v = int.from_bytes(bytes(x.get("m", [])), "little")
    return -v if x.get("s", 0) == 1 else v


def nwords(x, wb=8):
    return (len(x.get("m", [])) + wb - 1) // wb


def load_known():
    """known_findings.json; VERIF_ASSUME_FIXED=id,id treats the listed entries as fixed for this run (development aid,
    like VERIF_REPO: used to test a candidate repair in a scratch worktree before the entry is flipped; nothing is written)"""
    if not os.path.exists(KNOWN):
        return []
    known = json.load(open(KNOWN))
    assume = [x for x in os.environ.get("VERIF_ASSUME_FIXED", "").split(",") if x]
    for k in known:
        if k.get("id") in assume:
            k["status"] = "fixed"
    return known


def _rne_shift(m, k):
    """m / 2^k rounded to nearest, ties to even (k may be <= 0)"""
    if k <= 0:
        return m << -k
    q, r, h = m >> k, m & ((1 << k) - 1), 1 << (k - 1)
    return q + 1 if (r > h or (r == h and q & 1)) else q


def ieee_double_rounded(sig, exp, ft):
    """Magnitude bits of the f32/f64 that results from rounding |sig| * 2^exp FIRST to 24/53 bits and THEN to the
    target's (subnormal) grid, both half-even: the behaviour finding F66 describes.  Returns the set of magnitude
    bit patterns that F66 (and for f32 the F61 threshold, which flushes (2^-150, 2^-149) to zero) explains."""
    M, emin = (24, -149) if ft == "f32" else (53, -1074)
    m = abs(sig)
    if m == 0:
        return {0}
    k = m.bit_length() - M
    if k > 0:
        m, exp = _rne_shift(m, k), exp + k
    top = m.bit_length() - 1 + exp
    u = max(emin, top - (M - 1))
    out = {_rne_shift(m, u - exp)}           # magnitude bits when u == emin (also right for the carry into the first normal binade)
    if ft == "f32" and top == -150 and m & (m - 1) and _status_of("F61") == "open":
        out.add(0)
    return out


def _status_of(fid):
    for k in load_known():
        if k.get("id") == fid:
            return k.get("status")
    return None


def f66_explains(e):
    """the failing to_f event is the double rounding of F66: binary FBig/Repr source below the normal range and every
    observed result is the double-rounded one (any other wrong result in that range is NOT this finding)"""
    x = e["x"]
    if x.get("t") not in ("F", "FR") or x.get("base") != 2:
        return False
    ft = e["ft"]
    W = 32 if ft == "f32" else 64
    allowed = ieee_double_rounded(intval(x["f"]["sig"]), x["f"]["exp"], ft)
    for o in e.get("outs", []):
        out = o["out"]
        if out.get("k") != "ok" or "b" not in out:
            return False
        bits = sum(c << (16 * i) for i, c in enumerate(out["b"])) & ((1 << (W - 1)) - 1)
        if bits not in allowed:
            return False
    return True


def _ieee_rne(m, exp, ft):
    """(magnitude bit pattern, sign of result - value) of m * 2^exp (m > 0) rounded to nearest-even into f32 / f64"""
    M, emin, emax, bias, W = (24, -149, 128, 127, 32) if ft == "f32" else (53, -1074, 1024, 1023, 64)
    top = m.bit_length() - 1 + exp
    u = max(emin, top - (M - 1))
    q = _rne_shift(m, u - exp)
    lhs, rhs = (q << (u - exp), m) if u >= exp else (q, m << (exp - u))
    c = (lhs > rhs) - (lhs < rhs)
    while q >= (1 << M):
        q, u = q >> 1, u + 1
    if q >= (1 << (M - 1)) and u + M - 1 >= emax:
        return ((2 * bias + 1) << (M - 1)), 1          # infinity
    if q < (1 << (M - 1)):
        return q, c                                     # subnormal (u == emin) or zero
    return ((u + M - 1 + bias) << (M - 1)) | (q - (1 << (M - 1))), c


def rat_to_f_model(num, den, ft):
    """What rational Repr::to_f32 / to_f64 computes (rational/src/convert.rs: a 25/54-bit quotient rounded half-even to
    an integer, then FloatEncoding::encode rounds again): (magnitude bits, flag) with flag in Exact / Positive / Negative."""
    M, emax, under = (24, 128, -149 - 25) if ft == "f32" else (53, 1024, -1074 - 53)
    sgn, n = (-1 if num < 0 else 1), abs(num)
    name = lambda v: "Exact" if v == 0 else "Positive" if v > 0 else "Negative"
    if n == 0:
        return 0, "Exact"
    shift = n.bit_length() - den.bit_length() - M
    N, D = (n, den << shift) if shift >= 0 else (n << -shift, den)
    inf = ((2 * (127 if ft == "f32" else 1023) + 1) << (M - 1))
    if shift >= emax:
        return inf, name(sgn)
    if shift < under:
        return 0, name(-sgn)
    man, r = divmod(N, D)
    if r == 0:
        e1 = 0
    elif 2 * r > D or (2 * r == D and man & 1):
        man, e1 = man + 1, sgn
    else:
        e1 = -sgn
    bits, c = _ieee_rne(man, shift, ft)
    e2 = sgn * c
    return bits, name(e2 if e2 != 0 else e1)


def f66_rat_explains(e):
    """the failing to_f event on a rational below the normal range is exactly the double rounding F66 describes: every
    correctly-rounding form (to_f32 / to_f64) returned what the two-step computation of the source gives, bits AND error sign"""
    x = e["x"]
    if x.get("t") not in ("R", "RX"):
        return False
    ft = e["ft"]
    W = 32 if ft == "f32" else 64
    bits, flag = rat_to_f_model(intval(x["num"]), intval(x["den"]), ft)
    seen = False
    for o in e.get("outs", []):
        out = o["out"]
        if out.get("k") != "ok" or "b" not in out:
            return False
        if "flag" not in out:
            continue                                     # the *_fast forms promise nothing about the last bit
        seen = True
        got = sum(c << (16 * i) for i, c in enumerate(out["b"])) & ((1 << (W - 1)) - 1)
        if got != bits or out["flag"] != flag:
            return False
    return seen


_HELPERS = {"f66_explains": f66_explains, "f66_rat_explains": f66_rat_explains, "intval": intval, "nwords": nwords, "len": len, "abs": abs, "any": any, "all": all, "min": min, "max": max,
            "re": re, "int": int, "str": str, "isinstance": isinstance, "dict": dict, "list": list, "set": set, "sorted": sorted}


def match_known(prop, ev, why, known):
    """returns the open known-finding entry that explains this failing event, or None"""
    for k in known:
        if k.get("status") != "open" or prop not in k.get("properties", [k.get("property")]):
            continue
        m = k["match"]
        if "op" in m and ev.get("op") not in (m["op"] if isinstance(m["op"], list) else [m["op"]]):
            continue
        if "why" in m and why not in (m["why"] if isinstance(m["why"], list) else [m["why"]]):
            continue
        if "when" in m:
            try:
                env = dict(_HELPERS)
                env.update({"e": ev, "why": why, "__builtins__": {}})
                if not eval(m["when"], env):
                    continue
            except Exception:
                continue
        return k
    return None


# ------------------------------------------------------------------ constants read from the source
def source_constants():
    """Algorithm switch points of dashu-int, read from /repo so that the generated size classes follow the code:
    {name: value}; a constant that cannot be found falls back to the pinned value and is listed under 'unbound'."""
    spec = {
        "MUL_THRESHOLD_SIMPLE": ("integer/src/mul/mod.rs", r"const THRESHOLD_SIMPLE: usize = (\d+);", 24),
        "MUL_THRESHOLD_KARATSUBA": ("integer/src/mul/mod.rs", r"const THRESHOLD_KARATSUBA: usize = (\d+);", 192),
        "SQR_MAX_LEN_SIMPLE": ("integer/src/sqr/mod.rs", r"const MAX_LEN_SIMPLE: usize = (\d+);", 30),
        "DIV_THRESHOLD_SIMPLE": ("integer/src/div/mod.rs", r"const THRESHOLD_SIMPLE: usize = (\d+);", 32),
        # the closed formulas of the scratch-memory requirement: a * n + b * ceil_log2(n)
        "KARATSUBA_MEM_A": ("integer/src/mul/karatsuba.rs", r"let num_words = (\d+) \* n \+ \d+ \* \(math::ceil_log2\(n\) as usize\);", 2),
        "KARATSUBA_MEM_B": ("integer/src/mul/karatsuba.rs", r"let num_words = \d+ \* n \+ (\d+) \* \(math::ceil_log2\(n\) as usize\);", 2),
        "TOOM3_MEM_A": ("integer/src/mul/toom_3.rs", r"let num_words = (\d+) \* n \+ \d+ \* \(math::ceil_log2\(n\) as usize\);", 4),
        "TOOM3_MEM_B": ("integer/src/mul/toom_3.rs", r"let num_words = \d+ \* n \+ (\d+) \* \(math::ceil_log2\(n\) as usize\);", 13),
        "GCD_MIN_DWORD_GUESS_LEN": ("integer/src/gcd/lehmer.rs", r"pub const MIN_DWORD_GUESS_LEN: usize = (\d+);", 300),
        "MUL_SIMPLE_CHUNK_LEN": ("integer/src/mul/simple.rs", r"const CHUNK_LEN: usize = (\d+);", 1024),
        "KARATSUBA_MIN_LEN": ("integer/src/mul/karatsuba.rs", r"pub const MIN_LEN: usize = (\d+);", 3),
        "TOOM3_MIN_LEN": ("integer/src/mul/toom_3.rs", r"pub const MIN_LEN: usize = (\d+);", 16),
    }
    repo = os.environ.get("VERIF_REPO", "/repo")
    out, unbound = {}, []
    for name, (path, rx, default) in spec.items():
        try:
            m = re.search(rx, open(os.path.join(repo, path)).read())
            out[name] = int(m.group(1))
        except Exception:
            out[name] = default
            unbound.append(name)
    out["unbound"] = unbound
    return out


# ------------------------------------------------------------------ check context
class Ctx:
    def __init__(self, prop, tier, seed, replay=None):
        self.prop, self.tier, self.seed, self.replay = prop, tier, seed, replay
        self.t0 = time.time()
        self.rundir = os.path.join(RUN, "%s-%s-%d" % (prop, tier, os.getpid()))
        shutil.rmtree(self.rundir, ignore_errors=True)
        os.makedirs(self.rundir, exist_ok=True)
        self.tlc_runs = []
        self.states = 0
        self.transitions = 0
        self.events = 0
        self.traces = 0
        self.violations = []    # (event, why, source)
        self.beyond = []        # (event, why, source): observations beyond the statement
        self.beyond_checked = 0
        self.probe_hits = {}    # rare-branch counters of the library summed over the driver runs
        self.known_hits = {}    # id -> count
        self.samples = []
        self.cover = {}
        self.distinct = set()
        self.notes = []
        self.scope = {}
        self.known = load_known()
        self.assumptions = []
        self.drift = 0
        self.alt_prop = None        # C19 replays other families: their findings are matched under their own property
        self.viol_alt = {}

    @property
    def quick(self):
        return self.tier == "quick"

    def pick(self, quick, thorough):
        return quick if self.quick else thorough

    def path(self, name):
        return os.path.join(self.rundir, name)

    # -- TLC wrappers -------------------------------------------------------------------------
    def _account(self, r, kind):
        self.tlc_runs.append({"name": r.name, "kind": kind, "generated": r.generated, "distinct": r.distinct,
                              "wall_s": round(r.wall, 1)})
        self.states += r.distinct
        self.transitions += r.generated

    def mc(self, name, specdir, module, cfg, workers=None, timeout=1500, required_actions=(), libs=(), heap="8g",
           expect_ok=True):
        """Exhaustive small-scope model checking of an algorithm-layer spec against its definition."""
        r = tlc(name, os.path.join(SPEC, specdir), module, cfg, self.rundir, workers=workers or min(12, NCPU),
                timeout=timeout, coverage=bool(required_actions), libs=libs, heap=heap)
        self._account(r, "mc")
        if r.invariant_violated and expect_ok:
            # a design-level counterexample in the model of the code: reported through the
            # conformance path (the model mirrors the code), here it is a violation of the property
            self.violations.append(({"op": "model:" + module, "invariant": r.invariant_violated,
                                     "log": self.path("tlc-%s.log" % name)}, "model-invariant-violated", "mc"))
            return r
        if not r.ok and expect_ok:
            sys.stderr.write(r.out[-3000:])
            raise ToolError("TLC failed on %s" % module)
        if required_actions:
            cov = r.coverage()
            missing = [a for a in required_actions if cov.get(a, 0) == 0]
            if missing:
                raise ToolError("vacuity: actions never taken in %s: %s" % (module, missing))
        return r

    def gen(self, name, specdir, module, cfg, workers=None, timeout=900, libs=(), tag="GEN"):
        """TLC enumerates the case partition; returns the path of the ndjson case file."""
        r = tlc(name, os.path.join(SPEC, specdir), module, cfg, self.rundir, workers=workers or min(8, NCPU),
                timeout=timeout, libs=libs)
        self._account(r, "gen")
        if not r.ok:
            sys.stderr.write(r.out[-3000:])
            raise ToolError("TLC generator failed: %s" % module)
        cases = r.tagged(tag)
        if not cases:
            raise ToolError("generator %s produced no cases" % module)
        # deterministic order (TLC workers print in arbitrary order)
        cases.sort(key=lambda c: json.dumps(c, sort_keys=True))
        p = self.path("cases-%s.ndjson" % name)
        with open(p, "w") as f:
            for i, c in enumerate(cases):
                if isinstance(c, dict):
                    c.setdefault("id", i + 1)
                f.write(json.dumps(c) + "\n")
        log("[gen] %s: %d cases" % (name, len(cases)))
        return p, len(cases)

    def append_witnesses(self, cases_path, select=None):
        """appends the witness case of every finding of this property (open: must still be observed and is
        matched; fixed: must not fail any more) to a case file; returns the number appended"""
        n = 0
        with open(cases_path, "a") as f:
            for k in self.known:
                if self.prop in k.get("properties", []) and "witness" in k and (select is None or select(k)):
                    for wk in ("witness", "witness2", "witness3"):
                        if wk in k:
                            w = dict(k[wk])
                            w["witness_of"] = k["id"]
                            f.write(json.dumps(w) + "\n")
                            n += 1
        return n

    def drive(self, binary, argv, out_name, timeout=1800, env=None):
        out = self.path(out_name)
        rc, o = sh([binary] + argv + ["--out", out], cwd=self.rundir, timeout=timeout, env=env)
        if rc != 0:
            sys.stderr.write(o[-3000:])
            raise ToolError("harness driver failed rc=%d: %s" % (rc, " ".join(argv[:4])))
        # rare-branch counters of the library as seen by this driver run (side file, written when the tree has the hook)
        side = out + ".probe"
        if os.path.exists(side):
            try:
                for h in json.load(open(side)).get("hits", []):
                    if h["n"]:
                        self.probe_hits[h["name"]] = self.probe_hits.get(h["name"], 0) + h["n"]
                        self.cover["branch:" + h["name"]] = self.cover.get("branch:" + h["name"], 0) + h["n"]
            except Exception:
                pass
        return out

    def monitor(self, name, specdir, module, cfg, trace, timeout=1500, libs=(), heap="6g", nontrivial=None,
                key=None, cover=None):
        """Validates a recorded trace with a TLC monitor; failing events are matched against the
        known findings; returns the verdict object."""
        nlines = sum(1 for _ in open(trace))
        if nlines == 0:
            raise ToolError("empty trace " + trace)
        r = tlc(name, os.path.join(SPEC, specdir), module, cfg, self.rundir, workers=1, timeout=timeout,
                env={"TRACE": trace}, deque=True, libs=libs, heap=heap)
        self._account(r, "monitor")
        v = r.tagged("VERDICT")
        if not r.ok or not v:
            sys.stderr.write(r.out[-4000:])
            raise ToolError("trace monitor %s did not complete" % module)
        v = v[-1]
        if v["total"] != nlines:
            raise ToolError("monitor consumed %d of %d events" % (v["total"], nlines))
        self.events += nlines
        self.traces += 1
        events = None
        badidx = {b["i"]: b["why"] for b in v["bad"]}
        # observations beyond the property's statement (reported, never a violation)
        bydidx = {b["i"]: b["why"] for b in v.get("beyond", [])}
        self.beyond_checked += v.get("beyond_checked", 0)
        with open(trace) as f:
            for i, line in enumerate(f, 1):
                if i in bydidx:
                    self.beyond.append((_shorten(json.loads(line)), bydidx[i], name))
                need = i in badidx or len(self.samples) < 3 or nontrivial or cover
                if not need:
                    continue
                e = json.loads(line)
                if i in badidx:
                    self.violations.append((e, badidx[i], name))
                    if self.alt_prop:
                        self.viol_alt[id(e)] = self.alt_prop
                if cover:
                    for c in cover(e):
                        self.cover[c] = self.cover.get(c, 0) + 1
                if nontrivial is None or nontrivial(e):
                    kk = key(e) if key else hashlib.md5(json.dumps({k: e[k] for k in e if k not in ("seq", "src", "id")},
                                                                   sort_keys=True).encode()).hexdigest()
                    self.distinct.add(kk)
                if len(self.samples) < 3 and i % 7 == 1:
                    self.samples.append(_shorten(e))
        return v

    # -- verdict ------------------------------------------------------------------------------
    def finish(self, level="model_checking", rule="", explanation="", extra=None, required_cover=()):
        missing = [c for c in required_cover if self.cover.get(c, 0) == 0]
        # (a run that died with a violation - a driver killed under guard pages, say - explains the classes it never reached:
        #  the violation is reported; vacuity is a tool error only when nothing was found)
        if missing and not self.violations:
            raise ToolError("vacuity: conformance classes never exercised: %s" % missing)
        new = []
        lines = []
        for ev, why, src in self.violations:
            alt = self.viol_alt.get(id(ev))
            k = match_known(self.prop, ev, why, self.known) or (alt and match_known(alt, ev, why, self.known))
            if k:
                self.known_hits[k["id"]] = self.known_hits.get(k["id"], 0) + 1
            else:
                new.append((ev, why, src))
        for k in self.known:
            if k.get("status") == "open" and k["id"] in self.known_hits:
                lines.append("KNOWN-FINDING: property=%s %s %s (%d event(s) this run)" %
                             (self.prop, k["id"], k["what"], self.known_hits[k["id"]]))
        rc = 0
        vfiles = []
        for n, (ev, why, src) in enumerate(new[:20]):
            p = self.path("violation-%d.json" % (n + 1))
            json.dump({"property": self.prop, "why": why, "source": src, "seed": self.seed, "tier": self.tier, "case": ev},
                      open(p, "w"))
            vfiles.append(p)
            lines.append("VIOLATION property=%s replay=%s" % (self.prop, p))
            log("  why=%s op=%s" % (why, ev.get("op")))
            rc = 1
        wall = time.time() - self.t0
        cov = {
            "states": max(self.states, 1), "transitions": max(self.transitions, 1),
            "traces_validated_against_impl": self.events - len(self.violations) if self.events else 0,
            "samples": self.samples or [{"note": "no conformance events in this run"}],
            "evaluations": self.events, "distinct_nontrivial": len(self.distinct),
            "rule": rule, "explanation": explanation, "exhaustive": False,
            "trace_files": self.traces, "tlc_runs": self.tlc_runs, "class_coverage": self.cover,
            "scope": self.scope, "known_findings_observed": self.known_hits, "drift": self.drift,
            "new_violations": len(new),
        }
        if self.beyond_checked or self.beyond:
            cov["beyond_property"] = {"checked": self.beyond_checked, "mismatches": len(self.beyond),
                                      "samples": [{"why": w, "source": s_, "event": e} for e, w, s_ in self.beyond[:3]],
                                      "note": "observations about behaviour the property does not state; never a violation"}
            byw = {}
            for _, w, _s in self.beyond:
                byw[w] = byw.get(w, 0) + 1
            for w, n in sorted(byw.items()):
                lines.append("BEYOND-PROPERTY: property=%s %s (%d event(s); not part of the statement, no verdict)" % (self.prop, w, n))
        if self.probe_hits:
            cov["library_rare_branches_taken"] = self.probe_hits
        if extra:
            cov.update(extra)
        ev = {"property_id": self.prop, "tier": self.tier, "seed": self.seed, "level": level, "coverage": cov,
              "assumptions": self.assumptions, "wall_s": round(wall, 1), "violations": len(new)}
        os.makedirs(EVID, exist_ok=True)
        if not self.replay:
            json.dump(ev, open(os.path.join(EVID, "%s.json" % self.prop), "w"), indent=1)
        for l in lines:
            print(l, flush=True)
        if rc == 0:
            print("OK property=%s tier=%s events=%d states=%d wall=%.0fs" % (self.prop, self.tier, self.events, self.states, wall))
            shutil.rmtree(self.rundir, ignore_errors=True)
        return rc


def _shorten(e, limit=24):
    def sh_(v):
        if isinstance(v, dict):
            return {k: sh_(x) for k, x in v.items()}
        if isinstance(v, list):
            if len(v) > limit and all(isinstance(x, int) for x in v):
                return {"len": len(v), "head": v[:8], "tail": v[-4:]}
            return [sh_(x) for x in v[:limit]]
        if isinstance(v, str) and len(v) > 200:
            return v[:200] + "..."
        return v
    return sh_(e)


def stale_findings_check(ctx, witness_ids):
    """every open finding with a witness in the quick run must still be observed (else the file is stale)"""
    stale = [w for w in witness_ids if any(k["id"] == w and k.get("status") == "open" for k in ctx.known)
             and w not in ctx.known_hits]
    return stale
