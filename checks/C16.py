"""C16 Operations terminate and panic only where the documentation says so."""
import json
import os
import framework as fw

SPECDIR = "C16"
ISIZE_DIGITS = "922337203685477580"


def _ints(v):
    return fw.intval(v) if isinstance(v, dict) and "m" in v else None


def cover(e):
    out = e["out"]
    cs = ["out:" + out["k"], "build:" + e.get("build", "?"), "src:" + e.get("src", "?"),
          "isolated" if e.get("isolated") else "batch", "fam:" + e.get("fam", "?")]
    if "exp" in e:
        cs.append("exp:" + e["exp"])
        cs.append("cell:%s/%s" % (e["exp"], out["k"]))
    if out.get("attempts") == 2:
        cs.append("rerun-confirmed")
    for a in e.get("args", []):
        k = a.get("k")
        if k == "F":
            if a["inf"] != 0:
                cs.append("arg:inf")
            p = fw.intval(a["prec"])
            if p in (0, 1):
                cs.append("arg:prec%d" % p)
            if len(a["exp"]["m"]) >= 8:
                cs.append("arg:huge-exponent")
            if a["inf"] == 0 and not a["sig"]["m"]:
                cs.append("arg:zero")
        elif k in ("U", "I", "N", "P"):
            v = fw.intval(a["v"])
            if v == 0:
                cs.append("arg:zero")
            if v in (1, -1):
                cs.append("arg:one")
            if k == "N" and v >= 2 ** 63:
                cs.append("arg:huge-count")
            if k == "N" and v in (1, 37):
                cs.append("arg:radix-edge")
            if k == "P":
                cs.append("arg:primitive")
            if k in ("U", "I") and len(a["v"]["m"]) > 16:
                cs.append("arg:multiword")
        elif k in ("R", "X"):
            if not a["num"]["m"]:
                cs.append("arg:zero")
        elif k == "S":
            total = sum(len(p["b"]) * p["n"] for p in a["p"])
            flat = bytes(b for p in a["p"] if p["n"] < 100 for b in p["b"])
            if total == 0:
                cs.append("str:empty")
            if total >= 1000000:
                cs.append("str:1MB")
            if any(b >= 128 for b in flat):
                cs.append("str:non-ascii")
            if ISIZE_DIGITS.encode() in flat:
                cs.append("str:isize-limit-exponent")
            if b"_" in flat:
                cs.append("str:underscore")
    return cs


def key(e):
    return json.dumps([e["op"], e.get("build"), e["args"]], sort_keys=True)


def nontrivial(e):
    return True


def _own_ids():
    """ids of the findings fragment of this check (other fragments may list C16 too, with witnesses in their own case format)"""
    p = os.path.join(fw.ROOT, "findings", "C16.json")
    return {e["id"] for e in json.load(open(p))} if os.path.exists(p) else set()


def _witness_cases(ctx):
    ws = []
    own = _own_ids()
    for k in ctx.known:
        if k["id"] in own and k.get("status") == "open" and "C16" in k.get("properties", []) and k.get("witness"):
            w = dict(k["witness"])
            w["src"] = "witness"
            ws.append((k["id"], w))
    return ws


def _check_inventory(r, binary):
    inv = r.tagged("INV")
    if not inv:
        raise fw.ToolError("Gen_C16 did not print its inventory")
    inv = inv[-1]
    rc, out = fw.sh([binary, "--inventory"])
    if rc != 0:
        raise fw.ToolError("c16 --inventory failed")
    h = json.loads(out.strip().splitlines()[-1])
    a = {(o["op"], o["arity"]) for o in inv["ops"]}
    b = {(o["op"], o["arity"]) for o in h["ops"]}
    if a != b or set(inv["parsers"]) != set(h["parsers"]):
        raise fw.ToolError("operation inventory of the spec and of the harness differ: spec-only %s harness-only %s" %
                           (sorted(a - b)[:5], sorted(b - a)[:5]))
    return len(a) + len(inv["parsers"])


def _drive_and_monitor(ctx, binaries, cases, fuzz_n, budget_ms, extra=()):
    import threading
    traces, errors = {}, []

    def drive(build, binary):
        argv = ["--cases", cases, "--seed", str(ctx.seed), "--n", str(fuzz_n), "--build", build,
                "--jobs", str(max(2, min(5, fw.NCPU // 3))), "--budget-ms", str(budget_ms)] + list(extra)
        if fuzz_n:
            argv.append("--fuzz")
        try:
            traces[build] = ctx.drive(binary, argv, "trace-%s.ndjson" % build, timeout=3000)
        except Exception as ex:      # re-raised in the main thread
            errors.append(ex)

    # the two builds are independent processes: run them side by side
    ts = [threading.Thread(target=drive, args=b) for b in binaries]
    for t in ts:
        t.start()
    for t in ts:
        t.join()
    if errors:
        raise errors[0]
    for build, _ in binaries:
        tr = traces[build]
        v = ctx.monitor("mon-" + build, SPECDIR, "Trace_C16.tla", "Trace_C16.cfg", tr, nontrivial=nontrivial, key=key,
                        cover=cover, timeout=2400)
        for c, n in v.get("classes", {}).items():
            ctx.cover["verdict:" + c] = ctx.cover.get("verdict:" + c, 0) + n
        if v["classes"].get("malformed", 0) or v["classes"].get("unclassified", 0):
            raise fw.ToolError("monitor met malformed / unclassified events: %s" % v["classes"])


def run(ctx):
    dbg = fw.build("std64", "c16")
    rel = fw.build("release", "c16")
    binaries = [("debug", dbg), ("release", rel)]
    if ctx.replay:
        case = json.load(open(ctx.replay))["case"]
        p = ctx.path("replay-case.ndjson")
        open(p, "w").write(json.dumps(case) + "\n")
        sel = [b for b in binaries if b[0] == case.get("build")] or binaries
        _drive_and_monitor(ctx, sel, p, 0, 20000, extra=["--isolate-all"])
        return ctx.finish()
    # 1. the definition is total on the lattice and its four classes never overlap (thorough lattice in both tiers)
    consts = {"Tier": '"thorough"', "Seed": 0, "KeepInt": 1000000, "KeepFloat": 1000000, "KeepRatio": 1000000,
              "WithStrings": "FALSE"}
    cfg_mc = fw.write_cfg(ctx.path("MC_C16.cfg"), invariants=["Classified", "EmitInventory"], constants=consts)
    r = ctx.mc("mc-total", SPECDIR, "Gen_C16.tla", cfg_mc, workers=4, timeout=1200)
    nops = _check_inventory(r, dbg)
    ctx.scope.update({"operations": nops, "lattice_cells_classified": r.distinct})
    # 2. spec -> impl: one case per cell of the lattice, strings by grammar slots
    keep = ctx.pick({"KeepInt": 20, "KeepFloat": 400, "KeepRatio": 40}, {"KeepInt": 4, "KeepFloat": 60, "KeepRatio": 8})
    consts = {"Tier": '"%s"' % ctx.tier, "Seed": ctx.seed % 100000, "WithStrings": "TRUE"}
    consts.update(keep)
    ctx.scope.update(consts)
    cfg = fw.write_cfg(ctx.path("Gen_C16.cfg"), invariants=["Emit"], constants=consts)
    cases, ncases = ctx.gen("gen", SPECDIR, "Gen_C16.tla", cfg, workers=4, timeout=1800)
    wit = _witness_cases(ctx)
    with open(cases, "a") as f:
        for _, w in wit:
            f.write(json.dumps(w) + "\n")
    # 3. impl: every cell in a debug and in a release build (debug assertions mask hangs), seeded string fuzz on top
    fuzz_n = ctx.pick(3000, 30000)
    budget = 20000
    ctx.scope.update({"fuzz_strings": fuzz_n, "watchdog_ms": budget, "memory_cap_kb": 3000000})
    _drive_and_monitor(ctx, binaries, cases, fuzz_n, budget, extra=ctx.pick([], ["--isolate-all"]))
    seen = set()
    for ev, why, _src in ctx.violations:
        k = fw.match_known(ctx.prop, ev, why, ctx.known)
        if k:
            seen.add(k["id"])
    stale = [i for i, _ in wit if i not in seen]
    if stale and not os.environ.get("VERIF_REPO"):
        raise fw.ToolError("known findings no longer observed although their witness ran (flip them to fixed): %s" % stale)
    if stale:
        ctx.notes.append("stale findings (scratch tree): %s" % stale)
    return ctx.finish(
        rule="one event = one public call (operation x argument edge-class tuple, or parser x string) in one build; "
             "distinct = distinct (operation, build, argument values)",
        explanation="PanicDef classifies every cell of the operation x edge-class lattice (MustPanic / Defined / grey / "
                    "excluded; TLC checks the partition on the whole lattice), Gen_C16 emits one case per cell and per "
                    "sampled string derivation/mutation, the harness executes each call under a watchdog (suspect cells one "
                    "per forked, memory-capped process) in a debug and a release build, Trace_C16 judges every outcome.",
        extra={"notes": ctx.notes},
        required_cover=["exp:must", "exp:never", "exp:may", "out:ok", "out:err", "out:panic", "build:debug", "build:release",
                        "isolated", "src:cell", "src:str", "src:fuzz", "src:witness", "str:empty", "str:1MB",
                        "str:non-ascii", "str:isize-limit-exponent", "str:underscore", "arg:inf", "arg:prec0", "arg:prec1",
                        "arg:huge-exponent", "arg:huge-count", "arg:radix-edge", "arg:zero", "arg:one", "arg:primitive",
                        "arg:multiword", "cell:must/panic", "cell:never/ok", "cell:never/err", "fam:parse", "fam:div",
                        "fam:f_ln", "fam:f_exp", "fam:f_powi", "fam:f_shl", "fam:r_parts", "fam:radix", "fam:gcd",
                        "fam:nth_root", "fam:ilog", "fam:ring_new", "verdict:must", "verdict:never", "verdict:may"]
                       + ctx.pick(["batch"], []))


SELFTEST_CASES = [
    {"op": "U.add", "fam": "total", "cls": ["7", "7"], "iso": 0, "src": "cell", "exp": "never",
     "args": [{"k": "U", "v": {"s": 0, "m": [7]}}, {"k": "U", "v": {"s": 0, "m": [7]}}]},
    {"op": "U.div", "fam": "div", "cls": ["7", "0"], "iso": 0, "src": "cell", "exp": "must",
     "args": [{"k": "U", "v": {"s": 0, "m": [7]}}, {"k": "U", "v": {"s": 0, "m": []}}]},
    {"op": "U.sub", "fam": "usub", "cls": ["1", "2"], "iso": 1, "src": "cell", "exp": "must",
     "args": [{"k": "U", "v": {"s": 0, "m": [1]}}, {"k": "U", "v": {"s": 0, "m": [2]}}]},
    {"op": "I.nth_root", "fam": "nth_root", "cls": ["-8", "3"], "iso": 1, "src": "cell", "exp": "never",
     "args": [{"k": "I", "v": {"s": 1, "m": [8]}}, {"k": "N", "v": {"s": 0, "m": [3]}}]},
    {"op": "U.from_str", "fam": "parse", "cls": [], "iso": 1, "src": "str", "exp": "never",
     "args": [{"k": "S", "p": [{"b": [49, 50, 195, 169], "n": 1}]}]},
    {"op": "F10.div", "fam": "f_div", "cls": ["1@p0", "3"], "iso": 0, "src": "cell", "exp": "must",
     "args": [{"k": "F", "b": 10, "sig": {"s": 0, "m": [1]}, "exp": {"s": 0, "m": []}, "inf": 0, "prec": {"s": 0, "m": []}},
              {"k": "F", "b": 10, "sig": {"s": 0, "m": [3]}, "exp": {"s": 0, "m": []}, "inf": 0, "prec": {"s": 0, "m": []}}]},
    {"op": "R.from_parts", "fam": "r_parts", "cls": ["1", "0"], "iso": 0, "src": "cell", "exp": "must",
     "args": [{"k": "I", "v": {"s": 0, "m": [1]}}, {"k": "U", "v": {"s": 0, "m": []}}]},
    {"op": "F2.exp", "fam": "f_exp", "cls": ["1@p20"], "iso": 1, "src": "cell", "exp": "never",
     "args": [{"k": "F", "b": 2, "sig": {"s": 0, "m": [1]}, "exp": {"s": 0, "m": []}, "inf": 0, "prec": {"s": 0, "m": [20]}}]},
]


def selftest(ctx):
    """binding demonstration: (a) a recorded panic turned into a value, (b) a recorded value turned into a timeout,
    (c) a recorded divisor changed from 0 to 1 under the recorded panic - the monitor must flag exactly those events"""
    dbg = fw.build("std64", "c16")
    p = ctx.path("selftest-cases.ndjson")
    open(p, "w").write("".join(json.dumps(c) + "\n" for c in SELFTEST_CASES))
    tr = ctx.drive(dbg, ["--cases", p, "--n", "0", "--build", "debug", "--jobs", "2"], "trace.ndjson")
    v = ctx.monitor("selftest-clean", SPECDIR, "Trace_C16.tla", "Trace_C16.cfg", tr)
    clean = [b["i"] for b in v["bad"]] == []
    ev = [json.loads(l) for l in open(tr)]
    ev[2]["out"] = {"k": "ok", "msg": "U1b", "ms": 0}                 # U.sub 1 - 2 "returned" a number
    ev[7]["out"] = {"k": "timeout", "msg": "killed", "ms": 20000}     # exp(1) "hung"
    ev[6]["args"][1]["v"]["m"] = [1]                                  # from_parts(1, 1) with the recorded panic
    open(tr, "w").write("".join(json.dumps(e) + "\n" for e in ev))
    v = ctx.monitor("selftest", SPECDIR, "Trace_C16.tla", "Trace_C16.cfg", tr)
    got = sorted((b["i"], b["why"]) for b in v["bad"])
    want = [(3, "no-panic-under-documented-precondition"), (7, "undocumented-panic"), (8, "hang")]
    ok = clean and got == want
    print("SELFTEST %s: clean trace accepted=%s; corrupted events 3, 7, 8 -> monitor flagged %s" % ("PASS" if ok else "FAIL", clean, got))
    return 0 if ok else 2
