"""C11 exp, ln and powers are accurate to less than one unit in the last place.

Flow: build harness -> self-check of the enclosure library and of the definition layer (tool error if
they fail) -> model checking of the dispatch model ExpLogAlg (every input class reaches a special
value / series branch; the Exact-flag defects F32b, F32c are re-found by the strict configuration)
-> Gen_C11 cases + finding witnesses + seeded random cases through the harness (Context and FBig
forms) -> Trace_C11 monitors (rigorous enclosures, three working sizes, undecided is counted and
never alarmed), run on interleaved chunks in parallel -> known-finding matching with residual bounds.
"""
import concurrent.futures
import hashlib
import json
import os
import re
from fractions import Fraction

import framework as fw

DIR = "C11"
OPS = ["exp", "exp_m1", "ln", "ln_1p", "powi", "powf"]
BASES = [2, 3, 10, 16, 36]
MODES = ["Zero", "Away", "Up", "Down", "HalfEven", "HalfAway"]
ALG_ACTIONS = """PowiEnter PowiNegUnlimited PowiNegZero PowiNegInverse PowiZero PowiOne PowiSquaring PowfEnter PowfUnlimited
PowfExpZero PowfExpOne PowfBaseZero PowfNegBase PowfLnShortcut PowfLnSeries PowfExpOfZero PowfExpSeries ExpEnter ExpUnlimited
ExpZero ExpM1NoScalingNeg ExpM1NoScalingPos ExpScaling ExpSeriesDirect ExpPowering ExpM1Powering LnEnter LnUnlimited LnShortcut
LnOutOfDomain LnNoScalingNeg LnNoScalingPos LnScalingBelowOne LnScalingAboveOne LnDoublePrecision LnSeries""".split()
# share of in-domain limited-precision events that the accuracy finding F32 may explain before the run
# is treated as a new violation (measured on the unchanged tree: 0.7 % - 1.6 % over 40 seeds)
F32_RATE_LIMIT = 0.05
WORKERS = 4


# ------------------------------------------------------------------ classes of an event (vacuity control)
def fval(base, a):
    return Fraction(fw.intval(a["sig"])) * Fraction(base) ** int(a["exp"])


def xclass(x, base):
    t = Fraction(1, base)
    if x <= -1:
        return "neg-big"
    if x <= -t:
        return "neg-small"
    if x < 0:
        return "neg-tiny"
    if x == 0:
        return "zero"
    if x < t:
        return "pos-tiny"
    if x < 1:
        return "pos-small"
    if x == 1:
        return "one"
    if x < 2:
        return "pos-mid"
    return "pos-big"


def eclass(e, y):
    if e["op"] == "powi":
        n = e["n"]
        return "le-2" if n <= -2 else "-1" if n == -1 else "0" if n == 0 else "1" if n == 1 else "ge2"
    if e["op"] == "powf":
        return "zero" if y == 0 else "one" if y == 1 else "neg" if y < 0 else "pos"
    return "-"


def in_domain(op, xc, ec):
    neg = xc.startswith("neg")
    if op == "ln":
        return not neg and xc != "zero"
    if op == "ln_1p":
        return xc != "neg-big"
    if op == "powi":
        return not (xc == "zero" and ec in ("le-2", "-1"))
    if op == "powf":
        return not neg and not (xc == "zero" and ec == "neg")
    return True


def cover(e):
    b, p, op = e["base"], e["prec"], e["op"]
    x, y = fval(b, e["x"]), fval(b, e["y"])
    xc, ec = xclass(x, b), eclass(e, y)
    cs = ["op:" + op, "base:%d" % b, "mode:" + e["mode"], "src:" + e["src"],
          "prec:%s" % (p if p in (0, 20, 40, 100, 300) or p <= 12 else "other")]
    dom = in_domain(op, xc, ec)
    cs.append("dispatch:%s:%s:%s:%s" % (op, xc, ec, "lim" if p else "unl") if dom else "out-of-domain")
    forms = [f for g in e["outs"] for f in g["forms"]]
    cs.append("form:both" if "fbig" in forms else "form:ctx-only")
    if "fbig-mixed" in forms:
        cs.append("form:fbig-mixed-precision")
    if e["xd"] > p > 0:
        cs.append("arg-wider-than-precision")
    for g in e["outs"]:
        o = g["out"]
        if o["k"] == "panic":
            cs.append("panic:unlimited" if p == 0 else "panic:limited")
        elif o["k"] == "ok":
            if p == 0:
                cs.append("unlimited:answered")
            if o["v"]["flag"] == "Exact":
                cs.append("flag:Exact")
            elif o["v"]["flag"] != "none":
                cs.append("flag:inexact")
    return cs


def required_cover(thorough):
    req = ["op:" + o for o in OPS] + ["base:%d" % b for b in BASES] + ["mode:" + m for m in MODES]
    req += ["prec:%d" % p for p in list(range(0, 13)) + [20, 40] + ([100, 300] if thorough else [])]
    req += ["src:gen", "src:rnd", "src:witness", "form:both", "form:ctx-only", "form:fbig-mixed-precision",
            "arg-wider-than-precision", "panic:unlimited", "unlimited:answered", "flag:Exact", "flag:inexact"]
    allx = ["neg-big", "neg-small", "neg-tiny", "zero", "pos-tiny", "pos-small", "one", "pos-mid", "pos-big"]
    for op in ("exp", "exp_m1"):
        req += ["dispatch:%s:%s:-:lim" % (op, xc) for xc in allx]
    req += ["dispatch:ln:%s:-:lim" % xc for xc in allx[4:]]
    req += ["dispatch:ln_1p:%s:-:lim" % xc for xc in allx[1:]]
    for xc in ["neg-big", "zero", "pos-tiny", "pos-small", "one", "pos-mid", "pos-big"]:
        for ec in ["le-2", "-1", "0", "1", "ge2"]:
            if in_domain("powi", xc, ec):
                req.append("dispatch:powi:%s:%s:lim" % (xc, ec))
    for xc in allx[3:]:
        for ec in ["zero", "one", "neg", "pos"]:
            if in_domain("powf", xc, ec):
                req.append("dispatch:powf:%s:%s:lim" % (xc, ec))
    # unlimited precision: every operation refused (or, powi with n >= 0, answered exactly)
    req += ["dispatch:%s:pos-big:-:unl" % op for op in ("exp", "exp_m1", "ln", "ln_1p")]
    req += ["dispatch:powi:pos-big:%s:unl" % ec for ec in ["le-2", "-1", "0", "1", "ge2"]]
    req += ["dispatch:powf:pos-big:pos:unl"]
    return req


def nontrivial(e):
    return e["prec"] > 0 and fw.intval(e["x"]["sig"]) != 0


def key(e):
    return hashlib.md5(json.dumps([e[k] for k in ("op", "base", "mode", "prec", "x", "y", "n")] +
                                  [g["out"] for g in e["outs"]], sort_keys=True).encode()).hexdigest()


# ------------------------------------------------------------------ parallel monitoring
def cost(line):
    e = json.loads(line)
    bits = max(e["prec"], 1) * {2: 1, 3: 2, 10: 4, 16: 4, 36: 6}.get(e["base"], 6)
    return bits * bits


def par_monitor(ctx, name, trace, cover=None, workers=WORKERS, timeout=6000):
    """Trace_C11 over `workers` interleaved chunks of the trace, concurrently; the verdicts are merged and
    accounted exactly as Ctx.monitor does for one file."""
    lines = [l for l in open(trace).read().split("\n") if l.strip()]
    if not lines:
        raise fw.ToolError("empty trace " + trace)
    workers = max(1, min(workers, len(lines) // 4 or 1))
    order = sorted(range(len(lines)), key=lambda i: -cost(lines[i]))
    chunks = [order[k::workers] for k in range(workers)]          # expensive events dealt round robin
    paths = []
    for k, idx in enumerate(chunks):
        p = ctx.path("%s-chunk%d.ndjson" % (name, k))
        with open(p, "w") as f:
            for i in idx:
                f.write(lines[i] + "\n")
        paths.append(p)

    def run(k):
        return fw.tlc("%s-%d" % (name, k), os.path.join(fw.SPEC, DIR), "Trace_C11.tla", "Trace_C11.cfg", ctx.rundir,
                      workers=1, timeout=timeout, env={"TRACE": paths[k]}, deque=True, heap="4g")

    with concurrent.futures.ThreadPoolExecutor(max_workers=workers) as ex:
        results = list(ex.map(run, range(workers)))
    merged = {"total": 0, "bad": [], "undecided": [], "disagree": [], "stats": {"lvl2": 0, "lvl3": 0, "dom": 0, "exact": 0}}
    for k, r in enumerate(results):
        ctx._account(r, "monitor")
        v = r.tagged("VERDICT")
        if not r.ok or not v:
            fw.sys.stderr.write(r.out[-4000:])
            raise fw.ToolError("trace monitor Trace_C11 did not complete (chunk %d of %s)" % (k, name))
        v = v[-1]
        if v["total"] != len(chunks[k]):
            raise fw.ToolError("monitor consumed %d of %d events" % (v["total"], len(chunks[k])))
        merged["total"] += v["total"]
        merged["bad"] += [{"i": chunks[k][b["i"] - 1] + 1, "why": b["why"]} for b in v["bad"]]
        merged["undecided"] += [chunks[k][i - 1] + 1 for i in v["undecided"]]
        merged["disagree"] += [chunks[k][i - 1] + 1 for i in v["disagree"]]
        for s in merged["stats"]:
            merged["stats"][s] += v["stats"][s]
    ctx.events += len(lines)
    ctx.traces += 1
    badidx = {b["i"]: b["why"] for b in merged["bad"]}
    for i, line in enumerate(lines, 1):
        e = json.loads(line)
        if i in badidx:
            ctx.violations.append((e, badidx[i], name))
        if cover:
            for c in cover(e):
                ctx.cover[c] = ctx.cover.get(c, 0) + 1
        if nontrivial(e):
            ctx.distinct.add(key(e))
        if len(ctx.samples) < 3 and i % 7 == 1:
            ctx.samples.append(fw._shorten(e))
    ctx.drift += len(merged["disagree"])
    for i in merged["undecided"][:5]:
        e = json.loads(lines[i - 1])
        ctx.scope.setdefault("undecided_samples", []).append({k: e[k] for k in ("op", "base", "mode", "prec", "x", "y", "n", "cls")})
    return merged


# ------------------------------------------------------------------ steps
def selfcheck(ctx):
    """the oracle is checked before it is believed; a failure is a tool error, never a verdict"""
    for mod in ("MC_Enclosure", "MC_ExpLogDef"):
        r = fw.tlc("self-" + mod, os.path.join(fw.SPEC, DIR), mod + ".tla", mod + ".cfg", ctx.rundir, workers=1, timeout=900)
        ctx._account(r, "mc")
        if not r.ok:
            fw.sys.stderr.write(r.out[-3000:])
            raise fw.ToolError("enclosure self-check failed: " + mod)


def dispatch_model(ctx):
    open_ids = {k["id"] for k in ctx.known if k.get("status") == "open"}
    # the model follows the code: once F32c is repaired in /repo (entry flipped to fixed) the flag is chained
    consts = {"PowiNegKeepsFlag": "FALSE" if "F32c/C11" in open_ids else "TRUE"}
    invs = ["OneBranch", "NoPanicInDomain", "UnlimitedRefused", "SpecialsRight", "OtherwiseEvaluated", "ExactFlagOrKnown"]
    cfg = fw.write_cfg(ctx.path("MC_ExpLogAlg.cfg"), invariants=invs, constants=consts)
    ctx.mc("mc-dispatch", DIR, "ExpLogAlg.tla", cfg, workers=2, required_actions=ALG_ACTIONS, heap="2g")
    # the same model without the Known_ disjuncts: the Exact-flag defects are found by model checking alone
    cfg = fw.write_cfg(ctx.path("MC_ExpLogAlg_strict.cfg"), invariants=["ExactFlagTruthful"], constants=consts)
    r = ctx.mc("mc-dispatch-strict", DIR, "ExpLogAlg.tla", cfg, workers=2, heap="2g", expect_ok=False)
    refound = "ExactFlagTruthful" in r.invariant_violated
    if refound != bool(open_ids & {"F32b/C11", "F32c/C11"}):
        raise fw.ToolError("dispatch model and findings disagree: strict model %s the Exact-flag invariant, open findings %s"
                           % ("violates" if refound else "satisfies", sorted(open_ids)))
    ctx.scope["exact_flag_defect_refound_by_model"] = refound
    ctx.scope["model_constants"] = consts


def witnesses(ctx):
    ws = []
    for k in ctx.known:
        if DIR in k.get("properties", []) and "witness" in k:
            for w in (k["witness"] if isinstance(k["witness"], list) else [k["witness"]]):
                c = dict(w)
                c["src"] = "witness"
                c["cls"] = "witness:" + k["id"]
                ws.append(c)
    return ws


def rate_guard(ctx):
    """residual bound of the class finding F32: it may explain at most F32_RATE_LIMIT of the eligible events"""
    hits = sum(1 for ev, why, src in ctx.violations
               if (fw.match_known(ctx.prop, ev, why, ctx.known) or {}).get("id") == "F32")
    eligible = sum(n for c, n in ctx.cover.items() if c.startswith("dispatch:") and c.endswith(":lim"))
    ctx.scope["f32_rate"] = round(hits / max(eligible, 1), 4)
    if eligible >= 500 and hits > F32_RATE_LIMIT * eligible:
        ctx.violations.append(({"op": "rate", "hits": hits, "eligible": eligible, "limit": F32_RATE_LIMIT},
                               "known-accuracy-class-rate-exceeded", "rate"))


def run(ctx):
    drive = fw.build("std64", "c11")
    selfcheck(ctx)
    if ctx.replay:
        case = json.load(open(ctx.replay))["case"]
        p = ctx.path("replay-case.ndjson")
        open(p, "w").write(json.dumps(case) + "\n")
        tr = ctx.drive(drive, ["--cases", p, "--n", "0"], "trace-replay.ndjson")
        v = par_monitor(ctx, "replay", tr, workers=1)
        print("replay verdict: %s" % json.dumps(v))
        return ctx.finish()
    dispatch_model(ctx)
    # spec -> impl: the partition enumerated by TLC, plus the witnesses of the open findings
    precs = list(range(0, 13)) + [20, 40]
    thin = ctx.pick(2, 1)
    cfg = fw.write_cfg(ctx.path("Gen_C11.cfg"), invariants=["Emit"],
                       constants={"Bases": fw.tla_set(BASES), "Precs": fw.tla_set(precs), "Seed": ctx.seed % 100000,
                                  "Thin": thin, "ThinBig": ctx.pick(2, 1), "AllModes": "FALSE"})
    cases, ncases = ctx.gen("gen", DIR, "Gen_C11.tla", cfg, workers=4)
    ws = witnesses(ctx)
    with open(cases, "a") as f:
        for w in ws:
            f.write(json.dumps(w) + "\n")
    ctx.scope.update({"bases": BASES, "precisions": precs, "thin": thin, "gen_cases": ncases, "witness_cases": len(ws)})
    tr1 = ctx.drive(drive, ["--cases", cases, "--n", "0"], "trace-gen.ndjson")
    v1 = par_monitor(ctx, "mon-gen", tr1, cover=cover)
    # impl -> spec: seeded random arguments of the same families
    n = ctx.pick(2000, 20000)
    tr2 = ctx.drive(drive, ["--seed", str(ctx.seed), "--n", str(n), "--max-prec", "40"], "trace-rnd.ndjson")
    v2 = par_monitor(ctx, "mon-rnd", tr2, cover=cover)
    verdicts = [v1, v2]
    # exp / exp_m1 at 1100 bits (base 2): the argument-reduction parameter of exp grows with the bit length of the
    # precision, and the guard digits only just cover it - the first precision class above 1023 bits is part of every run
    cfg = fw.write_cfg(ctx.path("Gen_C11_1100.cfg"), invariants=["Emit"],
                       constants={"Bases": "{2}", "Precs": "{1100}", "Seed": ctx.seed % 100000, "Thin": 4, "ThinBig": 1, "AllModes": "FALSE"})
    c1100, _ = ctx.gen("gen1100", DIR, "Gen_C11.tla", cfg, workers=4)
    sel = [l for l in open(c1100) if json.loads(l)["op"] in ("exp", "exp_m1")][:ctx.pick(3, 12)]
    p1100 = ctx.path("cases-1100.ndjson")
    open(p1100, "w").write("".join(sel))
    ctx.scope["gen_cases_p1100_bits"] = len(sel)
    if sel:
        tr5 = ctx.drive(drive, ["--cases", p1100, "--n", "0"], "trace-gen1100.ndjson")
        verdicts.append(par_monitor(ctx, "mon-gen1100", tr5, cover=cover, timeout=3000))
    # huge |y ln x| and |x| (up to the ~4000 the enclosure's argument reduction handles) at small precisions, every base:
    # the guard digits of powf / exp must grow with the magnitude of the exponent of the result, in digits of the base
    def wire(v):
        m = abs(v)
        return {"s": 1 if v < 0 else 0, "m": list(m.to_bytes((m.bit_length() + 7) // 8, "little"))}
    def F(sig, exp):
        return {"sig": wire(sig), "exp": exp}
    modes = ["HalfAway", "Zero", "HalfEven", "Up", "Down", "Away"]
    hugec = []
    for k, (base, prec, x, y) in enumerate([
            (10, 5, F(15, -1), F(9000, 0)), (10, 4, F(7, 0), F(15005, -1)), (10, 8, F(3, 0), F(30001, -1)), (10, 3, F(15, -1), F(-8000, 0)),
            (16, 8, F(3, 0), F(3400, 0)), (16, 4, F(5, 0), F(0x8001, -1)), (36, 2, F(2, 0), F(5000, 0)), (36, 3, F(7, 0), F(-1500, 0)),
            (3, 9, F(5, 0), F(2200, 0)), (2, 24, F(3, 0), F(3001, 0)), (2, 53, F(3, 0), F(-6001, -1)), (10, 6, F(123, -2), F(12345, 0))]):
        hugec.append({"op": "powf", "base": base, "mode": modes[(k + ctx.seed) % 6], "prec": prec, "x": x, "y": y, "n": 0,
                      "cls": "powf:huge", "src": "gen"})
    for k, (base, prec, x) in enumerate([(10, 7, F(3500, 0)), (10, 7, F(-3500, 0)), (10, 16, F(2345678, -3)), (2, 53, F(3900, 0)),
                                          (2, 24, F(-3000, 0)), (16, 6, F(0xE00, 0)), (36, 3, F(-2000, 0)), (3, 12, F(1000, 0))]):
        hugec.append({"op": "exp", "base": base, "mode": modes[(k + 2 * ctx.seed) % 6], "prec": prec, "x": x, "y": F(0, 0), "n": 0,
                      "cls": "exp:huge", "src": "gen"})
    if ctx.quick:
        hugec = hugec[ctx.seed % 2::2]
    phuge = ctx.path("cases-huge.ndjson")
    open(phuge, "w").write("".join(json.dumps(c) + "\n" for c in hugec))
    ctx.scope["gen_cases_huge_magnitude"] = len(hugec)
    tr6 = ctx.drive(drive, ["--cases", phuge, "--n", "0"], "trace-genhuge.ndjson")
    verdicts.append(par_monitor(ctx, "mon-genhuge", tr6, cover=cover, timeout=3000))
    if not ctx.quick:
        # precision 100 on every base (thinned), a few cases at 300 digits
        cfg = fw.write_cfg(ctx.path("Gen_C11_100.cfg"), invariants=["Emit"],
                           constants={"Bases": fw.tla_set(BASES), "Precs": "{100}", "Seed": ctx.seed % 100000,
                                      "Thin": 2, "ThinBig": 1, "AllModes": "FALSE"})
        c100, n100 = ctx.gen("gen100", DIR, "Gen_C11.tla", cfg, workers=4)
        cfg = fw.write_cfg(ctx.path("Gen_C11_300.cfg"), invariants=["Emit"],
                           constants={"Bases": "{2, 10, 36}", "Precs": "{300}", "Seed": ctx.seed % 100000,
                                      "Thin": 16, "ThinBig": 1, "AllModes": "FALSE"})
        c300, n300 = ctx.gen("gen300", DIR, "Gen_C11.tla", cfg, workers=4)
        ctx.scope.update({"gen_cases_p100": n100, "gen_cases_p300": n300})
        tr3 = ctx.drive(drive, ["--cases", c100, "--n", "0"], "trace-gen100.ndjson")
        verdicts.append(par_monitor(ctx, "mon-gen100", tr3, cover=cover, timeout=6000))
        tr4 = ctx.drive(drive, ["--cases", c300, "--n", "0"], "trace-gen300.ndjson")
        verdicts.append(par_monitor(ctx, "mon-gen300", tr4, cover=cover, timeout=6000))
    rate_guard(ctx)
    total = sum(v["total"] for v in verdicts)
    und = sum(len(v["undecided"]) for v in verdicts)
    stats = {s: sum(v["stats"][s] for v in verdicts) for s in verdicts[0]["stats"]}
    extra = {"decided": total - und - stats["dom"], "undecided": und, "out_of_domain": stats["dom"],
             "decided_at_second_enclosure": stats["lvl2"], "third_enclosure_used": stats["lvl3"],
             "true_value_exact_rational": stats["exact"], "forms_disagree": sum(len(v["disagree"]) for v in verdicts)}
    fw.log("[C11] events=%d decided=%d undecided=%d levels(2/3)=%d/%d disagree=%d f32_rate=%s" %
           (total, extra["decided"], und, stats["lvl2"], stats["lvl3"], extra["forms_disagree"], ctx.scope.get("f32_rate")))
    rc = ctx.finish(
        rule="one event = one call (op, base, mode, precision, operands) executed as Context method and, when the operand "
             "fits the precision, as FBig method; distinct = distinct (call, outcomes); non-trivial = limited precision and "
             "non-zero argument",
        explanation="TLC enumerates op x argument family x sign x exponent class x base x precision (Gen_C11; every dispatch "
                    "class of the model ExpLogAlg is required to occur) and seeded random members of the same families; "
                    "Trace_C11 judges every outcome against a rigorous enclosure of the true value computed in TLA+ "
                    "(Enclosure.tla, self-checked against 60-digit constants), with three working sizes; undecided outcomes "
                    "are counted, never alarmed. Unexplored: precisions above 300 digits, |x| above ~250, exponent limits.",
        extra=extra, required_cover=required_cover(not ctx.quick))
    stale = fw.stale_findings_check(ctx, [k["id"] for k in ctx.known if DIR in k.get("properties", []) and "witness" in k])
    if rc == 0 and stale:
        raise fw.ToolError("open findings whose witness no longer fails (stale known_findings): %s" % stale)
    return rc


def selftest(ctx):
    """binding demonstration: corrupt one recorded result / one recorded flag, the monitor must flag exactly those"""
    drive = fw.build("std64", "c11")
    selfcheck(ctx)
    tr = ctx.drive(drive, ["--seed", "5", "--n", "80", "--max-prec", "12"], "trace.ndjson")
    v0 = par_monitor(ctx, "selftest-base", tr, workers=1)
    bad0 = {b["i"] for b in v0["bad"]} | set(v0["undecided"])
    lines = open(tr).read().split("\n")

    def pick(start, pred):
        for i in range(start, len(lines)):
            if not lines[i].strip() or (i + 1) in bad0:
                continue
            e = json.loads(lines[i])
            if e["prec"] >= 2 and len(e["outs"]) >= 1 and all(g["out"]["k"] == "ok" for g in e["outs"]) and pred(e):
                return i, e
        raise fw.ToolError("selftest: no suitable event")

    # 1. value: add two units in the last stored place of the Context result
    i1, e1 = pick(20, lambda e: fw.intval(e["outs"][0]["out"]["v"]["v"]["sig"]) > 0)
    g = e1["outs"][0]["out"]["v"]["v"]
    m = fw.intval(g["sig"]) + 2
    g["sig"] = {"s": 0, "m": list(m.to_bytes((m.bit_length() + 7) // 8, "little"))}
    lines[i1] = json.dumps(e1)
    # 2. flag: an inexact transcendental result claimed Exact
    i2, e2 = pick(i1 + 1, lambda e: e["op"] in ("exp", "ln") and e["outs"][0]["out"]["v"]["flag"] not in ("Exact", "none")
                  and fw.intval(e["x"]["sig"]) not in (0,) and e["cls"] in ("small-int", "large", "dense"))
    e2["outs"][0]["out"]["v"]["flag"] = "Exact"
    lines[i2] = json.dumps(e2)
    open(tr, "w").write("\n".join(lines))
    v1 = par_monitor(ctx, "selftest-corrupt", tr, workers=1)
    new = {b["i"]: b["why"] for b in v1["bad"] if b["i"] not in bad0}
    ok = set(new) == {i1 + 1, i2 + 1} and new[i1 + 1].startswith("error-ge") and new[i2 + 1] == "exact-flag-untruthful"
    print("SELFTEST %s: corrupted value of event %d and flag of event %d -> monitor newly flagged %s" %
          ("PASS" if ok else "FAIL", i1 + 1, i2 + 1, new))
    return 0 if ok else 2
