"""C18 Rational approximation functions return the optimal fraction they promise."""
import json
import os
import shutil
import framework as fw

SPECDIR = "C18"
ALL_OPS = ["simplest_in", "next_up", "next_down", "nearest", "is_simpler_than", "from_float"]
WITNESS_IDS = ["F21", "F22", "F80", "F81", "F82", "F83"]


def repo_root():
    return os.environ.get("VERIF_REPO") or "/repo"


def source_flags():
    """the algorithm-layer model follows the code: which of the known defects are still in the source?"""
    src = open(os.path.join(repo_root(), "rational", "src", "simplify.rs")).read()
    if "fn is_simpler_than" not in src or "fn farey_neighbors" not in src or "pub fn simplest_in(mut lower" not in src:
        raise fw.ToolError("rational/src/simplify.rs no longer has the functions modelled by Simplify.tla (model out of date)")
    return {
        "FixOrder": "&& self.sign() > other.sign()" not in src,
        "FixZero": "let sign = if lower.numerator.sign() != upper.numerator.sign() {" not in src,
        "FixLimit1": "limit.is_one()" in src,
        "FixBigFloat": "est.numerator <<= 1;" not in src,
    }


def nbytes(x):
    return len(x.get("m", []))


def cover(e):
    op = e["op"]
    cs = ["op:" + op, "from:" + e.get("from", "?")]
    o = e["out"]
    if o["k"] != "ok":
        cs.append("panic")
        return cs
    v = o["v"]
    if op == "simplest_in":
        a, b = fw.intval(e["a"]["num"]), fw.intval(e["b"]["num"])
        da, db = fw.intval(e["a"]["den"]), fw.intval(e["b"]["den"])
        if a * db == b * da:
            cs.append("in:equal-endpoints")
        elif a * db > b * da:
            cs.append("in:swapped")
        if (a < 0 < b) or (b < 0 < a):
            cs.append("in:straddles-zero")
        elif a < 0 or b < 0:
            cs.append("in:negative")
        if a == 0 or b == 0:
            cs.append("in:zero-endpoint")
        if da == 1 and db == 1:
            cs.append("in:integer-endpoints")
        if max(nbytes(e["a"]["den"]), nbytes(e["b"]["den"])) > 8:
            cs.append("in:multiword")
        if fw.intval(v["den"]) > 1:
            cs.append("in:proper-fraction-result")
    elif op in ("next_up", "next_down", "nearest"):
        lim, d = fw.intval(e["lim"]), fw.intval(e["a"]["den"])
        cs.append("farey:" + ("denominator-fits" if d <= lim else "denominator-too-large"))
        if lim == 1:
            cs.append("farey:limit-1")
        if fw.intval(e["a"]["num"]) < 0:
            cs.append("farey:negative")
        if nbytes(e["a"]["den"]) > 8:
            cs.append("farey:multiword")
        if op == "nearest":
            cs.append("nearest:" + v["flag"])
    elif op == "is_simpler_than":
        cs.append("order:" + ("true" if v["bool"] else "false"))
        if e["a"]["den"] == e["b"]["den"]:
            cs.append("order:same-denominator")
            if e["a"]["num"]["m"] == e["b"]["num"]["m"]:
                cs.append("order:same-magnitude")
    elif op in ("simplest_from_f32", "simplest_from_f64"):
        fl = e["fl"]
        mx = 255 if fl["fmt"] == "f32" else 2047
        bias = 150 if fl["fmt"] == "f32" else 1075
        if fl["be"] == mx:
            cs.append("ieee:nan-or-infinity")
        elif fl["be"] == 0:
            cs.append("ieee:zero" if not any(fl["mf"]) else "ieee:subnormal")
        else:
            cs.append("ieee:last-place-" + ("integer" if fl["be"] - bias >= 0 else "fraction"))
            if not any(fl["mf"]):
                cs.append("ieee:power-of-two")
            cs.append("ieee:mantissa-" + ("even" if fl["mf"][0] % 2 == 0 else "odd"))
        if fl["sg"] == 1:
            cs.append("ieee:negative")
        if v["some"] == 1 and fw.intval(v["den"]) > 1 and fl["be"] not in (0, mx):
            cs.append("ieee:proper-fraction-result")
    elif op == "simplest_from_float":
        f = e["f"]
        cs.append("fbig:base%d" % e["base"])
        cs.append("fbig:" + e["mode"])
        if f["inf"]:
            cs.append("fbig:infinite")
        elif not f["sig"]["m"]:
            cs.append("fbig:zero")
        elif f["prec"] == 0:
            cs.append("fbig:unlimited-precision")
        else:
            s = abs(fw.intval(f["sig"]))
            while s % e["base"] == 0:
                s //= e["base"]
            if s == 1:
                cs.append("fbig:power-of-base")
            if f["sig"]["s"] == 1:
                cs.append("fbig:negative")
    return cs


def nontrivial(e):
    return e["out"]["k"] == "ok" and (e["op"] in ("is_simpler_than",) or e["out"]["v"]["some"] == 1)


def witnesses(ctx):
    return [dict(k["witness"]) for k in ctx.known if k["id"] in WITNESS_IDS and "C18" in k.get("properties", [])
            and k.get("status") == "open"]


def model_check(ctx):
    flags = source_flags()
    ctx.scope["model_repairs_present"] = flags
    n = ctx.pick(8, 14)
    consts = {"N": n, "MB": 3, "EMinNeg": 6, "EMax": 5, "OpsSel": fw.tla_set(ALL_OPS)}
    consts.update({k: "TRUE" if v else "FALSE" for k, v in flags.items()})
    ctx.scope["mc"] = {"denominators": [1, n], "numerators": [-2 * n, 2 * n], "limits": [1, n],
                       "mini_float": {"mantissa_bits": 3, "last_place_exponents": [-6, 5]}}
    cfg = fw.write_cfg(ctx.path("MC_Simplify.cfg"), invariants=["Correct", "NoRunaway", "CharAgrees"], constants=consts)
    r = ctx.mc("mc-simplify", SPECDIR, "Simplify.tla", cfg, timeout=3000)
    if r.ok and r.distinct < 1000:
        raise fw.ToolError("vacuity: MC_Simplify explored only %d states" % r.distinct)
    # re-finding runs: without the Known_ disjuncts TLC must exhibit each open defect from the model alone
    refind = [("F21-order", "is_simpler_than", not flags["FixOrder"]), ("F21-zero", "simplest_in", not flags["FixZero"]),
              ("F22", "next_up", not flags["FixLimit1"]), ("F80", "from_float", not flags["FixBigFloat"])]
    for tag, op, expect_bad in refind:
        small = dict(consts, N=3, OpsSel=fw.tla_set([op]))
        cfg = fw.write_cfg(ctx.path("MC_Simplify_%s.cfg" % tag), invariants=["Strict"], constants=small)
        r = ctx.mc("mc-" + tag, SPECDIR, "Simplify.tla", cfg, expect_ok=not expect_bad, timeout=600, workers=2)
        if expect_bad and "Strict" not in r.invariant_violated:
            raise fw.ToolError("model of the unrepaired code does not exhibit %s (model out of date)" % tag)
        if expect_bad:
            ctx.notes.append("%s exhibited by TLC on the algorithm-layer model (Strict violated, as expected)" % tag)


def run(ctx):
    drive = fw.build("std64", "c18")
    if ctx.replay:
        case = json.load(open(ctx.replay))["case"]
        p = ctx.path("replay-case.ndjson")
        open(p, "w").write(json.dumps(case) + "\n")
        tr = ctx.drive(drive, ["--cases", p, "--n", "0"], "trace-replay.ndjson")
        ctx.monitor("replay", SPECDIR, "Trace_C18.tla", "Trace_C18.cfg", tr)
        return ctx.finish()
    model_check(ctx)
    # spec -> impl
    ng, pmax, p16, ex = ctx.pick(5, 9), ctx.pick(2, 3), ctx.pick(1, 2), ctx.pick(1, 2)
    ctx.scope.update({"gen_small_scope": ng, "gen_fbig_max_digits": {"2": pmax, "10": pmax, "16": p16},
                      "gen_fbig_exponents": [-ex, ex]})
    cfg = fw.write_cfg(ctx.path("Gen_C18.cfg"), invariants=["Emit"],
                       constants={"NG": ng, "PMax": pmax, "P16": p16, "EX": ex, "Seed": ctx.seed % 1000})
    cases, ncases = ctx.gen("gen", SPECDIR, "Gen_C18.tla", cfg, timeout=1800)
    with open(cases, "a") as f:
        for w in witnesses(ctx):
            f.write(json.dumps(w) + "\n")
    # the monitor accumulates `bad` in its state: traces are validated in chunks so that the many events of the open
    # findings (most of the FBig lattice while F21 is open) do not make the run quadratic
    lines = open(cases).read().splitlines()
    chunk = 25000
    for c in range(0, len(lines), chunk):
        p = ctx.path("cases-gen-%d.ndjson" % (c // chunk))
        open(p, "w").write("\n".join(lines[c:c + chunk]) + "\n")
        tr1 = ctx.drive(drive, ["--cases", p, "--n", "0"], "trace-gen-%d.ndjson" % (c // chunk))
        ctx.monitor("mon-gen%d" % (c // chunk), SPECDIR, "Trace_C18.tla", "Trace_C18.cfg", tr1, nontrivial=nontrivial,
                    cover=cover, timeout=3000)
    # impl -> spec: seeded random calls, multi-word operands, all f32 / f64 exponent ranges
    for j, (n, mw) in enumerate(ctx.pick([(2500, 2)], [(10000, 2), (10000, 3), (6000, 5)])):
        tr = ctx.drive(drive, ["--seed", str(ctx.seed * 13 + j), "--n", str(n), "--max-words", str(mw)], "trace-rnd%d.ndjson" % j)
        ctx.monitor("mon-rnd%d" % j, SPECDIR, "Trace_C18.tla", "Trace_C18.cfg", tr, nontrivial=nontrivial, cover=cover, timeout=3000)
    ops = ["simplest_in", "next_up", "next_down", "nearest", "is_simpler_than", "simplest_from_f32", "simplest_from_f64",
           "simplest_from_float"]
    rc = ctx.finish(
        rule="one event = one call; distinct = distinct (op, operands, outcome); non-trivial = the call returned a fraction / a verdict",
        explanation="Simplify (continued-fraction descent of simplest_in, mediant walk of farey_neighbors, next_up/next_down/nearest, "
                    "is_simpler_than, simplest_from_f32/f64 on a mini-float) is model-checked against brute-force definitions over all "
                    "denominators (SimplifyDef) for all operands of the scope; the same run validates the Farey-neighbour "
                    "characterisations on BigInt (SimplifyChar) that the monitor uses on big operands. Conformance: all small-scope "
                    "states, a lifted f32/f64 lattice, every FBig with <= 2-3 digits in bases 2/10/16 x 6 modes, and seeded random "
                    "calls. f32/f64: exhaustive only on the lattice, otherwise sampled; FBig: even bases only (odd bases are outside the "
                    "definition); limits of next_up/next_down/nearest below 2^16 (the mediant walk is O(limit)).",
        required_cover=["op:" + o for o in ops] + [
            "in:equal-endpoints", "in:swapped", "in:straddles-zero", "in:negative", "in:zero-endpoint", "in:integer-endpoints",
            "in:multiword", "in:proper-fraction-result", "farey:denominator-fits", "farey:denominator-too-large", "farey:limit-1",
            "farey:negative", "farey:multiword", "nearest:Exact", "nearest:Positive", "nearest:Negative", "order:true", "order:false",
            "order:same-denominator", "order:same-magnitude", "ieee:nan-or-infinity", "ieee:zero", "ieee:subnormal",
            "ieee:last-place-integer", "ieee:last-place-fraction", "ieee:power-of-two", "ieee:mantissa-even", "ieee:mantissa-odd",
            "ieee:negative", "ieee:proper-fraction-result", "fbig:base2", "fbig:base10", "fbig:base16", "fbig:Zero", "fbig:Away",
            "fbig:Up", "fbig:Down", "fbig:HalfEven", "fbig:HalfAway", "fbig:infinite", "fbig:zero", "fbig:unlimited-precision",
            "fbig:power-of-base", "fbig:negative", "from:small", "from:ieee", "from:fbig", "from:rnd"])
    if rc == 0 and not os.environ.get("VERIF_REPO"):
        stale = fw.stale_findings_check(ctx, WITNESS_IDS)
        if stale:
            raise fw.ToolError("open finding(s) %s no longer observed although their witnesses ran: mark fixed" % stale)
    return rc


def selftest(ctx):
    """binding demonstration: corrupt recorded results, the monitor must flag exactly those events"""
    drive = fw.build("std64", "c18")
    tr = ctx.drive(drive, ["--seed", "9", "--n", "300", "--max-words", "2"], "trace.ndjson")
    lines = open(tr).read().split("\n")
    evs = [json.loads(l) if l else None for l in lines]
    v0 = ctx.monitor("selftest-base", SPECDIR, "Trace_C18.tla", "Trace_C18.cfg", tr)
    bad0 = set(b["i"] for b in v0["bad"])

    def pick(op, pred=lambda e: True):
        for i, e in enumerate(evs):
            if e and e["op"] == op and (i + 1) not in bad0 and e["out"]["k"] == "ok" and pred(e):
                return i
        raise fw.ToolError("selftest: no clean %s event in the sample trace" % op)
    want = []
    # 1. simplest_in: replace the answer by the mediant-like neighbour num+1 (no longer the simplest / outside)
    i = pick("simplest_in", lambda e: e["a"] != e["b"])
    x = fw.intval(evs[i]["out"]["v"]["num"]) + 1
    evs[i]["out"]["v"]["num"] = {"s": 1 if x < 0 else 0, "m": list(abs(x).to_bytes((abs(x).bit_length() + 7) // 8, "little"))}
    want.append(i + 1)
    # 2. nearest: flip the reported sign of the error
    i = pick("nearest", lambda e: e["out"]["v"]["flag"] in ("Positive", "Negative"))
    evs[i]["out"]["v"]["flag"] = "Negative" if evs[i]["out"]["v"]["flag"] == "Positive" else "Positive"
    want.append(i + 1)
    # 3. simplest_from_f64: denominator + 1
    i = pick("simplest_from_f64", lambda e: e["out"]["v"]["some"] == 1 and e["fl"]["be"] not in (0, 2047))
    x = fw.intval(evs[i]["out"]["v"]["den"]) + 1
    evs[i]["out"]["v"]["den"] = {"s": 0, "m": list(x.to_bytes((x.bit_length() + 7) // 8, "little"))}
    want.append(i + 1)
    # 4. next_up: answer with the number itself
    i = pick("next_up")
    evs[i]["out"]["v"]["num"], evs[i]["out"]["v"]["den"] = evs[i]["a"]["num"], evs[i]["a"]["den"]
    want.append(i + 1)
    open(tr, "w").write("\n".join(json.dumps(e) if e else "" for e in evs))
    v = ctx.monitor("selftest", SPECDIR, "Trace_C18.tla", "Trace_C18.cfg", tr)
    got = sorted(set(b["i"] for b in v["bad"]) - bad0)
    ok = got == sorted(want)
    print("SELFTEST %s: corrupted events %s -> monitor newly flagged %s" % ("PASS" if ok else "FAIL", sorted(want), got))
    if ok:
        shutil.rmtree(ctx.rundir, ignore_errors=True)
    return 0 if ok else 2
