"""C17 The hand-managed integer storage is memory-safe and keeps its invariants."""
import json
import sys
import os
import re
import time
import framework as fw
import C05 as c05

SPECDIR = "C17"
LIBS = ("C05",)


def trace_cfg(ctx):
    return fw.write_cfg(ctx.path("Trace_C17.cfg"), invariants=["Verdict"], postcondition="Complete",
                        constants={"FixOnes": "TRUE" if c05.fix_ones() else "FALSE", "WordBytes": 8, "WordBits": 64})


def cover(e):
    cs = {"pool:" + e["pool"], "src:" + e["src"]}
    n = e["nr"]
    tr = [{"heap": False, "ptr": 0, "cap": 1, "st": False} for _ in range(n)]
    for s, o in zip(e["steps"], e["obs"]):
        d = s["d"] - 1
        t = o["t"][0]
        op = s["op"]
        cs.add("op:" + op)
        if o["k"] == "panic":
            cs.add("panic")
        if tr[d]["heap"] and not t["heap"]:
            cs.add("heap-to-inline")
        if t["heap"] and not tr[d]["heap"]:
            cs.add("inline-to-heap")
        if any(a[0] == 3 for a in o["al"]):
            cs.add("realloc-event")
        if op == "clonefrom" and o["k"] == "ok" and not e.get("noalloc"):
            a = s["a"] - 1
            src = tr[a] if a != d else tr[d]
            if tr[d]["heap"] and not tr[d]["st"] and t["heap"]:
                if t["ptr"] == tr[d]["ptr"]:
                    cs.add("clonefrom-reuses-buffer")
                elif tr[d]["cap"] < t["len"]:
                    cs.add("clonefrom-realloc-too-small")
                else:
                    cs.add("clonefrom-realloc-too-large")
            if tr[d]["heap"] and not t["heap"]:
                cs.add("clonefrom-inline-frees-buffer")
            if not tr[d]["heap"] and t["heap"]:
                cs.add("clonefrom-inline-to-heap")
            if a == d:
                cs.add("clonefrom-self-clone")
            if src["st"]:
                cs.add("clonefrom-static-source")
        if op in ("add", "sub", "mul") and s.get("f") in ("ar",) and s.get("b") == s["d"] and s.get("a") == s["d"]:
            cs.add("op-assign-own-clone")
        if op in ("add", "sub", "mul") and s.get("f") == "ap":
            cs.add("op-assign-in-place")
        if t["st"]:
            cs.add("static-heap" if t["heap"] else "static-inline")
        if op == "drop" and tr[d]["heap"]:
            cs.add("drop-heap-value")
        tr[d] = t
    if e.get("noalloc"):
        cs.add("executor:miri")
    else:
        cs.add("executor:recording-allocator")
        if e["alend"]:
            cs.add("blocks-freed-at-end")
    return sorted(cs)


def nontrivial(e):
    return any(o["t"][0]["heap"] for o in e["obs"])


def key(e):
    return json.dumps([e["pool"], e["steps"], e.get("noalloc")], sort_keys=True)


def monitor_all(ctx, name, trace, cfg, totals, chunk=8000):
    for n, part in enumerate(c05.split_trace(ctx, trace, chunk)):
        v = ctx.monitor("%s-%d" % (name, n), SPECDIR, "Trace_C17.tla", cfg, part, libs=LIBS, nontrivial=nontrivial, key=key, cover=cover)
        for k in ("shapedrift", "onesdrift", "unexpected_panics"):
            totals[k] += v.get(k, 0)
        if part != trace:
            os.remove(part)


def run_miri(ctx, cases, out_name, timeout):
    """Executes the histories under Miri (the UB-detecting executor).  Returns (trace path, failing case or None)."""
    out = ctx.path(out_name)
    if os.path.exists(out):
        os.remove(out)
    cmd = ["cargo", "+nightly", "miri", "run", "--offline", "--bin", "c17"]
    alt = os.environ.get("VERIF_REPO")
    if alt:
        cmd += ["--config", "paths=[%s]" % ",".join('"%s/%s"' % (alt, d) for d in ("base", "integer", "float", "rational", "macros"))]
    cmd += ["--", "--cases", cases, "--n", "0", "--out", out]
    env = {"MIRIFLAGS": "-Zmiri-disable-isolation", "CARGO_TARGET_DIR": os.path.join(fw.HARNESS, "target-miri" + ("-alt" if alt else ""))}
    t = time.time()
    rc, o = fw.sh(cmd, cwd=fw.HARNESS, env=env, timeout=timeout)
    open(ctx.path("miri.log"), "w").write(o)
    fw.log("[miri] rc=%d %.1fs" % (rc, time.time() - t))
    ncases = sum(1 for l in open(cases) if l.strip())
    done = sum(1 for _ in open(out)) if os.path.exists(out) else 0
    if rc == 0 and done == ncases:
        return out, None, time.time() - t
    ub = re.search(r"^error: (Undefined Behavior.*|memory leaked.*|.*deallocat.*|.*out-of-bounds.*|.*dangling.*|.*uninitialized.*|.*data race.*)$", o, re.M)
    if rc != 0 and ub:
        # the history after the last completed one (a leak is reported at exit: then it is the last one)
        lines = [l for l in open(cases) if l.strip()]
        bad = json.loads(lines[min(done, ncases - 1)])
        bad["miri_error"] = ub.group(0)[:300] + " (full text: miri.log in the run directory)"
        bad["op"] = "miri"
        return (out if done else None), bad, time.time() - t
    import sys
    sys.stderr.write(o[-3000:])
    raise fw.ToolError("miri run failed without a Miri diagnosis (rc=%d, %d/%d histories)" % (rc, done, ncases))


def drive_fault(ctx, exe, argv, out_name, build):
    """ctx.drive, except that a driver killed by a signal is an observation: the history it was executing (left in
    <out>.current) becomes a violation; returns the trace path or None"""
    out = ctx.path(out_name)
    rc, o = fw.sh([exe] + argv + ["--out", out], cwd=ctx.rundir, timeout=3000)
    if rc == 0:
        return out
    if rc < 0 or rc in (134, 135, 138, 139):
        cur = out + ".current"
        case = json.loads(open(cur).readline()) if os.path.exists(cur) else {"steps": []}
        case.update({"op": "fault", "signal": -rc if rc < 0 else rc - 128, "build": build, "executor": "recording-allocator"})
        ctx.violations.append((case, "process-killed-by-signal", "native"))
        return None
    sys.stderr.write(o[-3000:])
    raise fw.ToolError("harness driver failed rc=%d: %s" % (rc, " ".join(argv[:4])))


def guard_runs(ctx, cases, only=None):
    """c17g under guard pages; a run that dies by a signal leaves the history it was executing in <out>.current"""
    total = 0
    plan = [("std64", False, ["--cases", cases]), ("std64", True, ["--cases", cases]),
            ("std64", False, ["--seed", str(ctx.seed + 21), "--n", str(ctx.pick(6000, 60000)), "--len", "16", "--max-words", "24"]),
            ("std64", True, ["--seed", str(ctx.seed + 22), "--n", str(ctx.pick(3000, 30000)), "--len", "16", "--max-words", "24"]),
            ("release", False, ["--seed", str(ctx.seed + 23), "--n", str(ctx.pick(6000, 60000)), "--len", "16", "--max-words", "24"]),
            ("release", True, ["--cases", cases])]
    if only is not None:
        plan = [("std64", False, ["--cases", only]), ("std64", True, ["--cases", only]), ("release", False, ["--cases", only]),
                ("release", True, ["--cases", only])]
    for k, (variant, front, argv) in enumerate(plan):
        exe = fw.build(variant, "c17g")
        out = ctx.path("trace-guard-%d.ndjson" % k)
        argv = argv + (["--front"] if front else []) + ["--n", "0"] * (0 if "--n" in argv else 1)
        rc, o = fw.sh([exe] + argv + ["--out", out], cwd=ctx.rundir, timeout=3000)
        cur = out + ".current"
        if rc == 0 and os.path.exists(out):
            summ = json.loads(open(out).readline())
            total += summ["histories"]
            ctx.events += summ["histories"]
            ctx.cover["executor:guard-pages" + ("-front" if front else "")] = ctx.cover.get("executor:guard-pages" + ("-front" if front else ""), 0) + summ["histories"]
            continue
        if rc < 0 or rc in (139, 134, 135, 138):
            # died by a signal: SIGSEGV / SIGBUS from a guard page, SIGABRT from a std precondition check or the allocator
            case = json.loads(open(cur).readline()) if os.path.exists(cur) else {"steps": []}
            case.update({"op": "guard", "signal": -rc if rc < 0 else rc - 128, "build": variant, "guard": "front" if front else "back"})
            ctx.violations.append((case, "memory-fault-under-guard-pages", "guard"))
            continue
        sys.stderr.write(o[-2000:])
        raise fw.ToolError("guard-page executor failed rc=%d (%s)" % (rc, " ".join(argv[:4])))
    ctx.scope["guard_page_histories"] = total
    return total


def run(ctx):
    drive = fw.build("std64", "c17")
    c05.assume_fixed(ctx)
    totals = {"shapedrift": 0, "onesdrift": 0, "unexpected_panics": 0}
    cfg = trace_cfg(ctx)
    if ctx.replay:
        case = json.load(open(ctx.replay))["case"]
        p = ctx.path("replay-case.ndjson")
        open(p, "w").write(json.dumps({k: case[k] for k in ("pool", "nr", "steps")}) + "\n")
        tr = ctx.drive(drive, ["--cases", p, "--n", "0", "--lite"], "trace-replay.ndjson")
        ctx.monitor("replay", SPECDIR, "Trace_C17.tla", cfg, tr, libs=LIBS)
        guard_runs(ctx, None, only=p)
        mtr, bad, _ = run_miri(ctx, p, "trace-replay-miri.ndjson", 900)
        if bad:
            ctx.violations.append((bad, "miri-error", "miri"))
        return ctx.finish()
    # algorithm layer: ReprLayer composed with the HeapDef allocator model
    mcinfo = c05.mc_repr_layer(ctx, ["HeapOrKnown", "CanonicalOrKnown"], ["HeapStrict", "CanonicalStrict"], "CanonicalStrict")
    # spec -> impl: histories over 3 registers x size classes x storage operations
    depth = ctx.pick(4, 5)
    rates = ctx.pick((6, 17, 17, 17, 17), (6, 12, 12, 17, 17))
    ctx.scope.update({"gen": {"depth": depth, "sample_rates": ["1/%d" % r for r in rates[:depth]], "alphabet": 105}})
    consts = {"Depth": depth, "Seed": ctx.seed % 1000, "Pools": '{"U", "I"}'}
    consts.update({"R%d" % (i + 1): r for i, r in enumerate(rates)})
    gcfg = fw.write_cfg(ctx.path("Gen_C17.cfg"), invariants=["Emit"], constants=consts)
    cases, ncases = ctx.gen("gen", SPECDIR, "Gen_C17.tla", gcfg, timeout=1500)
    # directed cases: witnesses of the open findings
    wit = ctx.path("cases-witness.ndjson")
    with open(wit, "w") as f:
        for c in c05.witnesses(ctx, "C17"):
            f.write(json.dumps(c) + "\n")
    if os.path.getsize(wit):
        trw = ctx.drive(drive, ["--cases", wit, "--n", "0", "--lite"], "trace-witness.ndjson")
        monitor_all(ctx, "mon-witness", trw, cfg, totals)
    tr1 = drive_fault(ctx, drive, ["--cases", cases, "--n", "0", "--lite"], "trace-gen.ndjson", "std64")
    if tr1:
        monitor_all(ctx, "mon-gen", tr1, cfg, totals)
        os.remove(tr1)
    # impl -> spec: seeded random histories with sizes up to 24 words
    n = ctx.pick(2500, 40000)
    tr2 = drive_fault(ctx, drive, ["--seed", str(ctx.seed), "--n", str(n), "--len", "16", "--max-words", "24", "--lite"], "trace-rnd.ndjson", "std64")
    if tr2:
        monitor_all(ctx, "mon-rnd", tr2, cfg, totals)
        os.remove(tr2)
    # the same random source in the optimised build: debug assertions are compiled out there, so an access the
    # assertions would have stopped reaches the allocation (red zones, sizes and identities are recorded as before)
    rel = fw.build("release", "c17")
    tr3 = drive_fault(ctx, rel, ["--seed", str(ctx.seed + 11), "--n", str(ctx.pick(1500, 20000)), "--len", "16", "--max-words", "24", "--lite"], "trace-rnd-release.ndjson", "release")
    if tr3:
        monitor_all(ctx, "mon-rnd-release", tr3, cfg, totals)
        os.remove(tr3)
    # guard-page executor: every block the library allocates lies against an inaccessible page (behind it; in a second pass
    # in front of it), freed blocks stay inaccessible: an out-of-bounds READ or a use after free is a hardware fault.  The
    # generated histories and fresh random ones, debug and release.
    guard_runs(ctx, cases)
    # the same generated histories under Miri (every k-th case, spread over the whole file)
    nm = ctx.pick(45, 450)
    lines = [l for l in open(cases) if l.strip()]
    step = max(1, len(lines) // nm)
    sub = lines[ctx.seed % step::step][:nm]
    mcases = ctx.path("cases-miri.ndjson")
    open(mcases, "w").write("".join(sub))
    mtr, bad, mwall = run_miri(ctx, mcases, "trace-miri.ndjson", ctx.pick(900, 3600))
    nops = sum(len(json.loads(l)["steps"]) for l in sub)
    if mtr:
        monitor_all(ctx, "mon-miri", mtr, cfg, totals)
    if bad:
        ctx.violations.append((bad, "miri-error", "miri"))
    if totals["onesdrift"] and c05.fix_ones():
        # the model is the repaired code: a different shape of UBig::ones is a storage-invariant violation of the code
        ctx.violations.append(({"op": "ones", "n": 128, "events": totals["onesdrift"]}, "ones-shape-differs-from-the-storage-model", "drift"))
    elif totals["onesdrift"]:
        raise fw.ToolError("observed shape of UBig::ones disagrees with ReprAlg!A_Ones for FixOnes = %s: the model does not "
                           "correspond to the code (flip FixOnes in spec/C05/MC_ReprLayer.cfg)" % c05.fix_ones())
    ctx.drift = totals["shapedrift"]
    c05.check_stale(ctx, "C17")
    return ctx.finish(
        rule="one event = one history over a pool of UBig/IBig registers with the allocator events of every step; distinct = "
             "distinct (pool, steps, executor); non-trivial = some value of the history is heap resident",
        explanation="HeapDef (dealloc/realloc of live blocks with the recorded layout, red zones intact, one live block of "
                    "capacity*8 bytes per heap-resident value, no sharing, no leak after the final drop) and ReprDef!Canonical "
                    "evaluated by Trace_C17 on traces of a recording global allocator; ReprLayer x HeapDef model checked with a "
                    "2-bit word; Gen_C17 histories (sampled, rates in scope) and random histories. Undefined behaviour proper "
                    "(out-of-bounds, use after free, invalid transmute) is observed by Miri executing a subset of the same "
                    "generated histories: any Miri error is a violation. The TLA+ side contributes the history space and the "
                    "ownership / leak / layout invariants.",
        extra={"algorithm_layer": mcinfo, "shape_drift_events": totals["shapedrift"], "undocumented_panics_seen": totals["unexpected_panics"],
               "miri": {"histories": len(sub), "operations": nops, "wall_s": round(mwall, 1)}, "notes": ctx.notes,
               "level_note": "UB detection is delegated to Miri as replay executor; allocator contract and invariants by TLC"},
        required_cover=["pool:U", "pool:I", "src:gen", "src:rnd", "src:miri", "executor:miri", "executor:recording-allocator",
                        "executor:guard-pages", "executor:guard-pages-front",
                        "heap-to-inline", "inline-to-heap", "realloc-event", "clonefrom-reuses-buffer", "clonefrom-realloc-too-small",
                        "clonefrom-realloc-too-large", "clonefrom-inline-frees-buffer", "clonefrom-inline-to-heap",
                        "clonefrom-self-clone", "clonefrom-static-source", "op-assign-own-clone", "op-assign-in-place",
                        "static-heap", "static-inline", "drop-heap-value", "op:rewords", "op:rebytes", "op:via", "op:ones",
                        "blocks-freed-at-end", "panic"])


def selftest(ctx):
    """binding demonstration: corrupt the recorded allocator trace / hook triple, the monitor must flag exactly that history"""
    drive = fw.build("std64", "c17")
    cfg = trace_cfg(ctx)
    tr = ctx.drive(drive, ["--seed", "9", "--n", "40", "--len", "12", "--max-words", "12", "--lite"], "trace.ndjson")
    base = ctx.monitor("selftest-base", SPECDIR, "Trace_C17.tla", cfg, tr, libs=LIBS)
    base_bad = {b["i"] for b in base["bad"]}
    lines = [l for l in open(tr).read().split("\n") if l]
    oks = []

    def pick(pred):
        for i, l in enumerate(lines, 1):
            e = json.loads(l)
            if i not in base_bad and not any(s["op"] == "ones" and s.get("n") == 128 for s in e["steps"]) and pred(e):
                return i, e
        raise fw.ToolError("selftest: no suitable event")

    def attempt(label, pred, mutate, expect):
        i, e = pick(pred)
        mutate(e)
        mut = list(lines)
        mut[i - 1] = json.dumps(e)
        p = ctx.path("trace-%s.ndjson" % label)
        open(p, "w").write("\n".join(mut) + "\n")
        v = ctx.monitor("selftest-" + label, SPECDIR, "Trace_C17.tla", cfg, p, libs=LIBS)
        new = [(b["i"], b["why"]) for b in v["bad"] if b["i"] not in base_bad]
        ok = new == [(i, expect)]
        oks.append(ok)
        print("SELFTEST %s: %s in history %d -> monitor flagged %s" % ("PASS" if ok else "FAIL", label, i, new))

    has_end = lambda e: any(a[0] == 2 for a in e["alend"])

    def drop_dealloc(e):
        k = [j for j, a in enumerate(e["alend"]) if a[0] == 2][0]
        del e["alend"][k]

    def dup_dealloc(e):
        k = [j for j, a in enumerate(e["alend"]) if a[0] == 2][0]
        e["alend"].append(list(e["alend"][k]))

    def wrong_size(e):
        k = [j for j, a in enumerate(e["alend"]) if a[0] == 2][0]
        e["alend"][k][2] += 8

    def last_heap_step(e):
        return max(j for j, o in enumerate(e["obs"]) if o["t"][0]["heap"] and not o["t"][0]["st"] and o["k"] == "ok")

    has_heap = lambda e: any(o["t"][0]["heap"] and not o["t"][0]["st"] and o["k"] == "ok" for o in e["obs"])

    def cap_plus_one(e):
        e["obs"][last_heap_step(e)]["t"][0]["cap"] += 1

    def cap_huge(e):
        e["obs"][last_heap_step(e)]["t"][0]["cap"] += 1000

    def redzone(e):
        k = [j for j, a in enumerate(e["alend"]) if a[0] == 2][0]
        e["alend"].insert(k, [4, e["alend"][k][1], 1, 0])

    attempt("dealloc-removed", has_end, drop_dealloc, "leak")
    attempt("dealloc-duplicated", has_end, dup_dealloc, "dealloc-of-dead-block")
    attempt("dealloc-size-changed", has_end, wrong_size, "dealloc-with-wrong-size")
    attempt("capacity-plus-one", has_heap, cap_plus_one, "block-size-differs-from-capacity")
    attempt("capacity-not-compact", has_heap, cap_huge, "not-canonical-capacity-not-compact")
    attempt("red-zone-event", has_end, redzone, "red-zone-overwritten")
    ok = all(oks)
    print("SELFTEST C17 %s" % ("PASS" if ok else "FAIL"))
    return 0 if ok else 2
