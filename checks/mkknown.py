#!/usr/bin/env python3
"""Merges findings/*.json fragments (one per property family) into known_findings.json."""
import json, os, glob
ROOT = os.path.dirname(os.path.dirname(os.path.abspath(__file__)))
out, seen = [], set()
for p in sorted(glob.glob(os.path.join(ROOT, "findings", "*.json"))):
    for e in json.load(open(p)):
        assert e["id"] not in seen, "duplicate finding id " + e["id"]
        assert e["status"] in ("open", "fixed")
        seen.add(e["id"]); out.append(e)
json.dump(out, open(os.path.join(ROOT, "known_findings.json"), "w"), indent=1)
print("%d findings (%d open)" % (len(out), sum(e["status"] == "open" for e in out)))
