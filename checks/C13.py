"""C13 Reduced-ring arithmetic is the homomorphic image of integer arithmetic."""
import json
import os
import shutil
import threading

import framework as fw
from C12 import par_monitors, split_trace, write_cases

SPEC = "C13"
MON = ("Trace_C13.tla", "Trace_C13.cfg")
ALG_ACTIONS = ["AddKeep", "AddSubtract", "AddOverflow", "SubVanillaGe", "SubVanillaLt", "NegZero", "NegNonzero", "DblKeep",
               "DblSubtract", "DblOverflow", "MulSmall", "SqrSmall", "One", "RAddKeep", "RAddReduce", "RDblKeep", "RDblReduce"]
LARGE_ACTIONS = ["SubLargeKeep", "SubLargeBorrow", "MulLargeDivide", "MulLargeShort", "SqrLargeDivide", "SqrLargeShort"]


def iv(x):
    return fw.intval(x)


def key(e):
    return json.dumps({f: e[f] for f in e if f not in ("seq", "src", "id", "prop", "fam")}, sort_keys=True)


def nontrivial(e):
    return iv(e["m"]) > 1 and (iv(e["a"]) % iv(e["m"])) != 0


def cover(e):
    op = e["op"]
    m, a, b = iv(e["m"]), iv(e["a"]), iv(e["b"])
    cs = ["op:" + op]
    src = e.get("src", "")
    cs.append(("mod:" + src[4:]) if src.startswith("gen:") else ("src:" + src))
    w = fw.nwords(e["m"])
    cs.append("ring:" + ("single" if w <= 1 else "double" if w == 2 else "large"))
    cs.append("shift:" + ("none" if m.bit_length() % 64 == 0 else "nonzero"))
    if m == 1:
        cs.append("modulus:1")
    elif m & (m - 1) == 0:
        cs.append("modulus:pow2")
    if w >= 25:
        cs.append("modulus:>=25-words")
    if a < 0 or b < 0:
        cs.append("operand:negative")
    if abs(a) >= m:
        cs.append("operand:not-reduced")
    if abs(a).bit_length() > 2 * m.bit_length():
        cs.append("operand:twice-as-long")
    outs = e["outs"]
    if any(g["out"]["k"] == "panic" for g in outs):
        cs.append(op + ":panic")
    if any(any(f.startswith("R.") for f in g["forms"]) for g in outs):
        cs.append("forms:reducer")
    if any(any(f in ("u8", "i8", "bool") for f in g["forms"]) for g in outs):
        cs.append("forms:primitive")
    if op in ("add", "sub"):
        ra, rb = a % m, b % m
        if op == "add" and ra and rb and (ra + rb) == m:
            cs.append("add:sum-equals-m")
        if op == "add" and ra + rb > m:
            cs.append("add:wraps")
        if op == "sub" and ra < rb:
            cs.append("sub:borrows")
    if op == "inv":
        for g in outs:
            if g["out"]["k"] == "ok":
                cs.append("inv:some" if g["out"]["v"]["some"] == 1 else "inv:none")
    if op == "div":
        cs.append("div:ok" if any(g["out"]["k"] == "ok" for g in outs) else "div:refused")
    if op == "pow":
        ee = iv(e["e"])
        cs.append("pow:e=0" if ee == 0 else "pow:e=1" if ee == 1 else "pow:e-multiword" if ee >= 2 ** 64 else "pow:e-word")
    if op == "mix":
        cs.append("mix:same-modulus" if iv(e["m2"]) == m else "mix:different-modulus")
    return cs


def witness_cases(ctx):
    out = []
    for k in ctx.known:
        if k.get("status") == "open" and SPEC in k.get("properties", [k.get("property")]) and "witness" in k:
            c = dict(k["witness"])
            c["src"] = "wit:" + k["id"]
            out.append(c)
    return out


def is_open(ctx, fid):
    return any(k["id"] == fid and k.get("status") == "open" for k in ctx.known)


def alg_cfg(ctx, name, w, maxwords, strict=False, fix_one=None, fix_check=None, presence=True):
    f1 = (not is_open(ctx, "F23")) if fix_one is None else fix_one
    f2 = (not is_open(ctx, "F51")) if fix_check is None else fix_check
    inv = ["Homomorphic"]
    if presence and not strict:
        inv += (["F23Present"] if not f1 else []) + (["F51Present"] if not f2 else [])
    return fw.write_cfg(ctx.path(name), invariants=inv,
                        constants={"W": w, "MaxWords": maxwords, "FixOne": "TRUE" if f1 else "FALSE",
                                   "FixCheck": "TRUE" if f2 else "FALSE", "Strict": "TRUE" if strict else "FALSE"})


def run(ctx):
    std = fw.build("std64", "c13")
    rel = fw.build("release", "c13")
    if ctx.replay:
        case = json.load(open(ctx.replay))["case"]
        if str(case.get("op", "")).startswith("model:"):
            raise fw.ToolError("model-checking counterexamples are replayed by running the check")
        p = write_cases(ctx.path("replay-case.ndjson"), [case])
        tr = ctx.drive(std, ["--cases", p, "--n", "0"], "trace-replay.ndjson")
        ctx.monitor("replay", SPEC, MON[0], MON[1], tr, nontrivial=nontrivial, cover=cover, key=key)
        return ctx.finish()

    # 1. algorithm layer (runs beside the conformance part): 2-bit words with 1..3-word moduli cover the single, double
    #    and large representations; 3-bit words with 1..2-word moduli is the second scope (thorough)
    holder = {}
    mcs = [("mc-alg-w2", alg_cfg(ctx, "MC_w2.cfg", 2, 3), ALG_ACTIONS + LARGE_ACTIONS)]
    if not ctx.quick:
        mcs.append(("mc-alg-w3", alg_cfg(ctx, "MC_w3.cfg", 3, 2), ALG_ACTIONS))
    ctx.scope["alg_scopes"] = "W=2 bits x 1..3 words" + ("" if ctx.quick else ", W=3 bits x 1..2 words") + ", all moduli, all residue pairs"

    def mc_job():
        for name, cfg, acts in mcs:
            holder[name] = fw.tlc(name, os.path.join(fw.SPEC, SPEC), "ModularAlg.tla", cfg, ctx.rundir, workers=ctx.pick(3, 6),
                                  timeout=2400, heap="6g", coverage=True)

    th = threading.Thread(target=mc_job)
    th.start()
    # the sliding-window power loop (exponent as a word sequence, every window length, every exponent of the scope)
    for nm, w, mwords in [("w4", 4, 3)] + ([] if ctx.quick else [("w5", 5, 2), ("w3", 3, 4)]):
        pcfg = fw.write_cfg(ctx.path("MC_ModPowAlg_%s.cfg" % nm), invariants=["ExponentOK", "RingOK", "ChooserOK"], constants={"W": w, "MaxWords": mwords})
        ctx.mc("mc-powalg-" + nm, SPEC, "ModPowAlg.tla", pcfg, workers=4)
    # the inverse in a ring with a large modulus: by the residue's length gcd_ext_word / gcd_ext_dword / gcd_ext_in_place (C12's
    # GcdExtAlg), the sign rule and the negation in the ring; every modulus of three (four) three-bit words x every residue
    icfg = fw.write_cfg(ctx.path("MC_ModInvAlg.cfg"), spec="InvSpec", invariants=["InvOK"],
                        constants={"W": 3, "XMax": ctx.pick(800, 2047), "YStride": ctx.pick(1, 1), "Dword": "FALSE"})
    ctx.mc("mc-modinv", SPEC, "ModInvAlg.tla", icfg, workers=4, libs=("C12",), timeout=2400)
    ctx.scope["pow_alg_scopes"] = "W=4 bits x 3 words" + ("" if ctx.quick else ", W=5 x 2, W=3 x 4") + ", every exponent, every window length 1..W-1"

    # 2. spec -> impl
    gcfg = fw.write_cfg(ctx.path("Gen_C13.cfg"), invariants=["Emit"],
                        constants={"Seed": ctx.seed % 1000, "Big": "FALSE" if ctx.quick else "TRUE"})
    cases, ncases = ctx.gen("gen", SPEC, "Gen_C13.tla", gcfg, workers=4)
    allc = [json.loads(l) for l in open(cases)]
    # the short-product shapes are never sampled away (their branch only compares the product with the modulus)
    keep = [c for c in allc if c.get("shape", 0) >= 11]
    if ctx.quick:
        allc = [c for i, c in enumerate(allc) if (i + ctx.seed) % 2 == 0 or c.get("shape", 0) >= 11]
    pg = write_cases(ctx.path("cases-gen.ndjson"), witness_cases(ctx) + allc)
    t_gen = ctx.drive(std, ["--cases", pg, "--n", "0"], "trace-gen.ndjson")
    # (--invfam: the case analysis of ModInvAlg on real operands - elements of 1, 2, 3.. words against moduli k a + delta)
    t_rnd = ctx.drive(std, ["--seed", str(ctx.seed), "--n", str(ctx.pick(1200, 9000)), "--max-words", str(ctx.pick(12, 24)),
                            "--invfam", str(ctx.pick(120, 1200))], "trace-rnd.ndjson")
    # without debug assertions a broken representation invariant is not stopped by an assert: it must show in the values
    pr = write_cases(ctx.path("cases-rel.ndjson"), witness_cases(ctx) + keep + [c for c in allc[:: ctx.pick(6, 3)] if c.get("shape", 0) < 11])
    t_rel = ctx.drive(rel, ["--cases", pr, "--seed", str(ctx.seed + 1), "--n", str(ctx.pick(200, 1500)), "--max-words", "10",
                            "--invfam", str(ctx.pick(60, 400))], "trace-rel.ndjson")
    jobs = split_trace(ctx, t_gen, "gen", ctx.pick(4, 8)) + split_trace(ctx, t_rnd, "rnd", ctx.pick(2, 5)) + \
        split_trace(ctx, t_rel, "rel", ctx.pick(1, 3))
    par_monitors(ctx, jobs, threads=ctx.pick(4, 6), spec=SPEC, mon=MON, hooks=(nontrivial, cover, key), timeout=2700)

    th.join()
    orig = fw.tlc
    try:
        for name, cfg, acts in mcs:
            if name not in holder:
                raise fw.ToolError("ModularAlg model checking did not complete")
            fw.tlc = lambda n, *a, **k: holder[n]
            ctx.mc(name, SPEC, "ModularAlg.tla", cfg, required_actions=acts)
    finally:
        fw.tlc = orig
    # 3. the open findings are re-found by model checking alone: with the excuses switched off TLC must report a
    #    counterexample of the unrepaired model (and none once both repairs are modelled)
    if is_open(ctx, "F23") or is_open(ctx, "F51"):
        r = ctx.mc("mc-alg-strict", SPEC, "ModularAlg.tla", alg_cfg(ctx, "MC_strict.cfg", 2, 3, strict=True), workers=2,
                   timeout=900, expect_ok=False)
        if not r.invariant_violated:
            raise fw.ToolError("ModularAlg: the open findings are not reproduced by the model of the unrepaired code")
    if not ctx.quick:
        r = ctx.mc("mc-alg-repaired", SPEC, "ModularAlg.tla",
                   alg_cfg(ctx, "MC_fixed.cfg", 2, 3, strict=True, fix_one=True, fix_check=True), workers=ctx.pick(3, 6), timeout=1800)

    rc = ctx.finish(
        rule="one event = one ring operation on one (modulus, operands, exponent) tuple executed in every call form incl. the "
             "num_modular::Reducer methods; distinct = distinct (op, operands, outcomes); non-trivial = modulus > 1 and a non-zero residue",
        explanation="ModularAlg (pre-shifted residues, conditional subtract, borrow add, negate, dbl, mul/sqr reduction, unit, "
                    "Reducer::check) model-checked for every modulus of 1..3 words of 2 bits (and 1..2 words of 3 bits) and every "
                    "residue pair against ModularDef; TLC enumerates modulus class x operation x operand shape (Gen_C13); every "
                    "recorded call is reduced independently by the monitor with BigNat division (pow: square-and-multiply replay; "
                    "inv/div: a x = 1 relation, non-invertibility by a verified common divisor or Euclid)",
        required_cover=["op:reduce", "op:add", "op:sub", "op:mul", "op:div", "op:neg", "op:dbl", "op:sqr", "op:pow", "op:inv", "op:mix",
                        "ring:single", "ring:double", "ring:large", "shift:none", "shift:nonzero", "modulus:1", "modulus:pow2",
                        "operand:negative", "operand:not-reduced", "operand:twice-as-long", "forms:reducer", "forms:primitive",
                        "add:sum-equals-m", "add:wraps", "sub:borrows", "inv:some", "inv:none", "div:ok", "div:refused",
                        "pow:e=0", "pow:e=1", "pow:e-word", "pow:e-multiword", "mix:same-modulus", "mix:different-modulus",
                        "mix:panic"] + ([] if ctx.quick else ["modulus:>=25-words"]))
    for s in fw.stale_findings_check(ctx, [k["id"] for k in ctx.known if SPEC in k.get("properties", []) and "witness" in k]):
        fw.log("NOTE stale finding %s: its witness no longer fails on this tree" % s)
    return rc


GOOD = [
    {"op": "add", "m": {"s": 0, "m": [100]}, "a": {"s": 0, "m": [77]}, "b": {"s": 0, "m": [45]}},
    {"op": "mul", "m": {"s": 0, "m": [0] * 16 + [9]}, "a": {"s": 1, "m": [3] * 20}, "b": {"s": 0, "m": [7] * 18}},
    {"op": "pow", "m": {"s": 0, "m": [16, 39]}, "a": {"s": 0, "m": [17]}, "e": {"s": 0, "m": [15]}},
    {"op": "inv", "m": {"s": 0, "m": [16, 39]}, "a": {"s": 0, "m": [3]}},
    {"op": "inv", "m": {"s": 0, "m": [16, 39]}, "a": {"s": 0, "m": [4]}},
    {"op": "div", "m": {"s": 0, "m": [101]}, "a": {"s": 0, "m": [5]}, "b": {"s": 0, "m": [7]}},
    {"op": "mix", "m": {"s": 0, "m": [101]}, "m2": {"s": 0, "m": [101]}, "a": {"s": 0, "m": [5]}, "b": {"s": 0, "m": [7]}},
    {"op": "sub", "m": {"s": 0, "m": [1] + [0] * 23 + [1]}, "a": {"s": 0, "m": [5]}, "b": {"s": 0, "m": [9]}},
]


def selftest(ctx):
    """binding demonstration: one recorded field corrupted in each of five events; the monitor must flag exactly those"""
    std = fw.build("std64", "c13")
    p = write_cases(ctx.path("good.ndjson"), GOOD)
    tr = ctx.drive(std, ["--cases", p, "--n", "0"], "trace.ndjson")
    v0 = ctx.monitor("selftest-base", SPEC, MON[0], MON[1], tr)
    ev = [json.loads(l) for l in open(tr)]

    def bump(x):
        m = x["m"]
        if m:
            m[0] = (m[0] + 1) % 256 or 1
        else:
            m.append(1)

    bump(ev[0]["outs"][0]["out"]["v"]["r"])            # sum
    bump(ev[2]["outs"][0]["out"]["v"]["r"])            # power
    bump(ev[3]["outs"][0]["out"]["v"]["x"])            # inverse
    ev[4]["outs"][0]["out"]["v"] = {"some": 1, "x": {"s": 0, "m": [1]}}     # an inverse claimed for a non-invertible element
    ev[6]["outs"][0]["out"] = {"k": "ok", "v": {"r": {"s": 0, "m": [12]}}}   # mixed rings answered instead of refused
    tr2 = ctx.path("trace-corrupt.ndjson")
    with open(tr2, "w") as f:
        for e in ev:
            f.write(json.dumps(e) + "\n")
    v = ctx.monitor("selftest", SPEC, MON[0], MON[1], tr2)
    got = [b["i"] for b in v["bad"]]
    ok = v0["bad"] == [] and got == [1, 3, 4, 5, 7]
    print("SELFTEST %s: clean trace flagged %s; corrupted events [1, 3, 4, 5, 7] -> monitor flagged %s (%s)" %
          ("PASS" if ok else "FAIL", [b["i"] for b in v0["bad"]], got, [b["why"] for b in v["bad"]]))
    if ok:
        shutil.rmtree(ctx.rundir, ignore_errors=True)
    return 0 if ok else 2
