"""C07 Integer text and byte encodings round-trip and match the reference digits."""
import json
import os
import shutil
import sys
import framework as fw

# digits_per_word of integer/src/radix.rs for 64-bit words (power-of-two radices: 64 / log2 r)
DPW = [64, 40, 32, 27, 24, 22, 21, 20, 19, 18, 17, 17, 16, 16, 16, 15, 15, 15, 14, 14, 14, 14, 13, 13, 13, 13, 13, 13,
       13, 12, 12, 12, 12, 12, 12]
WITNESSES = ["F13", "F14", "F27"]


def _ndigits(text, radix):
    n = 0
    for c in text:
        if 48 <= c <= 57:
            d = c - 48
        elif 97 <= c <= 122:
            d = c - 87
        elif 65 <= c <= 90:
            d = c - 55
        else:
            continue
        n += 1 if d < radix else 0
    return n


def _numdigits(x, radix):
    n = 0
    while x:
        x //= radix
        n += 1
    return max(n, 1)


def cover(e):
    op = e["op"]
    cs = ["op:" + op, "src:" + e.get("src", "?")]
    if op == "fmt":
        cs.append("fmt:" + e["kind"])
        o = e["out"]
        if o["k"] != "ok":
            return cs + ["fmt:panic"]
        text, w = o["text"], e["w"]
        chars = sum(1 for c in text if c < 128 or c >= 192)
        radix = {"display": 10, "binary": 2, "octal": 8, "lhex": 16, "uhex": 16}.get(e["kind"], e["radix"])
        pow2 = radix & (radix - 1) == 0
        nw = fw.nwords(e["v"])
        cs.append("fmt:%s:%s" % ("pow2" if pow2 else "npow2", "0-1w" if nw <= 1 else "2w" if nw == 2 else "medium" if nw <= 15 else "large"))
        sign = 1 if (e["v"]["s"] == 1 or e["plus"]) else 0
        prefix = 2 if (e["alt"] and e["kind"] in ("binary", "octal", "lhex", "uhex")) else 0
        if w < 0 or chars > w:
            nd, padded = len(text) - sign - prefix, False
        else:
            nd = _numdigits(abs(fw.intval(e["v"])), radix)
            padded = nd + sign + prefix < w
        dpw = DPW[radix - 2]
        if not pow2 and nd > 16 * dpw:
            cs.append("fmt:npow2:divide-and-conquer")
        if nd > 2000:
            cs.append("fmt:sampled-residues")
        if e["hasprim"]:
            cs.append("fmt:primitive-oracle")
        if e["v"]["s"] == 1:
            cs.append("fmt:negative")
            if radix != 10:
                cs.append("fmt:negative-nondecimal")
        if not e["v"]["m"]:
            cs.append("fmt:zero")
        if prefix:
            cs.append("fmt:prefix")
        if e["alt"] and e["kind"] == "inradix" and e["radix"] > 10:
            cs.append("fmt:inradix-upper")
        if padded:
            if e["zero"]:
                cs.append("fmt:zero-pad")
            else:
                cs.append("fmt:fill-" + {"n": "right", "r": "right", "l": "left", "c": "center"}[e["align"]])
                if len(e["fill"]) > 1:
                    cs.append("fmt:multibyte-fill")
        if e["plus"]:
            cs.append("fmt:plus")
    elif op == "parse":
        cs.append("parse:fn:" + e["fn"])
        t = e["text"]
        kinds = set(o["out"]["k"] for o in e["outs"])
        for k in kinds:
            cs.append("parse:" + k)
        r = e["radix"]
        if "ok" in kinds:
            r = e["outs"][0]["out"].get("radix", r)
            pow2 = r & (r - 1) == 0
            nd = _ndigits(t, r)
            dpw = DPW[r - 2]
            cs.append("parse:%s:%s" % ("pow2" if pow2 else "npow2", "word" if nd <= dpw else "chunk" if (pow2 or nd <= 256 * dpw) else "divide-and-conquer"))
            if nd > 2000:
                cs.append("parse:sampled-residues")
            if 95 in t:
                cs.append("parse:underscore")
            if any(65 <= c <= 90 for c in t):
                cs.append("parse:uppercase")
            if t[:1] == [45]:
                cs.append("parse:negative")
            if t[:1] == [43]:
                cs.append("parse:plus")
            body = t[1:] if t[:1] in ([43], [45]) else t
            if e["fn"] in ("prefix", "default") and body[:2] in ([48, 98], [48, 111], [48, 120]) and r in (2, 8, 16):
                cs.append("parse:prefix")
        if any(c >= 128 for c in t):
            cs.append("parse:non-ascii")
        if not t:
            cs.append("parse:empty")
        if len(e["outs"]) > 1:
            cs.append("parse:forms-disagree")
        if sum(len(o["forms"]) for o in e["outs"]) > 1:
            cs.append("parse:multiple-forms")
    elif op == "to_bytes":
        cs.append("to_bytes:" + e["ty"] + ("-" if e["v"]["s"] == 1 else "+"))
        if e["out"]["k"] == "ok" and len(e["out"]["le"]) > len(e["v"]["m"]):
            cs.append("to_bytes:sign-byte")
    elif op == "from_bytes":
        cs.append("from_bytes:" + e["ty"] + ":" + e["endian"])
        b = e["bytes"]
        top = (b[-1] if e["endian"] == "le" else b[0]) if b else 0
        if e["ty"] == "I" and top >= 128:
            cs.append("from_bytes:negative")
        if len(b) > 16:
            cs.append("from_bytes:large")
    elif op == "to_chunks":
        cs.append("to_chunks:" + ("aligned" if e["cb"] % 64 == 0 else "unaligned"))
        if e["out"]["k"] == "ok" and len(e["out"]["chunks"]) > 1:
            cs.append("to_chunks:several")
    elif op == "from_chunks":
        if any(fw.intval(c).bit_length() > e["cb"] for c in e["chunks"]):
            cs.append("from_chunks:overlapping")
    return cs


def nontrivial(e):
    op = e["op"]
    if op == "fmt":
        return bool(e["v"]["m"])
    if op == "parse":
        return len(e["text"]) > 1
    if op in ("to_bytes", "to_chunks"):
        return bool(e["v"]["m"])
    if op == "from_bytes":
        return len(e["bytes"]) > 0
    return len(e.get("chunks", [])) > 0


REQUIRED = ["op:fmt", "op:parse", "op:to_bytes", "op:from_bytes", "op:to_chunks", "op:from_chunks", "src:gen", "src:rnd", "src:chain",
            "fmt:display", "fmt:binary", "fmt:octal", "fmt:lhex", "fmt:uhex", "fmt:inradix",
            "fmt:npow2:0-1w", "fmt:npow2:2w", "fmt:npow2:medium", "fmt:npow2:large", "fmt:npow2:divide-and-conquer",
            "fmt:pow2:0-1w", "fmt:pow2:2w", "fmt:pow2:large", "fmt:sampled-residues", "fmt:primitive-oracle",
            "fmt:negative-nondecimal", "fmt:zero", "fmt:prefix", "fmt:inradix-upper", "fmt:zero-pad", "fmt:fill-left",
            "fmt:fill-right", "fmt:fill-center", "fmt:multibyte-fill", "fmt:plus",
            "parse:fn:radix", "parse:fn:str", "parse:fn:prefix", "parse:fn:default", "parse:ok", "parse:err",
            "parse:npow2:word", "parse:npow2:chunk", "parse:npow2:divide-and-conquer", "parse:pow2:word", "parse:pow2:chunk",
            "parse:sampled-residues", "parse:underscore", "parse:uppercase", "parse:negative", "parse:plus", "parse:prefix",
            "parse:non-ascii", "parse:empty", "parse:multiple-forms",
            "to_bytes:I-", "to_bytes:I+", "to_bytes:U+", "to_bytes:sign-byte", "from_bytes:I:le", "from_bytes:I:be",
            "from_bytes:U:le", "from_bytes:U:be", "from_bytes:negative", "from_bytes:large",
            "to_chunks:aligned", "to_chunks:unaligned", "to_chunks:several", "from_chunks:overlapping"]

MC_ACTIONS = ["NoWidth", "WideEnough", "ZeroPad", "FillLeft", "FillRight", "FillCenter"]


def _mon(ctx, name, trace, **kw):
    return ctx.monitor(name, "C07", "Trace_C07.tla", "Trace_C07.cfg", trace, libs=("C01",), nontrivial=nontrivial,
                       cover=cover, **kw)


def run(ctx):
    drive = fw.build("std64", "c07")
    if ctx.replay:
        case = json.load(open(ctx.replay))["case"]
        p = ctx.path("replay-case.ndjson")
        open(p, "w").write(json.dumps(case) + "\n")
        tr = ctx.drive(drive, ["--cases", p, "--n", "0"], "trace-replay.ndjson")
        _mon(ctx, "replay", tr)
        return ctx.finish()
    # algorithm layer: the padding / sign / prefix logic of fmt/mod.rs against TextDef!Layout, exhaustively
    mcfg = fw.write_cfg(ctx.path("MC_FmtLayout.cfg"), invariants=["Conforms", "OneBranch"],
                        constants={"MaxDigits": ctx.pick(6, 8), "MaxWidth": ctx.pick(9, 14)})
    ctx.mc("mc-fmtlayout", "C07", "FmtLayoutAlg.tla", mcfg, workers=4, required_actions=MC_ACTIONS)
    # digit extraction / packing for the power-of-two radices at word level (digit sizes that do and do not divide the word)
    for nm, w, lrs, mw, ms in [("w4", 4, "{1, 2, 3}", 4, 5)] + ([] if ctx.quick else [("w5", 5, "{1, 2, 3, 4}", 3, 5), ("w6", 6, "{4, 5}", 3, 4)]):
        rcfg = fw.write_cfg(ctx.path("MC_RadixPow2Alg_%s.cfg" % nm), invariants=["PrintOK", "RoundTripOK", "ParseOK"],
                            constants={"W": w, "LogRadices": lrs, "MaxWords": mw, "MaxStr": ms})
        ctx.mc("mc-radixpow2-" + nm, "C07", "RadixPow2Alg.tla", rcfg, workers=4)
    # length bookkeeping of the divide-and-conquer parser (power table, splits), every length up to MaxLen for two chunk sizes
    for ch, ml in ((5, ctx.pick(700, 4000)), (8, ctx.pick(600, 3000))):
        pcfg = fw.write_cfg(ctx.path("MC_ParseDcAlg_%d.cfg" % ch), invariants=["TableOK", "DcOK"], constants={"Chunk": ch, "MaxLen": ml})
        ctx.mc("mc-parsedc-%d" % ch, "C07", "ParseDcAlg.tla", pcfg, workers=2)
    # to_chunks / from_chunks at word level: which words each chunk is copied from, masks, shifts, buffer sizes
    ccfg = fw.write_cfg(ctx.path("MC_ChunksAlg.cfg"), invariants=["ChunksOK"],
                        constants={"W": 3, "MaxWords": ctx.pick(4, 5), "MaxChunkBits": ctx.pick(13, 16)})
    ctx.mc("mc-chunks", "C07", "ChunksAlg.tla", ccfg, workers=4)
    acfg = fw.write_cfg(ctx.path("MC_ChunksAlg_arb.cfg"), spec="ArbSpec", invariants=["ArbOK"],
                        constants={"W": 3, "MaxWords": 2, "MaxChunkBits": ctx.pick(8, 12)})     # (2 * 12 + 6 bits stay inside TLC's integers)
    ctx.mc("mc-chunks-arb", "C07", "ChunksAlg.tla", acfg, workers=4)
    # byte encodings at byte / word level (two-bit bytes, two-byte words): every integer and every byte string of the scope
    bcfg = fw.write_cfg(ctx.path("MC_BytesAlg.cfg"), invariants=["EncodeOK", "DecodeOK"],
                        constants={"BB": 2, "WB": 2, "MaxBytes": ctx.pick(7, 9)})
    ctx.mc("mc-bytes", "C07", "BytesAlg.tla", bcfg, workers=4)
    if not ctx.quick:
        bcfg3 = fw.write_cfg(ctx.path("MC_BytesAlg_3.cfg"), invariants=["EncodeOK", "DecodeOK"], constants={"BB": 2, "WB": 3, "MaxBytes": 8})
        ctx.mc("mc-bytes-wb3", "C07", "BytesAlg.tla", bcfg3, workers=4)
    # the printer for radices that are not powers of two (word / double word / medium / large with its power tower, the
    # two-ended Debug form): deep towers over a tiny word, every radix over a six-bit word, the medium dispatch with CL = 4
    allr = "{" + ", ".join(str(r) for r in range(3, 37) if r & (r - 1)) + "}"
    for nm, w, cl, rs, mn, near in (("deep", 3, 2, "{3, 5, 6, 7}", ctx.pick(20000, 60000), 16000000),
                                    ("radices", 6, 2, allr, ctx.pick(5000, 12000), 260000),
                                    ("medium", 5, 4, "{3, 5, 6, 7, 10}", ctx.pick(20000, 60000), 2000000)):
        ncfg = fw.write_cfg(ctx.path("MC_PrintNp2Alg_%s.cfg" % nm), invariants=["PrintOK", "DoubleEndOK"],
                            constants={"W": w, "CL": cl, "Radices": rs, "MaxN": mn, "MaxNear": near})
        ctx.mc("mc-printnp2-" + nm, "C07", "PrintNp2Alg.tla", ncfg, workers=3)
    # spec -> impl: the partition enumerated by TLC
    radices = ctx.pick([2, 3, 7, 8, 10, 16, 29, 36], list(range(2, 37)))
    ctx.scope.update({"radices": radices, "thorough": not ctx.quick, "exact_digit_limit": 2000,
                      "mc": {"MaxDigits": ctx.pick(6, 8), "MaxWidth": ctx.pick(9, 14)}})
    gcfg = fw.write_cfg(ctx.path("Gen_C07.cfg"), invariants=["Emit"],
                        constants={"Radices": fw.tla_set(radices), "Thorough": "FALSE" if ctx.quick else "TRUE",
                                   "Seed": ctx.seed % 1000})
    cases, ncases = ctx.gen("gen", "C07", "Gen_C07.tla", gcfg, workers=4, libs=("C01",), timeout=1500)
    # witnesses of the open findings are part of every run
    wit = ctx.path("cases-witness.ndjson")
    with open(wit, "w") as f:
        for k in ctx.known:
            if "C07" in k.get("properties", []) and k.get("witness"):
                f.write(json.dumps(k["witness"]) + "\n")
    trw = ctx.drive(drive, ["--cases", wit, "--n", "0"], "trace-witness.ndjson") if os.path.getsize(wit) else None
    tr1 = ctx.drive(drive, ["--cases", cases, "--n", "0"], "trace-gen.ndjson")
    if trw:
        _mon(ctx, "mon-witness", trw)
    _mon(ctx, "mon-gen", tr1, timeout=3000)
    # impl -> spec: seeded random values, flags, strings, byte strings, chunks
    n = ctx.pick(3000, 12000)
    tr2 = ctx.drive(drive, ["--seed", str(ctx.seed), "--n", str(n), "--max-words", str(ctx.pick(40, 60))], "trace-rnd.ndjson")
    _mon(ctx, "mon-rnd", tr2, timeout=3000)
    rc = ctx.finish(
        rule="one event = one call of the text / byte / chunk API (every call form of a parse function grouped in one "
             "event); distinct = distinct (op, operands, flags, outcome); non-trivial = non-zero value / text longer "
             "than one byte / non-empty byte string",
        explanation="MC: fmt/mod.rs padding-sign-prefix branches vs TextDef!Layout for all flags x digit counts x widths. "
                    "GEN: TLC enumerates layout (values x traits x 32 flag combinations x widths, also against Rust's "
                    "primitive formatting logged by the harness), digit-count classes on both sides of the per-word, "
                    "16-word (print) / 256-word (parse) chunk and divide-and-conquer thresholds x radices x patterns in both "
                    "directions (print->parse, parse->print), grammar derivations with one-edit mutations, byte magnitudes "
                    "+-(256^k-1), +-256^k, +-(256^k/2), +-(256^k/2 +- 1) k=1..25, chunks. TRACE: seeded random driver. "
                    "Digits are recomputed exactly (Horner on BigNat) up to 2000 digits; longer numerals are SAMPLED: "
                    "agreement modulo six primes below 2^15 plus a digit-count / bit-length relation (can miss, never "
                    "falsely accuses).",
        required_cover=REQUIRED)
    stale = fw.stale_findings_check(ctx, WITNESSES)
    if stale and rc == 0:
        print("STALE-FINDING property=C07 %s: witness no longer fails but the entry is still open" % ",".join(stale), file=sys.stderr)
        if not os.environ.get("VERIF_REPO"):
            return 2
    return rc


def selftest(ctx):
    """binding demonstration: corrupt one recorded field in four events, the monitor must flag exactly those"""
    drive = fw.build("std64", "c07")
    tr = ctx.drive(drive, ["--seed", "5", "--n", "400", "--max-words", "12"], "trace.ndjson")
    v0 = ctx.monitor("selftest-base", "C07", "Trace_C07.tla", "Trace_C07.cfg", tr, libs=("C01",))
    base = set(b["i"] for b in v0["bad"])
    lines = open(tr).read().split("\n")
    want = {}
    for i, l in enumerate(lines, 1):
        if not l or i in base:
            continue
        e = json.loads(l)
        op = e["op"]
        if op in want.values():
            continue
        if op == "fmt" and e["out"]["k"] == "ok" and e["w"] < 0 and len(e["out"]["text"]) > 3:
            t = e["out"]["text"]
            t[-1] = 49 if t[-1] == 48 else 48          # last digit
        elif op == "parse" and e["outs"][0]["out"]["k"] == "ok" and e["outs"][0]["out"]["v"]["m"]:
            m = e["outs"][0]["out"]["v"]["m"]
            m[0] = (m[0] + 1) % 256 or 1
        elif op == "to_bytes" and e["out"]["k"] == "ok" and len(e["out"]["le"]) > 1:
            e["out"]["le"][0] ^= 1
        elif op == "to_chunks" and e["out"]["k"] == "ok" and len(e["out"]["chunks"]) > 1 and e["out"]["chunks"][0]["m"]:
            e["out"]["chunks"][0]["m"][0] ^= 1
        elif op == "from_bytes" and e["out"]["k"] == "ok" and e["out"]["v"]["m"]:
            e["out"]["v"]["s"] = 1 - e["out"]["v"]["s"]
        else:
            continue
        lines[i - 1] = json.dumps(e)
        want[i] = op
    open(tr, "w").write("\n".join(lines))
    v = ctx.monitor("selftest", "C07", "Trace_C07.tla", "Trace_C07.cfg", tr, libs=("C01",))
    got = set(b["i"] for b in v["bad"])
    ok = got == base | set(want) and len(want) == 5
    print("SELFTEST %s: corrupted events %s -> monitor flagged %s (baseline known-finding events: %s)" %
          ("PASS" if ok else "FAIL", sorted(want.items()), sorted(got - base), sorted(base)))
    if ok:
        shutil.rmtree(ctx.rundir, ignore_errors=True)
    return 0 if ok else 2
