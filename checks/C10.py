"""C10 Rounding to integers or to fewer digits picks the mathematically right neighbour.

Pipeline:
  1. MC_RoundOpsDef: the BigInt definitions of the trace monitor (NearestInt, ExpectedAdjust, floor/ceil/trunc
     on Rat) equal the native brute-force definitions of the models (exhaustive in a scope);
  2. Gen_C10_prim (MC_RoundTables: the six round_low_part tables, round_fract with its estimated-log2
     pre-filter, round_ratio) and Gen_C10_ops (FloatSplit: split_at_point_internal and its "smaller than one"
     shortcut, trunc/floor/ceil/round/fract/split_at_point, FBig::to_int, Repr::to_int, with_precision) are
     model checked against the definitions and print their states as conformance cases in the same pass;
  3. the harness executes every case (primitives in all six modes), Trace_C10 validates each result on
     exact rationals;
  4. seeded random floats (precision 1..60, exponents far below -precision, exact halves, just below one
     half), random RBig / Relaxed values, random primitive operands; thorough: round_fract at 9 000-40 000
     digits in bases 2 and 16 (the f32 pre-filter of the half test).
"""
import json
import os
import framework as fw

MODES = ["Zero", "Away", "Up", "Down", "HalfEven", "HalfAway"]
FOPS = ["trunc", "floor", "ceil", "round", "fract", "split", "to_int", "repr_to_int", "with_precision"]
ROPS = ["r_trunc", "r_floor", "r_ceil", "r_round", "r_fract", "r_split"]
WORKERS = 4
LIBS = ("C03",)      # RoundNative / RoundTables are shared with the C03 models


def ndigits(v, base):
    v, n = abs(v), 0
    while v:
        v //= base
        n += 1
    return n


def enrich(e):
    """derived operand facts used by the known-finding matcher (python ints, not dashu)"""
    if "dv" not in e and "a" in e and isinstance(e["a"], dict) and "sig" in e["a"]:
        e["dv"] = {"da": ndigits(fw.intval(e["a"]["sig"]), e["base"]), "ea": e["a"]["exp"], "prec": e["a"].get("prec", 0)}
    return e


def cover(e):
    op = e["op"]
    cs = ["op:" + op, "src:" + e["src"]]
    if "kind" in e:
        cs.append("kind:" + e["kind"])
    if "class" in e:
        cs.append("class:" + e["class"])
    for b in e.get("branch", []):
        cs.append("br:" + b)
    if e.get("drift"):
        cs.append("drift")
    if op in FOPS:
        cs += ["base:%d" % e["base"], "mode:" + e["mode"]]
        a = fw.intval(e["a"]["sig"])
        d, ex, p = ndigits(a, e["base"]), e["a"]["exp"], e["a"]["prec"]
        cs.append("sign:neg" if a < 0 else "sign:pos")
        if p == 1:
            cs.append("precision-1")
        if p == 0:
            cs.append("precision-unlimited")
        if ex >= 0:
            cs.append("x:integer")
        elif ex + d > 0:
            cs.append("x:point-inside-digits")
        elif ex + d == 0:
            cs.append("x:below-one")
        else:
            cs.append("x:below-1/B")
            if p != 0 and -ex > p + d:
                cs.append("x:more-leading-zeros-than-precision")
        if ex + d < -1 and op in ("round", "to_int", "fract"):
            cs.append("split-shortcut")
        if e["out"]["k"] != "ok":
            cs.append("panic")
        elif op in ("to_int", "repr_to_int", "with_precision"):
            cs.append("flag:" + e["out"]["v"]["flag"])
        if op == "with_precision":
            q = e["q"]
            cs.append("q:unlimited" if q == 0 else "q:grow" if (p != 0 and q >= p) else "q:shrink-noop" if q >= d else "q:shrink")
    elif op in ROPS:
        cs.append("ty:" + e["ty"])
        cs.append("sign:neg" if fw.intval(e["x"]["num"]) < 0 else "sign:pos")
    else:
        if op == "round_fract":
            cs.append("base:%d" % e["base"])
            if e["src"] == "huge":
                cs.append("huge-digits")
        for m in MODES:
            cs.append("adj:" + e["res"][m])
    return cs


def nontrivial(e):
    if e["op"] in FOPS:
        return fw.intval(e["a"]["sig"]) != 0 and e["a"]["exp"] < 0
    if e["op"] in ROPS:
        return e["x"]["den"]["m"] != [1]
    return fw.intval(e["f"] if e["op"] == "round_fract" else e["num"]) != 0


def status(ctx, fid):
    # development aid (like VERIF_REPO): model the repaired code before the finding entry is flipped to fixed
    if fid in os.environ.get("VERIF_ASSUME_FIXED", "").split(","):
        return "fixed"
    for k in ctx.known:
        if k["id"] == fid:
            return k.get("status")
    return None


def witnesses(ctx, ids):
    out = []
    for k in ctx.known:
        if k["id"] in ids and status(ctx, k["id"]) == "open":
            for w in (k.get("witnesses") or [k["witness"]]):
                w = dict(w)
                w["src"] = "wit"
                out.append(w)
    return out


def write_cases(ctx, name, cases, extra=()):
    cases = [c for c in cases if isinstance(c, dict)]
    cases.sort(key=lambda c: json.dumps(c, sort_keys=True))
    p = ctx.path("cases-%s.ndjson" % name)
    with open(p, "w") as f:
        for i, c in enumerate(list(extra) + cases):
            c.setdefault("id", i + 1)
            c.setdefault("src", "gen")
            f.write(json.dumps(c) + "\n")
    fw.log("[gen] %s: %d cases (+%d witnesses)" % (name, len(cases), len(extra)))
    return p, len(cases)


def monitor(ctx, name, trace, **kw):
    v = ctx.monitor(name, "C10", "Trace_C10.tla", "Trace_C10.cfg", trace, nontrivial=nontrivial, cover=cover,
                    libs=LIBS, **kw)
    if any(b["why"] == "operand-outside-precondition" for b in v["bad"]):
        raise fw.ToolError("harness produced an operand outside the property's precondition (tool error, not a verdict)")
    return v


def run(ctx):
    drive = fw.build("std64", "c10")
    if ctx.replay:
        case = json.load(open(ctx.replay))["case"]
        p = ctx.path("replay-case.ndjson")
        open(p, "w").write(json.dumps(case) + "\n")
        tr = ctx.drive(drive, ["--cases", p, "--n", "0"], "trace-replay.ndjson")
        monitor(ctx, "replay", tr)
        for ev, _, _ in ctx.violations:
            enrich(ev)
        return ctx.finish()

    f04_open = status(ctx, "F04") != "fixed"
    f90_open = status(ctx, "F90") != "fixed"
    modes = fw.tla_set(MODES)
    # 1. monitor definitions == native brute-force definitions
    cfg = fw.write_cfg(ctx.path("MC_RoundOpsDef.cfg"), invariants=["Agree"],
                       constants={"NMax": ctx.pick(40, 120), "DMax": ctx.pick(12, 24), "IMax": 3})
    ctx.mc("def-bigint-vs-native", "C10", "MC_RoundOpsDef.tla", cfg, workers=WORKERS, libs=LIBS)

    # 2. algorithm layer + case generation in one pass
    prim_scope = ctx.pick([204, 303, 1002], [207, 304, 1002, 1601])
    ops_scope = ctx.pick([203, 302, 1002], [204, 303, 1003, 1601])
    ctx.scope.update({"RoundTables": {"base*100+max fraction digits": prim_scope, "integer": "-IMax..IMax",
                                      "ratio denominators": "1..12 both signs"},
                      "FloatSplit": {"base*100+maxprec": ops_scope, "exponent": "-(p+4)..2", "SplitFix": not f04_open,
                                     "WPFix": not f90_open}})
    cfg = fw.write_cfg(ctx.path("Gen_C10_prim.cfg"), invariants=["Correct", "FilterSound", "Emit"],
                       constants={"Scope": fw.tla_set(prim_scope), "Modes": modes, "IMax": ctx.pick(4, 9), "DenMax": 12})
    r1 = ctx.mc("mc-gen-prim", "C10", "Gen_C10_prim.tla", cfg, workers=WORKERS, libs=LIBS, timeout=2400,
                required_actions=["PickFract", "PickRatio", "RunFract", "RunRatio"])
    cfg = fw.write_cfg(ctx.path("Gen_C10_ops.cfg"), invariants=["Correct", "Emit"],
                       constants={"Scope": fw.tla_set(ops_scope), "Modes": modes, "Ops": fw.tla_set(FOPS), "ExpLow": 4,
                                  "SplitFix": "FALSE" if f04_open else "TRUE",
                                  "WPFix": "FALSE" if f90_open else "TRUE", "Stride": ctx.pick(8, 20),
                                  "Seed": ctx.seed % 997})
    r2 = ctx.mc("mc-gen-ops", "C10", "Gen_C10_ops.tla", cfg, workers=WORKERS, libs=LIBS, timeout=2400,
                required_actions=["Pick", "RunInteger", "RunTiny", "RunSplit", "RunWithPrecision"])
    if f04_open:
        cfg = fw.write_cfg(ctx.path("MC_F04.cfg"), invariants=["F04Absent"],
                           constants={"Scope": "{1002}", "Modes": '{"HalfAway"}', "Ops": '{"round", "to_int"}', "ExpLow": 4,
                                      "SplitFix": "FALSE", "WPFix": "TRUE"})
        r = ctx.mc("mc-f04-by-model", "C10", "FloatSplit.tla", cfg, workers=2, libs=LIBS, expect_ok=False)
        ctx.notes.append("F04 exhibited by model checking FloatSplit(SplitFix=FALSE): %s" % bool(r.invariant_violated))
    if f90_open:
        cfg = fw.write_cfg(ctx.path("MC_F90.cfg"), invariants=["F90Absent"],
                           constants={"Scope": "{203}", "Modes": '{"Zero"}', "Ops": '{"with_precision"}', "ExpLow": 1,
                                      "SplitFix": "TRUE", "WPFix": "FALSE"})
        r = ctx.mc("mc-f90-by-model", "C10", "FloatSplit.tla", cfg, workers=2, libs=LIBS, expect_ok=False)
        ctx.notes.append("F90 exhibited by model checking FloatSplit(WPFix=FALSE): %s" % bool(r.invariant_violated))

    # 3. spec -> impl
    c1, n1 = write_cases(ctx, "prim", r1.tagged("GEN"))
    c2, n2 = write_cases(ctx, "ops", r2.tagged("GEN"), extra=witnesses(ctx, ("F04", "F90")))
    if n1 == 0 or n2 == 0:
        raise fw.ToolError("generator produced no cases")
    tr1 = ctx.drive(drive, ["--cases", c1, "--n", "0"], "trace-gen-prim.ndjson")
    monitor(ctx, "mon-gen-prim", tr1, timeout=2400)
    tr2 = ctx.drive(drive, ["--cases", c2, "--n", "0"], "trace-gen-ops.ndjson")
    monitor(ctx, "mon-gen-ops", tr2, timeout=2400)

    # 4. impl -> spec
    n = ctx.pick(4000, 60000)
    argv = ["--seed", str(ctx.seed), "--n", str(n), "--max-prec", "60", "--far", str(ctx.pick(300, 900))]
    # (the f32 pre-filter of the half test is only wrong - if it is - from several thousand digits on: part of every run)
    argv += ["--huge", ctx.pick("9000,24000", "9000,16500,33000,40000")]
    tr3 = ctx.drive(drive, argv, "trace-rnd.ndjson")
    monitor(ctx, "mon-rnd", tr3, timeout=3000)

    for ev, _, _ in ctx.violations:
        enrich(ev)
    req = ["op:" + o for o in FOPS + ROPS + ["round_fract", "round_ratio"]]
    req += ["base:%d" % b for b in (2, 3, 10, 16, 36)] + ["mode:" + m for m in MODES]
    req += ["src:gen", "src:rnd", "ty:RBig", "ty:Relaxed", "sign:neg", "sign:pos", "precision-1", "precision-unlimited", "x:integer",
            "x:point-inside-digits", "x:below-one", "x:below-1/B", "x:more-leading-zeros-than-precision", "split-shortcut",
            "flag:Exact", "flag:NoOp", "flag:AddOne", "flag:SubOne", "q:unlimited", "q:grow", "q:shrink", "q:shrink-noop",
            "adj:NoOp", "adj:AddOne", "adj:SubOne", "class:tie", "class:zero-fraction", "class:half", "class:below-1/B",
            "class:integer", "class:mixed", "kind:half", "kind:near-half", "kind:all-max", "kind:tie", "kind:near-tie",
            "kind:integer", "kind:below-one", "br:integer", "br:tiny", "br:split", "br:split-tiny", "br:shift", "br:shrink",
            "br:keep"]
    if f04_open or f90_open:
        req.append("src:wit")
    if not ctx.quick:
        pass
    req.append("huge-digits")
    return ctx.finish(
        rule="one event = one rounding operation on one value (FBig at one base/mode/precision, RBig/Relaxed) or one "
             "primitive call tuple evaluated in all six modes; distinct = distinct (op, operands, outcome); non-trivial = "
             "the value has a fractional part",
        explanation="MC_RoundTables (round.rs tables, round_fract with abstracted log2 estimates, round_ratio) and FloatSplit "
                    "(round_ops.rs / convert.rs split logic) are model checked against brute-force nearest-neighbour "
                    "definitions and print their states as cases; all cases and seeded random calls are validated by "
                    "Trace_C10 on exact BigInt rationals. MC_RoundOpsDef proves the monitor's definitions equal to the "
                    "native brute-force ones in its scope.",
        extra={"notes": ctx.notes},
        required_cover=req)


def selftest(ctx):
    """binding demonstration: corrupt one recorded integer result, one fraction, one primitive answer"""
    drive = fw.build("std64", "c10")
    tr = ctx.drive(drive, ["--seed", "23", "--n", "120", "--max-prec", "20", "--far", "40"], "trace.ndjson")
    v0 = ctx.monitor("selftest-base", "C10", "Trace_C10.tla", "Trace_C10.cfg", tr, libs=LIBS)
    base_bad = {b["i"] for b in v0["bad"]}
    lines = open(tr).read().split("\n")
    evs = [json.loads(x) for x in lines if x.strip()]

    def bump(iv):
        m = iv["m"]
        if m:
            m[0] = m[0] + 1 if m[0] < 255 else 254
        else:
            m.append(1)
    want = []
    done = set()
    for i, e in enumerate(evs):
        if (i + 1) in base_bad or i < 5:
            continue
        op = e["op"]
        if op in ("floor", "ceil", "trunc", "round") and "int" not in done and e["out"]["k"] == "ok" and e["a"]["exp"] < 0:
            # the integer result is returned as a float: bump its significand
            bump(e["out"]["v"]["sig"])
            done.add("int")
            want.append(i + 1)
        elif op in ("r_fract",) and "rfract" not in done:
            bump(e["out"]["v"]["num"])
            done.add("rfract")
            want.append(i + 1)
        elif op in ("round_fract", "round_ratio") and "prim" not in done:
            e["res"]["HalfEven"] = "AddOne" if e["res"]["HalfEven"] != "AddOne" else "NoOp"
            done.add("prim")
            want.append(i + 1)
        elif op == "to_int" and "flag" not in done and e["out"]["k"] == "ok":
            e["out"]["v"]["flag"] = "NoOp" if e["out"]["v"]["flag"] == "Exact" else "Exact"
            done.add("flag")
            want.append(i + 1)
        lines[i] = json.dumps(e)
    open(tr, "w").write("\n".join(lines))
    v = ctx.monitor("selftest", "C10", "Trace_C10.tla", "Trace_C10.cfg", tr, libs=LIBS)
    got = sorted({b["i"] for b in v["bad"]} - base_bad)
    ok = got == sorted(want) and len(want) == 4 and base_bad <= {b["i"] for b in v["bad"]}
    print("SELFTEST %s: corrupted events %s -> monitor newly flagged %s" % ("PASS" if ok else "FAIL", sorted(want), got))
    return 0 if ok else 2
